import LitexProofs.Cdc.Gray
/-
  Inductive invariant of the asynchronous FIFO model, with ghost (proof-only) unbounded counters.
-/
namespace Litex.Cdc
variable {α : Type}

/-- Ghost state: the unbounded history behind the wrapping pointers. -/
structure Ghost (α : Type) where
  acc : List α     -- every token accepted so far, oldest first; the unbounded produce counter is `acc.length`
  C   : Nat        -- unbounded consume counter (words read from the inner FIFO)
  Cw1 : Nat        -- consume-counter value whose Gray code sits in `cw1`
  Cw2 : Nat        -- … in `cw2` (`consume_wdomain`)
  Pr1 : Nat        -- produce-counter value whose Gray code sits in `pr1`
  Pr2 : Nat        -- … in `pr2` (`produce_rdomain`)

def gInit : Ghost α := { acc := [], C := 0, Cw1 := 0, Cw2 := 0, Pr1 := 0, Pr2 := 0 }

/-- Ghost update.  A first-stage flop that did not keep the *old* source value is credited with the *new*
    one (`gray_sample_mix_mod` shows there is no third possibility). -/
def gStep (k : Nat) (buffered : Bool) (z : α) (s : AFState α) (g : Ghost α) (i : AFIn α) : Ghost α :=
  let s' := afStep k buffered z s i
  let acc' := g.acc ++ accNow k s i
  let C' := if i.tr && rce buffered s i then g.C + 1 else g.C
  { acc := acc'
    C   := C'
    Cw1 := if i.tw then (if s'.cw1 = s.cq then g.C else C') else g.Cw1
    Cw2 := if i.tw then g.Cw1 else g.Cw2
    Pr1 := if i.tr then (if s'.pr1 = s.pq then g.acc.length else acc'.length) else g.Pr1
    Pr2 := if i.tr then g.Pr1 else g.Pr2 }

/-- The invariant (`afifo_inv`). -/
structure AFInv (k : Nat) (buffered : Bool) (s : AFState α) (g : Ghost α) : Prop where
  pbin : s.pbin = g.acc.length % 2 ^ (k + 1)
  pq   : s.pq = gray s.pbin
  cbin : s.cbin = g.C % 2 ^ (k + 1)
  cq   : s.cq = gray s.cbin
  cw1  : s.cw1 = gray (g.Cw1 % 2 ^ (k + 1))
  cw2  : s.cw2 = gray (g.Cw2 % 2 ^ (k + 1))
  pr1  : s.pr1 = gray (g.Pr1 % 2 ^ (k + 1))
  pr2  : s.pr2 = gray (g.Pr2 % 2 ^ (k + 1))
  o1   : g.Cw2 ≤ g.Cw1
  o2   : g.Cw1 ≤ g.C
  o3   : g.C ≤ g.Pr2
  o4   : g.Pr2 ≤ g.Pr1
  o5   : g.Pr1 ≤ g.acc.length
  o6   : g.acc.length ≤ g.Cw2 + 2 ^ k
  memlen : s.mem.length = 2 ^ k
  slots  : ∀ j, g.C ≤ j → j < g.acc.length → s.mem[j % 2 ^ k]? = g.acc[j]?
  radr   : s.radr = g.C % 2 ^ k
  buf    : s.bval = true → (buffered = true ∧ 1 ≤ g.C ∧ g.acc[g.C - 1]? = some s.bdat)

theorem inv_init (k : Nat) (buffered : Bool) (z : α) : AFInv k buffered (afInit k z) (gInit (α := α)) := by
  constructor <;> simp [afInit, gInit, gray_zero]

theorem writable_eq (k : Nat) (s : AFState α) : writable k s = wrBits k s.pq s.cw2 := rfl

theorem mod_mod_half (k n : Nat) : n % 2 ^ (k + 1) % 2 ^ k = n % 2 ^ k :=
  Nat.mod_mod_of_dvd n (Dvd.intro _ (by rw [Nat.pow_succ]))

theorem succ_mod_mod (n m : Nat) : (n % m + 1) % m = (n + 1) % m := Nat.mod_add_mod n m 1

/-- `produce.ce` implies that the FIFO is not full (as seen through the synchroniser). -/
theorem wce_room {k : Nat} {buffered : Bool} {s : AFState α} {g : Ghost α} (hk : 1 ≤ k)
    (h : AFInv k buffered s g) {i : AFIn α} (hw : wce k s i = true) : g.acc.length < g.Cw2 + 2 ^ k := by
  have h6 := h.o6
  by_contra hn
  have he : g.acc.length = g.Cw2 + 2 ^ k := by omega
  have hb : g.Cw2 % 2 ^ (k + 1) < 2 ^ (k + 1) := Nat.mod_lt _ (Nat.two_pow_pos _)
  have := full_not_writable k s.pbin (g.Cw2 % 2 ^ (k + 1)) hk hb
    (by rw [h.pbin, he, Nat.mod_add_mod])
  have hw' : writable k s = true := by
    unfold wce at hw; simp at hw; exact hw.1
  rw [writable_eq, h.pq, h.cw2, this] at hw'
  exact Bool.false_ne_true hw'

/-- `consume.ce` implies that the read side knows about at least one unread word. -/
theorem rce_avail {k : Nat} {buffered : Bool} {s : AFState α} {g : Ghost α}
    (h : AFInv k buffered s g) {i : AFIn α} (hr : rce buffered s i = true) : g.C < g.Pr2 := by
  have h3 := h.o3
  by_contra hn
  have he : g.C = g.Pr2 := by omega
  have hr' : ireadable s = true := by
    unfold rce at hr; simp at hr; exact hr.1
  unfold ireadable at hr'
  rw [h.cq, h.cbin, h.pr2, he] at hr'
  simp at hr'

theorem ireadable_avail {k : Nat} {buffered : Bool} {s : AFState α} {g : Ghost α}
    (h : AFInv k buffered s g) (hr : ireadable s = true) : g.C < g.Pr2 := by
  have h3 := h.o3
  by_contra hn
  have he : g.C = g.Pr2 := by omega
  unfold ireadable at hr
  rw [h.cq, h.cbin, h.pr2, he] at hr
  simp at hr


/-- The ghost value credited to a first-stage flop is consistent with what the flop holds. -/
theorem sample_ghost (w m n n' x : Nat) (hw : 1 ≤ w) (hn : n' = n ∨ n' = n + 1)
    (hx : x = mix m (gray (n % 2 ^ w)) (gray (n' % 2 ^ w))) :
    x = gray ((if x = gray (n % 2 ^ w) then n else n') % 2 ^ w) := by
  split
  · assumption
  · rename_i hne
    rcases hn with rfl | rfl
    · rw [mix_same] at hx; exact absurd hx hne
    · rcases gray_sample_mix_mod w n m hw with h | h
      · rw [h] at hx; exact absurd hx hne
      · rw [h] at hx; exact hx

section
variable {k : Nat} {b : Bool} (z : α) {s : AFState α} {g : Ghost α}

theorem cbinN_eq (h : AFInv k b s g) (i : AFIn α) :
    cbinN k b s i = (if rce b s i then g.C + 1 else g.C) % 2 ^ (k + 1) := by
  unfold cbinN; split <;> simp [h.cbin, succ_mod_mod]

theorem pbinN_eq (h : AFInv k b s g) (i : AFIn α) :
    pbinN k s i = (if wce k s i then g.acc.length + 1 else g.acc.length) % 2 ^ (k + 1) := by
  unfold pbinN; split <;> simp [h.pbin, succ_mod_mod]

theorem step_counters (h : AFInv k b s g) (i : AFIn α) :
    let s' := afStep k b z s i
    let g' := gStep k b z s g i
    s'.pbin = g'.acc.length % 2 ^ (k + 1) ∧ s'.pq = gray s'.pbin ∧
    s'.cbin = g'.C % 2 ^ (k + 1) ∧ s'.cq = gray s'.cbin := by
  have hc := cbinN_eq h i
  have hp := pbinN_eq h i
  cases htw : i.tw <;> cases htr : i.tr <;> cases hw : wce k s i <;> cases hr : rce b s i <;>
    simp [afStep, gStep, accNow, htw, htr, hw, hr, hp, hc, h.pbin, h.pq, h.cbin, h.cq]

theorem step_sync (hk : 1 ≤ k) (h : AFInv k b s g) (i : AFIn α) :
    let s' := afStep k b z s i
    let g' := gStep k b z s g i
    s'.cw1 = gray (g'.Cw1 % 2 ^ (k + 1)) ∧ s'.cw2 = gray (g'.Cw2 % 2 ^ (k + 1)) ∧
    s'.pr1 = gray (g'.Pr1 % 2 ^ (k + 1)) ∧ s'.pr2 = gray (g'.Pr2 % 2 ^ (k + 1)) := by
  have hc := cbinN_eq h i
  have hp := pbinN_eq h i
  refine ⟨?_, ?_, ?_, ?_⟩
  · cases htw : i.tw
    · simp [afStep, gStep, htw, h.cw1]
    · cases htr : i.tr
      · simp [afStep, gStep, htw, htr, h.cq, h.cbin]
      · simp only [afStep, gStep, htw, htr, if_true, Bool.true_and]
        rw [hc, h.cq, h.cbin]
        apply sample_ghost (k + 1) i.mw g.C _ _ (by omega) (by split <;> simp) rfl
  · cases htw : i.tw <;> simp [afStep, gStep, htw, h.cw1, h.cw2]
  · cases htr : i.tr
    · simp [afStep, gStep, htr, h.pr1]
    · cases htw : i.tw
      · simp [afStep, gStep, htw, htr, h.pq, h.pbin]
      · simp only [afStep, gStep, htw, htr, if_true, Bool.true_and, accNow, List.length_append]
        rw [hp, h.pq, h.pbin]
        have := sample_ghost (k + 1) i.mr g.acc.length (if wce k s i then g.acc.length + 1 else g.acc.length)
          _ (by omega) (by split <;> simp) rfl
        convert this using 4
        split <;> simp
  · cases htr : i.tr <;> simp [afStep, gStep, htr, h.pr1, h.pr2]

end

section
variable {k : Nat} {b : Bool} (z : α) {s : AFState α} {g : Ghost α}

theorem step_order (hk : 1 ≤ k) (h : AFInv k b s g) (i : AFIn α) :
    let g' := gStep k b z s g i
    g'.Cw2 ≤ g'.Cw1 ∧ g'.Cw1 ≤ g'.C ∧ g'.C ≤ g'.Pr2 ∧ g'.Pr2 ≤ g'.Pr1 ∧ g'.Pr1 ≤ g'.acc.length ∧
    g'.acc.length ≤ g'.Cw2 + 2 ^ k := by
  have hW := fun hw => wce_room hk h (i := i) hw
  have hR := fun hr => rce_avail h (i := i) hr
  have ⟨o1, o2, o3, o4, o5, o6⟩ := (⟨h.o1, h.o2, h.o3, h.o4, h.o5, h.o6⟩ :
    g.Cw2 ≤ g.Cw1 ∧ g.Cw1 ≤ g.C ∧ g.C ≤ g.Pr2 ∧ g.Pr2 ≤ g.Pr1 ∧ g.Pr1 ≤ g.acc.length ∧ g.acc.length ≤ g.Cw2 + 2 ^ k)
  cases htw : i.tw <;> cases htr : i.tr <;> cases hw : wce k s i <;> cases hr : rce b s i <;>
    simp only [gStep, accNow, htw, htr, hw, hr, Bool.true_and, Bool.false_and, Bool.and_self, if_true, if_false,
      List.length_append, List.length_cons, List.length_nil, Bool.false_eq_true, Nat.add_zero] <;>
    (try have hW' := hW hw) <;> (try have hR' := hR hr) <;>
    (repeat' split) <;> omega

end

section
variable {k : Nat} {b : Bool} (z : α) {s : AFState α} {g : Ghost α}

theorem step_C_le (i : AFIn α) : g.C ≤ (gStep k b z s g i).C := by
  simp only [gStep]; split <;> omega

theorem step_mem (hk : 1 ≤ k) (h : AFInv k b s g) (i : AFIn α) :
    let s' := afStep k b z s i
    let g' := gStep k b z s g i
    s'.mem.length = 2 ^ k ∧ ∀ j, g'.C ≤ j → j < g'.acc.length → s'.mem[j % 2 ^ k]? = g'.acc[j]? := by
  intro s' g'
  have hC : g.C ≤ g'.C := step_C_le z i
  have hlen := h.memlen
  cases hw : (i.tw && wce k s i)
  · have e1 : s'.mem = s.mem := by simp [s', afStep, hw]
    have e2 : g'.acc = g.acc := by simp [g', gStep, accNow, hw]
    rw [e1, e2]
    exact ⟨hlen, fun j h1 h2 => h.slots j (by omega) h2⟩
  · have e1 : s'.mem = s.mem.set (s.pbin % 2 ^ k) i.tok := by simp [s', afStep, hw]
    have e2 : g'.acc = g.acc ++ [i.tok] := by simp [g', gStep, accNow, hw]
    have hw' : wce k s i = true := by simp at hw; exact hw.2
    have hroom := wce_room hk h hw'
    have hpb : s.pbin % 2 ^ k = g.acc.length % 2 ^ k := by rw [h.pbin, mod_mod_half]
    rw [e1, e2]
    refine ⟨by simp [hlen], fun j h1 h2 => ?_⟩
    have hlt : g.acc.length % 2 ^ k < s.mem.length := by rw [hlen]; exact Nat.mod_lt _ (Nat.two_pow_pos k)
    by_cases hj : j = g.acc.length
    · subst hj
      rw [hpb, List.getElem?_set_self hlt]
      simp
    · have hj' : j < g.acc.length := by simp at h2; omega
      have hne : g.acc.length % 2 ^ k ≠ j % 2 ^ k := by
        have := mod_ne_of_lt_of_lt (a := j) (b := g.acc.length) (n := 2 ^ k) hj' (by have := h.o1; have := h.o2; omega)
        exact fun e => this e.symm
      rw [hpb, List.getElem?_set_ne hne, List.getElem?_append_left hj']
      exact h.slots j (by omega) hj'

theorem step_radr (h : AFInv k b s g) (i : AFIn α) :
    (afStep k b z s i).radr = (gStep k b z s g i).C % 2 ^ k := by
  have hc := cbinN_eq h i
  cases htr : i.tr <;> cases hr : rce b s i <;>
    simp [afStep, gStep, htr, hr, hc, h.radr, mod_mod_half]

/-- While `readable`, the registered read address points at the oldest unread word. -/
theorem memOut_eq (h : AFInv k b s g) (hr : ireadable s = true) : g.acc[g.C]? = some (memOut z s) := by
  have hlt := ireadable_avail h hr
  have hP : g.C < g.acc.length := by have := h.o4; have := h.o5; omega
  have := h.slots g.C (le_refl _) hP
  unfold memOut
  rw [h.radr, List.getD_eq_getElem?_getD, this, List.getElem?_eq_getElem hP]
  simp

theorem step_buf (h : AFInv k b s g) (i : AFIn α) :
    let s' := afStep k b z s i
    let g' := gStep k b z s g i
    s'.bval = true → (b = true ∧ 1 ≤ g'.C ∧ g'.acc[g'.C - 1]? = some s'.bdat) := by
  intro s' g' hv
  have hP : g.C ≤ g.acc.length := by have := h.o3; have := h.o4; have := h.o5; omega
  cases hl : (b && i.tr && ire b s i.ready)
  · -- no load: the buffer keeps its word, and the inner FIFO was not read
    have e1 : s'.bval = s.bval := by simp [s', afStep, hl]
    have e2 : s'.bdat = s.bdat := by simp [s', afStep, hl]
    rw [e1] at hv
    obtain ⟨hb, h1, h2⟩ := h.buf hv
    have hC : g'.C = g.C := by
      simp only [g', gStep]
      split
      · rename_i hc
        simp [rce, hb] at hc hl
        simp [hc.1, hc.2.2] at hl
      · rfl
    rw [hC, e2]
    refine ⟨hb, h1, ?_⟩
    simp only [g', gStep]
    rw [List.getElem?_append_left (by omega)]
    exact h2
  · have e1 : s'.bval = ireadable s := by simp [s', afStep, hl]
    have e2 : s'.bdat = memOut z s := by simp [s', afStep, hl]
    rw [e1] at hv
    simp at hl
    obtain ⟨⟨hb, htr⟩, hire⟩ := hl
    have hC : g'.C = g.C + 1 := by simp [g', gStep, rce, htr, hire, hv]
    have hlt := ireadable_avail h hv
    have hP' : g.C < g.acc.length := by have := h.o4; have := h.o5; omega
    rw [hC, e2]
    refine ⟨hb, by omega, ?_⟩
    simp only [g', gStep, Nat.add_sub_cancel]
    rw [List.getElem?_append_left hP']
    exact memOut_eq z h hv

theorem inv_step (hk : 1 ≤ k) (h : AFInv k b s g) (i : AFIn α) :
    AFInv k b (afStep k b z s i) (gStep k b z s g i) := by
  obtain ⟨c1, c2, c3, c4⟩ := step_counters z h i
  obtain ⟨s1, s2, s3, s4⟩ := step_sync z hk h i
  obtain ⟨o1, o2, o3, o4, o5, o6⟩ := step_order z hk h i
  obtain ⟨m1, m2⟩ := step_mem z hk h i
  exact ⟨c1, c2, c3, c4, s1, s2, s3, s4, o1, o2, o3, o4, o5, o6, m1, m2, step_radr z h i, step_buf z h i⟩


end


/-- Number of tokens handed over at `source` so far: what was read from the inner FIFO minus the word waiting
    in the output stage of `AsyncFIFOBuffered`. -/
def dcount (s : AFState α) (g : Ghost α) : Nat := g.C - (if s.bval then 1 else 0)

theorem take_succ_of_get {l : List α} {n : Nat} {a : α} (h : l[n]? = some a) :
    l.take (n + 1) = l.take n ++ [a] := by
  rw [List.take_add_one, h]; rfl

section
variable {k : Nat} {b : Bool} (z : α) {s : AFState α} {g : Ghost α}

theorem del_step (h : AFInv k b s g) (i : AFIn α) :
    (gStep k b z s g i).acc.take (dcount (afStep k b z s i) (gStep k b z s g i)) =
      g.acc.take (dcount s g) ++ delNow b z s i := by
  have hP : g.C ≤ g.acc.length := by have := h.o3; have := h.o4; have := h.o5; omega
  have hacc : (gStep k b z s g i).acc = g.acc ++ accNow k s i := rfl
  cases hb : b
  · -- unbuffered
    subst hb
    have hbv : s.bval = false := by
      cases hv : s.bval
      · rfl
      · have := (h.buf hv).1; simp at this
    have hbv' : (afStep k false z s i).bval = false := by simp [afStep, hbv]
    cases hc : (i.tr && rce false s i)
    · have hC : (gStep k false z s g i).C = g.C := by simp [gStep, hc]
      have hd : delNow false z s i = [] := by
        simp only [delNow, srcValid, rce, ire] at hc ⊢
        simp at hc ⊢
        intro h1 h2; simp [hc h1 h2]
      rw [hd, hacc]
      simp only [dcount, hbv, hbv', hC]
      simp [List.take_append_of_le_length hP]
    · simp at hc
      have hr : ireadable s = true := by have := hc.2; simp [rce] at this; exact this.1
      have hC : (gStep k false z s g i).C = g.C + 1 := by simp [gStep, hc]
      have hd : delNow false z s i = [memOut z s] := by
        have := hc.2
        simp [rce, ire] at this
        simp [delNow, srcValid, srcTok, hc.1, this]
      have hlt := ireadable_avail h hr
      have hP' : g.C + 1 ≤ g.acc.length := by have := h.o4; have := h.o5; omega
      rw [hd, hacc]
      simp only [dcount, hbv, hbv', hC]
      simp only [Bool.false_eq_true, if_false, Nat.sub_zero]
      rw [List.take_append_of_le_length hP', take_succ_of_get (memOut_eq z h hr)]
  · -- buffered
    subst hb
    cases htr : i.tr
    · have e1 : (afStep k true z s i).bval = s.bval := by simp [afStep, htr]
      have hC : (gStep k true z s g i).C = g.C := by simp [gStep, htr]
      have hd : delNow true z s i = [] := by simp [delNow, htr]
      rw [hd, hacc]
      simp only [dcount, e1, hC]
      rw [List.take_append_of_le_length (by omega)]; simp
    · cases hv : s.bval
      · -- output stage empty: loads, nothing delivered
        have e1 : (afStep k true z s i).bval = ireadable s := by simp [afStep, htr, ire, hv]
        have hd : delNow true z s i = [] := by simp [delNow, srcValid, hv]
        have hC : (gStep k true z s g i).C = if ireadable s then g.C + 1 else g.C := by
          simp [gStep, htr, rce, ire, hv]
        rw [hd, hacc]
        simp only [dcount, e1, hC, hv]
        cases hr : ireadable s <;> simp [List.take_append_of_le_length hP]
      · obtain ⟨_, h1, h2⟩ := h.buf hv
        cases hrd : i.ready
        · -- consumer stalls
          have e1 : (afStep k true z s i).bval = true := by simp [afStep, htr, ire, hv, hrd]
          have hd : delNow true z s i = [] := by simp [delNow, hrd]
          have hC : (gStep k true z s g i).C = g.C := by simp [gStep, htr, rce, ire, hv, hrd]
          rw [hd, hacc]
          simp only [dcount, e1, hC, hv]
          rw [List.take_append_of_le_length (by omega)]; simp
        · -- hand-over of the buffered word; reload
          have e1 : (afStep k true z s i).bval = ireadable s := by simp [afStep, htr, ire, hv, hrd]
          have hd : delNow true z s i = [s.bdat] := by simp [delNow, srcValid, srcTok, htr, hv, hrd]
          have hC : (gStep k true z s g i).C = if ireadable s then g.C + 1 else g.C := by
            simp [gStep, htr, rce, ire, hv, hrd]
          rw [hd, hacc]
          simp only [dcount, e1, hC, hv]
          have hget : g.acc.take (g.C - 1 + 1) = g.acc.take (g.C - 1) ++ [s.bdat] := take_succ_of_get h2
          have hcc : g.C - 1 + 1 = g.C := by omega
          rw [hcc] at hget
          cases hr : ireadable s <;> simp [List.take_append_of_le_length hP, hget]

end

/-! ### Whole schedules -/

def gRun (k : Nat) (b : Bool) (z : α) : AFState α → Ghost α → List (AFIn α) → Ghost α
  | _, g, [] => g
  | s, g, i :: is => gRun k b z (afStep k b z s i) (gStep k b z s g i) is

theorem inv_run (k : Nat) (b : Bool) (z : α) (hk : 1 ≤ k) (ins : List (AFIn α)) :
    ∀ (s : AFState α) (g : Ghost α), AFInv k b s g → AFInv k b (runFrom k b z s ins) (gRun k b z s g ins) := by
  induction ins with
  | nil => intro s g h; exact h
  | cons i is ih => intro s g h; exact ih _ _ (inv_step z hk h i)

theorem acc_run (k : Nat) (b : Bool) (z : α) (ins : List (AFIn α)) :
    ∀ (s : AFState α) (g : Ghost α), (gRun k b z s g ins).acc = g.acc ++ accepted k b z s ins := by
  induction ins with
  | nil => intro s g; simp [gRun, accepted]
  | cons i is ih =>
    intro s g
    simp only [gRun, accepted]
    rw [ih]
    simp [gStep, List.append_assoc]

theorem del_run (k : Nat) (b : Bool) (z : α) (hk : 1 ≤ k) (ins : List (AFIn α)) :
    ∀ (s : AFState α) (g : Ghost α), AFInv k b s g →
      (gRun k b z s g ins).acc.take (dcount (runFrom k b z s ins) (gRun k b z s g ins)) =
        g.acc.take (dcount s g) ++ delivered k b z s ins := by
  induction ins with
  | nil => intro s g _; simp [gRun, runFrom, delivered]
  | cons i is ih =>
    intro s g h
    simp only [gRun, runFrom, delivered]
    rw [ih _ _ (inv_step z hk h i), del_step z h i, List.append_assoc]


section
variable {k : Nat} {b : Bool} (z : α) {s : AFState α} {g : Ghost α}

theorem no_rw_collision_aux (hk : 1 ≤ k) (h : AFInv k b s g) (i : AFIn α)
    (hw : wce k s i = true) (hslot : s.pbin % 2 ^ k = cbinN k b s i % 2 ^ k) :
    s.pbin = cbinN k b s i ∧ (i.tr = true → ireadable (afStep k b z s i) = false) := by
  have hroom := wce_room hk h hw
  have hc := cbinN_eq h i
  obtain ⟨_, _, o3, o4, o5, _⟩ := step_order z hk h i
  obtain ⟨_, _, _, s4⟩ := step_sync z hk h i
  obtain ⟨_, _, c3, c4⟩ := step_counters z h i
  have ⟨p1, p2, p3, p4, p5⟩ := (⟨h.o1, h.o2, h.o3, h.o4, h.o5⟩ :
    g.Cw2 ≤ g.Cw1 ∧ g.Cw1 ≤ g.C ∧ g.C ≤ g.Pr2 ∧ g.Pr2 ≤ g.Pr1 ∧ g.Pr1 ≤ g.acc.length)
  -- X: the unbounded value of `consume.q_next_binary`
  obtain ⟨X, hX, hXle, hXge⟩ : ∃ X, (if rce b s i then g.C + 1 else g.C) = X ∧ X ≤ g.acc.length ∧ g.C ≤ X := by
    refine ⟨_, rfl, ?_, ?_⟩
    · split
      · rename_i hr; have := rce_avail h hr; omega
      · omega
    · split <;> omega
  rw [hX] at hc
  have heq : g.acc.length = X := by
    by_contra hne
    have hlt : X < g.acc.length := by omega
    have := mod_ne_of_lt_of_lt (n := 2 ^ k) hlt (by omega)
    rw [h.pbin, hc, mod_mod_half, mod_mod_half] at hslot
    exact this hslot.symm
  refine ⟨by rw [h.pbin, hc, heq], fun htr => ?_⟩
  have e1 : (gStep k b z s g i).Pr2 = g.Pr1 := by simp [gStep, htr]
  have e2 : (gStep k b z s g i).C = g.acc.length := by
    rw [heq, ← hX]; simp [gStep, htr]
  have : (gStep k b z s g i).C = (gStep k b z s g i).Pr2 := by omega
  unfold ireadable
  rw [c4, c3, s4, this]
  simp


end

theorem capacity_aux {k : Nat} {b : Bool} {s : AFState α} {g : Ghost α} (h : AFInv k b s g) :
    g.acc.length ≤ (g.acc.take (dcount s g)).length + 2 ^ k + (if b then 1 else 0) := by
  rw [List.length_take]
  have := h.o1; have := h.o2; have := h.o3; have := h.o4; have := h.o5; have := h.o6
  unfold dcount
  cases hv : s.bval
  · simp; omega
  · have := (h.buf hv).1
    simp [this]; omega

/-- From reset: the ghost history *is* the list of accepted tokens, and the delivered tokens are its first
    `dcount` elements. -/
theorem run_init_facts (k : Nat) (b : Bool) (z : α) (hk : 1 ≤ k) (ins : List (AFIn α)) :
    ∃ g : Ghost α, AFInv k b (runFrom k b z (afInit k z) ins) g ∧
      g.acc = accepted k b z (afInit k z) ins ∧
      g.acc.take (dcount (runFrom k b z (afInit k z) ins) g) = delivered k b z (afInit k z) ins := by
  refine ⟨gRun k b z (afInit k z) gInit ins, inv_run k b z hk ins _ _ (inv_init k b z), ?_, ?_⟩
  · rw [acc_run]; simp [gInit]
  · rw [del_run k b z hk ins _ _ (inv_init k b z)]; simp [gInit]

/-! ### Progress (liveness in clock ticks) -/

section
variable {k : Nat} {b : Bool} (z : α) {s : AFState α} {g : Ghost α}

/-- Under the invariant `readable` is exact: it is low only if the read side has consumed everything it
    knows about (uses injectivity of the Gray code). -/
theorem not_ireadable_eq (h : AFInv k b s g) (hr : ireadable s = false) : g.C = g.Pr2 := by
  unfold ireadable at hr
  simp at hr
  rw [h.cq, h.cbin, h.pr2] at hr
  have hm := gray_injective _ _ hr
  by_contra hne
  have hlt : g.C < g.Pr2 := by have := h.o3; omega
  have hlt2 : g.Pr2 < g.C + 2 ^ (k + 1) := by
    have := h.o1; have := h.o2; have := h.o4; have := h.o5; have := h.o6
    have : 2 ^ (k + 1) = 2 * 2 ^ k := by rw [Nat.pow_succ]; omega
    have := Nat.two_pow_pos k
    omega
  exact mod_ne_of_lt_of_lt hlt hlt2 hm

/-- Monotonicity and progress of the read-side view of the produce pointer in one instant. -/
theorem step_pr_progress (_hk : 1 ≤ k) (h : AFInv k b s g) (i : AFIn α) :
    let g' := gStep k b z s g i
    g.Pr1 ≤ g'.Pr1 ∧ g.Pr2 ≤ g'.Pr2 ∧ g.acc.length ≤ g'.acc.length ∧
      (i.tr = true → g.acc.length ≤ g'.Pr1 ∧ g'.Pr2 = g.Pr1) := by
  have ⟨p4, p5⟩ := (⟨h.o4, h.o5⟩ : g.Pr2 ≤ g.Pr1 ∧ g.Pr1 ≤ g.acc.length)
  cases htr : i.tr <;> simp only [gStep, htr, if_true, List.length_append] <;>
    (repeat' split) <;> simp <;> omega

/-- Two read-clock edges after a token has been accepted, the read side knows about it — whatever the write
    clock does meanwhile and however the synchroniser flops resolve. -/
theorem pr2_progress (hk : 1 ≤ k) (P0 : Nat) (ins : List (AFIn α)) :
    ∀ (s : AFState α) (g : Ghost α), AFInv k b s g → P0 ≤ g.acc.length →
      (P0 ≤ g.Pr2 → P0 ≤ (gRun k b z s g ins).Pr2) ∧
      (P0 ≤ g.Pr1 → 1 ≤ readTicks ins → P0 ≤ (gRun k b z s g ins).Pr2) ∧
      (2 ≤ readTicks ins → P0 ≤ (gRun k b z s g ins).Pr2) := by
  induction ins with
  | nil => intro s g _ _; simp [gRun, readTicks]
  | cons i is ih =>
    intro s g h hP
    obtain ⟨m1, m2, m3, m4⟩ := step_pr_progress z hk h i
    obtain ⟨ih1, ih2, ih3⟩ := ih _ _ (inv_step z hk h i) (le_trans hP m3)
    simp only [gRun, readTicks]
    refine ⟨fun h0 => ih1 (le_trans h0 m2), fun h0 ht => ?_, fun ht => ?_⟩
    · cases htr : i.tr
      · simp [htr] at ht
        exact ih2 (le_trans h0 m1) ht
      · exact ih1 (by rw [(m4 htr).2]; exact h0)
    · cases htr : i.tr
      · simp [htr] at ht
        exact ih3 ht
      · simp [htr] at ht
        exact ih2 (le_trans hP (m4 htr).1) (by omega)

end

section
variable {k : Nat} (z : α) {s : AFState α} {g : Ghost α}

/-- "Token number `P0` is on offer or already handed over" for the buffered variant. -/
def BGood (P0 : Nat) (s : AFState α) (g : Ghost α) : Prop := s.bval = true ∨ P0 ≤ dcount s g

theorem bgood_idle (_h : AFInv k true s g) (i : AFIn α) (htr : i.tr = false) (P0 : Nat)
    (hg : BGood P0 s g) : BGood P0 (afStep k true z s i) (gStep k true z s g i) := by
  have e1 : (afStep k true z s i).bval = s.bval := by simp [afStep, htr]
  have e2 : (gStep k true z s g i).C = g.C := by simp [gStep, htr]
  unfold BGood dcount at *
  rw [e1, e2]; exact hg

theorem bgood_tick (h : AFInv k true s g) (i : AFIn α) (htr : i.tr = true) (P0 : Nat)
    (hP : P0 ≤ g.Pr2) : BGood P0 (afStep k true z s i) (gStep k true z s g i) := by
  unfold BGood
  cases hl : ire true s i.ready
  · left
    simp [ire] at hl
    simp [afStep, htr, ire, hl]
  · have e1 : (afStep k true z s i).bval = ireadable s := by simp [afStep, htr, hl]
    cases hr : ireadable s
    · right
      have hC := not_ireadable_eq h hr
      have e2 : (gStep k true z s g i).C = g.C := by simp [gStep, rce, hr]
      unfold dcount
      rw [e1, hr, e2]; simp; omega
    · left; rw [e1]; exact hr

theorem buf_progress (hk : 1 ≤ k) (P0 : Nat) (ins : List (AFIn α)) :
    ∀ (s : AFState α) (g : Ghost α), AFInv k true s g → P0 ≤ g.acc.length →
      (BGood P0 s g → P0 ≤ g.Pr2 → BGood P0 (runFrom k true z s ins) (gRun k true z s g ins)) ∧
      (P0 ≤ g.Pr2 → 1 ≤ readTicks ins → BGood P0 (runFrom k true z s ins) (gRun k true z s g ins)) ∧
      (P0 ≤ g.Pr1 → 2 ≤ readTicks ins → BGood P0 (runFrom k true z s ins) (gRun k true z s g ins)) ∧
      (3 ≤ readTicks ins → BGood P0 (runFrom k true z s ins) (gRun k true z s g ins)) := by
  induction ins with
  | nil => intro s g _ _; simp [gRun, runFrom, readTicks]; exact fun h _ => h
  | cons i is ih =>
    intro s g h hP
    obtain ⟨m1, m2, m3, m4⟩ := step_pr_progress z hk h i
    obtain ⟨ihA, ihB, ihC, ihD⟩ := ih _ _ (inv_step z hk h i) (le_trans hP m3)
    simp only [gRun, runFrom, readTicks]
    cases htr : i.tr
    · simp only [Bool.false_eq_true, if_false, Nat.zero_add]
      exact ⟨fun hg h2 => ihA (bgood_idle z h i htr P0 hg) (le_trans h2 m2),
             fun h2 ht => ihB (le_trans h2 m2) ht,
             fun h1 ht => ihC (le_trans h1 m1) ht,
             fun ht => ihD ht⟩
    · simp only [if_true]
      obtain ⟨m5, m6⟩ := m4 htr
      exact ⟨fun _ h2 => ihA (bgood_tick z h i htr P0 h2) (le_trans h2 m2),
             fun h2 _ => ihA (bgood_tick z h i htr P0 h2) (le_trans h2 m2),
             fun h1 ht => ihB (by rw [m6]; exact h1) (by omega),
             fun ht => ihC (le_trans hP m5) (by omega)⟩

end

/-! ### Schedules in two parts -/

theorem runFrom_append (k : Nat) (b : Bool) (z : α) (x y : List (AFIn α)) :
    ∀ s, runFrom k b z s (x ++ y) = runFrom k b z (runFrom k b z s x) y := by
  induction x with
  | nil => intro s; rfl
  | cons i is ih => intro s; simp [runFrom, ih]

theorem gRun_append (k : Nat) (b : Bool) (z : α) (x y : List (AFIn α)) :
    ∀ s g, gRun k b z s g (x ++ y) = gRun k b z (runFrom k b z s x) (gRun k b z s g x) y := by
  induction x with
  | nil => intro s g; rfl
  | cons i is ih => intro s g; simp [runFrom, gRun, ih]

/-- Facts about a schedule in two parts `x ++ y` from reset. -/
theorem run_split_facts (k : Nat) (b : Bool) (z : α) (hk : 1 ≤ k) (x y : List (AFIn α)) :
    ∃ g1 g2 : Ghost α,
      AFInv k b (runFrom k b z (afInit k z) x) g1 ∧ g1.acc = accepted k b z (afInit k z) x ∧
      g2 = gRun k b z (runFrom k b z (afInit k z) x) g1 y ∧
      AFInv k b (runFrom k b z (afInit k z) (x ++ y)) g2 ∧
      g2.acc.take (dcount (runFrom k b z (afInit k z) (x ++ y)) g2) = delivered k b z (afInit k z) (x ++ y) := by
  refine ⟨gRun k b z (afInit k z) gInit x, gRun k b z (afInit k z) gInit (x ++ y),
    inv_run k b z hk x _ _ (inv_init k b z), ?_, gRun_append k b z x y _ _,
    inv_run k b z hk (x ++ y) _ _ (inv_init k b z), ?_⟩
  · rw [acc_run]; simp [gInit]
  · rw [del_run k b z hk (x ++ y) _ _ (inv_init k b z)]; simp [gInit]

theorem dcount_le_acc {k : Nat} {b : Bool} {s : AFState α} {g : Ghost α} (h : AFInv k b s g) :
    dcount s g ≤ g.acc.length := by
  have := h.o3; have := h.o4; have := h.o5
  unfold dcount; omega


end Litex.Cdc
