import LitexProofs.Cdc.AsyncFifo
/-
  Common-reset variant: a reset that is held long enough returns the FIFO to a state satisfying the invariant
  with an empty history, from ANY state (also a corrupted one).
-/
namespace Litex.Cdc
variable {α : Type}

theorem afStepR_false (k : Nat) (b : Bool) (z : α) (s : AFState α) (i : AFIn α) :
    afStepR k b z s i false = afStep k b z s i := by
  simp only [afStepR, afStep, Bool.false_eq_true, if_false, Bool.and_false]
  cases i.tw <;> cases h : wce k s i <;> simp

/-- Write-domain registers in reset state. -/
def WZero (k : Nat) (z : α) (s : AFState α) : Prop := s.pbin = 0 ∧ s.pq = 0 ∧ s.mem = List.replicate (2 ^ k) z
/-- Read-domain registers in reset state. -/
def RZero (s : AFState α) : Prop := s.cbin = 0 ∧ s.cq = 0 ∧ s.radr = 0 ∧ s.bval = false

section
variable (k : Nat) (b : Bool) (z : α)

theorem rst_w (s : AFState α) (i : AFIn α) : (i.tw = true ∨ WZero k z s) → WZero k z (afStepR k b z s i true) := by
  intro h
  cases htw : i.tw
  · rcases h with h | h
    · rw [htw] at h; exact absurd h (by simp)
    · simpa [WZero, afStepR, htw] using h
  · simp [WZero, afStepR, htw, gray_zero]

theorem rst_r (s : AFState α) (i : AFIn α) : (i.tr = true ∨ RZero s) → RZero (afStepR k b z s i true) := by
  intro h
  cases htr : i.tr
  · rcases h with h | h
    · rw [htr] at h; exact absurd h (by simp)
    · obtain ⟨h1, h2, h3, h4⟩ := h
      simp [RZero, afStepR, htr, h1, h2, h3, h4]
  · simp [RZero, afStepR, htr, gray_zero]

theorem mix_zero (m : Nat) : mix m 0 0 = 0 := by simp [mix]

/-- Read-side synchroniser under reset once the write pointer is zero. -/
theorem rst_pr (s : AFState α) (i : AFIn α) (hw : s.pq = 0) :
    let s' := afStepR k b z s i true
    (i.tr = true → s'.pr1 = 0 ∧ s'.pr2 = s.pr1) ∧ (i.tr = false → s'.pr1 = s.pr1 ∧ s'.pr2 = s.pr2) := by
  cases htr : i.tr <;> cases htw : i.tw <;> simp [afStepR, htr, htw, hw, gray_zero, mix_zero]

/-- Write-side synchroniser under reset once the read pointer is zero. -/
theorem rst_cw (s : AFState α) (i : AFIn α) (hr : s.cq = 0) :
    let s' := afStepR k b z s i true
    (i.tw = true → s'.cw1 = 0 ∧ s'.cw2 = s.cw1) ∧ (i.tw = false → s'.cw1 = s.cw1 ∧ s'.cw2 = s.cw2) := by
  cases htr : i.tr <;> cases htw : i.tw <;> simp [afStepR, htr, htw, hr, gray_zero, mix_zero]

/-- First part of a reset: after one edge of each clock all resettable registers are zero. -/
theorem rst_zero (xs : List (AFIn α)) : ∀ s : AFState α,
    (1 ≤ writeTicks xs ∨ WZero k z s) → (1 ≤ readTicks xs ∨ RZero s) →
      WZero k z (runRst k b z s xs) ∧ RZero (runRst k b z s xs) := by
  induction xs with
  | nil =>
    intro s h1 h2
    simp only [writeTicks, readTicks] at h1 h2
    exact ⟨by rcases h1 with h | h; omega; exact h, by rcases h2 with h | h; omega; exact h⟩
  | cons i is ih =>
    intro s h1 h2
    simp only [runRst]
    apply ih
    · cases htw : i.tw
      · rcases h1 with h | h
        · left; simpa [writeTicks, htw] using h
        · right; exact rst_w k b z s i (Or.inr h)
      · right; exact rst_w k b z s i (Or.inl htw)
    · cases htr : i.tr
      · rcases h2 with h | h
        · left; simpa [readTicks, htr] using h
        · right; exact rst_r k b z s i (Or.inr h)
      · right; exact rst_r k b z s i (Or.inl htr)

/-- Second part: two more edges of each clock flush the (reset-less) synchroniser flops. -/
theorem rst_flush (xs : List (AFIn α)) : ∀ s : AFState α, WZero k z s → RZero s →
    let e := runRst k b z s xs
    (WZero k z e ∧ RZero e) ∧
    ((s.pr1 = 0 ∧ s.pr2 = 0) ∨ (s.pr1 = 0 ∧ 1 ≤ readTicks xs) ∨ 2 ≤ readTicks xs → e.pr1 = 0 ∧ e.pr2 = 0) ∧
    ((s.cw1 = 0 ∧ s.cw2 = 0) ∨ (s.cw1 = 0 ∧ 1 ≤ writeTicks xs) ∨ 2 ≤ writeTicks xs → e.cw1 = 0 ∧ e.cw2 = 0) := by
  induction xs with
  | nil =>
    intro s hw hr
    simp only [runRst, readTicks, writeTicks]
    refine ⟨⟨hw, hr⟩, ?_, ?_⟩
    · rintro (h | h | h)
      · exact h
      · omega
      · omega
    · rintro (h | h | h)
      · exact h
      · omega
      · omega
  | cons i is ih =>
    intro s hw hr
    have hw' := rst_w k b z s i (Or.inr hw)
    have hr' := rst_r k b z s i (Or.inr hr)
    obtain ⟨ih0, ih1, ih2⟩ := ih _ hw' hr'
    obtain ⟨p1, p2⟩ := rst_pr k b z s i hw.2.1
    obtain ⟨c1, c2⟩ := rst_cw k b z s i hr.2.1
    simp only [runRst]
    refine ⟨ih0, ?_, ?_⟩
    · intro h
      apply ih1
      cases htr : i.tr
      · obtain ⟨e1, e2⟩ := p2 htr
        rw [e1, e2]
        simpa [readTicks, htr] using h
      · obtain ⟨e1, e2⟩ := p1 htr
        rw [e1, e2]
        rcases h with h | h | h
        · left; exact ⟨rfl, h.1⟩
        · left; exact ⟨rfl, h.1⟩
        · right; left; refine ⟨rfl, ?_⟩; simp [readTicks, htr] at h; omega
    · intro h
      apply ih2
      cases htw : i.tw
      · obtain ⟨e1, e2⟩ := c2 htw
        rw [e1, e2]
        simpa [writeTicks, htw] using h
      · obtain ⟨e1, e2⟩ := c1 htw
        rw [e1, e2]
        rcases h with h | h | h
        · left; exact ⟨rfl, h.1⟩
        · left; exact ⟨rfl, h.1⟩
        · right; left; refine ⟨rfl, ?_⟩; simp [writeTicks, htw] at h; omega

theorem runRst_append (x y : List (AFIn α)) : ∀ s : AFState α,
    runRst k b z s (x ++ y) = runRst k b z (runRst k b z s x) y := by
  induction x with
  | nil => intro s; rfl
  | cons i is ih => intro s; simp [runRst, ih]

/-- **Common reset.**  From an arbitrary state: one edge of each clock under reset, then two more of each, and
    the invariant holds again with an empty history. -/
theorem rst_inv (x y : List (AFIn α)) (s : AFState α)
    (hx : 1 ≤ writeTicks x ∧ 1 ≤ readTicks x) (hy : 2 ≤ writeTicks y ∧ 2 ≤ readTicks y) :
    AFInv k b (runRst k b z s (x ++ y)) (gInit (α := α)) := by
  rw [runRst_append]
  obtain ⟨hw, hr⟩ := rst_zero k b z x s (Or.inl hx.1) (Or.inl hx.2)
  obtain ⟨⟨hw', hr'⟩, hp, hc⟩ := rst_flush k b z y _ hw hr
  obtain ⟨p1, p2⟩ := hp (Or.inr (Or.inr hy.2))
  obtain ⟨c1, c2⟩ := hc (Or.inr (Or.inr hy.1))
  obtain ⟨w1, w2, w3⟩ := hw'
  obtain ⟨r1, r2, r3, r4⟩ := hr'
  constructor <;> simp [gInit, gray_zero, *]

end
end Litex.Cdc
