import LitexModel.Cdc.Monitor
import LitexProofs.Cdc.PulseSync
import LitexProofs.Cdc.Gray
namespace Litex.Cdc

theorem mon_lat_run (w : Nat) (xs : List MonIn) : ∀ s, (monRun w s xs).lat = psRun s.lat (xs.map monLatIn) := by
  induction xs with
  | nil => intro s; rfl
  | cons x xs ih => intro s; simp only [monRun, List.map_cons, psRun, ih]; rfl

theorem mon_latches (w : Nat) (xs : List MonIn) : ∀ s, monLatches w s xs = psSeen s.lat (xs.map monLatIn) := by
  induction xs with
  | nil => intro s; rfl
  | cons x xs ih => intro s; simp only [monLatches, List.map_cons, psSeen, ih]; rfl

/-- While the latched count is stable, the status flops fill up with it: after one sys edge the first flop,
    after two the CSR status. -/
theorem mon_status_progress (w : Nat) (xs : List MonIn) : ∀ s, LatchedStable w s xs →
    (monRun w s xs).latd = s.latd ∧
    ((s.s1 = s.latd ∧ s.s2 = s.latd) ∨ (s.s1 = s.latd ∧ 1 ≤ monSysTicks xs) ∨ 2 ≤ monSysTicks xs →
      (monRun w s xs).s1 = s.latd ∧ (monRun w s xs).s2 = s.latd) := by
  induction xs with
  | nil =>
    intro s _
    refine ⟨rfl, ?_⟩
    simp only [monRun, monSysTicks]
    rintro (h | h | h)
    · exact h
    · omega
    · omega
  | cons x xs ih =>
    intro s hs
    obtain ⟨h0, hs'⟩ := hs
    have hl : (monStep w s x).latd = s.latd := by
      simp only [monStep]; cases htc : x.tc
      · simp
      · simpa using h0 htc
    have h1 : x.ts = true → (monStep w s x).s1 = s.latd ∧ (monStep w s x).s2 = s.s1 := by
      intro hts
      simp only [monStep, hts, if_true]
      cases htc : x.tc
      · simp
      · simp [h0 htc, mix_same]
    have h2 : x.ts = false → (monStep w s x).s1 = s.s1 ∧ (monStep w s x).s2 = s.s2 := by
      intro hts; simp [monStep, hts]
    obtain ⟨i1, i2⟩ := ih _ hs'
    simp only [monRun]
    rw [hl] at i1 i2
    refine ⟨i1, fun h => i2 ?_⟩
    cases hts : x.ts
    · obtain ⟨e1, e2⟩ := h2 hts
      rw [e1, e2]
      simpa [monSysTicks, hts] using h
    · obtain ⟨e1, e2⟩ := h1 hts
      rw [e1, e2]
      rcases h with h | h | h
      · left; exact ⟨rfl, h.1⟩
      · left; exact ⟨rfl, h.1⟩
      · right; left; refine ⟨rfl, ?_⟩; simp [monSysTicks, hts] at h; omega

/-! ### What the software can read: exactly which observations can be torn -/

/-- `v` is a per-bit mixture of two values of `L`. -/
def IsMix (L : List Nat) (v : Nat) : Prop := ∃ a b m, a ∈ L ∧ b ∈ L ∧ v = mix m a b

theorem isMix_mono {L L' : List Nat} {v : Nat} (h : IsMix L v) : IsMix (L ++ L') v := by
  obtain ⟨a, b, m, ha, hb, e⟩ := h
  exact ⟨a, b, m, List.mem_append_left _ ha, List.mem_append_left _ hb, e⟩

theorem isMix_mem {L : List Nat} {v : Nat} (h : v ∈ L) : IsMix L v := ⟨v, v, 0, h, h, (mix_same 0 v).symm⟩

theorem monLatdHist_head (w : Nat) (s : MonState) (xs : List MonIn) :
    ∃ t, monLatdHist w s xs = s.latd :: t := by
  cases xs <;> simp [monLatdHist]

/-- Full statement (no hypothesis): the status and the flop before it always hold a per-bit mixture of two values
    the latched count has really held. -/
theorem mon_status_mix (w : Nat) (xs : List MonIn) : ∀ (s : MonState) (L : List Nat),
    IsMix (L ++ [s.latd]) s.s1 → IsMix (L ++ [s.latd]) s.s2 →
    IsMix (L ++ monLatdHist w s xs) (monRun w s xs).s2 := by
  induction xs with
  | nil => intro s L _ h2; simpa [monLatdHist, monRun] using h2
  | cons x xs ih =>
    intro s L h1 h2
    simp only [monLatdHist, monRun]
    have key := ih (monStep w s x) (L ++ [s.latd])
    obtain ⟨t, ht⟩ := monLatdHist_head w (monStep w s x) xs
    have e : L ++ s.latd :: monLatdHist w (monStep w s x) xs =
        (L ++ [s.latd]) ++ monLatdHist w (monStep w s x) xs := by simp
    rw [e]
    apply key
    · -- first flop
      simp only [monStep]
      cases hts : x.ts
      · simpa [hts] using isMix_mono h1
      · cases htc : x.tc
        · simp only [if_true, Bool.false_eq_true, if_false]
          exact isMix_mem (by simp)
        · simp only [if_true]
          exact ⟨s.latd, latdN s, x.mCnt, by simp, by simp, rfl⟩
    · simp only [monStep]
      cases hts : x.ts
      · simpa [hts] using isMix_mono h2
      · simpa [hts] using isMix_mono h1

/-- Under `NoCoincidentChange` the status is never torn: it is a value the latched count really held. -/
theorem mon_status_coherent (w : Nat) (xs : List MonIn) : ∀ (s : MonState) (L : List Nat),
    NoCoincidentChange w s xs → s.s1 ∈ L ++ [s.latd] → s.s2 ∈ L ++ [s.latd] →
    (monRun w s xs).s2 ∈ L ++ monLatdHist w s xs := by
  induction xs with
  | nil => intro s L _ _ h2; simpa [monLatdHist, monRun] using h2
  | cons x xs ih =>
    intro s L hn h1 h2
    obtain ⟨h0, hn'⟩ := hn
    simp only [monLatdHist, monRun]
    have e : L ++ s.latd :: monLatdHist w (monStep w s x) xs =
        (L ++ [s.latd]) ++ monLatdHist w (monStep w s x) xs := by simp
    rw [e]
    apply ih (monStep w s x) (L ++ [s.latd]) hn'
    · simp only [monStep]
      cases hts : x.ts
      · simp only [Bool.false_eq_true, if_false]; exact List.mem_append_left _ h1
      · cases htc : x.tc
        · simp
        · simp [h0 hts htc, mix_same]
    · simp only [monStep]
      cases hts : x.ts
      · simp only [Bool.false_eq_true, if_false]; exact List.mem_append_left _ h2
      · simp only [if_true]; exact List.mem_append_left _ h1

/-- Bounded error of a torn read: bit by bit between the AND and the OR of the two values. -/
theorem mix_hull (m a b i : Nat) :
    ((a &&& b).testBit i = true → (mix m a b).testBit i = true) ∧
    ((mix m a b).testBit i = true → (a ||| b).testBit i = true) := by
  rw [mix_testBit, Nat.testBit_and, Nat.testBit_or]
  cases m.testBit i <;> cases a.testBit i <;> cases b.testBit i <;> simp

def decNoCoincidentChange (w : Nat) : (s : MonState) → (xs : List MonIn) → Decidable (NoCoincidentChange w s xs)
  | _, [] => isTrue trivial
  | s, x :: xs =>
    have := decNoCoincidentChange w (monStep w s x) xs
    show Decidable ((x.ts = true → x.tc = true → latdN s = s.latd) ∧ NoCoincidentChange w (monStep w s x) xs)
      from inferInstance

instance (w : Nat) (s : MonState) (xs : List MonIn) : Decidable (NoCoincidentChange w s xs) :=
  decNoCoincidentChange w s xs

end Litex.Cdc
