import LitexModel.Cdc.Monitor
import LitexProofs.Cdc.PulseSync
import LitexProofs.Cdc.Gray
namespace Litex.Cdc

theorem mon_lat_run (w : Nat) (xs : List MonIn) : ∀ s, (monRun w s xs).lat = psRun s.lat (xs.map monLatIn) := by
  induction xs with
  | nil => intro s; rfl
  | cons x xs ih => intro s; simp only [monRun, List.map_cons, psRun, ih]; rfl

theorem mon_latches (w : Nat) (xs : List MonIn) : ∀ s, monLatches w s xs = psSeen s.lat (xs.map monLatIn) := by
  induction xs with
  | nil => intro s; rfl
  | cons x xs ih => intro s; simp only [monLatches, List.map_cons, psSeen, ih]; rfl

/-- While the latched count is stable, the status flops fill up with it: after one sys edge the first flop,
    after two the CSR status. -/
theorem mon_status_progress (w : Nat) (xs : List MonIn) : ∀ s, LatchedStable w s xs →
    (monRun w s xs).latd = s.latd ∧
    ((s.s1 = s.latd ∧ s.s2 = s.latd) ∨ (s.s1 = s.latd ∧ 1 ≤ monSysTicks xs) ∨ 2 ≤ monSysTicks xs →
      (monRun w s xs).s1 = s.latd ∧ (monRun w s xs).s2 = s.latd) := by
  induction xs with
  | nil =>
    intro s _
    refine ⟨rfl, ?_⟩
    simp only [monRun, monSysTicks]
    rintro (h | h | h)
    · exact h
    · omega
    · omega
  | cons x xs ih =>
    intro s hs
    obtain ⟨h0, hs'⟩ := hs
    have hl : (monStep w s x).latd = s.latd := by
      simp only [monStep]; cases htc : x.tc
      · simp
      · simpa using h0 htc
    have h1 : x.ts = true → (monStep w s x).s1 = s.latd ∧ (monStep w s x).s2 = s.s1 := by
      intro hts
      simp only [monStep, hts, if_true]
      cases htc : x.tc
      · simp
      · simp [h0 htc, mix_same]
    have h2 : x.ts = false → (monStep w s x).s1 = s.s1 ∧ (monStep w s x).s2 = s.s2 := by
      intro hts; simp [monStep, hts]
    obtain ⟨i1, i2⟩ := ih _ hs'
    simp only [monRun]
    rw [hl] at i1 i2
    refine ⟨i1, fun h => i2 ?_⟩
    cases hts : x.ts
    · obtain ⟨e1, e2⟩ := h2 hts
      rw [e1, e2]
      simpa [monSysTicks, hts] using h
    · obtain ⟨e1, e2⟩ := h1 hts
      rw [e1, e2]
      rcases h with h | h | h
      · left; exact ⟨rfl, h.1⟩
      · left; exact ⟨rfl, h.1⟩
      · right; left; refine ⟨rfl, ?_⟩; simp [monSysTicks, hts] at h; omega

end Litex.Cdc
