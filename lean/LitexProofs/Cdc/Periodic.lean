import LitexModel.Cdc.BusSync
/-
  The drift hypothesis `IBurst R` of the BusSynchronizer theorems, derived from an assumption on the clock
  *frequencies*: two free-running periodic clocks with `po ≤ R * pi` (the i clock at most `R` times faster than
  the o clock), arbitrary phase.
-/
namespace Litex.Cdc

theorem iburst_of_periodic (pi po R : Nat) (hpi : 1 ≤ pi) (hr : po ≤ R * pi) :
    ∀ (n : Nat) (ins : List BSIn) (ni no q : Nat), bsClocks ins = perClocks pi po n ni no →
      q * pi + no + 1 ≤ ni + po → IBurst R q ins := by
  intro n
  induction n with
  | zero =>
    intro ins ni no q h _
    cases ins with
    | nil => trivial
    | cons x xs => simp [bsClocks, perClocks] at h
  | succ n ih =>
    intro ins ni no q h hj
    cases ins with
    | nil => trivial
    | cons x xs =>
      simp only [bsClocks, List.map_cons, perClocks, List.cons.injEq, Prod.mk.injEq] at h
      obtain ⟨⟨hti, hto⟩, hrest⟩ := h
      simp only [IBurst]
      by_cases h1 : no ≤ ni
      · -- an o-clock edge (possibly coincident)
        have hxo : x.tO = true := by rw [hto]; simpa using h1
        rw [if_pos hxo]
        by_cases h2 : ni ≤ no
        · have e : ni = no := by omega
          apply ih xs (ni + pi) (no + po) 0
          · simpa [bsClocks, h1, h2] using hrest
          · omega
        · apply ih xs ni (no + po) 0
          · simpa [bsClocks, h1, h2] using hrest
          · omega
      · -- i-clock edge only
        have hxo : x.tO = false := by rw [hto]; simpa using h1
        have h2 : ni ≤ no := by omega
        have hxi : x.ti = true := by rw [hti]; simpa using h2
        rw [if_neg (by simp [hxo]), if_pos hxi]
        have hlt : q * pi + 2 ≤ po := by omega
        have hq : q < R := Nat.lt_of_not_le fun hn => by
          have : R * pi ≤ q * pi := Nat.mul_le_mul_right pi hn
          omega
        refine ⟨hq, ?_⟩
        apply ih xs (ni + pi) no (q + 1)
        · simpa [bsClocks, h1, h2] using hrest
        · rw [Nat.add_mul]; omega

end Litex.Cdc
