import LitexProofs.Cdc.AsyncFifo
import LitexModel.Cdc.Glue
/-
  `writable` is exact (the converse of `full_not_writable`), progress of the write side, and the capacity is
  reached: a FIFO of depth `2^k` accepts `2^k` tokens without any read-clock edge and refuses the next one.
-/
namespace Litex.Cdc
variable {α : Type}

theorem bool_ne_ne {x x' y : Bool} (h : ¬ x = y) (h' : ¬ x' = y) : x = x' := by
  cases x <;> cases x' <;> cases y <;> simp_all

theorem wrBits_false {k p c : Nat} (h : wrBits k p c = false) :
    ¬ p.testBit k = c.testBit k ∧ ¬ p.testBit (k - 1) = c.testBit (k - 1) ∧ p % 2 ^ (k - 1) = c % 2 ^ (k - 1) := by
  unfold wrBits at h
  simp only [Bool.or_eq_false_iff, beq_eq_false_iff_ne, ne_eq, bne_eq_false_iff_eq] at h
  exact ⟨h.1.1, h.1.2, h.2⟩

/-- Converse of `full_not_writable`: `writable` is low ONLY when the write pointer is exactly `2^k` ahead of
    the synchronised read pointer (Gray coding is injective, so the bit test is an exact comparison). -/
theorem not_writable_full (k a b : Nat) (hk : 1 ≤ k) (ha : a < 2 ^ (k + 1)) (hb : b < 2 ^ (k + 1))
    (h : wrBits k (gray a) (gray b) = false) : a = (b + 2 ^ k) % 2 ^ (k + 1) := by
  have ha' : (b + 2 ^ k) % 2 ^ (k + 1) < 2 ^ (k + 1) := Nat.mod_lt _ (Nat.two_pow_pos _)
  have h' := full_not_writable k _ b hk hb rfl
  obtain ⟨h1, h2, h3⟩ := wrBits_false h
  obtain ⟨h1', h2', h3'⟩ := wrBits_false h'
  apply gray_injective
  apply Nat.eq_of_testBit_eq
  intro i
  by_cases hi : i < k - 1
  · have e := congrArg (fun x => x.testBit i) (h3.trans h3'.symm)
    simpa [Nat.testBit_mod_two_pow, hi] using e
  · by_cases hik : i = k - 1
    · subst hik; exact bool_ne_ne h2 h2'
    · by_cases hik2 : i = k
      · subst hik2; exact bool_ne_ne h1 h1'
      · have hge : k + 1 ≤ i := by omega
        have hp : 2 ^ (k + 1) ≤ 2 ^ i := Nat.pow_le_pow_right (by omega) hge
        rw [Nat.testBit_lt_two_pow (Nat.lt_of_lt_of_le (gray_lt ha) hp),
          Nat.testBit_lt_two_pow (Nat.lt_of_lt_of_le (gray_lt ha') hp)]

/-- **`writable` is exact** under the invariant: `sink.ready` is low if and only if `2^k` tokens are
    outstanding with respect to the consume pointer as seen through the synchroniser. -/
theorem writable_exact {k : Nat} {b : Bool} {s : AFState α} {g : Ghost α} (hk : 1 ≤ k) (h : AFInv k b s g) :
    writable k s = false ↔ g.acc.length = g.Cw2 + 2 ^ k := by
  constructor
  · intro hw
    rw [writable_eq, h.pq, h.cw2] at hw
    have hb : g.Cw2 % 2 ^ (k + 1) < 2 ^ (k + 1) := Nat.mod_lt _ (Nat.two_pow_pos _)
    have hp : s.pbin < 2 ^ (k + 1) := by rw [h.pbin]; exact Nat.mod_lt _ (Nat.two_pow_pos _)
    have e := not_writable_full k _ _ hk hp hb hw
    rw [h.pbin, Nat.mod_add_mod] at e
    by_contra hne
    have h1 := h.o1; have h2 := h.o2; have h3 := h.o3; have h4 := h.o4; have h5 := h.o5; have h6 := h.o6
    have hpw : 2 ^ (k + 1) = 2 * 2 ^ k := by rw [Nat.pow_succ]; omega
    have hpos := Nat.two_pow_pos k
    exact mod_ne_of_lt_of_lt (a := g.acc.length) (b := g.Cw2 + 2 ^ k) (n := 2 ^ (k + 1)) (by omega) (by omega) e
  · intro he
    have hb : g.Cw2 % 2 ^ (k + 1) < 2 ^ (k + 1) := Nat.mod_lt _ (Nat.two_pow_pos _)
    have := full_not_writable k s.pbin (g.Cw2 % 2 ^ (k + 1)) hk hb (by rw [h.pbin, he, Nat.mod_add_mod])
    rw [writable_eq, h.pq, h.cw2, this]

section
variable {k : Nat} {b : Bool} (z : α) {s : AFState α} {g : Ghost α}

/-- Monotonicity and progress of the write-side view of the consume pointer in one instant. -/
theorem step_cw_progress (h : AFInv k b s g) (i : AFIn α) :
    let g' := gStep k b z s g i
    g.Cw1 ≤ g'.Cw1 ∧ g.Cw2 ≤ g'.Cw2 ∧ g.C ≤ g'.C ∧
      (i.tw = true → g.C ≤ g'.Cw1 ∧ g'.Cw2 = g.Cw1) := by
  have ⟨p1, p2⟩ := (⟨h.o1, h.o2⟩ : g.Cw2 ≤ g.Cw1 ∧ g.Cw1 ≤ g.C)
  cases htw : i.tw <;> simp only [gStep, htw, if_true] <;>
    (repeat' split) <;> simp <;> omega

/-- Two write-clock edges after a word has been consumed, the write side knows about it — whatever the read
    clock does meanwhile and however the synchroniser flops resolve. -/
theorem cw2_progress (hk : 1 ≤ k) (C0 : Nat) (ins : List (AFIn α)) :
    ∀ (s : AFState α) (g : Ghost α), AFInv k b s g → C0 ≤ g.C →
      (C0 ≤ g.Cw2 → C0 ≤ (gRun k b z s g ins).Cw2) ∧
      (C0 ≤ g.Cw1 → 1 ≤ writeTicks ins → C0 ≤ (gRun k b z s g ins).Cw2) ∧
      (2 ≤ writeTicks ins → C0 ≤ (gRun k b z s g ins).Cw2) := by
  induction ins with
  | nil => intro s g _ _; simp [gRun, writeTicks]
  | cons i is ih =>
    intro s g h hP
    obtain ⟨m1, m2, m3, m4⟩ := step_cw_progress z h i
    obtain ⟨ih1, ih2, ih3⟩ := ih _ _ (inv_step z hk h i) (le_trans hP m3)
    simp only [gRun, writeTicks]
    refine ⟨fun h0 => ih1 (le_trans h0 m2), fun h0 ht => ?_, fun ht => ?_⟩
    · cases htw : i.tw
      · simp [htw] at ht
        exact ih2 (le_trans h0 m1) ht
      · exact ih1 (by rw [(m4 htw).2]; exact h0)
    · cases htw : i.tw
      · simp [htw] at ht
        exact ih3 ht
      · simp [htw] at ht
        exact ih2 (le_trans hP (m4 htw).1) (by omega)

end

/-- A write-clock-only instant offering token `d` (the consumer and the read clock do nothing). -/
def wOnly (d : α) : AFIn α := ⟨true, false, 0, 0, true, d, false⟩

/-- Filling: as long as fewer than `2^k` tokens have been accepted and nothing has been consumed, every
    write-only instant accepts its token. -/
theorem fill_accepts (k : Nat) (b : Bool) (z : α) (hk : 1 ≤ k) (toks : List α) :
    ∀ (s : AFState α) (g : Ghost α), AFInv k b s g → g.C = 0 → g.acc.length + toks.length ≤ 2 ^ k →
      accepted k b z s (toks.map wOnly) = toks ∧ delivered k b z s (toks.map wOnly) = [] ∧
      (gRun k b z s g (toks.map wOnly)).C = 0 ∧
      (gRun k b z s g (toks.map wOnly)).acc.length = g.acc.length + toks.length := by
  induction toks with
  | nil => intro s g _ hC _; simp [accepted, delivered, gRun, hC]
  | cons d ds ih =>
    intro s g h hC hlen
    have hCw2 : g.Cw2 = 0 := by have := h.o1; have := h.o2; omega
    have hw : writable k s = true := by
      cases hw : writable k s
      · have := (writable_exact hk h).1 hw
        simp only [List.length_cons] at hlen
        omega
      · rfl
    have hce : wce k s (wOnly d) = true := by simp [wce, hw, wOnly]
    have hce' : wce k s ⟨true, false, 0, 0, true, d, false⟩ = true := hce
    have hC' : (gStep k b z s g (wOnly d)).C = 0 := by simp [gStep, wOnly, hC]
    have hacc' : (gStep k b z s g (wOnly d)).acc.length = g.acc.length + 1 := by
      simp [gStep, accNow, hce', wOnly]
    obtain ⟨i1, i2, i3, i4⟩ := ih _ _ (inv_step z hk h (wOnly d)) hC' (by
      rw [hacc']; simp only [List.length_cons] at hlen; omega)
    simp only [List.map_cons, accepted, delivered, gRun]
    refine ⟨?_, ?_, i3, ?_⟩
    · rw [i1]; simp [accNow, hce', wOnly]
    · rw [i2]; simp [delNow, wOnly]
    · rw [i4, hacc']; simp only [List.length_cons]; omega

/-! ### Constructor arithmetic -/

theorem two_le_two_pow {k : Nat} (hk : 1 ≤ k) : 2 ≤ 2 ^ k :=
  calc 2 = 2 ^ 1 := rfl
    _ ≤ 2 ^ k := Nat.pow_le_pow_right (by omega) hk

theorem bitLength_pred_two_pow (k : Nat) (hk : 1 ≤ k) : bitLength (2 ^ k - 1) = k := by
  have h2 := two_le_two_pow hk
  have hpos : 2 ^ k - 1 ≠ 0 := by omega
  unfold bitLength
  rw [if_neg hpos]
  have h1 := Nat.log2_self_le hpos
  have h3 := @Nat.lt_log2_self (2 ^ k - 1)
  have a : 2 ^ (2 ^ k - 1).log2 < 2 ^ k := by omega
  have b : 2 ^ k ≤ 2 ^ ((2 ^ k - 1).log2 + 1) := by omega
  have a' := (Nat.pow_lt_pow_iff_right (by omega : 1 < 2)).1 a
  have b' := (Nat.pow_le_pow_iff_right (by omega : 1 < 2)).1 b
  omega

theorem afifoCtor_spec (depth : Option Nat) (k : Nat) :
    afifoCtor depth = some k ↔ 2 ≤ k ∧ depth.getD 4 = 2 ^ k := by
  unfold afifoCtor
  constructor
  · intro h
    simp only at h
    split at h
    · cases h
    · split at h
      · cases h
      · rename_i h4 hp
        simp only [ne_eq, Decidable.not_not] at hp
        injection h with h
        subst h
        refine ⟨?_, hp.symm⟩
        by_contra hk
        have : bitLength (depth.getD 4 - 1) = 0 ∨ bitLength (depth.getD 4 - 1) = 1 := by omega
        rcases this with e | e <;> rw [e] at hp <;> omega
  · rintro ⟨hk, hd⟩
    have h4 : 2 ^ 2 ≤ 2 ^ k := Nat.pow_le_pow_right (by omega) hk
    simp only [hd]
    rw [if_neg (by omega), bitLength_pred_two_pow k (by omega)]
    simp

end Litex.Cdc
