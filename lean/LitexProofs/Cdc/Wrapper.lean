import LitexModel.Cdc.Wrapper
import LitexProofs.Cdc.AsyncFifo
namespace Litex.Cdc

theorem unpack_pack (wp wq : Nat) (t : FTok) : unpackTok wp wq (packTok wp wq t) = normTok wp wq t := by
  obtain ⟨a, c, f, l⟩ := t
  have hP := Nat.two_pow_pos wp
  have hQ := Nat.two_pow_pos wq
  have ha : a % 2 ^ wp < 2 ^ wp := Nat.mod_lt _ hP
  have hc : c % 2 ^ wq < 2 ^ wq := Nat.mod_lt _ hQ
  have e1 : (a % 2 ^ wp + 2 ^ wp * (c % 2 ^ wq + 2 ^ wq * (b2n f + 2 * b2n l))) % 2 ^ wp = a % 2 ^ wp := by
    rw [Nat.add_mul_mod_self_left, Nat.mod_mod]
  have e2 : (a % 2 ^ wp + 2 ^ wp * (c % 2 ^ wq + 2 ^ wq * (b2n f + 2 * b2n l))) / 2 ^ wp =
      c % 2 ^ wq + 2 ^ wq * (b2n f + 2 * b2n l) := by
    rw [Nat.add_mul_div_left _ _ hP, Nat.div_eq_of_lt ha, Nat.zero_add]
  have e3 : (c % 2 ^ wq + 2 ^ wq * (b2n f + 2 * b2n l)) % 2 ^ wq = c % 2 ^ wq := by
    rw [Nat.add_mul_mod_self_left, Nat.mod_mod]
  have e4 : (c % 2 ^ wq + 2 ^ wq * (b2n f + 2 * b2n l)) / 2 ^ wq = b2n f + 2 * b2n l := by
    rw [Nat.add_mul_div_left _ _ hQ, Nat.div_eq_of_lt hc, Nat.zero_add]
  simp only [unpackTok, packTok, normTok, e1, e2, e3, e4]
  cases f <;> cases l <;> simp [b2n]

theorem wrap_run (k : Nat) (b : Bool) (wp wq : Nat) (is : List (AFIn FTok)) : ∀ s,
    wrapRun k b wp wq s is = runFrom k b 0 s (is.map (wrapIn wp wq)) := by
  induction is with
  | nil => intro s; rfl
  | cons i is ih => intro s; simp only [wrapRun, wrapStep, List.map_cons, runFrom, ih]

theorem wrap_accepted (k : Nat) (b : Bool) (wp wq : Nat) (is : List (AFIn FTok)) : ∀ s,
    (wrapAccepted k b wp wq s is).map (packTok wp wq) = accepted k b 0 s (is.map (wrapIn wp wq)) := by
  induction is with
  | nil => intro s; rfl
  | cons i is ih =>
    intro s
    simp only [wrapAccepted, wrapStep, List.map_cons, accepted, List.map_append, ih, accNow]
    congr 1
    have : (wrapIn wp wq i).tw = i.tw := rfl
    rw [this]
    split <;> simp [wrapIn]

theorem wrap_delivered (k : Nat) (b : Bool) (wp wq : Nat) (is : List (AFIn FTok)) : ∀ s,
    wrapDelivered k b wp wq s is = (delivered k b 0 s (is.map (wrapIn wp wq))).map (unpackTok wp wq) := by
  induction is with
  | nil => intro s; rfl
  | cons i is ih =>
    intro s
    simp only [wrapDelivered, wrapStep, List.map_cons, delivered, List.map_append, ih, delNow]
    congr 1
    have h1 : (wrapIn wp wq i).tr = i.tr := rfl
    have h2 : (wrapIn wp wq i).ready = i.ready := rfl
    rw [h1, h2]
    split <;> simp [wrapSrcTok]

end Litex.Cdc
