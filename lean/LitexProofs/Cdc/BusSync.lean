import LitexModel.Cdc.BusSync
import LitexProofs.Cdc.Gray
/-
  BusSynchronizer: the request/acknowledge ring and the data-path invariant.
-/
namespace Litex.Cdc

/-- The control bits of the hand-shake ring, in ring order:
    `c0 = _ping.toggle_i`, `c1 c2 = ` ping synchroniser, `c3 = _ping.toggle_o_r`, `pingO = ping_o`,
    `c4 = _pong.toggle_i`, `c5 c6 = ` pong synchroniser, `c7 = _pong.toggle_o_r`. -/
structure Ctl where
  starter : Bool
  c0 : Bool
  c1 : Bool
  c2 : Bool
  c3 : Bool
  pingO : Bool
  c4 : Bool
  c5 : Bool
  c6 : Bool
  c7 : Bool
deriving DecidableEq, Repr

def ctlOf (s : BSState) : Ctl :=
  { starter := s.starter, c0 := s.pingT, c1 := s.pingR1, c2 := s.pingR2, c3 := s.pingOR, pingO := s.pingO,
    c4 := s.pongT, c5 := s.pongR1, c6 := s.pongR2, c7 := s.pongOR }

/-- Control step when the retry timer has not expired (`_timeout.done = 0`). -/
def cstep (c : Ctl) (ti tO mp mq : Bool) : Ctl :=
  let pin := c.starter || (c.c6 != c.c7)
  let c0N := if pin then !c.c0 else c.c0
  let c4N := if c.pingO then !c.c4 else c.c4
  { starter := if ti then false else c.starter
    c0 := if ti then c0N else c.c0
    c1 := if tO then (if ti && mp then c0N else c.c0) else c.c1
    c2 := if tO then c.c1 else c.c2
    c3 := if tO then c.c2 else c.c3
    pingO := if tO then (c.c2 != c.c3) else c.pingO
    c4 := if tO then c4N else c.c4
    c5 := if ti then (if tO && mq then c4N else c.c4) else c.c5
    c6 := if ti then c.c5 else c.c6
    c7 := if ti then c.c6 else c.c7 }

theorem ctlOf_step (w t : Nat) (s : BSState) (x : BSIn) (hd : tmoDone s = false) :
    ctlOf (bsStep w t s x) = cstep (ctlOf s) x.ti x.tO x.mPing x.mPong := by
  obtain ⟨ti, tO, mp, mq, mb, i⟩ := x
  obtain ⟨starter, pingT, pongR1, pongR2, pongOR, count, ibuf, pingR1, pingR2, pingOR, pingO, pongT, ob1, ob2, o⟩ := s
  simp only [tmoDone] at hd
  cases ti <;> cases tO <;> cases mp <;> cases mq <;> cases pingO <;>
    simp [ctlOf, bsStep, cstep, pingTN, pongTN, pingIn, pongOut, pingOut, tmoDone, hd]

/-- The eight positions of the single wavefront travelling round the ring; `v` is the value the wavefront is
    overwriting.  Phase 0 exists only after reset (`starter`). -/
def shape (p : Fin 8) (v : Bool) : Ctl :=
  { starter := p.val == 0
    c0 := if 1 ≤ p.val then !v else v
    c1 := if 2 ≤ p.val then !v else v
    c2 := if 3 ≤ p.val then !v else v
    c3 := if 4 ≤ p.val then !v else v
    pingO := p.val == 4
    c4 := if 5 ≤ p.val then !v else v
    c5 := if 6 ≤ p.val then !v else v
    c6 := if 7 ≤ p.val then !v else v
    c7 := v }

/-- Phase after one instant, and whether the polarity flips (the wavefront passed `c7`/`c0`). -/
def pstep (p : Fin 8) (ti tO mp mq : Bool) : Fin 8 × Bool :=
  match p.val with
  | 0 => if ti then (if tO && mp then (2, false) else (1, false)) else (0, false)
  | 1 => if tO then (2, false) else (1, false)
  | 2 => if tO then (3, false) else (2, false)
  | 3 => if tO then (4, false) else (3, false)
  | 4 => if tO then (if ti && mq then (6, false) else (5, false)) else (4, false)
  | 5 => if ti then (6, false) else (5, false)
  | 6 => if ti then (7, false) else (6, false)
  | _ => if ti then (if tO && mp then (2, true) else (1, true)) else (7, false)

theorem cstep_shape : ∀ (p : Fin 8) (v ti tO mp mq : Bool),
    cstep (shape p v) ti tO mp mq = shape (pstep p ti tO mp mq).1 (v != (pstep p ti tO mp mq).2) := by
  decide

theorem shape_pong : ∀ (p : Fin 8) (v : Bool), ((shape p v).c6 != (shape p v).c7) = decide (p.val = 7) := by
  decide

theorem shape_pingO : ∀ (p : Fin 8) (v : Bool), (shape p v).pingO = decide (p.val = 4) := by decide

theorem shape_starter : ∀ (p : Fin 8) (v : Bool), (shape p v).starter = decide (p.val = 0) := by decide

/-- Which instants can lead into the phases in which the output side relies on `ibuffer` being stable. -/
theorem pstep_ge3 : ∀ (p : Fin 8) (ti tO mp mq : Bool), 3 ≤ (pstep p ti tO mp mq).1.val →
    ¬ (ti = true ∧ p.val = 7) ∧ ¬ (ti = true ∧ p.val = 0) ∧ (tO = true ∨ 3 ≤ p.val) := by decide

theorem pstep_ge4 : ∀ (p : Fin 8) (ti tO mp mq : Bool), 4 ≤ (pstep p ti tO mp mq).1.val →
    ((tO = true ∧ 3 ≤ p.val) ∨ (tO = false ∧ 4 ≤ p.val)) := by decide


/-- Invariant of the bus synchroniser while the timer does not expire: one wavefront in the ring, and from the
    moment the request is two flops deep in the output domain (`phase ≥ 3`) the synchroniser flops of the data
    path hold exactly `ibuffer`.  `L` lists the words known to have been on `i` (and the reset value). -/
def BSInv (s : BSState) (L : List Nat) : Prop :=
  ∃ (p : Fin 8) (v : Bool), ctlOf s = shape p v ∧ (3 ≤ p.val → s.ob1 = s.ibuf) ∧ (4 ≤ p.val → s.ob2 = s.ibuf) ∧
    s.o ∈ L ∧ s.ibuf ∈ L

theorem bsInv_init (t : Nat) : BSInv (bsInit t) [0] :=
  ⟨0, false, by simp [ctlOf, bsInit, shape], by simp [bsInit], by simp [bsInit], by simp [bsInit], by simp [bsInit]⟩

theorem bsInv_step (w t : Nat) (s : BSState) (L : List Nat) (x : BSIn) (h : BSInv s L)
    (hd : tmoDone s = false) :
    BSInv (bsStep w t s x) (L ++ (if x.ti then [x.i % 2 ^ w] else [])) := by
  obtain ⟨p, v, hc, h3, h4, ho, hi⟩ := h
  have hstep := ctlOf_step w t s x hd
  rw [hc, cstep_shape] at hstep
  have hpong : pongOut s = decide (p.val = 7) := by
    have := shape_pong p v; rw [← hc] at this; exact this
  have hpingO : s.pingO = decide (p.val = 4) := by
    have := shape_pingO p v; rw [← hc] at this; exact this
  -- the data registers after the instant
  have e_ibuf : (bsStep w t s x).ibuf = if x.ti then (if pongOut s then x.i % 2 ^ w else s.ibuf) else s.ibuf := rfl
  have e_ob1 : (bsStep w t s x).ob1 =
      if x.tO then (if x.ti then mix x.mBuf s.ibuf (ibufN w s x.i) else s.ibuf) else s.ob1 := rfl
  have e_ob2 : (bsStep w t s x).ob2 = if x.tO then s.ob1 else s.ob2 := rfl
  have e_o : (bsStep w t s x).o = if x.tO then (if s.pingO then s.ob2 else s.o) else s.o := rfl
  -- `ibuffer` is stable unless the acknowledge arrives in this instant
  have stable : ¬ (x.ti = true ∧ p.val = 7) →
      (bsStep w t s x).ibuf = s.ibuf ∧ (x.tO = true → (bsStep w t s x).ob1 = s.ibuf) := by
    intro hn
    have hN : x.ti = true → ibufN w s x.i = s.ibuf := by
      intro hti
      have : ¬ p.val = 7 := fun h7 => hn ⟨hti, h7⟩
      simp [ibufN, hpong, this]
    constructor
    · rw [e_ibuf]
      cases hti : x.ti
      · simp
      · have := hN hti; simp only [ibufN] at this; simp [this]
    · intro hto
      rw [e_ob1, hto]
      cases hti : x.ti
      · simp
      · simp [hN hti, mix_same]
  refine ⟨(pstep p x.ti x.tO x.mPing x.mPong).1, _, hstep, ?_, ?_, ?_, ?_⟩
  · intro hp'
    obtain ⟨g1, _, g3⟩ := pstep_ge3 p x.ti x.tO x.mPing x.mPong hp'
    obtain ⟨s1, s2⟩ := stable g1
    rw [s1]
    cases hto : x.tO
    · rw [e_ob1, hto]
      rcases g3 with g | g
      · rw [hto] at g; exact absurd g (by simp)
      · simpa using h3 g
    · exact s2 hto
  · intro hp'
    obtain ⟨g1, _, _⟩ := pstep_ge3 p x.ti x.tO x.mPing x.mPong (by omega)
    obtain ⟨s1, _⟩ := stable g1
    rw [s1, e_ob2]
    rcases pstep_ge4 p x.ti x.tO x.mPing x.mPong hp' with ⟨g, g'⟩ | ⟨g, g'⟩
    · simpa [g] using h3 g'
    · simpa [g] using h4 g'
  · rw [e_o]
    apply List.mem_append_left
    cases hto : x.tO
    · simpa using ho
    · cases hpo : s.pingO
      · simpa using ho
      · have : p.val = 4 := by rw [hpingO] at hpo; simpa using hpo
        simp only [if_true]
        rw [h4 (by omega)]; exact hi
  · rw [e_ibuf]
    cases hti : x.ti
    · simpa using hi
    · cases hpg : pongOut s
      · simp [hi]
      · simp

theorem bsInv_run (w t : Nat) (xs : List BSIn) : ∀ (s : BSState) (L : List Nat), BSInv s L → NoTimeout w t s xs →
    (bsRun w t s xs).o ∈ L ++ (bsInputs xs).map (· % 2 ^ w) := by
  induction xs with
  | nil => intro s L h _; simpa [bsRun, bsInputs] using h.choose_spec.choose_spec.2.2.2.1
  | cons x xs ih =>
    intro s L h hn
    obtain ⟨hd, hn'⟩ := hn
    have := ih _ _ (bsInv_step w t s L x h hd) hn'
    simp only [bsRun, bsInputs, List.map_append]
    rw [List.append_assoc] at this
    cases hti : x.ti <;> simpa [hti] using this



/-- Upper bound on the number of timer decrements still to come before the timer is reloaded, by ring phase:
    four o-edges (each after at most `R` i-only instants, possibly coinciding with an i-edge) take the request
    to `_pong.toggle_i`; two more i-edges bring the acknowledge to `_pong.o`. -/
def rem (R : Nat) (p : Fin 8) (q : Nat) : Nat :=
  match p.val with
  | 0 => 0
  | 1 => 4 * R + 6 - q
  | 2 => 3 * R + 5 - q
  | 3 => 2 * R + 4 - q
  | 4 => R + 3 - q
  | 5 => 2
  | 6 => 1
  | _ => 0

def qNext (q : Nat) (ti tO : Bool) : Nat := if tO then 0 else if ti then q + 1 else q

theorem fv0 : ((0 : Fin 8) : Nat) = 0 := rfl
theorem fv1 : ((1 : Fin 8) : Nat) = 1 := rfl
theorem fv2 : ((2 : Fin 8) : Nat) = 2 := rfl
theorem fv3 : ((3 : Fin 8) : Nat) = 3 := rfl
theorem fv4 : ((4 : Fin 8) : Nat) = 4 := rfl
theorem fv5 : ((5 : Fin 8) : Nat) = 5 := rfl
theorem fv6 : ((6 : Fin 8) : Nat) = 6 := rfl
theorem fv7 : ((7 : Fin 8) : Nat) = 7 := rfl

set_option linter.unusedSimpArgs false in
theorem rem_step0 (R q : Nat) (ti tO mp mq : Bool) (hq : q ≤ R)
    (hs : tO = false → ti = true → q < R) :
    (ti = true ∧ ((0 : Fin 8).val = 0 ∨ (0 : Fin 8).val = 7) → rem R (pstep 0 ti tO mp mq).1 (qNext q ti tO) ≤ 4 * R + 6) ∧
    (¬ (ti = true ∧ ((0 : Fin 8).val = 0 ∨ (0 : Fin 8).val = 7)) →
      rem R (pstep 0 ti tO mp mq).1 (qNext q ti tO) + (if ti then 1 else 0) ≤ rem R 0 q) ∧
    qNext q ti tO ≤ R := by
  cases ti <;> cases tO <;> cases mp <;> cases mq <;>
    simp [pstep, rem, qNext, fv0, fv1, fv2, fv3, fv4, fv5, fv6, fv7] at hs ⊢ <;> omega

set_option linter.unusedSimpArgs false in
theorem rem_step1 (R q : Nat) (ti tO mp mq : Bool) (hq : q ≤ R)
    (hs : tO = false → ti = true → q < R) :
    (ti = true ∧ ((1 : Fin 8).val = 0 ∨ (1 : Fin 8).val = 7) → rem R (pstep 1 ti tO mp mq).1 (qNext q ti tO) ≤ 4 * R + 6) ∧
    (¬ (ti = true ∧ ((1 : Fin 8).val = 0 ∨ (1 : Fin 8).val = 7)) →
      rem R (pstep 1 ti tO mp mq).1 (qNext q ti tO) + (if ti then 1 else 0) ≤ rem R 1 q) ∧
    qNext q ti tO ≤ R := by
  cases ti <;> cases tO <;> cases mp <;> cases mq <;>
    simp [pstep, rem, qNext, fv0, fv1, fv2, fv3, fv4, fv5, fv6, fv7] at hs ⊢ <;> omega

set_option linter.unusedSimpArgs false in
theorem rem_step2 (R q : Nat) (ti tO mp mq : Bool) (hq : q ≤ R)
    (hs : tO = false → ti = true → q < R) :
    (ti = true ∧ ((2 : Fin 8).val = 0 ∨ (2 : Fin 8).val = 7) → rem R (pstep 2 ti tO mp mq).1 (qNext q ti tO) ≤ 4 * R + 6) ∧
    (¬ (ti = true ∧ ((2 : Fin 8).val = 0 ∨ (2 : Fin 8).val = 7)) →
      rem R (pstep 2 ti tO mp mq).1 (qNext q ti tO) + (if ti then 1 else 0) ≤ rem R 2 q) ∧
    qNext q ti tO ≤ R := by
  cases ti <;> cases tO <;> cases mp <;> cases mq <;>
    simp [pstep, rem, qNext, fv0, fv1, fv2, fv3, fv4, fv5, fv6, fv7] at hs ⊢ <;> omega

set_option linter.unusedSimpArgs false in
theorem rem_step3 (R q : Nat) (ti tO mp mq : Bool) (hq : q ≤ R)
    (hs : tO = false → ti = true → q < R) :
    (ti = true ∧ ((3 : Fin 8).val = 0 ∨ (3 : Fin 8).val = 7) → rem R (pstep 3 ti tO mp mq).1 (qNext q ti tO) ≤ 4 * R + 6) ∧
    (¬ (ti = true ∧ ((3 : Fin 8).val = 0 ∨ (3 : Fin 8).val = 7)) →
      rem R (pstep 3 ti tO mp mq).1 (qNext q ti tO) + (if ti then 1 else 0) ≤ rem R 3 q) ∧
    qNext q ti tO ≤ R := by
  cases ti <;> cases tO <;> cases mp <;> cases mq <;>
    simp [pstep, rem, qNext, fv0, fv1, fv2, fv3, fv4, fv5, fv6, fv7] at hs ⊢ <;> omega

set_option linter.unusedSimpArgs false in
theorem rem_step4 (R q : Nat) (ti tO mp mq : Bool) (hq : q ≤ R)
    (hs : tO = false → ti = true → q < R) :
    (ti = true ∧ ((4 : Fin 8).val = 0 ∨ (4 : Fin 8).val = 7) → rem R (pstep 4 ti tO mp mq).1 (qNext q ti tO) ≤ 4 * R + 6) ∧
    (¬ (ti = true ∧ ((4 : Fin 8).val = 0 ∨ (4 : Fin 8).val = 7)) →
      rem R (pstep 4 ti tO mp mq).1 (qNext q ti tO) + (if ti then 1 else 0) ≤ rem R 4 q) ∧
    qNext q ti tO ≤ R := by
  cases ti <;> cases tO <;> cases mp <;> cases mq <;>
    simp [pstep, rem, qNext, fv0, fv1, fv2, fv3, fv4, fv5, fv6, fv7] at hs ⊢ <;> omega

set_option linter.unusedSimpArgs false in
theorem rem_step5 (R q : Nat) (ti tO mp mq : Bool) (hq : q ≤ R)
    (hs : tO = false → ti = true → q < R) :
    (ti = true ∧ ((5 : Fin 8).val = 0 ∨ (5 : Fin 8).val = 7) → rem R (pstep 5 ti tO mp mq).1 (qNext q ti tO) ≤ 4 * R + 6) ∧
    (¬ (ti = true ∧ ((5 : Fin 8).val = 0 ∨ (5 : Fin 8).val = 7)) →
      rem R (pstep 5 ti tO mp mq).1 (qNext q ti tO) + (if ti then 1 else 0) ≤ rem R 5 q) ∧
    qNext q ti tO ≤ R := by
  cases ti <;> cases tO <;> cases mp <;> cases mq <;>
    simp [pstep, rem, qNext, fv0, fv1, fv2, fv3, fv4, fv5, fv6, fv7] at hs ⊢ <;> omega

set_option linter.unusedSimpArgs false in
theorem rem_step6 (R q : Nat) (ti tO mp mq : Bool) (hq : q ≤ R)
    (hs : tO = false → ti = true → q < R) :
    (ti = true ∧ ((6 : Fin 8).val = 0 ∨ (6 : Fin 8).val = 7) → rem R (pstep 6 ti tO mp mq).1 (qNext q ti tO) ≤ 4 * R + 6) ∧
    (¬ (ti = true ∧ ((6 : Fin 8).val = 0 ∨ (6 : Fin 8).val = 7)) →
      rem R (pstep 6 ti tO mp mq).1 (qNext q ti tO) + (if ti then 1 else 0) ≤ rem R 6 q) ∧
    qNext q ti tO ≤ R := by
  cases ti <;> cases tO <;> cases mp <;> cases mq <;>
    simp [pstep, rem, qNext, fv0, fv1, fv2, fv3, fv4, fv5, fv6, fv7] at hs ⊢ <;> omega

set_option linter.unusedSimpArgs false in
theorem rem_step7 (R q : Nat) (ti tO mp mq : Bool) (hq : q ≤ R)
    (hs : tO = false → ti = true → q < R) :
    (ti = true ∧ ((7 : Fin 8).val = 0 ∨ (7 : Fin 8).val = 7) → rem R (pstep 7 ti tO mp mq).1 (qNext q ti tO) ≤ 4 * R + 6) ∧
    (¬ (ti = true ∧ ((7 : Fin 8).val = 0 ∨ (7 : Fin 8).val = 7)) →
      rem R (pstep 7 ti tO mp mq).1 (qNext q ti tO) + (if ti then 1 else 0) ≤ rem R 7 q) ∧
    qNext q ti tO ≤ R := by
  cases ti <;> cases tO <;> cases mp <;> cases mq <;>
    simp [pstep, rem, qNext, fv0, fv1, fv2, fv3, fv4, fv5, fv6, fv7] at hs ⊢ <;> omega

theorem rem_step (R q : Nat) (p : Fin 8) (ti tO mp mq : Bool) (hq : q ≤ R)
    (hs : tO = false → ti = true → q < R) :
    (ti = true ∧ (p.val = 0 ∨ p.val = 7) → rem R (pstep p ti tO mp mq).1 (qNext q ti tO) ≤ 4 * R + 6) ∧
    (¬ (ti = true ∧ (p.val = 0 ∨ p.val = 7)) →
      rem R (pstep p ti tO mp mq).1 (qNext q ti tO) + (if ti then 1 else 0) ≤ rem R p q) ∧
    qNext q ti tO ≤ R := by
  have hp : p = 0 ∨ p = 1 ∨ p = 2 ∨ p = 3 ∨ p = 4 ∨ p = 5 ∨ p = 6 ∨ p = 7 := by revert p; decide
  rcases hp with rfl | rfl | rfl | rfl | rfl | rfl | rfl | rfl
  · exact rem_step0 R q ti tO mp mq hq hs
  · exact rem_step1 R q ti tO mp mq hq hs
  · exact rem_step2 R q ti tO mp mq hq hs
  · exact rem_step3 R q ti tO mp mq hq hs
  · exact rem_step4 R q ti tO mp mq hq hs
  · exact rem_step5 R q ti tO mp mq hq hs
  · exact rem_step6 R q ti tO mp mq hq hs
  · exact rem_step7 R q ti tO mp mq hq hs

/-- Timer invariant: the count exceeds the number of decrements that can still happen before the reload. -/
def TInv (R : Nat) (s : BSState) (q : Nat) : Prop :=
  ∃ (p : Fin 8) (v : Bool), ctlOf s = shape p v ∧ rem R p q + 1 ≤ s.count ∧ q ≤ R

theorem tInv_not_done {R : Nat} {s : BSState} {q : Nat} (h : TInv R s q) : tmoDone s = false := by
  obtain ⟨p, v, _, hc, _⟩ := h
  simp [tmoDone]; omega

theorem tInv_step (w t R : Nat) (ht : 4 * R + 7 ≤ t) (s : BSState) (q : Nat) (x : BSIn)
    (h : TInv R s q) (hs : x.tO = false → x.ti = true → q < R) :
    TInv R (bsStep w t s x) (qNext q x.ti x.tO) := by
  have hd := tInv_not_done h
  obtain ⟨p, v, hc, hcnt, hq⟩ := h
  have hstep := ctlOf_step w t s x hd
  rw [hc, cstep_shape] at hstep
  have hpong : pongOut s = decide (p.val = 7) := by
    have := shape_pong p v; rw [← hc] at this; exact this
  have hst : s.starter = decide (p.val = 0) := by
    have := shape_starter p v; rw [← hc] at this; exact this
  obtain ⟨r1, r2, r3⟩ := rem_step R q p x.ti x.tO x.mPing x.mPong hq hs
  refine ⟨_, _, hstep, ?_, r3⟩
  have e_cnt : (bsStep w t s x).count = if x.ti then countN t s else s.count := rfl
  have hpin : pingIn s = decide (p.val = 0 ∨ p.val = 7) := by
    simp only [pingIn, hst, hpong, hd]
    by_cases h0 : p.val = 0 <;> by_cases h7 : p.val = 7 <;> simp [h0, h7]
  rw [e_cnt]
  by_cases hr : x.ti = true ∧ (p.val = 0 ∨ p.val = 7)
  · have h1 := r1 hr
    obtain ⟨hti, hp07⟩ := hr
    have hpb : pingIn s = true := by rw [hpin]; exact decide_eq_true hp07
    have hcn : countN t s = t := by simp [countN, hpb]
    rw [hti] at h1 ⊢
    simp only [if_true, hcn]
    omega
  · have h2 := r2 hr
    cases hti : x.ti
    · rw [hti] at h2
      simp only [Bool.false_eq_true, if_false, Nat.add_zero] at h2 ⊢
      omega
    · have hnp : ¬ (p.val = 0 ∨ p.val = 7) := fun hh => hr ⟨hti, hh⟩
      have hpb : pingIn s = false := by rw [hpin]; exact decide_eq_false hnp
      have hcn : countN t s = s.count - 1 := by simp [countN, hpb, hd]
      rw [hti] at h2
      simp only [if_true, hcn] at h2 ⊢
      omega

/-- **No spurious time-out.**  If the i clock never has more than `R` consecutive edges without an o-clock edge
    and the time-out is at least `4R + 7` i-cycles, the retry timer never expires. -/
theorem noTimeout_of_burst (w t R : Nat) (ht : 4 * R + 7 ≤ t) (xs : List BSIn) :
    ∀ (s : BSState) (q : Nat), TInv R s q → IBurst R q xs → NoTimeout w t s xs := by
  induction xs with
  | nil => intro _ _ _ _; trivial
  | cons x xs ih =>
    intro s q h hb
    refine ⟨tInv_not_done h, ?_⟩
    simp only [IBurst] at hb
    cases hto : x.tO
    · cases hti : x.ti
      · simp [hto, hti] at hb
        have := tInv_step w t R ht s q x h (by simp [hti])
        simp only [qNext, hto, hti] at this
        exact ih _ _ this hb
      · simp [hto, hti] at hb
        have := tInv_step w t R ht s q x h (fun _ _ => hb.1)
        simp only [qNext, hto, hti] at this
        exact ih _ _ this hb.2
    · simp [hto] at hb
      have := tInv_step w t R ht s q x h (by simp [hto])
      simp only [qNext, hto] at this
      exact ih _ _ this hb

theorem tInv_init (t R : Nat) (ht : 4 * R + 7 ≤ t) : TInv R (bsInit t) 0 :=
  ⟨0, false, by simp [ctlOf, bsInit, shape], by simp [rem, bsInit]; omega, by omega⟩


/-! ### Progress: a held input word reaches `o` -/


/-- Invariant with the ring phase made explicit. -/
def BSInvP (s : BSState) (p : Fin 8) : Prop :=
  ∃ v : Bool, ctlOf s = shape p v ∧ (3 ≤ p.val → s.ob1 = s.ibuf) ∧ (4 ≤ p.val → s.ob2 = s.ibuf)

theorem bsInvP_init (t : Nat) : BSInvP (bsInit t) 0 :=
  ⟨false, by simp [ctlOf, bsInit, shape], by simp [bsInit], by simp [bsInit]⟩

/-- One instant: the phase follows `pstep`; `ibuffer` is loaded exactly at an i-edge in phase 7 and `o` exactly
    at an o-edge in phase 4, with the (by then clean) content of `ibuffer`. -/
theorem bsInvP_step (w t : Nat) (s : BSState) (p : Fin 8) (x : BSIn) (h : BSInvP s p) (hd : tmoDone s = false) :
    BSInvP (bsStep w t s x) (pstep p x.ti x.tO x.mPing x.mPong).1 ∧
    (bsStep w t s x).ibuf = (if x.ti = true ∧ p.val = 7 then x.i % 2 ^ w else s.ibuf) ∧
    (bsStep w t s x).o = (if x.tO = true ∧ p.val = 4 then s.ibuf else s.o) := by
  obtain ⟨v, hc, h3, h4⟩ := h
  have hstep := ctlOf_step w t s x hd
  rw [hc, cstep_shape] at hstep
  have hpong : pongOut s = decide (p.val = 7) := by
    have := shape_pong p v; rw [← hc] at this; exact this
  have hpingO : s.pingO = decide (p.val = 4) := by
    have := shape_pingO p v; rw [← hc] at this; exact this
  refine ⟨?_, ?_, ?_⟩
  · -- redo the data part for the explicit next phase
    have e_ibuf : (bsStep w t s x).ibuf = if x.ti then (if pongOut s then x.i % 2 ^ w else s.ibuf) else s.ibuf := rfl
    have e_ob1 : (bsStep w t s x).ob1 =
        if x.tO then (if x.ti then mix x.mBuf s.ibuf (ibufN w s x.i) else s.ibuf) else s.ob1 := rfl
    have e_ob2 : (bsStep w t s x).ob2 = if x.tO then s.ob1 else s.ob2 := rfl
    have stable : ¬ (x.ti = true ∧ p.val = 7) →
        (bsStep w t s x).ibuf = s.ibuf ∧ (x.tO = true → (bsStep w t s x).ob1 = s.ibuf) := by
      intro hn
      have hN : x.ti = true → ibufN w s x.i = s.ibuf := by
        intro hti
        have : ¬ p.val = 7 := fun h7 => hn ⟨hti, h7⟩
        simp [ibufN, hpong, this]
      constructor
      · rw [e_ibuf]
        cases hti : x.ti
        · simp
        · have := hN hti; simp only [ibufN] at this; simp [this]
      · intro hto
        rw [e_ob1, hto]
        cases hti : x.ti
        · simp
        · simp [hN hti, mix_same]
    refine ⟨_, hstep, ?_, ?_⟩
    · intro hp'
      obtain ⟨g1, _, g3⟩ := pstep_ge3 p x.ti x.tO x.mPing x.mPong hp'
      obtain ⟨s1, s2⟩ := stable g1
      rw [s1]
      cases hto : x.tO
      · rw [e_ob1, hto]
        rcases g3 with g | g
        · rw [hto] at g; exact absurd g (by simp)
        · simpa using h3 g
      · exact s2 hto
    · intro hp'
      obtain ⟨g1, _, _⟩ := pstep_ge3 p x.ti x.tO x.mPing x.mPong (by omega)
      obtain ⟨s1, _⟩ := stable g1
      rw [s1, e_ob2]
      rcases pstep_ge4 p x.ti x.tO x.mPing x.mPong hp' with ⟨g, g'⟩ | ⟨g, g'⟩
      · simpa [g] using h3 g'
      · simpa [g] using h4 g'
  · show (if x.ti then (if pongOut s then x.i % 2 ^ w else s.ibuf) else s.ibuf) = _
    rw [hpong]
    cases x.ti <;> by_cases h7 : p.val = 7 <;> simp [h7]
  · show (if x.tO then (if s.pingO then s.ob2 else s.o) else s.o) = _
    rw [hpingO]
    cases x.tO <;> by_cases h4' : p.val = 4 <;> simp [h4']
    exact h4 (by omega)


/-- Goal progress while `i` is held at `v`: 0 = nothing yet, 1 = `ibuffer` has been (re)loaded with `v`,
    2 = `o` has been loaded from it. -/
def gstep (p : Fin 8) (G : Fin 3) (ti tO : Bool) : Fin 3 :=
  if ti && p.val == 7 then (if G.val == 0 then 1 else G)
  else if tO && p.val == 4 && G.val != 0 then 2 else G

/-- Number of ring advances still needed until `o` shows the held word. -/
def todo (p : Fin 8) (G : Fin 3) : Nat :=
  match G.val with
  | 2 => 0
  | 1 => 5 - p.val
  | _ => if p.val == 0 then 12 else (8 - p.val) + 4

/-- Does the next ring advance wait for an i-clock edge (else: for an o-clock edge)? -/
def needsI (p : Fin 8) : Bool := p.val == 0 || p.val == 5 || p.val == 6 || p.val == 7

/-- Reachable combinations: after the reload and before the output the phase is 1..4. -/
def GOk (p : Fin 8) (G : Fin 3) : Bool := G.val != 1 || (1 ≤ p.val && p.val ≤ 4)

theorem todo_step : ∀ (p : Fin 8) (G : Fin 3) (ti tO mp mq : Bool), GOk p G = true →
    let p' := (pstep p ti tO mp mq).1
    let G' := gstep p G ti tO
    GOk p' G' = true ∧ todo p' G' ≤ todo p G ∧
    ((needsI p = true ∧ ti = true) ∨ (needsI p = false ∧ tO = true) → todo p' G' + 1 ≤ todo p G ∨ todo p' G' = 0) ∧
    (¬ ((needsI p = true ∧ ti = true) ∨ (needsI p = false ∧ tO = true)) → p' = p ∧ G' = G) := by
  decide


theorem todo_zero : ∀ (p : Fin 8) (G : Fin 3), GOk p G = true → todo p G = 0 → G = 2 := by decide
theorem todo_le : ∀ (p : Fin 8) (G : Fin 3), todo p G ≤ 12 := by decide

/-- Abstract run of (phase, goal progress) along a schedule. -/
def arun : Fin 8 × Fin 3 → List BSIn → Fin 8 × Fin 3
  | a, [] => a
  | a, x :: xs => arun ((pstep a.1 x.ti x.tO x.mPing x.mPong).1, gstep a.1 a.2 x.ti x.tO) xs

theorem arun_append (x y : List BSIn) : ∀ a, arun a (x ++ y) = arun (arun a x) y := by
  induction x with
  | nil => intro a; rfl
  | cons e es ih => intro a; simp [arun, ih]

/-- A block in which both clocks have at least one edge advances the ring. -/
theorem block_progress (blk : List BSIn) : ∀ a : Fin 8 × Fin 3, GOk a.1 a.2 = true →
    GOk (arun a blk).1 (arun a blk).2 = true ∧ todo (arun a blk).1 (arun a blk).2 ≤ todo a.1 a.2 ∧
    ((needsI a.1 = true → 1 ≤ bsITicks blk) ∧ (needsI a.1 = false → 1 ≤ bsOTicks blk) →
      todo (arun a blk).1 (arun a blk).2 + 1 ≤ todo a.1 a.2 ∨ todo (arun a blk).1 (arun a blk).2 = 0) := by
  induction blk with
  | nil =>
    intro a ha
    refine ⟨ha, le_refl _, fun h => ?_⟩
    simp only [bsITicks, bsOTicks] at h
    cases hn : needsI a.1
    · have := h.2 hn; omega
    · have := h.1 hn; omega
  | cons x xs ih =>
    intro a ha
    obtain ⟨t1, t2, t3, t4⟩ := todo_step a.1 a.2 x.ti x.tO x.mPing x.mPong ha
    obtain ⟨i1, i2, i3⟩ := ih ((pstep a.1 x.ti x.tO x.mPing x.mPong).1, gstep a.1 a.2 x.ti x.tO) t1
    dsimp only at i1 i2 i3
    simp only [arun]
    refine ⟨i1, le_trans i2 t2, fun h => ?_⟩
    by_cases hr : (needsI a.1 = true ∧ x.ti = true) ∨ (needsI a.1 = false ∧ x.tO = true)
    · rcases t3 hr with h' | h'
      · left; omega
      · right; omega
    · obtain ⟨e1, e2⟩ := t4 hr
      simp only [e1, e2] at i3 ⊢
      apply i3
      constructor
      · intro hn
        have := h.1 hn
        have hti : x.ti = false := by
          cases hti : x.ti
          · rfl
          · exact absurd (Or.inl ⟨hn, hti⟩) hr
        simpa [bsITicks, hti] using this
      · intro hn
        have := h.2 hn
        have hto : x.tO = false := by
          cases hto : x.tO
          · rfl
          · exact absurd (Or.inr ⟨hn, hto⟩) hr
        simpa [bsOTicks, hto] using this

theorem blocks_progress (blocks : List (List BSIn)) : ∀ a : Fin 8 × Fin 3, GOk a.1 a.2 = true →
    (∀ blk ∈ blocks, 1 ≤ bsITicks blk ∧ 1 ≤ bsOTicks blk) →
    GOk (arun a blocks.flatten).1 (arun a blocks.flatten).2 = true ∧
    (todo (arun a blocks.flatten).1 (arun a blocks.flatten).2 + blocks.length ≤ todo a.1 a.2 ∨
      todo (arun a blocks.flatten).1 (arun a blocks.flatten).2 = 0) := by
  induction blocks with
  | nil => intro a ha _; exact ⟨ha, Or.inl (by simp [arun])⟩
  | cons blk rest ih =>
    intro a ha hb
    obtain ⟨b1, b2, b3⟩ := block_progress blk a ha
    have hblk := hb blk (by simp)
    obtain ⟨r1, r2⟩ := ih (arun a blk) b1 (fun c hc => hb c (by simp [hc]))
    simp only [List.flatten_cons, arun_append, List.length_cons]
    refine ⟨r1, ?_⟩
    rcases b3 ⟨fun _ => hblk.1, fun _ => hblk.2⟩ with h | h
    · rcases r2 with r | r
      · left; omega
      · right; exact r
    · rcases r2 with r | r
      · right; omega
      · right; exact r

/-! ### Connecting the abstract run with the registers -/

def DG (v : Nat) (s : BSState) (G : Fin 3) : Prop := (1 ≤ G.val → s.ibuf = v) ∧ (G.val = 2 → s.o = v)

theorem dg_step (w t v : Nat) (s : BSState) (p : Fin 8) (G : Fin 3) (x : BSIn) (h : BSInvP s p)
    (hd : tmoDone s = false) (hg : DG v s G) (hx : x.i % 2 ^ w = v) :
    DG v (bsStep w t s x) (gstep p G x.ti x.tO) := by
  obtain ⟨_, e1, e2⟩ := bsInvP_step w t s p x h hd
  obtain ⟨g1, g2⟩ := hg
  unfold DG
  rw [e1, e2]
  by_cases c7 : x.ti = true ∧ p.val = 7
  · have hne : ¬ (x.tO = true ∧ p.val = 4) := by intro hc; omega
    have hG : gstep p G x.ti x.tO = if G.val = 0 then 1 else G := by
      simp [gstep, c7.1, c7.2]
    rw [hG, if_pos c7, if_neg hne, hx]
    by_cases h0 : G.val = 0
    · simp [h0]
    · simp only [h0, if_false]
      exact ⟨fun _ => trivial, g2⟩
  · rw [if_neg c7]
    by_cases c4 : x.tO = true ∧ p.val = 4
    · rw [if_pos c4]
      by_cases h0 : G.val = 0
      · have hG : gstep p G x.ti x.tO = G := by
          have : ¬ (x.ti = true ∧ p.val = 7) := c7
          simp only [gstep]
          rw [if_neg (by simpa using this)]
          simp [h0]
        rw [hG]
        exact ⟨fun h1 => by omega, fun h2 => by omega⟩
      · have hG : gstep p G x.ti x.tO = 2 := by
          simp only [gstep]
          rw [if_neg (by simpa using c7)]
          simp [c4.1, c4.2, h0]
        rw [hG]
        have := g1 (by omega)
        exact ⟨fun _ => this, fun _ => this⟩
    · rw [if_neg c4]
      have hG : gstep p G x.ti x.tO = G := by
        simp only [gstep]
        rw [if_neg (by simpa using c7)]
        have : ¬ (x.tO = true ∧ p.val = 4) := c4
        rw [if_neg (by simp; intro h1 h2; exact absurd ⟨h1, h2⟩ this)]
      rw [hG]
      exact ⟨g1, g2⟩

theorem bsRun_append (w t : Nat) (x y : List BSIn) : ∀ s, bsRun w t s (x ++ y) = bsRun w t (bsRun w t s x) y := by
  induction x with
  | nil => intro s; rfl
  | cons e es ih => intro s; simp [bsRun, ih]

theorem noTimeout_append (w t : Nat) (x y : List BSIn) : ∀ s, NoTimeout w t s (x ++ y) →
    NoTimeout w t s x ∧ NoTimeout w t (bsRun w t s x) y := by
  induction x with
  | nil => intro s h; exact ⟨trivial, h⟩
  | cons e es ih =>
    intro s h
    obtain ⟨h1, h2⟩ := h
    obtain ⟨i1, i2⟩ := ih _ h2
    exact ⟨⟨h1, i1⟩, i2⟩

theorem invP_run (w t : Nat) (xs : List BSIn) : ∀ (s : BSState) (p : Fin 8), BSInvP s p → NoTimeout w t s xs →
    ∃ p', BSInvP (bsRun w t s xs) p' := by
  induction xs with
  | nil => intro s p h _; exact ⟨p, h⟩
  | cons x xs ih =>
    intro s p h hn
    exact ih _ _ (bsInvP_step w t s p x h hn.1).1 hn.2

theorem dg_run (w t v : Nat) (xs : List BSIn) : ∀ (s : BSState) (p : Fin 8) (G : Fin 3), BSInvP s p → DG v s G →
    NoTimeout w t s xs → (∀ e ∈ xs, e.i % 2 ^ w = v) →
    BSInvP (bsRun w t s xs) (arun (p, G) xs).1 ∧ DG v (bsRun w t s xs) (arun (p, G) xs).2 := by
  induction xs with
  | nil => intro s p G h hg _ _; exact ⟨h, hg⟩
  | cons x xs ih =>
    intro s p G h hg hn hv
    simp only [bsRun, arun]
    exact ih _ _ _ (bsInvP_step w t s p x h hn.1).1 (dg_step w t v s p G x h hn.1 hg (hv x (by simp))) hn.2
      (fun e he => hv e (by simp [he]))


/-! Both schedule predicates are decidable (used by the concrete examples). -/

def decNoTimeout (w t : Nat) : (s : BSState) → (xs : List BSIn) → Decidable (NoTimeout w t s xs)
  | _, [] => isTrue trivial
  | s, x :: xs =>
    have := decNoTimeout w t (bsStep w t s x) xs
    show Decidable (tmoDone s = false ∧ NoTimeout w t (bsStep w t s x) xs) from inferInstance

instance (w t : Nat) (s : BSState) (xs : List BSIn) : Decidable (NoTimeout w t s xs) := decNoTimeout w t s xs

def decIBurst (R : Nat) : (q : Nat) → (xs : List BSIn) → Decidable (IBurst R q xs)
  | _, [] => isTrue trivial
  | q, x :: xs =>
    have := decIBurst R 0 xs
    have := decIBurst R (q + 1) xs
    have := decIBurst R q xs
    show Decidable (if x.tO then IBurst R 0 xs else if x.ti then q < R ∧ IBurst R (q + 1) xs else IBurst R q xs)
      from inferInstance

instance (R q : Nat) (xs : List BSIn) : Decidable (IBurst R q xs) := decIBurst R q xs

end Litex.Cdc
