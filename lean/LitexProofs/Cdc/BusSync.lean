import LitexModel.Cdc.BusSync
import LitexProofs.Cdc.Gray
/-
  BusSynchronizer: the request/acknowledge ring and the data-path invariant.
-/
namespace Litex.Cdc

/-- The control bits of the hand-shake ring, in ring order:
    `c0 = _ping.toggle_i`, `c1 c2 = ` ping synchroniser, `c3 = _ping.toggle_o_r`, `pingO = ping_o`,
    `c4 = _pong.toggle_i`, `c5 c6 = ` pong synchroniser, `c7 = _pong.toggle_o_r`. -/
structure Ctl where
  starter : Bool
  c0 : Bool
  c1 : Bool
  c2 : Bool
  c3 : Bool
  pingO : Bool
  c4 : Bool
  c5 : Bool
  c6 : Bool
  c7 : Bool
deriving DecidableEq, Repr

def ctlOf (s : BSState) : Ctl :=
  { starter := s.starter, c0 := s.pingT, c1 := s.pingR1, c2 := s.pingR2, c3 := s.pingOR, pingO := s.pingO,
    c4 := s.pongT, c5 := s.pongR1, c6 := s.pongR2, c7 := s.pongOR }

/-- Control step when the retry timer has not expired (`_timeout.done = 0`). -/
def cstep (c : Ctl) (ti tO mp mq : Bool) : Ctl :=
  let pin := c.starter || (c.c6 != c.c7)
  let c0N := if pin then !c.c0 else c.c0
  let c4N := if c.pingO then !c.c4 else c.c4
  { starter := if ti then false else c.starter
    c0 := if ti then c0N else c.c0
    c1 := if tO then (if ti && mp then c0N else c.c0) else c.c1
    c2 := if tO then c.c1 else c.c2
    c3 := if tO then c.c2 else c.c3
    pingO := if tO then (c.c2 != c.c3) else c.pingO
    c4 := if tO then c4N else c.c4
    c5 := if ti then (if tO && mq then c4N else c.c4) else c.c5
    c6 := if ti then c.c5 else c.c6
    c7 := if ti then c.c6 else c.c7 }

theorem ctlOf_step (w t : Nat) (s : BSState) (x : BSIn) (hd : tmoDone s = false) :
    ctlOf (bsStep w t s x) = cstep (ctlOf s) x.ti x.tO x.mPing x.mPong := by
  obtain ⟨ti, tO, mp, mq, mb, i⟩ := x
  obtain ⟨starter, pingT, pongR1, pongR2, pongOR, count, ibuf, pingR1, pingR2, pingOR, pingO, pongT, ob1, ob2, o⟩ := s
  simp only [tmoDone] at hd
  cases ti <;> cases tO <;> cases mp <;> cases mq <;> cases pingO <;>
    simp [ctlOf, bsStep, cstep, pingTN, pongTN, pingIn, pongOut, pingOut, tmoDone, hd]

/-- The eight positions of the single wavefront travelling round the ring; `v` is the value the wavefront is
    overwriting.  Phase 0 exists only after reset (`starter`). -/
def shape (p : Fin 8) (v : Bool) : Ctl :=
  { starter := p.val == 0
    c0 := if 1 ≤ p.val then !v else v
    c1 := if 2 ≤ p.val then !v else v
    c2 := if 3 ≤ p.val then !v else v
    c3 := if 4 ≤ p.val then !v else v
    pingO := p.val == 4
    c4 := if 5 ≤ p.val then !v else v
    c5 := if 6 ≤ p.val then !v else v
    c6 := if 7 ≤ p.val then !v else v
    c7 := v }

/-- Phase after one instant, and whether the polarity flips (the wavefront passed `c7`/`c0`). -/
def pstep (p : Fin 8) (ti tO mp mq : Bool) : Fin 8 × Bool :=
  match p.val with
  | 0 => if ti then (if tO && mp then (2, false) else (1, false)) else (0, false)
  | 1 => if tO then (2, false) else (1, false)
  | 2 => if tO then (3, false) else (2, false)
  | 3 => if tO then (4, false) else (3, false)
  | 4 => if tO then (if ti && mq then (6, false) else (5, false)) else (4, false)
  | 5 => if ti then (6, false) else (5, false)
  | 6 => if ti then (7, false) else (6, false)
  | _ => if ti then (if tO && mp then (2, true) else (1, true)) else (7, false)

theorem cstep_shape : ∀ (p : Fin 8) (v ti tO mp mq : Bool),
    cstep (shape p v) ti tO mp mq = shape (pstep p ti tO mp mq).1 (v != (pstep p ti tO mp mq).2) := by
  decide

theorem shape_pong : ∀ (p : Fin 8) (v : Bool), ((shape p v).c6 != (shape p v).c7) = decide (p.val = 7) := by
  decide

theorem shape_pingO : ∀ (p : Fin 8) (v : Bool), (shape p v).pingO = decide (p.val = 4) := by decide

theorem shape_starter : ∀ (p : Fin 8) (v : Bool), (shape p v).starter = decide (p.val = 0) := by decide

/-- Which instants can lead into the phases in which the output side relies on `ibuffer` being stable. -/
theorem pstep_ge3 : ∀ (p : Fin 8) (ti tO mp mq : Bool), 3 ≤ (pstep p ti tO mp mq).1.val →
    ¬ (ti = true ∧ p.val = 7) ∧ ¬ (ti = true ∧ p.val = 0) ∧ (tO = true ∨ 3 ≤ p.val) := by decide

theorem pstep_ge4 : ∀ (p : Fin 8) (ti tO mp mq : Bool), 4 ≤ (pstep p ti tO mp mq).1.val →
    ((tO = true ∧ 3 ≤ p.val) ∨ (tO = false ∧ 4 ≤ p.val)) := by decide


/-- The retry timer never expires along the schedule (`_timeout.done` is low before every instant). -/
def NoTimeout (w t : Nat) (s : BSState) : List BSIn → Prop
  | [] => True
  | x :: xs => tmoDone s = false ∧ NoTimeout w t (bsStep w t s x) xs

/-- Invariant of the bus synchroniser while the timer does not expire: one wavefront in the ring, and from the
    moment the request is two flops deep in the output domain (`phase ≥ 3`) the synchroniser flops of the data
    path hold exactly `ibuffer`.  `L` lists the words known to have been on `i` (and the reset value). -/
def BSInv (s : BSState) (L : List Nat) : Prop :=
  ∃ (p : Fin 8) (v : Bool), ctlOf s = shape p v ∧ (3 ≤ p.val → s.ob1 = s.ibuf) ∧ (4 ≤ p.val → s.ob2 = s.ibuf) ∧
    s.o ∈ L ∧ s.ibuf ∈ L

theorem bsInv_init (t : Nat) : BSInv (bsInit t) [0] :=
  ⟨0, false, by simp [ctlOf, bsInit, shape], by simp [bsInit], by simp [bsInit], by simp [bsInit], by simp [bsInit]⟩

theorem bsInv_step (w t : Nat) (s : BSState) (L : List Nat) (x : BSIn) (h : BSInv s L)
    (hd : tmoDone s = false) :
    BSInv (bsStep w t s x) (L ++ (if x.ti then [x.i % 2 ^ w] else [])) := by
  obtain ⟨p, v, hc, h3, h4, ho, hi⟩ := h
  have hstep := ctlOf_step w t s x hd
  rw [hc, cstep_shape] at hstep
  have hpong : pongOut s = decide (p.val = 7) := by
    have := shape_pong p v; rw [← hc] at this; exact this
  have hpingO : s.pingO = decide (p.val = 4) := by
    have := shape_pingO p v; rw [← hc] at this; exact this
  -- the data registers after the instant
  have e_ibuf : (bsStep w t s x).ibuf = if x.ti then (if pongOut s then x.i % 2 ^ w else s.ibuf) else s.ibuf := rfl
  have e_ob1 : (bsStep w t s x).ob1 =
      if x.tO then (if x.ti then mix x.mBuf s.ibuf (ibufN w s x.i) else s.ibuf) else s.ob1 := rfl
  have e_ob2 : (bsStep w t s x).ob2 = if x.tO then s.ob1 else s.ob2 := rfl
  have e_o : (bsStep w t s x).o = if x.tO then (if s.pingO then s.ob2 else s.o) else s.o := rfl
  -- `ibuffer` is stable unless the acknowledge arrives in this instant
  have stable : ¬ (x.ti = true ∧ p.val = 7) →
      (bsStep w t s x).ibuf = s.ibuf ∧ (x.tO = true → (bsStep w t s x).ob1 = s.ibuf) := by
    intro hn
    have hN : x.ti = true → ibufN w s x.i = s.ibuf := by
      intro hti
      have : ¬ p.val = 7 := fun h7 => hn ⟨hti, h7⟩
      simp [ibufN, hpong, this]
    constructor
    · rw [e_ibuf]
      cases hti : x.ti
      · simp
      · have := hN hti; simp only [ibufN] at this; simp [this]
    · intro hto
      rw [e_ob1, hto]
      cases hti : x.ti
      · simp
      · simp [hN hti, mix_same]
  refine ⟨(pstep p x.ti x.tO x.mPing x.mPong).1, _, hstep, ?_, ?_, ?_, ?_⟩
  · intro hp'
    obtain ⟨g1, _, g3⟩ := pstep_ge3 p x.ti x.tO x.mPing x.mPong hp'
    obtain ⟨s1, s2⟩ := stable g1
    rw [s1]
    cases hto : x.tO
    · rw [e_ob1, hto]
      rcases g3 with g | g
      · rw [hto] at g; exact absurd g (by simp)
      · simpa using h3 g
    · exact s2 hto
  · intro hp'
    obtain ⟨g1, _, _⟩ := pstep_ge3 p x.ti x.tO x.mPing x.mPong (by omega)
    obtain ⟨s1, _⟩ := stable g1
    rw [s1, e_ob2]
    rcases pstep_ge4 p x.ti x.tO x.mPing x.mPong hp' with ⟨g, g'⟩ | ⟨g, g'⟩
    · simpa [g] using h3 g'
    · simpa [g] using h4 g'
  · rw [e_o]
    apply List.mem_append_left
    cases hto : x.tO
    · simpa using ho
    · cases hpo : s.pingO
      · simpa using ho
      · have : p.val = 4 := by rw [hpingO] at hpo; simpa using hpo
        simp only [if_true]
        rw [h4 (by omega)]; exact hi
  · rw [e_ibuf]
    cases hti : x.ti
    · simpa using hi
    · cases hpg : pongOut s
      · simp [hi]
      · simp

theorem bsInv_run (w t : Nat) (xs : List BSIn) : ∀ (s : BSState) (L : List Nat), BSInv s L → NoTimeout w t s xs →
    (bsRun w t s xs).o ∈ L ++ (bsInputs xs).map (· % 2 ^ w) := by
  induction xs with
  | nil => intro s L h _; simpa [bsRun, bsInputs] using h.choose_spec.choose_spec.2.2.2.1
  | cons x xs ih =>
    intro s L h hn
    obtain ⟨hd, hn'⟩ := hn
    have := ih _ _ (bsInv_step w t s L x h hd) hn'
    simp only [bsRun, bsInputs, List.map_append]
    rw [List.append_assoc] at this
    cases hti : x.ti <;> simpa [hti] using this


end Litex.Cdc
