import LitexModel.Periph.I2c
import LitexProofs.Periph.Uart
/-
  I2CMasterMachine lemmas for C19: bus legality of every transition, and a rank function that bounds the number of
  FSM steps (clk2x ticks) back to IDLE.  Core Lean only.
-/
namespace Litex.Periph
open Litex

/-- States entered "only with scl_o = 0" (comments in the source) really are. -/
structure I2cInv (s : I2cSt) : Prop where
  restart0 : s.fsm = .restart0 → s.scl = false
  stop0    : s.fsm = .stop0 → s.scl = false
  bits     : s.bits < 16

/-- What one clock edge may do to the two bus lines. -/
structure I2cLegal (s s' : I2cSt) : Prop where
  /-- SDA changes while SCL is (and stays) high only as a START (falling, from START0) or a STOP (rising, from STOP2). -/
  sda_high : s.sda ≠ s'.sda → s.scl = true → s'.scl = true →
             (s.fsm = .start0 ∧ s'.sda = false) ∨ (s.fsm = .stop2 ∧ s'.sda = true)
  /-- When both lines change in the same edge, SCL is falling (the pad stage then holds SDA for one cycle). -/
  both     : s.sda ≠ s'.sda → s.scl ≠ s'.scl → s'.scl = false
  /-- SDA never changes in the edge in which SCL rises. -/
  rising   : s.scl = false → s'.scl = true → s'.sda = s.sda

theorem i2c_poked_fields (s : I2cSt) (i : I2cIn) :
    (i2cPoked s i).fsm = s.fsm ∧ (i2cPoked s i).scl = s.scl ∧ (i2cPoked s i).sda = s.sda ∧
    (i2cPoked s i).bits = s.bits ∧ (i2cPoked s i).cnt = s.cnt := by
  unfold i2cPoked; split <;> simp

theorem i2c_fsm_step_legal (s : I2cSt) (i : I2cIn) (h : I2cInv s) :
    I2cInv (i2cFsmStep s i) ∧ I2cLegal s (i2cFsmStep s i) := by
  obtain ⟨fsm, scl, sda, data, ack, bits, cnt⟩ := s
  obtain ⟨st, sp, wr, rd, sdaI, load, poke, pdata, pack⟩ := i
  have h1 := h.restart0; have h2 := h.stop0; have h3 := h.bits
  simp only at h1 h2 h3
  cases fsm
  case idle =>
    cases st <;> cases sp <;> cases wr <;> cases rd <;> cases scl <;>
      (refine ⟨⟨?_, ?_, ?_⟩, ⟨?_, ?_, ?_⟩⟩) <;> simp_all [i2cFsmStep]
  all_goals
    cases scl <;> cases sda <;>
    (refine ⟨⟨?_, ?_, ?_⟩, ⟨?_, ?_, ?_⟩⟩) <;>
    (try simp_all [i2cFsmStep]) <;> (try split) <;> (try simp_all) <;> (try omega)

theorem i2c_legal_refl (s : I2cSt) : I2cLegal s s :=
  ⟨fun h => absurd rfl h, fun h => absurd rfl h, fun h1 h2 => by simp_all⟩

/-- Bus lines and control state of the full cycle (`i2cNext`): either one enabled FSM step or nothing. -/
theorem i2c_next_cases (cw : Nat) (s : I2cSt) (i : I2cIn) :
    let p := i2cPoked s i
    ((i2cNext cw s i).fsm = (i2cFsmStep p i).fsm ∧ (i2cNext cw s i).scl = (i2cFsmStep p i).scl ∧
     (i2cNext cw s i).sda = (i2cFsmStep p i).sda ∧ (i2cNext cw s i).bits = (i2cFsmStep p i).bits ∧
     ((i.run = true ∧ s.fsm = .idle) ∨ s.cnt = 0)) ∨
    ((i2cNext cw s i).fsm = s.fsm ∧ (i2cNext cw s i).scl = s.scl ∧ (i2cNext cw s i).sda = s.sda ∧
     (i2cNext cw s i).bits = s.bits ∧ s.cnt ≠ 0) := by
  intro p
  have hp := i2c_poked_fields s i
  by_cases hce : ((i.run && (i2cPoked s i).fsm == .idle) || (i2cPoked s i).cnt == 0) = true
  · left
    simp only [i2cNext, hce, if_true]
    refine ⟨rfl, rfl, rfl, rfl, ?_⟩
    rw [hp.2.2.2.2, hp.1] at hce
    simpa using hce
  · right
    have hce' : ((i.run && (i2cPoked s i).fsm == .idle) || (i2cPoked s i).cnt == 0) = false := by simpa using hce
    simp only [i2cNext, hce', Bool.false_eq_true, if_false]
    refine ⟨hp.1, hp.2.1, hp.2.2.1, hp.2.2.2.1, ?_⟩
    rw [hp.2.2.2.2] at hce'
    simp at hce'
    exact hce'.2

/-- Every clock edge of the machine is legal on the bus and keeps the invariant, for every input. -/
theorem i2c_next_legal (cw : Nat) (s : I2cSt) (i : I2cIn) (h : I2cInv s) :
    I2cInv (i2cNext cw s i) ∧ I2cLegal s (i2cNext cw s i) := by
  have hp := i2c_poked_fields s i
  have hpinv : I2cInv (i2cPoked s i) :=
    ⟨by rw [hp.1, hp.2.1]; exact h.restart0, by rw [hp.1, hp.2.1]; exact h.stop0, by rw [hp.2.2.2.1]; exact h.bits⟩
  have hst := i2c_fsm_step_legal (i2cPoked s i) i hpinv
  rcases i2c_next_cases cw s i with ⟨e1, e2, e3, e4, _⟩ | ⟨e1, e2, e3, e4, _⟩
  · refine ⟨⟨?_, ?_, ?_⟩, ⟨?_, ?_, ?_⟩⟩
    · rw [e1, e2]; exact hst.1.restart0
    · rw [e1, e2]; exact hst.1.stop0
    · rw [e4]; exact hst.1.bits
    · rw [e2, e3]; have := hst.2.sda_high; rw [hp.1, hp.2.1, hp.2.2.1] at this; exact this
    · rw [e2, e3]; have := hst.2.both; rw [hp.2.1, hp.2.2.1] at this; exact this
    · rw [e2, e3]; have := hst.2.rising; rw [hp.2.1, hp.2.2.1] at this; exact this
  · refine ⟨⟨?_, ?_, ?_⟩, ⟨?_, ?_, ?_⟩⟩
    · rw [e1, e2]; exact h.restart0
    · rw [e1, e2]; exact h.stop0
    · rw [e4]; exact h.bits
    · rw [e3]; intro hne; exact absurd rfl hne
    · rw [e3]; intro hne; exact absurd rfl hne
    · rw [e2, e3]; intro h1 h2; simp_all

/-- The invariant holds in every reachable state. -/
theorem i2c_inv_reachable (cw : Nat) (ins : List I2cIn) : I2cInv ((i2cMachine cw).run ins) :=
  Machine.invariant_runFrom (i2cMachine cw) I2cInv (fun s i h => (i2c_next_legal cw s i h).1) ins _
    ⟨by simp [i2cMachine], by simp [i2cMachine], by simp [i2cMachine]⟩

/-! ### Progress: number of enabled FSM steps back to IDLE -/

def i2cRank (s : I2cSt) : Nat :=
  match s.fsm with
  | .idle => 0
  | .start0 => 1
  | .restart0 => 3
  | .restart1 => 2
  | .stop0 => 3
  | .stop1 => 2
  | .stop2 => 1
  | .write0 => 2 * s.bits + 3
  | .write1 => if s.bits = 0 then 34 else 2 * s.bits + 2
  | .readack0 => 2
  | .readack1 => 1
  | .read0 => 2 * s.bits + 4
  | .read1 => 2 * s.bits + 3
  | .read2 => if s.bits = 0 then 34 else 2 * s.bits + 2
  | .writeack0 => 2
  | .writeack1 => 1

theorem i2c_rank_le (s : I2cSt) (h : s.bits < 16) : i2cRank s ≤ 34 := by
  unfold i2cRank; split <;> (try split) <;> omega

theorem i2c_rank_zero_iff (s : I2cSt) : i2cRank s = 0 ↔ s.fsm = .idle := by
  unfold i2cRank; split <;> (try split) <;> simp_all <;> omega

/-- Outside IDLE every enabled FSM step decreases the rank by exactly one, whatever the inputs. -/
theorem i2c_rank_step (s : I2cSt) (i : I2cIn) (hb : s.bits < 16) (hn : s.fsm ≠ .idle) :
    i2cRank (i2cFsmStep s i) + 1 = i2cRank s := by
  obtain ⟨fsm, scl, sda, data, ack, bits, cnt⟩ := s
  simp only at hb hn
  by_cases hb0 : bits = 0
  · subst hb0
    cases fsm <;> simp_all [i2cFsmStep, i2cRank]
  · have hb1 : (bits + 15) % 16 = bits - 1 := by omega
    cases fsm <;> simp_all [i2cFsmStep, i2cRank] <;> (try split) <;> (try simp_all) <;> (try omega)

theorem i2cRank_congr (s t : I2cSt) (h1 : s.fsm = t.fsm) (h2 : s.bits = t.bits) : i2cRank s = i2cRank t := by
  unfold i2cRank; rw [h1, h2]

theorem i2c_fsm_step_bits (s : I2cSt) (i : I2cIn) (hb : s.bits < 16) : (i2cFsmStep s i).bits < 16 := by
  obtain ⟨fsm, scl, sda, data, ack, bits, cnt⟩ := s
  simp only at hb
  cases fsm <;> simp only [i2cFsmStep] <;> (try split) <;> (try split) <;> (try simp) <;> omega

/-- Cycle measure: remaining ticks times the tick period `l + 1`, plus the distance to the next tick. -/
def i2cMu (l : Nat) (s : I2cSt) : Nat := if i2cRank s = 0 then 0 else (i2cRank s - 1) * (l + 1) + s.cnt + 1

/-- Outside IDLE the measure strictly decreases in every cycle, for every input (command strobes outside IDLE are
    ignored). -/
theorem i2c_mu_step (cw l : Nat) (s : I2cSt) (i : I2cIn) (hb : s.bits < 16) (hc : s.cnt ≤ l) (hl : i.load = l)
    (hn : s.fsm ≠ .idle) :
    i2cMu l (i2cNext cw s i) < i2cMu l s ∧ (i2cNext cw s i).cnt ≤ l ∧ (i2cNext cw s i).bits < 16 := by
  have hp := i2c_poked_fields s i
  have hpb : (i2cPoked s i).bits < 16 := by rw [hp.2.2.2.1]; exact hb
  have hpn : (i2cPoked s i).fsm ≠ .idle := by rw [hp.1]; exact hn
  have hrs := i2c_rank_step (i2cPoked s i) i hpb hpn
  have hrp : i2cRank (i2cPoked s i) = i2cRank s := i2cRank_congr _ _ hp.1 hp.2.2.2.1
  have hidle : i2cIdle (i2cPoked s i) i = false := by
    simp only [i2cIdle, hp.1]
    cases hf : s.fsm <;> simp_all
  have hcnt : (i2cNext cw s i).cnt = if s.cnt = 0 then l else s.cnt - 1 := by
    simp only [i2cNext, hidle, Bool.false_eq_true, if_false, hp.2.2.2.2, hl]
    by_cases h0 : s.cnt = 0 <;> simp [h0]
  have hcl : (i2cNext cw s i).cnt ≤ l := by rw [hcnt]; split <;> omega
  have hR0 : i2cRank s ≠ 0 := fun h => hn ((i2c_rank_zero_iff s).mp h)
  rcases i2c_next_cases cw s i with ⟨e1, _, _, e4, hce⟩ | ⟨e1, _, _, e4, hc0⟩
  · have hr : i2cRank (i2cNext cw s i) + 1 = i2cRank s := by
      rw [i2cRank_congr _ _ e1 e4, hrs, hrp]
    refine ⟨?_, hcl, by rw [e4]; exact i2c_fsm_step_bits _ i hpb⟩
    unfold i2cMu
    simp only [hR0, if_false]
    by_cases hz : i2cRank (i2cNext cw s i) = 0
    · simp only [hz, if_true]; omega
    · simp only [hz, if_false]
      obtain ⟨r, hr1⟩ := Nat.exists_eq_succ_of_ne_zero hz
      have e : i2cRank s - 1 = r + 1 := by omega
      rw [hr1, e, Nat.succ_sub_one, Nat.succ_mul]
      generalize r * (l + 1) = A
      omega
  · have hr : i2cRank (i2cNext cw s i) = i2cRank s := i2cRank_congr _ _ e1 e4
    refine ⟨?_, hcl, by rw [e4]; exact hb⟩
    unfold i2cMu
    simp only [hr, hR0, if_false, hcnt, hc0]
    omega

theorem runFn_succ_shift {ι σ ο : Type} (m : Machine ι σ ο) (s : σ) (f : Nat → ι) (k : Nat) :
    runFn m s f (k + 1) = runFn m (m.next s (f 0)) (fun t => f (t + 1)) k := by
  induction k with
  | zero => rfl
  | succ k ih => simp only [runFn] at *; rw [ih]

/-- **Liveness in cycles.**  With a constant `load = l`, from every state (whatever command strobes, data pokes and
    SDA values follow) the machine is in IDLE after at most `i2cMu l s ≤ rank·(l+1)` cycles. -/
theorem i2c_reaches_idle (cw l : Nat) (n : Nat) :
    ∀ (s : I2cSt) (f : Nat → I2cIn), (∀ t, (f t).load = l) → s.bits < 16 → s.cnt ≤ l → i2cMu l s ≤ n →
      ∃ k, k ≤ i2cMu l s ∧ (runFn (i2cMachine cw) s f k).fsm = .idle := by
  induction n with
  | zero =>
    intro s f _ _ _ hmu
    refine ⟨0, Nat.zero_le _, ?_⟩
    have h0 : i2cMu l s = 0 := by omega
    unfold i2cMu at h0
    by_cases hz : i2cRank s = 0
    · exact (i2c_rank_zero_iff s).mp hz
    · simp only [hz, if_false] at h0; omega
  | succ n ih =>
    intro s f hf hb hc hmu
    by_cases hidle : s.fsm = .idle
    · exact ⟨0, Nat.zero_le _, hidle⟩
    · have st := i2c_mu_step cw l s (f 0) hb hc (hf 0) hidle
      obtain ⟨k, hk, hki⟩ := ih (i2cNext cw s (f 0)) (fun t => f (t + 1)) (fun t => hf (t + 1)) st.2.2 st.2.1
        (by omega)
      refine ⟨k + 1, by omega, ?_⟩
      rw [runFn_succ_shift]
      exact hki

theorem i2c_mu_le (l : Nat) (s : I2cSt) (hc : s.cnt ≤ l) : i2cMu l s ≤ i2cRank s * (l + 1) := by
  unfold i2cMu
  split
  · omega
  · obtain ⟨r, hr⟩ := Nat.exists_eq_succ_of_ne_zero ‹_›
    rw [hr, Nat.succ_sub_one, Nat.succ_mul]
    omega

end Litex.Periph
