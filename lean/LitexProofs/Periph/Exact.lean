import LitexProofs.Periph.SpiSlave
import LitexProofs.Periph.Timers
import LitexProofs.Periph.GlueMisc
/-
  Exact closed forms for C19: what the SPISlave receive register holds bit by bit (and that a full word overwrites
  whatever was there), the MISO bit shown after every prefix of a frame, the PWM for every (width, period) including
  the corner values and run-time changes, and the Timer value as a closed formula of the cycle number.
  Core Lean only.
-/
namespace Litex.Periph
open Litex

/-! ### The receive shift register -/

@[simp] theorem shiftIn_nil (dw r : Nat) : shiftIn dw r [] = r := rfl

@[simp] theorem shiftIn_cons (dw r : Nat) (b : Bool) (bs : List Bool) :
    shiftIn dw r (b :: bs) = shiftIn dw ((2 * r + (if b then 1 else 0)) % 2 ^ dw) bs := rfl

theorem shiftIn_append (dw r : Nat) (as bs : List Bool) :
    shiftIn dw r (as ++ bs) = shiftIn dw (shiftIn dw r as) bs := by
  simp [shiftIn, List.foldl_append]

/-- One shift: bit 0 is the new sample, bit `j` the old bit `j - 1` (below the register width). -/
theorem shift_step_testBit (dw r : Nat) (b : Bool) (j : Nat) (hj : j < dw) :
    ((2 * r + (if b then 1 else 0)) % 2 ^ dw).testBit j = if j = 0 then b else r.testBit (j - 1) := by
  rw [Nat.testBit_mod_two_pow]
  simp only [hj, decide_true, Bool.true_and]
  cases j with
  | zero =>
    rw [Nat.testBit_zero]
    cases b
    · simp
    · have : (2 * r + 1) % 2 = 1 := by omega
      simp [this]
  | succ j =>
    rw [Nat.testBit_succ]
    have : (2 * r + (if b then 1 else 0)) / 2 = r := by cases b <;> simp <;> omega
    rw [this]; simp

/-- **Every bit of the register after any list of samples**, whatever the register held before: bit `k` (below the
    width) is the sample taken `k` edges before the last one; positions not yet reached hold the old content moved
    up. -/
theorem shiftIn_testBit (dw : Nat) (bs : List Bool) (r k : Nat) (hk : k < dw) :
    (shiftIn dw r bs).testBit k =
      if k < bs.length then bs.getD (bs.length - 1 - k) false else r.testBit (k - bs.length) := by
  induction bs generalizing r with
  | nil => simp
  | cons b bs ih =>
    rw [shiftIn_cons, ih]
    simp only [List.length_cons]
    by_cases h1 : k < bs.length
    · have h2 : k < bs.length + 1 := by omega
      have e : bs.length + 1 - 1 - k = (bs.length - 1 - k) + 1 := by omega
      simp only [h1, h2, if_true, e, List.getD_cons_succ]
    · have hj : k - bs.length < dw := by omega
      rw [if_neg h1, shift_step_testBit dw r b _ hj]
      by_cases h3 : k = bs.length
      · subst h3; simp
      · have h5 : ¬ k < bs.length + 1 := by omega
        have h4 : k - bs.length ≠ 0 := by omega
        simp only [h5, h4, if_false]
        have e : k - (bs.length + 1) = k - bs.length - 1 := by omega
        rw [e]

/-- After at least one sample (or from a register value in range) the register is below `2 ^ dw`. -/
theorem shiftIn_lt (dw : Nat) (bs : List Bool) (r : Nat) (h : r < 2 ^ dw ∨ bs ≠ []) :
    shiftIn dw r bs < 2 ^ dw := by
  induction bs generalizing r with
  | nil => simpa using h
  | cons b bs ih => rw [shiftIn_cons]; exact ih _ (Or.inl (Nat.mod_lt _ (Nat.two_pow_pos dw)))

/-- The first `n` bits of the `dw`-bit word `w`, most significant bit first. -/
def msbBits (dw w n : Nat) : List Bool := (List.range n).map (fun j => w.testBit (dw - 1 - j))

@[simp] theorem msbBits_length (dw w n : Nat) : (msbBits dw w n).length = n := by simp [msbBits]

theorem msbBits_getD (dw w n j : Nat) (hj : j < n) : (msbBits dw w n).getD j false = w.testBit (dw - 1 - j) := by
  simp [msbBits, hj]

/-- The first `n ≤ dw` bits of `w` (MSB first) shifted into any register: the low `n` bits are the top `n` bits of
    `w`. -/
theorem shiftIn_msb_bits (dw w r n k : Nat) (hn : n ≤ dw) (hk : k < n) :
    (shiftIn dw r (msbBits dw w n)).testBit k = w.testBit (dw - n + k) := by
  rw [shiftIn_testBit dw _ r k (by omega), msbBits_length, if_pos hk, msbBits_getD dw w n _ (by omega)]
  congr 1; omega

/-- The same as a number: the low `n` bits of the register are `w` without its `dw - n` low bits. -/
theorem shiftIn_msb_prefix (dw w r n : Nat) (hn : n ≤ dw) :
    shiftIn dw r (msbBits dw w n) % 2 ^ n = (w / 2 ^ (dw - n)) % 2 ^ n := by
  apply Nat.eq_of_testBit_eq
  intro k
  rw [Nat.testBit_mod_two_pow, Nat.testBit_mod_two_pow, Nat.testBit_div_two_pow]
  by_cases hk : k < n
  · simp only [hk, decide_true, Bool.true_and]
    rw [shiftIn_msb_bits dw w r n k hn hk, Nat.add_comm]
  · simp [hk]

/-- **A whole word overwrites the register**: the `dw` bits of `w < 2 ^ dw`, MSB first, shifted into any previous
    content give exactly `w`. -/
theorem shiftIn_msb_word (dw w r : Nat) (hdw : 1 ≤ dw) (hw : w < 2 ^ dw) : shiftIn dw r (msbBits dw w dw) = w := by
  have h := shiftIn_msb_prefix dw w r dw (Nat.le_refl _)
  have hlt : shiftIn dw r (msbBits dw w dw) < 2 ^ dw := by
    apply shiftIn_lt; right
    intro hnil
    have := congrArg List.length hnil
    simp at this; omega
  rw [Nat.mod_eq_of_lt hlt, Nat.sub_self, Nat.pow_zero, Nat.div_one, Nat.mod_eq_of_lt hw] at h
  exact h

/-! ### SPISlave: prefixes of a frame, MISO bit order -/

/-- `slvCsHeld` of a concrete run can be decided (for the examples). -/
instance slvCsHeld_decidable (dw : Nat) : (s : SlvSt) → (ins : List SlvIn) → Decidable (slvCsHeld dw s ins)
  | _, [] => isTrue trivial
  | s, i :: is =>
    have := slvCsHeld_decidable dw (slvNext dw s i) is
    inferInstanceAs (Decidable (s.s1 = true ∧ slvCsHeld dw (slvNext dw s i) is))

theorem slvCsHeld_take (dw : Nat) (ins : List SlvIn) (s : SlvSt) (n : Nat) (h : slvCsHeld dw s ins) :
    slvCsHeld dw s (ins.take n) := by
  induction ins generalizing s n with
  | nil => simpa using h
  | cons i is ih =>
    cases n with
    | zero => simp [slvCsHeld]
    | succ n => exact ⟨h.1, ih _ n h.2⟩

/-- Inside a frame (transmit register loaded with `tx`), after a run with `f < dw` falling edges the MISO pad shows
    bit `dw - 1 - f` of `tx`: the word goes out MSB first, one bit per falling edge. -/
theorem slv_miso_run (dw : Nat) (ins : List SlvIn) (s : SlvSt) (hx : s.xfer = true) (hl : s.length < 256)
    (hcs : slvCsHeld dw s ins) (hf : slvFalls dw s ins < dw) (j : SlvIn) (hj : j.loopback = false) :
    ((spiSlave dw).out ((spiSlave dw).runFrom s ins) j).miso = s.misoData.testBit (dw - 1 - slvFalls dw s ins) := by
  have h := (slv_frame_run dw ins s hx hl hcs).2.2.2
  show (if j.loopback then _ else ((spiSlave dw).runFrom s ins).misoData.testBit (dw - 1)) = _
  simp only [hj, Bool.false_eq_true, if_false]
  exact slv_miso_bit dw s.misoData _ _ hf h

/-! ### PWM: single steps for every input -/

/-- Disabled: counter and output register are cleared, whatever `reset`, `width`, `period` say. -/
theorem pwm_off_step (s : PwmSt) (i : PwmIn) (h : i.enable = false) : pwmNext s i = ⟨0, false⟩ := by
  simp [pwmNext, h]

/-- Reset while enabled: the counter is cleared, the output register still follows the old counter (the assignment
    `pwm.eq(enable & (counter < width))` is outside the reset guard). -/
theorem pwm_reset_step (s : PwmSt) (i : PwmIn) (he : i.enable = true) (hr : i.reset = true) :
    pwmNext s i = ⟨0, decide (s.counter < i.width)⟩ := by
  simp [pwmNext, he, hr]

/-- The counter leaves a step in range for every input and every previous value: `0`, or below `period`. -/
theorem pwm_counter_in_range (s : PwmSt) (i : PwmIn) :
    (pwmNext s i).counter = 0 ∨ (pwmNext s i).counter < i.period := by
  simp only [pwmNext]
  split
  · split
    · right; assumption
    · left; rfl
  · left; rfl

/-- Counter at or above `period - 1` (period lowered at run time, or `period ≤ 1`): the next value is 0. -/
theorem pwm_wrap_step (s : PwmSt) (i : PwmIn) (h : i.period ≤ s.counter + 1) : (pwmNext s i).counter = 0 := by
  have : ¬ s.counter + 1 < i.period := by omega
  simp [pwmNext, this]

/-- `width = 0`: the output register is loaded with 0. -/
theorem pwm_zero_width_step (s : PwmSt) (i : PwmIn) (h : i.width = 0) : (pwmNext s i).pwm = false := by
  simp [pwmNext, h]

/-! ### PWM: runs -/

theorem pwm_highs_append (a b : List PwmIn) (s : PwmSt) :
    pwmHighs s (a ++ b) = pwmHighs s a + pwmHighs (pwm.runFrom s a) b := by
  induction a generalizing s with
  | nil => simp [pwmHighs]
  | cons i is ih => simp only [List.cons_append, pwmHighs, pwm_runFrom_cons, ih]; omega

/-- `period ≤ 1` (0 or 1), enabled, not reset: the counter never leaves 0. -/
theorem pwm_deg_period_counter (ins : List PwmIn) (h : ∀ i ∈ ins, i.period ≤ 1) (s : PwmSt) (hs : s.counter = 0) :
    (pwm.runFrom s ins).counter = 0 := by
  induction ins generalizing s with
  | nil => simpa using hs
  | cons i is ih =>
    rw [pwm_runFrom_cons]
    exact ih (fun j hj => h j (by simp [hj])) _ (pwm_wrap_step s i (by have := h i (by simp); omega))

/-- While `width = 0` the output register is never loaded with 1: any period, enable, reset, start state. -/
theorem pwm_zero_width_highs (ins : List PwmIn) (h : ∀ i ∈ ins, i.width = 0) (s : PwmSt) : pwmHighs s ins = 0 := by
  induction ins generalizing s with
  | nil => rfl
  | cons i is ih =>
    simp only [pwmHighs, pwm_zero_width_step s i (h i (by simp)), ih (fun j hj => h j (by simp [hj]))]
    simp

/-- `width ≥ period ≥ 1` (up to the largest value of the field), counter in range: the output register is loaded
    with 1 in every cycle. -/
theorem pwm_full_width_highs (P : Nat) (ins : List PwmIn)
    (h : ∀ i ∈ ins, i.enable = true ∧ i.reset = false ∧ i.period = P ∧ P ≤ i.width) (s : PwmSt) (hs : s.counter < P) :
    pwmHighs s ins = ins.length := by
  induction ins generalizing s with
  | nil => rfl
  | cons i is ih =>
    have hi := h i (by simp)
    have hp : (pwmNext s i).pwm = true := by
      have : s.counter < i.width := by omega
      simp [pwmNext, hi.1, this]
    have hc : (pwmNext s i).counter < P := by
      rcases pwm_counter_in_range s i with h0 | h1
      · omega
      · rw [hi.2.2.1] at h1; exact h1
    simp only [pwmHighs, hp, if_true, List.length_cons, ih (fun j hj => h j (by simp [hj])) _ hc]
    omega

/-- Every input of the run is enabled, not reset, with `period = P` and `width = W`. -/
def PwmConst (P W : Nat) (ins : List PwmIn) : Prop :=
  ∀ i ∈ ins, i.enable = true ∧ i.reset = false ∧ i.period = P ∧ i.width = W

theorem PwmConst.take {P W : Nat} {ins : List PwmIn} (h : PwmConst P W ins) (n : Nat) : PwmConst P W (ins.take n) :=
  fun i hi => h i (List.mem_of_mem_take hi)

theorem PwmConst.drop {P W : Nat} {ins : List PwmIn} (h : PwmConst P W ins) (n : Nat) : PwmConst P W (ins.drop n) :=
  fun i hi => h i (List.mem_of_mem_drop hi)

theorem PwmConst.counter {P W : Nat} {ins : List PwmIn} (h : PwmConst P W ins) (s : PwmSt) (hs : s.counter < P) :
    (pwm.runFrom s ins).counter = (s.counter + ins.length) % P :=
  pwm_counter P ins (fun i hi => ⟨(h i hi).1, (h i hi).2.1, (h i hi).2.2.1⟩) s hs

/-- A window of at most one period starting at counter 0: `min W length` high cycles. -/
theorem pwm_highs_partial (P W : Nat) (ins : List PwmIn) (h : PwmConst P W ins) (s : PwmSt) (hs : s.counter = 0)
    (hlen : ins.length ≤ P) : pwmHighs s ins = min W ins.length := by
  rw [pwm_highs_window P W ins h s (by omega), hs, ← List.range_eq_range', count_lt_range]

/-- `n` whole periods starting at counter 0: `n * min W P` high cycles. -/
theorem pwm_highs_periods (P W : Nat) (hP : 1 ≤ P) (n : Nat) (ins : List PwmIn) (h : PwmConst P W ins) (s : PwmSt)
    (hs : s.counter = 0) (hlen : ins.length = n * P) : pwmHighs s ins = n * min W P := by
  induction n generalizing ins s with
  | zero =>
    have : ins = [] := List.eq_nil_of_length_eq_zero (by simpa using hlen)
    subst this; simp [pwmHighs]
  | succ n ih =>
    have hl : (n + 1) * P = P + n * P := by rw [Nat.add_mul, Nat.one_mul, Nat.add_comm]
    rw [hl] at hlen
    have htl : (ins.take P).length = P := by rw [List.length_take]; omega
    have hdl : (ins.drop P).length = n * P := by rw [List.length_drop]; omega
    have hc : (pwm.runFrom s (ins.take P)).counter = 0 := by
      rw [(h.take P).counter s (by omega), hs, htl, Nat.zero_add, Nat.mod_self]
    rw [← List.take_append_drop P ins, pwm_highs_append, pwm_highs_partial P W _ (h.take P) s hs (by omega), htl,
      ih (ins.drop P) (h.drop P) _ hc hdl, Nat.add_mul, Nat.one_mul, Nat.add_comm]

/-- **Any number of cycles** starting at counter 0: `(k / P) * min W P + min W (k % P)` high cycles. -/
theorem pwm_highs_any (P W : Nat) (hP : 1 ≤ P) (ins : List PwmIn) (h : PwmConst P W ins) (s : PwmSt)
    (hs : s.counter = 0) :
    pwmHighs s ins = (ins.length / P) * min W P + min W (ins.length % P) := by
  have hk : ins.length / P * P + ins.length % P = ins.length := by
    rw [Nat.mul_comm]; exact Nat.div_add_mod _ _
  have hm : ins.length % P < P := Nat.mod_lt _ (by omega)
  have htl : (ins.take (ins.length / P * P)).length = ins.length / P * P := by rw [List.length_take]; omega
  have hdl : (ins.drop (ins.length / P * P)).length = ins.length % P := by rw [List.length_drop]; omega
  have hc : (pwm.runFrom s (ins.take (ins.length / P * P))).counter = 0 := by
    rw [(h.take _).counter s (by omega), hs, htl, Nat.zero_add, Nat.mul_mod_left]
  have e := pwm_highs_append (ins.take (ins.length / P * P)) (ins.drop (ins.length / P * P)) s
  rw [List.take_append_drop] at e
  rw [e, pwm_highs_periods P W hP (ins.length / P) _ (h.take _) s hs htl,
    pwm_highs_partial P W _ (h.drop _) _ hc (by omega), hdl]

/-! ### Timer: the value as a closed formula -/

/-- Enabled with constant `reload = R`, from any value `v`: the counter goes `v, v-1, …, 0, R, R-1, …, 0, R, …`. -/
theorem timer_value_closed (R : Nat) (ins : List TimerIn) (h : ∀ i ∈ ins, i.en = true ∧ i.reload = R) (s : TimerSt) :
    (timer.runFrom s ins).value =
      if ins.length ≤ s.value then s.value - ins.length else R - (ins.length - s.value - 1) % (R + 1) := by
  induction ins generalizing s with
  | nil => simp
  | cons i is ih =>
    have hi := h i (by simp)
    rw [timer_runFrom_cons, ih (fun j hj => h j (by simp [hj]))]
    simp only [List.length_cons]
    by_cases h0 : s.value = 0
    · have hn : (timerNext s i).value = R := by simp [timerNext, hi.1, hi.2, h0]
      rw [hn, h0]
      have e : is.length + 1 - 0 - 1 = is.length := by omega
      rw [if_neg (show ¬ is.length + 1 ≤ 0 by omega), e]
      by_cases hle : is.length ≤ R
      · rw [if_pos hle, Nat.mod_eq_of_lt (by omega)]
      · rw [if_neg hle]
        have e2 : is.length - R - 1 = is.length - (R + 1) := by omega
        rw [e2, ← Nat.mod_eq_sub_mod (by omega)]
    · have hb : (s.value == 0) = false := by simp [h0]
      have hn : (timerNext s i).value = s.value - 1 := by simp [timerNext, hi.1, hb]
      rw [hn]
      by_cases hle : is.length + 1 ≤ s.value
      · rw [if_pos (show is.length ≤ s.value - 1 by omega), if_pos hle]; omega
      · rw [if_neg (show ¬ is.length ≤ s.value - 1 by omega), if_neg hle]
        have e : is.length - (s.value - 1) - 1 = is.length + 1 - s.value - 1 := by omega
        rw [e]

/-- `R - m % (R + 1) = 0` exactly when `R + 1` divides `m + 1`. -/
theorem sub_mod_eq_zero_iff (R m : Nat) : R - m % (R + 1) = 0 ↔ (R + 1) ∣ (m + 1) := by
  have hlt : m % (R + 1) < R + 1 := Nat.mod_lt _ (by omega)
  have e : (m + 1) % (R + 1) = if m % (R + 1) + 1 < R + 1 then m % (R + 1) + 1 else 0 := by
    rw [← Nat.mod_add_mod]; exact succ_mod_of_lt hlt
  rw [Nat.dvd_iff_mod_eq_zero, e]
  split <;> omega

/-- The zero event `k` enabled cycles after a value `v`: exactly when `v ≤ k` and `R + 1` divides `k - v`. -/
theorem timer_zero_closed (R : Nat) (ins : List TimerIn) (h : ∀ i ∈ ins, i.en = true ∧ i.reload = R) (s : TimerSt) :
    (timer.runFrom s ins).value = 0 ↔ s.value ≤ ins.length ∧ (R + 1) ∣ (ins.length - s.value) := by
  rw [timer_value_closed R ins h s]
  by_cases hle : ins.length ≤ s.value
  · rw [if_pos hle]
    constructor
    · intro h0
      have : ins.length - s.value = 0 := by omega
      exact ⟨by omega, by rw [this]; exact Nat.dvd_zero _⟩
    · intro h1; omega
  · rw [if_neg hle, sub_mod_eq_zero_iff]
    have e : ins.length - s.value - 1 + 1 = ins.length - s.value := by omega
    rw [e]
    exact ⟨fun hd => ⟨by omega, hd⟩, fun hd => hd.2⟩

/-- Disabled cycles: the value is the `load` input of the last one. -/
theorem timer_disabled_run (ins : List TimerIn) (d : TimerIn) (hd : d.en = false) (s : TimerSt) :
    (timer.runFrom s (ins ++ [d])).value = d.load := by
  rw [Machine.runFrom_append]
  simp [timerNext, hd]

/-- The status register after one cycle: the old value if `update_value` was written, else unchanged. -/
theorem timer_status_step (s : TimerSt) (i : TimerIn) :
    (timerNext s i).status = if i.upd then s.value else s.status := rfl

end Litex.Periph
