import LitexModel.Periph.Uart
/-
  Helper lemmas for the C19 UART theorems: phase accumulator arithmetic, closed form of the transmitter's RUN
  phase, sample-point invariant of the receiver.  Core Lean only (`omega` with the literal 2^32).
-/
namespace Litex.Periph
open Litex

/-- State after `k` cycles when the input in cycle `j` is `f j` (tail-recursive form of `Machine.runFrom`). -/
def runFn {ι σ ο : Type} (m : Machine ι σ ο) (s : σ) (f : Nat → ι) : Nat → σ
  | 0 => s
  | k + 1 => m.next (runFn m s f k) (f k)

theorem runFn_eq_runFrom {ι σ ο : Type} (m : Machine ι σ ο) (f : Nat → ι) (k : Nat) (s : σ) :
    runFn m s f k = m.runFrom s ((List.range k).map f) := by
  induction k with
  | zero => rfl
  | succ k ih =>
    rw [List.range_succ, List.map_append, Machine.runFrom_append, ← ih]
    rfl

/-- Every input list is of the form `(List.range k).map f`. -/
theorem runFrom_eq_runFn {ι σ ο : Type} [Inhabited ι] (m : Machine ι σ ο) (ins : List ι) (s : σ) :
    m.runFrom s ins = runFn m s (fun j => ins[j]!) ins.length := by
  rw [runFn_eq_runFrom]
  congr 1
  apply List.ext_getElem
  · simp
  · intro j h1 _
    simp [h1]

/-! ### Phase accumulator -/

/-- Ticks produced by `j` enabled cycles from `a`. -/
def accTicks (tw : Nat) (rx : Bool) (a : Acc) : Nat → Nat
  | 0 => 0
  | j + 1 => (if (accNext tw rx a true).tick then 1 else 0) + accTicks tw rx (accNext tw rx a true) j

/-- Accumulator state after `j` enabled cycles from `a`. -/
def accRun (tw : Nat) (rx : Bool) (a : Acc) : Nat → Acc
  | 0 => a
  | j + 1 => accRun tw rx (accNext tw rx a true) j

theorem acc_enabled (tw : Nat) (rx : Bool) (htw : tw < M32) (j : Nat) (a : Acc) (ha : a.phase < M32) :
    (accRun tw rx a j).phase = (a.phase + j * tw) % M32 ∧ accTicks tw rx a j = (a.phase + j * tw) / M32 := by
  induction j generalizing a with
  | zero =>
    simp only [accRun, accTicks, Nat.zero_mul, Nat.add_zero]
    unfold M32 at *
    omega
  | succ j ih =>
    have hp : (accNext tw rx a true).phase = (a.phase + tw) % M32 := by simp [accNext, Acc.ofNat]
    have ht : (if (accNext tw rx a true).tick then 1 else 0) = (a.phase + tw) / M32 := by
      simp only [accNext, Acc.ofNat, if_true]
      unfold M32 at *
      have : (a.phase + tw) / 4294967296 = 0 ∨ (a.phase + tw) / 4294967296 = 1 := by omega
      rcases this with h | h <;> simp [h]
    have := ih (accNext tw rx a true) (by rw [hp]; exact Nat.mod_lt _ (by unfold M32; omega))
    simp only [accRun, accTicks]
    rw [this.1, this.2, ht, hp, Nat.succ_mul]
    generalize j * tw = x
    unfold M32 at *
    omega

/-! ### Transmitter -/

/-- Shift register after `n` shifts (`data := Cat(data[1:], 1)`). -/
def txShift (d : Nat) : Nat → Nat
  | 0 => d
  | n + 1 => txShift d n / 2 + 128

/-- Bit `b` of the frame as the hardware produces it: start, then bit 0 of the shift register before each shift. -/
def txHwBit (d : Nat) : Nat → Bool
  | 0 => false
  | b + 1 => txShift d b % 2 == 1

/-- The frame as the standard defines it: start (0), `d0 … d7` LSB first, stop (1). -/
def frameBit (d : Nat) (b : Nat) : Bool :=
  if b = 0 then false else if b ≤ 8 then d.testBit (b - 1) else true

theorem txHwBit_table : ∀ d, d < 256 → ∀ b, b < 11 → txHwBit d b = frameBit d b := by decide +kernel

theorem txHwBit_eq_frameBit (d b : Nat) (hd : d < 256) (hb : b ≤ 10) : txHwBit d b = frameBit d b :=
  txHwBit_table d hd b (by omega)

/-- Closed form of the transmitter `r` cycles into RUN (byte `d`, tuning word `tw`). -/
def txRunSt (tw d r : Nat) : TxSt :=
  { run := true, data := txShift d (r * tw / M32), count := r * tw / M32, tx := txHwBit d (r * tw / M32)
    acc := { phase := ((r + 1) * tw) % M32, tick := decide ((r + 1) * tw / M32 = r * tw / M32 + 1) } }

/-- Accepting a byte in IDLE enters the closed form at `r = 0`. -/
theorem tx_accept (tw : Nat) (htw : tw < M32) (s : TxSt) (i : TxIn) (hs : s.run = false) (hv : i.valid = true)
    (hd : i.data < 256) : txNext tw s i = txRunSt tw i.data 0 := by
  have h0 : tw / M32 = 0 := Nat.div_eq_of_lt htw
  simp [txNext, txRunSt, hs, hv, accNext, accLoad, Acc.ofNat, txShift, txHwBit, h0, Nat.mod_eq_of_lt hd]

/-- One RUN cycle before the last tick of the frame stays in the closed form. -/
theorem tx_run_step (tw d r : Nat) (htw : tw < M32) (i : TxIn) (hr : (r + 1) * tw < 10 * M32) :
    txNext tw (txRunSt tw d r) i = txRunSt tw d (r + 1) := by
  have e1 : (r + 1) * tw = r * tw + tw := Nat.succ_mul r tw
  have e2 : (r + 1 + 1) * tw = r * tw + tw + tw := by rw [Nat.succ_mul, Nat.succ_mul]
  simp only [txNext, txRunSt, if_true, e1, e2] at *
  generalize r * tw = a at *
  by_cases ht : (a + tw) / M32 = a / M32 + 1
  · have hc : a / M32 + 1 ≤ 9 := by unfold M32 at *; omega
    have hne : (a / M32 == 9) = false := by
      have : a / M32 ≠ 9 := by omega
      simp [this]
    simp only [ht, decide_true, if_true, hne, Bool.not_false, accNext, Acc.ofNat, txShift, txHwBit]
    simp only [TxSt.mk.injEq, Acc.mk.injEq, true_and]
    refine ⟨?_, ?_, ?_⟩
    · unfold M32 at *; omega
    · unfold M32 at *; omega
    · unfold M32 at *
      rw [Bool.eq_iff_iff]
      simp only [beq_iff_eq, decide_eq_true_eq]
      omega
  · have hsame : (a + tw) / M32 = a / M32 := by unfold M32 at *; omega
    simp only [ht, decide_false, Bool.false_eq_true, if_false, if_true, accNext, Acc.ofNat]
    simp only [TxSt.mk.injEq, Acc.mk.injEq, true_and, hsame]
    refine ⟨?_, ?_⟩
    · unfold M32 at *; omega
    · unfold M32 at *
      rw [Bool.eq_iff_iff]
      simp only [beq_iff_eq, decide_eq_true_eq]
      omega

/-- The whole RUN phase in closed form, for any inputs on the sink. -/
theorem tx_run (tw d : Nat) (htw : tw < M32) (f : Nat → TxIn) (r : Nat) (hr : r * tw < 10 * M32) :
    runFn (uartTx tw) (txRunSt tw d 0) f r = txRunSt tw d r := by
  induction r with
  | zero => rfl
  | succ r ih =>
    have : r * tw < 10 * M32 := by
      have e : (r + 1) * tw = r * tw + tw := Nat.succ_mul r tw
      omega
    simp only [runFn]
    rw [ih this]
    exact tx_run_step tw d r htw (f r) hr

/-- Before the last tick `sink.ready` stays low. -/
theorem tx_not_ready (tw d r : Nat) (hr : (r + 1) * tw < 10 * M32) : txReady (txRunSt tw d r) = false := by
  simp only [txReady, txRunSt, Bool.true_and]
  by_cases ht : (r + 1) * tw / M32 = r * tw / M32 + 1
  · have : r * tw / M32 ≠ 9 := by unfold M32 at *; omega
    simp [this]
  · simp [ht]

/-- The last RUN cycle: `sink.ready` is high, and the next state is IDLE with the line high. -/
theorem tx_last (tw d r : Nat) (htw : tw < M32) (hd : d < 256) (i : TxIn)
    (h1 : r * tw < 10 * M32) (h2 : 10 * M32 ≤ (r + 1) * tw) :
    txReady (txRunSt tw d r) = true ∧ (txNext tw (txRunSt tw d r) i).run = false ∧
    (txNext tw (txRunSt tw d r) i).tx = true := by
  have e1 : (r + 1) * tw = r * tw + tw := Nat.succ_mul r tw
  rw [e1] at h2
  have h9 : r * tw / M32 = 9 := by unfold M32 at *; omega
  have h10 : (r * tw + tw) / M32 = 10 := by unfold M32 at *; omega
  have hb : txHwBit d 10 = true := by rw [txHwBit_eq_frameBit d 10 hd (by omega)]; rfl
  simp only [txHwBit] at hb
  simp [txReady, txRunSt, txNext, e1, h9, h10, hb]

end Litex.Periph
