import LitexProofs.Periph.UartRx
/-
  TX pad wired to RX pad, equal tuning words: alignment of the receiver's sample points with the transmitter's
  bit boundaries.  Core Lean only.
-/
namespace Litex.Periph
open Litex

theorem runFn_add {ι σ ο : Type} (m : Machine ι σ ο) (s : σ) (f : Nat → ι) (a k : Nat) :
    runFn m s f (a + k) = runFn m (runFn m s f a) (fun j => f (a + j)) k := by
  induction k with
  | zero => rfl
  | succ k ih => rw [← Nat.add_assoc]; simp only [runFn]; rw [ih]

/-- With at least four clock cycles per bit, one cycle after sample point `b + 1` the transmitter is still inside
    bit `b`. -/
theorem loopback_arith (tw b : Nat) (h0 : 0 < tw) (h4 : 4 * tw ≤ M32) :
    ((rxSampleCycle tw (b + 1) + 1) * tw) / M32 = b := by
  unfold rxSampleCycle
  have hdm := Nat.div_add_mod ((2 * (b + 1) - 1) * HALF32 + tw - 1) tw
  have hml := Nat.mod_lt ((2 * (b + 1) - 1) * HALF32 + tw - 1) h0
  rw [Nat.succ_mul, Nat.mul_comm _ tw]
  generalize tw * (((2 * (b + 1) - 1) * HALF32 + tw - 1) / tw) = q at *
  have e : (2 * (b + 1) - 1) * HALF32 = 2 * b * HALF32 + HALF32 := by
    have : 2 * (b + 1) - 1 = 2 * b + 1 := by omega
    rw [this, Nat.add_mul, Nat.one_mul]
  rw [e] at hdm hml
  have e2 : 2 * b * HALF32 = b * M32 := by unfold HALF32 M32; omega
  rw [e2] at hdm hml
  apply Nat.div_eq_of_lt_le
  · unfold M32 HALF32 at *; omega
  · rw [Nat.succ_mul]; unfold M32 HALF32 at *; omega

/-- Pad of the transmitter in cycle `t` of a run. -/
def txPad (tw : Nat) (sT : TxSt) (f : Nat → TxIn) (t : Nat) : Bool := (runFn (uartTx tw) sT f t).tx

/-- The transmitter's pad during the frame started in cycle 0: idle level, then the frame bits at the programmed
    rate. -/
theorem txPad_frame (tw : Nat) (htw : tw < M32) (sT : TxSt) (hrun : sT.run = false) (htx : sT.tx = true)
    (f : Nat → TxIn) (hv : (f 0).valid = true) (hd : (f 0).data < 256) :
    txPad tw sT f 0 = true ∧
    ∀ r, r * tw < 10 * M32 → txPad tw sT f (1 + r) = frameBit (f 0).data (r * tw / M32) := by
  refine ⟨htx, fun r hr => ?_⟩
  unfold txPad
  rw [runFn_add]
  have h1 : runFn (uartTx tw) sT f 1 = txRunSt tw (f 0).data 0 := by
    show txNext tw sT (f 0) = _
    exact tx_accept tw htw sT (f 0) hrun hv hd
  rw [h1, tx_run tw (f 0).data htw _ r hr]
  show txHwBit _ _ = _
  exact txHwBit_eq_frameBit _ _ hd (by unfold M32 at *; omega)

/-- Start-edge detection on an idle line: pad high in cycle 0, low in cycle 1 (the start bit).  The receiver stays
    in IDLE in cycles 0 … 3 and is in its first RUN cycle in cycle 4, seeing the pad of cycle 2 on `rx` and the pad of
    cycle 3 in the first synchroniser register. -/
theorem rx_detect (tw : Nat) (sR : RxSt) (p : Nat → Bool) (hrun : sR.run = false) (hr0 : sR.r0 = true)
    (hrx : sR.rx = true) (hrxd : sR.rxD = true) (hp0 : p 0 = true) (hp1 : p 1 = false) :
    (∀ t, t ≤ 3 → (runFn (uartRx tw) sR p t).run = false) ∧
    (runFn (uartRx tw) sR p 4).run = true ∧ (runFn (uartRx tw) sR p 4).count = 0 ∧
    (runFn (uartRx tw) sR p 4).acc = ⟨HALF32, false⟩ ∧ (runFn (uartRx tw) sR p 4).rx = p 2 ∧
    (runFn (uartRx tw) sR p 4).r0 = p 3 ∧ (runFn (uartRx tw) sR p 4).data = sR.data := by
  have e1 : runFn (uartRx tw) sR p 1 = 
      { sR with r0 := true, rx := true, rxD := true, run := false, count := 0, acc := Acc.ofNat HALF32 } := by
    show rxNext tw sR (p 0) = _
    simp [rxNext, hrun, hrx, hrxd, hr0, hp0, accNext, accLoad]
  have e2 : runFn (uartRx tw) sR p 2 = 
      { sR with r0 := false, rx := true, rxD := true, run := false, count := 0, acc := Acc.ofNat HALF32 } := by
    show rxNext tw (runFn (uartRx tw) sR p 1) (p 1) = _
    rw [e1]; simp [rxNext, hp1, accNext, accLoad]
  have e3 : runFn (uartRx tw) sR p 3 = 
      { sR with r0 := p 2, rx := false, rxD := true, run := false, count := 0, acc := Acc.ofNat HALF32 } := by
    show rxNext tw (runFn (uartRx tw) sR p 2) (p 2) = _
    rw [e2]; simp [rxNext, accNext, accLoad]
  have e4 : runFn (uartRx tw) sR p 4 = 
      { sR with r0 := p 3, rx := p 2, rxD := false, run := true, count := 0, acc := Acc.ofNat HALF32 } := by
    show rxNext tw (runFn (uartRx tw) sR p 3) (p 3) = _
    rw [e3]; simp [rxNext, accNext, accLoad]
  have hacc : Acc.ofNat HALF32 = ⟨HALF32, false⟩ := by simp [Acc.ofNat, HALF32, M32]
  refine ⟨?_, by rw [e4], by rw [e4], by rw [e4]; exact hacc, by rw [e4], by rw [e4], by rw [e4]⟩
  intro t ht
  match t, ht with
  | 0, _ => exact hrun
  | 1, _ => rw [e1]
  | 2, _ => rw [e2]
  | 3, _ => rw [e3]

/-- Seen through the two synchroniser registers plus the detection cycle, the receiver's sample point `b + 1` falls
    into bit `b` of the transmitter's frame (equal tuning words, at least four cycles per bit). -/
theorem loopback_line (tw : Nat) (h0 : 0 < tw) (h4 : 4 * tw ≤ M32) (sT : TxSt) (hrun : sT.run = false)
    (htx : sT.tx = true) (f : Nat → TxIn) (hv : (f 0).valid = true) (hd : (f 0).data < 256) (b : Nat) (hb : b ≤ 9) :
    txPad tw sT f (rxSampleCycle tw (b + 1) + 2) = frameBit (f 0).data b := by
  have htw : tw < M32 := by unfold M32 at *; omega
  have ha := loopback_arith tw b h0 h4
  have hdm := Nat.div_add_mod ((rxSampleCycle tw (b + 1) + 1) * tw) M32
  have hml := Nat.mod_lt ((rxSampleCycle tw (b + 1) + 1) * tw) (by unfold M32; omega : 0 < M32)
  rw [ha] at hdm
  have hlt : (rxSampleCycle tw (b + 1) + 1) * tw < 10 * M32 := by
    generalize (rxSampleCycle tw (b + 1) + 1) * tw = x at *
    unfold M32 at *; omega
  have e : rxSampleCycle tw (b + 1) + 2 = 1 + (rxSampleCycle tw (b + 1) + 1) := by omega
  rw [e, (txPad_frame tw htw sT hrun htx f hv hd).2 _ hlt, ha]

end Litex.Periph
