/-
  Counting clock pulses of a waveform given in closed form (used for the SPI master's clock pad).  Core Lean only.
-/
namespace Litex.Periph

/-- Number of rising edges `f t = 0 → f (t+1) = 1` with `t < n`. -/
def countEdges (f : Nat → Bool) : Nat → Nat
  | 0 => 0
  | n + 1 => countEdges f n + (if !f n && f (n + 1) then 1 else 0)

/-- A waveform made of `L` periods of `div` cycles, low for the first `div/2` and high for the rest, followed by
    `div/2 + 1` low cycles, has exactly `L` rising edges. -/
theorem pulse_count (f : Nat → Bool) (div L : Nat) (hdiv : 2 ≤ div)
    (hrun : ∀ i, i < L → ∀ k, k < div → f (i * div + k) = decide (div / 2 ≤ k))
    (hstop : ∀ k, k ≤ div / 2 → f (L * div + k) = false) :
    countEdges f (L * div + div / 2) = L := by
  -- value at the first cycle of period `i ≤ L`
  have hfirst : ∀ i, i ≤ L → f (i * div) = false := by
    intro i hi
    by_cases h : i < L
    · have := hrun i h 0 (by omega)
      simp only [Nat.add_zero] at this
      rw [this]; simp; omega
    · have : i = L := by omega
      subst this
      have := hstop 0 (by omega)
      simpa using this
  have inner : ∀ i, i < L → ∀ k, k ≤ div →
      countEdges f (i * div + k) = countEdges f (i * div) + (if div / 2 ≤ k then 1 else 0) := by
    intro i hi k
    induction k with
    | zero => intro _; have : ¬ (div / 2 ≤ 0) := by omega
              simp [this]
    | succ k ih =>
      intro hk
      have hprev := ih (by omega)
      have hfk := hrun i hi k (by omega)
      have hnext : f (i * div + k + 1) = decide (div / 2 ≤ k + 1 ∧ k + 1 < div) := by
        by_cases hlt : k + 1 < div
        · rw [Nat.add_assoc, hrun i hi (k + 1) hlt]; simp [hlt]
        · have e : i * div + k + 1 = (i + 1) * div := by rw [Nat.succ_mul]; omega
          rw [e, hfirst (i + 1) (by omega)]; simp [hlt]
      rw [← Nat.add_assoc]
      simp only [countEdges, hprev, hfk, hnext]
      by_cases h1 : div / 2 ≤ k
      · have h2 : div / 2 ≤ k + 1 := by omega
        simp [h1, h2]
      · by_cases h2 : div / 2 ≤ k + 1
        · have : k + 1 < div := by omega
          simp [h1, h2, this]
        · simp [h1, h2]
  have outer : ∀ i, i ≤ L → countEdges f (i * div) = i := by
    intro i
    induction i with
    | zero => intro _; simp [countEdges]
    | succ i ih =>
      intro hi
      have := inner i (by omega) div (Nat.le_refl _)
      rw [Nat.succ_mul, this, ih (by omega)]
      have : div / 2 ≤ div := by omega
      simp [this]
  have tail : ∀ k, k ≤ div / 2 → countEdges f (L * div + k) = L := by
    intro k
    induction k with
    | zero => intro _; exact outer L (Nat.le_refl _)
    | succ k ih =>
      intro hk
      rw [← Nat.add_assoc]
      simp only [countEdges, ih (by omega)]
      have := hstop (k + 1) hk
      rw [← Nat.add_assoc] at this
      simp [this]
  exact tail (div / 2) (Nat.le_refl _)

end Litex.Periph
