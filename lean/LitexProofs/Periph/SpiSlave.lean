import LitexModel.Periph.Spi
/-
  SPISlave lemmas for C19: inside a frame the core counts the synchronised rising clock edges and shifts the
  synchronised MOSI in at each of them, MSB first; MISO shifts out on falling edges.  Core Lean only.
-/
namespace Litex.Periph
open Litex

/-- Rising / falling edge of the synchronised clock, as the core detects it. -/
def SlvSt.rise (s : SlvSt) : Bool := s.c1 && !s.clkD
def SlvSt.fall (s : SlvSt) : Bool := !s.c1 && s.clkD

/-- Chip select (synchronised) asserted in every cycle of the run. -/
def slvCsHeld (dw : Nat) (s : SlvSt) : List SlvIn → Prop
  | [] => True
  | i :: is => s.s1 = true ∧ slvCsHeld dw (slvNext dw s i) is

/-- Synchronised MOSI values at the rising edges of the run, oldest first. -/
def slvSamples (dw : Nat) (s : SlvSt) : List SlvIn → List Bool
  | [] => []
  | i :: is => (if s.rise then [s.m1] else []) ++ slvSamples dw (slvNext dw s i) is

/-- Number of falling edges of the run. -/
def slvFalls (dw : Nat) (s : SlvSt) : List SlvIn → Nat
  | [] => 0
  | i :: is => (if s.fall then 1 else 0) + slvFalls dw (slvNext dw s i) is

/-- Shift a list of bits into a `dw`-bit register at bit 0 (`Cat(mosi, self.mosi[:-1])`). -/
def shiftIn (dw : Nat) (r : Nat) (bs : List Bool) : Nat :=
  bs.foldl (fun acc b => (2 * acc + (if b then 1 else 0)) % 2 ^ dw) r

@[simp] theorem slv_runFrom_cons (dw : Nat) (s : SlvSt) (i : SlvIn) (is : List SlvIn) :
    (spiSlave dw).runFrom s (i :: is) = (spiSlave dw).runFrom (slvNext dw s i) is := rfl

/-- Frame start: chip select seen in IDLE raises `start`, clears `length`, loads the word to send. -/
theorem slv_frame_start (dw : Nat) (s : SlvSt) (i : SlvIn) (hx : s.xfer = false) (hc : s.s1 = true) :
    ((spiSlave dw).out s i).start = true ∧ ((spiSlave dw).out s i).done = false ∧
    (slvNext dw s i).xfer = true ∧ (slvNext dw s i).length = 0 ∧ (slvNext dw s i).misoData = i.tx := by
  simp [spiSlave, slvNext, hx, hc]

theorem slv_next_fields (dw : Nat) (s : SlvSt) (i : SlvIn) (hx : s.xfer = true) (hc : s.s1 = true) :
    (slvNext dw s i).xfer = true ∧
    (slvNext dw s i).length = (s.length + (if s.rise then 1 else 0)) % 256 ∧
    (slvNext dw s i).rx = (if s.rise then (2 * s.rx + (if s.m1 then 1 else 0)) % 2 ^ dw else s.rx) ∧
    (slvNext dw s i).misoData = (if s.fall then (2 * s.misoData) % 2 ^ dw else s.misoData) := by
  simp [slvNext, hx, hc, SlvSt.rise, SlvSt.fall]

/-- Inside a frame: `length` counts the rising edges (mod 256), the receive register shifts the MOSI values of
    those edges in (MSB first), the transmit register has been shifted left once per falling edge. -/
theorem slv_frame_run (dw : Nat) (ins : List SlvIn) (s : SlvSt) (hx : s.xfer = true) (hl : s.length < 256)
    (hcs : slvCsHeld dw s ins) :
    ((spiSlave dw).runFrom s ins).xfer = true ∧
    ((spiSlave dw).runFrom s ins).length = (s.length + (slvSamples dw s ins).length) % 256 ∧
    ((spiSlave dw).runFrom s ins).rx = shiftIn dw s.rx (slvSamples dw s ins) ∧
    ((spiSlave dw).runFrom s ins).misoData % 2 ^ dw = (s.misoData * 2 ^ slvFalls dw s ins) % 2 ^ dw := by
  induction ins generalizing s with
  | nil => simp [Machine.runFrom, slvSamples, shiftIn, slvFalls, hx, Nat.mod_eq_of_lt hl]
  | cons i is ih =>
    obtain ⟨hc, hrest⟩ := hcs
    obtain ⟨hx', hlen, hrx, hmd⟩ := slv_next_fields dw s i hx hc
    have hl' : (slvNext dw s i).length < 256 := by rw [hlen]; exact Nat.mod_lt _ (by omega)
    have := ih (slvNext dw s i) hx' hl' hrest
    rw [slv_runFrom_cons]
    refine ⟨this.1, ?_, ?_, ?_⟩
    · rw [this.2.1, hlen]
      simp only [slvSamples]
      by_cases hr : s.rise = true
      · simp only [hr, if_true, List.length_append, List.length_singleton]; omega
      · have hrf : s.rise = false := by simpa using hr
        simp only [hrf, Bool.false_eq_true, if_false, List.length_append, List.length_nil]; omega
    · rw [this.2.2.1, hrx]
      simp only [slvSamples]
      by_cases hr : s.rise = true
      · simp [hr, shiftIn]
      · have hrf : s.rise = false := by simpa using hr
        simp [hrf, shiftIn]
    · rw [this.2.2.2, hmd]
      simp only [slvFalls]
      by_cases hf : s.fall = true
      · simp only [hf, if_true]
        rw [Nat.pow_add, Nat.pow_one, Nat.mod_mul_mod, Nat.mul_comm 2 s.misoData, Nat.mul_assoc]
      · have hff : s.fall = false := by simpa using hf
        simp [hff]

/-- Frame end: chip select released in XFER pulses `irq` and returns to IDLE, where `done` is shown. -/
theorem slv_frame_end (dw : Nat) (s : SlvSt) (i : SlvIn) (hx : s.xfer = true) (hc : s.s1 = false) :
    ((spiSlave dw).out s i).irq = true ∧ (slvNext dw s i).xfer = false ∧
    (slvNext dw s i).rx = s.rx ∧
    ((slvNext dw s i).s1 = false → ∀ j, ((spiSlave dw).out (slvNext dw s i) j).done = true) := by
  refine ⟨by simp [spiSlave, hx, hc], by simp [slvNext, hc], by simp [slvNext, hc], ?_⟩
  intro h j
  simp [spiSlave, slvNext, hc] at h ⊢
  simp [h]

end Litex.Periph
