import LitexModel.Periph.Glue2
import LitexProofs.Periph.UartTop
import LitexProofs.Periph.Uart
/-
  C19 — helper lemmas for the small pieces of `LitexModel/Periph/Glue2.lean`: `UART.add_auto_tx_flush`, the PHY / UART
  multiplexers, `RS232PHYModel`, `UARTCrossover`, and `misc.py`'s `split` / `displacer` / `chooser` / `BitSlip`.
  Core Lean only.
-/
namespace Litex.Periph
open Litex Litex.Stream

/-! ### add_auto_tx_flush -/

/-- `source.ready` arrives often enough: before every cycle of the history the number of consecutive cycles without
    `source.ready` (`n` at the start) is below the timeout `T`. -/
def rdyWithin (T : Nat) : Nat → List UartTopIn → Bool
  | _, [] => true
  | n, i :: is => decide (n < T) && rdyWithin T (if i.srcRdy then 0 else n + 1) is

theorem flush_transparent_from (dtx drx : Nat) (rxWe : Bool) (T k : Nat) (ins : List UartTopIn) (s : UartFlushSt) (n : Nat)
    (hc : s.cnt = T - n) (h : rdyWithin T n ins = true) :
    ((uartFlush dtx drx rxWe T k).runFrom s ins).top = (uartTopM dtx drx rxWe).runFrom s.top ins ∧
    (uartFlush dtx drx rxWe T k).traceFrom s ins = (uartTopM dtx drx rxWe).traceFrom s.top ins := by
  induction ins generalizing s n with
  | nil => exact ⟨rfl, rfl⟩
  | cons i is ih =>
    simp only [rdyWithin, Bool.and_eq_true, decide_eq_true_eq] at h
    obtain ⟨hn, hrest⟩ := h
    have hpop : flushPop s i.srcRdy = i.srcRdy := by
      have : (s.cnt == 0) = false := by simp; omega
      simp [flushPop, WaitTimer.done, this]
    have htop : ((uartFlush dtx drx rxWe T k).next s i).top = (uartTopM dtx drx rxWe).next s.top i := by
      show uartTopNext dtx drx rxWe s.top { i with srcRdy := flushPop s i.srcRdy } = uartTopNext dtx drx rxWe s.top i
      rw [hpop]
    have hcnt : ((uartFlush dtx drx rxWe T k).next s i).cnt = T - (if i.srcRdy then 0 else n + 1) := by
      show WaitTimer.next T s.cnt (!i.srcRdy) = _
      have h0 : s.cnt ≠ 0 := by omega
      cases hr : i.srcRdy <;> simp [WaitTimer.next, WaitTimer.done, h0] <;> omega
    have := ih ((uartFlush dtx drx rxWe T k).next s i) _ hcnt hrest
    simp only [Machine.runFrom, Machine.traceFrom]
    rw [this.1, this.2, htop]
    exact ⟨rfl, rfl⟩

/-- A cycle in which the PHY is not ready and software does not write. -/
def Quiet (i : UartTopIn) : Prop := i.srcRdy = false ∧ i.re = false

/-- The buffered FIFO is settled: a queued character implies a loaded output register (true one cycle after any cycle
    without an accepted write). -/
def FbSettled (t : FBState Nat) : Prop := t.q ≠ [] → t.readable = true

/-- Number of cycles with `flush_count = 0` among `j` cycles starting with `flush_count = c`. -/
def popCount (P c : Nat) : Nat → Nat
  | 0 => 0
  | j + 1 => (if c = 0 then 1 else 0) + popCount P ((c + 1) % P) j

theorem fb_quiet_nopop (d : Nat) (t : FBState Nat) (tok : Tok Nat) (h : FbSettled t) :
    (syncFifoBuffered d zTokN).next t false tok false = t := by
  obtain ⟨q, rd, dout⟩ := t
  cases q with
  | nil => cases rd <;> simp [syncFifoBuffered]
  | cons x xs =>
    have : rd = true := h (by simp)
    subst this
    simp [syncFifoBuffered]

theorem fb_quiet_pop (d : Nat) (t : FBState Nat) (tok : Tok Nat) (h : FbSettled t) :
    fbInflight ((syncFifoBuffered d zTokN).next t false tok true) = (fbInflight t).tail ∧
    FbSettled ((syncFifoBuffered d zTokN).next t false tok true) := by
  obtain ⟨q, rd, dout⟩ := t
  cases q with
  | nil => cases rd <;> simp [syncFifoBuffered, fbInflight, FbSettled]
  | cons x xs =>
    have : rd = true := h (by simp)
    subst this
    simp [syncFifoBuffered, fbInflight, FbSettled]

/-- One quiet cycle in flush mode. -/
theorem flush_quiet_step (dtx drx : Nat) (rxWe : Bool) (T k : Nat) (s : UartFlushSt) (i : UartTopIn)
    (hq : Quiet i) (hc : s.cnt = 0) (hs : FbSettled s.top.tx) :
    let s' := (uartFlush dtx drx rxWe T k).next s i
    s'.cnt = 0 ∧ s'.fc = (s.fc + 1) % 2 ^ k ∧ FbSettled s'.top.tx ∧
    fbInflight s'.top.tx = (fbInflight s.top.tx).drop (if s.fc = 0 then 1 else 0) := by
  obtain ⟨hr, hre⟩ := hq
  have hcnt : WaitTimer.next T s.cnt (!i.srcRdy) = 0 := by simp [WaitTimer.next, WaitTimer.done, hr, hc]
  have htx : ((uartFlush dtx drx rxWe T k).next s i).top.tx =
      (syncFifoBuffered dtx zTokN).next s.top.tx false (tokN i.r) (s.fc == 0) := by
    show (syncFifoBuffered dtx zTokN).next s.top.tx i.re (tokN i.r) (flushPop s i.srcRdy) = _
    simp [flushPop, WaitTimer.done, hc, hre, hr]
  refine ⟨hcnt, rfl, ?_, ?_⟩
  · rw [htx]
    by_cases h0 : s.fc = 0
    · simp only [h0, BEq.rfl]; exact (fb_quiet_pop dtx _ _ hs).2
    · have : (s.fc == 0) = false := by simp [h0]
      rw [this, fb_quiet_nopop dtx _ _ hs]; exact hs
  · rw [htx]
    by_cases h0 : s.fc = 0
    · simp only [h0, BEq.rfl, if_true, List.drop_one]; exact (fb_quiet_pop dtx _ _ hs).1
    · have : (s.fc == 0) = false := by simp [h0]
      rw [this, fb_quiet_nopop dtx _ _ hs]; simp [h0]

theorem flush_quiet_run (dtx drx : Nat) (rxWe : Bool) (T k : Nat) (ins : List UartTopIn) (s : UartFlushSt)
    (hq : ∀ i ∈ ins, Quiet i) (hc : s.cnt = 0) (hs : FbSettled s.top.tx) :
    let s' := (uartFlush dtx drx rxWe T k).runFrom s ins
    s'.cnt = 0 ∧ FbSettled s'.top.tx ∧
    fbInflight s'.top.tx = (fbInflight s.top.tx).drop (popCount (2 ^ k) s.fc ins.length) := by
  induction ins generalizing s with
  | nil => exact ⟨hc, hs, by simp [popCount, Machine.runFrom]⟩
  | cons i is ih =>
    obtain ⟨h1, h2, h3, h4⟩ := flush_quiet_step dtx drx rxWe T k s i (hq i (by simp)) hc hs
    have := ih ((uartFlush dtx drx rxWe T k).next s i) (fun j hj => hq j (by simp [hj])) h1 h3
    simp only [Machine.runFrom, List.length_cons, popCount]
    refine ⟨this.1, this.2.1, ?_⟩
    rw [this.2.2, h4, h2, List.drop_drop]

/-! #### Counting the pops -/

theorem popCount_add (P c a b : Nat) (hc : c < P) :
    popCount P c (a + b) = popCount P c a + popCount P ((c + a) % P) b := by
  induction a generalizing c with
  | zero => simp [popCount, Nat.mod_eq_of_lt hc]
  | succ a ih =>
    rw [show a + 1 + b = (a + b) + 1 by omega]
    simp only [popCount]
    rw [ih _ (Nat.mod_lt _ (by omega)), Nat.mod_add_mod, show c + 1 + a = c + (a + 1) by omega]; omega

theorem popCount_quiet (P c j : Nat) (hc : 0 < c) (hj : c + j ≤ P) : popCount P c j = 0 := by
  induction j generalizing c with
  | zero => rfl
  | succ j ih =>
    simp only [popCount]
    have hc0 : c ≠ 0 := by omega
    by_cases hlt : c + 1 < P
    · rw [Nat.mod_eq_of_lt hlt, ih (c + 1) (by omega) (by omega)]; simp [hc0]
    · have hj0 : j = 0 := by omega
      subst hj0
      simp [popCount, hc0]

theorem popCount_zero_start (P j : Nat) (hj : j + 1 ≤ P) : popCount P 0 (j + 1) = 1 := by
  simp only [popCount]
  cases j with
  | zero => rfl
  | succ j =>
    rw [Nat.mod_eq_of_lt (by omega), popCount_quiet P 1 (j + 1) (by omega) (by omega)]; rfl

/-- Exactly one cycle with `flush_count = 0` in every window of `P` cycles. -/
theorem popCount_period (P c : Nat) (hc : c < P) : popCount P c P = 1 := by
  by_cases h0 : c = 0
  · subst h0
    obtain ⟨p, rfl⟩ : ∃ p, P = p + 1 := ⟨P - 1, by omega⟩
    exact popCount_zero_start _ p (by omega)
  · have e : P = (P - c) + c := by omega
    have h3 : (c + (P - c)) % P = 0 := by rw [show c + (P - c) = P by omega]; exact Nat.mod_self P
    have h := popCount_add P c (P - c) c hc
    rw [← e, h3, popCount_quiet P c (P - c) (by omega) (by omega)] at h
    obtain ⟨d, rfl⟩ : ∃ d, c = d + 1 := ⟨c - 1, by omega⟩
    rw [h, popCount_zero_start P d (by omega)]

theorem popCount_mul (P c n : Nat) (hc : c < P) : popCount P c (n * P) = n := by
  induction n with
  | zero => simp [popCount]
  | succ n ih =>
    rw [Nat.succ_mul, popCount_add _ _ _ _ hc, ih, Nat.add_mul_mod_self_right, Nat.mod_eq_of_lt hc, popCount_period P c hc]

theorem popCount_mono (P c a b : Nat) (hc : c < P) : popCount P c a ≤ popCount P c (a + b) := by
  rw [popCount_add _ _ _ _ hc]; omega

/-! #### Before the timeout: quiet cycles from any state -/

theorem fb_nowrite (d : Nat) (t : FBState Nat) (tok : Tok Nat) (r : Bool) :
    ((syncFifoBuffered d zTokN).next t false tok r).q.length ≤ t.q.length ∧
    FbSettled ((syncFifoBuffered d zTokN).next t false tok r) := by
  obtain ⟨q, rd, dout⟩ := t
  cases q <;> cases rd <;> cases r <;> simp [syncFifoBuffered, FbSettled]

theorem flush_quiet_any (dtx drx : Nat) (rxWe : Bool) (T k : Nat) (ins : List UartTopIn) (s : UartFlushSt)
    (hq : ∀ i ∈ ins, Quiet i) :
    let s' := (uartFlush dtx drx rxWe T k).runFrom s ins
    s'.cnt = s.cnt - ins.length ∧ s'.top.tx.q.length ≤ s.top.tx.q.length ∧
    (ins ≠ [] → FbSettled s'.top.tx ∧ s'.fc < 2 ^ k) := by
  induction ins generalizing s with
  | nil => simp [Machine.runFrom]
  | cons i is ih =>
    obtain ⟨hr, hre⟩ := hq i (by simp)
    have ih' := ih ((uartFlush dtx drx rxWe T k).next s i) (fun j hj => hq j (by simp [hj]))
    have hcnt : ((uartFlush dtx drx rxWe T k).next s i).cnt = s.cnt - 1 := by
      show WaitTimer.next T s.cnt (!i.srcRdy) = _
      simp [WaitTimer.next, WaitTimer.done, hr]; intro h; omega
    have htx : ((uartFlush dtx drx rxWe T k).next s i).top.tx =
        (syncFifoBuffered dtx zTokN).next s.top.tx false (tokN i.r) (flushPop s i.srcRdy) := by
      show (syncFifoBuffered dtx zTokN).next s.top.tx i.re (tokN i.r) (flushPop s i.srcRdy) = _
      rw [hre]
    have hfb := fb_nowrite dtx s.top.tx (tokN i.r) (flushPop s i.srcRdy)
    have hfc : ((uartFlush dtx drx rxWe T k).next s i).fc < 2 ^ k := Nat.mod_lt _ (Nat.two_pow_pos k)
    simp only [Machine.runFrom, List.length_cons]
    refine ⟨by rw [ih'.1, hcnt]; omega, by rw [← htx] at hfb; exact Nat.le_trans ih'.2.1 hfb.1, fun _ => ?_⟩
    cases is with
    | nil => exact ⟨by rw [← htx] at hfb; exact hfb.2, hfc⟩
    | cons j js => exact ih'.2.2 (by simp)

theorem fbInflight_length_le (t : FBState Nat) : (fbInflight t).length ≤ t.q.length + 1 := by
  unfold fbInflight; cases t.readable <;> simp

theorem fbInflight_nil (t : FBState Nat) (h : fbInflight t = []) : t.q = [] ∧ t.readable = false := by
  unfold fbInflight at h
  cases hr : t.readable <;> simp [hr] at h ⊢
  exact h

/-- A dead PHY cannot hold characters for ever: from any state (timer anywhere below its reload value, at most `dtx`
    queued), after `T + 1 + (dtx + 1)·2^k` cycles without `source.ready` and without new writes the TX FIFO is empty. -/
theorem flush_drains (dtx drx : Nat) (rxWe : Bool) (T k : Nat) (s : UartFlushSt) (ins : List UartTopIn)
    (hq : ∀ i ∈ ins, Quiet i) (hc : s.cnt ≤ T) (hl : s.top.tx.q.length ≤ dtx)
    (hlen : T + 1 + (dtx + 1) * 2 ^ k ≤ ins.length) :
    let s' := (uartFlush dtx drx rxWe T k).runFrom s ins
    s'.top.tx.q = [] ∧ s'.top.tx.readable = false ∧ s'.cnt = 0 := by
  intro s'
  have hsplit : ins = ins.take (T + 1) ++ ins.drop (T + 1) := (List.take_append_drop _ _).symm
  have hq1 : ∀ i ∈ ins.take (T + 1), Quiet i := fun i hi => hq i (List.mem_of_mem_take hi)
  have hq2 : ∀ i ∈ ins.drop (T + 1), Quiet i := fun i hi => hq i (List.mem_of_mem_drop hi)
  have hl1 : (ins.take (T + 1)).length = T + 1 := by rw [List.length_take]; omega
  have hne : ins.take (T + 1) ≠ [] := by intro h; rw [h] at hl1; simp at hl1
  obtain ⟨a1, a2, a3⟩ := flush_quiet_any dtx drx rxWe T k (ins.take (T + 1)) s hq1
  obtain ⟨a4, a5⟩ := a3 hne
  have hc1 : ((uartFlush dtx drx rxWe T k).runFrom s (ins.take (T + 1))).cnt = 0 := by rw [a1, hl1]; omega
  obtain ⟨b1, b2, b3⟩ := flush_quiet_run dtx drx rxWe T k (ins.drop (T + 1)) _ hq2 hc1 a4
  have hs' : s' = (uartFlush dtx drx rxWe T k).runFrom ((uartFlush dtx drx rxWe T k).runFrom s (ins.take (T + 1)))
      (ins.drop (T + 1)) := by
    show (uartFlush dtx drx rxWe T k).runFrom s ins = _
    rw [← Machine.runFrom_append, ← hsplit]
  have hm : (ins.drop (T + 1)).length = (dtx + 1) * 2 ^ k + (ins.length - (T + 1 + (dtx + 1) * 2 ^ k)) := by
    rw [List.length_drop]; omega
  have hpc := popCount_mono (2 ^ k) _ ((dtx + 1) * 2 ^ k) (ins.length - (T + 1 + (dtx + 1) * 2 ^ k)) a5
  rw [popCount_mul _ _ _ a5, ← hm] at hpc
  have hlen1 := fbInflight_length_le ((uartFlush dtx drx rxWe T k).runFrom s (ins.take (T + 1))).top.tx
  have hnil : fbInflight s'.top.tx = [] := by
    rw [hs', b3]
    exact List.drop_eq_nil_of_le (by omega)
  obtain ⟨c1, c2⟩ := fbInflight_nil _ hnil
  exact ⟨c1, c2, by rw [hs']; exact b1⟩

/-! ### BitSlip -/

theorem bitSlip_r_lt (dw : Nat) (ins : List (Nat × Nat)) : ((bitSlip dw).run ins).r < 2 ^ dw * 2 ^ dw := by
  refine Machine.invariant_runFrom (bitSlip dw) (fun s => s.r < 2 ^ dw * 2 ^ dw) ?_ ins _ ?_
  · intro s i h
    show s.r / 2 ^ dw + 2 ^ dw * trunc dw i.1 < 2 ^ dw * 2 ^ dw
    have hX : 0 < 2 ^ dw := Nat.two_pow_pos dw
    have h1 : s.r / 2 ^ dw < 2 ^ dw := Nat.div_lt_of_lt_mul h
    have h2 : trunc dw i.1 < 2 ^ dw := trunc_lt dw i.1
    have h3 : 2 ^ dw * (trunc dw i.1 + 1) ≤ 2 ^ dw * 2 ^ dw := Nat.mul_le_mul_left _ h2
    rw [Nat.mul_succ] at h3
    omega
  · show 0 < 2 ^ dw * 2 ^ dw
    exact Nat.mul_pos (Nat.two_pow_pos dw) (Nat.two_pow_pos dw)

/-- The window register after two more words `a`, `b`: `a` in the low half, `b` in the high half. -/
theorem bitSlip_r_two (dw : Nat) (pre : List (Nat × Nat)) (a b : Nat × Nat) :
    ((bitSlip dw).run (pre ++ [a, b])).r = trunc dw a.1 + 2 ^ dw * trunc dw b.1 := by
  have h := bitSlip_r_lt dw pre
  unfold Machine.run at *
  rw [Machine.runFrom_append]
  generalize (bitSlip dw).runFrom (bitSlip dw).init pre = s0 at *
  show (s0.r / 2 ^ dw + 2 ^ dw * trunc dw a.1) / 2 ^ dw + 2 ^ dw * trunc dw b.1 = _
  have hX : 0 < 2 ^ dw := Nat.two_pow_pos dw
  rw [Nat.add_mul_div_left _ _ hX, Nat.div_div_eq_div_mul, Nat.div_eq_of_lt h, Nat.zero_add]

theorem slice_two_words (dw v a b : Nat) (hv : v ≤ dw) :
    slice v dw (a + 2 ^ dw * b) = (a / 2 ^ v + b * 2 ^ (dw - v)) % 2 ^ dw := by
  unfold slice
  have e : 2 ^ dw = 2 ^ v * 2 ^ (dw - v) := by rw [← Nat.pow_add]; congr 1; omega
  conv => lhs; rw [e, Nat.mul_assoc, Nat.add_mul_div_left _ _ (Nat.two_pow_pos v)]
  rw [← e, Nat.mul_comm (2 ^ (dw - v)) b]

/-! ### displacer / chooser / split -/

theorem cat_single_field (w x p : Nat) (a n : Nat) :
    cat ((List.range' a n).map fun j => (w, if j = p then x else 0)) =
      if a ≤ p ∧ p < a + n then x % 2 ^ w * 2 ^ (w * (p - a)) else 0 := by
  induction n generalizing a with
  | zero => simp [cat]; intro h1 h2; omega
  | succ n ih =>
    rw [List.range'_succ, List.map_cons, cat, ih (a + 1)]
    by_cases hap : a = p
    · subst hap
      have : ¬ (a + 1 ≤ a ∧ a < a + 1 + n) := by omega
      simp [this]
    · simp only [hap, if_false, Nat.zero_mod, Nat.zero_add]
      by_cases h1 : a + 1 ≤ p ∧ p < a + 1 + n
      · have h2 : a ≤ p ∧ p < a + (n + 1) := by omega
        rw [if_pos h1, if_pos h2, show p - a = (p - (a + 1)) + 1 by omega, Nat.mul_succ, Nat.pow_add]
        rw [Nat.mul_comm (2 ^ w), Nat.mul_assoc]
      · have h2 : ¬ (a ≤ p ∧ p < a + (n + 1)) := by omega
        rw [if_neg h1, if_neg h2]; simp

theorem displacer_closed (w n : Nat) (rev : Bool) (wo signal shift : Nat) :
    displacer w n rev wo signal shift =
      if shift < n then trunc wo (trunc w signal * 2 ^ (w * (if rev then n - 1 - shift else shift))) else 0 := by
  unfold displacer
  have hmap : ((List.range n).map fun j => (w, if shift = (if rev then n - 1 - j else j) then trunc w signal else 0)) =
      (List.range' 0 n).map fun j =>
        (w, if j = (if shift < n then (if rev then n - 1 - shift else shift) else n) then trunc w signal else 0) := by
    rw [List.range_eq_range']
    apply List.map_congr_left
    intro j hj
    have hjn : j < n := by simpa using hj
    congr 1
    refine ite_congr (propext ?_) (fun _ => rfl) (fun _ => rfl)
    cases rev <;> simp <;> split <;> omega
  rw [hmap, cat_single_field]
  by_cases hs : shift < n
  · have hp : (if rev then n - 1 - shift else shift) < n := by cases rev <;> simp <;> omega
    simp only [hs, if_true, Nat.zero_le, true_and, Nat.zero_add, hp, Nat.sub_zero]
    rw [show trunc w signal % 2 ^ w = trunc w signal from trunc_trunc w signal]
  · simp [hs, trunc]

/-! ### split: the parts partition the bits -/

theorem slice_add (off n m v : Nat) : slice off (n + m) v = slice off n v + 2 ^ n * slice (off + n) m v := by
  unfold slice
  rw [Nat.pow_add 2 n m, Nat.mod_mul, Nat.pow_add 2 off n, Nat.div_div_eq_div_mul]

theorem splitFrom_cat (w v off : Nat) (counts : List Nat) (h : off + counts.sum ≤ w) :
    cat (counts.zip (splitFrom w v off counts)) = slice off counts.sum v := by
  induction counts generalizing off with
  | nil => simp [splitFrom, cat, slice, Nat.mod_one]
  | cons n rest ih =>
    simp only [List.sum_cons] at h
    simp only [splitFrom, List.zip_cons_cons, cat, List.sum_cons]
    rw [Nat.min_eq_left (by omega : off ≤ w), Nat.min_eq_left (by omega : off + n ≤ w),
      show off + n - off = n by omega, ih (off + n) (by omega), Nat.mod_eq_of_lt (slice_lt off n v), slice_add]

theorem splitFrom_part_lt (w v off : Nat) (counts : List Nat) (j p c : Nat)
    (hp : (splitFrom w v off counts)[j]? = some p) (hc : counts[j]? = some c) : p < 2 ^ c := by
  induction counts generalizing off j with
  | nil => simp at hc
  | cons n rest ih =>
    cases j with
    | zero =>
      simp [splitFrom] at hp hc
      subst hp; subst hc
      exact Nat.lt_of_lt_of_le (slice_lt _ _ _) (Nat.pow_le_pow_right (by omega) (by omega))
    | succ j =>
      simp [splitFrom] at hp hc
      exact ih _ _ hp hc

theorem splitFrom_length (w v off : Nat) (counts : List Nat) : (splitFrom w v off counts).length = counts.length := by
  induction counts generalizing off with
  | nil => rfl
  | cons n rest ih => simp [splitFrom, ih]

/-! ### add_auto_tx_flush: a dead PHY never blocks a polling writer -/

/-- Timer and flush counter while `source.ready` stays low (any software activity). -/
theorem flush_dead_run (dtx drx : Nat) (rxWe : Bool) (T k : Nat) (s : UartFlushSt) (f : Nat → UartTopIn)
    (hf : ∀ t, (f t).srcRdy = false) (hfc : s.fc < 2 ^ k) (n : Nat) :
    (runFn (uartFlush dtx drx rxWe T k) s f n).cnt = s.cnt - n ∧
    (runFn (uartFlush dtx drx rxWe T k) s f n).fc = (s.fc + n) % 2 ^ k := by
  induction n with
  | zero => exact ⟨rfl, (Nat.mod_eq_of_lt hfc).symm⟩
  | succ n ih =>
    constructor
    · show WaitTimer.next T (runFn (uartFlush dtx drx rxWe T k) s f n).cnt (!(f n).srcRdy) = _
      rw [ih.1, hf n]
      simp [WaitTimer.next, WaitTimer.done]; split <;> omega
    · show ((runFn (uartFlush dtx drx rxWe T k) s f n).fc + 1) % 2 ^ k = _
      rw [ih.2, Nat.mod_add_mod, Nat.add_assoc]

/-- A pop of a full queue makes room: the write of that cycle is refused (the queue is full), the pop is not. -/
theorem flush_pop_unfull (dtx drx : Nat) (rxWe : Bool) (T k : Nat) (hd : 0 < dtx) (s : UartFlushSt) (i : UartTopIn)
    (hc : s.cnt = 0) (h0 : s.fc = 0) (hfull : s.top.tx.q.length = dtx) :
    ((uartFlush dtx drx rxWe T k).next s i).top.tx.q.length = dtx - 1 := by
  show ((syncFifoBuffered dtx zTokN).next s.top.tx i.re (tokN i.r) (flushPop s i.srcRdy)).q.length = _
  have hp : flushPop s i.srcRdy = true := by simp [flushPop, WaitTimer.done, hc, h0]
  rw [hp]
  revert hfull
  generalize s.top.tx = t
  intro hfull
  obtain ⟨q, rd, dout⟩ := t
  cases q with
  | nil => simp at hfull; omega
  | cons x xs =>
    simp at hfull
    simp [syncFifoBuffered, hfull]; omega

theorem flush_unblocks (dtx drx : Nat) (rxWe : Bool) (T k : Nat) (hd : 0 < dtx) (s : UartFlushSt) (f : Nat → UartTopIn)
    (hf : ∀ t, (f t).srcRdy = false) (hfc : s.fc < 2 ^ k) (n : Nat) (hn : s.cnt ≤ n) :
    ∃ j, j ≤ 2 ^ k ∧
      ((uartFlush dtx drx rxWe T k).out (runFn (uartFlush dtx drx rxWe T k) s f (n + j)) (f (n + j))).txfull = false := by
  have hP : 0 < 2 ^ k := Nat.two_pow_pos k
  -- the next cycle with flush_count = 0
  let j0 := (2 ^ k - (s.fc + n) % 2 ^ k) % 2 ^ k
  have hj0 : j0 < 2 ^ k := Nat.mod_lt _ hP
  obtain ⟨c1, f1⟩ := flush_dead_run dtx drx rxWe T k s f hf hfc (n + j0)
  have hc1 : (runFn (uartFlush dtx drx rxWe T k) s f (n + j0)).cnt = 0 := by rw [c1]; omega
  have hf1 : (runFn (uartFlush dtx drx rxWe T k) s f (n + j0)).fc = 0 := by
    rw [f1, ← Nat.add_assoc, ← Nat.mod_add_mod, Nat.add_mod_mod]
    have hr : (s.fc + n) % 2 ^ k < 2 ^ k := Nat.mod_lt _ hP
    generalize (s.fc + n) % 2 ^ k = r at hr
    by_cases hr0 : r = 0
    · subst hr0; simp
    · rw [show r + (2 ^ k - r) = 2 ^ k by omega]; exact Nat.mod_self _
  by_cases hfull : (runFn (uartFlush dtx drx rxWe T k) s f (n + j0)).top.tx.q.length = dtx
  · refine ⟨j0 + 1, by omega, ?_⟩
    have h := flush_pop_unfull dtx drx rxWe T k hd _ (f (n + j0)) hc1 hf1 hfull
    rw [show n + (j0 + 1) = (n + j0) + 1 by omega]
    show (uartTopOut dtx drx ((uartFlush dtx drx rxWe T k).next (runFn (uartFlush dtx drx rxWe T k) s f (n + j0))
      (f (n + j0))).top (f (n + j0 + 1))).txfull = false
    rw [(uartTop_flags dtx drx _ _).1, h]
    simp; omega
  · refine ⟨j0, by omega, ?_⟩
    show (uartTopOut dtx drx (runFn (uartFlush dtx drx rxWe T k) s f (n + j0)).top (f (n + j0))).txfull = false
    rw [(uartTop_flags dtx drx _ _).1]
    simp [hfull]

/-! ### UARTCrossover: main → xover direction -/

def dataOf (l : List (Tok Nat)) : List Nat := l.map (·.data)

/-- One step of a buffered FIFO: what waited, plus what was accepted = what was delivered, plus what waits now. -/
theorem fb_step_inflight (depth : Nat) (s : FBState Nat) (i : In Nat) (h : s.q.length ≤ depth) :
    fbInflight s ++ (syncFifoBuffered depth zTokN).accNow s i =
      (syncFifoBuffered depth zTokN).delNow s i ++ fbInflight ((syncFifoBuffered depth zTokN).step s i) ∧
    ((syncFifoBuffered depth zTokN).step s i).q.length ≤ depth := by
  have := fb_step depth zTokN s (fbInflight s) [] i ⟨h, by simp⟩
  obtain ⟨h1, h2⟩ := this
  exact ⟨by simpa using h2, h1⟩

/-- Characters written to the main UART's `rxtx` in cycles with `txfull = 0`. -/
def xoWritten (dtx drx : Nat) (rxWe : Bool) (s : XoverSt) : List (CsrIn × CsrIn) → List Nat
  | [] => []
  | i :: is => (if i.1.re && !(xoverOut dtx drx s i.1 i.2).1.txfull then [i.1.r % 256] else []) ++
               xoWritten dtx drx rxWe (xoverNext dtx drx rxWe s i.1 i.2) is

/-- Characters taken from the xover UART's `rxtx` (`rxempty = 0` and the event cleared or `rxtx` read). -/
def xoRead (dtx drx : Nat) (rxWe : Bool) (s : XoverSt) : List (CsrIn × CsrIn) → List Nat
  | [] => []
  | i :: is => (if !(xoverOut dtx drx s i.1 i.2).2.rxempty && (i.2.clr || i.2.we) then [(xoverOut dtx drx s i.1 i.2).2.w]
                else []) ++ xoRead dtx drx rxWe (xoverNext dtx drx rxWe s i.1 i.2) is

def xoTxIn (s : XoverSt) (m : CsrIn) : In Nat := { valid := m.re, tok := tokN m.r, ready := xoverSinkRdy s }
def xoRxIn (s : XoverSt) (x : CsrIn) : In Nat :=
  { valid := s.main.tx.readable, tok := { data := s.main.tx.dout.data, first := false, last := false },
    ready := x.clr || x.we }

theorem xover_step (dtx drx : Nat) (rxWe : Bool) (s : XoverSt) (m x : CsrIn)
    (h1 : s.main.tx.q.length ≤ dtx) (h2 : s.xrx.q.length ≤ xoverRxDepth) :
    let s' := xoverNext dtx drx rxWe s m x
    dataOf (fbInflight s.xrx) ++ dataOf (fbInflight s.main.tx) ++
        (if m.re && !(xoverOut dtx drx s m x).1.txfull then [m.r % 256] else []) =
      (if !(xoverOut dtx drx s m x).2.rxempty && (x.clr || x.we) then [(xoverOut dtx drx s m x).2.w] else []) ++
        dataOf (fbInflight s'.xrx) ++ dataOf (fbInflight s'.main.tx) ∧
    s'.main.tx.q.length ≤ dtx ∧ s'.xrx.q.length ≤ xoverRxDepth := by
  intro s'
  have etx : s'.main.tx = (syncFifoBuffered dtx zTokN).step s.main.tx (xoTxIn s m) := rfl
  have erx : s'.xrx = (syncFifoBuffered xoverRxDepth zTokN).step s.xrx (xoRxIn s x) := rfl
  obtain ⟨a1, a2⟩ := fb_step_inflight dtx s.main.tx (xoTxIn s m) h1
  obtain ⟨b1, b2⟩ := fb_step_inflight xoverRxDepth s.xrx (xoRxIn s x) h2
  have hw : (if m.re && !(xoverOut dtx drx s m x).1.txfull then [m.r % 256] else []) =
      dataOf ((syncFifoBuffered dtx zTokN).accNow s.main.tx (xoTxIn s m)) := by
    simp only [Elem.accNow, Elem.out, xoTxIn, xoverOut, uartTopOut, syncFifoBuffered, tokN, dataOf, Bool.not_not]
    exact ite_map_singleton _ (fun t : Tok Nat => t.data) (⟨m.r % 256, false, false⟩ : Tok Nat)
  have hr : (if !(xoverOut dtx drx s m x).2.rxempty && (x.clr || x.we) then [(xoverOut dtx drx s m x).2.w] else []) =
      dataOf ((syncFifoBuffered xoverRxDepth zTokN).delNow s.xrx (xoRxIn s x)) := by
    simp only [Elem.delNow, Elem.out, xoRxIn, xoverOut, syncFifoBuffered, dataOf, Bool.not_not]
    exact ite_map_singleton _ (fun t : Tok Nat => t.data) s.xrx.dout
  have hmid : dataOf ((syncFifoBuffered dtx zTokN).delNow s.main.tx (xoTxIn s m)) =
      dataOf ((syncFifoBuffered xoverRxDepth zTokN).accNow s.xrx (xoRxIn s x)) := by
    simp only [Elem.delNow, Elem.accNow, Elem.out, xoTxIn, xoRxIn, xoverSinkRdy, syncFifoBuffered, dataOf]
    by_cases hc : (s.main.tx.readable && s.xrx.q.length != xoverRxDepth) = true <;> simp [hc]
  have a1' := congrArg dataOf a1
  have b1' := congrArg dataOf b1
  simp only [dataOf, List.map_append] at a1' b1' hmid ⊢
  simp only [dataOf] at hw hr
  refine ⟨?_, by rw [etx]; exact a2, by rw [erx]; exact b2⟩
  rw [hw, hr, etx, erx, List.append_assoc, a1', hmid, ← List.append_assoc, b1']

theorem xover_run (dtx drx : Nat) (rxWe : Bool) (ins : List (CsrIn × CsrIn)) (s : XoverSt)
    (h1 : s.main.tx.q.length ≤ dtx) (h2 : s.xrx.q.length ≤ xoverRxDepth) :
    let s' := (uartCrossover dtx drx rxWe).runFrom s ins
    dataOf (fbInflight s.xrx) ++ dataOf (fbInflight s.main.tx) ++ xoWritten dtx drx rxWe s ins =
      xoRead dtx drx rxWe s ins ++ dataOf (fbInflight s'.xrx) ++ dataOf (fbInflight s'.main.tx) ∧
    s'.main.tx.q.length ≤ dtx ∧ s'.xrx.q.length ≤ xoverRxDepth := by
  induction ins generalizing s with
  | nil => simp [xoWritten, xoRead, Machine.runFrom, h1, h2]
  | cons i is ih =>
    obtain ⟨e, g1, g2⟩ := xover_step dtx drx rxWe s i.1 i.2 h1 h2
    obtain ⟨e', g1', g2'⟩ := ih (xoverNext dtx drx rxWe s i.1 i.2) g1 g2
    refine ⟨?_, g1', g2'⟩
    simp only [xoWritten, xoRead]
    show _ = _ ++ dataOf (fbInflight ((uartCrossover dtx drx rxWe).runFrom (xoverNext dtx drx rxWe s i.1 i.2) is).xrx) ++
      dataOf (fbInflight ((uartCrossover dtx drx rxWe).runFrom (xoverNext dtx drx rxWe s i.1 i.2) is).main.tx)
    rw [← List.append_assoc, e, List.append_assoc, List.append_assoc, List.append_assoc, List.append_assoc,
      ← List.append_assoc (dataOf _) (dataOf _) (xoWritten _ _ _ _ _), e']
    simp only [List.append_assoc]

/-! ### UARTCrossover: xover → main direction (the xover TX "FIFO" of depth 1 is a `PipeValid`) -/

def pvInflight (s : PVState Nat) : List (Tok Nat) := if s.valid then [s.tok] else []

theorem pv_step_inflight (s : PVState Nat) (i : In Nat) :
    pvInflight s ++ (pipeValid zTokN).accNow s i =
      (pipeValid zTokN).delNow s i ++ pvInflight ((pipeValid zTokN).step s i) := by
  obtain ⟨v, t⟩ := s
  obtain ⟨iv, it, ir⟩ := i
  cases v <;> cases iv <;> cases ir <;> simp [pipeValid, Elem.accNow, Elem.delNow, Elem.out, Elem.step, pvInflight]

/-- Characters written to the xover UART's `rxtx` in cycles with its `txfull = 0`. -/
def xoWrittenX (dtx drx : Nat) (rxWe : Bool) (s : XoverSt) : List (CsrIn × CsrIn) → List Nat
  | [] => []
  | i :: is => (if i.2.re && !(xoverOut dtx drx s i.1 i.2).2.txfull then [i.2.r % 256] else []) ++
               xoWrittenX dtx drx rxWe (xoverNext dtx drx rxWe s i.1 i.2) is

/-- Characters software took from the main UART's `rxtx`. -/
def xoReadM (dtx drx : Nat) (rxWe : Bool) (s : XoverSt) : List (CsrIn × CsrIn) → List Nat
  | [] => []
  | i :: is => (if !(xoverOut dtx drx s i.1 i.2).1.rxempty && (i.1.clr || (rxWe && i.1.we)) then
                  [(xoverOut dtx drx s i.1 i.2).1.w] else []) ++
               xoReadM dtx drx rxWe (xoverNext dtx drx rxWe s i.1 i.2) is

def xoPvIn (drx : Nat) (s : XoverSt) (x : CsrIn) : In Nat :=
  { valid := x.re, tok := tokN x.r, ready := s.main.rx.q.length != drx }
def xoMrxIn (rxWe : Bool) (s : XoverSt) (m : CsrIn) : In Nat :=
  { valid := s.xtx.valid, tok := tokN s.xtx.tok.data, ready := m.clr || (rxWe && m.we) }

theorem xover_step_back (dtx drx : Nat) (rxWe : Bool) (s : XoverSt) (m x : CsrIn)
    (h1 : s.main.rx.q.length ≤ drx) (h3 : s.xtx.tok.data < 256) :
    let s' := xoverNext dtx drx rxWe s m x
    dataOf (fbInflight s.main.rx) ++ dataOf (pvInflight s.xtx) ++
        (if x.re && !(xoverOut dtx drx s m x).2.txfull then [x.r % 256] else []) =
      (if !(xoverOut dtx drx s m x).1.rxempty && (m.clr || (rxWe && m.we)) then [(xoverOut dtx drx s m x).1.w] else []) ++
        dataOf (fbInflight s'.main.rx) ++ dataOf (pvInflight s'.xtx) ∧
    s'.main.rx.q.length ≤ drx ∧ s'.xtx.tok.data < 256 := by
  intro s'
  have etx : s'.xtx = (pipeValid zTokN).step s.xtx (xoPvIn drx s x) := rfl
  have erx : s'.main.rx = (syncFifoBuffered drx zTokN).step s.main.rx (xoMrxIn rxWe s m) := rfl
  have a1 := pv_step_inflight s.xtx (xoPvIn drx s x)
  obtain ⟨b1, b2⟩ := fb_step_inflight drx s.main.rx (xoMrxIn rxWe s m) h1
  have hw : (if x.re && !(xoverOut dtx drx s m x).2.txfull then [x.r % 256] else []) =
      dataOf ((pipeValid zTokN).accNow s.xtx (xoPvIn drx s x)) := by
    simp only [Elem.accNow, Elem.out, xoPvIn, xoverOut, uartTopOut, pipeValid, syncFifoBuffered, tokN, dataOf, Bool.not_not]
    exact ite_map_singleton _ (fun t : Tok Nat => t.data) (⟨x.r % 256, false, false⟩ : Tok Nat)
  have hr : (if !(xoverOut dtx drx s m x).1.rxempty && (m.clr || (rxWe && m.we)) then [(xoverOut dtx drx s m x).1.w] else []) =
      dataOf ((syncFifoBuffered drx zTokN).delNow s.main.rx (xoMrxIn rxWe s m)) := by
    simp only [Elem.delNow, Elem.out, xoMrxIn, xoverOut, uartTopOut, syncFifoBuffered, dataOf, Bool.not_not]
    exact ite_map_singleton _ (fun t : Tok Nat => t.data) s.main.rx.dout
  have hmid : dataOf ((pipeValid zTokN).delNow s.xtx (xoPvIn drx s x)) =
      dataOf ((syncFifoBuffered drx zTokN).accNow s.main.rx (xoMrxIn rxWe s m)) := by
    simp only [Elem.delNow, Elem.accNow, Elem.out, xoPvIn, xoMrxIn, pipeValid, syncFifoBuffered, dataOf, tokN]
    by_cases hc : (s.xtx.valid && s.main.rx.q.length != drx) = true <;> simp [hc]
    omega
  have a1' := congrArg dataOf a1
  have b1' := congrArg dataOf b1
  simp only [dataOf, List.map_append] at a1' b1' hmid ⊢
  simp only [dataOf] at hw hr
  refine ⟨?_, by rw [erx]; exact b2, ?_⟩
  · rw [hw, hr, etx, erx, List.append_assoc, a1', hmid, ← List.append_assoc, b1']
  · rw [etx]
    simp only [Elem.step, pipeValid, xoPvIn, tokN]
    split
    · exact Nat.mod_lt _ (by omega)
    · exact h3

theorem xover_run_back (dtx drx : Nat) (rxWe : Bool) (ins : List (CsrIn × CsrIn)) (s : XoverSt)
    (h1 : s.main.rx.q.length ≤ drx) (h3 : s.xtx.tok.data < 256) :
    let s' := (uartCrossover dtx drx rxWe).runFrom s ins
    dataOf (fbInflight s.main.rx) ++ dataOf (pvInflight s.xtx) ++ xoWrittenX dtx drx rxWe s ins =
      xoReadM dtx drx rxWe s ins ++ dataOf (fbInflight s'.main.rx) ++ dataOf (pvInflight s'.xtx) ∧
    s'.main.rx.q.length ≤ drx ∧ s'.xtx.tok.data < 256 := by
  induction ins generalizing s with
  | nil => simp [xoWrittenX, xoReadM, Machine.runFrom, h1, h3]
  | cons i is ih =>
    obtain ⟨e, g1, g2⟩ := xover_step_back dtx drx rxWe s i.1 i.2 h1 h3
    obtain ⟨e', g1', g2'⟩ := ih (xoverNext dtx drx rxWe s i.1 i.2) g1 g2
    refine ⟨?_, g1', g2'⟩
    simp only [xoWrittenX, xoReadM]
    show _ = _ ++ dataOf (fbInflight ((uartCrossover dtx drx rxWe).runFrom (xoverNext dtx drx rxWe s i.1 i.2) is).main.rx) ++
      dataOf (pvInflight ((uartCrossover dtx drx rxWe).runFrom (xoverNext dtx drx rxWe s i.1 i.2) is).xtx)
    rw [← List.append_assoc, e, List.append_assoc, List.append_assoc, List.append_assoc, List.append_assoc,
      ← List.append_assoc (dataOf _) (dataOf _) (xoWrittenX _ _ _ _ _), e']
    simp only [List.append_assoc]

/-! ### add_auto_tx_flush (fixed strobe): every character is delivered exactly once or flushed -/

/-- Characters accepted from `rxtx` (`re ∧ ¬txfull`). -/
def flWritten (dtx drx : Nat) (rxWe : Bool) (T k : Nat) (s : UartFlushSt) : List UartTopIn → List Nat
  | [] => []
  | i :: is => (if i.re && !(uartTopOut dtx drx s.top i).txfull then [i.r % 256] else []) ++
               flWritten dtx drx rxWe T k (uartFlushNext dtx drx rxWe T k s i) is

/-- Characters handed to the PHY (`source.valid ∧ source.ready`). -/
def flPhy (dtx drx : Nat) (rxWe : Bool) (T k : Nat) (s : UartFlushSt) : List UartTopIn → List Nat
  | [] => []
  | i :: is => (if (uartTopOut dtx drx s.top i).srcV && i.srcRdy then [(uartTopOut dtx drx s.top i).srcD] else []) ++
               flPhy dtx drx rxWe T k (uartFlushNext dtx drx rxWe T k s i) is

/-- Characters popped from the TX FIFO while `source.ready = 0` (flushed). -/
def flFlushed (dtx drx : Nat) (rxWe : Bool) (T k : Nat) (s : UartFlushSt) : List UartTopIn → List Nat
  | [] => []
  | i :: is => (if (uartTopOut dtx drx s.top i).srcV && flushPop s i.srcRdy && !i.srcRdy then
                  [(uartTopOut dtx drx s.top i).srcD] else []) ++
               flFlushed dtx drx rxWe T k (uartFlushNext dtx drx rxWe T k s i) is

/-- The pop log of the TX FIFO: (character, taken by the PHY?) for every cycle with `source.valid ∧ tx_fifo.source.ready`. -/
def flPops (dtx drx : Nat) (rxWe : Bool) (T k : Nat) (s : UartFlushSt) : List UartTopIn → List (Nat × Bool)
  | [] => []
  | i :: is => (if (uartTopOut dtx drx s.top i).srcV && flushPop s i.srcRdy then
                  [((uartTopOut dtx drx s.top i).srcD, i.srcRdy)] else []) ++
               flPops dtx drx rxWe T k (uartFlushNext dtx drx rxWe T k s i) is

/-- Per-cycle facts about the (fixed) pop strobe: a PHY handshake always pops; a pop without `source.ready` needs the
    expired timer and `flush_count = 0`. -/
theorem flushPop_of_ready (s : UartFlushSt) : flushPop s true = true := by
  unfold flushPop; split <;> simp

theorem flushPop_flush (s : UartFlushSt) (h : flushPop s false = true) : s.cnt = 0 ∧ s.fc = 0 := by
  unfold flushPop WaitTimer.done at h
  by_cases hc : s.cnt = 0 <;> simp [hc] at h
  exact ⟨hc, h⟩

def flTxIn (s : UartFlushSt) (i : UartTopIn) : In Nat := { valid := i.re, tok := tokN i.r, ready := flushPop s i.srcRdy }

theorem flush_pops_step (dtx drx : Nat) (rxWe : Bool) (T k : Nat) (s : UartFlushSt) (i : UartTopIn)
    (h : s.top.tx.q.length ≤ dtx) :
    let s' := uartFlushNext dtx drx rxWe T k s i
    dataOf (fbInflight s.top.tx) ++ (if i.re && !(uartTopOut dtx drx s.top i).txfull then [i.r % 256] else []) =
      (if (uartTopOut dtx drx s.top i).srcV && flushPop s i.srcRdy then
        [((uartTopOut dtx drx s.top i).srcD, i.srcRdy)] else []).map (·.1) ++ dataOf (fbInflight s'.top.tx) ∧
    s'.top.tx.q.length ≤ dtx := by
  intro s'
  have etx : s'.top.tx = (syncFifoBuffered dtx zTokN).step s.top.tx (flTxIn s i) := rfl
  obtain ⟨a1, a2⟩ := fb_step_inflight dtx s.top.tx (flTxIn s i) h
  have hw : (if i.re && !(uartTopOut dtx drx s.top i).txfull then [i.r % 256] else []) =
      dataOf ((syncFifoBuffered dtx zTokN).accNow s.top.tx (flTxIn s i)) := by
    simp only [Elem.accNow, Elem.out, flTxIn, uartTopOut, syncFifoBuffered, tokN, dataOf, Bool.not_not]
    exact ite_map_singleton _ (fun t : Tok Nat => t.data) (⟨i.r % 256, false, false⟩ : Tok Nat)
  have hp : (if (uartTopOut dtx drx s.top i).srcV && flushPop s i.srcRdy then
        [((uartTopOut dtx drx s.top i).srcD, i.srcRdy)] else []).map (·.1) =
      dataOf ((syncFifoBuffered dtx zTokN).delNow s.top.tx (flTxIn s i)) := by
    simp only [Elem.delNow, Elem.out, flTxIn, uartTopOut, syncFifoBuffered, dataOf]
    by_cases hc : (s.top.tx.readable && flushPop s i.srcRdy) = true <;> simp [hc]
  have a1' := congrArg dataOf a1
  simp only [dataOf, List.map_append] at a1'
  simp only [dataOf] at hw hp ⊢
  refine ⟨?_, by rw [etx]; exact a2⟩
  rw [hw, hp, etx, a1']

theorem flush_pops_run (dtx drx : Nat) (rxWe : Bool) (T k : Nat) (ins : List UartTopIn) (s : UartFlushSt)
    (h : s.top.tx.q.length ≤ dtx) :
    let s' := (uartFlush dtx drx rxWe T k).runFrom s ins
    dataOf (fbInflight s.top.tx) ++ flWritten dtx drx rxWe T k s ins =
      (flPops dtx drx rxWe T k s ins).map (·.1) ++ dataOf (fbInflight s'.top.tx) ∧
    s'.top.tx.q.length ≤ dtx := by
  induction ins generalizing s with
  | nil => simp [flWritten, flPops, Machine.runFrom, h]
  | cons i is ih =>
    obtain ⟨e, g⟩ := flush_pops_step dtx drx rxWe T k s i h
    obtain ⟨e', g'⟩ := ih (uartFlushNext dtx drx rxWe T k s i) g
    refine ⟨?_, g'⟩
    simp only [flWritten, flPops, List.map_append]
    show _ = _ ++ dataOf (fbInflight ((uartFlush dtx drx rxWe T k).runFrom (uartFlushNext dtx drx rxWe T k s i) is).top.tx)
    rw [← List.append_assoc, e, List.append_assoc, e', List.append_assoc]

/-- The PHY handshakes are exactly the pops with `source.ready`, the flushed characters exactly the pops without. -/
theorem flush_pops_split (dtx drx : Nat) (rxWe : Bool) (T k : Nat) (ins : List UartTopIn) (s : UartFlushSt) :
    flPhy dtx drx rxWe T k s ins = ((flPops dtx drx rxWe T k s ins).filter (·.2)).map (·.1) ∧
    flFlushed dtx drx rxWe T k s ins = ((flPops dtx drx rxWe T k s ins).filter (!·.2)).map (·.1) := by
  induction ins generalizing s with
  | nil => simp [flPhy, flFlushed, flPops]
  | cons i is ih =>
    obtain ⟨e1, e2⟩ := ih (uartFlushNext dtx drx rxWe T k s i)
    simp only [flPhy, flFlushed, flPops, List.filter_append, List.map_append, e1, e2]
    constructor
    · congr 1
      cases hr : i.srcRdy
      · by_cases hc : ((uartTopOut dtx drx s.top i).srcV && flushPop s false) = true <;> simp [hc]
      · simp [flushPop_of_ready]
        try (by_cases hv : (uartTopOut dtx drx s.top i).srcV = true <;> simp [hv])
    · congr 1
      cases hr : i.srcRdy
      · by_cases hc : ((uartTopOut dtx drx s.top i).srcV && flushPop s false) = true <;> simp [hc]
      · simp [flushPop_of_ready]
        try (by_cases hv : (uartTopOut dtx drx s.top i).srcV = true <;> simp [hv])

end Litex.Periph
