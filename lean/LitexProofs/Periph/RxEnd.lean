import LitexProofs.Periph.Tolerance2
/-
  Start-edge detection of `RS232PHYRX` for a start edge at an arbitrary pad cycle `t0`, and the alignment of the pad
  with the line seen by the RUN phase.  Core Lean only.
-/
namespace Litex.Periph
open Litex

/-- An idle receiver that has seen the line high stays idle as long as the pad is high. -/
theorem rx_idle_hold (tw : Nat) (sR : RxSt) (p : Nat → Bool) (hrun : sR.run = false) (hr0 : sR.r0 = true)
    (hrx : sR.rx = true) (hrxd : sR.rxD = true) (n : Nat) (hp : ∀ t, t < n → p t = true) :
    (runFn (uartRx tw) sR p n).run = false ∧ (runFn (uartRx tw) sR p n).r0 = true ∧
    (runFn (uartRx tw) sR p n).rx = true ∧ (runFn (uartRx tw) sR p n).rxD = true ∧
    (runFn (uartRx tw) sR p n).data = sR.data := by
  induction n with
  | zero => exact ⟨hrun, hr0, hrx, hrxd, rfl⟩
  | succ n ih =>
    obtain ⟨i1, i2, i3, i4, i5⟩ := ih (fun t ht => hp t (by omega))
    have hpn := hp n (by omega)
    have e : runFn (uartRx tw) sR p (n + 1) = rxNext tw (runFn (uartRx tw) sR p n) (p n) := rfl
    rw [e]
    generalize runFn (uartRx tw) sR p n = s at *
    simp [rxNext, i1, i2, i3, i4, i5, hpn]

/-- Start-edge detection with the first low pad sample in cycle 0: the receiver is idle in cycles 0 … 2 and in its
    first RUN cycle in cycle 3, seeing the pad of cycle 1 on `rx` and the pad of cycle 2 in the first synchroniser
    register. -/
theorem rx_detect0 (tw : Nat) (sR : RxSt) (p : Nat → Bool) (hrun : sR.run = false) (hr0 : sR.r0 = true)
    (hrx : sR.rx = true) (hrxd : sR.rxD = true) (hp0 : p 0 = false) :
    (∀ t, t ≤ 2 → (runFn (uartRx tw) sR p t).run = false) ∧
    (runFn (uartRx tw) sR p 3).run = true ∧ (runFn (uartRx tw) sR p 3).count = 0 ∧
    (runFn (uartRx tw) sR p 3).acc = ⟨HALF32, false⟩ ∧ (runFn (uartRx tw) sR p 3).rx = p 1 ∧
    (runFn (uartRx tw) sR p 3).r0 = p 2 ∧ (runFn (uartRx tw) sR p 3).data = sR.data := by
  have e1 : runFn (uartRx tw) sR p 1 =
      { sR with r0 := false, rx := true, rxD := true, run := false, count := 0, acc := Acc.ofNat HALF32 } := by
    show rxNext tw sR (p 0) = _
    simp [rxNext, hrun, hrx, hrxd, hr0, hp0, accNext, accLoad]
  have e2 : runFn (uartRx tw) sR p 2 =
      { sR with r0 := p 1, rx := false, rxD := true, run := false, count := 0, acc := Acc.ofNat HALF32 } := by
    show rxNext tw (runFn (uartRx tw) sR p 1) (p 1) = _
    rw [e1]; simp [rxNext, accNext, accLoad]
  have e3 : runFn (uartRx tw) sR p 3 =
      { sR with r0 := p 2, rx := p 1, rxD := false, run := true, count := 0, acc := Acc.ofNat HALF32 } := by
    show rxNext tw (runFn (uartRx tw) sR p 2) (p 2) = _
    rw [e2]; simp [rxNext, accNext, accLoad]
  have hacc : Acc.ofNat HALF32 = ⟨HALF32, false⟩ := by simp [Acc.ofNat, HALF32, M32]
  refine ⟨?_, by rw [e3], by rw [e3], by rw [e3]; exact hacc, by rw [e3], by rw [e3], by rw [e3]⟩
  intro t ht
  match t, ht with
  | 0, _ => exact hrun
  | 1, _ => rw [e1]
  | 2, _ => rw [e2]

/-- Start-edge detection at an arbitrary pad cycle `t0 ≥ 0`: pad high before `t0`, low in `t0`.  The receiver is idle
    up to cycle `t0 + 2` and in its first RUN cycle in cycle `t0 + 3` (two synchroniser registers plus the edge
    detector), with the accumulator at 2^31, seeing `pad (t0 + 1)` on `rx` and `pad (t0 + 2)` in the first
    synchroniser register. -/
theorem rx_detect_at (tw : Nat) (sR : RxSt) (p : Nat → Bool) (t0 : Nat) (hrun : sR.run = false)
    (hr0 : sR.r0 = true) (hrx : sR.rx = true) (hrxd : sR.rxD = true) (hhigh : ∀ t, t < t0 → p t = true)
    (hlow : p t0 = false) :
    (∀ t, t ≤ t0 + 2 → (runFn (uartRx tw) sR p t).run = false) ∧
    (runFn (uartRx tw) sR p (t0 + 3)).run = true ∧ (runFn (uartRx tw) sR p (t0 + 3)).count = 0 ∧
    (runFn (uartRx tw) sR p (t0 + 3)).acc = ⟨HALF32, false⟩ ∧ (runFn (uartRx tw) sR p (t0 + 3)).rx = p (t0 + 1) ∧
    (runFn (uartRx tw) sR p (t0 + 3)).r0 = p (t0 + 2) ∧ (runFn (uartRx tw) sR p (t0 + 3)).data = sR.data := by
  obtain ⟨j1, j2, j3, j4, j5⟩ := rx_idle_hold tw sR p hrun hr0 hrx hrxd t0 hhigh
  have hd := rx_detect0 tw (runFn (uartRx tw) sR p t0) (fun j => p (t0 + j)) j1 j2 j3 j4 hlow
  simp only [← runFn_add] at hd
  obtain ⟨d1, d2, d3, d4, d5, d6, d7⟩ := hd
  refine ⟨?_, d2, d3, d4, d5, d6, by rw [d7, j5]⟩
  intro t ht
  by_cases hlt : t ≤ t0
  · exact (rx_idle_hold tw sR p hrun hr0 hrx hrxd t (fun u hu => hhigh u (by omega))).1
  · obtain ⟨k, rfl⟩ : ∃ k, t = t0 + k := ⟨t - t0, by omega⟩
    exact d1 k (by omega)

/-- The RUN phase entered in cycle `T` (`rx_detect_at`: `T = t0 + 3`) sees the line `ln k = pad (T − 2 + k)`;
    receiver state and output in cycle `T + k` in terms of a run from the entry state over `ln`. -/
theorem rx_run_shift (tw : Nat) (sR : RxSt) (p : Nat → Bool) (a k : Nat) :
    runFn (uartRx tw) sR p (a + 2 + k) =
      runFn (uartRx tw) (runFn (uartRx tw) sR p (a + 2)) (fun j => (fun i => p (a + i)) (j + 2)) k := by
  rw [runFn_add]
  congr 1
  funext j
  show p (a + 2 + j) = p (a + (j + 2))
  congr 1; omega

end Litex.Periph
