import LitexProofs.Periph.Timers
/-
  Watchdog: the whole timeout waveform in closed form (feed, count-down, `execute`, reset delay).  Core Lean only.
-/
namespace Litex.Periph
open Litex

/-- State `j` enabled, unfed, reset-mode cycles after a feed with `cycles = C` (no timeout pending at the feed). -/
structure WdAfterFeed (d C j : Nat) (t : WdSt) : Prop where
  rem : t.remaining = C - j
  exe : t.execute = decide (C < j)
  rc  : t.rcount = d - (j - (C + 1))

theorem wd_after_feed_step (d C j : Nat) (t : WdSt) (i : WdIn) (h : WdAfterFeed d C j t)
    (he : i.enable = true) (hf : i.feed = false) (hr : i.resetF = true) : WdAfterFeed d C (j + 1) (wdNext d t i) := by
  obtain ⟨h1, h2, h3⟩ := h
  refine ⟨?_, ?_, ?_⟩
  · simp only [wdNext, he, hf, h1, Bool.false_eq_true, if_false, if_true]
    by_cases h0 : C - j = 0
    · simp [h0]; omega
    · simp [h0]; omega
  · simp only [wdNext, he, hf, h1, Bool.false_eq_true, if_false, if_true]
    by_cases h0 : C - j = 0
    · have : C < j + 1 := by omega
      simp [h0, this]
    · have : ¬ C < j + 1 := by omega
      simp [h0, this]
  · simp only [wdNext, wdWait, he, hr, h2, h3, WaitTimer.next, WaitTimer.done]
    by_cases hc : C < j
    · by_cases h0 : d - (j - (C + 1)) = 0 <;> simp [hc, h0] <;> omega
    · simp [hc]; omega

theorem wd_after_feed_run (d C : Nat) (ins : List WdIn)
    (h : ∀ i ∈ ins, i.enable = true ∧ i.feed = false ∧ i.resetF = true) (j : Nat) (t : WdSt)
    (ht : WdAfterFeed d C j t) : WdAfterFeed d C (j + ins.length) ((watchdog d).runFrom t ins) := by
  induction ins generalizing j t with
  | nil => simpa using ht
  | cons i is ih =>
    have hi := h i (by simp)
    have := ih (fun x hx => h x (by simp [hx])) (j + 1) (wdNext d t i) (wd_after_feed_step d C j t i ht hi.1 hi.2.1 hi.2.2)
    rw [wd_runFrom_cons]
    have e : j + (i :: is).length = j + 1 + is.length := by simp; omega
    rw [e]; exact this

theorem wd_feed_entry (d : Nat) (s : WdSt) (fd : WdIn) (hfd : fd.feed = true) (he : s.execute = false) :
    WdAfterFeed d fd.cycles 0 (wdNext d s fd) := by
  refine ⟨by simp [wdNext, hfd], by simp [wdNext, hfd, he], ?_⟩
  simp [wdNext, wdWait, he, WaitTimer.next]

end Litex.Periph
