import LitexModel.Periph.Glue
/-
  UART top level (CSR side + the two `SyncFIFO(buffered=True)`): the model's two FIFOs are instances of the C03 stream
  element `syncFifoBuffered` (shared model, `LitexModel/Stream/Basic.lean`), so the C03 history relation applies to every
  software / PHY schedule.  The step lemma below is the one of `LitexProofs/Stream/Pipe.lean` (`syncFifoBuffered_step`),
  restated here so that this property does not depend on another property's proof files.  Core Lean only.
-/
namespace Litex.Periph
open Litex Litex.Stream

/-- The UART top level as a machine. -/
def uartTopM (dtx drx : Nat) (rxWe : Bool) : Machine UartTopIn UartTopSt UartTopOut where
  init := { tx := (syncFifoBuffered dtx zTokN).init, rx := (syncFifoBuffered drx zTokN).init }
  out := uartTopOut dtx drx
  next := uartTopNext dtx drx rxWe

/-- What the TX FIFO sees in a cycle: software's write strobe and byte, the PHY's ready. -/
def utTxIn (i : UartTopIn) : In Nat := { valid := i.re, tok := tokN i.r, ready := i.srcRdy }

/-- What the RX FIFO sees: the PHY's character, and software's pop (event clear, or a read with `rx_fifo_rx_we`). -/
def utRxIn (rxWe : Bool) (i : UartTopIn) : In Nat :=
  { valid := i.sinkV, tok := tokN i.sinkD, ready := i.clearRx || (rxWe && i.we) }

theorem uartTop_tx_run (dtx drx : Nat) (rxWe : Bool) (ins : List UartTopIn) (s : UartTopSt) :
    ((uartTopM dtx drx rxWe).runFrom s ins).tx = (syncFifoBuffered dtx zTokN).runFrom s.tx (ins.map utTxIn) := by
  induction ins generalizing s with
  | nil => rfl
  | cons i is ih => exact ih _

theorem uartTop_rx_run (dtx drx : Nat) (rxWe : Bool) (ins : List UartTopIn) (s : UartTopSt) :
    ((uartTopM dtx drx rxWe).runFrom s ins).rx = (syncFifoBuffered drx zTokN).runFrom s.rx (ins.map (utRxIn rxWe)) := by
  induction ins generalizing s with
  | nil => rfl
  | cons i is ih => exact ih _

/-- Status bits and event triggers are functions of the FIFO levels. -/
theorem uartTop_flags (dtx drx : Nat) (s : UartTopSt) (i : UartTopIn) :
    let o := uartTopOut dtx drx s i
    o.txfull = (s.tx.q.length == dtx) ∧ o.txempty = !s.tx.readable ∧
    o.rxfull = (s.rx.q.length == drx) ∧ o.rxempty = !s.rx.readable ∧
    o.trigTx = !o.txfull ∧ o.trigRx = !o.rxempty ∧ o.sinkRdy = !o.rxfull ∧ o.srcV = !o.txempty ∧
    o.srcD = s.tx.dout.data ∧ o.w = s.rx.dout.data := by
  simp [uartTopOut, syncFifoBuffered, bne]

/-- Tokens waiting in a buffered FIFO: output register, then queue. -/
def fbInflight (s : FBState Nat) : List (Tok Nat) := (if s.readable then [s.dout] else []) ++ s.q

def fbRelN (depth : Nat) (s : FBState Nat) (a d : List (Tok Nat)) : Prop :=
  s.q.length ≤ depth ∧ a = d ++ fbInflight s

theorem fb_step (depth : Nat) (z : Tok Nat) (s : FBState Nat) (a d : List (Tok Nat)) (i : In Nat)
    (h : fbRelN depth s a d) :
    fbRelN depth ((syncFifoBuffered depth z).step s i) (a ++ (syncFifoBuffered depth z).accNow s i)
      (d ++ (syncFifoBuffered depth z).delNow s i) := by
  obtain ⟨q, rd, dout⟩ := s
  obtain ⟨iv, it, ir⟩ := i
  obtain ⟨hl, h2⟩ := h
  subst h2
  unfold fbRelN
  cases q with
  | nil =>
    cases rd <;> cases iv <;> cases ir <;>
      simp [syncFifoBuffered, Elem.step, Elem.accNow, Elem.delNow, Elem.out, fbInflight] <;>
      (try split) <;> simp_all <;> omega
  | cons x xs =>
    have hl' : xs.length + 1 ≤ depth := by simpa using hl
    by_cases hfull : xs.length + 1 = depth
    · cases rd <;> cases iv <;> cases ir <;>
        simp [syncFifoBuffered, Elem.step, Elem.accNow, Elem.delNow, Elem.out, fbInflight, hfull] <;> omega
    · cases rd <;> cases iv <;> cases ir <;>
        simp [syncFifoBuffered, Elem.step, Elem.accNow, Elem.delNow, Elem.out, fbInflight, hfull] <;> omega

/-- The history relation of `SyncFIFO(buffered=True)` for every schedule (C03's `syncFifoBuffered_token_rel`). -/
theorem fb_token_rel (depth : Nat) (ins : List (In Nat)) :
    let e := syncFifoBuffered depth zTokN
    e.accepted e.init ins = e.delivered e.init ins ++ fbInflight (e.runFrom e.init ins) ∧
    (e.runFrom e.init ins).q.length ≤ depth := by
  have h := Elem.rel_run_init (syncFifoBuffered depth zTokN) (fbRelN depth)
    (by simp [fbRelN, syncFifoBuffered, fbInflight]) (fb_step depth zTokN) ins
  exact ⟨h.2, h.1⟩

theorem ite_map_singleton {α β : Type} (c : Bool) (f : α → β) (a : α) :
    (if c = true then [f a] else []) = List.map f (if c = true then [a] else []) := by cases c <;> rfl

/-! ### Histories at the CSR / PHY ports -/

/-- Bytes software wrote to `rxtx` in cycles with `txfull = 0`. -/
def utWritten (dtx drx : Nat) (rxWe : Bool) (s : UartTopSt) : List UartTopIn → List Nat
  | [] => []
  | i :: is => (if i.re && !(uartTopOut dtx drx s i).txfull then [i.r % 256] else []) ++
               utWritten dtx drx rxWe (uartTopNext dtx drx rxWe s i) is

/-- Bytes handed to the PHY (`source.valid ∧ source.ready`). -/
def utSent (dtx drx : Nat) (rxWe : Bool) (s : UartTopSt) : List UartTopIn → List Nat
  | [] => []
  | i :: is => (if (uartTopOut dtx drx s i).srcV && i.srcRdy then [(uartTopOut dtx drx s i).srcD] else []) ++
               utSent dtx drx rxWe (uartTopNext dtx drx rxWe s i) is

/-- Bytes accepted from the PHY (`sink.valid ∧ sink.ready`, i.e. `rxfull = 0`). -/
def utReceived (dtx drx : Nat) (rxWe : Bool) (s : UartTopSt) : List UartTopIn → List Nat
  | [] => []
  | i :: is => (if i.sinkV && (uartTopOut dtx drx s i).sinkRdy then [i.sinkD % 256] else []) ++
               utReceived dtx drx rxWe (uartTopNext dtx drx rxWe s i) is

/-- Bytes software took from `rxtx` (`rxempty = 0` and the rx event cleared, or a read with `rx_fifo_rx_we`). -/
def utRead (dtx drx : Nat) (rxWe : Bool) (s : UartTopSt) : List UartTopIn → List Nat
  | [] => []
  | i :: is => (if !(uartTopOut dtx drx s i).rxempty && (i.clearRx || (rxWe && i.we)) then [(uartTopOut dtx drx s i).w]
                else []) ++ utRead dtx drx rxWe (uartTopNext dtx drx rxWe s i) is

theorem utWritten_eq (dtx drx : Nat) (rxWe : Bool) (ins : List UartTopIn) (s : UartTopSt) :
    utWritten dtx drx rxWe s ins = ((syncFifoBuffered dtx zTokN).accepted s.tx (ins.map utTxIn)).map (·.data) := by
  induction ins generalizing s with
  | nil => rfl
  | cons i is ih =>
    simp only [utWritten, List.map_cons, Elem.accepted, List.map_append]
    rw [ih]
    congr 1
    simp only [Elem.accNow, Elem.out, utTxIn, uartTopOut, syncFifoBuffered, tokN]
    simp only [Bool.not_not]
    exact ite_map_singleton _ (fun t : Tok Nat => t.data) (⟨i.r % 256, false, false⟩ : Tok Nat)

theorem utSent_eq (dtx drx : Nat) (rxWe : Bool) (ins : List UartTopIn) (s : UartTopSt) :
    utSent dtx drx rxWe s ins = ((syncFifoBuffered dtx zTokN).delivered s.tx (ins.map utTxIn)).map (·.data) := by
  induction ins generalizing s with
  | nil => rfl
  | cons i is ih =>
    simp only [utSent, List.map_cons, Elem.delivered, List.map_append]
    rw [ih]
    congr 1
    simp only [Elem.delNow, Elem.out, utTxIn, uartTopOut, syncFifoBuffered]
    exact ite_map_singleton _ (fun t : Tok Nat => t.data) s.tx.dout

theorem utReceived_eq (dtx drx : Nat) (rxWe : Bool) (ins : List UartTopIn) (s : UartTopSt) :
    utReceived dtx drx rxWe s ins =
      ((syncFifoBuffered drx zTokN).accepted s.rx (ins.map (utRxIn rxWe))).map (·.data) := by
  induction ins generalizing s with
  | nil => rfl
  | cons i is ih =>
    simp only [utReceived, List.map_cons, Elem.accepted, List.map_append]
    rw [ih]
    congr 1
    simp only [Elem.accNow, Elem.out, utRxIn, uartTopOut, syncFifoBuffered, tokN]
    exact ite_map_singleton _ (fun t : Tok Nat => t.data) (⟨i.sinkD % 256, false, false⟩ : Tok Nat)

theorem utRead_eq (dtx drx : Nat) (rxWe : Bool) (ins : List UartTopIn) (s : UartTopSt) :
    utRead dtx drx rxWe s ins =
      ((syncFifoBuffered drx zTokN).delivered s.rx (ins.map (utRxIn rxWe))).map (·.data) := by
  induction ins generalizing s with
  | nil => rfl
  | cons i is ih =>
    simp only [utRead, List.map_cons, Elem.delivered, List.map_append]
    rw [ih]
    congr 1
    simp only [Elem.delNow, Elem.out, utRxIn, uartTopOut, syncFifoBuffered]
    simp only [Bool.not_not]
    exact ite_map_singleton _ (fun t : Tok Nat => t.data) s.rx.dout

end Litex.Periph
