import LitexModel.Periph.I2c
/-
  The write command of `I2CMasterMachine` step by step (one step = one enabled FSM step, i.e. one clk2x tick or an
  extra command strobe): the byte goes out MSB first on eight SCL pulses, then SDA is released for the acknowledge
  clock and the sampled acknowledge is stored.  Core Lean only.
-/
namespace Litex.Periph
open Litex

/-- `n` enabled FSM steps with inputs `f 0 … f (n-1)`. -/
def i2cSteps (s : I2cSt) (f : Nat → I2cIn) : Nat → I2cSt
  | 0 => s
  | n + 1 => i2cFsmStep (i2cSteps s f n) (f n)

def shlN (d : Nat) : Nat → Nat
  | 0 => d
  | j + 1 => shl1Keep0 (shlN d j)

theorem shlN_bit7_table : ∀ d, d < 256 → ∀ j, j < 8 → (shlN d j).testBit 7 = d.testBit (7 - j) := by decide +kernel

/-- State `2j` steps into a write (`j ≤ 8` bits already on the wire): WRITE0, `8 - j` bits to go. -/
theorem i2c_write_even (s : I2cSt) (f : Nat → I2cIn) (hf : s.fsm = .write0) (hb : s.bits = 8) (j : Nat) (hj : j ≤ 8) :
    (i2cSteps s f (2 * j)).fsm = .write0 ∧ (i2cSteps s f (2 * j)).bits = 8 - j ∧
    (i2cSteps s f (2 * j)).data = shlN s.data j ∧ (i2cSteps s f (2 * j)).ack = s.ack := by
  induction j with
  | zero => simp [i2cSteps, hf, hb, shlN]
  | succ j ih =>
    obtain ⟨h1, h2, h3, h4⟩ := ih (by omega)
    have e : 2 * (j + 1) = 2 * j + 1 + 1 := by omega
    have hb0 : ((i2cSteps s f (2 * j)).bits == 0) = false := by rw [h2]; simp; omega
    have hm : (8 - j + 15) % 16 = 8 - (j + 1) := by omega
    rw [e]
    have e1 : i2cSteps s f (2 * j + 1 + 1) = i2cFsmStep (i2cFsmStep (i2cSteps s f (2 * j)) (f (2 * j))) (f (2 * j + 1)) := rfl
    rw [e1]
    generalize i2cSteps s f (2 * j) = t at *
    obtain ⟨tf, tscl, tsda, tdata, tack, tbits, tcnt⟩ := t
    simp only at h1 h2 h3 h4 hb0
    subst h1 h2 h3 h4
    simp [i2cFsmStep, hb0, hm, shlN]

/-- **Write, bit by bit.**  For `j < 8`: step `2j` (WRITE0) lowers SCL and puts bit `7 - j` of the byte on SDA, step
    `2j + 1` (WRITE1) raises SCL with SDA unchanged. -/
theorem i2c_write_bits (s : I2cSt) (f : Nat → I2cIn) (hf : s.fsm = .write0) (hb : s.bits = 8) (hd : s.data < 256)
    (j : Nat) (hj : j < 8) :
    (i2cSteps s f (2 * j + 1)).scl = false ∧ (i2cSteps s f (2 * j + 1)).sda = s.data.testBit (7 - j) ∧
    (i2cSteps s f (2 * j + 2)).scl = true ∧ (i2cSteps s f (2 * j + 2)).sda = s.data.testBit (7 - j) := by
  obtain ⟨h1, h2, h3, h4⟩ := i2c_write_even s f hf hb j (by omega)
  have hb0 : ((i2cSteps s f (2 * j)).bits == 0) = false := by rw [h2]; simp; omega
  have hbit := shlN_bit7_table s.data hd j hj
  have e1 : i2cSteps s f (2 * j + 1) = i2cFsmStep (i2cSteps s f (2 * j)) (f (2 * j)) := rfl
  have e2 : i2cSteps s f (2 * j + 2) = i2cFsmStep (i2cSteps s f (2 * j + 1)) (f (2 * j + 1)) := rfl
  rw [e2, e1]
  generalize i2cSteps s f (2 * j) = t at *
  obtain ⟨tf, tscl, tsda, tdata, tack, tbits, tcnt⟩ := t
  simp only at h1 h2 h3 h4 hb0
  subst h1 h2 h3 h4
  simp [i2cFsmStep, hb0, hbit]

/-- **Acknowledge.**  After the eight bits: step 16 releases SDA with SCL low, step 17 raises SCL, step 18 lowers it,
    stores `ack = ¬sda_i` as sampled in that step, and returns to IDLE (19 steps in all, SCL left low). -/
theorem i2c_write_ack (s : I2cSt) (f : Nat → I2cIn) (hf : s.fsm = .write0) (hb : s.bits = 8) :
    (i2cSteps s f 17).scl = false ∧ (i2cSteps s f 17).sda = true ∧
    (i2cSteps s f 18).scl = true ∧ (i2cSteps s f 18).sda = true ∧
    (i2cSteps s f 19).scl = false ∧ (i2cSteps s f 19).ack = !(f 18).sdaI ∧ (i2cSteps s f 19).fsm = .idle := by
  obtain ⟨h1, h2, h3, h4⟩ := i2c_write_even s f hf hb 8 (by omega)
  have e16 : (2 * 8 : Nat) = 16 := rfl
  rw [e16] at h1 h2 h3 h4
  have e17 : i2cSteps s f 17 = i2cFsmStep (i2cSteps s f 16) (f 16) := rfl
  have e18 : i2cSteps s f 18 = i2cFsmStep (i2cSteps s f 17) (f 17) := rfl
  have e19 : i2cSteps s f 19 = i2cFsmStep (i2cSteps s f 18) (f 18) := rfl
  rw [e19, e18, e17]
  generalize i2cSteps s f 16 = t at *
  obtain ⟨tf, tscl, tsda, tdata, tack, tbits, tcnt⟩ := t
  simp only at h1 h2 h3 h4
  subst h1 h2 h3 h4
  simp [i2cFsmStep]

end Litex.Periph
