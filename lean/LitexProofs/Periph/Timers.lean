import LitexModel.Periph.Timers
/-
  Helper lemmas for the C19 counters (Timer, Watchdog, WaitTimer, PWM, timeline).  Core Lean only.
-/
namespace Litex.Periph
open Litex

/-! ### Timer -/

@[simp] theorem timer_runFrom_nil (s : TimerSt) : timer.runFrom s [] = s := rfl
@[simp] theorem timer_runFrom_cons (s : TimerSt) (i : TimerIn) (is : List TimerIn) :
    timer.runFrom s (i :: is) = timer.runFrom (timerNext s i) is := rfl

/-- Enabled cycles with `reload = 0`: the count goes down one per cycle and sticks at 0. -/
theorem timer_countdown (ins : List TimerIn) (h : ∀ i ∈ ins, i.en = true ∧ i.reload = 0) (s : TimerSt) :
    (timer.runFrom s ins).value = s.value - ins.length := by
  induction ins generalizing s with
  | nil => simp
  | cons i is ih =>
    have hi := h i (by simp)
    rw [timer_runFrom_cons, ih (fun j hj => h j (by simp [hj]))]
    simp only [timerNext, hi.1, hi.2, List.length_cons, if_true]
    by_cases hv : s.value = 0
    · simp [hv]
    · have : (s.value == 0) = false := by simp [hv]
      simp only [this]; simp; omega

/-- Enabled cycles, any `reload`, as long as 0 is not passed: one step down per cycle. -/
theorem timer_countdown_any_reload (ins : List TimerIn) (h : ∀ i ∈ ins, i.en = true) (s : TimerSt)
    (hlen : ins.length ≤ s.value) : (timer.runFrom s ins).value = s.value - ins.length := by
  induction ins generalizing s with
  | nil => simp
  | cons i is ih =>
    have hi := h i (by simp)
    simp only [List.length_cons] at hlen
    have hv : (s.value == 0) = false := by
      have : s.value ≠ 0 := by omega
      simp [this]
    have hn : (timerNext s i).value = s.value - 1 := by simp [timerNext, hi, hv]
    rw [timer_runFrom_cons, ih (fun j hj => h j (by simp [hj])) _ (by rw [hn]; omega), hn]
    simp only [List.length_cons]; omega

/-- The state after a disabled cycle holds the load value. -/
theorem timer_disabled_loads (s : TimerSt) (d : TimerIn) (hd : d.en = false) :
    (timerNext s d).value = d.load := by simp [timerNext, hd]

/-- Periodic mode invariant: with `reload = R` in every (enabled) cycle, `k + value` stays a multiple of `R + 1`
    and `value ≤ R`. -/
theorem timer_periodic_inv (R : Nat) (ins : List TimerIn) (h : ∀ i ∈ ins, i.en = true ∧ i.reload = R)
    (s : TimerSt) (k : Nat) (hv : s.value ≤ R) (hk : (R + 1) ∣ (k + s.value)) :
    (timer.runFrom s ins).value ≤ R ∧ (R + 1) ∣ (k + ins.length + (timer.runFrom s ins).value) := by
  induction ins generalizing s k with
  | nil => exact ⟨hv, by simpa using hk⟩
  | cons i is ih =>
    have hi := h i (by simp)
    rw [timer_runFrom_cons]
    by_cases h0 : s.value = 0
    · have hn : (timerNext s i).value = R := by simp [timerNext, hi.1, hi.2, h0]
      have := ih (fun j hj => h j (by simp [hj])) (timerNext s i) (k + 1) (by rw [hn]; exact Nat.le_refl _)
        (by rw [hn]; rw [h0] at hk
            have : k + 1 + R = (k + 0) + (R + 1) := by omega
            rw [this]; exact Nat.dvd_add hk (Nat.dvd_refl _))
      refine ⟨this.1, ?_⟩
      have e : k + (i :: is).length = k + 1 + is.length := by simp only [List.length_cons]; omega
      rw [e]; exact this.2
    · have hb : (s.value == 0) = false := by simp [h0]
      have hn : (timerNext s i).value = s.value - 1 := by simp [timerNext, hi.1, hb]
      have := ih (fun j hj => h j (by simp [hj])) (timerNext s i) (k + 1) (by rw [hn]; omega)
        (by rw [hn]
            have : k + 1 + (s.value - 1) = k + s.value := by omega
            rw [this]; exact hk)
      refine ⟨this.1, ?_⟩
      have e : k + (i :: is).length = k + 1 + is.length := by simp only [List.length_cons]; omega
      rw [e]; exact this.2

/-- The latch: cycles without an update request keep `status`. -/
theorem timer_status_hold (ins : List TimerIn) (h : ∀ i ∈ ins, i.upd = false) (s : TimerSt) :
    (timer.runFrom s ins).status = s.status := by
  induction ins generalizing s with
  | nil => simp
  | cons i is ih =>
    rw [timer_runFrom_cons, ih (fun j hj => h j (by simp [hj]))]
    simp [timerNext, h i (by simp)]

/-! ### WaitTimer -/

/-- `count = t - (length of the current waiting streak)`, for every history. -/
theorem waittimer_count (t : Nat) (ws : List Bool) (c k : Nat) (hc : c = t - k) :
    WaitTimer.runFrom t c ws = t - WaitTimer.streakFrom k ws := by
  induction ws generalizing c k with
  | nil => simpa [WaitTimer.runFrom, WaitTimer.streakFrom, Machine.runFrom] using hc
  | cons w ws ih =>
    simp only [WaitTimer.runFrom, Machine.runFrom, WaitTimer.streakFrom, List.foldl_cons] at *
    cases w with
    | true =>
      have := ih (WaitTimer.next t c true) (k + 1) (by
        subst hc
        simp only [WaitTimer.next, WaitTimer.done, if_true]
        by_cases h0 : t - k = 0
        · simp [h0]; omega
        · simp [h0]; omega)
      simpa [WaitTimer.machine, WaitTimer.streakStep] using this
    | false =>
      have := ih (WaitTimer.next t c false) 0 (by simp [WaitTimer.next])
      simpa [WaitTimer.machine, WaitTimer.streakStep] using this


/-- One clock edge of the WaitTimer in streak form. -/
theorem waittimer_step (t c k : Nat) (w : Bool) (hc : c = t - k) :
    WaitTimer.next t c w = t - WaitTimer.streakStep k w := by
  subst hc
  cases w with
  | true =>
    simp only [WaitTimer.next, WaitTimer.done, WaitTimer.streakStep, if_true]
    by_cases h0 : t - k = 0
    · simp [h0]; omega
    · simp [h0]; omega
  | false => simp [WaitTimer.next, WaitTimer.streakStep]

/-! ### Watchdog -/

@[simp] theorem wd_runFrom_nil (d : Nat) (s : WdSt) : (watchdog d).runFrom s [] = s := rfl
@[simp] theorem wd_runFrom_cons (d : Nat) (s : WdSt) (i : WdIn) (is : List WdIn) :
    (watchdog d).runFrom s (i :: is) = (watchdog d).runFrom (wdNext d s i) is := rfl

/-- Enabled, not fed: `remaining` counts down one per cycle, saturating at 0; `execute` reports whether the cycle
    before saw `remaining == 0`. -/
theorem wd_countdown (d : Nat) (ins : List WdIn) (h : ∀ i ∈ ins, i.enable = true ∧ i.feed = false) (s : WdSt) :
    ((watchdog d).runFrom s ins).remaining = s.remaining - ins.length ∧
    (ins ≠ [] → ((watchdog d).runFrom s ins).execute = decide (s.remaining < ins.length)) := by
  induction ins generalizing s with
  | nil => simp
  | cons i is ih =>
    have hi := h i (by simp)
    have hr : (wdNext d s i).remaining = s.remaining - 1 := by
      simp only [wdNext, hi.1, hi.2]
      by_cases h0 : s.remaining = 0 <;> simp [h0]
    have he : (wdNext d s i).execute = (s.remaining == 0) := by simp [wdNext, hi.1, hi.2]
    have ih' := ih (fun j hj => h j (by simp [hj])) (wdNext d s i)
    rw [wd_runFrom_cons]
    refine ⟨by rw [ih'.1, hr]; simp only [List.length_cons]; omega, fun _ => ?_⟩
    cases is with
    | nil =>
      simp [he]
      by_cases h0 : s.remaining = 0 <;> simp [h0]
    | cons j js =>
      rw [ih'.2 (by simp), hr]
      simp only [List.length_cons, decide_eq_decide]
      omega

/-- Disabled (or halted with pause) and not fed: nothing moves. -/
theorem wd_frozen (d : Nat) (ins : List WdIn) (h : ∀ i ∈ ins, i.enable = false ∧ i.feed = false) (s : WdSt) :
    ((watchdog d).runFrom s ins).remaining = s.remaining ∧ ((watchdog d).runFrom s ins).execute = s.execute := by
  induction ins generalizing s with
  | nil => simp
  | cons i is ih =>
    have hi := h i (by simp)
    have ih' := ih (fun j hj => h j (by simp [hj])) (wdNext d s i)
    rw [wd_runFrom_cons, ih'.1, ih'.2]
    simp [wdNext, hi.1, hi.2]

/-- The `wait` input of the reset timer in every cycle of a run. -/
def wdWaits (d : Nat) (s : WdSt) : List WdIn → List Bool
  | [] => []
  | i :: is => wdWait s i :: wdWaits d (wdNext d s i) is

theorem wd_rcount (d : Nat) (ins : List WdIn) (s : WdSt) (k : Nat) (hk : s.rcount = d - k) :
    ((watchdog d).runFrom s ins).rcount = d - WaitTimer.streakFrom k (wdWaits d s ins) := by
  induction ins generalizing s k with
  | nil => simpa [wdWaits, WaitTimer.streakFrom] using hk
  | cons i is ih =>
    rw [wd_runFrom_cons]
    have := ih (wdNext d s i) (WaitTimer.streakStep k (wdWait s i))
      (by simp only [wdNext]; exact waittimer_step d s.rcount k _ hk)
    simpa [wdWaits, WaitTimer.streakFrom] using this

/-! ### PWM -/

@[simp] theorem pwm_runFrom_nil (s : PwmSt) : pwm.runFrom s [] = s := rfl
@[simp] theorem pwm_runFrom_cons (s : PwmSt) (i : PwmIn) (is : List PwmIn) :
    pwm.runFrom s (i :: is) = pwm.runFrom (pwmNext s i) is := rfl

/-- `(c + 1) % P` by cases, for `c < P`. -/
theorem succ_mod_of_lt {c P : Nat} (h : c < P) : (c + 1) % P = if c + 1 < P then c + 1 else 0 := by
  split
  · exact Nat.mod_eq_of_lt ‹_›
  · have : c + 1 = P := by omega
    rw [this]; exact Nat.mod_self P

/-- Enabled, not reset, constant period `P ≥ 1`: the counter is a mod-`P` counter. -/
theorem pwm_counter (P : Nat) (ins : List PwmIn)
    (h : ∀ i ∈ ins, i.enable = true ∧ i.reset = false ∧ i.period = P) (s : PwmSt) (hs : s.counter < P) :
    (pwm.runFrom s ins).counter = (s.counter + ins.length) % P := by
  induction ins generalizing s with
  | nil => simp [Nat.mod_eq_of_lt hs]
  | cons i is ih =>
    have hi := h i (by simp)
    have hn : (pwmNext s i).counter = (s.counter + 1) % P := by
      rw [succ_mod_of_lt hs]; simp [pwmNext, hi.1, hi.2.1, hi.2.2]
    have hlt : (pwmNext s i).counter < P := by rw [hn]; exact Nat.mod_lt _ (by omega)
    rw [pwm_runFrom_cons, ih (fun j hj => h j (by simp [hj])) _ hlt, hn]
    simp only [List.length_cons]
    rw [Nat.mod_add_mod]
    congr 1; omega

/-- Number of positions `< W` among `0 … P-1`. -/
theorem count_lt_range (W P : Nat) : ((List.range P).filter (fun k => decide (k < W))).length = min W P := by
  induction P with
  | zero => simp
  | succ P ih =>
    rw [List.range_succ, List.filter_append, List.length_append, ih]
    by_cases h : P < W
    · simp [h]; omega
    · simp [h]; omega

/-! ### PWM duty -/

/-- Number of cycles of a run in which the PWM register is loaded with 1. -/
def pwmHighs (s : PwmSt) : List PwmIn → Nat
  | [] => 0
  | i :: is => (if (pwmNext s i).pwm then 1 else 0) + pwmHighs (pwmNext s i) is

theorem pwm_highs_window (P W : Nat) (ins : List PwmIn)
    (h : ∀ i ∈ ins, i.enable = true ∧ i.reset = false ∧ i.period = P ∧ i.width = W) (s : PwmSt)
    (hs : s.counter + ins.length ≤ P) :
    pwmHighs s ins = ((List.range' s.counter ins.length).filter (fun k => decide (k < W))).length := by
  induction ins generalizing s with
  | nil => simp [pwmHighs]
  | cons i is ih =>
    have hi := h i (by simp)
    simp only [List.length_cons] at hs
    have hn : (pwmNext s i).counter = if s.counter + 1 < P then s.counter + 1 else 0 := by
      simp [pwmNext, hi.1, hi.2.1, hi.2.2.1]
    have hp : (pwmNext s i).pwm = decide (s.counter < W) := by simp [pwmNext, hi.1, hi.2.2.2]
    simp only [pwmHighs, List.length_cons, List.range'_succ, List.filter_cons, hp]
    cases is with
    | nil =>
      simp [pwmHighs]
      split <;> simp
    | cons j js =>
      have hlt : s.counter + 1 < P := by simp only [List.length_cons] at hs; omega
      have hc : (pwmNext s i).counter = s.counter + 1 := by rw [hn]; simp [hlt]
      rw [ih (fun x hx => h x (by simp [hx])) (pwmNext s i) (by rw [hc]; simp only [List.length_cons] at *; omega), hc]
      by_cases hw : s.counter < W <;> simp [hw] <;> omega

/-! ### timeline -/

theorem timeline_next_running (last c : Nat) (t : Bool) (hl : 1 ≤ last) (h0 : 0 < c) (hc : c ≤ last) :
    timelineNext last c t = if c = last then 0 else c + 1 := by
  have hne : (c != 0) = true := by simp; omega
  have hl0 : (last == 0) = false := by simp; omega
  unfold timelineNext
  simp only [hne, if_true, hl0, Bool.false_eq_true, if_false]
  by_cases hp : isPow2 (last + 1) = true
  · simp only [hp, if_true]
    by_cases he : c = last
    · simp [he]
    · simp only [he, if_false]; exact Nat.mod_eq_of_lt (by omega)
  · simp only [hp, Bool.false_eq_true, if_false]
    by_cases he : c = last <;> simp [he]

theorem timeline_next_idle (last : Nat) (t : Bool) (hl : 1 ≤ last) :
    timelineNext last 0 t = if t then 1 else 0 := by
  have hl0 : (last == 0) = false := by simp; omega
  have hl1 : (0 == last) = false := by simp; omega
  have h1 : 1 % (last + 1) = 1 := Nat.mod_eq_of_lt (by omega)
  unfold timelineNext
  by_cases hp : isPow2 (last + 1) = true
  · cases t <;> simp [hp, hl0, h1]
  · cases t <;> simp [hp, hl1]

/-- Once started, the counter goes up by one per cycle until `last`, for every later trigger input. -/
theorem timeline_counts (last : Nat) (hl : 1 ≤ last) (ts : List Bool) (c : Nat) (h0 : 0 < c)
    (hlen : c + ts.length ≤ last) : (timelineM last).runFrom c ts = c + ts.length := by
  induction ts generalizing c with
  | nil => rfl
  | cons t ts ih =>
    simp only [List.length_cons] at hlen
    show (timelineM last).runFrom (timelineNext last c t) ts = _
    rw [timeline_next_running last c t hl h0 (by omega)]
    have : ¬ (c = last) := by omega
    simp only [this, if_false]
    rw [ih (c + 1) (by omega) (by omega)]
    simp only [List.length_cons]; omega

end Litex.Periph
