import LitexModel.Periph.Bone
/-
  C19 — proofs about `Stream2Wishbone` (model: `LitexModel/Periph/Bone.lean`).

  Schedules.  A `Seg` is one handshake together with the wait before it: `pre` are the cycles in which the awaited
  signal (`sink.valid`, `wishbone.ack`, `source.ready`) is low — every other input is arbitrary in those cycles —
  and `fire` is the cycle in which it is high.  Bursts are lists of such segments, so the theorems quantify over all
  gaps between host bytes, all ack delays and all source stalls.

  `boneObs c s ins` = (registers after `ins`, completed wishbone accesses, bytes handed to the source), with the
  FSM reset never asserted; `bone_no_timeout` transfers the statements to the complete machine (with the timer) for
  every input sequence no longer than the timer count.
-/
namespace Litex.Periph
open Litex

structure Seg where
  pre  : List BoneIn
  fire : BoneIn

/-- `p` is low during the wait and high in the firing cycle. -/
def Seg.waits (p : BoneIn → Bool) (g : Seg) : Prop := (∀ i ∈ g.pre, p i = false) ∧ p g.fire = true

def Seg.cycles (g : Seg) : List BoneIn := g.pre ++ [g.fire]

/-- The cycles of a list of segments. -/
def cyclesOf : List Seg → List BoneIn
  | [] => []
  | g :: gs => g.pre ++ g.fire :: cyclesOf gs

/-- The bytes carried by a list of sink segments. -/
def bytesOf (gs : List Seg) : List Nat := gs.map (·.fire.sinkData)

/-- A list of host bytes with arbitrary gaps. -/
def SinkSegs (gs : List Seg) : Prop := ∀ g ∈ gs, g.waits (·.sinkValid) ∧ g.fire.sinkData < 256

abbrev Obs := BoneCore × List BoneAccess × List (Nat × Bool)

def boneObs (c : BoneCfg) (s : BoneCore) (ins : List BoneIn) : Obs :=
  (boneCoreRun c s ins, boneBusLog c s ins, boneSrcLog c s ins)

/-- Prefix the logs of an observation. -/
def Obs.pre (b : List BoneAccess) (r : List (Nat × Bool)) (o : Obs) : Obs := (o.1, b ++ o.2.1, r ++ o.2.2)

@[simp] theorem Obs.pre_nil (o : Obs) : Obs.pre [] [] o = o := by simp [Obs.pre]

@[simp] theorem Obs.pre_pre (b b' : List BoneAccess) (r r' : List (Nat × Bool)) (o : Obs) :
    Obs.pre b r (Obs.pre b' r' o) = Obs.pre (b ++ b') (r ++ r') o := by simp [Obs.pre]

@[simp] theorem boneObs_nil (c : BoneCfg) (s : BoneCore) : boneObs c s [] = (s, [], []) := rfl

theorem boneObs_cons (c : BoneCfg) (s : BoneCore) (i : BoneIn) (is : List BoneIn) :
    boneObs c s (i :: is) = Obs.pre (boneBusEv c s i) (boneSrcEv c s i) (boneObs c (boneCoreStep c s i) is) := rfl

/-- The handshake the FSM is waiting for in its current state. -/
def boneFires (s : BoneCore) (i : BoneIn) : Bool :=
  match s.fsm with
  | .writeData | .readData => i.ack
  | .sendData => i.sourceReady
  | _ => i.sinkValid

theorem step_stall (c : BoneCfg) (s : BoneCore) (i : BoneIn) (h : s.fsm ≠ .recvCmd) (hf : boneFires s i = false) :
    boneCoreStep c s i = s := by
  rcases s with ⟨fsm, cmd, incr, length, address, data, dbc, abc, wc⟩
  cases fsm <;> simp_all [boneCoreStep, boneFires]

theorem ev_stall (c : BoneCfg) (s : BoneCore) (i : BoneIn) (hf : boneFires s i = false) :
    boneBusEv c s i = [] ∧ boneSrcEv c s i = [] := by
  rcases s with ⟨fsm, cmd, incr, length, address, data, dbc, abc, wc⟩
  cases fsm <;> simp_all [boneBusEv, boneSrcEv, boneCoreOut, boneFires]

theorem obs_pre (c : BoneCfg) (pre rest : List BoneIn) (s : BoneCore) (h : s.fsm ≠ .recvCmd)
    (hf : ∀ i ∈ pre, boneFires s i = false) : boneObs c s (pre ++ rest) = boneObs c s rest := by
  induction pre with
  | nil => rfl
  | cons i is ih =>
    have h1 := hf i (by simp)
    rw [List.cons_append, boneObs_cons, step_stall c s i h h1, (ev_stall c s i h1).1, (ev_stall c s i h1).2,
        Obs.pre_nil]
    exact ih (fun j hj => hf j (by simp [hj]))

/-- One segment: nothing happens during the wait; the firing cycle is an ordinary step. -/
theorem obs_seg (c : BoneCfg) (p : BoneIn → Bool) (g : Seg) (rest : List BoneIn) (s : BoneCore)
    (h : s.fsm ≠ .recvCmd) (hp : ∀ i, boneFires s i = p i) (hw : g.waits p) :
    boneObs c s (g.pre ++ g.fire :: rest)
      = Obs.pre (boneBusEv c s g.fire) (boneSrcEv c s g.fire) (boneObs c (boneCoreStep c s g.fire) rest) := by
  rw [obs_pre c g.pre _ s h (fun i hi => by rw [hp]; exact hw.1 i hi), boneObs_cons]

/-! ### Byte assembly -/

/-- `Cat(byte, reg)` assigned to a register of modulus `M`, byte after byte. -/
def shiftBytes (M : Nat) (d : Nat) (bytes : List Nat) : Nat := bytes.foldl (fun d b => (d * 256 + b) % M) d

/-- Big-endian value of a byte list (first byte most significant). -/
def beVal (bytes : List Nat) : Nat := bytes.foldl (fun d b => d * 256 + b) 0

theorem foldl_be (bytes : List Nat) (d : Nat) :
    bytes.foldl (fun d b => d * 256 + b) d = d * 256 ^ bytes.length + beVal bytes := by
  unfold beVal
  induction bytes generalizing d with
  | nil => simp
  | cons b bs ih =>
    simp only [List.foldl_cons, List.length_cons]
    rw [ih (d * 256 + b), ih (0 * 256 + b), Nat.pow_succ]
    simp [Nat.add_mul, Nat.mul_assoc, Nat.mul_comm 256, Nat.add_assoc]

theorem shiftBytes_mod (M : Nat) (bytes : List Nat) (d : Nat) :
    shiftBytes M d bytes % M = (bytes.foldl (fun d b => d * 256 + b) d) % M ∧
    (bytes ≠ [] → shiftBytes M d bytes = (bytes.foldl (fun d b => d * 256 + b) d) % M) := by
  unfold shiftBytes
  induction bytes generalizing d with
  | nil => simp
  | cons b bs ih =>
    simp only [List.foldl_cons]
    have key : ∀ x y : Nat, x % M = y % M →
        (bs.foldl (fun d b => (d * 256 + b) % M) x) % M = (bs.foldl (fun d b => d * 256 + b) y) % M := by
      intro x y hxy
      rw [(ih x).1]
      clear ih
      induction bs generalizing x y with
      | nil => simpa using hxy
      | cons b' bs' ih' =>
        simp only [List.foldl_cons]
        apply ih'
        rw [Nat.add_mod, Nat.mul_mod, hxy, ← Nat.mul_mod, ← Nat.add_mod]
    have h1 : ((d * 256 + b) % M) % M = (d * 256 + b) % M := Nat.mod_mod _ _
    refine ⟨key _ _ h1, fun _ => ?_⟩
    cases bs with
    | nil => simp
    | cons b' bs' =>
      rw [(ih ((d * 256 + b) % M)).2 (by simp)]
      have := key ((d * 256 + b) % M) (d * 256 + b) h1
      rw [(ih ((d * 256 + b) % M)).1] at this
      exact this

theorem foldl_be_lt (bytes : List Nat) (h : ∀ b ∈ bytes, b < 256) (d : Nat) :
    bytes.foldl (fun d b => d * 256 + b) d < (d + 1) * 256 ^ bytes.length := by
  induction bytes generalizing d with
  | nil => simp
  | cons b bs ih =>
    have hb : b < 256 := h b (by simp)
    have h1 := ih (fun x hx => h x (by simp [hx])) (d * 256 + b)
    simp only [List.foldl_cons, List.length_cons]
    calc _ < (d * 256 + b + 1) * 256 ^ bs.length := h1
      _ ≤ ((d + 1) * 256) * 256 ^ bs.length := Nat.mul_le_mul_right _ (by omega)
      _ = (d + 1) * 256 ^ (bs.length + 1) := by rw [Nat.pow_succ, Nat.mul_assoc, Nat.mul_comm 256]

theorem beVal_lt (bytes : List Nat) (h : ∀ b ∈ bytes, b < 256) : beVal bytes < 256 ^ bytes.length := by
  simpa [beVal] using foldl_be_lt bytes h 0

/-- After as many bytes as the register holds, the register is the big-endian value of the bytes, whatever it
    held before. -/
theorem shiftBytes_full (n d : Nat) (bytes : List Nat) (hl : bytes.length = n) (hn : 0 < n)
    (h : ∀ b ∈ bytes, b < 256) : shiftBytes (2 ^ (8 * n)) d bytes = beVal bytes := by
  have hne : bytes ≠ [] := by intro h0; simp [h0] at hl; omega
  rw [(shiftBytes_mod _ bytes d).2 hne, foldl_be, hl, Nat.pow_mul, show (2:Nat) ^ 8 = 256 by rfl,
      Nat.mul_add_mod_self_right]
  exact Nat.mod_eq_of_lt (hl ▸ beVal_lt bytes h)

/-! ### Phases of a command -/

theorem nA_pos (c : BoneCfg) : 0 < c.nA := Nat.two_pow_pos _
theorem nB_pos (c : BoneCfg) : 0 < c.nB := Nat.two_pow_pos _

/-- The command byte, from RECEIVE-CMD (the waiting cycles clear the counters). -/
theorem cmd_phase (c : BoneCfg) (g : Seg) (rest : List BoneIn) (hw : g.waits (·.sinkValid)) :
    ∀ s : BoneCore, s.fsm = .recvCmd →
    boneObs c s (g.pre ++ g.fire :: rest)
      = boneObs c { s with dbc := 0, abc := 0, wc := 0, cmd := g.fire.sinkData, fsm := .recvLen } rest := by
  obtain ⟨pre, fire⟩ := g
  obtain ⟨h1, h2⟩ := hw
  simp only at h1 h2 ⊢
  induction pre with
  | nil =>
    intro s hs
    simp [boneObs_cons, boneCoreStep, hs, h2, boneBusEv, boneSrcEv, boneCoreOut]
  | cons i is ih =>
    intro s hs
    have hi : i.sinkValid = false := h1 i (by simp)
    rw [List.cons_append, boneObs_cons]
    simp only [boneCoreStep, hs, hi, boneBusEv, boneSrcEv, boneCoreOut]
    simp only [Bool.false_eq_true, if_false, Obs.pre_nil, Bool.and_false, Bool.false_and, Bool.or_self,
      show (BoneFsm.recvCmd == BoneFsm.writeData) = false from rfl,
      show (BoneFsm.recvCmd == BoneFsm.readData) = false from rfl,
      show (BoneFsm.recvCmd == BoneFsm.sendData) = false from rfl]
    rw [ih (fun j hj => h1 j (by simp [hj])) _ rfl]

/-- The length byte. -/
theorem len_phase (c : BoneCfg) (g : Seg) (rest : List BoneIn) (hw : g.waits (·.sinkValid)) (s : BoneCore)
    (hs : s.fsm = .recvLen) :
    boneObs c s (g.pre ++ g.fire :: rest)
      = boneObs c { s with length := g.fire.sinkData, fsm := .recvAddr } rest := by
  rw [obs_seg c (·.sinkValid) g rest s (by simp [hs]) (by intro i; simp [boneFires, hs]) hw]
  simp [boneCoreStep, hs, hw.2, boneBusEv, boneSrcEv, boneCoreOut]

/-- Registers after the last address byte: the command is dispatched. -/
def afterAddr (s : BoneCore) (addr : Nat) : BoneCore :=
  if s.cmd == 1 || s.cmd == 3 then { s with address := addr, abc := 0, incr := s.cmd == 1, fsm := .recvData }
  else if s.cmd == 2 || s.cmd == 4 then { s with address := addr, abc := 0, incr := s.cmd == 2, fsm := .readData }
  else { s with address := addr, abc := 0, fsm := .recvCmd }

/-- The remaining address bytes, `abc` of them already received. -/
theorem addr_phase (c : BoneCfg) (rest : List BoneIn) : ∀ (gs : List Seg) (s : BoneCore),
    s.fsm = .recvAddr → gs ≠ [] → s.abc + gs.length = c.nA → (∀ g ∈ gs, g.waits (·.sinkValid)) →
    boneObs c s (cyclesOf gs ++ rest)
      = boneObs c (afterAddr s (shiftBytes (2 ^ c.aw) s.address (bytesOf gs))) rest := by
  intro gs
  induction gs with
  | nil => intro s _ h; exact absurd rfl h
  | cons g gs ih =>
    intro s hs _ hlen hw
    have hg := hw g (by simp)
    simp only [cyclesOf, List.append_assoc, List.cons_append]
    rw [obs_seg c (·.sinkValid) g _ s (by simp [hs]) (by intro i; simp [boneFires, hs]) hg]
    cases gs with
    | nil =>
      have habc : s.abc = c.nA - 1 := by simp at hlen; omega
      have hwrap : (c.nA - 1 + 1) % c.nA = 0 := by
        have := nA_pos c
        rw [Nat.sub_add_cancel this, Nat.mod_self]
      simp only [boneCoreStep, hs, hg.2, abcDone, habc, hwrap, boneBusEv, boneSrcEv, boneCoreOut, cyclesOf,
        List.nil_append, bytesOf, List.map_cons, List.map_nil, shiftBytes, List.foldl_cons, List.foldl_nil, afterAddr]
      by_cases h13 : (s.cmd == 1 || s.cmd == 3) = true
      · simp [h13]
      · by_cases h24 : (s.cmd == 2 || s.cmd == 4) = true
        · simp [h13, h24]
        · simp [h13, h24]
    | cons g' gs' =>
      have hlen' : s.abc + (gs'.length + 2) = c.nA := by simpa [Nat.add_assoc] using hlen
      have habc : ¬ (s.abc = c.nA - 1) := by omega
      have hwrap : (s.abc + 1) % c.nA = s.abc + 1 := Nat.mod_eq_of_lt (by omega)
      simp only [boneCoreStep, hs, hg.2, abcDone, hwrap, boneBusEv, boneSrcEv, boneCoreOut]
      simp only [beq_iff_eq, habc, if_false]
      simp only [show (BoneFsm.recvAddr == BoneFsm.writeData) = false from rfl,
        show (BoneFsm.recvAddr == BoneFsm.readData) = false from rfl,
        show (BoneFsm.recvAddr == BoneFsm.sendData) = false from rfl, Bool.or_self, Bool.false_and,
        Bool.false_eq_true, if_false, Obs.pre_nil]
      rw [ih _ rfl (by simp) (by simp; omega) (fun x hx => hw x (by simp [hx]))]
      simp [afterAddr, bytesOf, shiftBytes]

/-- The bytes of one data word of a write burst. -/
theorem data_phase (c : BoneCfg) (rest : List BoneIn) : ∀ (gs : List Seg) (s : BoneCore),
    s.fsm = .recvData → gs ≠ [] → s.dbc + gs.length = c.nB → (∀ g ∈ gs, g.waits (·.sinkValid)) →
    boneObs c s (cyclesOf gs ++ rest)
      = boneObs c { s with data := shiftBytes (2 ^ c.dw) s.data (bytesOf gs), dbc := 0, fsm := .writeData } rest := by
  intro gs
  induction gs with
  | nil => intro s _ h; exact absurd rfl h
  | cons g gs ih =>
    intro s hs _ hlen hw
    have hg := hw g (by simp)
    simp only [cyclesOf, List.append_assoc, List.cons_append]
    rw [obs_seg c (·.sinkValid) g _ s (by simp [hs]) (by intro i; simp [boneFires, hs]) hg]
    cases gs with
    | nil =>
      have hdbc : s.dbc = c.nB - 1 := by simp at hlen; omega
      have hwrap : (c.nB - 1 + 1) % c.nB = 0 := by
        have := nB_pos c
        rw [Nat.sub_add_cancel this, Nat.mod_self]
      simp [boneCoreStep, hs, hg.2, dbcDone, hdbc, hwrap, boneBusEv, boneSrcEv, boneCoreOut, cyclesOf,
        bytesOf, shiftBytes]
    | cons g' gs' =>
      have hlen' : s.dbc + (gs'.length + 2) = c.nB := by simpa [Nat.add_assoc] using hlen
      have hdbc : ¬ (s.dbc = c.nB - 1) := by omega
      have hwrap : (s.dbc + 1) % c.nB = s.dbc + 1 := Nat.mod_eq_of_lt (by omega)
      simp only [boneCoreStep, hs, hg.2, dbcDone, hwrap, boneBusEv, boneSrcEv, boneCoreOut]
      simp only [beq_iff_eq, hdbc, if_false]
      simp only [show (BoneFsm.recvData == BoneFsm.writeData) = false from rfl,
        show (BoneFsm.recvData == BoneFsm.readData) = false from rfl,
        show (BoneFsm.recvData == BoneFsm.sendData) = false from rfl, Bool.or_self, Bool.false_and,
        Bool.false_eq_true, if_false, Obs.pre_nil]
      rw [ih _ rfl (by simp) (by simp; omega) (fun x hx => hw x (by simp [hx]))]
      simp [bytesOf, shiftBytes]

/-- The wishbone write of one word. -/
theorem write_phase (c : BoneCfg) (g : Seg) (rest : List BoneIn) (hw : g.waits (·.ack)) (s : BoneCore)
    (hs : s.fsm = .writeData) :
    boneObs c s (g.pre ++ g.fire :: rest)
      = Obs.pre [{ we := true, adr := s.address % 2 ^ c.adrW, datW := s.data, sel := 2 ^ c.nB - 1 }] []
          (boneObs c (wordDone c s .recvData) rest) := by
  rw [obs_seg c (·.ack) g rest s (by simp [hs]) (by intro i; simp [boneFires, hs]) hw]
  simp [boneCoreStep, hs, hw.2, boneBusEv, boneSrcEv, boneCoreOut]

/-- The wishbone read of one word. -/
theorem read_phase (c : BoneCfg) (g : Seg) (rest : List BoneIn) (hw : g.waits (·.ack)) (s : BoneCore)
    (hs : s.fsm = .readData) :
    boneObs c s (g.pre ++ g.fire :: rest)
      = Obs.pre [{ we := false, adr := s.address % 2 ^ c.adrW, datW := 0, sel := 2 ^ c.nB - 1 }] []
          (boneObs c { s with data := g.fire.datR, fsm := .sendData } rest) := by
  rw [obs_seg c (·.ack) g rest s (by simp [hs]) (by intro i; simp [boneFires, hs]) hw]
  simp [boneCoreStep, hs, hw.2, boneBusEv, boneSrcEv, boneCoreOut,
    show (BoneFsm.readData == BoneFsm.writeData) = false from rfl]

/-- Bytes `d, d+1, …` (`m` of them) of an `nB`-byte word, most significant first; `last` accompanies byte
    `nB - 1` when `wd` (the word is the final one of the burst). -/
def sendBytes (nB data : Nat) (wd : Bool) : Nat → Nat → List (Nat × Bool)
  | _, 0 => []
  | d, m + 1 => ((data / 256 ^ (nB - 1 - d)) % 256, (d == nB - 1) && wd) :: sendBytes nB data wd (d + 1) m

/-- The remaining bytes of one word of a read burst going out on the source. -/
theorem send_phase (c : BoneCfg) (rest : List BoneIn) : ∀ (gs : List Seg) (s : BoneCore),
    s.fsm = .sendData → gs ≠ [] → s.dbc + gs.length = c.nB → (∀ g ∈ gs, g.waits (·.sourceReady)) →
    boneObs c s (cyclesOf gs ++ rest)
      = Obs.pre [] (sendBytes c.nB s.data (wcDone s) s.dbc gs.length)
          (boneObs c (wordDone c { s with dbc := 0 } .readData) rest) := by
  intro gs
  induction gs with
  | nil => intro s _ h; exact absurd rfl h
  | cons g gs ih =>
    intro s hs _ hlen hw
    have hg := hw g (by simp)
    simp only [cyclesOf, List.append_assoc, List.cons_append]
    rw [obs_seg c (·.sourceReady) g _ s (by simp [hs]) (by intro i; simp [boneFires, hs]) hg]
    cases gs with
    | nil =>
      have hdbc : s.dbc = c.nB - 1 := by simp at hlen; omega
      have hwrap : (c.nB - 1 + 1) % c.nB = 0 := by
        have := nB_pos c
        rw [Nat.sub_add_cancel this, Nat.mod_self]
      simp [boneCoreStep, hs, hg.2, dbcDone, hdbc, hwrap, boneBusEv, boneSrcEv, boneCoreOut, cyclesOf,
        sendBytes, Obs.pre]
    | cons g' gs' =>
      have hlen' : s.dbc + (gs'.length + 2) = c.nB := by simpa [Nat.add_assoc] using hlen
      have hdbc : ¬ (s.dbc = c.nB - 1) := by omega
      have hwrap : (s.dbc + 1) % c.nB = s.dbc + 1 := Nat.mod_eq_of_lt (by omega)
      simp only [boneCoreStep, hs, hg.2, dbcDone, hwrap, boneBusEv, boneSrcEv, boneCoreOut]
      simp only [beq_iff_eq, hdbc, if_false]
      simp only [show (BoneFsm.sendData == BoneFsm.writeData) = false from rfl,
        show (BoneFsm.sendData == BoneFsm.readData) = false from rfl,
        show (BoneFsm.sendData == BoneFsm.sendData) = true from rfl, Bool.or_self, Bool.false_and,
        Bool.false_eq_true, if_false, Bool.true_and, if_true]
      rw [ih _ rfl (by simp) (by simp; omega) (fun x hx => hw x (by simp [hx]))]
      simp [sendBytes, Obs.pre, wcDone, wordDone]

/-! ### Bursts -/

theorem wordDone_last (c : BoneCfg) (s : BoneCore) (again : BoneFsm) (h : s.wc + 1 = s.length) :
    (wordDone c s again).fsm = .recvCmd := by simp [wordDone, wcDone, h]

theorem wordDone_more (c : BoneCfg) (s : BoneCore) (again : BoneFsm) (h : s.wc + 1 ≠ s.length) :
    wordDone c s again
      = { s with wc := (s.wc + 1) % 256, address := (s.address + b2n s.incr) % 2 ^ c.aw, fsm := again } := by
  simp [wordDone, wcDone, h]

/-- One word of a write burst: its bytes (with gaps), then the bus cycle (with its ack delay). -/
structure WrWord where
  bytes : List Seg
  bus   : Seg

def WrWord.ok (c : BoneCfg) (w : WrWord) : Prop :=
  w.bytes.length = c.nB ∧ SinkSegs w.bytes ∧ w.bus.waits (·.ack)

def wrCycles : List WrWord → List BoneIn
  | [] => []
  | w :: ws => cyclesOf w.bytes ++ (w.bus.pre ++ w.bus.fire :: wrCycles ws)

/-- The accesses a write burst owes the bus: word after word at `a`, `a + incr`, … (modulo `2^aw`, shown on the
    `adrW` address lines), `dat_w` the big-endian word, all byte lanes selected. -/
def wrLog (c : BoneCfg) (incr : Bool) : Nat → List (List Nat) → List BoneAccess
  | _, [] => []
  | a, w :: ws =>
    { we := true, adr := a % 2 ^ c.adrW, datW := beVal w, sel := 2 ^ c.nB - 1 }
      :: wrLog c incr ((a + b2n incr) % 2 ^ c.aw) ws

theorem sinkSegs_waits {gs : List Seg} (h : SinkSegs gs) : ∀ g ∈ gs, g.waits (·.sinkValid) :=
  fun g hg => (h g hg).1

theorem sinkSegs_bytes {gs : List Seg} (h : SinkSegs gs) : ∀ b ∈ bytesOf gs, b < 256 := by
  intro b hb
  simp only [bytesOf, List.mem_map] at hb
  obtain ⟨g, hg, rfl⟩ := hb
  exact (h g hg).2

theorem write_words (c : BoneCfg) : ∀ (ws : List WrWord) (s : BoneCore),
    s.fsm = .recvData → s.dbc = 0 → ws ≠ [] → s.wc + ws.length = s.length → s.length ≤ 255 →
    (∀ w ∈ ws, w.ok c) →
    ∃ f, boneObs c s (wrCycles ws) = (f, wrLog c s.incr s.address (ws.map (bytesOf ·.bytes)), []) ∧
         f.fsm = .recvCmd := by
  intro ws
  induction ws with
  | nil => intro s _ _ h; exact absurd rfl h
  | cons w ws ih =>
    intro s hs hd _ hlen hL hok
    obtain ⟨hwl, hws, hwb⟩ := hok w (by simp)
    have hne : w.bytes ≠ [] := by
      intro h0; have := nB_pos c; simp [h0] at hwl; omega
    have hfull : shiftBytes (2 ^ c.dw) s.data (bytesOf w.bytes) = beVal (bytesOf w.bytes) :=
      shiftBytes_full c.nB s.data _ (by simp [bytesOf, hwl]) (nB_pos c) (sinkSegs_bytes hws)
    simp only [wrCycles]
    rw [data_phase c _ w.bytes s hs hne (by rw [hd, hwl]; simp) (sinkSegs_waits hws), hfull,
        write_phase c w.bus _ hwb _ rfl]
    cases ws with
    | nil =>
      refine ⟨wordDone c { s with data := beVal (bytesOf w.bytes), dbc := 0, fsm := .writeData } .recvData, ?_,
        wordDone_last c _ _ (by simpa using hlen)⟩
      simp [wrCycles, wrLog, Obs.pre]
    | cons w' ws' =>
      have hlen' : s.wc + (ws'.length + 2) = s.length := by simpa [Nat.add_assoc] using hlen
      rw [wordDone_more c _ _ (by simp; omega)]
      have hwc : (s.wc + 1) % 256 = s.wc + 1 := Nat.mod_eq_of_lt (by omega)
      obtain ⟨f, hf, hff⟩ := ih { s with data := beVal (bytesOf w.bytes), dbc := 0, fsm := .recvData,
                                         wc := (s.wc + 1) % 256,
                                         address := (s.address + b2n s.incr) % 2 ^ c.aw }
        rfl rfl (by simp) (by simp [hwc]; omega) hL (fun x hx => hok x (by simp [hx]))
      refine ⟨f, ?_, hff⟩
      simp only [] at hf
      rw [hf]
      simp [wrLog, Obs.pre]

/-- One word of a read burst: the bus cycle (with its ack delay, `fire.datR` is the word read), then the bytes
    going out (with source stalls). -/
structure RdWord where
  bus   : Seg
  bytes : List Seg

def RdWord.ok (c : BoneCfg) (w : RdWord) : Prop :=
  w.bus.waits (·.ack) ∧ w.bytes.length = c.nB ∧ ∀ g ∈ w.bytes, g.waits (·.sourceReady)

def rdCycles : List RdWord → List BoneIn
  | [] => []
  | w :: ws => w.bus.pre ++ w.bus.fire :: (cyclesOf w.bytes ++ rdCycles ws)

/-- The accesses a read burst of `k` words owes the bus. -/
def rdLog (c : BoneCfg) (incr : Bool) : Nat → Nat → List BoneAccess
  | _, 0 => []
  | a, k + 1 =>
    { we := false, adr := a % 2 ^ c.adrW, datW := 0, sel := 2 ^ c.nB - 1 }
      :: rdLog c incr ((a + b2n incr) % 2 ^ c.aw) k

/-- The bytes a read burst owes the host: every word most significant byte first, `last` on the final byte of
    the final word only. -/
def rdSrc (nB : Nat) : List Nat → List (Nat × Bool)
  | [] => []
  | d :: ds => sendBytes nB d ds.isEmpty 0 nB ++ rdSrc nB ds

theorem read_words (c : BoneCfg) : ∀ (ws : List RdWord) (s : BoneCore),
    s.fsm = .readData → s.dbc = 0 → ws ≠ [] → s.wc + ws.length = s.length → s.length ≤ 255 →
    (∀ w ∈ ws, w.ok c) →
    ∃ f, boneObs c s (rdCycles ws)
           = (f, rdLog c s.incr s.address ws.length, rdSrc c.nB (ws.map (·.bus.fire.datR))) ∧
         f.fsm = .recvCmd := by
  intro ws
  induction ws with
  | nil => intro s _ _ h; exact absurd rfl h
  | cons w ws ih =>
    intro s hs hd _ hlen hL hok
    obtain ⟨hwb, hwl, hws⟩ := hok w (by simp)
    have hne : w.bytes ≠ [] := by
      intro h0; have := nB_pos c; simp [h0] at hwl; omega
    simp only [rdCycles]
    rw [read_phase c w.bus _ hwb s hs, send_phase c _ w.bytes _ rfl hne (by simp [hd, hwl]) hws]
    cases ws with
    | nil =>
      refine ⟨wordDone c { s with data := w.bus.fire.datR, fsm := .sendData, dbc := 0 } .readData, ?_,
        wordDone_last c _ _ (by simpa using hlen)⟩
      have : s.wc + 1 = s.length := by simpa using hlen
      simp [rdCycles, rdLog, rdSrc, Obs.pre, hd, hwl, wcDone, this]
    | cons w' ws' =>
      have hlen' : s.wc + (ws'.length + 2) = s.length := by simpa [Nat.add_assoc] using hlen
      have hnd : s.wc + 1 ≠ s.length := by omega
      rw [wordDone_more c _ _ (by simpa using hnd)]
      have hwc : (s.wc + 1) % 256 = s.wc + 1 := Nat.mod_eq_of_lt (by omega)
      obtain ⟨f, hf, hff⟩ := ih { s with data := w.bus.fire.datR, dbc := 0, fsm := .readData,
                                         wc := (s.wc + 1) % 256,
                                         address := (s.address + b2n s.incr) % 2 ^ c.aw }
        rfl rfl (by simp) (by simp [hwc]; omega) hL (fun x hx => hok x (by simp [hx]))
      refine ⟨f, ?_, hff⟩
      simp only [] at hf
      rw [hf]
      have hb : (s.wc + 1 == s.length) = false := by simp [hnd]
      simp [rdLog, rdSrc, Obs.pre, hd, hwl, wcDone, hb]

theorem wrLog_length (c : BoneCfg) (incr : Bool) : ∀ (ws : List (List Nat)) (a : Nat),
    (wrLog c incr a ws).length = ws.length := by
  intro ws; induction ws with
  | nil => intro a; rfl
  | cons w ws ih => intro a; simp [wrLog, ih]

/-- Access `j` of a write burst: address `base + j` (incrementing) or `base` (fixed) modulo `2^aw`, on the
    `adrW` address lines; data = big-endian value of the bytes of word `j`. -/
theorem wrLog_get (c : BoneCfg) (incr : Bool) : ∀ (ws : List (List Nat)) (a j : Nat) (h : j < ws.length),
    (wrLog c incr (a % 2 ^ c.aw) ws)[j]? =
      some { we := true, adr := ((a + j * b2n incr) % 2 ^ c.aw) % 2 ^ c.adrW, datW := beVal ws[j],
             sel := 2 ^ c.nB - 1 } := by
  intro ws
  induction ws with
  | nil => intro a j h; simp at h
  | cons w ws ih =>
    intro a j h
    cases j with
    | zero => simp [wrLog]
    | succ j =>
      simp only [wrLog, List.getElem?_cons_succ, List.getElem_cons_succ]
      rw [Nat.mod_add_mod, ih (a + b2n incr) j (by simpa using h)]
      have : a + b2n incr + j * b2n incr = a + (j + 1) * b2n incr := by rw [Nat.succ_mul]; omega
      rw [this]

theorem rdLog_length (c : BoneCfg) (incr : Bool) : ∀ (k a : Nat), (rdLog c incr a k).length = k := by
  intro k; induction k with
  | zero => intro a; rfl
  | succ k ih => intro a; simp [rdLog, ih]

theorem rdLog_get (c : BoneCfg) (incr : Bool) : ∀ (k a j : Nat) (h : j < k),
    (rdLog c incr (a % 2 ^ c.aw) k)[j]? =
      some { we := false, adr := ((a + j * b2n incr) % 2 ^ c.aw) % 2 ^ c.adrW, datW := 0, sel := 2 ^ c.nB - 1 } := by
  intro k
  induction k with
  | zero => intro a j h; omega
  | succ k ih =>
    intro a j h
    cases j with
    | zero => simp [rdLog]
    | succ j =>
      simp only [rdLog, List.getElem?_cons_succ]
      rw [Nat.mod_add_mod, ih (a + b2n incr) j (by omega)]
      have : a + b2n incr + j * b2n incr = a + (j + 1) * b2n incr := by rw [Nat.succ_mul]; omega
      rw [this]

/-- Closed form of the bytes of one word going out. -/
theorem sendBytes_eq (nB data : Nat) (wd : Bool) : ∀ (m d : Nat),
    sendBytes nB data wd d m
      = (List.range m).map fun k => ((data / 256 ^ (nB - 1 - (d + k))) % 256, (d + k == nB - 1) && wd) := by
  intro m
  induction m with
  | zero => intro d; rfl
  | succ m ih =>
    intro d
    rw [sendBytes, ih (d + 1), List.range_succ_eq_map]
    simp [Nat.add_assoc, Nat.add_comm 1]

/-! ### Whole commands, from RECEIVE-CMD -/

/-- The cycles of a command header: command byte, length byte, address bytes (each with its gap), then `rest`. -/
def headCycles (gc gl : Seg) (gas : List Seg) (rest : List BoneIn) : List BoneIn :=
  gc.pre ++ gc.fire :: (gl.pre ++ gl.fire :: (cyclesOf gas ++ rest))

/-- After the header the command is dispatched with the big-endian address and the counters cleared. -/
theorem head_phase (c : BoneCfg) (s : BoneCore) (hs : s.fsm = .recvCmd) (gc gl : Seg) (gas : List Seg)
    (rest : List BoneIn) (hc : gc.waits (·.sinkValid)) (hl : gl.waits (·.sinkValid)) (ha : SinkSegs gas)
    (hal : gas.length = c.nA) :
    boneObs c s (headCycles gc gl gas rest)
      = boneObs c (afterAddr { s with dbc := 0, abc := 0, wc := 0, cmd := gc.fire.sinkData,
                                      length := gl.fire.sinkData, fsm := .recvAddr } (beVal (bytesOf gas))) rest := by
  have hne : gas ≠ [] := by
    intro h0; have := nA_pos c; simp [h0] at hal; omega
  unfold headCycles
  rw [cmd_phase c gc _ hc s hs, len_phase c gl _ hl _ rfl,
      addr_phase c rest gas _ rfl hne (by simp [hal]) (sinkSegs_waits ha)]
  have hfull : ∀ d, shiftBytes (2 ^ c.aw) d (bytesOf gas) = beVal (bytesOf gas) := fun d =>
    shiftBytes_full c.nA d _ (by simp [bytesOf, hal]) (nA_pos c) (sinkSegs_bytes ha)
  simp only [hfull]

theorem write_command (c : BoneCfg) (s : BoneCore) (hs : s.fsm = .recvCmd) (gc gl : Seg) (gas : List Seg)
    (ws : List WrWord) (hc : gc.waits (·.sinkValid)) (hcmd : gc.fire.sinkData = 1 ∨ gc.fire.sinkData = 3)
    (hl : gl.waits (·.sinkValid)) (hL1 : ws ≠ []) (hL : ws.length = gl.fire.sinkData) (hL2 : gl.fire.sinkData ≤ 255)
    (ha : SinkSegs gas) (hal : gas.length = c.nA) (hok : ∀ w ∈ ws, w.ok c) :
    ∃ f, boneObs c s (headCycles gc gl gas (wrCycles ws))
           = (f, wrLog c (gc.fire.sinkData == 1) (beVal (bytesOf gas)) (ws.map (bytesOf ·.bytes)), []) ∧
         f.fsm = .recvCmd := by
  rw [head_phase c s hs gc gl gas _ hc hl ha hal]
  rcases hcmd with h | h
  · simp only [afterAddr, h]
    exact write_words c ws _ rfl rfl hL1 (by simp [hL]) (by simpa using hL2) hok
  · simp only [afterAddr, h]
    exact write_words c ws _ rfl rfl hL1 (by simp [hL]) (by simpa using hL2) hok

theorem read_command (c : BoneCfg) (s : BoneCore) (hs : s.fsm = .recvCmd) (gc gl : Seg) (gas : List Seg)
    (ws : List RdWord) (hc : gc.waits (·.sinkValid)) (hcmd : gc.fire.sinkData = 2 ∨ gc.fire.sinkData = 4)
    (hl : gl.waits (·.sinkValid)) (hL1 : ws ≠ []) (hL : ws.length = gl.fire.sinkData) (hL2 : gl.fire.sinkData ≤ 255)
    (ha : SinkSegs gas) (hal : gas.length = c.nA) (hok : ∀ w ∈ ws, w.ok c) :
    ∃ f, boneObs c s (headCycles gc gl gas (rdCycles ws))
           = (f, rdLog c (gc.fire.sinkData == 2) (beVal (bytesOf gas)) ws.length,
                 rdSrc c.nB (ws.map (·.bus.fire.datR))) ∧
         f.fsm = .recvCmd := by
  rw [head_phase c s hs gc gl gas _ hc hl ha hal]
  rcases hcmd with h | h
  · simp only [afterAddr, h]
    exact read_words c ws _ rfl rfl hL1 (by simp [hL]) (by simpa using hL2) hok
  · simp only [afterAddr, h]
    exact read_words c ws _ rfl rfl hL1 (by simp [hL]) (by simpa using hL2) hok

theorem bad_command (c : BoneCfg) (s : BoneCore) (hs : s.fsm = .recvCmd) (gc gl : Seg) (gas : List Seg)
    (hc : gc.waits (·.sinkValid))
    (hcmd : gc.fire.sinkData ≠ 1 ∧ gc.fire.sinkData ≠ 2 ∧ gc.fire.sinkData ≠ 3 ∧ gc.fire.sinkData ≠ 4)
    (hl : gl.waits (·.sinkValid)) (ha : SinkSegs gas) (hal : gas.length = c.nA) :
    ∃ f, boneObs c s (headCycles gc gl gas []) = (f, [], []) ∧ f.fsm = .recvCmd := by
  rw [head_phase c s hs gc gl gas _ hc hl ha hal]
  obtain ⟨h1, h2, h3, h4⟩ := hcmd
  simp [afterAddr, h1, h2, h3, h4]

/-- In RECEIVE-CMD the bridge accepts a byte and leaves bus and source alone. -/
theorem out_recvCmd (c : BoneCfg) (s : BoneCore) (h : s.fsm = .recvCmd) :
    (boneCoreOut c s).sinkReady = true ∧ (boneCoreOut c s).cyc = false ∧ (boneCoreOut c s).stb = false ∧
    (boneCoreOut c s).sourceValid = false := by
  simp [boneCoreOut, h]

/-! ### The timeout -/

theorem timer_next_bounds (t count : Nat) (w : Bool) (h : count ≤ t) :
    count - 1 ≤ WaitTimer.next t count w ∧ WaitTimer.next t count w ≤ t := by
  unfold WaitTimer.next WaitTimer.done
  split
  · split <;> omega
  · omega

/-- As long as the timer has not run out the complete machine is the FSM without reset: for every input sequence
    no longer than the current count. -/
theorem no_timeout (c : BoneCfg) : ∀ (ins : List BoneIn) (s : BoneSt), ins.length ≤ s.timer → s.timer ≤ c.t →
    ((bone c).runFrom s ins).core = boneCoreRun c s.core ins := by
  intro ins
  induction ins with
  | nil => intro s _ _; rfl
  | cons i is ih =>
    intro s hlen ht
    have hpos : 0 < s.timer := by simp at hlen; omega
    have hb := timer_next_bounds c.t s.timer (s.core.fsm != .recvCmd) ht
    have hdone : WaitTimer.done s.timer = false := by simp [WaitTimer.done]; omega
    simp only [Machine.runFrom, boneCoreRun]
    have hnext : (bone c).next s i
        = ⟨boneCoreStep c s.core i, WaitTimer.next c.t s.timer (s.core.fsm != .recvCmd)⟩ := by
      simp [bone, boneNext, boneCoreNext, hdone]
    rw [hnext, ih _ (by simp at hlen ⊢; omega) hb.2]

/-- The timer is reloaded in RECEIVE-CMD. -/
theorem timer_reload (c : BoneCfg) (s : BoneSt) (i : BoneIn) (h : s.core.fsm = .recvCmd) :
    (boneNext c s i).timer = c.t := by
  simp [boneNext, WaitTimer.next, h]

theorem timer_le (c : BoneCfg) (s : BoneSt) (i : BoneIn) (h : s.timer ≤ c.t) : (boneNext c s i).timer ≤ c.t :=
  (timer_next_bounds c.t s.timer _ h).2

/-- Never stuck: from any state, under any inputs, the FSM is in RECEIVE-CMD at least once within
    `timer + 1` cycles (`timer ≤ t` in every reachable state, so within `t + 1` cycles). -/
theorem never_stuck (c : BoneCfg) : ∀ (n : Nat) (s : BoneSt) (ins : List BoneIn), s.timer = n → n + 1 ≤ ins.length →
    ∃ k, k ≤ n + 1 ∧ ((bone c).runFrom s (ins.take k)).core.fsm = .recvCmd := by
  intro n
  induction n with
  | zero =>
    intro s ins ht hlen
    by_cases h : s.core.fsm = .recvCmd
    · exact ⟨0, by omega, by simpa [Machine.runFrom] using h⟩
    · cases ins with
      | nil => simp at hlen
      | cons i is =>
        refine ⟨1, by omega, ?_⟩
        simp [Machine.runFrom, bone, boneNext, boneCoreNext, WaitTimer.done, ht, boneReset]
  | succ n ih =>
    intro s ins ht hlen
    by_cases h : s.core.fsm = .recvCmd
    · exact ⟨0, by omega, by simpa [Machine.runFrom] using h⟩
    · cases ins with
      | nil => simp at hlen
      | cons i is =>
        have ht' : ((bone c).next s i).timer = n := by
          simp [bone, boneNext, WaitTimer.next, WaitTimer.done, ht, h]
        obtain ⟨k, hk, hfs⟩ := ih ((bone c).next s i) is ht' (by simp at hlen; omega)
        exact ⟨k + 1, by omega, by simpa [Machine.runFrom] using hfs⟩

end Litex.Periph
