import LitexProofs.Periph.Uart
/-
  Receiver lemmas for C19: sample-point invariant of `RS232PHYRX`.  Core Lean only.
-/
namespace Litex.Periph
open Litex

/-! ### `Cat(phase, tick).eq(x)` for `x < 2^33` -/

theorem acc_ofNat_phase_lt (x : Nat) : (Acc.ofNat x).phase < M32 := Nat.mod_lt _ (by unfold M32; omega)

theorem acc_ofNat_lin (x : Nat) (hx : x < 2 * M32) :
    (Acc.ofNat x).phase + M32 * (if (Acc.ofNat x).tick then 1 else 0) = x := by
  simp only [Acc.ofNat]
  unfold M32 at *
  have h : x / 4294967296 = 0 ∨ x / 4294967296 = 1 := by omega
  rcases h with h | h <;> simp [h] <;> omega

theorem acc_ofNat_tick (x : Nat) (hx : x < 2 * M32) : (Acc.ofNat x).tick = true ↔ M32 ≤ x := by
  simp only [Acc.ofNat, beq_iff_eq]
  unfold M32 at *
  omega

/-! ### Receiver -/

/-- Cycle (counted from the first RUN cycle) in which sample `n` (`n = 1` start bit, `2 … 9` data, `10` stop bit) is
    taken: `⌈(n - ½)·2^32 / tw⌉`. -/
def rxSampleCycle (tw n : Nat) : Nat := ((2 * n - 1) * HALF32 + tw - 1) / tw

/-- Shift register after the first `n` samples of the line `ln` (`ln k` = synchronised line in RUN cycle `k`). -/
def rxData (ln : Nat → Bool) (tw init : Nat) : Nat → Nat
  | 0 => init
  | n + 1 => rxData ln tw init n / 2 + (if ln (rxSampleCycle tw (n + 1)) then 128 else 0)

theorem rxNext_tick (tw : Nat) (s : RxSt) (p : Bool) (hr : s.run = true) (ht : s.acc.tick = true) :
    rxNext tw s p = { r0 := p, rx := s.r0, rxD := s.rx, run := !(s.count == 9),
                      data := s.data / 2 + (if s.rx then 128 else 0), count := (s.count + 1) % 16,
                      acc := Acc.ofNat (s.acc.phase + tw) } := by
  simp [rxNext, hr, ht, accNext]

theorem rxNext_notick (tw : Nat) (s : RxSt) (p : Bool) (hr : s.run = true) (ht : s.acc.tick = false) :
    rxNext tw s p = { r0 := p, rx := s.r0, rxD := s.rx, run := true, data := s.data, count := s.count,
                      acc := Acc.ofNat (s.acc.phase + tw) } := by
  simp [rxNext, hr, ht, accNext]

/-- Invariant of the receiver `r` cycles into RUN. -/
structure RxInv (tw : Nat) (ln : Nat → Bool) (init r : Nat) (s : RxSt) : Prop where
  run  : s.run = true
  rx   : s.rx = ln r
  r0   : s.r0 = ln (r + 1)
  ph   : s.acc.phase < M32
  lin  : s.acc.phase + M32 * (s.count + (if s.acc.tick then 1 else 0)) = HALF32 + r * tw
  tk   : s.acc.tick = true → s.acc.phase < tw
  cnt  : s.count ≤ 9
  data : s.data = rxData ln tw init s.count

/-- In RUN the receiver finishes exactly when ten bit periods (minus the half-bit offset) have elapsed. -/
theorem rx_done_iff (tw : Nat) (ln : Nat → Bool) (init r : Nat) (s : RxSt) (h : RxInv tw ln init r s) :
    rxDone s = true ↔ 10 * M32 ≤ HALF32 + r * tw := by
  have hl := h.lin; have hp := h.ph; have hc := h.cnt
  simp only [rxDone, h.run, Bool.true_and, Bool.and_eq_true, beq_iff_eq]
  generalize r * tw = a at *
  unfold M32 HALF32 at *
  constructor
  · rintro ⟨ht, hc9⟩
    simp only [ht, hc9, if_true] at hl
    omega
  · intro hge
    by_cases ht : s.acc.tick = true
    · simp only [ht, if_true] at hl
      exact ⟨ht, by omega⟩
    · have htf : s.acc.tick = false := by simpa using ht
      simp only [htf] at hl
      simp at hl
      omega

/-- The sample taken at a tick is sample `count + 1`, and it is taken at its nominal sample cycle. -/
theorem rx_tick_cycle (tw : Nat) (ln : Nat → Bool) (init r : Nat) (s : RxSt) (h : RxInv tw ln init r s)
    (ht : s.acc.tick = true) : r = rxSampleCycle tw (s.count + 1) := by
  have hl := h.lin; have hp := h.tk ht
  simp only [ht, if_true] at hl
  unfold rxSampleCycle
  symm
  have e : (r + 1) * tw = r * tw + tw := Nat.succ_mul r tw
  apply Nat.div_eq_of_lt_le
  · generalize r * tw = a at *
    unfold M32 HALF32 at *
    omega
  · rw [e]
    generalize r * tw = a at *
    unfold M32 HALF32 at *
    omega

/-- One RUN cycle that does not finish the frame preserves the invariant. -/
theorem rx_step (tw : Nat) (htw : tw < M32) (ln : Nat → Bool) (init r : Nat) (s : RxSt)
    (h : RxInv tw ln init r s) (hnd : rxDone s = false) :
    RxInv tw ln init (r + 1) (rxNext tw s (ln (r + 2))) := by
  have hl := h.lin; have hp := h.ph; have hc := h.cnt
  have e1 : (r + 1) * tw = r * tw + tw := Nat.succ_mul r tw
  have hx : s.acc.phase + tw < 2 * M32 := by unfold M32 at *; omega
  have hlin := acc_ofNat_lin _ hx
  have htick := acc_ofNat_tick _ hx
  by_cases ht : s.acc.tick = true
  · have hr := rx_tick_cycle tw ln init r s h ht
    have h9 : s.count ≠ 9 := by
      intro h9; simp [rxDone, h.run, ht, h9] at hnd
    have hb : (s.count == 9) = false := by simp [h9]
    have hcm : (s.count + 1) % 16 = s.count + 1 := by omega
    simp only [ht, if_true] at hl
    rw [rxNext_tick tw s _ h.run ht]
    refine ⟨by simp [hb], h.r0, rfl, acc_ofNat_phase_lt _, ?_, ?_, ?_, ?_⟩
    · show (Acc.ofNat (s.acc.phase + tw)).phase + M32 * ((s.count + 1) % 16 + _) = _
      rw [hcm, e1, Nat.mul_add, ← Nat.add_assoc, Nat.add_right_comm, hlin]
      generalize r * tw = a at *
      omega
    · intro hc0
      have hc1 : (Acc.ofNat (s.acc.phase + tw)).tick = true := hc0
      have := htick.mp hc1
      show (Acc.ofNat (s.acc.phase + tw)).phase < tw
      simp only [hc1, if_true] at hlin
      unfold M32 at *
      omega
    · show (s.count + 1) % 16 ≤ 9
      omega
    · show s.data / 2 + _ = rxData ln tw init ((s.count + 1) % 16)
      rw [hcm, rxData, ← hr, h.data, h.rx]
  · have htf : s.acc.tick = false := by simpa using ht
    simp only [htf] at hl
    rw [rxNext_notick tw s _ h.run htf]
    refine ⟨rfl, h.r0, rfl, acc_ofNat_phase_lt _, ?_, ?_, hc, h.data⟩
    · show (Acc.ofNat (s.acc.phase + tw)).phase + M32 * (s.count + _) = _
      rw [e1, Nat.mul_add, ← Nat.add_assoc, Nat.add_right_comm, hlin]
      generalize r * tw = a at *
      simp at hl
      omega
    · intro hc0
      have hc1 : (Acc.ofNat (s.acc.phase + tw)).tick = true := hc0
      have := htick.mp hc1
      show (Acc.ofNat (s.acc.phase + tw)).phase < tw
      simp only [hc1, if_true] at hlin
      unfold M32 at *
      omega

/-- The whole RUN phase of the receiver: the invariant holds in every cycle up to and including the one in which
    the tenth sample is taken. -/
theorem rx_run (tw : Nat) (htw : tw < M32) (ln : Nat → Bool) (init : Nat) (s0 : RxSt)
    (h0 : RxInv tw ln init 0 s0) (r : Nat) (hr : HALF32 + r * tw < 10 * M32 + tw) :
    RxInv tw ln init r (runFn (uartRx tw) s0 (fun k => ln (k + 2)) r) := by
  induction r with
  | zero => exact h0
  | succ r ih =>
    have e1 : (r + 1) * tw = r * tw + tw := Nat.succ_mul r tw
    have hlt : HALF32 + r * tw < 10 * M32 := by omega
    have hinv := ih (by omega)
    have hnd : rxDone (runFn (uartRx tw) s0 (fun k => ln (k + 2)) r) = false := by
      cases hd : rxDone (runFn (uartRx tw) s0 (fun k => ln (k + 2)) r) with
      | false => rfl
      | true => have := (rx_done_iff tw ln init r _ hinv).mp hd; omega
    exact rx_step tw htw ln init r _ hinv hnd

theorem rxData_lt (ln : Nat → Bool) (tw init : Nat) (hi : init < 256) (n : Nat) : rxData ln tw init n < 256 := by
  induction n with
  | zero => exact hi
  | succ n ih => simp only [rxData]; split <;> omega

theorem shift_testBit_table : ∀ x, x < 256 → ∀ b : Bool, ∀ k, k < 8 →
    (x / 2 + (if b then 128 else 0)).testBit k = (if k = 7 then b else x.testBit (k + 1)) := by decide +kernel

/-- The shift register holds the last eight samples, oldest in bit 0. -/
theorem rxData_testBit (ln : Nat → Bool) (tw init : Nat) (hi : init < 256) (n k : Nat) (hk : k < 8)
    (hn : 8 ≤ n + k) : (rxData ln tw init n).testBit k = ln (rxSampleCycle tw (n + k - 7)) := by
  induction n generalizing k with
  | zero => omega
  | succ n ih =>
    simp only [rxData]
    rw [shift_testBit_table _ (rxData_lt ln tw init hi n) _ k hk]
    by_cases h7 : k = 7
    · subst h7; simp
    · simp only [h7, if_false]
      rw [ih (k + 1) (by omega) (by omega)]
      congr 2; omega

/-- Start-edge detection: from IDLE with `rx = 0`, `rx_d = 1` the receiver enters RUN with the accumulator at 2^31. -/
theorem rx_entry (tw : Nat) (s : RxSt) (p : Bool) (hrun : s.run = false) (hrx : s.rx = false) (hd : s.rxD = true) :
    (rxNext tw s p).run = true ∧ (rxNext tw s p).count = 0 ∧ (rxNext tw s p).acc = ⟨HALF32, false⟩ ∧
    (rxNext tw s p).rx = s.r0 ∧ (rxNext tw s p).r0 = p ∧ (rxNext tw s p).data = s.data := by
  simp [rxNext, hrun, hrx, hd, accNext, accLoad, Acc.ofNat, HALF32, M32]

/-- The entry state satisfies the RUN invariant at `r = 0`. -/
theorem rx_inv_entry (tw : Nat) (ln : Nat → Bool) (s0 : RxSt) (hrun : s0.run = true) (hc : s0.count = 0)
    (hacc : s0.acc = ⟨HALF32, false⟩) (hrx : s0.rx = ln 0) (hr0 : s0.r0 = ln 1) :
    RxInv tw ln s0.data 0 s0 :=
  ⟨hrun, hrx, hr0, by rw [hacc]; show HALF32 < M32; unfold HALF32 M32; omega, by rw [hacc, hc]; simp, by rw [hacc]; simp,
   by omega, by rw [hc]; rfl⟩

/-- The cycle of the tenth sample is the first one in which ten bit periods minus the half-bit offset have elapsed. -/
theorem rx_last_cycle (tw : Nat) (h0 : 0 < tw) :
    10 * M32 ≤ HALF32 + rxSampleCycle tw 10 * tw ∧ HALF32 + rxSampleCycle tw 10 * tw < 10 * M32 + tw := by
  unfold rxSampleCycle
  have hdm := Nat.div_add_mod ((2 * 10 - 1) * HALF32 + tw - 1) tw
  have hml := Nat.mod_lt ((2 * 10 - 1) * HALF32 + tw - 1) h0
  rw [Nat.mul_comm _ tw]
  generalize tw * (((2 * 10 - 1) * HALF32 + tw - 1) / tw) = q at *
  unfold M32 HALF32 at *
  omega

end Litex.Periph
