import LitexModel.Periph.Uart
/-
  Reachable-state invariant of `RS232PHYTX`: the line is high whenever the transmitter is in IDLE.  Core Lean only.
-/
namespace Litex.Periph
open Litex

/-- Lower bound of the shift register after `n` shifts (the top `n` bits are the shifted-in stop bits). -/
def txOnes : Nat → Nat
  | 0 => 0 | 1 => 128 | 2 => 192 | 3 => 224 | 4 => 240 | 5 => 248 | 6 => 252 | 7 => 254 | _ => 255

structure TxInv (s : TxSt) : Prop where
  idle : s.run = false → s.tx = true
  cnt  : s.run = true → s.count ≤ 9
  lt   : s.run = true → s.data < 256
  ones : s.run = true → txOnes s.count ≤ s.data

theorem txOnes_step (c d : Nat) (hc : c ≤ 9) (h : txOnes c ≤ d) : txOnes (c + 1) ≤ d / 2 + 128 := by
  match c, hc with
  | 0, _ | 1, _ | 2, _ | 3, _ | 4, _ | 5, _ | 6, _ | 7, _ | 8, _ | 9, _ => simp only [txOnes] at *; omega

theorem tx_inv_step (tw : Nat) (s : TxSt) (i : TxIn) (h : TxInv s) : TxInv (txNext tw s i) := by
  by_cases hr : s.run = true
  · have hc := h.cnt hr; have hl := h.lt hr; have ho := h.ones hr
    by_cases ht : s.acc.tick = true
    · by_cases h9 : s.count = 9
      · have hd : s.data = 255 := by rw [h9] at ho; simp only [txOnes] at ho; omega
        refine ⟨?_, ?_, ?_, ?_⟩ <;> simp [txNext, hr, ht, h9, hd]
      · have hb : (s.count == 9) = false := by simp [h9]
        have hm : (s.count + 1) % 16 = s.count + 1 := by omega
        refine ⟨?_, ?_, ?_, ?_⟩
        · simp [txNext, hr, ht, hb]
        · intro _; simp only [txNext, hr, ht, if_true, hm]; omega
        · intro _; simp only [txNext, hr, ht, if_true]; omega
        · intro _; simp only [txNext, hr, ht, if_true, hm]; exact txOnes_step _ _ hc ho
    · have htf : s.acc.tick = false := by simpa using ht
      refine ⟨?_, ?_, ?_, ?_⟩ <;> simp [txNext, hr, htf] <;> assumption
  · have hrf : s.run = false := by simpa using hr
    refine ⟨?_, ?_, ?_, ?_⟩
    · simp only [txNext, hrf, Bool.false_eq_true, if_false]
      intro hv; simp [hv]
    · intro _; simp [txNext, hrf]
    · intro hv
      simp only [txNext, hrf, Bool.false_eq_true, if_false] at hv ⊢
      simp only [hv, if_true]
      exact Nat.mod_lt _ (by omega)
    · intro _; simp [txNext, hrf, txOnes]

/-- In every reachable state: IDLE ⇒ line high (the line is low only inside a frame). -/
theorem tx_idle_high (tw : Nat) (ins : List TxIn) :
    ((uartTx tw).run ins).run = false → ((uartTx tw).run ins).tx = true :=
  (Machine.invariant_runFrom (uartTx tw) TxInv (fun s i h => tx_inv_step tw s i h) ins _
    ⟨by simp [uartTx], by simp [uartTx], by simp [uartTx], by simp [uartTx]⟩).idle

end Litex.Periph
