import LitexProofs.Periph.Tolerance
import LitexProofs.Periph.Loopback
/-
  Receiver timing tolerance with the mismatch as a parameter, and the exact alignment condition of the loopback.

  * `rx_tolerance_arith_general`: transmitter bit period `P/Q` cycles within ±`m` per mille of the receiver's
    `2^32/tw`, any sub-cycle phase `ε/Q`.  Sample `b + 1` is taken in RUN cycle `c` with
    `(2b+1)·2^31 ≤ c·tw < (2b+1)·2^31 + tw`; the line shows bit `⌊((c+1)·Q + ε)/P⌋`.  Three cycles are lost (one
    for the registered line, up to one for the ceiling of the sample cycle, up to one for the phase `ε/Q`), the
    rate mismatch accumulates over at most ten bit periods, and half a bit period is available:
        3 + 10·(m/1000)·R ≤ R/2      with R = 2^32/tw cycles per bit,
    i.e. `6000·tw + 20·m·2^32 ≤ 1000·2^32`.  (`m = 0`: `R ≥ 6`; `m = 20`: `R ≥ 10`; `m = 40`: `R ≥ 30`; `m ≥ 50`:
    impossible.)
  * `loopbackAligned tw`: the decidable, exact condition under which, with TX wired to RX and equal tuning words,
    sample point `b + 1` sees bit `b` (`b = 0 … 9`).
  Core Lean only.
-/
namespace Litex.Periph
open Litex

/-- Receiver sample point `b + 1` falls inside the transmitter's bit `b`; mismatch `m` per mille, stated bound
    `6000·tw + 20·m·2^32 ≤ 1000·2^32`.  The mismatch hypotheses are written without subtraction:
    `(1000 − m)·2^32·Q ≤ 1000·P·tw ≤ (1000 + m)·2^32·Q`. -/
theorem rx_tolerance_arith_general (tw P Q ε b m : Nat) (h0 : 0 < tw)
    (hbound : 6000 * tw + 20 * m * M32 ≤ 1000 * M32) (hε : ε < Q)
    (hlo : 1000 * (M32 * Q) ≤ 1000 * (P * tw) + m * (M32 * Q))
    (hhi : 1000 * (P * tw) ≤ 1000 * (M32 * Q) + m * (M32 * Q)) (hb : b ≤ 9) :
    b * P ≤ (rxSampleCycle tw (b + 1) + 1) * Q + ε ∧ (rxSampleCycle tw (b + 1) + 1) * Q + ε < (b + 1) * P := by
  have hQ : 0 < Q := by omega
  -- the sample cycle `c` satisfies K ≤ c·tw < K + tw with K = (2b+1)·2^31
  have hdm := Nat.div_add_mod ((2 * (b + 1) - 1) * HALF32 + tw - 1) tw
  have hml := Nat.mod_lt ((2 * (b + 1) - 1) * HALF32 + tw - 1) h0
  have hc : rxSampleCycle tw (b + 1) = ((2 * (b + 1) - 1) * HALF32 + tw - 1) / tw := rfl
  rw [← hc, Nat.mul_comm tw] at hdm
  generalize rxSampleCycle tw (b + 1) = c at *
  have e : (2 * (b + 1) - 1) * HALF32 = (2 * b + 1) * HALF32 := by
    have : 2 * (b + 1) - 1 = 2 * b + 1 := by omega
    rw [this]
  rw [e] at hdm hml
  -- products as atoms
  have hX1 : (2 * b + 1) * HALF32 * Q ≤ c * tw * Q := Nat.mul_le_mul_right Q (by omega)
  have hX2 : c * tw * Q < ((2 * b + 1) * HALF32 + tw) * Q := Nat.mul_lt_mul_of_pos_right (by omega) hQ
  have hE : ε * tw < Q * tw := Nat.mul_lt_mul_of_pos_right hε h0
  rw [Nat.add_mul] at hX2
  have hcomm : tw * Q = Q * tw := Nat.mul_comm _ _
  -- the bound, multiplied by Q:  6000·(Q·tw) + 20·2^32·(m·Q) ≤ 1000·2^32·Q
  have hB : 6000 * (Q * tw) + 20 * (M32 * (m * Q)) ≤ 1000 * (M32 * Q) := by
    have := Nat.mul_le_mul_right Q hbound
    have e1 : (6000 * tw + 20 * m * M32) * Q = 6000 * (Q * tw) + 20 * (M32 * (m * Q)) := by
      rw [Nat.add_mul, Nat.mul_assoc 6000, hcomm, Nat.mul_assoc 20, Nat.mul_assoc 20, Nat.mul_comm m M32,
        Nat.mul_assoc M32]
    have e2 : 1000 * M32 * Q = 1000 * (M32 * Q) := Nat.mul_assoc _ _ _
    rw [e1, e2] at this
    exact this
  have hmq : m * (M32 * Q) = M32 * (m * Q) := Nat.mul_left_comm _ _ _
  rw [hmq] at hlo hhi
  -- compare after multiplying by tw
  have l : ((c + 1) * Q + ε) * tw = c * tw * Q + Q * tw + ε * tw := by
    rw [Nat.add_mul, Nat.add_mul, Nat.one_mul, Nat.add_mul, Nat.mul_right_comm]
  have goal1 : b * P * tw ≤ ((c + 1) * Q + ε) * tw := by
    have r : b * P * tw = b * (P * tw) := Nat.mul_assoc _ _ _
    rw [l, r]
    generalize c * tw * Q = W at *
    generalize Q * tw = U at *
    generalize ε * tw = E at *
    generalize P * tw = V at *
    generalize m * Q = mQ at *
    clear hc e hdm hml l r hbound
    have hbs : b = 0 ∨ b = 1 ∨ b = 2 ∨ b = 3 ∨ b = 4 ∨ b = 5 ∨ b = 6 ∨ b = 7 ∨ b = 8 ∨ b = 9 := by omega
    unfold M32 HALF32 at *
    rcases hbs with h | h | h | h | h | h | h | h | h | h <;> subst h <;> omega
  have goal2 : ((c + 1) * Q + ε) * tw < (b + 1) * P * tw := by
    have r : (b + 1) * P * tw = (b + 1) * (P * tw) := Nat.mul_assoc _ _ _
    rw [l, r]
    generalize c * tw * Q = W at *
    generalize Q * tw = U at *
    generalize ε * tw = E at *
    generalize P * tw = V at *
    generalize m * Q = mQ at *
    clear hc e hdm hml l r hbound
    have hbs : b = 0 ∨ b = 1 ∨ b = 2 ∨ b = 3 ∨ b = 4 ∨ b = 5 ∨ b = 6 ∨ b = 7 ∨ b = 8 ∨ b = 9 := by omega
    unfold M32 HALF32 at *
    rcases hbs with h | h | h | h | h | h | h | h | h | h <;> subst h <;> omega
  exact ⟨Nat.le_of_mul_le_mul_right goal1 h0, Nat.lt_of_mul_lt_mul_right goal2⟩

/-- The ±2 % case with at least ten (instead of sixteen) cycles per bit. -/
theorem rx_tolerance_arith_10 (tw P Q ε b : Nat) (h0 : 0 < tw) (h10 : 10 * tw ≤ M32) (hε : ε < Q)
    (hlo : 98 * M32 * Q ≤ 100 * (P * tw)) (hhi : 100 * (P * tw) ≤ 102 * M32 * Q) (hb : b ≤ 9) :
    b * P ≤ (rxSampleCycle tw (b + 1) + 1) * Q + ε ∧ (rxSampleCycle tw (b + 1) + 1) * Q + ε < (b + 1) * P := by
  apply rx_tolerance_arith_general tw P Q ε b 20 h0 _ hε _ _ hb
  · unfold M32 at *; omega
  · rw [Nat.mul_assoc] at hlo; generalize P * tw = V at *; generalize M32 * Q = A at *; omega
  · rw [Nat.mul_assoc] at hhi; generalize P * tw = V at *; generalize M32 * Q = A at *; omega

/-- The ±1 % case needs at least 7.5 cycles per bit. -/
theorem rx_tolerance_arith_1pct (tw P Q ε b : Nat) (h0 : 0 < tw) (h15 : 15 * tw ≤ 2 * M32) (hε : ε < Q)
    (hlo : 99 * M32 * Q ≤ 100 * (P * tw)) (hhi : 100 * (P * tw) ≤ 101 * M32 * Q) (hb : b ≤ 9) :
    b * P ≤ (rxSampleCycle tw (b + 1) + 1) * Q + ε ∧ (rxSampleCycle tw (b + 1) + 1) * Q + ε < (b + 1) * P := by
  apply rx_tolerance_arith_general tw P Q ε b 10 h0 _ hε _ _ hb
  · unfold M32 at *; omega
  · rw [Nat.mul_assoc] at hlo; generalize P * tw = V at *; generalize M32 * Q = A at *; omega
  · rw [Nat.mul_assoc] at hhi; generalize P * tw = V at *; generalize M32 * Q = A at *; omega

/-- Exactly matched rates (`P·tw = 2^32·Q`), arbitrary phase: six cycles per bit suffice. -/
theorem rx_tolerance_arith_exact (tw P Q ε b : Nat) (h0 : 0 < tw) (h6 : 6 * tw ≤ M32) (hε : ε < Q)
    (heq : P * tw = M32 * Q) (hb : b ≤ 9) :
    b * P ≤ (rxSampleCycle tw (b + 1) + 1) * Q + ε ∧ (rxSampleCycle tw (b + 1) + 1) * Q + ε < (b + 1) * P := by
  apply rx_tolerance_arith_general tw P Q ε b 0 h0 _ hε _ _ hb
  · unfold M32 at *; omega
  · rw [heq]; omega
  · rw [heq]; omega

/-! ### Per-bit version: lower and upper side separately -/

/-- Lower side for one sample point: the mismatch accumulated over `b` bit periods stays below half a bit. -/
theorem rx_sample_lower (tw P Q ε b m : Nat) (h0 : 0 < tw) (hm : 2 * b * m ≤ 1000)
    (hhi : 1000 * (P * tw) ≤ 1000 * (M32 * Q) + m * (M32 * Q)) (hb : b ≤ 9) :
    b * P ≤ (rxSampleCycle tw (b + 1) + 1) * Q + ε := by
  have hdm := Nat.div_add_mod ((2 * (b + 1) - 1) * HALF32 + tw - 1) tw
  have hml := Nat.mod_lt ((2 * (b + 1) - 1) * HALF32 + tw - 1) h0
  have hc : rxSampleCycle tw (b + 1) = ((2 * (b + 1) - 1) * HALF32 + tw - 1) / tw := rfl
  rw [← hc, Nat.mul_comm tw] at hdm
  generalize rxSampleCycle tw (b + 1) = c at *
  have e : (2 * (b + 1) - 1) * HALF32 = (2 * b + 1) * HALF32 := by
    have : 2 * (b + 1) - 1 = 2 * b + 1 := by omega
    rw [this]
  rw [e] at hdm hml
  have hX1 : (2 * b + 1) * HALF32 * Q ≤ c * tw * Q := Nat.mul_le_mul_right Q (by omega)
  have hM : 2 * b * (m * Q) ≤ 1000 * Q := by
    have := Nat.mul_le_mul_right Q hm
    rw [Nat.mul_assoc] at this
    exact this
  have hmq : m * (M32 * Q) = M32 * (m * Q) := Nat.mul_left_comm _ _ _
  rw [hmq] at hhi
  have l : ((c + 1) * Q + ε) * tw = c * tw * Q + Q * tw + ε * tw := by
    rw [Nat.add_mul, Nat.add_mul, Nat.one_mul, Nat.add_mul, Nat.mul_right_comm]
  have goal1 : b * P * tw ≤ ((c + 1) * Q + ε) * tw := by
    have r : b * P * tw = b * (P * tw) := Nat.mul_assoc _ _ _
    rw [l, r]
    generalize c * tw * Q = W at *
    generalize Q * tw = U at *
    generalize ε * tw = E at *
    generalize P * tw = V at *
    generalize m * Q = mQ at *
    clear hc e hdm hml l r hm
    have hbs : b = 0 ∨ b = 1 ∨ b = 2 ∨ b = 3 ∨ b = 4 ∨ b = 5 ∨ b = 6 ∨ b = 7 ∨ b = 8 ∨ b = 9 := by omega
    unfold M32 HALF32 at *
    rcases hbs with h | h | h | h | h | h | h | h | h | h <;> subst h <;> omega
  exact Nat.le_of_mul_le_mul_right goal1 h0

/-- Upper side for one sample point: three cycles plus the mismatch accumulated over `b + 1` bit periods fit into
    half a bit period, `6000·tw + 2·(b+1)·m·2^32 ≤ 1000·2^32`. -/
theorem rx_sample_upper (tw P Q ε b m : Nat) (h0 : 0 < tw)
    (hbound : 6000 * tw + 2 * (b + 1) * m * M32 ≤ 1000 * M32) (hε : ε < Q)
    (hlo : 1000 * (M32 * Q) ≤ 1000 * (P * tw) + m * (M32 * Q)) (hb : b ≤ 9) :
    (rxSampleCycle tw (b + 1) + 1) * Q + ε < (b + 1) * P := by
  have hQ : 0 < Q := by omega
  have hdm := Nat.div_add_mod ((2 * (b + 1) - 1) * HALF32 + tw - 1) tw
  have hml := Nat.mod_lt ((2 * (b + 1) - 1) * HALF32 + tw - 1) h0
  have hc : rxSampleCycle tw (b + 1) = ((2 * (b + 1) - 1) * HALF32 + tw - 1) / tw := rfl
  rw [← hc, Nat.mul_comm tw] at hdm
  generalize rxSampleCycle tw (b + 1) = c at *
  have e : (2 * (b + 1) - 1) * HALF32 = (2 * b + 1) * HALF32 := by
    have : 2 * (b + 1) - 1 = 2 * b + 1 := by omega
    rw [this]
  rw [e] at hdm hml
  have hX2 : c * tw * Q < ((2 * b + 1) * HALF32 + tw) * Q := Nat.mul_lt_mul_of_pos_right (by omega) hQ
  have hE : ε * tw < Q * tw := Nat.mul_lt_mul_of_pos_right hε h0
  rw [Nat.add_mul] at hX2
  have hcomm : tw * Q = Q * tw := Nat.mul_comm _ _
  have hB : 6000 * (Q * tw) + 2 * (b + 1) * (M32 * (m * Q)) ≤ 1000 * (M32 * Q) := by
    have := Nat.mul_le_mul_right Q hbound
    have e1 : (6000 * tw + 2 * (b + 1) * m * M32) * Q = 6000 * (Q * tw) + 2 * (b + 1) * (M32 * (m * Q)) := by
      rw [Nat.add_mul, Nat.mul_assoc 6000, hcomm, Nat.mul_assoc (2 * (b + 1)), Nat.mul_assoc (2 * (b + 1)),
        Nat.mul_comm m M32, Nat.mul_assoc M32]
    have e2 : 1000 * M32 * Q = 1000 * (M32 * Q) := Nat.mul_assoc _ _ _
    rw [e1, e2] at this
    exact this
  have hmq : m * (M32 * Q) = M32 * (m * Q) := Nat.mul_left_comm _ _ _
  rw [hmq] at hlo
  have l : ((c + 1) * Q + ε) * tw = c * tw * Q + Q * tw + ε * tw := by
    rw [Nat.add_mul, Nat.add_mul, Nat.one_mul, Nat.add_mul, Nat.mul_right_comm]
  have goal2 : ((c + 1) * Q + ε) * tw < (b + 1) * P * tw := by
    have r : (b + 1) * P * tw = (b + 1) * (P * tw) := Nat.mul_assoc _ _ _
    rw [l, r]
    generalize c * tw * Q = W at *
    generalize Q * tw = U at *
    generalize ε * tw = E at *
    generalize P * tw = V at *
    generalize m * Q = mQ at *
    clear hc e hdm hml l r hbound
    have hbs : b = 0 ∨ b = 1 ∨ b = 2 ∨ b = 3 ∨ b = 4 ∨ b = 5 ∨ b = 6 ∨ b = 7 ∨ b = 8 ∨ b = 9 := by omega
    unfold M32 HALF32 at *
    rcases hbs with h | h | h | h | h | h | h | h | h | h <;> subst h <;> omega
  exact Nat.lt_of_mul_lt_mul_right goal2

/-- Sharper bound when nothing follows the stop bit (the line stays high): only sample points `1 … 9` have to stay
    below the end of their bit, sample point 10 only has to be past the start of the stop bit.  The mismatch then
    accumulates over nine bit periods: `6000·tw + 18·m·2^32 ≤ 1000·2^32`  (`m = 20`: `R ≥ 9.375`). -/
theorem rx_tolerance_arith_idle (tw P Q ε b m : Nat) (h0 : 0 < tw)
    (hbound : 6000 * tw + 18 * m * M32 ≤ 1000 * M32) (hε : ε < Q)
    (hlo : 1000 * (M32 * Q) ≤ 1000 * (P * tw) + m * (M32 * Q))
    (hhi : 1000 * (P * tw) ≤ 1000 * (M32 * Q) + m * (M32 * Q)) (hb : b ≤ 9) :
    b * P ≤ (rxSampleCycle tw (b + 1) + 1) * Q + ε ∧
    (b ≤ 8 → (rxSampleCycle tw (b + 1) + 1) * Q + ε < (b + 1) * P) := by
  have hm18 : 18 * m ≤ 1000 := by unfold M32 at hbound; omega
  refine ⟨rx_sample_lower tw P Q ε b m h0 ?_ hhi hb, fun hb8 => rx_sample_upper tw P Q ε b m h0 ?_ hε hlo hb⟩
  · have : 2 * b * m ≤ 18 * m := Nat.mul_le_mul_right m (by omega)
    omega
  · have h1 : 2 * (b + 1) * m ≤ 18 * m := Nat.mul_le_mul_right m (by omega)
    have h2 : 2 * (b + 1) * m * M32 ≤ 18 * m * M32 := Nat.mul_le_mul_right M32 h1
    omega

/-- The frame bit shown by the line `k ↦ frameBit d ⌊((k+1)·Q + ε)/P⌋` (high after the stop bit) at sample point
    `b + 1` is bit `b`, under the nine-bit-period bound. -/
theorem rx_line_bit_idle (tw P Q ε b m d : Nat) (h0 : 0 < tw)
    (hbound : 6000 * tw + 18 * m * M32 ≤ 1000 * M32) (hε : ε < Q)
    (hlo : 1000 * (M32 * Q) ≤ 1000 * (P * tw) + m * (M32 * Q))
    (hhi : 1000 * (P * tw) ≤ 1000 * (M32 * Q) + m * (M32 * Q)) (hb : b ≤ 9) :
    frameBit d (((rxSampleCycle tw (b + 1) + 1) * Q + ε) / P) = frameBit d b := by
  have h := rx_tolerance_arith_idle tw P Q ε b m h0 hbound hε hlo hhi hb
  by_cases hb8 : b ≤ 8
  · congr 1
    exact Nat.div_eq_of_lt_le h.1 (h.2 hb8)
  · have hb9 : b = 9 := by omega
    subst hb9
    have hP : 0 < P := by
      rcases Nat.eq_zero_or_pos P with hz | hp
      · exfalso
        subst hz
        have hm : m ≤ 55 := by unfold M32 at hbound; omega
        have hmQ : m * Q ≤ 55 * Q := Nat.mul_le_mul_right Q hm
        have hmq : m * (M32 * Q) = M32 * (m * Q) := Nat.mul_left_comm _ _ _
        rw [hmq, Nat.zero_mul] at hlo
        generalize m * Q = mQ at *
        unfold M32 at *
        omega
      · exact hp
    have h9 : 9 ≤ ((rxSampleCycle tw (9 + 1) + 1) * Q + ε) / P := (Nat.le_div_iff_mul_le hP).mpr h.1
    generalize ((rxSampleCycle tw (9 + 1) + 1) * Q + ε) / P = j at *
    unfold frameBit
    rw [if_neg (by omega), if_neg (by omega), if_neg (by omega), if_neg (by omega)]

/-! ### Loopback: the exact alignment condition -/

/-- TX wired to RX, equal tuning words: one cycle after sample point `b + 1` the transmitter's phase accumulator has
    wrapped exactly `b` times, for all ten sample points. -/
def loopbackAligned (tw : Nat) : Bool :=
  (List.range 10).all (fun b => ((rxSampleCycle tw (b + 1) + 1) * tw) / M32 == b)

theorem loopbackAligned_iff (tw : Nat) :
    loopbackAligned tw = true ↔ ∀ b, b ≤ 9 → ((rxSampleCycle tw (b + 1) + 1) * tw) / M32 = b := by
  unfold loopbackAligned
  simp only [List.all_eq_true, List.mem_range, beq_iff_eq]
  constructor
  · intro h b hb; exact h b (by omega)
  · intro h b hb; exact h b (by omega)

/-- At least four cycles per bit imply alignment (`loopback_arith`). -/
theorem loopbackAligned_of_four (tw : Nat) (h0 : 0 < tw) (h4 : 4 * tw ≤ M32) : loopbackAligned tw = true :=
  (loopbackAligned_iff tw).mpr (fun b _ => loopback_arith tw b h0 h4)

/-- A second aligned window, not covered by `4·tw ≤ 2^32`: between 3 and 3 + 1/19 cycles per bit
    (`19·2^32 ≤ 58·tw`, `3·tw < 2^32`) sample point `b + 1` is taken in RUN cycle `3b + 2`, and one cycle later the
    transmitter is still in bit `b`. -/
theorem loopbackAligned_of_three (tw : Nat) (h3 : 3 * tw < M32) (h58 : 19 * M32 ≤ 58 * tw) :
    loopbackAligned tw = true := by
  apply (loopbackAligned_iff tw).mpr
  intro b hb
  have hbs : b = 0 ∨ b = 1 ∨ b = 2 ∨ b = 3 ∨ b = 4 ∨ b = 5 ∨ b = 6 ∨ b = 7 ∨ b = 8 ∨ b = 9 := by omega
  have hc : rxSampleCycle tw (b + 1) = 3 * b + 2 := by
    unfold rxSampleCycle
    apply Nat.div_eq_of_lt_le
    · unfold M32 HALF32 at *
      rcases hbs with h | h | h | h | h | h | h | h | h | h <;> subst h <;> omega
    · unfold M32 HALF32 at *
      rcases hbs with h | h | h | h | h | h | h | h | h | h <;> subst h <;> omega
  rw [hc]
  apply Nat.div_eq_of_lt_le
  · unfold M32 at *
    rcases hbs with h | h | h | h | h | h | h | h | h | h <;> subst h <;> omega
  · unfold M32 at *
    rcases hbs with h | h | h | h | h | h | h | h | h | h <;> subst h <;> omega

/-- Alignment excludes `tw = 0` (sample point 2). -/
theorem loopbackAligned_pos (tw : Nat) (h : loopbackAligned tw = true) : 0 < tw := by
  have h1 := (loopbackAligned_iff tw).mp h 1 (by omega)
  cases tw with
  | zero => simp at h1
  | succ n => omega

/-- Alignment implies more than two cycles per bit (sample point 1). -/
theorem loopbackAligned_lt (tw : Nat) (h : loopbackAligned tw = true) : 2 * tw < M32 := by
  have h0 := loopbackAligned_pos tw h
  have h1 := (loopbackAligned_iff tw).mp h 0 (by omega)
  have hc : 1 ≤ rxSampleCycle tw (0 + 1) := by
    unfold rxSampleCycle
    apply (Nat.le_div_iff_mul_le h0).mpr
    unfold HALF32; omega
  have hmul : (1 + 1) * tw ≤ (rxSampleCycle tw (0 + 1) + 1) * tw := Nat.mul_le_mul_right tw (by omega)
  have hlt : (rxSampleCycle tw (0 + 1) + 1) * tw < M32 := by
    have hM : 0 < M32 := by unfold M32; omega
    have := Nat.div_add_mod ((rxSampleCycle tw (0 + 1) + 1) * tw) M32
    have := Nat.mod_lt ((rxSampleCycle tw (0 + 1) + 1) * tw) hM
    rw [h1] at *
    omega
  omega

/-- `loopback_line` under the exact alignment hypothesis: seen through the two synchroniser registers plus the
    detection cycle, the receiver's sample point `b + 1` falls into bit `b` of the transmitter's frame. -/
theorem loopback_line_aligned (tw : Nat) (hal : loopbackAligned tw = true) (sT : TxSt) (hrun : sT.run = false)
    (htx : sT.tx = true) (f : Nat → TxIn) (hv : (f 0).valid = true) (hd : (f 0).data < 256) (b : Nat) (hb : b ≤ 9) :
    txPad tw sT f (rxSampleCycle tw (b + 1) + 2) = frameBit (f 0).data b := by
  have htw : tw < M32 := by have := loopbackAligned_lt tw hal; omega
  have ha := (loopbackAligned_iff tw).mp hal b hb
  have hdm := Nat.div_add_mod ((rxSampleCycle tw (b + 1) + 1) * tw) M32
  have hml := Nat.mod_lt ((rxSampleCycle tw (b + 1) + 1) * tw) (by unfold M32; omega : 0 < M32)
  rw [ha] at hdm
  have hlt : (rxSampleCycle tw (b + 1) + 1) * tw < 10 * M32 := by
    generalize (rxSampleCycle tw (b + 1) + 1) * tw = x at *
    unfold M32 at *; omega
  have e : rxSampleCycle tw (b + 1) + 2 = 1 + (rxSampleCycle tw (b + 1) + 1) := by omega
  rw [e, (txPad_frame tw htw sT hrun htx f hv hd).2 _ hlt, ha]

/-- Three cycles per bit (`3·tw = 2^32 − 1`) is aligned although `4·tw > 2^32`. -/
example : loopbackAligned 0x55555555 = true ∧ ¬ 4 * 0x55555555 ≤ M32 := by decide

/-- One more (`3·tw = 2^32 + 2`) is not. -/
example : loopbackAligned 0x55555556 = false := by decide

end Litex.Periph
