import LitexProofs.Periph.I2cWrite
import LitexProofs.Periph.I2c
import LitexProofs.Periph.Loopback
/-
  `I2CMasterMachine`: the remaining commands step by step (READ, START, repeated START, STOP) and the exact cycle
  timing of the FSM steps for every clock divider `load`.  One "step" = one enabled FSM step (`i2cFsmStep`), as in
  `I2cWrite.lean`.  Core Lean only.
-/
namespace Litex.Periph
open Litex

/-! ### START, repeated START, STOP -/

/-- START: IDLE with SCL released and a start strobe (whatever the other strobes): START0, then SDA falls. -/
theorem i2c_start_steps (s : I2cSt) (f : Nat → I2cIn) (hf : s.fsm = .idle) (hscl : s.scl = true)
    (hst : (f 0).start = true) :
    (i2cSteps s f 1).fsm = .start0 ∧ (i2cSteps s f 1).scl = true ∧ (i2cSteps s f 1).sda = s.sda ∧
    (i2cSteps s f 2).fsm = .idle ∧ (i2cSteps s f 2).scl = true ∧ (i2cSteps s f 2).sda = false ∧
    (i2cSteps s f 2).data = s.data ∧ (i2cSteps s f 2).ack = s.ack := by
  obtain ⟨fsm, scl, sda, data, ack, bits, cnt⟩ := s
  simp only at hf hscl
  subst hf hscl
  simp [i2cSteps, i2cFsmStep, hst]

/-- Repeated START: IDLE with SCL low and a start strobe: RESTART0 releases SDA, RESTART1 releases SCL, START0 pulls
    SDA low. -/
theorem i2c_restart_steps (s : I2cSt) (f : Nat → I2cIn) (hf : s.fsm = .idle) (hscl : s.scl = false)
    (hst : (f 0).start = true) :
    (i2cSteps s f 1).fsm = .restart0 ∧ (i2cSteps s f 1).scl = false ∧ (i2cSteps s f 1).sda = s.sda ∧
    (i2cSteps s f 2).fsm = .restart1 ∧ (i2cSteps s f 2).scl = false ∧ (i2cSteps s f 2).sda = true ∧
    (i2cSteps s f 3).fsm = .start0 ∧ (i2cSteps s f 3).scl = true ∧ (i2cSteps s f 3).sda = true ∧
    (i2cSteps s f 4).fsm = .idle ∧ (i2cSteps s f 4).scl = true ∧ (i2cSteps s f 4).sda = false ∧
    (i2cSteps s f 4).data = s.data ∧ (i2cSteps s f 4).ack = s.ack := by
  obtain ⟨fsm, scl, sda, data, ack, bits, cnt⟩ := s
  simp only at hf hscl
  subst hf hscl
  simp [i2cSteps, i2cFsmStep, hst]

/-- STOP: IDLE with SCL low and only the stop strobe: STOP0 pulls SDA low, STOP1 releases SCL, STOP2 releases SDA. -/
theorem i2c_stop_steps (s : I2cSt) (f : Nat → I2cIn) (hf : s.fsm = .idle) (hscl : s.scl = false)
    (hsp : (f 0).stop = true) (hst : (f 0).start = false) (hw : (f 0).write = false) (hr : (f 0).read = false) :
    (i2cSteps s f 1).fsm = .stop0 ∧ (i2cSteps s f 1).scl = false ∧ (i2cSteps s f 1).sda = s.sda ∧
    (i2cSteps s f 2).fsm = .stop1 ∧ (i2cSteps s f 2).scl = false ∧ (i2cSteps s f 2).sda = false ∧
    (i2cSteps s f 3).fsm = .stop2 ∧ (i2cSteps s f 3).scl = true ∧ (i2cSteps s f 3).sda = false ∧
    (i2cSteps s f 4).fsm = .idle ∧ (i2cSteps s f 4).scl = true ∧ (i2cSteps s f 4).sda = true ∧
    (i2cSteps s f 4).data = s.data ∧ (i2cSteps s f 4).ack = s.ack := by
  obtain ⟨fsm, scl, sda, data, ack, bits, cnt⟩ := s
  simp only at hf hscl
  subst hf hscl
  simp [i2cSteps, i2cFsmStep, hst, hsp, hw, hr]

/-- A lone stop strobe in IDLE with SCL released is ignored: the FSM step changes nothing. -/
theorem i2c_stop_ignored (s : I2cSt) (i : I2cIn) (hf : s.fsm = .idle) (hscl : s.scl = true)
    (hst : i.start = false) (hw : i.write = false) (hr : i.read = false) :
    i2cFsmStep s i = s := by
  obtain ⟨fsm, scl, sda, data, ack, bits, cnt⟩ := s
  simp only at hf hscl
  subst hf hscl
  simp [i2cFsmStep, hst, hw, hr]

/-! ### READ -/

/-- The data register `2j + 1` steps into a read (`j` samples taken and shifted). -/
def i2cRdData (d : Nat) (f : Nat → I2cIn) : Nat → Nat
  | 0 => d
  | j + 1 => shl1Keep0 (setBit0 (i2cRdData d f j) (f (2 * j + 1)).sdaI)

theorem shl1Keep0_eq (x : Nat) : shl1Keep0 x = 2 * (x % 128) + x % 2 := by unfold shl1Keep0; omega

theorem shl1Keep0_lt (x : Nat) : shl1Keep0 x < 256 := by rw [shl1Keep0_eq]; omega

theorem shl1Keep0_testBit_succ (x i : Nat) (hi : i < 7) : (shl1Keep0 x).testBit (i + 1) = x.testBit i := by
  rw [shl1Keep0_eq, Nat.testBit_succ]
  have e : (2 * (x % 128) + x % 2) / 2 = x % 2 ^ 7 := by omega
  rw [e, Nat.testBit_mod_two_pow]
  simp [hi]

theorem setBit0_testBit_zero (d : Nat) (b : Bool) : (setBit0 d b).testBit 0 = b := by
  unfold setBit0
  rw [Nat.testBit_zero]
  cases b <;> simp <;> omega

theorem setBit0_testBit_succ (d : Nat) (b : Bool) (i : Nat) : (setBit0 d b).testBit (i + 1) = d.testBit (i + 1) := by
  unfold setBit0
  rw [Nat.testBit_succ, Nat.testBit_succ]
  have e : (d / 2 * 2 + if b = true then 1 else 0) / 2 = d / 2 := by cases b <;> simp <;> omega
  rw [e]

theorem setBit0_lt (d : Nat) (b : Bool) (h : d < 256) : setBit0 d b < 256 := by
  unfold setBit0; cases b <;> simp <;> omega

theorem i2cRdData_lt (d : Nat) (f : Nat → I2cIn) (j : Nat) (hj : 1 ≤ j) : i2cRdData d f j < 256 := by
  obtain ⟨k, rfl⟩ : ∃ k, j = k + 1 := ⟨j - 1, by omega⟩
  exact shl1Keep0_lt _

/-- After `j ≤ 7` samples, bit `i` (`1 ≤ i ≤ j`) of the data register is the sample taken `i` bits ago. -/
theorem i2cRdData_testBit (d : Nat) (f : Nat → I2cIn) (j : Nat) (hj : j ≤ 7) :
    ∀ i, 1 ≤ i → i ≤ j → (i2cRdData d f j).testBit i = (f (2 * (j - i) + 1)).sdaI := by
  induction j with
  | zero => intro i h1 h2; omega
  | succ j ih =>
    intro i h1 h2
    obtain ⟨i', rfl⟩ : ∃ k, i = k + 1 := ⟨i - 1, by omega⟩
    show (shl1Keep0 (setBit0 (i2cRdData d f j) (f (2 * j + 1)).sdaI)).testBit (i' + 1) = _
    rw [shl1Keep0_testBit_succ _ _ (by omega)]
    cases i' with
    | zero => rw [setBit0_testBit_zero]; simp
    | succ i'' =>
      rw [setBit0_testBit_succ, ih (by omega) (i'' + 1) (by omega) (by omega)]
      have e : j + 1 - (i'' + 1 + 1) = j - (i'' + 1) := by omega
      rw [e]

/-- State `2j + 1` steps into a read (`j ≤ 7` samples taken): READ1 with SCL high, `7 - j` more bits after this one,
    SDA untouched. -/
theorem i2c_read_odd (s : I2cSt) (f : Nat → I2cIn) (hf : s.fsm = .read0) (hb : s.bits = 7) (j : Nat) (hj : j ≤ 7) :
    (i2cSteps s f (2 * j + 1)).fsm = .read1 ∧ (i2cSteps s f (2 * j + 1)).bits = 7 - j ∧
    (i2cSteps s f (2 * j + 1)).data = i2cRdData s.data f j ∧ (i2cSteps s f (2 * j + 1)).ack = s.ack ∧
    (i2cSteps s f (2 * j + 1)).scl = true ∧ (i2cSteps s f (2 * j + 1)).sda = s.sda := by
  induction j with
  | zero =>
    obtain ⟨fsm, scl, sda, data, ack, bits, cnt⟩ := s
    simp only at hf hb
    subst hf hb
    simp [i2cSteps, i2cFsmStep, i2cRdData]
  | succ j ih =>
    obtain ⟨h1, h2, h3, h4, h5, h6⟩ := ih (by omega)
    have e : 2 * (j + 1) + 1 = 2 * j + 1 + 1 + 1 := by omega
    have hb0 : ((i2cSteps s f (2 * j + 1)).bits == 0) = false := by rw [h2]; simp; omega
    have hm : (7 - j + 15) % 16 = 7 - (j + 1) := by omega
    rw [e]
    have e1 : i2cSteps s f (2 * j + 1 + 1 + 1) =
        i2cFsmStep (i2cFsmStep (i2cSteps s f (2 * j + 1)) (f (2 * j + 1))) (f (2 * j + 1 + 1)) := rfl
    rw [e1]
    generalize i2cSteps s f (2 * j + 1) = t at *
    obtain ⟨tf, tscl, tsda, tdata, tack, tbits, tcnt⟩ := t
    simp only at h1 h2 h3 h4 h5 h6 hb0
    subst h1 h2 h3 h4 h5 h6
    simp [i2cFsmStep, hb0, hm, i2cRdData]

/-- **Read, bit by bit.**  For `j < 8`: step `2j + 1` (READ0 / READ2) raises SCL, step `2j + 2` (READ1) lowers it and
    stores the `sda_i` of that step in bit 0; SDA is left alone during the first 15 steps. -/
theorem i2c_read_bits (s : I2cSt) (f : Nat → I2cIn) (hf : s.fsm = .read0) (hb : s.bits = 7) (j : Nat) (hj : j < 8) :
    (i2cSteps s f (2 * j + 1)).scl = true ∧ (i2cSteps s f (2 * j + 1)).sda = s.sda ∧
    (i2cSteps s f (2 * j + 2)).scl = false ∧ (j < 7 → (i2cSteps s f (2 * j + 2)).sda = s.sda) ∧
    (i2cSteps s f (2 * j + 2)).data = setBit0 (i2cRdData s.data f j) (f (2 * j + 1)).sdaI ∧
    (i2cSteps s f (2 * j + 2)).data.testBit 0 = (f (2 * j + 1)).sdaI ∧
    (i2cSteps s f (2 * j + 2)).ack = s.ack := by
  obtain ⟨h1, h2, h3, h4, h5, h6⟩ := i2c_read_odd s f hf hb j (by omega)
  have e2 : i2cSteps s f (2 * j + 2) = i2cFsmStep (i2cSteps s f (2 * j + 1)) (f (2 * j + 1)) := rfl
  rw [e2]
  generalize i2cSteps s f (2 * j + 1) = t at *
  obtain ⟨tf, tscl, tsda, tdata, tack, tbits, tcnt⟩ := t
  simp only at h1 h2 h3 h4 h5 h6
  subst h1 h2 h3 h4 h5 h6
  refine ⟨rfl, rfl, ?_, ?_, ?_, ?_, ?_⟩
  · simp only [i2cFsmStep]; split <;> rfl
  · intro h7
    have hb0 : ((7 - j) == 0) = false := by simp; omega
    simp [i2cFsmStep, hb0]
  · simp only [i2cFsmStep]; split <;> rfl
  · have : (i2cFsmStep ⟨.read1, true, s.sda, i2cRdData s.data f j, s.ack, 7 - j, tcnt⟩ (f (2 * j + 1))).data =
        setBit0 (i2cRdData s.data f j) (f (2 * j + 1)).sdaI := by simp only [i2cFsmStep]; split <;> rfl
    rw [this, setBit0_testBit_zero]
  · simp only [i2cFsmStep]; split <;> rfl

/-- **Read, the received byte and the master acknowledge.**  Step 16 (the eighth sample) leaves the eight samples in
    the data register MSB first — bit `7 - j` is the `sda_i` of step `2j + 2` — whatever the register held before, puts
    `¬ack` on SDA with SCL low; step 17 raises SCL; step 18 lowers SCL, releases SDA and returns to IDLE with the
    byte still in the register. -/
theorem i2c_read_end (s : I2cSt) (f : Nat → I2cIn) (hf : s.fsm = .read0) (hb : s.bits = 7) :
    (i2cSteps s f 16).data < 256 ∧ (∀ j, j < 8 → (i2cSteps s f 16).data.testBit (7 - j) = (f (2 * j + 1)).sdaI) ∧
    (i2cSteps s f 16).fsm = .writeack0 ∧ (i2cSteps s f 16).scl = false ∧ (i2cSteps s f 16).sda = !s.ack ∧
    (i2cSteps s f 17).fsm = .writeack1 ∧ (i2cSteps s f 17).scl = true ∧ (i2cSteps s f 17).sda = !s.ack ∧
    (i2cSteps s f 18).fsm = .idle ∧ (i2cSteps s f 18).scl = false ∧ (i2cSteps s f 18).sda = true ∧
    (i2cSteps s f 18).data = (i2cSteps s f 16).data ∧ (i2cSteps s f 18).ack = s.ack := by
  obtain ⟨h1, h2, h3, h4, h5, h6⟩ := i2c_read_odd s f hf hb 7 (by omega)
  have e15 : (2 * 7 + 1 : Nat) = 15 := rfl
  rw [e15] at h1 h2 h3 h4 h5 h6
  have e16 : i2cSteps s f 16 = i2cFsmStep (i2cSteps s f 15) (f 15) := rfl
  have e17 : i2cSteps s f 17 = i2cFsmStep (i2cSteps s f 16) (f 16) := rfl
  have e18 : i2cSteps s f 18 = i2cFsmStep (i2cSteps s f 17) (f 17) := rfl
  have hlt := i2cRdData_lt s.data f 7 (by omega)
  have hbits := i2cRdData_testBit s.data f 7 (by omega)
  rw [e18, e17, e16]
  generalize i2cSteps s f 15 = t at *
  obtain ⟨tf, tscl, tsda, tdata, tack, tbits, tcnt⟩ := t
  simp only at h1 h2 h3 h4 h5 h6
  subst h1 h2 h3 h4 h5 h6
  refine ⟨?_, ?_, ?_⟩
  · simp only [i2cFsmStep]
    exact setBit0_lt _ _ hlt
  · intro j hj
    show (setBit0 (i2cRdData s.data f 7) (f 15).sdaI).testBit (7 - j) = _
    by_cases h7 : j = 7
    · subst h7; exact setBit0_testBit_zero _ _
    · obtain ⟨i, hi⟩ : ∃ i, 7 - j = i + 1 := ⟨6 - j, by omega⟩
      rw [hi, setBit0_testBit_succ, ← hi, hbits (7 - j) (by omega) (by omega)]
      have e : 7 - (7 - j) = j := by omega
      rw [e]
  · simp [i2cFsmStep]

theorem i2c_byte_bits_table : ∀ d, d < 256 →
    d = 128 * (d.testBit 7).toNat + 64 * (d.testBit 6).toNat + 32 * (d.testBit 5).toNat + 16 * (d.testBit 4).toNat +
        8 * (d.testBit 3).toNat + 4 * (d.testBit 2).toNat + 2 * (d.testBit 1).toNat + (d.testBit 0).toNat := by
  decide +kernel

/-- The byte assembled MSB first from the `sda_i` values of steps 2, 4, …, 16 (inputs `f 1, f 3, …, f 15`). -/
def i2cRxByte (f : Nat → I2cIn) : Nat :=
  128 * (f 1).sdaI.toNat + 64 * (f 3).sdaI.toNat + 32 * (f 5).sdaI.toNat + 16 * (f 7).sdaI.toNat +
  8 * (f 9).sdaI.toNat + 4 * (f 11).sdaI.toNat + 2 * (f 13).sdaI.toNat + (f 15).sdaI.toNat

/-- The data register after a read is exactly the received byte (nothing of its previous contents survives). -/
theorem i2c_read_byte (s : I2cSt) (f : Nat → I2cIn) (hf : s.fsm = .read0) (hb : s.bits = 7) :
    (i2cSteps s f 16).data = i2cRxByte f ∧ (i2cSteps s f 18).data = i2cRxByte f := by
  obtain ⟨hlt, hbits, _, _, _, _, _, _, _, _, _, h18, _⟩ := i2c_read_end s f hf hb
  have h0 : (i2cSteps s f 16).data.testBit 7 = (f 1).sdaI := hbits 0 (by omega)
  have h1 : (i2cSteps s f 16).data.testBit 6 = (f 3).sdaI := hbits 1 (by omega)
  have h2 : (i2cSteps s f 16).data.testBit 5 = (f 5).sdaI := hbits 2 (by omega)
  have h3 : (i2cSteps s f 16).data.testBit 4 = (f 7).sdaI := hbits 3 (by omega)
  have h4 : (i2cSteps s f 16).data.testBit 3 = (f 9).sdaI := hbits 4 (by omega)
  have h5 : (i2cSteps s f 16).data.testBit 2 = (f 11).sdaI := hbits 5 (by omega)
  have h6 : (i2cSteps s f 16).data.testBit 1 = (f 13).sdaI := hbits 6 (by omega)
  have h7 : (i2cSteps s f 16).data.testBit 0 = (f 15).sdaI := hbits 7 (by omega)
  have ht := i2c_byte_bits_table _ hlt
  rw [h0, h1, h2, h3, h4, h5, h6, h7] at ht
  exact ⟨ht, h18.trans ht⟩

/-! ### Cycle timing for every divider

In `i2cNext` the FSM takes a step in a cycle iff `(run ∧ IDLE) ∨ cnt = 0`; outside IDLE the counter reloads with
`load` at `cnt = 0` and otherwise counts down.  So from a busy state with `cnt = c` and a constant `load = l` the FSM
steps happen exactly in cycles `c, c + (l+1), c + 2(l+1), …`. -/

/-- The state with the divider counter replaced (all FSM registers kept). -/
def I2cSt.setCnt (s : I2cSt) (x : Nat) : I2cSt := { s with cnt := x }

@[simp] theorem i2c_setCnt_fsm (s : I2cSt) (x : Nat) : (s.setCnt x).fsm = s.fsm := rfl
@[simp] theorem i2c_setCnt_scl (s : I2cSt) (x : Nat) : (s.setCnt x).scl = s.scl := rfl
@[simp] theorem i2c_setCnt_sda (s : I2cSt) (x : Nat) : (s.setCnt x).sda = s.sda := rfl
@[simp] theorem i2c_setCnt_data (s : I2cSt) (x : Nat) : (s.setCnt x).data = s.data := rfl
@[simp] theorem i2c_setCnt_ack (s : I2cSt) (x : Nat) : (s.setCnt x).ack = s.ack := rfl
@[simp] theorem i2c_setCnt_bits (s : I2cSt) (x : Nat) : (s.setCnt x).bits = s.bits := rfl
@[simp] theorem i2c_setCnt_cnt (s : I2cSt) (x : Nat) : (s.setCnt x).cnt = x := rfl
@[simp] theorem i2c_setCnt_setCnt (s : I2cSt) (x y : Nat) : (s.setCnt x).setCnt y = s.setCnt y := rfl
theorem i2c_setCnt_self (s : I2cSt) : s.setCnt s.cnt = s := rfl

/-- An FSM step neither reads nor writes the divider counter. -/
theorem i2cFsmStep_setCnt (s : I2cSt) (i : I2cIn) (x : Nat) :
    i2cFsmStep (s.setCnt x) i = (i2cFsmStep s i).setCnt x := by
  obtain ⟨fsm, scl, sda, data, ack, bits, cnt⟩ := s
  cases fsm <;> first | rfl | (by_cases h : bits = 0 <;> simp [i2cFsmStep, I2cSt.setCnt, h])

theorem i2cFsmStep_cnt (s : I2cSt) (i : I2cIn) : (i2cFsmStep s i).cnt = s.cnt := by
  obtain ⟨fsm, scl, sda, data, ack, bits, cnt⟩ := s
  cases fsm <;> simp only [i2cFsmStep] <;> (try split) <;> rfl

/-- Busy, counter not yet zero: nothing but the counter changes (command strobes are ignored). -/
theorem i2c_next_wait (cw : Nat) (s : I2cSt) (i : I2cIn) (hn : s.fsm ≠ .idle) (hp : i.poke = false)
    (hc : s.cnt ≠ 0) : i2cNext cw s i = s.setCnt (s.cnt - 1) := by
  obtain ⟨fsm, scl, sda, data, ack, bits, cnt⟩ := s
  simp only at hn hc
  simp [i2cNext, i2cPoked, hp, i2cIdle, hn, hc, I2cSt.setCnt]

/-- Busy, counter zero: one FSM step (command strobes are ignored) and the counter reloads. -/
theorem i2c_next_tick (cw : Nat) (s : I2cSt) (i : I2cIn) (hn : s.fsm ≠ .idle) (hp : i.poke = false)
    (hc : s.cnt = 0) : i2cNext cw s i = (i2cFsmStep s i).setCnt i.load := by
  obtain ⟨fsm, scl, sda, data, ack, bits, cnt⟩ := s
  simp only at hn hc
  subst hc
  simp [i2cNext, i2cPoked, hp, i2cIdle, hn, I2cSt.setCnt]

/-- IDLE with a command strobe: exactly one FSM step (even when `cnt = 0` in the same cycle), on the registers as
    written by the bus, and the clock generator is enabled for this cycle: `cnt' = (cnt = 0) ? load : cnt - 1`. -/
theorem i2c_next_accept (cw : Nat) (s : I2cSt) (i : I2cIn) (hf : s.fsm = .idle) (hr : i.run = true) :
    i2cNext cw s i = (i2cFsmStep (i2cPoked s i) i).setCnt (if s.cnt = 0 then i.load else s.cnt - 1) := by
  obtain ⟨fsm, scl, sda, data, ack, bits, cnt⟩ := s
  simp only at hf
  subst hf
  cases hpk : i.poke <;> by_cases h0 : cnt = 0 <;>
    simp [i2cNext, i2cPoked, i2cIdle, hr, hpk, h0, I2cSt.setCnt]

/-- IDLE without a command strobe and without a bus write: the whole state, counter included, is frozen. -/
theorem i2c_next_idle_hold (cw : Nat) (s : I2cSt) (i : I2cIn) (hf : s.fsm = .idle) (hr : i.run = false)
    (hp : i.poke = false) : i2cNext cw s i = s := by
  obtain ⟨fsm, scl, sda, data, ack, bits, cnt⟩ := s
  obtain ⟨st, sp, wr, rd, sdaI, load, poke, pdata, pack⟩ := i
  simp only at hf hp
  subst hf hp
  simp only [I2cIn.run, Bool.or_eq_false_iff] at hr
  obtain ⟨⟨⟨h1, h2⟩, h3⟩, h4⟩ := hr
  subst h1 h2 h3 h4
  by_cases h0 : cnt = 0 <;> simp [i2cNext, i2cPoked, i2cIdle, I2cIn.run, i2cFsmStep, h0]

/-- While busy, the first `d ≤ cnt` cycles only count down. -/
theorem i2c_run_wait (cw : Nat) (f : Nat → I2cIn) (hp : ∀ t, (f t).poke = false) (s : I2cSt) (hn : s.fsm ≠ .idle) :
    ∀ d, d ≤ s.cnt → runFn (i2cMachine cw) s f d = s.setCnt (s.cnt - d) := by
  intro d
  induction d with
  | zero => intro _; rfl
  | succ d ih =>
    intro hd
    have h1 : runFn (i2cMachine cw) s f (d + 1) = i2cNext cw (runFn (i2cMachine cw) s f d) (f d) := rfl
    rw [h1, ih (by omega), i2c_next_wait cw (s.setCnt (s.cnt - d)) (f d) hn (hp d) (by simp only [i2c_setCnt_cnt]; omega)]
    simp only [i2c_setCnt_cnt, i2c_setCnt_setCnt]
    have e : s.cnt - d - 1 = s.cnt - (d + 1) := by omega
    rw [e]

/-- While busy, the next FSM step happens in cycle `cnt` (the state after `cnt + 1` cycles shows it). -/
theorem i2c_run_tick (cw : Nat) (f : Nat → I2cIn) (hp : ∀ t, (f t).poke = false) (s : I2cSt) (hn : s.fsm ≠ .idle) :
    runFn (i2cMachine cw) s f (s.cnt + 1) = (i2cFsmStep s (f s.cnt)).setCnt (f s.cnt).load := by
  have h1 : runFn (i2cMachine cw) s f (s.cnt + 1) = i2cNext cw (runFn (i2cMachine cw) s f s.cnt) (f s.cnt) := rfl
  rw [h1, i2c_run_wait cw f hp s hn s.cnt (Nat.le_refl _),
    i2c_next_tick cw (s.setCnt (s.cnt - s.cnt)) (f s.cnt) hn (hp _) (by simp), i2cFsmStep_setCnt, i2c_setCnt_setCnt]

/-- The inputs seen by the FSM steps: step `j` happens in cycle `c + j·(l+1)`. -/
def i2cTickIn (f : Nat → I2cIn) (c l : Nat) : Nat → I2cIn := fun j => f (c + j * (l + 1))

/-- **FSM steps in cycles.**  If the first `k` steps do not reach IDLE, the state after `cnt + k·(l+1) + 1` cycles is
    the state after `k + 1` FSM steps (fed with the inputs of cycles `cnt + j·(l+1)`), with the counter reloaded. -/
theorem i2c_run_steps (cw l : Nat) (f : Nat → I2cIn) (hl : ∀ t, (f t).load = l) (hp : ∀ t, (f t).poke = false)
    (s : I2cSt) (k : Nat) (hbusy : ∀ j, j ≤ k → (i2cSteps s (i2cTickIn f s.cnt l) j).fsm ≠ .idle) :
    runFn (i2cMachine cw) s f (s.cnt + k * (l + 1) + 1) = (i2cSteps s (i2cTickIn f s.cnt l) (k + 1)).setCnt l := by
  induction k with
  | zero =>
    have h0 := hbusy 0 (Nat.le_refl _)
    have e : s.cnt + 0 * (l + 1) + 1 = s.cnt + 1 := by omega
    rw [e, i2c_run_tick cw f hp s h0, hl]
    simp [i2cSteps, i2cTickIn]
  | succ k ih =>
    have ih' := ih (fun j hj => hbusy j (by omega))
    have hk := hbusy (k + 1) (Nat.le_refl _)
    have e : s.cnt + (k + 1) * (l + 1) + 1 = (s.cnt + k * (l + 1) + 1) + (l + 1) := by
      rw [Nat.succ_mul]; omega
    rw [e, runFn_add, ih']
    have ht := i2c_run_tick cw (fun j => f (s.cnt + k * (l + 1) + 1 + j)) (fun t => hp _)
      ((i2cSteps s (i2cTickIn f s.cnt l) (k + 1)).setCnt l) hk
    rw [i2c_setCnt_cnt] at ht
    rw [ht, hl]
    have e2 : s.cnt + k * (l + 1) + 1 + l = s.cnt + (k + 1) * (l + 1) := by rw [Nat.succ_mul]; omega
    rw [e2, i2cFsmStep_setCnt, i2c_setCnt_setCnt]
    rfl

/-- Between two FSM steps only the counter moves. -/
theorem i2c_run_between (cw l : Nat) (f : Nat → I2cIn) (hl : ∀ t, (f t).load = l) (hp : ∀ t, (f t).poke = false)
    (s : I2cSt) (k : Nat) (hbusy : ∀ j, j ≤ k + 1 → (i2cSteps s (i2cTickIn f s.cnt l) j).fsm ≠ .idle)
    (d : Nat) (hd : d ≤ l) :
    runFn (i2cMachine cw) s f (s.cnt + k * (l + 1) + 1 + d) =
      (i2cSteps s (i2cTickIn f s.cnt l) (k + 1)).setCnt (l - d) := by
  rw [runFn_add, i2c_run_steps cw l f hl hp s k (fun j hj => hbusy j (by omega))]
  rw [i2c_run_wait cw _ (fun t => hp _) ((i2cSteps s (i2cTickIn f s.cnt l) (k + 1)).setCnt l)
    (hbusy (k + 1) (Nat.le_refl _)) d hd]
  simp

/-- Rank bookkeeping along the FSM steps. -/
theorem i2c_steps_rank (s : I2cSt) (g : Nat → I2cIn) (hb : s.bits < 16) :
    ∀ j, j ≤ i2cRank s → i2cRank (i2cSteps s g j) + j = i2cRank s ∧ (i2cSteps s g j).bits < 16 := by
  intro j
  induction j with
  | zero => intro _; exact ⟨rfl, hb⟩
  | succ j ih =>
    intro hj
    obtain ⟨h1, h2⟩ := ih (by omega)
    have hn : (i2cSteps s g j).fsm ≠ .idle := by
      intro h
      have := (i2c_rank_zero_iff _).mpr h
      omega
    have hr := i2c_rank_step (i2cSteps s g j) (g j) h2 hn
    refine ⟨?_, i2c_fsm_step_bits _ _ h2⟩
    show i2cRank (i2cFsmStep (i2cSteps s g j) (g j)) + (j + 1) = _
    omega

theorem i2c_steps_busy (s : I2cSt) (g : Nat → I2cIn) (hb : s.bits < 16) (j : Nat) (hj : j < i2cRank s) :
    (i2cSteps s g j).fsm ≠ .idle := by
  intro h
  have h1 := (i2c_steps_rank s g hb j (by omega)).1
  have h2 := (i2c_rank_zero_iff _).mpr h
  omega

theorem i2c_steps_idle (s : I2cSt) (g : Nat → I2cIn) (hb : s.bits < 16) : (i2cSteps s g (i2cRank s)).fsm = .idle := by
  have h1 := (i2c_steps_rank s g hb (i2cRank s) (Nat.le_refl _)).1
  exact (i2c_rank_zero_iff _).mp (by omega)

/-- **State in every cycle of a busy phase.**  From a busy state `s` with `cnt = c`, rank `R` (FSM steps to IDLE),
    constant `load = l`, no bus writes, arbitrary strobes and `sda_i`:
    * cycles `t ≤ c`: only the counter has moved;
    * step `k < R` happens in cycle `c + k·(l+1)`: one cycle later the state is that after `k + 1` FSM steps with
      `cnt = l`, and (for `k + 1 < R`) `d ≤ l` cycles further only the counter has moved. -/
theorem i2c_busy_states (cw l : Nat) (f : Nat → I2cIn) (hl : ∀ t, (f t).load = l) (hp : ∀ t, (f t).poke = false)
    (s : I2cSt) (hb : s.bits < 16) :
    (∀ t, t ≤ s.cnt → s.fsm ≠ .idle → runFn (i2cMachine cw) s f t = s.setCnt (s.cnt - t)) ∧
    (∀ k, k < i2cRank s →
      runFn (i2cMachine cw) s f (s.cnt + k * (l + 1) + 1) = (i2cSteps s (i2cTickIn f s.cnt l) (k + 1)).setCnt l) ∧
    (∀ k d, k + 1 < i2cRank s → d ≤ l →
      runFn (i2cMachine cw) s f (s.cnt + k * (l + 1) + 1 + d) =
        (i2cSteps s (i2cTickIn f s.cnt l) (k + 1)).setCnt (l - d)) :=
  ⟨fun t ht hn => i2c_run_wait cw f hp s hn t ht,
   fun k hk => i2c_run_steps cw l f hl hp s k (fun j hj => i2c_steps_busy s _ hb j (by omega)),
   fun k d hk hd => i2c_run_between cw l f hl hp s k (fun j hj => i2c_steps_busy s _ hb j (by omega)) d hd⟩

/-- **Exact length of a busy phase.**  From a busy state with `cnt = c` and rank `R`, the machine is outside IDLE in
    cycles `0 … c + (R-1)·(l+1)` and in IDLE (with `cnt = l`) after exactly `c + (R-1)·(l+1) + 1` cycles. -/
theorem i2c_busy_exact (cw l : Nat) (f : Nat → I2cIn) (hl : ∀ t, (f t).load = l) (hp : ∀ t, (f t).poke = false)
    (s : I2cSt) (hb : s.bits < 16) (hn : s.fsm ≠ .idle) :
    (∀ t, t < s.cnt + (i2cRank s - 1) * (l + 1) + 1 → (runFn (i2cMachine cw) s f t).fsm ≠ .idle) ∧
    runFn (i2cMachine cw) s f (s.cnt + (i2cRank s - 1) * (l + 1) + 1) =
      (i2cSteps s (i2cTickIn f s.cnt l) (i2cRank s)).setCnt l ∧
    (runFn (i2cMachine cw) s f (s.cnt + (i2cRank s - 1) * (l + 1) + 1)).fsm = .idle := by
  have hR : i2cRank s ≠ 0 := fun h => hn ((i2c_rank_zero_iff s).mp h)
  obtain ⟨r, hr⟩ : ∃ r, i2cRank s = r + 1 := ⟨i2cRank s - 1, by omega⟩
  obtain ⟨w, st, bt⟩ := i2c_busy_states cw l f hl hp s hb
  have hlast := st r (by omega)
  have hidle := i2c_steps_idle s (i2cTickIn f s.cnt l) hb
  have e : i2cRank s - 1 = r := by omega
  rw [e]
  rw [hr] at hidle
  refine ⟨?_, ?_, ?_⟩
  · intro t ht
    by_cases h1 : t ≤ s.cnt
    · rw [w t h1 hn]; exact hn
    · -- t = cnt + k (l+1) + 1 + d
      have hpos : 0 < l + 1 := by omega
      have hdm := Nat.div_add_mod (t - s.cnt - 1) (l + 1)
      have hml := Nat.mod_lt (t - s.cnt - 1) hpos
      have hk : (t - s.cnt - 1) / (l + 1) < r := by
        apply (Nat.div_lt_iff_lt_mul hpos).mpr
        omega
      rw [Nat.mul_comm] at hdm
      generalize (t - s.cnt - 1) / (l + 1) = k at *
      generalize (t - s.cnt - 1) % (l + 1) = d at *
      have et : t = s.cnt + k * (l + 1) + 1 + d := by
        generalize k * (l + 1) = A at *
        omega
      rw [et, bt k d (by omega) (by omega)]
      exact i2c_steps_busy s _ hb (k + 1) (by omega)
  · rw [hlast, hr]
  · rw [hlast]; exact hidle

/-! ### From the acceptance of a command in IDLE to the return to IDLE -/

/-- Number of FSM steps of each command, read off the state right after the acceptance cycle. -/
theorem i2c_accept_rank (cw : Nat) (s0 : I2cSt) (i : I2cIn) (hf : s0.fsm = .idle) (hr : i.run = true) :
    (i.start = true → s0.scl = true → i2cRank (i2cNext cw s0 i) = 1) ∧
    (i.start = true → s0.scl = false → i2cRank (i2cNext cw s0 i) = 3) ∧
    (i.start = false → i.write = true → i2cRank (i2cNext cw s0 i) = 19) ∧
    (i.start = false → i.write = false → i.read = true → i2cRank (i2cNext cw s0 i) = 18) ∧
    (i.start = false → i.write = false → i.read = false → s0.scl = false → i2cRank (i2cNext cw s0 i) = 3) ∧
    (i.start = false → i.write = false → i.read = false → s0.scl = true → i2cRank (i2cNext cw s0 i) = 0) := by
  have hp := i2c_poked_fields s0 i
  have e : i2cRank (i2cNext cw s0 i) = i2cRank (i2cFsmStep (i2cPoked s0 i) i) := by
    rw [i2c_next_accept cw s0 i hf hr]; exact i2cRank_congr _ _ rfl rfl
  rw [e]
  generalize i2cPoked s0 i = p at *
  obtain ⟨pf, pscl, psda, pdata, pack, pbits, pcnt⟩ := p
  obtain ⟨h1, h2, _, _, _⟩ := hp
  simp only at h1 h2
  rw [hf] at h1
  subst h1
  have hstop : i.start = false → i.write = false → i.read = false → i.stop = true := by
    intro a b c; simp only [I2cIn.run, a, b, c] at hr; simpa using hr
  refine ⟨?_, ?_, ?_, ?_, ?_, ?_⟩
  · intro a b; rw [← h2] at b; simp [i2cFsmStep, i2cRank, a, b]
  · intro a b; rw [← h2] at b; simp [i2cFsmStep, i2cRank, a, b]
  · intro a b; simp [i2cFsmStep, i2cRank, a, b]
  · intro a b c; simp [i2cFsmStep, i2cRank, a, b, c]
  · intro a b c d; rw [← h2] at d; simp [i2cFsmStep, i2cRank, a, b, c, d, hstop a b c]
  · intro a b c d; rw [← h2] at d; simp [i2cFsmStep, i2cRank, a, b, c, d, hstop a b c]

/-- **Exact busy time of a command.**  A command strobe arrives in IDLE in cycle 0 (any bus write in that cycle is
    allowed); afterwards `load = l` is constant and the transfer register is not written.  With `s1` the state after
    the acceptance cycle, `c' = s1.cnt = (cnt = 0 ? l : cnt - 1)` and `R = i2cRank s1` FSM steps to go, the machine is
    outside IDLE after `t` cycles for every `1 ≤ t ≤ c' + 1 + (R-1)(l+1)`, and back in IDLE (with `cnt = l`) after
    `c' + 2 + (R-1)(l+1)` cycles; FSM step `k < R` of the command happens in cycle `1 + c' + k(l+1)`. -/
theorem i2c_accept_exact (cw l : Nat) (f : Nat → I2cIn) (hl : ∀ t, (f t).load = l)
    (hp : ∀ t, (f (t + 1)).poke = false) (s0 : I2cSt) (hf : s0.fsm = .idle) (hb : s0.bits < 16)
    (hr : (f 0).run = true) :
    let s1 := i2cNext cw s0 (f 0)
    let g := i2cTickIn (fun t => f (t + 1)) s1.cnt l
    s1 = (i2cFsmStep (i2cPoked s0 (f 0)) (f 0)).setCnt (if s0.cnt = 0 then l else s0.cnt - 1) ∧
    (s1.fsm ≠ .idle →
      (∀ t, 1 ≤ t → t ≤ s1.cnt + 1 + (i2cRank s1 - 1) * (l + 1) → (runFn (i2cMachine cw) s0 f t).fsm ≠ .idle) ∧
      runFn (i2cMachine cw) s0 f (s1.cnt + 2 + (i2cRank s1 - 1) * (l + 1)) = (i2cSteps s1 g (i2cRank s1)).setCnt l ∧
      (runFn (i2cMachine cw) s0 f (s1.cnt + 2 + (i2cRank s1 - 1) * (l + 1))).fsm = .idle ∧
      (∀ k, k < i2cRank s1 →
        runFn (i2cMachine cw) s0 f (1 + s1.cnt + k * (l + 1) + 1) = (i2cSteps s1 g (k + 1)).setCnt l)) := by
  intro s1 g
  have hacc := i2c_next_accept cw s0 (f 0) hf hr
  rw [hl 0] at hacc
  refine ⟨hacc, fun hn => ?_⟩
  have hb1 : s1.bits < 16 := by
    show (i2cNext cw s0 (f 0)).bits < 16
    rw [hacc, i2c_setCnt_bits]
    exact i2c_fsm_step_bits _ _ (by rw [(i2c_poked_fields s0 (f 0)).2.2.2.1]; exact hb)
  obtain ⟨hbusy, hend, hidle⟩ := i2c_busy_exact cw l (fun t => f (t + 1)) (fun t => hl _) hp s1 hb1 hn
  have hst := (i2c_busy_states cw l (fun t => f (t + 1)) (fun t => hl _) hp s1 hb1).2.1
  have hshift : ∀ t, runFn (i2cMachine cw) s0 f (t + 1) = runFn (i2cMachine cw) s1 (fun t => f (t + 1)) t :=
    fun t => runFn_succ_shift (i2cMachine cw) s0 f t
  have e2 : s1.cnt + 2 + (i2cRank s1 - 1) * (l + 1) = (s1.cnt + (i2cRank s1 - 1) * (l + 1) + 1) + 1 := by omega
  refine ⟨?_, ?_, ?_, ?_⟩
  · intro t h1 h2
    obtain ⟨t', rfl⟩ : ∃ t', t = t' + 1 := ⟨t - 1, by omega⟩
    rw [hshift]
    exact hbusy t' (by omega)
  · rw [e2, hshift]; exact hend
  · rw [e2, hshift]; exact hidle
  · intro k hk
    have e3 : 1 + s1.cnt + k * (l + 1) + 1 = (s1.cnt + k * (l + 1) + 1) + 1 := by omega
    rw [e3, hshift]
    exact hst k hk

/-- A lone stop strobe in IDLE with SCL released, full cycle: the FSM stays in IDLE and no line moves; only the clock
    generator is enabled for that one cycle (`run` lifts `idle`), so the divider counter ticks once. -/
theorem i2c_next_stop_ignored (cw : Nat) (s : I2cSt) (i : I2cIn) (hf : s.fsm = .idle) (hscl : s.scl = true)
    (hr : i.run = true) (hst : i.start = false) (hw : i.write = false) (hrd : i.read = false) :
    i2cNext cw s i = (i2cPoked s i).setCnt (if s.cnt = 0 then i.load else s.cnt - 1) := by
  have hp := i2c_poked_fields s i
  rw [i2c_next_accept cw s i hf hr,
    i2c_stop_ignored (i2cPoked s i) i (by rw [hp.1]; exact hf) (by rw [hp.2.1]; exact hscl) hst hw hrd]

/-- `i2c_accept_exact` for a command of `R + 1` FSM steps, in closed form: outside IDLE after `t` cycles for
    `1 ≤ t ≤ B`, in IDLE with the counter reloaded after `B + 1` cycles, `B = c' + 1 + R·(l+1)`. -/
theorem i2c_accept_busy (cw l : Nat) (f : Nat → I2cIn) (hl : ∀ t, (f t).load = l)
    (hp : ∀ t, (f (t + 1)).poke = false) (s0 : I2cSt) (hf : s0.fsm = .idle) (hb : s0.bits < 16)
    (hr : (f 0).run = true) (R : Nat) (hR : i2cRank (i2cNext cw s0 (f 0)) = R + 1) :
    (∀ t, 1 ≤ t → t ≤ (if s0.cnt = 0 then l else s0.cnt - 1) + 1 + R * (l + 1) →
      (runFn (i2cMachine cw) s0 f t).fsm ≠ .idle) ∧
    (runFn (i2cMachine cw) s0 f ((if s0.cnt = 0 then l else s0.cnt - 1) + 1 + R * (l + 1) + 1)).fsm = .idle ∧
    (runFn (i2cMachine cw) s0 f ((if s0.cnt = 0 then l else s0.cnt - 1) + 1 + R * (l + 1) + 1)).cnt = l := by
  obtain ⟨h1, h2⟩ := i2c_accept_exact cw l f hl hp s0 hf hb hr
  have hn : (i2cNext cw s0 (f 0)).fsm ≠ .idle := by
    intro h
    have := (i2c_rank_zero_iff _).mpr h
    omega
  obtain ⟨a, b, c, _⟩ := h2 hn
  have hc : (i2cNext cw s0 (f 0)).cnt = if s0.cnt = 0 then l else s0.cnt - 1 := by rw [h1]; rfl
  have e : i2cRank (i2cNext cw s0 (f 0)) - 1 = R := by omega
  rw [hc, e] at a b c
  have e2 : (if s0.cnt = 0 then l else s0.cnt - 1) + 1 + R * (l + 1) + 1 =
      (if s0.cnt = 0 then l else s0.cnt - 1) + 2 + R * (l + 1) := by omega
  rw [e2]
  refine ⟨a, c, ?_⟩
  rw [b]; rfl

/-! ### Bus writes to data/ack do not change the timing -/

/-- Outside IDLE the control registers (fsm, bits, cnt) of the next cycle depend only on the control registers and
    on `load`: not on data, ack, the bus lines, the strobes, `sda_i` or a bus write. -/
theorem i2c_next_ctl (cw : Nat) (s t : I2cSt) (i j : I2cIn) (hn : s.fsm ≠ .idle) (h1 : s.fsm = t.fsm)
    (h2 : s.bits = t.bits) (h3 : s.cnt = t.cnt) (hl : i.load = j.load) :
    (i2cNext cw s i).fsm = (i2cNext cw t j).fsm ∧ (i2cNext cw s i).bits = (i2cNext cw t j).bits ∧
    (i2cNext cw s i).cnt = (i2cNext cw t j).cnt := by
  have hp := i2c_poked_fields s i
  have hq := i2c_poked_fields t j
  have a1 : (i2cPoked s i).fsm = (i2cPoked t j).fsm := by rw [hp.1, hq.1, h1]
  have a2 : (i2cPoked s i).bits = (i2cPoked t j).bits := by rw [hp.2.2.2.1, hq.2.2.2.1, h2]
  have a3 : (i2cPoked s i).cnt = (i2cPoked t j).cnt := by rw [hp.2.2.2.2, hq.2.2.2.2, h3]
  have an : (i2cPoked s i).fsm ≠ .idle := by rw [hp.1]; exact hn
  clear hp hq
  simp only [i2cNext]
  generalize i2cPoked s i = p at *
  generalize i2cPoked t j = q at *
  obtain ⟨pf, pscl, psda, pdata, pack, pbits, pcnt⟩ := p
  obtain ⟨qf, qscl, qsda, qdata, qack, qbits, qcnt⟩ := q
  simp only at a1 a2 a3 an
  subst a1 a2 a3
  by_cases h0 : pcnt = 0 <;> by_cases hb0 : pbits = 0 <;> cases pf <;> simp_all [i2cIdle, i2cFsmStep]

/-- `i2c_busy_exact` without the "no bus write" hypothesis (control registers only). -/
theorem i2c_busy_exact_any (cw l : Nat) (f : Nat → I2cIn) (hl : ∀ t, (f t).load = l)
    (s : I2cSt) (hb : s.bits < 16) (hn : s.fsm ≠ .idle) :
    (∀ t, t < s.cnt + (i2cRank s - 1) * (l + 1) + 1 → (runFn (i2cMachine cw) s f t).fsm ≠ .idle) ∧
    (runFn (i2cMachine cw) s f (s.cnt + (i2cRank s - 1) * (l + 1) + 1)).fsm = .idle ∧
    (runFn (i2cMachine cw) s f (s.cnt + (i2cRank s - 1) * (l + 1) + 1)).cnt = l := by
  let f' : Nat → I2cIn := fun t => { f t with poke := false }
  obtain ⟨hbusy, hend, hidle⟩ := i2c_busy_exact cw l f' (fun t => hl t) (fun _ => rfl) s hb hn
  have hcnt : (runFn (i2cMachine cw) s f' (s.cnt + (i2cRank s - 1) * (l + 1) + 1)).cnt = l := by rw [hend]; rfl
  generalize s.cnt + (i2cRank s - 1) * (l + 1) + 1 = T at *
  have key : ∀ t, t ≤ T →
      (runFn (i2cMachine cw) s f t).fsm = (runFn (i2cMachine cw) s f' t).fsm ∧
      (runFn (i2cMachine cw) s f t).bits = (runFn (i2cMachine cw) s f' t).bits ∧
      (runFn (i2cMachine cw) s f t).cnt = (runFn (i2cMachine cw) s f' t).cnt := by
    intro t
    induction t with
    | zero => intro _; exact ⟨rfl, rfl, rfl⟩
    | succ t ih =>
      intro ht
      obtain ⟨e1, e2, e3⟩ := ih (by omega)
      have hnb : (runFn (i2cMachine cw) s f t).fsm ≠ .idle := by rw [e1]; exact hbusy t (by omega)
      exact i2c_next_ctl cw _ _ (f t) (f' t) hnb e1 e2 e3 rfl
  refine ⟨fun t ht => ?_, ?_, ?_⟩
  · rw [(key t (by omega)).1]; exact hbusy t ht
  · rw [(key T (Nat.le_refl _)).1]; exact hidle
  · rw [(key T (Nat.le_refl _)).2.2]; exact hcnt

/-- `i2c_accept_busy` for arbitrary bus writes to data/ack during the command: they cannot change its duration. -/
theorem i2c_accept_busy_any (cw l : Nat) (f : Nat → I2cIn) (hl : ∀ t, (f t).load = l)
    (s0 : I2cSt) (hf : s0.fsm = .idle) (hb : s0.bits < 16)
    (hr : (f 0).run = true) (R : Nat) (hR : i2cRank (i2cNext cw s0 (f 0)) = R + 1) :
    (∀ t, 1 ≤ t → t ≤ (if s0.cnt = 0 then l else s0.cnt - 1) + 1 + R * (l + 1) →
      (runFn (i2cMachine cw) s0 f t).fsm ≠ .idle) ∧
    (runFn (i2cMachine cw) s0 f ((if s0.cnt = 0 then l else s0.cnt - 1) + 1 + R * (l + 1) + 1)).fsm = .idle ∧
    (runFn (i2cMachine cw) s0 f ((if s0.cnt = 0 then l else s0.cnt - 1) + 1 + R * (l + 1) + 1)).cnt = l := by
  have hacc := i2c_next_accept cw s0 (f 0) hf hr
  rw [hl 0] at hacc
  have hn : (i2cNext cw s0 (f 0)).fsm ≠ .idle := by
    intro h
    have := (i2c_rank_zero_iff _).mpr h
    omega
  have hb1 : (i2cNext cw s0 (f 0)).bits < 16 := by
    rw [hacc, i2c_setCnt_bits]
    exact i2c_fsm_step_bits _ _ (by rw [(i2c_poked_fields s0 (f 0)).2.2.2.1]; exact hb)
  have hc : (i2cNext cw s0 (f 0)).cnt = if s0.cnt = 0 then l else s0.cnt - 1 := by rw [hacc]; rfl
  obtain ⟨a, b, c⟩ := i2c_busy_exact_any cw l (fun t => f (t + 1)) (fun t => hl _) (i2cNext cw s0 (f 0)) hb1 hn
  have e : i2cRank (i2cNext cw s0 (f 0)) - 1 = R := by omega
  rw [hc, e] at a b c
  have hshift : ∀ t, runFn (i2cMachine cw) s0 f (t + 1) =
      runFn (i2cMachine cw) (i2cNext cw s0 (f 0)) (fun t => f (t + 1)) t :=
    fun t => runFn_succ_shift (i2cMachine cw) s0 f t
  have e2 : (if s0.cnt = 0 then l else s0.cnt - 1) + 1 + R * (l + 1) + 1 =
      ((if s0.cnt = 0 then l else s0.cnt - 1) + R * (l + 1) + 1) + 1 := by omega
  rw [e2, hshift]
  refine ⟨?_, b, c⟩
  intro t h1 h2
  obtain ⟨t', rfl⟩ : ∃ t', t = t' + 1 := ⟨t - 1, by omega⟩
  rw [hshift]
  exact a t' (by omega)

end Litex.Periph
