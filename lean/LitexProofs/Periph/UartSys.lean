import LitexProofs.Periph.UartTop
import LitexProofs.Periph.Uart
/-
  `UART(RS232PHY)`: the TX FIFO's output register feeds the transmitter.  While a frame is on the line the FIFO holds
  its output (valid and byte), the frame is the frame of that byte, and the FIFO is popped exactly in the frame's last
  cycle.  Core Lean only.
-/
namespace Litex.Periph
open Litex Litex.Stream

def uartSysM (tw dtx drx : Nat) (rxWe : Bool) : Machine UartSysIn UartSysSt Bool where
  init := { top := (uartTopM dtx drx rxWe).init, txp := (uartTx tw).init, rxp := (uartRx tw).init }
  out s _ := s.txp.tx
  next := uartSysNext tw dtx drx rxWe

/-- The FIFO's pop strobe in the complete UART is the transmitter's `sink.ready`. -/
theorem uartSys_pop (tw : Nat) (s : UartSysSt) (i : UartSysIn) : (uartSysTopIn tw s i).srcRdy = txReady s.txp := rfl

/-- One cycle of the TX path inside the complete UART. -/
theorem uartSys_tx_step (tw dtx drx : Nat) (rxWe : Bool) (s : UartSysSt) (i : UartSysIn) :
    (uartSysNext tw dtx drx rxWe s i).txp = txNext tw s.txp { valid := s.top.tx.readable, data := s.top.tx.dout.data } ∧
    (s.top.tx.readable = true → txReady s.txp = false →
      (uartSysNext tw dtx drx rxWe s i).top.tx.readable = true ∧
      (uartSysNext tw dtx drx rxWe s i).top.tx.dout = s.top.tx.dout) := by
  refine ⟨by simp [uartSysNext, uartTopOut, syncFifoBuffered], fun hr hn => ?_⟩
  simp [uartSysNext, uartTopNext, uartSysTopIn, syncFifoBuffered, hr, hn]

/-- A byte `d` waiting in the TX FIFO's output register while the transmitter is idle: `1 + r` cycles later
    (`r·tw < 10·2^32`) the transmitter is `r` cycles into the frame of `d`, and the FIFO still offers the same byte. -/
theorem uartSys_tx_frame (tw dtx drx : Nat) (rxWe : Bool) (htw : tw < M32) (s : UartSysSt) (f : Nat → UartSysIn)
    (hidle : s.txp.run = false) (hv : s.top.tx.readable = true) (hd : s.top.tx.dout.data < 256) (r : Nat)
    (hr : r * tw < 10 * M32) :
    let st := runFn (uartSysM tw dtx drx rxWe) s f (1 + r)
    st.txp = txRunSt tw s.top.tx.dout.data r ∧ st.top.tx.readable = true ∧ st.top.tx.dout = s.top.tx.dout := by
  induction r with
  | zero =>
    have h := uartSys_tx_step tw dtx drx rxWe s (f 0)
    have hnr : txReady s.txp = false := by simp [txReady, hidle]
    refine ⟨?_, (h.2 hv hnr).1, (h.2 hv hnr).2⟩
    show (uartSysNext tw dtx drx rxWe s (f 0)).txp = _
    rw [h.1]
    exact tx_accept tw htw s.txp _ hidle hv hd
  | succ r ih =>
    have e1 : (r + 1) * tw = r * tw + tw := Nat.succ_mul r tw
    obtain ⟨h1, h2, h3⟩ := ih (by omega)
    have h := uartSys_tx_step tw dtx drx rxWe (runFn (uartSysM tw dtx drx rxWe) s f (1 + r)) (f (1 + r))
    have hnr : txReady (runFn (uartSysM tw dtx drx rxWe) s f (1 + r)).txp = false := by
      rw [h1]; exact tx_not_ready tw _ r hr
    have e : 1 + (r + 1) = (1 + r) + 1 := by omega
    rw [e]
    refine ⟨?_, (h.2 h2 hnr).1, ((h.2 h2 hnr).2).trans h3⟩
    show (uartSysNext tw dtx drx rxWe _ (f (1 + r))).txp = _
    rw [h.1, h1]
    exact tx_run_step tw _ r htw _ hr

end Litex.Periph
