import LitexModel.Periph.Glue
import LitexProofs.Periph.SpiSlave
import LitexProofs.Periph.Timers
/-
  SPISlave in pad terms (synchroniser delay, MISO bit order), `Timer.add_uptime`, `MultiChannelPWM`.  Core Lean only.
-/
namespace Litex.Periph
open Litex

/-! ### SPISlave: the synchronised signals are the pads two cycles earlier -/

theorem slv_sync (dw : Nat) (s : SlvSt) (z a b : SlvIn) :
    let e := slvNext dw (slvNext dw (slvNext dw s z) a) b
    e.c1 = a.clk ∧ e.s1 = !a.csN ∧ e.m1 = a.mosi ∧ e.clkD = z.clk ∧ e.c0 = b.clk ∧ e.s0 = !b.csN ∧ e.m0 = b.mosi := by
  simp [slvNext]

/-- Rising / falling edge detection in pad terms: an edge between the pad values three and two cycles ago. -/
theorem slv_edges (dw : Nat) (s : SlvSt) (z a b : SlvIn) :
    let e := slvNext dw (slvNext dw (slvNext dw s z) a) b
    e.rise = (a.clk && !z.clk) ∧ e.fall = (!a.clk && z.clk) := by
  simp [slvNext, SlvSt.rise, SlvSt.fall]

/-- MISO, MSB first: after `f < dw` falling edges the pad shows bit `dw - 1 - f` of the word to send. -/
theorem slv_miso_bit (dw tx f md : Nat) (hf : f < dw) (h : md % 2 ^ dw = (tx * 2 ^ f) % 2 ^ dw) :
    md.testBit (dw - 1) = tx.testBit (dw - 1 - f) := by
  have h1 : (md % 2 ^ dw).testBit (dw - 1) = md.testBit (dw - 1) := by
    rw [Nat.testBit_mod_two_pow]; simp; omega
  rw [← h1, h, Nat.testBit_mod_two_pow, ← Nat.shiftLeft_eq, Nat.testBit_shiftLeft]
  have : dw - 1 < dw := by omega
  have : f ≤ dw - 1 := by omega
  simp [*]

/-! ### Timer.add_uptime -/

def uptimeM : Machine Bool UptimeSt Nat where
  init := { cycles := 0, latched := 0 }
  out s _ := s.latched
  next := uptimeNext

theorem uptime_cycles (ls : List Bool) (s : UptimeSt) :
    (uptimeM.runFrom s ls).cycles = (s.cycles + ls.length) % 2 ^ 64 ∨ ls = [] := by
  induction ls generalizing s with
  | nil => right; rfl
  | cons l ls ih =>
    left
    rcases ih (uptimeNext s l) with h | h
    · show (uptimeM.runFrom (uptimeNext s l) ls).cycles = _
      rw [h]; simp only [uptimeNext, List.length_cons, Nat.mod_add_mod]; congr 1; omega
    · subst h; simp [Machine.runFrom, uptimeM, uptimeNext]

theorem uptime_hold (ls : List Bool) (h : ∀ l ∈ ls, l = false) (s : UptimeSt) :
    (uptimeM.runFrom s ls).latched = s.latched := by
  induction ls generalizing s with
  | nil => rfl
  | cons l ls ih =>
    have hl := h l (by simp)
    show (uptimeM.runFrom (uptimeNext s l) ls).latched = _
    rw [ih (fun x hx => h x (by simp [hx]))]; simp [uptimeNext, hl]

/-! ### MultiChannelPWM -/

/-- The shared counter is the counter of a single `PWM` driven with channel 0's enable (and no reset). -/
theorem mcpwm_counter (s : McPwmSt) (period : Nat) (chans : List (Bool × Nat)) (p : Bool) :
    (mcPwmNext s period chans).counter =
      (pwmNext { counter := s.counter, pwm := p }
        { enable := (chans.headD (false, 0)).1, reset := false, width := 0, period := period }).counter := by
  simp [mcPwmNext, pwmNext]

/-- Channel `k`'s output register is loaded with `enable_k ∧ counter < width_k`. -/
theorem mcpwm_channel (s : McPwmSt) (period : Nat) (chans : List (Bool × Nat)) (k : Nat) (hk : k < chans.length) :
    (mcPwmNext s period chans).pwm[k]? = some (chans[k].1 && decide (s.counter < chans[k].2)) := by
  simp [mcPwmNext, hk]

end Litex.Periph
