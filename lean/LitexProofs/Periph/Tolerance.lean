import LitexProofs.Periph.UartRx
/-
  Receiver timing tolerance (pure arithmetic): a transmitter whose bit period `P/Q` cycles is within ±2 % of the
  receiver's `2^32/tw`, any sub-cycle phase `ε/Q` of its start edge, at least 16 cycles per bit: the receiver's sample
  point `b + 1` falls inside the transmitter's bit `b`, for `b = 0 … 9`.  Core Lean only.
-/
namespace Litex.Periph
open Litex

theorem rx_tolerance_arith (tw P Q ε b : Nat) (h0 : 0 < tw) (h16 : 16 * tw ≤ M32) (hε : ε < Q)
    (hlo : 98 * M32 * Q ≤ 100 * (P * tw)) (hhi : 100 * (P * tw) ≤ 102 * M32 * Q) (hb : b ≤ 9) :
    b * P ≤ (rxSampleCycle tw (b + 1) + 1) * Q + ε ∧ (rxSampleCycle tw (b + 1) + 1) * Q + ε < (b + 1) * P := by
  have hQ : 0 < Q := by omega
  -- the sample cycle `c` satisfies K ≤ c·tw < K + tw with K = (2b+1)·2^31
  have hdm := Nat.div_add_mod ((2 * (b + 1) - 1) * HALF32 + tw - 1) tw
  have hml := Nat.mod_lt ((2 * (b + 1) - 1) * HALF32 + tw - 1) h0
  have hc : rxSampleCycle tw (b + 1) = ((2 * (b + 1) - 1) * HALF32 + tw - 1) / tw := rfl
  rw [← hc, Nat.mul_comm tw] at hdm
  generalize rxSampleCycle tw (b + 1) = c at *
  have e : (2 * (b + 1) - 1) * HALF32 = (2 * b + 1) * HALF32 := by
    have : 2 * (b + 1) - 1 = 2 * b + 1 := by omega
    rw [this]
  rw [e] at hdm hml
  -- products as atoms
  have hX1 : (2 * b + 1) * HALF32 * Q ≤ c * tw * Q := Nat.mul_le_mul_right Q (by omega)
  have hX2 : c * tw * Q < ((2 * b + 1) * HALF32 + tw) * Q := Nat.mul_lt_mul_of_pos_right (by omega) hQ
  have hE : ε * tw < Q * tw := Nat.mul_lt_mul_of_pos_right hε h0
  rw [Nat.add_mul] at hX2
  have hcomm : tw * Q = Q * tw := Nat.mul_comm _ _
  have hassoc : (2 * b + 1) * HALF32 * Q = (2 * b + 1) * (HALF32 * Q) := Nat.mul_assoc _ _ _
  -- compare after multiplying by tw
  have goal1 : b * P * tw ≤ ((c + 1) * Q + ε) * tw := by
    have l : ((c + 1) * Q + ε) * tw = c * tw * Q + Q * tw + ε * tw := by
      rw [Nat.add_mul, Nat.add_mul, Nat.one_mul, Nat.add_mul, Nat.mul_right_comm]
    have r : b * P * tw = b * (P * tw) := Nat.mul_assoc _ _ _
    rw [l, r]
    generalize c * tw * Q = W at *
    generalize Q * tw = U at *
    generalize ε * tw = E at *
    generalize P * tw = V at *
    clear hc e hdm hml hassoc l r
    have hbs : b = 0 ∨ b = 1 ∨ b = 2 ∨ b = 3 ∨ b = 4 ∨ b = 5 ∨ b = 6 ∨ b = 7 ∨ b = 8 ∨ b = 9 := by omega
    unfold M32 HALF32 at *
    rcases hbs with h | h | h | h | h | h | h | h | h | h <;> subst h <;> omega
  have goal2 : ((c + 1) * Q + ε) * tw < (b + 1) * P * tw := by
    have l : ((c + 1) * Q + ε) * tw = c * tw * Q + Q * tw + ε * tw := by
      rw [Nat.add_mul, Nat.add_mul, Nat.one_mul, Nat.add_mul, Nat.mul_right_comm]
    have r : (b + 1) * P * tw = (b + 1) * (P * tw) := Nat.mul_assoc _ _ _
    have h16' : 16 * (Q * tw) ≤ M32 * Q := by
      have := Nat.mul_le_mul_right Q h16
      rw [Nat.mul_assoc, hcomm] at this
      exact this
    rw [l, r]
    generalize c * tw * Q = W at *
    generalize Q * tw = U at *
    generalize ε * tw = E at *
    generalize P * tw = V at *
    clear hc e hdm hml hassoc l r
    have hbs : b = 0 ∨ b = 1 ∨ b = 2 ∨ b = 3 ∨ b = 4 ∨ b = 5 ∨ b = 6 ∨ b = 7 ∨ b = 8 ∨ b = 9 := by omega
    unfold M32 HALF32 at *
    rcases hbs with h | h | h | h | h | h | h | h | h | h <;> subst h <;> omega
  exact ⟨Nat.le_of_mul_le_mul_right goal1 h0, Nat.lt_of_mul_lt_mul_right goal2⟩

end Litex.Periph
