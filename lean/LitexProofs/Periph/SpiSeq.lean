import LitexProofs.Periph.Spi
import LitexModel.Periph.Glue
/-
  SPI master: the state after `done` is clean (`IdleOk`), so transfers of any lengths can follow each other; several
  chip selects and manual CS mode.  Core Lean only.
-/
namespace Litex.Periph
open Litex

/-- The divider counter in the last STOP cycle and the first IDLE cycle. -/
theorem spi_stop_last_cnt (c : SpiCfg) (div L m0 : Nat) (smp : Nat → Bool) (hdiv : 2 ≤ div) (hd16 : div < 65536)
    (k : Nat) (hk : k + 1 = div / 2) (s : SpiSt) (x : SpiIn) (hx : SpiHold div L x)
    (h : StopInv c div L m0 smp k s) : (spiNext c s x).cnt = div / 2 := by
  have hR := spiRise_eq s x k div h.cnt hx.div
  have hrise : spiRise s x = true := by rw [hR]; simp [hk]
  simp only [spiNext, hrise, if_true, h.cnt]
  omega

/-- One IDLE cycle without `start`: `done` is shown, the clock stays low, the divider keeps running inside its
    period, the FSM stays in IDLE. -/
theorem spi_idle_step (c : SpiCfg) (div : Nat) (hdiv : 2 ≤ div) (hd16 : div < 65536) (s : SpiSt) (x : SpiIn)
    (hxd : x.div = div) (hst : x.start = false) (h : IdleOk div s) :
    ((spiMaster c).out s x).done = true ∧ ((spiMaster c).out s x).clk = false ∧ ((spiMaster c).out s x).irq = false ∧
    IdleOk div (spiNext c s x) := by
  have hR := spiRise_eq s x s.cnt div rfl hxd
  have hF := spiFall_eq s x s.cnt div rfl hxd
  have hidle : (s.fsm == SpiFsm.idle) = true := by rw [h.fsm]; rfl
  have hrun : (s.fsm == SpiFsm.run) = false := by rw [h.fsm]; rfl
  have hstop : (s.fsm == SpiFsm.stop) = false := by rw [h.fsm]; rfl
  have hc := h.cnt
  refine ⟨by simp [spiMaster, hidle, hst], by simp [spiMaster, h.clk], by simp [spiMaster, hstop], ?_, ?_, ?_⟩
  · simp [spiNext, h.fsm, hst]
  · simp only [spiNext, hR, hF, decide_eq_true_eq]
    split
    · omega
    · split <;> omega
  · simp only [spiNext, hrun, h.clk]
    split
    · rfl
    · split <;> rfl

/-- Any number of IDLE cycles without `start` keeps the clean idle state. -/
theorem spi_idle_run (c : SpiCfg) (div : Nat) (hdiv : 2 ≤ div) (hd16 : div < 65536) (ins : List SpiIn)
    (hins : ∀ x ∈ ins, x.div = div ∧ x.start = false) (s : SpiSt) (h : IdleOk div s) :
    IdleOk div ((spiMaster c).runFrom s ins) ∧
    ∀ o ∈ (spiMaster c).traceFrom s ins, o.done = true ∧ o.clk = false ∧ o.irq = false := by
  induction ins generalizing s with
  | nil => exact ⟨h, by simp [Machine.traceFrom]⟩
  | cons x xs ih =>
    have hx := hins x (by simp)
    have st := spi_idle_step c div hdiv hd16 s x hx.1 hx.2 h
    have := ih (fun y hy => hins y (by simp [hy])) (spiNext c s x) st.2.2.2
    refine ⟨this.1, ?_⟩
    intro o ho
    simp only [Machine.traceFrom, List.mem_cons] at ho
    rcases ho with ho | ho
    · subst ho; exact ⟨st.1, st.2.1, st.2.2.1⟩
    · exact this.2 o ho

/-! ### Chip-select vector -/

/-- Line `j` of `(2^n - 1) - x` is the complement of bit `j` of `x` (for `x < 2^n`, `j < n`). -/
theorem testBit_allOnes_sub (n x j : Nat) (hx : x < 2 ^ n) (hj : j < n) :
    ((2 ^ n - 1) - x).testBit j = !x.testBit j := by
  have e : (2 ^ n - 1) - x = 2 ^ n - (x + 1) := by omega
  rw [e, Nat.testBit_two_pow_sub_succ hx]
  simp [hj]

/-- **Per-line closed form.**  Line `j < ncs` of `pads.cs_n` after a clock edge is low iff chip `j` is selected and
    (a transfer is in progress or manual CS mode is on). -/
theorem csnOf_line (ncs cs j : Nat) (act : Bool) (hj : j < ncs) :
    (csnOf ncs cs act).testBit j = !(cs.testBit j && act) := by
  unfold csnOf
  cases act with
  | false =>
    simp only [Bool.false_eq_true, if_false, Nat.sub_zero, Bool.and_false, Bool.not_false]
    have := testBit_allOnes_sub ncs 0 j (Nat.two_pow_pos ncs) hj
    simpa using this
  | true =>
    simp only [if_true, Bool.and_true]
    rw [testBit_allOnes_sub ncs (cs % 2 ^ ncs) j (Nat.mod_lt _ (Nat.two_pow_pos ncs)) hj, Nat.testBit_mod_two_pow]
    simp [hj]

/-- The vector model's control part is the single-CS model driven with bit 0 of `cs`, and its line 0 is that
    model's `cs_n`: every single-CS theorem (`spi_master_start/xfer/...`) holds for line 0 of the vector. -/
theorem spiN_core (c : SpiCfg) (ncs : Nat) (hn : 1 ≤ ncs) (s : SpiNSt) (i : SpiIn) (cs : Nat) :
    (spiNNext c ncs s i cs).core = spiNext c s.core { i with cs := cs.testBit 0 } ∧
    (spiNNext c ncs s i cs).csN.testBit 0 = (spiNNext c ncs s i cs).core.csN := by
  refine ⟨rfl, ?_⟩
  have hx : spiXfer s.core { i with cs := cs.testBit 0 } = spiXfer s.core i := by
    unfold spiXfer spiFall; rfl
  show (csnOf ncs cs (spiXfer s.core i || i.csMode)).testBit 0 = (spiNext c s.core { i with cs := cs.testBit 0 }).csN
  rw [csnOf_line ncs cs 0 _ (by omega)]
  simp only [spiNext, hx]

/-- **Manual CS mode**: with `cs_mode = 1` the lines are the registered complement of `cs`, whatever the FSM does;
    **automatic mode** outside a transfer (`xfer_enable = 0`): every line is high. -/
theorem spiN_manual_and_idle (c : SpiCfg) (ncs : Nat) (s : SpiNSt) (i : SpiIn) (cs j : Nat) (hj : j < ncs) :
    (i.csMode = true → (spiNNext c ncs s i cs).csN.testBit j = !cs.testBit j) ∧
    (i.csMode = false → spiXfer s.core i = false → (spiNNext c ncs s i cs).csN.testBit j = true) ∧
    (spiXfer s.core i = true → (spiNNext c ncs s i cs).csN.testBit j = !cs.testBit j) := by
  refine ⟨fun h => ?_, fun h1 h2 => ?_, fun h => ?_⟩ <;>
    (show (csnOf ncs cs _).testBit j = _) <;> rw [csnOf_line ncs cs j _ hj] <;> simp [*]

end Litex.Periph
