import LitexProofs.Periph.SpiGen
import LitexProofs.Periph.Exact
/-
  SPIMaster wired to SPISlave, pad to pad, in one clock domain: the slave's `clk`, `cs_n`, `mosi` inputs are the
  master's pad registers of the same cycle, the master's `pads.miso` is the slave's MISO pad of the same cycle.
  Master pads are registers and the slave's MISO pad is a function of the slave state, so the product step is
  well-defined (no combinational loop).  Core Lean only.
-/
namespace Litex.Periph
open Litex

/-! ### The slave in function form: registers in terms of the pad history -/

/-- Synchroniser: the slave's `cs`, `clk`, `mosi` are the pads two cycles earlier, the edge detector's delayed clock
    and the FSM state lag by one more cycle. -/
theorem slvfn_sync (dw : Nat) (s : SlvSt) (h : Nat → SlvIn) (u : Nat) :
    (runFn (spiSlave dw) s h (u + 2)).s1 = !(h u).csN ∧ (runFn (spiSlave dw) s h (u + 2)).c1 = (h u).clk ∧
    (runFn (spiSlave dw) s h (u + 2)).m1 = (h u).mosi ∧
    (runFn (spiSlave dw) s h (u + 3)).clkD = (h u).clk ∧ (runFn (spiSlave dw) s h (u + 3)).xfer = !(h u).csN :=
  ⟨rfl, rfl, rfl, rfl, rfl⟩

/-- One slave cycle in pad terms (pads of cycles `v`, `v + 1`; the word to send is read in cycle `v + 3`). -/
theorem slvfn_step (dw : Nat) (s : SlvSt) (h : Nat → SlvIn) (v : Nat) :
    (runFn (spiSlave dw) s h (v + 4)).rx =
      (if !(h (v + 1)).csN && ((h (v + 1)).clk && !(h v).clk)
       then (2 * (runFn (spiSlave dw) s h (v + 3)).rx + (if (h (v + 1)).mosi then 1 else 0)) % 2 ^ dw
       else (runFn (spiSlave dw) s h (v + 3)).rx) ∧
    (runFn (spiSlave dw) s h (v + 4)).length =
      (if !(h v).csN then ((runFn (spiSlave dw) s h (v + 3)).length +
          (if (h (v + 1)).clk && !(h v).clk then 1 else 0)) % 256
       else if !(h (v + 1)).csN then 0 else (runFn (spiSlave dw) s h (v + 3)).length) ∧
    (runFn (spiSlave dw) s h (v + 4)).misoData =
      (if !(!(h v).csN) && !(h (v + 1)).csN then (h (v + 3)).tx
       else if !(h (v + 1)).csN && (!(h (v + 1)).clk && (h v).clk)
       then (2 * (runFn (spiSlave dw) s h (v + 3)).misoData) % 2 ^ dw
       else (runFn (spiSlave dw) s h (v + 3)).misoData) :=
  ⟨rfl, rfl, rfl⟩

/-- The first `n` values of a bit sequence. -/
def bitsOf (b : Nat → Bool) (n : Nat) : List Bool := (List.range n).map b

@[simp] theorem bitsOf_length (b : Nat → Bool) (n : Nat) : (bitsOf b n).length = n := by simp [bitsOf]

theorem bitsOf_succ (b : Nat → Bool) (n : Nat) : bitsOf b (n + 1) = bitsOf b n ++ [b n] := by
  simp [bitsOf, List.range_succ]

theorem bitsOf_getD (b : Nat → Bool) (n j : Nat) (hj : j < n) : (bitsOf b n).getD j false = b j := by
  simp [bitsOf, hj]

theorem shiftIn_snoc (dw r : Nat) (bs : List Bool) (x : Bool) :
    shiftIn dw r (bs ++ [x]) = (2 * shiftIn dw r bs + (if x then 1 else 0)) % 2 ^ dw := by
  rw [shiftIn_append]; rfl

/-- The pad waveform of one master transfer as the slave sees it: chip select released before cycle `T`, asserted from
    `T` to `E = T + L·div + div/2`, released in `E + 1`; clock low before `T`, pulse `i` high in the second half of
    its divider period with MOSI bit `b i`, low afterwards. -/
structure PadWave (div L T : Nat) (b : Nat → Bool) (h : Nat → SlvIn) : Prop where
  csHi   : ∀ t, t < T → (h t).csN = true
  csLo   : ∀ t, T ≤ t → t ≤ T + (L * div + div / 2) → (h t).csN = false
  csEnd  : (h (T + (L * div + div / 2) + 1)).csN = true
  clkPre : ∀ t, t < T → (h t).clk = false
  run    : ∀ i, i < L → ∀ k, k < div →
             (h (T + (i * div + k))).clk = decide (div / 2 ≤ k) ∧ (h (T + (i * div + k))).mosi = b i
  stop   : ∀ k, k ≤ div / 2 → (h (T + (L * div + k))).clk = false

/-- Rising edges the slave has processed when it is `k` cycles into pulse `i`. -/
def edgeN (div i k : Nat) : Nat := i + (if div / 2 < k then 1 else 0)

structure SlvFrameInv (dw div : Nat) (b : Nat → Bool) (r0 i k : Nat) (st : SlvSt) : Prop where
  rx  : st.rx = shiftIn dw r0 (bitsOf b (edgeN div i k))
  len : 1 ≤ i * div + k → st.length = edgeN div i k % 256

theorem mul_succ_le {i L : Nat} (div : Nat) (hi : i < L) : i * div + div ≤ L * div := by
  have := Nat.mul_le_mul_right div (show i + 1 ≤ L by omega)
  rw [Nat.succ_mul] at this; exact this

/-- One cycle inside pulse `i`. -/
theorem slv_frame_step (dw div L T : Nat) (b : Nat → Bool) (h : Nat → SlvIn) (s : SlvSt) (hdiv : 2 ≤ div) (hT : 1 ≤ T)
    (hw : PadWave div L T b h) (r0 i k : Nat) (hi : i < L) (hk : k < div)
    (inv : SlvFrameInv dw div b r0 i k (runFn (spiSlave dw) s h (T + (i * div + k) + 2))) :
    SlvFrameInv dw div b r0 i (k + 1) (runFn (spiSlave dw) s h (T + (i * div + (k + 1)) + 2)) := by
  have hile := mul_succ_le div hi
  obtain ⟨v, hv⟩ : ∃ v, T + (i * div + k) = v + 1 := ⟨T + (i * div + k) - 1, by omega⟩
  have e1 : T + (i * div + (k + 1)) + 2 = v + 4 := by omega
  have e0 : T + (i * div + k) + 2 = v + 3 := by omega
  rw [e0] at inv
  rw [e1]
  obtain ⟨hrx, hlen, _⟩ := slvfn_step dw s h v
  -- pads in cycle v + 1
  have hcs : (h (v + 1)).csN = false := by rw [← hv]; exact hw.csLo _ (by omega) (by omega)
  have hclk : (h (v + 1)).clk = decide (div / 2 ≤ k) := by rw [← hv]; exact (hw.run i hi k hk).1
  have hmosi : (h (v + 1)).mosi = b i := by rw [← hv]; exact (hw.run i hi k hk).2
  -- the rising edge is seen exactly at `k = div / 2`
  have hrise : ((h (v + 1)).clk && !(h v).clk) = decide (k = div / 2) := by
    rw [hclk]
    by_cases hlt : k < div / 2
    · have h1 : ¬ div / 2 ≤ k := by omega
      have h2 : ¬ k = div / 2 := by omega
      rw [decide_eq_false h1, decide_eq_false h2]; rfl
    · have hk1 : 1 ≤ k := by omega
      have ev : v = T + (i * div + (k - 1)) := by omega
      have hcv : (h v).clk = decide (div / 2 ≤ k - 1) := by rw [ev]; exact (hw.run i hi (k - 1) (by omega)).1
      rw [hcv]
      by_cases he : k = div / 2
      · have h1 : div / 2 ≤ k := by omega
        have h2 : ¬ div / 2 ≤ k - 1 := by omega
        rw [decide_eq_true h1, decide_eq_false h2, decide_eq_true he]; rfl
      · have h1 : div / 2 ≤ k := by omega
        have h2 : div / 2 ≤ k - 1 := by omega
        rw [decide_eq_true h1, decide_eq_true h2, decide_eq_false he]; rfl
  have hedge : edgeN div i (k + 1) = edgeN div i k + (if k = div / 2 then 1 else 0) := by
    unfold edgeN
    by_cases he : k = div / 2
    · have h1 : div / 2 < k + 1 := by omega
      have h2 : ¬ div / 2 < k := by omega
      rw [if_pos h1, if_neg h2, if_pos he]
    · by_cases hlt : div / 2 < k
      · have h1 : div / 2 < k + 1 := by omega
        rw [if_pos h1, if_pos hlt, if_neg he]
      · have h1 : ¬ div / 2 < k + 1 := by omega
        rw [if_neg h1, if_neg hlt, if_neg he]
  refine ⟨?_, fun _ => ?_⟩
  · rw [hrx, hcs, hrise, hmosi, inv.rx, hedge]
    by_cases he : k = div / 2
    · have hei : edgeN div i k = i := by unfold edgeN; rw [if_neg (show ¬ div / 2 < k by omega)]; rfl
      rw [decide_eq_true he, if_pos he, hei, bitsOf_succ, shiftIn_snoc]; rfl
    · rw [decide_eq_false he, if_neg he]; rfl
  · rw [hlen]
    by_cases h0 : i * div + k = 0
    · -- first cycle of the frame: the FSM is still in IDLE, `length` is cleared
      have hT1 : v < T := by omega
      have hk0 : k = 0 := by omega
      rw [hw.csHi v hT1, hcs, hedge]
      unfold edgeN
      have h1 : ¬ div / 2 < k := by omega
      have h2 : ¬ k = div / 2 := by omega
      have hi0 : i = 0 := by
        rcases Nat.eq_zero_or_pos i with h | h
        · exact h
        · have := Nat.mul_le_mul_right div h; omega
      simp [h1, h2, hi0]
    · have hvT : T ≤ v := by omega
      rw [hw.csLo v hvT (by omega), hrise, inv.len (by omega), hedge]
      simp only [Bool.not_false, if_true]
      by_cases he : k = div / 2
      · simp only [he, decide_true, if_true]; omega
      · simp only [he, decide_false, Bool.false_eq_true, if_false]; omega

/-- All cycles of all pulses (`k = div` is cycle 0 of the next pulse). -/
theorem slv_frame_run_fn (dw div L T : Nat) (b : Nat → Bool) (h : Nat → SlvIn) (s : SlvSt) (hdiv : 2 ≤ div)
    (hT : 1 ≤ T) (hw : PadWave div L T b h) :
    ∀ i, i < L → ∀ k, k ≤ div →
      SlvFrameInv dw div b (runFn (spiSlave dw) s h (T + 2)).rx i k (runFn (spiSlave dw) s h (T + (i * div + k) + 2)) := by
  have inner : ∀ i, i < L →
      SlvFrameInv dw div b (runFn (spiSlave dw) s h (T + 2)).rx i 0 (runFn (spiSlave dw) s h (T + (i * div + 0) + 2)) →
      ∀ k, k ≤ div →
      SlvFrameInv dw div b (runFn (spiSlave dw) s h (T + 2)).rx i k (runFn (spiSlave dw) s h (T + (i * div + k) + 2)) := by
    intro i hi h0 k
    induction k with
    | zero => intro _; exact h0
    | succ k ih =>
      intro hk
      exact slv_frame_step dw div L T b h s hdiv hT hw _ i k hi (by omega) (ih (by omega))
  intro i
  induction i with
  | zero =>
    intro hi
    apply inner 0 hi
    refine ⟨?_, fun h1 => by omega⟩
    have : edgeN div 0 0 = 0 := by simp [edgeN]
    rw [this]
    simp [bitsOf]
  | succ i ih =>
    intro hi
    apply inner (i + 1) hi
    have hprev := ih (by omega) div (Nat.le_refl _)
    have e : T + ((i + 1) * div + 0) + 2 = T + (i * div + div) + 2 := by rw [Nat.succ_mul]; rfl
    have e2 : edgeN div (i + 1) 0 = edgeN div i div := by
      unfold edgeN
      have h1 : div / 2 < div := by omega
      simp [h1]
    rw [e]
    refine ⟨by rw [e2]; exact hprev.rx, fun _ => ?_⟩
    rw [e2]
    exact hprev.len (by omega)

/-- **The slave's view of one master transfer**, for every divider `≥ 2`: three cycles after the last cycle `E` with
    chip select asserted the slave is in the `irq` cycle (`xfer ∧ ¬cs`) with `length = L` and the `L` MOSI bits
    shifted into the receive register. -/
theorem slv_frame_fn (dw div L T : Nat) (b : Nat → Bool) (h : Nat → SlvIn) (s : SlvSt) (hdiv : 2 ≤ div) (hT : 1 ≤ T)
    (hL : 1 ≤ L) (hw : PadWave div L T b h) :
    let e := runFn (spiSlave dw) s h (T + (L * div + div / 2) + 3)
    e.rx = shiftIn dw (runFn (spiSlave dw) s h (T + 2)).rx (bitsOf b L) ∧ e.length = L % 256 ∧
    e.xfer = true ∧ e.s1 = false := by
  intro e
  have hLd : L * div = (L - 1) * div + div := by
    have : L = (L - 1) + 1 := by omega
    rw [this, Nat.succ_mul]; simp
  have hlast := slv_frame_run_fn dw div L T b h s hdiv hT hw (L - 1) (by omega) div (Nat.le_refl _)
  have hedge : edgeN div (L - 1) div = L := by
    unfold edgeN
    have h1 : div / 2 < div := by omega
    simp [h1]; omega
  have hrx0 := hlast.rx
  have hlen0 := hlast.len (by omega)
  rw [hedge, ← hLd] at hrx0 hlen0
  -- STOP phase: nothing moves
  have hstop : ∀ k, k ≤ div / 2 + 1 →
      (runFn (spiSlave dw) s h (T + (L * div + k) + 2)).rx =
        shiftIn dw (runFn (spiSlave dw) s h (T + 2)).rx (bitsOf b L) ∧
      (runFn (spiSlave dw) s h (T + (L * div + k) + 2)).length = L % 256 := by
    intro k
    induction k with
    | zero => intro _; exact ⟨hrx0, hlen0⟩
    | succ k ih =>
      intro hk
      obtain ⟨ihr, ihl⟩ := ih (by omega)
      have hLpos : div ≤ L * div := by
        have := Nat.mul_le_mul_right div hL; simpa using this
      obtain ⟨v, hv⟩ : ∃ v, T + (L * div + k) = v + 1 := ⟨T + (L * div + k) - 1, by omega⟩
      have e1 : T + (L * div + (k + 1)) + 2 = v + 4 := by omega
      have e0 : T + (L * div + k) + 2 = v + 3 := by omega
      rw [e0] at ihr ihl
      rw [e1]
      obtain ⟨hrx, hlen, _⟩ := slvfn_step dw s h v
      have hclk : (h (v + 1)).clk = false := by rw [← hv]; exact hw.stop k (by omega)
      have hcsv : (h v).csN = false := hw.csLo v (by omega) (by omega)
      refine ⟨?_, ?_⟩
      · rw [hrx, hclk, ihr]; simp
      · rw [hlen, hcsv, hclk, ihl]; simp
  have hfin := hstop (div / 2 + 1) (Nat.le_refl _)
  have et : T + (L * div + div / 2) + 3 = T + (L * div + (div / 2 + 1)) + 2 := by omega
  have he : e = runFn (spiSlave dw) s h (T + (L * div + (div / 2 + 1)) + 2) := by rw [← et]
  refine ⟨by rw [he]; exact hfin.1, by rw [he]; exact hfin.2, ?_, ?_⟩
  · show (runFn (spiSlave dw) s h (T + (L * div + div / 2) + 3)).xfer = true
    rw [(slvfn_sync dw s h (T + (L * div + div / 2))).2.2.2.2, hw.csLo _ (by omega) (Nat.le_refl _)]; rfl
  · show (runFn (spiSlave dw) s h (T + (L * div + div / 2) + 1 + 2)).s1 = false
    rw [(slvfn_sync dw s h (T + (L * div + div / 2) + 1)).1, hw.csEnd]; rfl

/-- **Exactly one frame.**  From a slave in IDLE with the chip-select synchroniser empty, up to cycle `E + 3` the slave
    raises `start` (`¬xfer ∧ cs`) exactly in cycle `T + 2` and `irq` (`xfer ∧ ¬cs`) exactly in cycle `E + 3`. -/
theorem slv_one_frame (dw div L T : Nat) (b : Nat → Bool) (h : Nat → SlvIn) (s : SlvSt) (hT : 1 ≤ T)
    (hw : PadWave div L T b h) (hx : s.xfer = false) (h0 : s.s0 = false) (h1 : s.s1 = false) :
    ∀ t, t ≤ T + (L * div + div / 2) + 3 →
      (!(runFn (spiSlave dw) s h t).xfer && (runFn (spiSlave dw) s h t).s1) = decide (t = T + 2) ∧
      ((runFn (spiSlave dw) s h t).xfer && !(runFn (spiSlave dw) s h t).s1) = decide (t = T + (L * div + div / 2) + 3) := by
  intro t ht
  match t, ht with
  | 0, _ =>
    have e1 : ¬ (0 = T + 2) := by omega
    have e2 : ¬ (0 = T + (L * div + div / 2) + 3) := by omega
    rw [decide_eq_false e1, decide_eq_false e2]
    show (!s.xfer && s.s1) = false ∧ (s.xfer && !s.s1) = false
    rw [hx, h1]; exact ⟨rfl, rfl⟩
  | 1, _ =>
    have e1 : ¬ (1 = T + 2) := by omega
    have e2 : ¬ (1 = T + (L * div + div / 2) + 3) := by omega
    rw [decide_eq_false e1, decide_eq_false e2]
    show (!s.s1 && s.s0) = false ∧ (s.s1 && !s.s0) = false
    rw [h0, h1]; exact ⟨rfl, rfl⟩
  | 2, _ =>
    have e1 : ¬ (2 = T + 2) := by omega
    have e2 : ¬ (2 = T + (L * div + div / 2) + 3) := by omega
    rw [decide_eq_false e1, decide_eq_false e2]
    show (!s.s0 && !(h 0).csN) = false ∧ (s.s0 && !(!(h 0).csN)) = false
    rw [h0, hw.csHi 0 (by omega)]; exact ⟨rfl, rfl⟩
  | u + 3, hu =>
    show (!(!(h u).csN) && !(h (u + 1)).csN) = _ ∧ (!(h u).csN && !(!(h (u + 1)).csN)) = _
    by_cases c1 : u + 1 < T
    · rw [hw.csHi u (by omega), hw.csHi (u + 1) c1, decide_eq_false (show ¬ (u + 3 = T + 2) by omega),
        decide_eq_false (show ¬ (u + 3 = T + (L * div + div / 2) + 3) by omega)]
      exact ⟨rfl, rfl⟩
    · by_cases c2 : u < T
      · rw [hw.csHi u c2, hw.csLo (u + 1) (by omega) (by omega), decide_eq_true (show u + 3 = T + 2 by omega),
          decide_eq_false (show ¬ (u + 3 = T + (L * div + div / 2) + 3) by omega)]
        exact ⟨rfl, rfl⟩
      · by_cases c3 : u < T + (L * div + div / 2)
        · rw [hw.csLo u (by omega) (by omega), hw.csLo (u + 1) (by omega) (by omega),
            decide_eq_false (show ¬ (u + 3 = T + 2) by omega),
            decide_eq_false (show ¬ (u + 3 = T + (L * div + div / 2) + 3) by omega)]
          exact ⟨rfl, rfl⟩
        · have eu : u = T + (L * div + div / 2) := by omega
          subst eu
          rw [hw.csLo _ (by omega) (Nat.le_refl _), hw.csEnd, decide_eq_false (show ¬ (_ + 3 = T + 2) by omega),
            decide_eq_true rfl]
          exact ⟨rfl, rfl⟩

/-- The idle state needed above is reached three cycles after chip select was released. -/
theorem slv_idle_reached (dw : Nat) (s : SlvSt) (h : Nat → SlvIn) (t : Nat)
    (h0 : (h t).csN = true) (h1 : (h (t + 1)).csN = true) (h2 : (h (t + 2)).csN = true) :
    (runFn (spiSlave dw) s h (t + 3)).xfer = false ∧ (runFn (spiSlave dw) s h (t + 3)).s1 = false ∧
    (runFn (spiSlave dw) s h (t + 3)).s0 = false := by
  refine ⟨?_, ?_, ?_⟩
  · show (!(h t).csN) = false; rw [h0]; rfl
  · show (!(h (t + 1)).csN) = false; rw [h1]; rfl
  · show (!(h (t + 2)).csN) = false; rw [h2]; rfl

/-! ### The transmit register of the slave during the frame -/

theorem two_mul_mod_shift (md tx i m : Nat) (h : md % m = (tx * 2 ^ i) % m) :
    (2 * md) % m % m = (tx * 2 ^ (i + 1)) % m := by
  rw [Nat.mod_mod, Nat.mul_mod, h, ← Nat.mul_mod, Nat.pow_succ]
  congr 1
  rw [Nat.mul_comm 2, Nat.mul_assoc]

/-- From the second cycle of pulse `i` to the first cycle of the next one (slave time: two cycles later) the
    transmit register holds the word read in cycle `T + 2`, shifted left `i` times. -/
theorem slv_tx_run_fn (dw div L T : Nat) (b : Nat → Bool) (h : Nat → SlvIn) (s : SlvSt) (hdiv : 2 ≤ div)
    (hT : 1 ≤ T) (hw : PadWave div L T b h) :
    ∀ i, i < L → ∀ k, 1 ≤ k → k ≤ div →
      (runFn (spiSlave dw) s h (T + (i * div + k) + 2)).misoData % 2 ^ dw = ((h (T + 2)).tx * 2 ^ i) % 2 ^ dw := by
  have inner : ∀ i, i < L →
      (runFn (spiSlave dw) s h (T + (i * div + 1) + 2)).misoData % 2 ^ dw = ((h (T + 2)).tx * 2 ^ i) % 2 ^ dw →
      ∀ k, 1 ≤ k → k ≤ div →
      (runFn (spiSlave dw) s h (T + (i * div + k) + 2)).misoData % 2 ^ dw = ((h (T + 2)).tx * 2 ^ i) % 2 ^ dw := by
    intro i hi h1 k
    induction k with
    | zero => intro h; omega
    | succ k ih =>
      intro _ hk
      by_cases hk0 : k = 0
      · subst hk0; exact h1
      · have hprev := ih (by omega) (by omega)
        have hile := mul_succ_le div hi
        obtain ⟨v, hv⟩ : ∃ v, T + (i * div + k) = v + 1 := ⟨T + (i * div + k) - 1, by omega⟩
        have e1 : T + (i * div + (k + 1)) + 2 = v + 4 := by omega
        have e0 : T + (i * div + k) + 2 = v + 3 := by omega
        rw [e0] at hprev
        rw [e1, (slvfn_step dw s h v).2.2]
        have ev : v = T + (i * div + (k - 1)) := by omega
        have hcsv : (h v).csN = false := hw.csLo v (by omega) (by omega)
        have hclk : (h (v + 1)).clk = decide (div / 2 ≤ k) := by rw [← hv]; exact (hw.run i hi k (by omega)).1
        have hcv : (h v).clk = decide (div / 2 ≤ k - 1) := by rw [ev]; exact (hw.run i hi (k - 1) (by omega)).1
        have hfall : (!(h (v + 1)).clk && (h v).clk) = false := by
          rw [hclk, hcv]
          by_cases c : div / 2 ≤ k - 1
          · rw [decide_eq_true (show div / 2 ≤ k by omega)]; rfl
          · rw [decide_eq_false c]; simp
        rw [hcsv, hfall]
        simpa using hprev
  intro i
  induction i with
  | zero =>
    intro hi
    apply inner 0 hi
    obtain ⟨v, hv⟩ : ∃ v, T = v + 1 := ⟨T - 1, by omega⟩
    have e1 : T + (0 * div + 1) + 2 = v + 4 := by omega
    have e2 : T + 2 = v + 3 := by omega
    rw [e1, e2, (slvfn_step dw s h v).2.2]
    have hLpos : div ≤ L * div := by
      have := Nat.mul_le_mul_right div (show 1 ≤ L by omega); simpa using this
    rw [hw.csHi v (by omega), hw.csLo (v + 1) (by omega) (by omega)]
    simp
  | succ i ih =>
    intro hi
    apply inner (i + 1) hi
    have hprev := ih (by omega) div (by omega) (Nat.le_refl _)
    have hile := mul_succ_le div hi
    have hile' := mul_succ_le div (show i < L by omega)
    rw [Nat.succ_mul] at hile
    obtain ⟨v, hv⟩ : ∃ v, T + (i * div + div) = v + 1 := ⟨T + (i * div + div) - 1, by omega⟩
    have e1 : T + ((i + 1) * div + 1) + 2 = v + 4 := by rw [Nat.succ_mul]; omega
    have e0 : T + (i * div + div) + 2 = v + 3 := by omega
    rw [e0] at hprev
    rw [e1, (slvfn_step dw s h v).2.2]
    have ev : v = T + (i * div + (div - 1)) := by omega
    have ev1 : v + 1 = T + ((i + 1) * div + 0) := by rw [Nat.succ_mul]; omega
    have hcsv : (h v).csN = false := hw.csLo v (by omega) (by omega)
    have hcsv1 : (h (v + 1)).csN = false := hw.csLo (v + 1) (by omega) (by omega)
    have hclk : (h (v + 1)).clk = false := by
      rw [ev1, (hw.run (i + 1) hi 0 (by omega)).1]; exact decide_eq_false (by omega)
    have hcv : (h v).clk = true := by
      rw [ev, (hw.run i (by omega) (div - 1) (by omega)).1]; exact decide_eq_true (by omega)
    rw [hcsv, hcsv1, hclk, hcv]
    simp only [Bool.not_false, Bool.not_true, Bool.false_and, Bool.and_self, Bool.false_eq_true, if_false, if_true]
    exact two_mul_mod_shift _ _ i _ hprev

/-! ### The link -/

structure LinkIn where
  m  : SpiIn      -- master's control signals (`miso` is ignored: the pad is driven by the slave)
  tx : Nat        -- the slave's word to send (`self.miso` of the slave core)
deriving Repr, DecidableEq

structure LinkSt where
  m : SpiSt
  s : SlvSt
deriving Repr, DecidableEq

/-- The master's input in a cycle: its control signals, `pads.miso` := the slave's MISO pad (slave loopback off). -/
def linkMIn (dw : Nat) (st : LinkSt) (x : LinkIn) : SpiIn := { x.m with miso := st.s.misoData.testBit (dw - 1) }

/-- The slave's input in a cycle: the master's pad registers. -/
def linkSIn (st : LinkSt) (x : LinkIn) : SlvIn := ⟨st.m.clk, st.m.csN, st.m.mosi, x.tx, false⟩

/-- SPIMaster (`c`) and SPISlave (width `dw`) pad to pad, one clock. -/
def spiLink (c : SpiCfg) (dw : Nat) : Machine LinkIn LinkSt (SpiOut × SlvOut) where
  init := ⟨(spiMaster c).init, (spiSlave dw).init⟩
  out st x := ((spiMaster c).out st.m (linkMIn dw st x), (spiSlave dw).out st.s (linkSIn st x))
  next st x := ⟨spiNext c st.m (linkMIn dw st x), slvNext dw st.s (linkSIn st x)⟩

/-- The wiring is what the two `out` functions say: pads of the same cycle. -/
theorem link_wiring (c : SpiCfg) (dw : Nat) (st : LinkSt) (x : LinkIn) :
    let o := (spiLink c dw).out st x
    (linkSIn st x).clk = o.1.clk ∧ (linkSIn st x).csN = o.1.csN ∧ (linkSIn st x).mosi = o.1.mosi ∧
    (linkMIn dw st x).miso = o.2.miso ∧ (linkSIn st x).loopback = false := ⟨rfl, rfl, rfl, rfl, rfl⟩

/-- Input functions of the two components along a run of the link. -/
def linkG (c : SpiCfg) (dw : Nat) (st : LinkSt) (x : Nat → LinkIn) (t : Nat) : SpiIn :=
  linkMIn dw (runFn (spiLink c dw) st x t) (x t)
def linkH (c : SpiCfg) (dw : Nat) (st : LinkSt) (x : Nat → LinkIn) (t : Nat) : SlvIn :=
  linkSIn (runFn (spiLink c dw) st x t) (x t)

theorem link_proj (c : SpiCfg) (dw : Nat) (st : LinkSt) (x : Nat → LinkIn) (t : Nat) :
    (runFn (spiLink c dw) st x t).m = runFn (spiMaster c) st.m (linkG c dw st x) t ∧
    (runFn (spiLink c dw) st x t).s = runFn (spiSlave dw) st.s (linkH c dw st x) t := by
  induction t with
  | zero => exact ⟨rfl, rfl⟩
  | succ t ih =>
    constructor
    · show spiNext c (runFn (spiLink c dw) st x t).m (linkG c dw st x t) =
        spiNext c (runFn (spiMaster c) st.m (linkG c dw st x) t) (linkG c dw st x t)
      rw [ih.1]
    · show slvNext dw (runFn (spiLink c dw) st x t).s (linkH c dw st x t) =
        slvNext dw (runFn (spiSlave dw) st.s (linkH c dw st x) t) (linkH c dw st x t)
      rw [ih.2]

/-- The master's pad waveform of one transfer, as input of the slave. -/
theorem link_padwave (c : SpiCfg) (dw div L : Nat) (hdiv : 2 ≤ div) (hd16 : div < 65536) (hL : 1 ≤ L) (hLw : L ≤ c.dw)
    (x : Nat → LinkIn) (hx : ∀ t, SpiHold div L (x t).m) (st : LinkSt) (hs : IdleOk div st.m)
    (hcs0 : st.m.csN = true) (hst : (x 0).m.start = true) :
    PadWave div L (1 + (div - (st.m.cnt + 1) % div)) (fun i => (x 0).m.mosi.testBit (spiSel0 c L - i))
      (linkH c dw st x) := by
  have hg : ∀ t, SpiHoldG div L (linkG c dw st x t) := fun t => ⟨(hx t).div, (hx t).len⟩
  have hgc : ∀ t, (linkG c dw st x t).cs = true := fun t => (hx t).cs
  have hgm : ∀ t, (linkG c dw st x t).csMode = false := fun t => (hx t).csm
  have h := spi_transfer_general c div L hdiv hd16 hL hLw (linkG c dw st x) hg st.m hs hst
  simp only at h
  have hc : (runFn (spiMaster c) st.m (linkG c dw st x) 1).cnt = (st.m.cnt + 1) % div :=
    spi_accept_cnt c div hdiv hd16 st.m _ (hg 0).div hs
  rw [hc] at h
  obtain ⟨_, h2, h3, h4, h5, h6, h7, h8⟩ := h
  have hm : ∀ t, (linkH c dw st x t).csN = (runFn (spiMaster c) st.m (linkG c dw st x) t).csN ∧
      (linkH c dw st x t).clk = (runFn (spiMaster c) st.m (linkG c dw st x) t).clk ∧
      (linkH c dw st x t).mosi = (runFn (spiMaster c) st.m (linkG c dw st x) t).mosi := by
    intro t
    have := (link_proj c dw st x t).1
    unfold linkH linkSIn
    rw [this]; exact ⟨rfl, rfl, rfl⟩
  have hmod : (st.m.cnt + 1) % div < div := Nat.mod_lt _ (by omega)
  refine ⟨?_, ?_, ?_, ?_, ?_, ?_⟩
  · intro t ht
    rw [(hm t).1]
    cases t with
    | zero => exact hcs0
    | succ t => rw [h6 t ht, hgc, hgm]; rfl
  · intro t h1 h2'
    rw [(hm t).1]
    cases t with
    | zero => omega
    | succ t => rw [h7 t h1 (by omega), hgc]; rfl
  · rw [(hm _).1, h8, hgc, hgm]; rfl
  · intro t ht
    rw [(hm t).2.1]; exact (h2 t ht).1
  · intro i hi k hk
    rw [(hm _).2.1, (hm _).2.2]
    exact ⟨(h3 i hi k hk).1, (h3 i hi k hk).2.1⟩
  · intro k hk
    rw [(hm _).2.1]
    by_cases hlt : k < div / 2
    · exact (h4 k hlt).1
    · have : k = div / 2 := by omega
      subst this; exact h5.2.1

/-- **Master → slave.**  One transfer over the link, every divider `≥ 2`, every divider phase: the slave sees exactly
    one frame (`start` in cycle `T + 2`, `irq` in cycle `E + 3`), and in the `irq` cycle `length = L` and the receive
    register holds the `L` bits the master sent shifted in MSB first. -/
theorem link_mosi_frame (c : SpiCfg) (dw div L : Nat) (hdiv : 2 ≤ div) (hd16 : div < 65536) (hL : 1 ≤ L)
    (hLw : L ≤ c.dw) (x : Nat → LinkIn) (hx : ∀ t, SpiHold div L (x t).m) (st : LinkSt) (hs : IdleOk div st.m)
    (hcs0 : st.m.csN = true) (hst : (x 0).m.start = true)
    (hsx : st.s.xfer = false) (hs0 : st.s.s0 = false) (hs1 : st.s.s1 = false) :
    let T := 1 + (div - (st.m.cnt + 1) % div)
    let E := T + (L * div + div / 2)
    let S := fun t => (runFn (spiLink c dw) st x t).s
    (∀ t, t ≤ E + 3 → (!(S t).xfer && (S t).s1) = decide (t = T + 2) ∧
                      ((S t).xfer && !(S t).s1) = decide (t = E + 3)) ∧
    (S (E + 3)).length = L % 256 ∧
    (S (E + 3)).rx = shiftIn dw (S (T + 2)).rx (bitsOf (fun i => (x 0).m.mosi.testBit (spiSel0 c L - i)) L) ∧
    (∀ k, k < L → k < dw → (S (E + 3)).rx.testBit k = (x 0).m.mosi.testBit (spiSel0 c L - (L - 1 - k))) := by
  intro T E S
  have hw := link_padwave c dw div L hdiv hd16 hL hLw x hx st hs hcs0 hst
  have hS : ∀ t, S t = runFn (spiSlave dw) st.s (linkH c dw st x) t := fun t => (link_proj c dw st x t).2
  have hT : 1 ≤ T := by show 1 ≤ 1 + _; omega
  have hfr := slv_frame_fn dw div L T _ (linkH c dw st x) st.s hdiv hT hL hw
  simp only at hfr
  have hrx : (S (E + 3)).rx =
      shiftIn dw (S (T + 2)).rx (bitsOf (fun i => (x 0).m.mosi.testBit (spiSel0 c L - i)) L) := by
    rw [hS, hS]; exact hfr.1
  refine ⟨fun t ht => ?_, by rw [hS]; exact hfr.2.1, hrx, fun k hk hkd => ?_⟩
  · rw [hS]; exact slv_one_frame dw div L T _ (linkH c dw st x) st.s hT hw hsx hs0 hs1 t ht
  · rw [hrx, shiftIn_testBit dw _ _ k hkd, bitsOf_length, if_pos hk, bitsOf_getD _ _ _ (by omega)]

/-- **Slave → master**, dividers `≥ 8`: the master samples MISO `div/2 − 1` cycles after its falling edge, the slave
    moves MISO three cycles after that edge (two synchroniser registers and the edge detector), so with
    `div/2 − 1 ≥ 3` every sample sees the right bit: the word the master latches is the top `L` bits of the word the
    slave read from its `tx` input in its `start` cycle `T + 2`. -/
theorem link_miso_word (c : SpiCfg) (dw div L : Nat) (hdiv : 8 ≤ div) (hd16 : div < 65536) (hL : 1 ≤ L)
    (hLw : L ≤ c.dw) (hLd : L ≤ dw) (x : Nat → LinkIn) (hx : ∀ t, SpiHold div L (x t).m) (st : LinkSt)
    (hs : IdleOk div st.m) (hcs0 : st.m.csN = true) (hst : (x 0).m.start = true) :
    let T := 1 + (div - (st.m.cnt + 1) % div)
    let E := T + (L * div + div / 2)
    ∀ k, k < L → (runFn (spiLink c dw) st x E).m.miso.testBit k = (x (T + 2)).tx.testBit (dw - L + k) := by
  intro T E k hk
  have hdiv2 : 2 ≤ div := by omega
  have hw := link_padwave c dw div L hdiv2 hd16 hL hLw x hx st hs hcs0 hst
  have hg : ∀ t, SpiHoldG div L (linkG c dw st x t) := fun t => ⟨(hx t).div, (hx t).len⟩
  have h := spi_transfer_general c div L hdiv2 hd16 hL hLw (linkG c dw st x) hg st.m hs hst
  simp only at h
  have hc : (runFn (spiMaster c) st.m (linkG c dw st x) 1).cnt = (st.m.cnt + 1) % div :=
    spi_accept_cnt c div hdiv2 hd16 st.m _ (hg 0).div hs
  rw [hc] at h
  have h5 := h.2.2.2.2.1.2.2.2 k hk
  rw [(link_proj c dw st x E).1]
  show ((spiMaster c).out (runFn (spiMaster c) st.m (linkG c dw st x) E) (linkG c dw st x E)).miso.testBit k = _
  rw [show ((spiMaster c).out (runFn (spiMaster c) st.m (linkG c dw st x) E) (linkG c dw st x E)).miso.testBit k = _
    from h5]
  unfold spiSampled
  have hlb : ∀ t, (linkG c dw st x t).loopback = false := fun t => (hx t).lb
  rw [hlb]
  simp only [Bool.false_eq_true, if_false]
  show (runFn (spiLink c dw) st x (T + ((L - 1 - k) * div + (div / 2 - 1)))).s.misoData.testBit (dw - 1) = _
  rw [(link_proj c dw st x _).2]
  have et : T + ((L - 1 - k) * div + (div / 2 - 1)) = T + ((L - 1 - k) * div + (div / 2 - 3)) + 2 := by omega
  rw [et]
  have hT : 1 ≤ T := by show 1 ≤ 1 + _; omega
  have hmd := slv_tx_run_fn dw div L T _ (linkH c dw st x) st.s hdiv2 hT hw (L - 1 - k) (by omega) (div / 2 - 3)
    (by omega) (by omega)
  rw [slv_miso_bit dw _ (L - 1 - k) _ (by omega) hmd]
  show (x (T + 2)).tx.testBit _ = _
  congr 1; omega

end Litex.Periph
