import LitexModel.Periph.I2cMaster
import LitexProofs.Periph.I2c
/-
  Pad-level bus legality of `I2CMaster` (machine + "only change SDA when SCL is stable" stage), for every bus
  write sequence (commands while busy, data writes, divider writes ≥ 1) and every behaviour of the rest of the bus
  (clock stretching, any SDA).  Core Lean only.
-/
namespace Litex.Periph
open Litex

/-- Did the bit FSM take a step in this cycle? -/
def I2cmSt.stepped (s : I2cmSt) : Bool := ((s.st || s.sp || s.wr || s.rd) && s.m.fsm == .idle) || s.m.cnt == 0

/-- Ghost: was `sda_o` last assigned by START0 / STOP2 (or is it still the reset value)?  Updated by the FSM step
    that assigns `sda_o`. -/
def sdaKind (m : I2cSt) (stepped : Bool) (g : Bool) : Bool :=
  if stepped then
    match m.fsm with
    | .start0 | .stop2 => true
    | .restart0 | .stop0 | .write0 | .writeack1 => false
    | .read1 => if m.bits == 0 then false else g
    | _ => g
  else g

/-- `I2CMaster` with the ghost bit. -/
def i2cmAug : Machine I2cmIn (I2cmSt × Bool) I2cmOut where
  init := (i2cMaster.init, true)
  out sg i := i2cMaster.out sg.1 i
  next sg i := (i2cmNext sg.1 i, sdaKind sg.1.m sg.1.stepped sg.2)

theorem i2cmAug_fst (ins : List I2cmIn) (sg : I2cmSt × Bool) :
    (i2cmAug.runFrom sg ins).1 = i2cMaster.runFrom sg.1 ins := by
  induction ins generalizing sg with
  | nil => rfl
  | cons i is ih => exact ih _

/-- Software never programs the divider with 0. -/
def LoadOk (i : I2cmIn) : Prop := i.cyc = true → i.stb = true → i.we = true → i.adr0 = true → 1 ≤ i.datW % 2 ^ 20

structure PadInv (s : I2cmSt) (g : Bool) : Prop where
  minv : I2cInv s.m
  k1   : s.m.scl = true → s.sdaOe ≠ !s.m.sda → g = true
  k2   : s.m.scl = false → s.sclIn = true → s.m.cnt ≠ 0
  k5   : 1 ≤ s.load

/-- What the SDA driver may do between two consecutive cycles. -/
structure PadLegal (s : I2cmSt) (i : I2cmIn) (s' : I2cmSt) (g' : Bool) : Prop where
  sda : s.sdaOe ≠ s'.sdaOe →
    (s.padScl i = false ∧ s'.m.scl = false) ∨
    (s.m.scl = true ∧ s'.m.scl = true ∧ s.padScl i = true ∧ s'.sdaOe = !s'.m.sda ∧ g' = true)

theorem machIn_fields (s : I2cmSt) (i : I2cmIn) :
    (s.machIn i).poke = false ∧ (s.machIn i).run = (s.st || s.sp || s.wr || s.rd) ∧ (s.machIn i).load = s.load := by
  simp [I2cmSt.machIn, I2cIn.run]

/-- Lines, control state and divider counter of the machine inside the wrapper after one cycle. -/
theorem i2cm_mach_cases (s : I2cmSt) (i : I2cmIn) :
    let mi := s.machIn i
    let s' := i2cmNext s i
    s'.sclIn = s.padScl i ∧ s'.sdaOeN = s.sdaOe ∧
    ((s.stepped = true ∧ s'.m.fsm = (i2cFsmStep s.m mi).fsm ∧ s'.m.scl = (i2cFsmStep s.m mi).scl ∧
      s'.m.sda = (i2cFsmStep s.m mi).sda ∧ s'.m.bits = (i2cFsmStep s.m mi).bits ∧
      (s.m.fsm ≠ .idle → s.m.cnt = 0 ∧ s'.m.cnt = s.load)) ∨
     (s.stepped = false ∧ s'.m.fsm = s.m.fsm ∧ s'.m.scl = s.m.scl ∧ s'.m.sda = s.m.sda ∧ s'.m.bits = s.m.bits)) := by
  intro mi s'
  have hm := machIn_fields s i
  have hpk : i2cPoked s.m mi = s.m := by simp [i2cPoked, mi, hm.1]
  refine ⟨rfl, rfl, ?_⟩
  by_cases hst : s.stepped = true
  · left
    have hce : ((mi.run && s.m.fsm == .idle) || s.m.cnt == 0) = true := by
      simpa [I2cmSt.stepped, mi, hm.2.1] using hst
    refine ⟨hst, ?_, ?_, ?_, ?_, ?_⟩
    · show (i2cNext 20 s.m mi).fsm = _; simp only [i2cNext, hpk, hce, if_true]
    · show (i2cNext 20 s.m mi).scl = _; simp only [i2cNext, hpk, hce, if_true]
    · show (i2cNext 20 s.m mi).sda = _; simp only [i2cNext, hpk, hce, if_true]
    · show (i2cNext 20 s.m mi).bits = _; simp only [i2cNext, hpk, hce, if_true]
    · intro hni
      have hidf : (s.m.fsm == I2cFsm.idle) = false := by
        cases hf : s.m.fsm <;> simp_all
      have hc0 : s.m.cnt = 0 := by
        simp only [hidf, Bool.and_false, Bool.false_or, beq_iff_eq] at hce; exact hce
      refine ⟨hc0, ?_⟩
      show (i2cNext 20 s.m mi).cnt = _
      simp only [i2cNext, hpk, i2cIdle, hidf, Bool.and_false, Bool.false_eq_true, if_false, hc0]
      simp only [beq_self_eq_true, if_true]
      exact hm.2.2
  · right
    have hsf : s.stepped = false := by simpa using hst
    have hce : ((mi.run && s.m.fsm == .idle) || s.m.cnt == 0) = false := by
      simpa [I2cmSt.stepped, mi, hm.2.1] using hsf
    refine ⟨hsf, ?_, ?_, ?_, ?_⟩
    · show (i2cNext 20 s.m mi).fsm = _; simp only [i2cNext, hpk, hce, Bool.false_eq_true, if_false]
    · show (i2cNext 20 s.m mi).scl = _; simp only [i2cNext, hpk, hce, Bool.false_eq_true, if_false]
    · show (i2cNext 20 s.m mi).sda = _; simp only [i2cNext, hpk, hce, Bool.false_eq_true, if_false]
    · show (i2cNext 20 s.m mi).bits = _; simp only [i2cNext, hpk, hce, Bool.false_eq_true, if_false]

/-- A step from IDLE never moves the bus lines. -/
theorem i2c_idle_step_lines (m : I2cSt) (mi : I2cIn) (h : m.fsm = .idle) :
    (i2cFsmStep m mi).scl = m.scl ∧ (i2cFsmStep m mi).sda = m.sda := by
  simp [i2cFsmStep, h]

/-- A step with SCL released before and after either is START0/STOP2 (ghost becomes true) or leaves SDA and the
    ghost alone. -/
theorem kind_high (m : I2cSt) (mi : I2cIn) (g : Bool) (hinv : I2cInv m) (h1 : m.scl = true)
    (h2 : (i2cFsmStep m mi).scl = true) :
    sdaKind m true g = true ∨ (sdaKind m true g = g ∧ (i2cFsmStep m mi).sda = m.sda) := by
  obtain ⟨fsm, scl, sda, data, ack, bits, cnt⟩ := m
  have r0 := hinv.restart0; have s0 := hinv.stop0
  simp only at h1 r0 s0
  subst h1
  cases fsm <;> simp_all [sdaKind, i2cFsmStep] <;> (try split at h2) <;> simp_all

theorem sdaOe_eq (s : I2cmSt) : s.sdaOe = (if s.sclIn == s.m.scl then !s.m.sda else s.sdaOeN) := rfl

/-- One cycle: the invariant is kept and the SDA driver moves legally. -/
theorem pad_step (s : I2cmSt) (g : Bool) (i : I2cmIn) (h : PadInv s g) (hl : LoadOk i) :
    PadInv (i2cmNext s i) (sdaKind s.m s.stepped g) ∧ PadLegal s i (i2cmNext s i) (sdaKind s.m s.stepped g) := by
  obtain ⟨hIn, hOe, hcases⟩ := i2cm_mach_cases s i
  have hleg := i2c_fsm_step_legal s.m (s.machIn i) h.minv
  -- the new SDA drive in terms of the old state
  have hoe' : (i2cmNext s i).sdaOe =
      (if s.padScl i == (i2cmNext s i).m.scl then !(i2cmNext s i).m.sda else s.sdaOe) := by
    rw [sdaOe_eq, hIn, hOe]
  -- facts about the machine lines, by cases on "stepped"
  have key : I2cInv (i2cmNext s i).m ∧
      -- SCL stays released: ghost true, or ghost and SDA unchanged
      (s.m.scl = true → (i2cmNext s i).m.scl = true →
         sdaKind s.m s.stepped g = true ∨
         (sdaKind s.m s.stepped g = g ∧ (i2cmNext s i).m.sda = s.m.sda)) ∧
      -- SCL rising: SDA unchanged and it was a tick
      (s.m.scl = false → (i2cmNext s i).m.scl = true → (i2cmNext s i).m.sda = s.m.sda ∧ s.m.cnt = 0) ∧
      -- SCL falling: it was a tick outside IDLE, the divider restarts from `load`
      (s.m.scl = true → (i2cmNext s i).m.scl = false → (i2cmNext s i).m.cnt = s.load) := by
    rcases hcases with ⟨hst, ef, es, ed, eb, hcnt⟩ | ⟨hst, ef, es, ed, eb⟩
    · refine ⟨⟨?_, ?_, ?_⟩, ?_, ?_, ?_⟩
      · rw [ef, es]; exact hleg.1.restart0
      · rw [ef, es]; exact hleg.1.stop0
      · rw [eb]; exact hleg.1.bits
      · intro h1 h2
        rw [hst, ed]
        rw [es] at h2
        exact kind_high s.m (s.machIn i) g h.minv h1 h2
      · intro h1 h2
        rw [es] at h2
        have hni : s.m.fsm ≠ .idle := by
          intro hid
          have := (i2c_idle_step_lines s.m (s.machIn i) hid).1
          rw [this, h1] at h2; cases h2
        refine ⟨?_, (hcnt hni).1⟩
        rw [ed]; exact hleg.2.rising h1 h2
      · intro h1 h2
        rw [es] at h2
        have hni : s.m.fsm ≠ .idle := by
          intro hid
          have := (i2c_idle_step_lines s.m (s.machIn i) hid).1
          rw [this, h1] at h2; cases h2
        exact (hcnt hni).2
    · refine ⟨⟨?_, ?_, ?_⟩, ?_, ?_, ?_⟩
      · rw [ef, es]; exact h.minv.restart0
      · rw [ef, es]; exact h.minv.stop0
      · rw [eb]; exact h.minv.bits
      · intro _ _; right; exact ⟨by simp [sdaKind, hst], ed⟩
      · intro h1 h2; rw [es, h1] at h2; cases h2
      · intro h1 h2; rw [es, h1] at h2; cases h2
  obtain ⟨hinv', hhigh, hrise, hfall⟩ := key
  have hpad_true : s.padScl i = true → s.m.scl = true := by
    intro hp
    simp only [I2cmSt.padScl, I2cmSt.sclOe] at hp
    cases hs : s.m.scl <;> simp_all
  refine ⟨⟨hinv', ?_, ?_, ?_⟩, ⟨?_⟩⟩
  · -- k1
    intro hscl' hlag
    rw [hoe'] at hlag
    by_cases hc : (s.padScl i == (i2cmNext s i).m.scl) = true
    · simp [hc] at hlag
    · simp only [hc, Bool.false_eq_true, if_false] at hlag
      cases hs : s.m.scl with
      | true =>
        rcases hhigh hs hscl' with hk | ⟨hk, hsd⟩
        · exact hk
        · rw [hk]; rw [hsd] at hlag; exact h.k1 hs hlag
      | false =>
        obtain ⟨hsd, hc0⟩ := hrise hs hscl'
        rw [hsd] at hlag
        -- a lagging drive with SCL low means the hold cycle right after a falling edge: no tick possible there
        have hin : s.sclIn = true := by
          rw [sdaOe_eq, hs] at hlag
          cases hi : s.sclIn <;> simp_all
        exact absurd hc0 (h.k2 hs hin)
  · -- k2
    intro hscl' hin'
    rw [hIn] at hin'
    have hs := hpad_true hin'
    rw [hfall hs hscl']
    have := h.k5
    omega
  · -- k5
    show 1 ≤ (i2cmNext s i).load
    simp only [i2cmNext]
    split
    · rename_i hw
      simp only [Bool.and_eq_true] at hw
      exact hl hw.1.1.1.1 hw.1.1.1.2 hw.1.2 hw.2
    · exact h.k5
  · -- PadLegal
    intro hch
    rw [hoe'] at hch
    by_cases hc : (s.padScl i == (i2cmNext s i).m.scl) = true
    · simp only [hc, if_true] at hch
      have hceq : s.padScl i = (i2cmNext s i).m.scl := by simpa using hc
      cases hscl' : (i2cmNext s i).m.scl with
      | false => left; exact ⟨by rw [hceq, hscl'], rfl⟩
      | true =>
        right
        have hp : s.padScl i = true := by rw [hceq, hscl']
        have hs := hpad_true hp
        refine ⟨hs, rfl, hp, by rw [hoe', hc]; rfl, ?_⟩
        rcases hhigh hs hscl' with hk | ⟨hk, hsd⟩
        · exact hk
        · rw [hk]; rw [hsd] at hch; exact h.k1 hs hch
    · simp [hc] at hch

/-- The reset state satisfies the invariant once the divider holds a value ≥ 1 (any state with `load ≥ 1`, the
    machine idle as after reset, does). -/
theorem pad_inv_init (l : Nat) (hl : 1 ≤ l) : PadInv { i2cMaster.init with load := l } true :=
  ⟨⟨by simp [i2cMaster, i2cMachine], by simp [i2cMaster, i2cMachine], by simp [i2cMaster, i2cMachine]⟩,
   fun _ _ => rfl, by simp [i2cMaster, i2cMachine], hl⟩

/-- The invariant along every run. -/
theorem pad_inv_run (ins : List I2cmIn) (hins : ∀ i ∈ ins, LoadOk i) (sg : I2cmSt × Bool) (h : PadInv sg.1 sg.2) :
    PadInv (i2cmAug.runFrom sg ins).1 (i2cmAug.runFrom sg ins).2 := by
  induction ins generalizing sg with
  | nil => exact h
  | cons i is ih =>
    exact ih (fun j hj => hins j (by simp [hj])) _ (pad_step sg.1 sg.2 i h (hins i (by simp))).1

end Litex.Periph
