import LitexProofs.Periph.Spi
import LitexProofs.Periph.Loopback
/-
  SPIMaster for EVERY option letter: `cs`, `cs_mode`, `loopback` and `pads.miso` arbitrary in every cycle (only the
  divider and the length are held).  The control part of the state never reads `cs`, `cs_mode` and `pads.cs_n`, and
  `loopback` only replaces the sampled MISO value by the MOSI pad: every run is, up to the chip-select register, the
  run under the *normalised* letters (`cs = 1`, `cs_mode = 0`, `loopback = 0`, `miso` := what is really sampled), for
  which `Spi.lean` has the phase invariants.  Core Lean only.
-/
namespace Litex.Periph
open Litex

/-- What the capture register samples on a rise strobe. -/
def spiSampled (s : SpiSt) (x : SpiIn) : Bool := if x.loopback then s.mosi else x.miso

/-- Normalised letter. -/
def spiNormIn (s : SpiSt) (x : SpiIn) : SpiIn :=
  { x with cs := true, csMode := false, loopback := false, miso := spiSampled s x }

/-- The state without the chip-select register. -/
def clrCs (s : SpiSt) : SpiSt := { s with csN := false }

theorem spiNext_clrCs (c : SpiCfg) (s : SpiSt) (x : SpiIn) : spiNext c (clrCs s) x = spiNext c s x := rfl

theorem spiNormIn_clrCs (s : SpiSt) (x : SpiIn) : spiNormIn (clrCs s) x = spiNormIn s x := rfl

/-- The chip-select register, for every letter: `pads.cs_n := ~(cs & (xfer_enable | cs_mode))`. -/
theorem spiNext_csN (c : SpiCfg) (s : SpiSt) (x : SpiIn) :
    (spiNext c s x).csN = !(x.cs && (spiXfer s x || x.csMode)) := rfl

theorem spiXfer_norm (s : SpiSt) (x : SpiIn) : spiXfer s (spiNormIn s x) = spiXfer s x := rfl

/-- One step under the real letter and under the normalised letter differ in the chip-select register only. -/
theorem spiNext_norm (c : SpiCfg) (s : SpiSt) (x : SpiIn) :
    clrCs (spiNext c s x) = clrCs (spiNext c s (spiNormIn s x)) := by
  cases hl : x.loopback <;> simp [clrCs, spiNext, spiNormIn, spiSampled, spiRise, spiFall, spiXfer, hl]

/-- The normalised letters of a run. -/
def spiNormRun (c : SpiCfg) (s : SpiSt) (g : Nat → SpiIn) (t : Nat) : SpiIn :=
  spiNormIn (runFn (spiMaster c) s g t) (g t)

/-- The run under the real letters and the run under the normalised letters agree up to the chip-select register. -/
theorem spi_run_norm (c : SpiCfg) (s : SpiSt) (g : Nat → SpiIn) (t : Nat) :
    clrCs (runFn (spiMaster c) s g t) = clrCs (runFn (spiMaster c) s (spiNormRun c s g) t) := by
  induction t with
  | zero => rfl
  | succ t ih =>
    show clrCs (spiNext c (runFn (spiMaster c) s g t) (g t)) =
         clrCs (spiNext c (runFn (spiMaster c) s (spiNormRun c s g) t) (spiNormRun c s g t))
    rw [spiNext_norm, ← spiNext_clrCs c (runFn (spiMaster c) s (spiNormRun c s g) t), ← ih, spiNext_clrCs]
    rfl

/-- Fields read off `clrCs` equality. -/
theorem clrCs_fields {a b : SpiSt} (h : clrCs a = clrCs b) :
    a.cnt = b.cnt ∧ a.clk = b.clk ∧ a.fsm = b.fsm ∧ a.count = b.count ∧ a.mosi = b.mosi ∧ a.miso = b.miso ∧
    a.misoData = b.misoData := by
  have h1 := congrArg SpiSt.cnt h
  have h2 := congrArg SpiSt.clk h
  have h3 := congrArg SpiSt.fsm h
  have h4 := congrArg SpiSt.count h
  have h5 := congrArg SpiSt.mosi h
  have h6 := congrArg SpiSt.miso h
  have h7 := congrArg SpiSt.misoData h
  exact ⟨h1, h2, h3, h4, h5, h6, h7⟩

/-- Outputs other than `cs_n` agree. -/
theorem spiOut_norm (c : SpiCfg) {a b : SpiSt} (h : clrCs a = clrCs b) (x : SpiIn) :
    let o := (spiMaster c).out a x
    let o' := (spiMaster c).out b (spiNormIn a x)
    o.clk = o'.clk ∧ o.mosi = o'.mosi ∧ o.done = o'.done ∧ o.irq = o'.irq ∧ o.miso = o'.miso := by
  obtain ⟨h1, h2, h3, _, h5, h6, _⟩ := clrCs_fields h
  refine ⟨h2, h5, ?_, ?_, h6⟩
  · show (a.fsm == SpiFsm.idle && !x.start) = (b.fsm == SpiFsm.idle && !x.start)
    rw [h3]
  · show (a.fsm == SpiFsm.stop && spiRise a x) = (b.fsm == SpiFsm.stop && spiRise b (spiNormIn a x))
    simp only [spiRise, spiNormIn, h1, h3]

/-- Only the divider and the length are held during the transfer. -/
structure SpiHoldG (div L : Nat) (x : SpiIn) : Prop where
  div : x.div = div
  len : x.length = L

theorem spiHold_norm (div L : Nat) (s : SpiSt) (x : SpiIn) (h : SpiHoldG div L x) : SpiHold div L (spiNormIn s x) :=
  ⟨h.div, h.len, rfl, rfl, rfl⟩

/-- START phase in function form: `j` cycles after the acceptance cycle the master still waits in START with the
    divider `j` steps further, as long as the fall strobe has not come. -/
theorem spi_start_fn (c : SpiCfg) (div L w : Nat) (hdiv : 2 ≤ div) (hd16 : div < 65536) (hL : 1 ≤ L) (hLw : L ≤ c.dw)
    (f : Nat → SpiIn) (hf : ∀ t, SpiHold div L (f t)) (s1 : SpiSt) (h1 : StartInv c div L w s1) :
    ∀ j, s1.cnt + j < div →
      StartInv c div L w (runFn (spiMaster c) s1 f j) ∧ (runFn (spiMaster c) s1 f j).cnt = s1.cnt + j := by
  intro j
  induction j with
  | zero => intro _; exact ⟨h1, rfl⟩
  | succ j ih =>
    intro hj
    obtain ⟨hi, hc⟩ := ih (by omega)
    have st := spi_start_step c div L w (fun _ => false) hdiv hd16 hL hLw _ (f j) (hf j) hi
    have := st.2.2.2.2.1 (by rw [hc]; omega)
    exact ⟨this.1, by show (spiNext c _ _).cnt = _; rw [this.2, hc]; omega⟩

/-- **All phases of one transfer**, in function form, from the IDLE cycle with `start = 1` (any divider phase):
    `T = 1 + (div − cnt₁)` is the index of the first RUN cycle (`cnt₁` = divider counter after the acceptance cycle). -/
theorem spi_phases (c : SpiCfg) (div L : Nat) (hdiv : 2 ≤ div) (hd16 : div < 65536) (hL : 1 ≤ L) (hLw : L ≤ c.dw)
    (f : Nat → SpiIn) (hf : ∀ t, SpiHold div L (f t)) (s : SpiSt) (hs : IdleOk div s) (hst : (f 0).start = true) :
    let st := fun t => runFn (spiMaster c) s f t
    let T := 1 + (div - (st 1).cnt)
    let fr := fun t => f (T + t)
    (st 1).cnt < div ∧
    (∀ t, 1 ≤ t → t < T → StartInv c div L (f 0).mosi (st t) ∧ (st t).cnt + T = div + t) ∧
    (∀ i, i < L → ∀ k, k < div →
      RunInv c div L (f 0).mosi (st T).misoData (spiSmp fr div) i k (st (T + (i * div + k)))) ∧
    (∀ k, k < div / 2 → StopInv c div L (st T).misoData (spiSmp fr div) k (st (T + (L * div + k)))) ∧
    DoneInv c L (st T).misoData (spiSmp fr div) (st (T + (L * div + div / 2))) := by
  intro st T fr
  have ha := (spi_accept c div L hd16 hL hLw s (f 0) (hf 0) hst hs).2.2.2
  have h1 : StartInv c div L (f 0).mosi (st 1) := ha
  have hc1 : (st 1).cnt < div := h1.cnt
  have hsplit : ∀ j, st (1 + j) = runFn (spiMaster c) (st 1) (fun j => f (1 + j)) j := fun j => runFn_add _ s f 1 j
  have hstart : ∀ j, (st 1).cnt + j < div →
      StartInv c div L (f 0).mosi (st (1 + j)) ∧ (st (1 + j)).cnt = (st 1).cnt + j := by
    intro j hj
    rw [hsplit j]
    exact spi_start_fn c div L _ hdiv hd16 hL hLw _ (fun t => hf (1 + t)) (st 1) h1 j hj
  have hT : T = 1 + (div - (st 1).cnt) := rfl
  -- last START cycle
  have hlast := hstart (div - 1 - (st 1).cnt) (by omega)
  have hrun0 : RunInv c div L (f 0).mosi (st T).misoData (spiSmp fr div) 0 0 (st T) := by
    have e : T = (1 + (div - 1 - (st 1).cnt)) + 1 := by omega
    have st_ := spi_start_step c div L (f 0).mosi (spiSmp fr div) hdiv hd16 hL hLw _ (f (1 + (div - 1 - (st 1).cnt)))
      (hf _) hlast.1
    have := st_.2.2.2.2.2 (by rw [hlast.2]; omega)
    have e2 : st T = spiNext c (st (1 + (div - 1 - (st 1).cnt))) (f (1 + (div - 1 - (st 1).cnt))) := by
      rw [e]; rfl
    rw [e2]; exact this
  have hfr : ∀ t, SpiHold div L (fr t) := fun t => hf (T + t)
  have hsplitT : ∀ t, st (T + t) = runFn (spiMaster c) (st T) fr t := fun t => runFn_add _ s f T t
  refine ⟨hc1, ?_, ?_, ?_, ?_⟩
  · intro t h1t htT
    obtain ⟨j, rfl⟩ : ∃ j, t = 1 + j := ⟨t - 1, by omega⟩
    have := hstart j (by omega)
    exact ⟨this.1, by rw [this.2]; omega⟩
  · intro i hi k hk
    rw [hsplitT]
    exact spi_run c div L _ _ hdiv hd16 hL hLw fr hfr (st T) hrun0 i hi k hk
  · intro k hk
    rw [hsplitT]
    exact (spi_stop c div L _ _ hdiv hd16 hL hLw fr hfr (st T) hrun0).1 k hk
  · rw [hsplitT]
    exact (spi_stop c div L _ _ hdiv hd16 hL hLw fr hfr (st T) hrun0).2

/-- Decomposition of an offset inside the RUN/STOP window. -/
theorem spi_window (div L r : Nat) (hdiv : 2 ≤ div) (hr : r ≤ L * div + div / 2) :
    (∃ i k, i < L ∧ k < div ∧ r = i * div + k) ∨ (∃ k, k < div / 2 ∧ r = L * div + k) ∨ r = L * div + div / 2 := by
  by_cases h1 : r < L * div
  · left
    refine ⟨r / div, r % div, ?_, Nat.mod_lt _ (by omega), ?_⟩
    · exact (Nat.div_lt_iff_lt_mul (by omega)).mpr h1
    · have := Nat.div_add_mod r div
      rw [Nat.mul_comm] at this; omega
  · right
    by_cases h2 : r < L * div + div / 2
    · left; exact ⟨r - L * div, by omega, by omega⟩
    · right; omega

/-- **One transfer, every option letter.**  Only the divider and the length are held; `start`, `mosi`, `cs`, `cs_mode`,
    `loopback`, `pads.miso` are arbitrary in every cycle.  From the IDLE cycle 0 with `start = 1`, any divider phase:
    `T = 1 + (div − cnt₁)` is the first RUN cycle and `E = T + L·div + div/2` the cycle in which `done` returns. -/
theorem spi_transfer_general (c : SpiCfg) (div L : Nat) (hdiv : 2 ≤ div) (hd16 : div < 65536) (hL : 1 ≤ L)
    (hLw : L ≤ c.dw) (g : Nat → SpiIn) (hg : ∀ t, SpiHoldG div L (g t)) (s : SpiSt) (hs : IdleOk div s)
    (hst : (g 0).start = true) :
    let st := fun t => runFn (spiMaster c) s g t
    let o := fun t => (spiMaster c).out (st t) (g t)
    let T := 1 + (div - (st 1).cnt)
    let E := T + (L * div + div / 2)
    (st 1).cnt < div ∧
    (∀ t, t < T → (o t).clk = false ∧ (o t).done = false ∧ (o t).irq = false) ∧
    (∀ i, i < L → ∀ k, k < div →
        (o (T + (i * div + k))).clk = decide (div / 2 ≤ k) ∧
        (o (T + (i * div + k))).mosi = (g 0).mosi.testBit (spiSel0 c L - i) ∧
        (o (T + (i * div + k))).done = false ∧ (o (T + (i * div + k))).irq = false) ∧
    (∀ k, k < div / 2 →
        (o (T + (L * div + k))).clk = false ∧ (o (T + (L * div + k))).done = false ∧
        (o (T + (L * div + k))).irq = decide (k + 1 = div / 2)) ∧
    ((o E).done = !(g E).start ∧ (o E).clk = false ∧ (o E).irq = false ∧
      ∀ k, k < L → (o E).miso.testBit k =
        spiSampled (st (T + ((L - 1 - k) * div + (div / 2 - 1)))) (g (T + ((L - 1 - k) * div + (div / 2 - 1))))) ∧
    (∀ t, t + 1 < T → (st (t + 1)).csN = !((g t).cs && (g t).csMode)) ∧
    (∀ t, T ≤ t + 1 → t < E → (st (t + 1)).csN = !(g t).cs) ∧
    (st (E + 1)).csN = !((g E).cs && (g E).csMode) := by
  intro st o T E
  -- the normalised run
  let g' := spiNormRun c s g
  have hg' : ∀ t, SpiHold div L (g' t) := fun t => spiHold_norm div L _ (g t) (hg t)
  have hN : ∀ t, clrCs (st t) = clrCs (runFn (spiMaster c) s g' t) := fun t => spi_run_norm c s g t
  have hst' : (g' 0).start = true := hst
  have hph := spi_phases c div L hdiv hd16 hL hLw g' hg' s hs hst'
  simp only at hph
  have hcnt1 : (runFn (spiMaster c) s g' 1).cnt = (st 1).cnt := ((clrCs_fields (hN 1)).1).symm
  rw [hcnt1] at hph
  obtain ⟨hc1, hS, hR, hP, hD⟩ := hph
  -- outputs other than cs_n transfer from the normalised run
  have hout := fun t => spiOut_norm c (hN t) (g t)
  simp only at hout
  have hmosi0 : (g' 0).mosi = (g 0).mosi := rfl
  rw [hmosi0] at hS hR
  -- xfer_enable of the real run, read off the normalised run's chip-select register
  have hxf : ∀ t, spiXfer (st t) (g t) = !(runFn (spiMaster c) s g' (t + 1)).csN := by
    intro t
    have e : (runFn (spiMaster c) s g' (t + 1)).csN =
        !((g' t).cs && (spiXfer (runFn (spiMaster c) s g' t) (g' t) || (g' t).csMode)) := rfl
    obtain ⟨h1, _, h3, _⟩ := clrCs_fields (hN t)
    have e2 : spiXfer (runFn (spiMaster c) s g' t) (g' t) = spiXfer (st t) (g t) := by
      show spiXfer _ (spiNormIn (st t) (g t)) = _
      simp only [spiXfer, spiFall, spiNormIn, ← h1, ← h3]
    rw [e, e2]
    show _ = !(!(true && (spiXfer (st t) (g t) || false)))
    simp
  have hcs : ∀ t, (st (t + 1)).csN = !((g t).cs && (spiXfer (st t) (g t) || (g t).csMode)) := fun t => rfl
  have hidle0 : (o 0).done = false := by
    show (s.fsm == SpiFsm.idle && !(g 0).start) = false
    simp [hst]
  refine ⟨hc1, ?_, ?_, ?_, ?_, ?_, ?_, ?_⟩
  · intro t htT
    by_cases h0 : t = 0
    · subst h0
      refine ⟨hs.clk, hidle0, ?_⟩
      show (s.fsm == SpiFsm.stop && _) = false
      rw [hs.fsm]; rfl
    · have hi := (hS t (by omega) htT).1
      have so := spi_start_step c div L (g 0).mosi (fun _ => false) hdiv hd16 hL hLw _ (g' t) (hg' t) hi
      obtain ⟨e1, _, e3, e4, _⟩ := hout t
      exact ⟨e1.trans so.1, e3.trans so.2.2.1, e4.trans so.2.2.2.1⟩
  · intro i hi k hk
    have h := hR i hi k hk
    obtain ⟨e1, e2, e3, e4, _⟩ := hout (T + (i * div + k))
    have hidle : ((runFn (spiMaster c) s g' (T + (i * div + k))).fsm == SpiFsm.idle) = false := by rw [h.fsm]; rfl
    have hstp : ((runFn (spiMaster c) s g' (T + (i * div + k))).fsm == SpiFsm.stop) = false := by rw [h.fsm]; rfl
    refine ⟨e1.trans h.clk, e2.trans h.mosi, e3.trans ?_, e4.trans ?_⟩
    · show (_ == SpiFsm.idle && _) = false
      simp [hidle]
    · show (_ == SpiFsm.stop && _) = false
      simp [hstp]
  · intro k hk
    have h := hP k hk
    obtain ⟨e1, _, e3, e4, _⟩ := hout (T + (L * div + k))
    have hs_ := spi_stop_step c div L _ _ hdiv hd16 k hk _ (g' (T + (L * div + k))) (hg' _) h
    exact ⟨e1.trans h.clk, e3.trans hs_.2.1, e4.trans hs_.1⟩
  · obtain ⟨e1, _, e3, e4, e5⟩ := hout E
    have hidle : ((runFn (spiMaster c) s g' E).fsm == SpiFsm.idle) = true := by rw [hD.fsm]; rfl
    have hstp : ((runFn (spiMaster c) s g' E).fsm == SpiFsm.stop) = false := by rw [hD.fsm]; rfl
    refine ⟨e3.trans ?_, e1.trans hD.clk, e4.trans ?_, ?_⟩
    · show (_ == SpiFsm.idle && !(g' E).start) = _
      simp [hidle]; rfl
    · show (_ == SpiFsm.stop && _) = false
      simp [hstp]
    · intro k hk
      rw [e5]
      show (runFn (spiMaster c) s g' E).miso.testBit k = _
      rw [hD.miso, spiCap_testBit _ _ _ _ hLw k hk]
      rfl
  · intro t ht
    rw [hcs t, hxf t]
    have := (hS (t + 1) (by omega) ht).1.csN
    rw [this]; simp
  · intro t hT hE
    rw [hcs t, hxf t]
    have hcsn : (runFn (spiMaster c) s g' (t + 1)).csN = false := by
      obtain ⟨r, hr⟩ : ∃ r, t + 1 = T + r := ⟨t + 1 - T, by omega⟩
      rw [hr]
      rcases spi_window div L r hdiv (by omega) with ⟨i, k, hi, hk, rfl⟩ | ⟨k, hk, rfl⟩ | rfl
      · exact (hR i hi k hk).csN
      · exact (hP k hk).csN
      · exact hD.csN
    rw [hcsn]; simp
  · rw [hcs E]
    have : spiXfer (st E) (g E) = false := by
      have h3 := (clrCs_fields (hN E)).2.2.1
      have h4 : (runFn (spiMaster c) s g' E).fsm = SpiFsm.idle := hD.fsm
      unfold spiXfer
      rw [h3, h4]
    rw [this]; simp

/-- The divider counter after the acceptance cycle: the free-running counter simply moves on (mod `div`). -/
theorem spi_accept_cnt (c : SpiCfg) (div : Nat) (hdiv : 2 ≤ div) (hd16 : div < 65536) (s : SpiSt) (x : SpiIn)
    (hx : x.div = div) (hs : IdleOk div s) : (spiNext c s x).cnt = (s.cnt + 1) % div := by
  have hc := hs.cnt
  have hR := spiRise_eq s x s.cnt div rfl hx
  have hF := spiFall_eq s x s.cnt div rfl hx
  simp only [spiNext, hR, hF, decide_eq_true_eq]
  by_cases h : s.cnt + 1 = div
  · have : ¬ (s.cnt + 1 = div / 2) := by omega
    rw [if_neg this, if_pos h, h, Nat.mod_self]
  · have e : (s.cnt + 1) % div = s.cnt + 1 := Nat.mod_eq_of_lt (by omega)
    have e2 : (s.cnt + 1) % 65536 = s.cnt + 1 := Nat.mod_eq_of_lt (by omega)
    rw [if_neg h, e, e2]; simp

/-- **Exact termination.**  `done` is low from the `start` cycle up to cycle `E − 1` and returns in cycle
    `E = 1 + (div − (cnt+1) mod div) + L·div + div/2` (`cnt` = divider counter in the start cycle) — for every length,
    divider, divider phase and every `cs / cs_mode / loopback / miso / mosi / start` activity meanwhile. -/
theorem spi_done_exact (c : SpiCfg) (div L : Nat) (hdiv : 2 ≤ div) (hd16 : div < 65536) (hL : 1 ≤ L)
    (hLw : L ≤ c.dw) (g : Nat → SpiIn) (hg : ∀ t, SpiHoldG div L (g t)) (s : SpiSt) (hs : IdleOk div s)
    (hst : (g 0).start = true) :
    let o := fun t => (spiMaster c).out (runFn (spiMaster c) s g t) (g t)
    let E := 1 + (div - (s.cnt + 1) % div) + (L * div + div / 2)
    (∀ t, t < E → (o t).done = false) ∧ (o E).done = !(g E).start := by
  intro o E
  have h := spi_transfer_general c div L hdiv hd16 hL hLw g hg s hs hst
  simp only at h
  have hc : (runFn (spiMaster c) s g 1).cnt = (s.cnt + 1) % div := spi_accept_cnt c div hdiv hd16 s (g 0) (hg 0).div hs
  rw [hc] at h
  obtain ⟨_, h1, h2, h3, h4, _⟩ := h
  refine ⟨fun t ht => ?_, h4.1⟩
  by_cases htT : t < 1 + (div - (s.cnt + 1) % div)
  · exact (h1 t htT).2.1
  · obtain ⟨r, rfl⟩ : ∃ r, t = 1 + (div - (s.cnt + 1) % div) + r := ⟨t - (1 + (div - (s.cnt + 1) % div)), by omega⟩
    rcases spi_window div L r hdiv (by omega) with ⟨i, k, hi, hk, rfl⟩ | ⟨k, hk, rfl⟩ | rfl
    · exact (h2 i hi k hk).2.2.1
    · exact (h3 k hk).2.1
    · omega

/-- **Loopback.**  With `loopback = 1` during the transfer the received word is the transmitted bits: bit `k < L` of
    `miso` is bit `k` of the word (aligned mode) / bit `data_width − L + k` (raw mode: the `L` top bits go out). -/
theorem spi_loopback_word (c : SpiCfg) (div L : Nat) (hdiv : 2 ≤ div) (hd16 : div < 65536) (hL : 1 ≤ L)
    (hLw : L ≤ c.dw) (g : Nat → SpiIn) (hg : ∀ t, SpiHoldG div L (g t)) (s : SpiSt) (hs : IdleOk div s)
    (hst : (g 0).start = true) (hlb : ∀ t, (g t).loopback = true) :
    let o := fun t => (spiMaster c).out (runFn (spiMaster c) s g t) (g t)
    let E := 1 + (div - (s.cnt + 1) % div) + (L * div + div / 2)
    ∀ k, k < L → (o E).miso.testBit k = (g 0).mosi.testBit (if c.aligned then k else c.dw - L + k) := by
  intro o E k hk
  have h := spi_transfer_general c div L hdiv hd16 hL hLw g hg s hs hst
  simp only at h
  have hc : (runFn (spiMaster c) s g 1).cnt = (s.cnt + 1) % div := spi_accept_cnt c div hdiv hd16 s (g 0) (hg 0).div hs
  rw [hc] at h
  obtain ⟨_, _, h2, _, h4, _⟩ := h
  have e := h4.2.2.2 k hk
  have hm := (h2 (L - 1 - k) (by omega) (div / 2 - 1) (by omega)).2.1
  show (o E).miso.testBit k = _
  rw [show (o E).miso.testBit k = _ from e]
  unfold spiSampled
  rw [hlb]
  simp only [if_true]
  rw [show (runFn (spiMaster c) s g (1 + (div - (s.cnt + 1) % div) + ((L - 1 - k) * div + (div / 2 - 1)))).mosi = _ from hm]
  congr 1
  unfold spiSel0
  split <;> omega

end Litex.Periph
