import LitexModel.Periph.Spi
import LitexProofs.Periph.Uart
/-
  SPIMaster lemmas for C19: the transfer as a sequence of phases (START wait, RUN pulse `i` position `k`, STOP),
  each described by an invariant with ghost indices.  Core Lean only.
-/
namespace Litex.Periph
open Litex

/-- Constant part of the inputs during a transfer: divider, length, chip select enabled, automatic CS mode, no
    loopback.  `start`, `mosi` and `pads.miso` are free in every cycle. -/
structure SpiHold (div L : Nat) (i : SpiIn) : Prop where
  div  : i.div = div
  len  : i.length = L
  cs   : i.cs = true
  csm  : i.csMode = false
  lb   : i.loopback = false

/-- Word captured after `j` samples (`Cat(pads.miso, miso_data)` truncated to `dw` bits). -/
def spiCap (smp : Nat → Bool) (dw m0 : Nat) : Nat → Nat
  | 0 => m0
  | j + 1 => (2 * spiCap smp dw m0 j + (if smp j then 1 else 0)) % 2 ^ dw

/-- Initial MOSI bit selector. -/
def spiSel0 (c : SpiCfg) (L : Nat) : Nat := if c.aligned then L - 1 else c.dw - 1

theorem dw_le_cmod (c : SpiCfg) : c.dw ≤ c.cmod := by
  unfold SpiCfg.cmod bitsFor
  by_cases h : c.dw - 1 = 0
  · simp [h]; omega
  · simp only [h, if_false]
    have := Nat.lt_log2_self (n := c.dw - 1)
    omega

/-- Invariant in RUN: pulse `i` (0-based), position `k` inside the divider period.  `smp j` is `pads.miso` in the
    cycle of the `j`-th rise strobe; `m0` the (arbitrary) content of the capture register on entry. -/
structure RunInv (c : SpiCfg) (div L w m0 : Nat) (smp : Nat → Bool) (i k : Nat) (s : SpiSt) : Prop where
  fsm   : s.fsm = .run
  cnt   : s.cnt = k
  count : s.count = i
  clk   : s.clk = decide (div / 2 ≤ k)
  csN   : s.csN = false
  mdata : s.mosiData = w
  mosi  : s.mosi = w.testBit (spiSel0 c L - i)
  sel   : i + 1 ≤ spiSel0 c L → s.mosiSel = spiSel0 c L - (i + 1)
  cap   : s.misoData = spiCap smp c.dw m0 (i + (if div / 2 ≤ k then 1 else 0))

/-- Invariant in STOP, `k` cycles after the last falling edge. -/
structure StopInv (c : SpiCfg) (div L m0 : Nat) (smp : Nat → Bool) (k : Nat) (s : SpiSt) : Prop where
  fsm   : s.fsm = .stop
  cnt   : s.cnt = k
  clk   : s.clk = false
  csN   : s.csN = false
  cap   : s.misoData = spiCap smp c.dw m0 L

theorem spiRise_eq (s : SpiSt) (x : SpiIn) (k div : Nat) (hc : s.cnt = k) (hd : x.div = div) :
    spiRise s x = decide (k + 1 = div / 2) := by
  simp only [spiRise, hc, hd]
  by_cases h : k + 1 = div / 2 <;> simp [h]

theorem spiFall_eq (s : SpiSt) (x : SpiIn) (k div : Nat) (hc : s.cnt = k) (hd : x.div = div) :
    spiFall s x = decide (k + 1 = div) := by
  simp only [spiFall, hc, hd]
  by_cases h : k + 1 = div <;> simp [h]

/-- One RUN cycle.  `smp i` must be `pads.miso` in the cycle of the rise strobe of pulse `i`. -/
theorem spi_run_step (c : SpiCfg) (div L w m0 : Nat) (smp : Nat → Bool) (hdiv : 2 ≤ div) (hd16 : div < 65536)
    (hL : 1 ≤ L) (hLw : L ≤ c.dw) (i k : Nat) (hi : i < L) (_hk : k < div) (s : SpiSt) (x : SpiIn)
    (hx : SpiHold div L x) (hs : k + 1 = div / 2 → x.miso = smp i)
    (h : RunInv c div L w m0 smp i k s) :
    (k + 1 < div → RunInv c div L w m0 smp i (k + 1) (spiNext c s x)) ∧
    (k + 1 = div → i + 1 < L → RunInv c div L w m0 smp (i + 1) 0 (spiNext c s x)) ∧
    (k + 1 = div → i + 1 = L → StopInv c div L m0 smp 0 (spiNext c s x)) := by
  have hcm := dw_le_cmod c
  have hselL : L - 1 ≤ spiSel0 c L := by unfold spiSel0; split <;> omega
  have hselm : spiSel0 c L ≤ c.dw - 1 := by unfold spiSel0; split <;> omega
  have hR := spiRise_eq s x k div h.cnt hx.div
  have hF := spiFall_eq s x k div h.cnt hx.div
  have hxf : spiXfer s x = true := by simp [spiXfer, h.fsm]
  have hlatch : (s.fsm == SpiFsm.idle) = false := by rw [h.fsm]; rfl
  have hstop : (s.fsm == SpiFsm.stop) = false := by rw [h.fsm]; rfl
  have hrun : (s.fsm == SpiFsm.run) = true := by rw [h.fsm]; rfl
  refine ⟨fun hlt => ?_, fun hlt hi1 => ?_, fun hlt hi1 => ?_⟩
  · have hfall : spiFall s x = false := by rw [hF]; simp; omega
    by_cases hr : k + 1 = div / 2
    · have hrise : spiRise s x = true := by rw [hR]; simp [hr]
      have hge : div / 2 ≤ k + 1 := by omega
      have hnge : ¬ (div / 2 ≤ k) := by omega
      refine ⟨?_, ?_, ?_, ?_, ?_, ?_, ?_, ?_, ?_⟩
      · simp [spiNext, hrise, hfall, h.fsm]
      · simp only [spiNext, hrise, if_true, h.cnt]; omega
      · simp [spiNext, hfall, h.fsm, h.count]
      · simp [spiNext, hrise, hrun, hge]
      · simp [spiNext, hxf, hx.cs]
      · simp [spiNext, hlatch, h.mdata]
      · simp [spiNext, hlatch, hfall, h.mosi]
      · intro hle; simp [spiNext, hlatch, hfall, h.sel hle]
      · simp only [spiNext, hrise, if_true, hx.lb, h.cap, hnge, hge, if_false, Bool.false_eq_true,
          Nat.add_zero, spiCap, hs hr]
    · have hrise : spiRise s x = false := by rw [hR]; simp [hr]
      have hiff : (div / 2 ≤ k + 1) ↔ (div / 2 ≤ k) := by omega
      refine ⟨?_, ?_, ?_, ?_, ?_, ?_, ?_, ?_, ?_⟩
      · simp [spiNext, hrise, hfall, h.fsm]
      · simp only [spiNext, hrise, hfall, if_false, Bool.false_eq_true, h.cnt]; omega
      · simp [spiNext, hfall, h.fsm, h.count]
      · simp [spiNext, hrise, hfall, h.clk, hiff]
      · simp [spiNext, hxf, hx.cs]
      · simp [spiNext, hlatch, h.mdata]
      · simp [spiNext, hlatch, hfall, h.mosi]
      · intro hle; simp [spiNext, hlatch, hfall, h.sel hle]
      · simp only [spiNext, hrise, if_false, Bool.false_eq_true, h.cap, hiff]
  · have hfall : spiFall s x = true := by rw [hF]; simp [hlt]
    have hrise : spiRise s x = false := by rw [hR]; simp; omega
    have hcnt : (s.count + 1 == x.length) = false := by
      have : s.count + 1 ≠ x.length := by rw [h.count, hx.len]; omega
      simp [this]
    have hge : div / 2 ≤ k := by omega
    have hsel := h.sel (by omega)
    refine ⟨?_, ?_, ?_, ?_, ?_, ?_, ?_, ?_, ?_⟩
    · simp [spiNext, hfall, h.fsm, hcnt]
    · simp [spiNext, hrise, hfall]
    · simp only [spiNext, h.fsm, hfall, if_true, h.count]
      exact Nat.mod_eq_of_lt (by omega)
    · simp only [spiNext, hrise, hfall, if_true, if_false, Bool.false_eq_true]
      have : ¬ (div / 2 ≤ 0) := by omega
      simp [this]
    · simp [spiNext, hxf, hx.cs]
    · simp [spiNext, hlatch, h.mdata]
    · have : min (spiSel0 c L - (i + 1)) (c.dw - 1) = spiSel0 c L - (i + 1) := by omega
      simp [spiNext, hlatch, hfall, hxf, hsel, h.mdata, this]
    · intro hle
      simp only [spiNext, hlatch, hfall, if_true, hsel]
      have : spiSel0 c L - (i + 1) + c.cmod - 1 = (spiSel0 c L - (i + 1 + 1)) + c.cmod := by omega
      rw [this, Nat.add_mod_right]
      exact Nat.mod_eq_of_lt (by omega)
    · simp only [spiNext, hrise, if_false, Bool.false_eq_true, h.cap, hge, if_true]
      have : ¬ (div / 2 ≤ 0) := by omega
      simp [this]
  · have hfall : spiFall s x = true := by rw [hF]; simp [hlt]
    have hrise : spiRise s x = false := by rw [hR]; simp; omega
    have hcnt : (s.count + 1 == x.length) = true := by
      have : s.count + 1 = x.length := by rw [h.count, hx.len]; omega
      simp [this]
    have hge : div / 2 ≤ k := by omega
    refine ⟨?_, ?_, ?_, ?_, ?_⟩
    · simp [spiNext, hfall, h.fsm, hcnt]
    · simp [spiNext, hrise, hfall]
    · simp [spiNext, hrise, hfall]
    · simp [spiNext, hxf, hx.cs]
    · simp only [spiNext, hrise, if_false, Bool.false_eq_true, h.cap, hge, if_true, hi1]

/-- State in the first IDLE cycle after a transfer. -/
structure DoneInv (c : SpiCfg) (L m0 : Nat) (smp : Nat → Bool) (s : SpiSt) : Prop where
  fsm  : s.fsm = .idle
  clk  : s.clk = false
  csN  : s.csN = false
  miso : s.miso = spiCap smp c.dw m0 L

/-- One STOP cycle: the clock stays low, chip select stays asserted; `irq` (and the MISO latch) exactly in the cycle
    of the next rise strobe, `div / 2` cycles after the last falling edge; then IDLE. -/
theorem spi_stop_step (c : SpiCfg) (div L m0 : Nat) (smp : Nat → Bool) (hdiv : 2 ≤ div) (hd16 : div < 65536) (k : Nat) (hk : k < div / 2)
    (s : SpiSt) (x : SpiIn) (hx : SpiHold div L x) (h : StopInv c div L m0 smp k s) :
    ((spiMaster c).out s x).irq = decide (k + 1 = div / 2) ∧ ((spiMaster c).out s x).done = false ∧
    (k + 1 < div / 2 → StopInv c div L m0 smp (k + 1) (spiNext c s x)) ∧
    (k + 1 = div / 2 → DoneInv c L m0 smp (spiNext c s x)) := by
  have hR := spiRise_eq s x k div h.cnt hx.div
  have hF := spiFall_eq s x k div h.cnt hx.div
  have hfall : spiFall s x = false := by rw [hF]; simp; omega
  have hxf : spiXfer s x = true := by simp [spiXfer, h.fsm]
  have hlatch : (s.fsm == SpiFsm.idle) = false := by rw [h.fsm]; rfl
  have hstop : (s.fsm == SpiFsm.stop) = true := by rw [h.fsm]; rfl
  have hrun : (s.fsm == SpiFsm.run) = false := by rw [h.fsm]; rfl
  refine ⟨by simp [spiMaster, hstop, hR], by simp [spiMaster, hlatch], fun hlt => ?_, fun heq => ?_⟩
  · have hrise : spiRise s x = false := by rw [hR]; simp; omega
    refine ⟨?_, ?_, ?_, ?_, ?_⟩
    · simp [spiNext, hrise, h.fsm]
    · simp only [spiNext, hrise, hfall, if_false, Bool.false_eq_true, h.cnt]; omega
    · simp [spiNext, hrise, hfall, h.clk]
    · simp [spiNext, hxf, hx.cs]
    · simp only [spiNext, hrise, if_false, Bool.false_eq_true, h.cap]
  · have hrise : spiRise s x = true := by rw [hR]; simp [heq]
    refine ⟨?_, ?_, ?_, ?_⟩
    · simp [spiNext, hrise, h.fsm]
    · simp [spiNext, hrise, hrun]
    · simp [spiNext, hxf, hx.cs]
    · simp [spiNext, hrise, hstop, h.cap]

/-- Sample function: `pads.miso` in the cycle of the rise strobe of pulse `j` (cycles counted from the first RUN
    cycle). -/
def spiSmp (f : Nat → SpiIn) (div : Nat) (j : Nat) : Bool := (f (j * div + (div / 2 - 1))).miso

/-- RUN phase: the invariant holds in cycle `i·div + k` of the transfer, for every pulse `i < L` and position
    `k < div`. -/
theorem spi_run (c : SpiCfg) (div L w m0 : Nat) (hdiv : 2 ≤ div) (hd16 : div < 65536) (hL : 1 ≤ L) (hLw : L ≤ c.dw)
    (f : Nat → SpiIn) (hf : ∀ t, SpiHold div L (f t)) (s0 : SpiSt)
    (h0 : RunInv c div L w m0 (spiSmp f div) 0 0 s0) :
    ∀ i, i < L → ∀ k, k < div →
      RunInv c div L w m0 (spiSmp f div) i k (runFn (spiMaster c) s0 f (i * div + k)) := by
  have step := fun i k hi hk s x hx hs h =>
    spi_run_step c div L w m0 (spiSmp f div) hdiv hd16 hL hLw i k hi hk s x hx hs h
  have inner : ∀ i, i < L → RunInv c div L w m0 (spiSmp f div) i 0 (runFn (spiMaster c) s0 f (i * div)) →
      ∀ k, k < div → RunInv c div L w m0 (spiSmp f div) i k (runFn (spiMaster c) s0 f (i * div + k)) := by
    intro i hi hi0 k
    induction k with
    | zero => intro _; exact hi0
    | succ k ih =>
      intro hk
      have hprev := ih (by omega)
      have := (step i k hi (by omega) _ (f (i * div + k)) (hf _)
        (by intro hr; unfold spiSmp; congr 2; omega) hprev).1 hk
      exact this
  intro i
  induction i with
  | zero =>
    intro hi
    exact inner 0 hi (by rw [Nat.zero_mul]; exact h0)
  | succ i ih =>
    intro hi
    have hprev := ih (by omega) (div - 1) (by omega)
    have hnext := (step i (div - 1) (by omega) (by omega) _ (f (i * div + (div - 1))) (hf _)
      (by intro hr; omega) hprev).2.1 (by omega) hi
    have e : (i + 1) * div = i * div + (div - 1) + 1 := by rw [Nat.succ_mul]; omega
    apply inner (i + 1) hi
    rw [e]
    exact hnext

/-- End of RUN: after `L·div` cycles the master is in STOP; after `div / 2` more cycles it is back in IDLE with the
    captured word latched. -/
theorem spi_stop (c : SpiCfg) (div L w m0 : Nat) (hdiv : 2 ≤ div) (hd16 : div < 65536) (hL : 1 ≤ L) (hLw : L ≤ c.dw)
    (f : Nat → SpiIn) (hf : ∀ t, SpiHold div L (f t)) (s0 : SpiSt)
    (h0 : RunInv c div L w m0 (spiSmp f div) 0 0 s0) :
    (∀ k, k < div / 2 → StopInv c div L m0 (spiSmp f div) k (runFn (spiMaster c) s0 f (L * div + k))) ∧
    DoneInv c L m0 (spiSmp f div) (runFn (spiMaster c) s0 f (L * div + div / 2)) := by
  have hlast := spi_run c div L w m0 hdiv hd16 hL hLw f hf s0 h0 (L - 1) (by omega) (div - 1) (by omega)
  have hstop0 := (spi_run_step c div L w m0 (spiSmp f div) hdiv hd16 hL hLw (L - 1) (div - 1) (by omega) (by omega) _
    (f ((L - 1) * div + (div - 1))) (hf _) (by intro hr; omega) hlast).2.2 (by omega) (by omega)
  have e : L * div = (L - 1) * div + (div - 1) + 1 := by
    have : L = (L - 1) + 1 := by omega
    rw [this, Nat.succ_mul]; simp; omega
  have hall : ∀ k, k < div / 2 → StopInv c div L m0 (spiSmp f div) k (runFn (spiMaster c) s0 f (L * div + k)) := by
    intro k
    induction k with
    | zero => intro _; rw [Nat.add_zero, e]; exact hstop0
    | succ k ih =>
      intro hk
      exact (spi_stop_step c div L m0 (spiSmp f div) hdiv hd16 k (by omega) _ (f (L * div + k)) (hf _) (ih (by omega))).2.2.1 hk
  refine ⟨hall, ?_⟩
  have hk : div / 2 - 1 < div / 2 := by omega
  have := (spi_stop_step c div L m0 (spiSmp f div) hdiv hd16 (div / 2 - 1) hk _ (f (L * div + (div / 2 - 1))) (hf _)
    (hall _ hk)).2.2.2 (by omega)
  have e2 : L * div + div / 2 = L * div + (div / 2 - 1) + 1 := by omega
  rw [e2]
  exact this

/-! ### START phase: from the `start` strobe to the first RUN cycle, for every divider phase -/

/-- IDLE with the divider inside its period (always the case with a constant divider) and the clock low. -/
structure IdleOk (div : Nat) (s : SpiSt) : Prop where
  fsm : s.fsm = .idle
  cnt : s.cnt < div
  clk : s.clk = false

structure StartInv (c : SpiCfg) (div L w : Nat) (s : SpiSt) : Prop where
  fsm   : s.fsm = .start
  cnt   : s.cnt < div
  clk   : s.clk = false
  csN   : s.csN = true
  mdata : s.mosiData = w
  sel   : s.mosiSel = spiSel0 c L

theorem spi_sel0_latch (c : SpiCfg) (L : Nat) (hL : 1 ≤ L) (hLw : L ≤ c.dw) :
    (if c.aligned then (L + c.cmod - 1) % c.cmod else (c.dw - 1) % c.cmod) = spiSel0 c L := by
  have hcm := dw_le_cmod c
  unfold spiSel0
  split
  · have : L + c.cmod - 1 = (L - 1) + c.cmod := by omega
    rw [this, Nat.add_mod_right]; exact Nat.mod_eq_of_lt (by omega)
  · exact Nat.mod_eq_of_lt (by omega)

/-- The IDLE cycle with `start = 1`: `done` drops, the word is latched, the FSM goes to START. -/
theorem spi_accept (c : SpiCfg) (div L : Nat) (hd16 : div < 65536) (hL : 1 ≤ L) (hLw : L ≤ c.dw)
    (s : SpiSt) (x : SpiIn) (hx : SpiHold div L x) (hst : x.start = true) (h : IdleOk div s) :
    ((spiMaster c).out s x).done = false ∧ ((spiMaster c).out s x).clk = false ∧
    ((spiMaster c).out s x).irq = false ∧ StartInv c div L x.mosi (spiNext c s x) := by
  have hR := spiRise_eq s x s.cnt div rfl hx.div
  have hF := spiFall_eq s x s.cnt div rfl hx.div
  have hidle : (s.fsm == SpiFsm.idle) = true := by rw [h.fsm]; rfl
  have hrun : (s.fsm == SpiFsm.run) = false := by rw [h.fsm]; rfl
  have hstop : (s.fsm == SpiFsm.stop) = false := by rw [h.fsm]; rfl
  have hxf : spiXfer s x = false := by simp [spiXfer, h.fsm]
  have hc := h.cnt
  refine ⟨by simp [spiMaster, hst], by simp [spiMaster, h.clk], by simp [spiMaster, hstop], ?_⟩
  refine ⟨by simp [spiNext, h.fsm, hst], ?_, ?_, by simp [spiNext, hxf, hx.csm], by simp [spiNext, hidle, hst], ?_⟩
  · simp only [spiNext, hR, hF, decide_eq_true_eq]
    split
    · omega
    · split <;> omega
  · simp only [spiNext, hrun, h.clk]
    split
    · rfl
    · split <;> rfl
  · simp only [spiNext, hidle, hst, Bool.and_self, if_true, hx.len]
    exact spi_sel0_latch c L hL hLw

/-- One START cycle: clock low, chip select still released; on the fall strobe the FSM enters RUN with chip select
    asserted, the first MOSI bit on the pad and the bit counter at 0. -/
theorem spi_start_step (c : SpiCfg) (div L w : Nat) (smp : Nat → Bool) (hdiv : 2 ≤ div) (hd16 : div < 65536)
    (hL : 1 ≤ L) (hLw : L ≤ c.dw) (s : SpiSt) (x : SpiIn) (hx : SpiHold div L x) (h : StartInv c div L w s) :
    ((spiMaster c).out s x).clk = false ∧ ((spiMaster c).out s x).csN = true ∧
    ((spiMaster c).out s x).done = false ∧ ((spiMaster c).out s x).irq = false ∧
    (s.cnt + 1 < div → StartInv c div L w (spiNext c s x) ∧ (spiNext c s x).cnt = s.cnt + 1) ∧
    (s.cnt + 1 = div → RunInv c div L w (spiNext c s x).misoData smp 0 0 (spiNext c s x)) := by
  have hcm := dw_le_cmod c
  have hselm : spiSel0 c L ≤ c.dw - 1 := by unfold spiSel0; split <;> omega
  have hR := spiRise_eq s x s.cnt div rfl hx.div
  have hF := spiFall_eq s x s.cnt div rfl hx.div
  have hidle : (s.fsm == SpiFsm.idle) = false := by rw [h.fsm]; rfl
  have hrun : (s.fsm == SpiFsm.run) = false := by rw [h.fsm]; rfl
  have hstop : (s.fsm == SpiFsm.stop) = false := by rw [h.fsm]; rfl
  have hc := h.cnt
  refine ⟨by simp [spiMaster, h.clk], by simp [spiMaster, h.csN], by simp [spiMaster, hidle],
    by simp [spiMaster, hstop], fun hlt => ?_, fun heq => ?_⟩
  · have hfall : spiFall s x = false := by rw [hF]; simp; omega
    have hxf : spiXfer s x = false := by simp [spiXfer, h.fsm, hfall]
    refine ⟨⟨by simp [spiNext, h.fsm, hfall], ?_, ?_, by simp [spiNext, hxf, hx.csm], by simp [spiNext, hidle, h.mdata],
      by simp [spiNext, hidle, hfall, h.sel]⟩, ?_⟩
    · simp only [spiNext, hfall, hR, decide_eq_true_eq, Bool.false_eq_true, if_false]
      split <;> omega
    · simp only [spiNext, hrun, hfall, h.clk]
      split <;> first | rfl | simp
    · simp only [spiNext, hfall, hR, decide_eq_true_eq, Bool.false_eq_true, if_false]
      split <;> omega
  · have hfall : spiFall s x = true := by rw [hF]; simp [heq]
    have hrise : spiRise s x = false := by rw [hR]; simp; omega
    have hxf : spiXfer s x = true := by simp [spiXfer, h.fsm, hfall]
    have hmin : min (spiSel0 c L) (c.dw - 1) = spiSel0 c L := by omega
    refine ⟨by simp [spiNext, h.fsm, hfall], by simp [spiNext, hrise, hfall], by simp [spiNext, h.fsm],
      ?_, by simp [spiNext, hxf, hx.cs], by simp [spiNext, hidle, h.mdata], ?_, ?_, ?_⟩
    · simp only [spiNext, hrise, hfall]
      have : ¬ (div / 2 ≤ 0) := by omega
      simp [this]
    · simp [spiNext, hidle, hfall, hxf, h.sel, h.mdata, hmin]
    · intro hle
      simp only [spiNext, hidle, hfall, h.sel, if_true]
      have : spiSel0 c L + c.cmod - 1 = (spiSel0 c L - (0 + 1)) + c.cmod := by omega
      rw [this, Nat.add_mod_right]
      exact Nat.mod_eq_of_lt (by omega)
    · have : ¬ (div / 2 ≤ 0) := by omega
      simp [spiCap, this]

/-- The whole START phase: `n + 1` cycles with the clock low and chip select released, where `n + 1 = div - cnt`
    is the distance of the divider to its next fall strobe — whatever the phase; then RUN. -/
theorem spi_start_wait (c : SpiCfg) (div L w : Nat) (smp : Nat → Bool) (hdiv : 2 ≤ div) (hd16 : div < 65536)
    (hL : 1 ≤ L) (hLw : L ≤ c.dw) (n : Nat) (ins : List SpiIn) (hlen : ins.length = n + 1)
    (hins : ∀ x ∈ ins, SpiHold div L x) (s : SpiSt) (h : StartInv c div L w s) (hn : s.cnt + n + 1 = div) :
    (∀ o ∈ (spiMaster c).traceFrom s ins, o.clk = false ∧ o.csN = true ∧ o.done = false ∧ o.irq = false) ∧
    RunInv c div L w ((spiMaster c).runFrom s ins).misoData smp 0 0 ((spiMaster c).runFrom s ins) := by
  induction n generalizing s ins with
  | zero =>
    match ins, hlen with
    | [x], _ =>
      have st := spi_start_step c div L w smp hdiv hd16 hL hLw s x (hins x (by simp)) h
      refine ⟨?_, st.2.2.2.2.2 (by omega)⟩
      intro o ho
      simp only [Machine.traceFrom, List.mem_singleton] at ho
      subst ho
      exact ⟨st.1, st.2.1, st.2.2.1, st.2.2.2.1⟩
  | succ n ih =>
    match ins, hlen with
    | x :: rest, hl =>
      have st := spi_start_step c div L w smp hdiv hd16 hL hLw s x (hins x (by simp)) h
      have hnx := st.2.2.2.2.1 (by omega)
      have := ih rest (by simpa using hl) (fun y hy => hins y (by simp [hy])) (spiNext c s x) hnx.1 (by rw [hnx.2]; omega)
      refine ⟨?_, this.2⟩
      intro o ho
      simp only [Machine.traceFrom, List.mem_cons] at ho
      rcases ho with ho | ho
      · subst ho; exact ⟨st.1, st.2.1, st.2.2.1, st.2.2.2.1⟩
      · exact this.1 o ho

/-! ### Captured word -/

/-- Bit `k` of the captured word is the sample taken at rising edge `L - 1 - k` (MSB first), for `L ≤ dw`. -/
theorem spiCap_testBit (smp : Nat → Bool) (dw m0 L : Nat) (hL : L ≤ dw) (k : Nat) (hk : k < L) :
    (spiCap smp dw m0 L).testBit k = smp (L - 1 - k) := by
  induction L generalizing k with
  | zero => omega
  | succ j ih =>
    simp only [spiCap, Nat.testBit_mod_two_pow]
    have hkd : k < dw := by omega
    simp only [hkd, decide_true, Bool.true_and]
    cases k with
    | zero =>
      simp only [Nat.testBit_zero, Nat.add_sub_cancel, Nat.sub_zero]
      cases smp j <;> simp <;> omega
    | succ k' =>
      rw [Nat.testBit_succ]
      have : (2 * spiCap smp dw m0 j + (if smp j then 1 else 0)) / 2 = spiCap smp dw m0 j := by
        cases smp j <;> simp <;> omega
      rw [this, ih (by omega) k' (by omega)]
      congr 1; omega

end Litex.Periph
