import LitexModel.Soc.BusRaw
import LitexProofs.Soc.Finalize
/-
  What survives a REJECTED request on the real `SoCBusHandler` (`RawH`, see `LitexModel/Soc/BusRaw.lean`):
  names stay unique and the regions that were actually granted stay pairwise disjoint; the regions left behind
  by a refusal are exactly the ones listed in the ghost field `stale`.
-/
namespace Litex.Soc
namespace BusH
variable {ν : Type} [DecidableEq ν]

/-- What an accepted `add_region` does to the two dictionaries. -/
def Added (s s' : BusH ν) (n : ν) : Prop :=
  n ∉ s.names ∧
  ((s'.regions = s.regions ∧ ∃ r, s'.ioRegions = s.ioRegions ++ [(n, r)]) ∨
   (s'.ioRegions = s.ioRegions ∧ ∃ r, s'.regions = s.regions ++ [(n, r)] ∧ ∀ a ∈ s.regs, overlapPair a r = false))

theorem addRegion_added {s s' : BusH ν} {n : ν} {q : Req} (h : s.addRegion n q = .ok s') : Added s s' n := by
  unfold addRegion at h
  split at h
  · cases h
  · rename_i hn
    have hn' : n ∉ s.names := (hasName_eq_false s n).1 (by simpa using hn)
    refine ⟨hn', ?_⟩
    split at h
    · split at h
      · cases h
      · split at h
        · cases h
        · injection h with h
          subst h
          exact Or.inl ⟨rfl, _, rfl⟩
    · split at h
      · split at h
        · rename_i r hr
          injection h with h
          subst h
          obtain ⟨_, o, _, _, hno, _⟩ := allocRegion_ok hr
          exact Or.inr ⟨rfl, r, rfl, hno⟩
        · cases h
      · split at h
        · cases h
        · split at h
          · cases h
          · split at h
            · cases h
            · rename_i o _ _ _ hov
              injection h with h
              subst h
              refine Or.inr ⟨rfl, _, rfl, ?_⟩
              have hov' : anyOverlap (s.regs ++ [q.region o]) = false := by simpa [regs] using hov
              exact ((anyOverlap_append_singleton _ _).1 hov').2

theorem addRegion_error_fresh {s : BusH ν} {n : ν} {q : Req} {e : Err} (h : s.addRegion n q = .error e)
    (he : e ≠ .dupName) : n ∉ s.names := by
  unfold addRegion at h
  split at h
  · injection h with h
    exact absurd h.symm he
  · rename_i hn
    exact (hasName_eq_false s n).1 (by simpa using hn)

/-- An accepted request either leaves both dictionaries alone or adds one fresh, non-overlapping entry. -/
theorem apply_regions [AutoNames ν] {s s' : BusH ν} {op : BusOp ν} (h : s.apply op = .ok s') :
    (s'.regions = s.regions ∧ s'.ioRegions = s.ioRegions) ∨ ∃ n, Added s s' n := by
  cases op with
  | addRegion n q => exact Or.inr ⟨n, addRegion_added h⟩
  | addMaster n =>
    simp only [apply, addMaster] at h
    split at h
    · cases h
    · injection h with h
      subst h
      exact Or.inl ⟨rfl, rfl⟩
  | setIoCheck b =>
    simp only [apply] at h
    injection h with h
    subst h
    exact Or.inl ⟨rfl, rfl⟩
  | addSlave n q =>
    simp only [apply] at h
    split at h
    · cases h
    · simp only [addSlave] at h
      cases hst : s.slaveStage (n.getD (AutoNames.slave s.slaves.length)) q with
      | error e => simp [hst] at h
      | ok s1 =>
        simp only [hst] at h
        split at h
        · cases h
        · injection h with h
          subst h
          cases q with
          | none =>
            simp only [slaveStage] at hst
            split at hst
            · injection hst with hst
              subst hst
              exact Or.inl ⟨rfl, rfl⟩
            · cases hst
          | some q =>
            simp only [slaveStage] at hst
            split at hst
            · cases hst
            · obtain ⟨hn, hc⟩ := addRegion_added hst
              exact Or.inr ⟨_, hn, hc⟩

end BusH

namespace RawH
variable {ν : Type} [DecidableEq ν]

structure Inv (s : RawH ν) : Prop where
  names_nodup : s.h.names.Nodup
  live_ok     : ∀ p ∈ s.h.regions, ∀ q ∈ s.h.regions, p.1 ≠ q.1 → p.1 ∉ s.stale → q.1 ∉ s.stale →
                  overlapPair p.2 q.2 = false

omit [DecidableEq ν] in
theorem inv_init (aw dw : Nat) : Inv ({ h := { aw := aw, dw := dw } } : RawH ν) := by
  constructor <;> simp [BusH.names]

omit [DecidableEq ν] in
theorem mem_names_of_mem_regions {h : BusH ν} {p : ν × Region} (hp : p ∈ h.regions) : p.1 ∈ h.names := by
  unfold BusH.names
  exact List.mem_append_left _ (List.mem_map_of_mem hp)

omit [DecidableEq ν] in
/-- An accepted request keeps the invariant. -/
theorem inv_of_added {s : RawH ν} {h' : BusH ν} {n : ν} (hi : Inv s) (ha : BusH.Added s.h h' n) :
    Inv { s with h := h' } := by
  obtain ⟨hn, hc⟩ := ha
  rcases hc with ⟨hr, r, hio⟩ | ⟨hio, r, hr, hno⟩
  · constructor
    · have := BusH.nodup_names_add_io hi.names_nodup hn r
      simpa [BusH.names, hr, hio] using this
    · intro p hp q hq
      simp only [hr] at hp hq
      exact hi.live_ok p hp q hq
  · constructor
    · have := BusH.nodup_names_add_region hi.names_nodup hn r
      simpa [BusH.names, hr, hio] using this
    · intro p hp q hq hne hps hqs
      simp only [hr, List.mem_append, List.mem_singleton] at hp hq
      rcases hp with hp | hp <;> rcases hq with hq | hq
      · exact hi.live_ok p hp q hq hne hps hqs
      · subst hq
        exact hno _ (List.mem_map_of_mem hp)
      · subst hp
        rw [overlapPair_comm]
        exact hno _ (List.mem_map_of_mem hq)
      · subst hp hq
        exact absurd rfl hne

omit [DecidableEq ν] in
/-- A refused request keeps the invariant: what it leaves behind is marked stale. -/
theorem inv_leftover {s : RawH ν} {n : ν} {q : Req} {e : Err} (hi : Inv s) (hn : n ∉ s.h.names) :
    Inv (s.leftover n q e) := by
  unfold leftover
  split
  · constructor
    · exact BusH.nodup_names_add_region hi.names_nodup hn _
    · intro p hp q' hq hne hps hqs
      simp only [List.mem_append, List.mem_singleton] at hp hq hps hqs
      rcases hp with hp | hp
      · rcases hq with hq | hq
        · exact hi.live_ok p hp q' hq hne (fun h => hps (Or.inl h)) (fun h => hqs (Or.inl h))
        · subst hq
          exact absurd (Or.inr rfl) hqs
      · subst hp
        exact absurd (Or.inr rfl) hps
  · constructor
    · exact BusH.nodup_names_add_io hi.names_nodup hn _
    · intro p hp q' hq hne hps hqs
      simp only [List.mem_append, List.mem_singleton] at hps hqs
      exact hi.live_ok p hp q' hq hne (fun h => hps (Or.inl h)) (fun h => hqs (Or.inl h))
  · exact hi

theorem inv_leftover_of_error {s : RawH ν} {n : ν} {q : Req} {e : Err} (hi : Inv s)
    (h : s.h.addRegion n q = .error e) : Inv (s.leftover n q e) := by
  by_cases he : e = .dupName
  · subst he
    unfold leftover
    exact hi
  · exact inv_leftover hi (BusH.addRegion_error_fresh h he)

variable [AutoNames ν]

theorem stepPreFix_inv {s : RawH ν} (op : BusOp ν) (hi : Inv s) : Inv (s.stepPreFix op).1 := by
  unfold stepPreFix
  cases hap : s.h.apply op with
  | ok h' =>
    simp only
    rcases BusH.apply_regions hap with ⟨hr, hio⟩ | ⟨n, ha⟩
    · constructor
      · simpa [BusH.names, hr, hio] using hi.names_nodup
      · intro p hp q hq
        simp only [hr] at hp hq
        exact hi.live_ok p hp q hq
    · exact inv_of_added hi ha
  | error e =>
    simp only
    cases op with
    | addRegion n q => exact inv_leftover_of_error hi hap
    | addMaster n => exact hi
    | setIoCheck b => exact hi
    | addSlave n q =>
      cases q with
      | none => exact hi
      | some q =>
        simp only
        split
        · exact hi
        · cases har : s.h.addRegion (n.getD (AutoNames.slave s.h.slaves.length)) q with
          | ok h' =>
            simp only
            exact inv_of_added hi (BusH.addRegion_added har)
          | error e' =>
            simp only
            exact inv_leftover_of_error hi har

theorem runPreFix_inv {s : RawH ν} (ops : List (BusOp ν)) (hi : Inv s) : Inv (s.runPreFix ops) := by
  unfold runPreFix
  induction ops generalizing s with
  | nil => exact hi
  | cons op ops ih => exact ih (stepPreFix_inv op hi)

/-- The code as it stands (after the fix): every state change of the non-rolled-back object is an accepted
    `apply` or an accepted `add_region`, so the FULL handler invariant survives caught rejections. -/
theorem step_full {s : RawH ν} (op : BusOp ν) (hi : BusH.Inv s.h) :
    BusH.Inv (s.step op).1.h ∧ (s.step op).1.h.aw = s.h.aw ∧ (s.step op).1.h.dw = s.h.dw ∧
      (s.step op).1.stale = s.stale := by
  unfold step
  cases hap : s.h.apply op with
  | ok h' =>
    obtain ⟨a, b⟩ := BusH.apply_widths hap
    exact ⟨BusH.apply_inv hi hap, a, b, rfl⟩
  | error e =>
    cases op with
    | addRegion n q => exact ⟨hi, rfl, rfl, rfl⟩
    | addMaster n => exact ⟨hi, rfl, rfl, rfl⟩
    | setIoCheck b => exact ⟨hi, rfl, rfl, rfl⟩
    | addSlave n q =>
      cases q with
      | none => exact ⟨hi, rfl, rfl, rfl⟩
      | some q =>
        simp only
        split
        · exact ⟨hi, rfl, rfl, rfl⟩
        · cases har : s.h.addRegion (n.getD (AutoNames.slave s.h.slaves.length)) q with
          | ok h' =>
            obtain ⟨a, b⟩ := BusH.addRegion_widths har
            exact ⟨(BusH.addRegion_inv hi har).1, a, b, rfl⟩
          | error e' => exact ⟨hi, rfl, rfl, rfl⟩

theorem run_full {s : RawH ν} (ops : List (BusOp ν)) (hi : BusH.Inv s.h) :
    BusH.Inv (s.run ops).h ∧ (s.run ops).h.aw = s.h.aw ∧ (s.run ops).h.dw = s.h.dw ∧ (s.run ops).stale = s.stale := by
  unfold run
  induction ops generalizing s with
  | nil => exact ⟨hi, rfl, rfl, rfl⟩
  | cons op ops ih =>
    obtain ⟨i1, a1, d1, s1⟩ := step_full op hi
    obtain ⟨i2, a2, d2, s2⟩ := ih (s := (s.step op).1) i1
    exact ⟨i2, a2.trans a1, d2.trans d1, s2.trans s1⟩

/-- On a history in which nothing is refused the real object and the transactional model coincide. -/
theorem run_eq_of_all_ok (s : RawH ν) (ops : List (BusOp ν)) (hok : ∀ v ∈ s.verdicts ops, v = none) :
    (s.run ops).h = s.h.run ops ∧ (s.run ops).stale = s.stale := by
  induction ops generalizing s with
  | nil => exact ⟨rfl, rfl⟩
  | cons op ops ih =>
    have hv : (s.step op).2 = none := hok _ (by simp [verdicts])
    have hrest : ∀ v ∈ (s.step op).1.verdicts ops, v = none := fun v hv' => hok v (by simp [verdicts, hv'])
    obtain ⟨i1, i2⟩ := ih (s.step op).1 hrest
    have hstep : (s.step op).1.h = s.h.step op ∧ (s.step op).1.stale = s.stale := by
      unfold step at hv ⊢
      unfold BusH.step
      cases hap : s.h.apply op with
      | ok h' => simp
      | error e =>
        rw [hap] at hv
        cases op with
        | addRegion n q => simp at hv
        | addMaster n => simp at hv
        | setIoCheck b => simp at hv
        | addSlave n q =>
          cases q with
          | none => simp at hv
          | some q =>
            simp only at hv
            split at hv
            · simp at hv
            · split at hv <;> simp at hv
    show ((s.step op).1.run ops).h = (s.h.step op).run ops ∧ ((s.step op).1.run ops).stale = s.stale
    rw [i1, i2, hstep.1, hstep.2]
    exact ⟨rfl, rfl⟩

end RawH
end Litex.Soc
