import LitexProofs.Soc.Pow2
/-
  `check_regions_overlap` as a statement about address windows.
-/
namespace Litex.Soc

/-- The decoded windows of two regions share no byte address. -/
def WinDisjoint (r0 r1 : Region) : Prop := ∀ x, ¬ (r0.InWindow x ∧ r1.InWindow x)

theorem overlapPair_eq_false_iff (r0 r1 : Region) :
    overlapPair r0 r1 = false ↔
      (r0.linker = true ∨ r1.linker = true ∨ r1.origin + r1.p2 ≤ r0.origin ∨ r0.origin + r0.p2 ≤ r1.origin) := by
  unfold overlapPair
  cases h0 : r0.linker <;> cases h1 : r1.linker <;> simp
  by_cases a : r1.origin + r1.p2 ≤ r0.origin <;> by_cases b : r0.origin + r0.p2 ≤ r1.origin <;> simp [a, b]

theorem overlapPair_comm (r0 r1 : Region) : overlapPair r0 r1 = overlapPair r1 r0 := by
  have h := overlapPair_eq_false_iff r0 r1
  have h' := overlapPair_eq_false_iff r1 r0
  cases a : overlapPair r0 r1 <;> cases b : overlapPair r1 r0 <;> simp_all <;> omega

/-- For two non-linker regions "not reported by `check_regions_overlap`" is exactly "windows disjoint". -/
theorem winDisjoint_iff (r0 r1 : Region) (h0 : r0.linker = false) (h1 : r1.linker = false) :
    overlapPair r0 r1 = false ↔ WinDisjoint r0 r1 := by
  rw [overlapPair_eq_false_iff]
  simp only [h0, h1, Bool.false_eq_true, false_or]
  constructor
  · intro h x ⟨⟨a, b⟩, ⟨c, d⟩⟩
    omega
  · intro h
    have p0 := pow2ceil_pos r0.size
    have p1 := pow2ceil_pos r1.size
    by_cases hle : r0.origin ≤ r1.origin
    · by_cases hh : r0.origin + r0.p2 ≤ r1.origin
      · exact Or.inr hh
      · exact absurd ⟨⟨hle, by omega⟩, ⟨Nat.le_refl _, by unfold Region.p2; omega⟩⟩ (h r1.origin)
    · by_cases hh : r1.origin + r1.p2 ≤ r0.origin
      · exact Or.inl hh
      · exact absurd ⟨⟨Nat.le_refl _, by unfold Region.p2; omega⟩, ⟨by omega, by omega⟩⟩ (h r0.origin)

theorem anyOverlap_eq_false_iff (l : List Region) :
    anyOverlap l = false ↔ l.Pairwise (fun a b => overlapPair a b = false) := by
  induction l with
  | nil => simp [anyOverlap]
  | cons r rs ih =>
    simp only [anyOverlap, Bool.or_eq_false_iff, List.pairwise_cons, ih, List.any_eq_false]
    constructor
    · rintro ⟨h, h'⟩
      exact ⟨fun a ha => by simpa using h a ha, h'⟩
    · rintro ⟨h, h'⟩
      exact ⟨fun a ha => by simpa using h a ha, h'⟩

theorem anyOverlap_append_singleton (l : List Region) (r : Region) :
    anyOverlap (l ++ [r]) = false ↔ anyOverlap l = false ∧ ∀ a ∈ l, overlapPair a r = false := by
  simp only [anyOverlap_eq_false_iff, List.pairwise_append, List.pairwise_cons, List.mem_singleton]
  constructor
  · rintro ⟨h1, _, h3⟩
    exact ⟨h1, fun a ha => h3 a ha r rfl⟩
  · rintro ⟨h1, h3⟩
    exact ⟨h1, ⟨by simp, List.Pairwise.nil⟩, fun a ha b hb => hb ▸ h3 a ha⟩

end Litex.Soc
