import LitexModel.Soc.Region
/-
  Facts about `clog2` / `pow2ceil` (Migen's `log2_int(n, False)` and `SoCRegion.size_pow2`).
-/
namespace Litex.Soc

theorem le_pow2ceil (n : Nat) : n ≤ pow2ceil n := by
  unfold pow2ceil clog2
  split
  · simp; omega
  · have := Nat.lt_log2_self (n := n - 1)
    omega

theorem pow2ceil_pos (n : Nat) : 0 < pow2ceil n := Nat.two_pow_pos _

theorem pow2ceil_lt_two_mul {n : Nat} (h : 0 < n) : pow2ceil n < 2 * n := by
  unfold pow2ceil clog2
  split
  · simp; omega
  · have := Nat.log2_self_le (n := n - 1) (by omega)
    rw [Nat.pow_succ]
    omega

theorem pow2ceil_le_of_le_two_pow {n k : Nat} (h : n ≤ 2 ^ k) : pow2ceil n ≤ 2 ^ k := by
  unfold pow2ceil clog2
  split
  · simpa using Nat.one_le_two_pow
  · have h1 : (n - 1).log2 < k := (Nat.log2_lt (by omega)).2 (by omega)
    exact Nat.pow_le_pow_right (by decide) h1

theorem clog2_two_pow (k : Nat) : clog2 (2 ^ k) = k := by
  unfold clog2
  split
  · rename_i h
    cases k with
    | zero => rfl
    | succ k =>
      have : 2 ≤ 2 ^ (k + 1) := by
        have := Nat.one_le_two_pow (n := k)
        rw [Nat.pow_succ]; omega
      omega
  · rename_i h
    have hk : 0 < k := by
      cases k with
      | zero => simp at h
      | succ k => omega
    have h1 : (2 ^ k - 1).log2 < k := (Nat.log2_lt (by omega)).2 (by have := Nat.two_pow_pos k; omega)
    have h2 : ¬ (2 ^ k - 1).log2 < k - 1 := by
      intro hlt
      have := (Nat.log2_lt (by omega)).1 hlt
      have : 2 ^ k = 2 * 2 ^ (k - 1) := by
        conv => lhs; rw [show k = (k - 1) + 1 by omega, Nat.pow_succ]
        omega
      omega
    omega

theorem pow2ceil_two_pow (k : Nat) : pow2ceil (2 ^ k) = 2 ^ k := by
  unfold pow2ceil; rw [clog2_two_pow]

theorem pow2ceil_dvd_two_pow {n k : Nat} (h : n ≤ 2 ^ k) : pow2ceil n ∣ 2 ^ k := by
  have h1 := pow2ceil_le_of_le_two_pow h
  unfold pow2ceil at *
  exact Nat.pow_dvd_pow 2 ((Nat.pow_le_pow_iff_right (by decide)).1 h1)

/-- The Python test `(origin & (size_pow2 - 1)) != 0` is `origin % size_pow2 != 0`. -/
theorem land_pow2ceil_pred (origin n : Nat) : origin &&& (pow2ceil n - 1) = origin % pow2ceil n := by
  unfold pow2ceil
  exact Nat.and_two_pow_sub_one_eq_mod origin (clog2 n)

/-- An aligned origin plus one window does not cross a power-of-two boundary it starts below. -/
theorem aligned_add_le {o p t : Nat} (ho : o % p = 0) (ht : p ∣ t) (hlt : o < t) : o + p ≤ t := by
  obtain ⟨m, rfl⟩ := ht
  obtain ⟨k, rfl⟩ := Nat.dvd_of_mod_eq_zero ho
  have : k < m := Nat.lt_of_mul_lt_mul_left hlt
  calc p * k + p = p * (k + 1) := by rw [Nat.mul_succ]
    _ ≤ p * m := Nat.mul_le_mul_left p this

end Litex.Soc
