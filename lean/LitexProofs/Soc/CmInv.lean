import LitexModel.Soc.Cm
/-
  `ConstraintManager`: table entries are conserved (`available ++ matched` is a permutation of everything ever
  put into the table), so an entry is granted at most once; lookups only see granted entries.
-/
namespace Litex.Soc
namespace Cm

theorem lookupIn_some {l : List Res} {name : Nat} {num : Option Nat} {r : Res} (h : lookupIn l name num = some r) :
    r ∈ l ∧ r.name = name ∧ (∀ k, num = some k → r.num = k) := by
  unfold lookupIn at h
  have hm := List.mem_of_find?_eq_some h
  have hp := List.find?_some h
  unfold Res.matches at hp
  simp only [Bool.and_eq_true, beq_iff_eq] at hp
  refine ⟨hm, hp.1, ?_⟩
  intro k hk
  subst hk
  simpa using hp.2

/-- One `request`: either nothing changes, or one available entry with the requested name/number moves to
    the end of `matched`. -/
theorem request_spec {s s' : Cm} {name : Nat} {num : Option Nat} {loose : Bool} {o : Option Res}
    (h : s.request name num loose = .ok (s', o)) :
    (o = none ∧ s' = s) ∨
    (∃ r, o = some r ∧ r ∈ s.available ∧ r.name = name ∧ (∀ k, num = some k → r.num = k) ∧
      s'.available = s.available.erase r ∧ s'.matched = s.matched ++ [r]) := by
  unfold request at h
  split at h
  · split at h
    · injection h with h
      injection h with h1 h2
      exact Or.inl ⟨h2.symm, h1.symm⟩
    · cases h
  · rename_i r hr
    injection h with h
    injection h with h1 h2
    obtain ⟨hm, hn, hk⟩ := lookupIn_some hr
    refine Or.inr ⟨r, h2.symm, hm, hn, hk, ?_, ?_⟩ <;> subst h1 <;> rfl

theorem perm_move {av ma : List Res} {r : Res} (h : r ∈ av) : (av.erase r ++ (ma ++ [r])).Perm (av ++ ma) := by
  have h1 : av.Perm (r :: av.erase r) := List.perm_cons_erase h
  have h2 : (av.erase r ++ (ma ++ [r])).Perm (r :: av.erase r ++ ma) := by
    rw [← List.append_assoc]
    exact (List.perm_append_singleton _ _).trans (by simp)
  exact h2.trans (List.Perm.append_right ma h1.symm)

/-- What a request loop (`request_all` / `request_remaining`) does: moves a list `new` of available entries,
    all named `name`, to the end of `matched`, and returns them after `acc`. -/
def LoopSpec (name : Nat) (s : Cm) (acc : List Res) (res : Cm × List Res) : Prop :=
  ∃ new, res.2 = acc ++ new ∧ res.1.matched = s.matched ++ new ∧
    (res.1.available ++ res.1.matched).Perm (s.available ++ s.matched) ∧
    (∀ r ∈ new, r ∈ s.available ∧ r.name = name)

theorem loopSpec_refl (name : Nat) (s : Cm) (acc : List Res) : LoopSpec name s acc (s, acc) :=
  ⟨[], by simp, by simp, List.Perm.refl _, by simp⟩

theorem loopSpec_step {name : Nat} {s s' : Cm} {acc : List Res} {r : Res} {res : Cm × List Res}
    (hm : r ∈ s.available) (hn : r.name = name) (ha : s'.available = s.available.erase r)
    (hma : s'.matched = s.matched ++ [r]) (h : LoopSpec name s' (acc ++ [r]) res) : LoopSpec name s acc res := by
  obtain ⟨new, h1, h2, h3, h4⟩ := h
  refine ⟨r :: new, by simp [h1], by simp [h2, hma], ?_, ?_⟩
  · refine h3.trans ?_
    rw [ha, hma]
    exact perm_move hm
  · intro x hx
    simp only [List.mem_cons] at hx
    rcases hx with hx | hx
    · subst hx; exact ⟨hm, hn⟩
    · obtain ⟨hx1, hx2⟩ := h4 x hx
      rw [ha] at hx1
      exact ⟨List.mem_of_mem_erase hx1, hx2⟩

theorem requestAllLoop_spec (name : Nat) : ∀ (fuel : Nat) (s : Cm) (acc : List Res),
    LoopSpec name s acc (requestAllLoop name fuel s acc) := by
  intro fuel
  induction fuel with
  | zero => intro s acc; exact loopSpec_refl name s acc
  | succ f ih =>
    intro s acc
    simp only [requestAllLoop]
    split
    · rename_i s' r hr
      rcases request_spec hr with ⟨h, _⟩ | ⟨r', h1, hm, hn, _, ha, hma⟩
      · cases h
      · injection h1 with h1
        subst h1
        exact loopSpec_step hm hn ha hma (ih s' (acc ++ [r]))
    · exact loopSpec_refl name s acc

theorem requestRemainingLoop_spec (name : Nat) : ∀ (fuel : Nat) (s : Cm) (acc : List Res),
    LoopSpec name s acc (requestRemainingLoop name fuel s acc) := by
  intro fuel
  induction fuel with
  | zero => intro s acc; exact loopSpec_refl name s acc
  | succ f ih =>
    intro s acc
    simp only [requestRemainingLoop]
    split
    · rename_i s' r hr
      rcases request_spec hr with ⟨h, _⟩ | ⟨r', h1, hm, hn, _, ha, hma⟩
      · cases h
      · injection h1 with h1
        subst h1
        exact loopSpec_step hm hn ha hma (ih s' (acc ++ [r]))
    · exact loopSpec_refl name s acc

def opExt : CmOp → List Res
  | .extend io _ => io
  | _ => []

/-- Every operation conserves the table entries and only ever appends to `matched`. -/
theorem apply_spec (s : Cm) (op : CmOp) :
    ((s.apply op).1.available ++ (s.apply op).1.matched).Perm (s.available ++ s.matched ++ opExt op) ∧
    ∃ new, (s.apply op).1.matched = s.matched ++ new ∧ ∀ r ∈ new, r ∈ s.available := by
  cases op with
  | request name num loose =>
    simp only [apply, opExt, List.append_nil]
    split
    · rename_i s' r hr
      rcases request_spec hr with ⟨h, _⟩ | ⟨r', h1, hm, _, _, ha, hma⟩
      · cases h
      · injection h1 with h1
        subst h1
        refine ⟨?_, [r], hma, by simpa using hm⟩
        simp only [ha, hma]
        exact perm_move hm
    · rename_i s' hr
      rcases request_spec hr with ⟨_, h⟩ | ⟨r', h1, _⟩
      · subst h; exact ⟨List.Perm.refl _, [], by simp, by simp⟩
      · cases h1
    · exact ⟨List.Perm.refl _, [], by simp, by simp⟩
  | requestAll name =>
    simp only [apply, opExt, List.append_nil, requestAll]
    obtain ⟨new, h1, h2, h3, h4⟩ := requestAllLoop_spec name (s.available.length + 1) s []
    split
    · rename_i s' l hh
      split at hh
      · cases hh
      · injection hh with hh
        injection hh with e1 e2
        rw [e1] at h2 h3
        exact ⟨h3, new, h2, fun r hr => (h4 r hr).1⟩
    · exact ⟨List.Perm.refl _, [], by simp, by simp⟩
  | requestRemaining name =>
    simp only [apply, opExt, List.append_nil, requestRemaining]
    obtain ⟨new, h1, h2, h3, h4⟩ := requestRemainingLoop_spec name (s.available.length + 1) s []
    split
    · rename_i s' l hh
      split at hh
      · cases hh
      · injection hh with hh
        injection hh with e1 e2
        rw [e1] at h2 h3
        exact ⟨h3, new, h2, fun r hr => (h4 r hr).1⟩
    · exact ⟨List.Perm.refl _, [], by simp, by simp⟩
  | lookup name num sub loose =>
    simp only [apply, opExt, List.append_nil]
    split <;> exact ⟨List.Perm.refl _, [], by simp, by simp⟩
  | extend io p =>
    simp only [apply, opExt, extend]
    refine ⟨?_, [], by simp, by simp⟩
    split
    · -- io ++ available ++ matched ~ available ++ matched ++ io
      rw [List.append_assoc]
      exact List.perm_append_comm
    · rw [List.append_assoc, List.append_assoc]
      exact List.Perm.append_left _ List.perm_append_comm

theorem run_perm (s : Cm) (ops : List CmOp) :
    ((s.run ops).available ++ (s.run ops).matched).Perm (s.available ++ s.matched ++ extensions ops) := by
  unfold run
  induction ops generalizing s with
  | nil => simp [extensions]
  | cons op ops ih =>
    rw [List.foldl_cons]
    refine (ih _).trans ?_
    have h := (apply_spec s op).1
    have e : extensions (op :: ops) = opExt op ++ extensions ops := by
      cases op <;> simp [extensions, opExt]
    rw [e, ← List.append_assoc]
    exact List.Perm.append_right _ h

/-- `matched` only grows along a history (a grant is never taken back or re-issued from `matched`). -/
theorem run_matched_prefix (s : Cm) (ops : List CmOp) : ∃ new, (s.run ops).matched = s.matched ++ new := by
  unfold run
  induction ops generalizing s with
  | nil => exact ⟨[], by simp⟩
  | cons op ops ih =>
    rw [List.foldl_cons]
    obtain ⟨n1, h1, _⟩ := (apply_spec s op).2
    obtain ⟨n2, h2⟩ := ih (s.apply op).1
    exact ⟨n1 ++ n2, by rw [h2, h1, List.append_assoc]⟩

theorem lookup_spec {s : Cm} {name : Nat} {num sub : Option Nat} {loose : Bool} {r : Res} {sb : Option Nat}
    (h : s.lookup name num sub loose = .ok (some (r, sb))) :
    r ∈ s.matched ∧ r.name = name ∧ (∀ k, num = some k → r.num = k) ∧ sb = sub ∧ (∀ x, sb = some x → x ∈ r.subs) := by
  unfold lookup at h
  split at h
  · split at h <;> cases h
  · rename_i r' hr
    obtain ⟨hm, hn, hk⟩ := lookupIn_some hr
    split at h
    · injection h with h
      injection h with h
      injection h with e1 e2
      subst e1 e2
      exact ⟨hm, hn, hk, rfl, by simp⟩
    · rename_i x
      split at h
      · rename_i hc
        injection h with h
        injection h with h
        injection h with e1 e2
        subst e1 e2
        refine ⟨hm, hn, hk, rfl, ?_⟩
        intro y hy
        injection hy with hy
        subst hy
        simpa using hc
      · cases h

end Cm
end Litex.Soc
