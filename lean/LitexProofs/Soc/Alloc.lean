import LitexModel.Soc.Bus
import LitexProofs.Soc.Overlap
/-
  The first-fit loop of `alloc_region`: what a returned origin satisfies, and that the fuel of the model is
  never exhausted for `size > 0` (i.e. the Python `while` loop terminates).
-/
namespace Litex.Soc

theorem allocLoop_found {regs : List Region} {size : Nat} {cached : Bool} {limit : Nat} :
    ∀ (fuel origin o : Nat), allocLoop regs size cached limit fuel origin = .found o →
      origin ≤ o ∧ o + size < limit ∧ o % pow2ceil size = 0 ∧
      (regs.any fun a => overlapPair a (cand o size cached)) = false := by
  intro fuel
  induction fuel with
  | zero => intro origin o h; simp [allocLoop] at h
  | succ f ih =>
    intro origin o h
    simp only [allocLoop] at h
    split at h
    · split at h
      · obtain ⟨a, b, c, d⟩ := ih _ _ h
        exact ⟨by omega, b, c, d⟩
      · split at h
        · obtain ⟨a, b, c, d⟩ := ih _ _ h
          exact ⟨by omega, b, c, d⟩
        · rename_i h1 h2 h3
          injection h with h
          subst h
          refine ⟨Nat.le_refl _, h1, by omega, by simpa using h3⟩
    · cases h

theorem allocLoop_ne_outOfFuel {regs : List Region} {size : Nat} {cached : Bool} {limit : Nat} (hsize : 0 < size) :
    ∀ (fuel origin : Nat), limit - origin < fuel → allocLoop regs size cached limit fuel origin ≠ .outOfFuel := by
  intro fuel
  induction fuel with
  | zero => intro origin h; omega
  | succ f ih =>
    intro origin h
    simp only [allocLoop]
    split
    · split
      · rename_i h1 h2
        have hp := pow2ceil_pos size
        have := Nat.mod_lt origin hp
        exact ih _ (by omega)
      · split
        · exact ih _ (by omega)
        · simp
    · simp

theorem allocSearch_ok {regs : List Region} {size : Nat} {cached : Bool} :
    ∀ (srs : List Region) (o : Nat), allocSearch regs size cached srs = .ok o →
      ∃ sr ∈ srs, sr.origin ≤ o ∧ o + size < sr.origin + sr.p2 ∧ o % pow2ceil size = 0 ∧
        (regs.any fun a => overlapPair a (cand o size cached)) = false := by
  intro srs
  induction srs with
  | nil => intro o h; simp [allocSearch] at h
  | cons sr rest ih =>
    intro o h
    simp only [allocSearch] at h
    split at h
    · rename_i o' hf
      injection h with h
      subst h
      exact ⟨sr, by simp, allocLoop_found _ _ _ hf⟩
    · obtain ⟨sr', hm, hh⟩ := ih o h
      exact ⟨sr', by simp [hm], hh⟩
    · cases h

/-- The model never reports `Err.fuel`: for `size > 0` the loop ends by itself. -/
theorem allocSearch_ne_fuel {regs : List Region} {size : Nat} {cached : Bool} (hsize : 0 < size) :
    ∀ (srs : List Region), allocSearch regs size cached srs ≠ .error .fuel := by
  intro srs
  induction srs with
  | nil => simp [allocSearch]
  | cons sr rest ih =>
    simp only [allocSearch]
    split
    · simp
    · exact ih
    · rename_i hf
      exact absurd hf (allocLoop_ne_outOfFuel hsize _ _ (by unfold allocFuel; omega))

end Litex.Soc
