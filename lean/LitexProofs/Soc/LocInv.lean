import LitexModel.Soc.Loc
/-
  Invariant of `SoCLocHandler` (CSR pages, interrupt numbers): names unique, numbers unique and in range.
-/
namespace Litex.Soc
namespace LocH
variable {ν : Type} [DecidableEq ν]

structure Inv (s : LocH ν) : Prop where
  names_nodup : (s.locs.map (·.1)).Nodup
  locs_nodup  : (s.locs.map (·.2)).Nodup
  in_range    : ∀ p ∈ s.locs, 0 ≤ p.2 ∧ p.2 < (s.nLocs : Int)

theorem hasName_eq_false (s : LocH ν) (n : ν) : s.hasName n = false ↔ n ∉ s.locs.map (·.1) := by
  unfold hasName
  induction s.locs with
  | nil => simp
  | cons p ps ih =>
    simp only [List.any_cons, Bool.or_eq_false_iff, ih, List.map_cons, List.mem_cons, not_or]
    constructor
    · rintro ⟨h1, h2⟩
      exact ⟨fun h => by simp [h] at h1, h2⟩
    · rintro ⟨h1, h2⟩
      exact ⟨by simpa using fun h => h1 h.symm, h2⟩

omit [DecidableEq ν] in
theorem hasLoc_eq_false (s : LocH ν) (k : Int) : s.hasLoc k = false ↔ k ∉ s.locs.map (·.2) := by
  unfold hasLoc
  induction s.locs with
  | nil => simp
  | cons p ps ih =>
    simp only [List.any_cons, Bool.or_eq_false_iff, ih, List.map_cons, List.mem_cons, not_or]
    constructor
    · rintro ⟨h1, h2⟩
      exact ⟨fun h => by simp [h] at h1, h2⟩
    · rintro ⟨h1, h2⟩
      exact ⟨by simpa using fun h => h1 h.symm, h2⟩

omit [DecidableEq ν] in
theorem alloc_ok {s : LocH ν} {k : Nat} (h : s.alloc = .ok k) : k < s.nLocs ∧ s.hasLoc (Int.ofNat k) = false := by
  unfold alloc at h
  split at h
  · rename_i k' hf
    injection h with h
    subst h
    have hm := List.mem_of_find?_eq_some hf
    have hp := List.find?_some hf
    exact ⟨by simpa using hm, by simpa using hp⟩
  · cases h

theorem inv_push {s : LocH ν} {n : ν} {k : Int} (hi : Inv s) (hn : s.hasName n = false) (hk : s.hasLoc k = false)
    (h0 : 0 ≤ k) (h1 : k < (s.nLocs : Int)) : Inv { s with locs := s.locs ++ [(n, k)] } := by
  have hn' := (hasName_eq_false s n).1 hn
  have hk' := (hasLoc_eq_false s k).1 hk
  refine ⟨?_, ?_, ?_⟩
  · simp only [List.map_append, List.map_cons, List.map_nil]
    rw [List.nodup_append]
    refine ⟨hi.names_nodup, by simp, ?_⟩
    intro a ha b hb
    simp at hb
    subst hb
    intro e; subst e; exact hn' ha
  · simp only [List.map_append, List.map_cons, List.map_nil]
    rw [List.nodup_append]
    refine ⟨hi.locs_nodup, by simp, ?_⟩
    intro a ha b hb
    simp at hb
    subst hb
    intro e; subst e; exact hk' ha
  · intro p hp
    simp only [List.mem_append, List.mem_singleton] at hp
    rcases hp with hp | hp
    · exact hi.in_range p hp
    · subst hp; exact ⟨h0, h1⟩

theorem add_inv {s s' : LocH ν} {n : ν} {k : Option Int} {u : Bool} (hi : Inv s) (h : s.add n k u = .ok s') :
    Inv s' ∧ s'.nLocs = s.nLocs := by
  unfold add at h
  split at h
  · cases h
  · split at h
    · injection h with h; subst h; exact ⟨hi, rfl⟩
    · split at h
      · cases h
      · rename_i hn
        have hn : s.hasName n = false := by simpa using hn
        split at h
        · split at h
          · rename_i j hj
            injection h with h
            subst h
            obtain ⟨hlt, hfree⟩ := alloc_ok hj
            exact ⟨inv_push hi hn hfree (Int.natCast_nonneg j) (by exact_mod_cast hlt), rfl⟩
          · cases h
        · rename_i j
          split at h
          · cases h
          · rename_i hfree
            split at h
            · cases h
            · split at h
              · cases h
              · injection h with h
                subst h
                exact ⟨inv_push hi hn (by simpa using hfree) (by omega) (by omega), rfl⟩

theorem addAll_inv {s s' : LocH ν} (l : List (ν × Int)) (hi : Inv s) (h : s.addAll l = .ok s') :
    Inv s' ∧ s'.nLocs = s.nLocs := by
  induction l generalizing s with
  | nil =>
    simp only [addAll] at h
    injection h with h
    subst h
    exact ⟨hi, rfl⟩
  | cons p rest ih =>
    obtain ⟨n, k⟩ := p
    simp only [addAll] at h
    split at h
    · rename_i s1 h1
      obtain ⟨i1, e1⟩ := add_inv hi h1
      obtain ⟨i2, e2⟩ := ih i1 h
      exact ⟨i2, e2.trans e1⟩
    · cases h

theorem apply_inv {s s' : LocH ν} {op : LocOp ν} (hi : Inv s) (h : s.apply op = .ok s') :
    Inv s' ∧ s'.nLocs = s.nLocs := by
  cases op with
  | add n k u => exact add_inv hi h
  | addressMap n =>
    simp only [apply, addressMap] at h
    split at h
    · injection h with h; subst h; exact ⟨hi, rfl⟩
    · exact add_inv hi h
  | enable =>
    simp only [apply] at h
    injection h with h
    subst h
    exact ⟨⟨hi.names_nodup, hi.locs_nodup, hi.in_range⟩, rfl⟩

theorem step_inv {s : LocH ν} (op : LocOp ν) (hi : Inv s) : Inv (s.step op) ∧ (s.step op).nLocs = s.nLocs := by
  unfold step
  split
  · rename_i s' h; exact apply_inv hi h
  · exact ⟨hi, rfl⟩

theorem run_inv {s : LocH ν} (ops : List (LocOp ν)) (hi : Inv s) : Inv (s.run ops) ∧ (s.run ops).nLocs = s.nLocs := by
  unfold run
  induction ops generalizing s with
  | nil => exact ⟨hi, rfl⟩
  | cons op ops ih =>
    obtain ⟨h1, h2⟩ := step_inv op hi
    obtain ⟨h3, h4⟩ := ih h1
    exact ⟨h3, by rw [List.foldl_cons, h4, h2]⟩

omit [DecidableEq ν] in
theorem inv_empty (n : Nat) (e : Bool) : Inv ({ nLocs := n, enabled := e } : LocH ν) :=
  ⟨by simp, by simp, by simp⟩

end LocH
end Litex.Soc
