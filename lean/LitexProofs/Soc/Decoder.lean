import LitexProofs.Soc.Overlap
/-
  `SoCRegion.decoder`: the predicate on word addresses is exactly membership of the byte address in the
  power-of-two window, provided the origin is aligned and the window is at least one bus word.
-/
namespace Litex.Soc

theorem wordShift_eq {dw sh : Nat} (h : dw / 8 = 2 ^ sh) : wordShift dw = sh := by
  unfold wordShift; rw [h, Nat.log2_two_pow]

theorem div_eq_iff_window (a o k : Nat) : a / 2 ^ k = o ↔ o * 2 ^ k ≤ a ∧ a < o * 2 ^ k + 2 ^ k := by
  have hk : 0 < 2 ^ k := Nat.two_pow_pos k
  constructor
  · intro h
    subst h
    have h1 := Nat.div_add_mod a (2 ^ k)
    have h2 := Nat.mod_lt a hk
    rw [Nat.mul_comm] at h1
    omega
  · rintro ⟨h1, h2⟩
    apply Nat.div_eq_of_lt_le
    · exact h1
    · rw [Nat.succ_mul]; exact h2

theorem decoderAccepts_iff (aw dw sh : Nat) (r : Region) (a : Nat)
    (hdw : dw / 8 = 2 ^ sh) (hsh : sh ≤ aw) (hdec : r.decode = true) (hal : r.aligned = true)
    (hword : dw / 8 ≤ r.p2) (ha : a < 2 ^ (aw - sh)) :
    decoderAccepts aw dw r a = true ↔ r.InWindow (a * (dw / 8)) := by
  unfold decoderAccepts Region.InWindow
  rw [wordShift_eq hdw, hdw]
  simp only [hdec, Bool.not_true, Bool.false_or]
  have hp2 : r.p2 = 2 ^ clog2 r.size := rfl
  have hshp : sh ≤ clog2 r.size := by
    rw [hdw, hp2] at hword
    exact (Nat.pow_le_pow_iff_right (by decide)).1 hword
  have hal' : r.origin % 2 ^ clog2 r.size = 0 := by
    simpa [Region.aligned, hp2] using hal
  obtain ⟨o, ho⟩ := Nat.dvd_of_mod_eq_zero hal'
  have hsplit : (2 : Nat) ^ clog2 r.size = 2 ^ (clog2 r.size - sh) * 2 ^ sh := by
    rw [← Nat.pow_add]; congr 1; omega
  split
  · rename_i hfull
    simp only [Bool.and_eq_true, beq_iff_eq] at hfull
    obtain ⟨h0, hfull⟩ := hfull
    simp only [true_iff, h0, Nat.zero_le, true_and, Nat.zero_add, hfull]
    calc a * 2 ^ sh < 2 ^ (aw - sh) * 2 ^ sh := Nat.mul_lt_mul_of_pos_right ha (Nat.two_pow_pos sh)
      _ = 2 ^ aw := by rw [← Nat.pow_add]; congr 1; omega
  · simp only [beq_iff_eq, Nat.shiftRight_eq_div_pow]
    have hsz : r.p2 / 2 ^ sh = 2 ^ (clog2 r.size - sh) := by
      rw [hp2, hsplit, Nat.mul_div_cancel _ (Nat.two_pow_pos sh)]
    rw [hsz, clog2_two_pow]
    have horg : r.origin / 2 ^ sh / 2 ^ (clog2 r.size - sh) = o := by
      rw [Nat.div_div_eq_div_mul, Nat.mul_comm (2 ^ sh), ← hsplit, ho, Nat.mul_div_cancel_left _ (Nat.two_pow_pos _)]
    rw [horg, div_eq_iff_window, hp2, ho]
    have e1 : 2 ^ clog2 r.size * o = o * 2 ^ (clog2 r.size - sh) * 2 ^ sh := by
      rw [Nat.mul_assoc, ← hsplit, Nat.mul_comm]
    rw [e1]
    constructor
    · rintro ⟨h1, h2⟩
      refine ⟨Nat.mul_le_mul_right _ h1, ?_⟩
      calc a * 2 ^ sh < (o * 2 ^ (clog2 r.size - sh) + 2 ^ (clog2 r.size - sh)) * 2 ^ sh :=
            Nat.mul_lt_mul_of_pos_right h2 (Nat.two_pow_pos sh)
        _ = _ := by rw [Nat.add_mul, ← hsplit]
    · rintro ⟨h1, h2⟩
      refine ⟨Nat.le_of_mul_le_mul_right h1 (Nat.two_pow_pos sh), ?_⟩
      rw [hsplit, ← Nat.add_mul] at h2
      exact Nat.lt_of_mul_lt_mul_right h2

/-- Two aligned, decoded regions of at least one bus word with disjoint windows never accept the same word. -/
theorem decoders_disjoint (aw dw sh : Nat) (r0 r1 : Region) (a : Nat)
    (hdw : dw / 8 = 2 ^ sh) (hsh : sh ≤ aw) (ha : a < 2 ^ (aw - sh))
    (hd0 : r0.decode = true) (hd1 : r1.decode = true) (hal0 : r0.aligned = true) (hal1 : r1.aligned = true)
    (hw0 : dw / 8 ≤ r0.p2) (hw1 : dw / 8 ≤ r1.p2) (hdis : WinDisjoint r0 r1) :
    ¬ (decoderAccepts aw dw r0 a = true ∧ decoderAccepts aw dw r1 a = true) := by
  rw [decoderAccepts_iff aw dw sh r0 a hdw hsh hd0 hal0 hw0 ha, decoderAccepts_iff aw dw sh r1 a hdw hsh hd1 hal1 hw1 ha]
  exact hdis _

end Litex.Soc
