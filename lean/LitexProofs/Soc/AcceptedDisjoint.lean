import LitexProofs.Soc.Decoder
/-
  Interface theorem for other properties (C06 imports it): a region list that `check_regions_overlap` accepts
  (`anyOverlap l = false`, the test `SoCBusHandler.add_region` runs over `size_pow2` windows after every
  insertion) has pairwise disjoint decoder windows, and — for aligned, decoded regions of at least one bus
  word — pairwise disjoint `SoCRegion.decoder` predicates over all word addresses.

  Names are stable: `accepted_regions_pairwise_disjoint_windows`, `accepted_regions_pairwise_disjoint_decoders`,
  `accepted_regions_one_decoder_per_address`.
-/
namespace Litex.Soc

/-- `check_regions_overlap(regions) is None` ⇒ any two non-linker regions of the list (at different positions)
    have disjoint power-of-two windows `[origin, origin + size_pow2)`. -/
theorem accepted_regions_pairwise_disjoint_windows (l : List Region) (h : anyOverlap l = false) :
    l.Pairwise (fun r0 r1 => r0.linker = false → r1.linker = false → WinDisjoint r0 r1) := by
  have hp := (anyOverlap_eq_false_iff l).1 h
  exact hp.imp (fun {a b} hab h0 h1 => (winDisjoint_iff a b h0 h1).1 hab)

/-- The same at decoder level: for a bus of `2^sh` bytes per word and address width `aw`, the predicates that
    `SoCRegion.decoder` builds for two accepted regions never both accept a word address `a < 2^(aw-sh)`.
    Hypotheses per region: non-linker, `decode=True`, origin aligned on `size_pow2` (what `decoder()` checks at
    finalize), window at least one bus word (`_partial`: excluded region = open finding C13-decoder-subword). -/
theorem accepted_regions_pairwise_disjoint_decoders (aw dw sh : Nat) (l : List Region)
    (hdw : dw / 8 = 2 ^ sh) (hsh : sh ≤ aw) (h : anyOverlap l = false)
    (hall : ∀ r ∈ l, r.linker = false ∧ r.decode = true ∧ r.aligned = true ∧ dw / 8 ≤ r.p2) :
    l.Pairwise (fun r0 r1 => ∀ a, a < 2 ^ (aw - sh) →
      ¬ (decoderAccepts aw dw r0 a = true ∧ decoderAccepts aw dw r1 a = true)) := by
  have hp := accepted_regions_pairwise_disjoint_windows l h
  rw [List.pairwise_iff_forall_sublist] at hp ⊢
  intro r0 r1 hsub
  have hm0 : r0 ∈ l := hsub.subset (by simp)
  have hm1 : r1 ∈ l := hsub.subset (by simp)
  obtain ⟨l0, d0, a0, w0⟩ := hall r0 hm0
  obtain ⟨l1, d1, a1, w1⟩ := hall r1 hm1
  intro a ha
  exact decoders_disjoint aw dw sh r0 r1 a hdw hsh ha d0 d1 a0 a1 w0 w1 (hp hsub l0 l1)

/-- Counting form: among the decoders of an accepted list at most one accepts any given word address. -/
theorem accepted_regions_one_decoder_per_address (aw dw sh : Nat) (l : List Region)
    (hdw : dw / 8 = 2 ^ sh) (hsh : sh ≤ aw) (h : anyOverlap l = false)
    (hall : ∀ r ∈ l, r.linker = false ∧ r.decode = true ∧ r.aligned = true ∧ dw / 8 ≤ r.p2)
    (a : Nat) (ha : a < 2 ^ (aw - sh)) :
    (l.filter (fun r => decoderAccepts aw dw r a)).length ≤ 1 := by
  have hp := accepted_regions_pairwise_disjoint_decoders aw dw sh l hdw hsh h hall
  have hf : (l.filter (fun r => decoderAccepts aw dw r a)).Pairwise (fun _ _ => False) := by
    refine (hp.filter _).imp_of_mem ?_
    intro r0 r1 h0 h1 hd
    have e0 := (List.mem_filter.1 h0).2
    have e1 := (List.mem_filter.1 h1).2
    exact hd a ha ⟨e0, e1⟩
  match hl : l.filter (fun r => decoderAccepts aw dw r a), hf with
  | [], _ => simp
  | [_], _ => simp
  | x :: y :: _, hf' =>
    rw [hl] at hf
    exact absurd (List.pairwise_cons.1 hf).1 (by intro hh; exact hh y (by simp))

/-- Non-vacuity: an accepted three-region list whose decoders split the word addresses. -/
example :
    let l : List Region := [⟨0x0, 0x1800, true, false, true⟩, ⟨0x2000, 0x1000, true, false, true⟩,
                            ⟨0x80000000, 0x10000, false, false, true⟩]
    anyOverlap l = false ∧ (∀ r ∈ l, r.linker = false ∧ r.decode = true ∧ r.aligned = true ∧ 32 / 8 ≤ r.p2) ∧
    l.map (fun r => decoderAccepts 32 32 r 0x7ff) = [true, false, false] ∧
    l.map (fun r => decoderAccepts 32 32 r 0x800) = [false, true, false] := by decide +kernel

/-- A list that is NOT accepted (`[0x0,+0x1800)` rounds up to `[0x0,+0x2000)` and meets `[0x1800,+0x800)`):
    both decoders accept word `0x600`. -/
example :
    let l : List Region := [⟨0x0, 0x1800, true, false, true⟩, ⟨0x1800, 0x800, true, false, true⟩]
    anyOverlap l = true ∧ l.map (fun r => decoderAccepts 32 32 r 0x600) = [true, true] := by decide +kernel

end Litex.Soc
