import Mathlib.Data.List.Nodup
import LitexProofs.Soc.CmInv
/-
  `get_sig_constraints`: one constraint per granted signal (entry, subsignal), never two.
-/
namespace Litex.Soc
namespace Cm

def consOf (r : Res) : List (Nat × Option Nat) :=
  if r.subs.isEmpty then [(r.uid, none)] else r.subs.map fun sb => (r.uid, some sb)

theorem sigConstraints_eq (s : Cm) : s.sigConstraints = s.matched.flatMap consOf := rfl

theorem mem_consOf {r : Res} {p : Nat × Option Nat} (h : p ∈ consOf r) : p.1 = r.uid := by
  unfold consOf at h
  split at h
  · simp at h; subst h; rfl
  · simp only [List.mem_map] at h
    obtain ⟨sb, _, rfl⟩ := h
    rfl

theorem consOf_nodup {r : Res} (h : r.subs.Nodup) : (consOf r).Nodup := by
  unfold consOf
  split
  · simp
  · exact h.map (fun a b e => by injection e with _ e; injection e)

theorem sigConstraints_nodup (s : Cm) (huid : (s.matched.map (·.uid)).Nodup) (hsubs : ∀ r ∈ s.matched, r.subs.Nodup) :
    s.sigConstraints.Nodup := by
  rw [sigConstraints_eq, List.nodup_flatMap]
  refine ⟨fun r hr => consOf_nodup (hsubs r hr), ?_⟩
  rw [List.nodup_iff_pairwise_ne, List.pairwise_map] at huid
  refine huid.imp ?_
  intro a b hne
  show List.Disjoint (consOf a) (consOf b)
  intro p ha hb
  exact hne ((mem_consOf ha).symm.trans (mem_consOf hb))

end Cm
end Litex.Soc
