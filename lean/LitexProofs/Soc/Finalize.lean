import LitexProofs.Soc.BusInv
import LitexProofs.Soc.Decoder
/-
  `do_finalize`: what a successful finalize guarantees about the decoders handed to the interconnect.
-/
namespace Litex.Soc

theorem pairwise_of_mem_ne {α : Type} {R : α → α → Prop} (hs : ∀ a b, R a b → R b a) {l : List α}
    (h : l.Pairwise R) {a b : α} (ha : a ∈ l) (hb : b ∈ l) (hne : a ≠ b) : R a b := by
  induction l with
  | nil => cases ha
  | cons x xs ih =>
    rw [List.pairwise_cons] at h
    simp only [List.mem_cons] at ha hb
    rcases ha with ha | ha <;> rcases hb with hb | hb
    · exact absurd (ha.trans hb.symm) hne
    · subst ha; exact h.1 b hb
    · subst hb; exact hs _ _ (h.1 a ha)
    · exact ih h.2 ha hb

namespace BusH
variable {ν : Type} [DecidableEq ν]

theorem regionOf_some {s : BusH ν} {n : ν} {r : Region} (h : s.regionOf n = some r) : (n, r) ∈ s.regions := by
  unfold regionOf at h
  cases hf : s.regions.find? (·.1 == n) with
  | none => simp [hf] at h
  | some p =>
    simp only [hf, Option.map_some, Option.some.injEq] at h
    have hm := List.mem_of_find?_eq_some hf
    have hp := List.find?_some hf
    simp only [beq_iff_eq] at hp
    obtain ⟨a, b⟩ := p
    simp only at hp h
    subst hp h
    exact hm

omit [DecidableEq ν] in
/-- Distinct named regions of a handler satisfying the invariant are not reported as overlapping. -/
theorem regions_pair_ok {s : BusH ν} (hi : Inv s) {n0 n1 : ν} {r0 r1 : Region}
    (h0 : (n0, r0) ∈ s.regions) (h1 : (n1, r1) ∈ s.regions) (hne : n0 ≠ n1) : overlapPair r0 r1 = false := by
  have hp := (anyOverlap_eq_false_iff _).1 hi.regs_ok
  unfold regs at hp
  rw [List.pairwise_map] at hp
  exact pairwise_of_mem_ne (R := fun p q : ν × Region => overlapPair p.2 q.2 = false)
    (fun a b h => by rw [overlapPair_comm]; exact h) hp h0 h1 (fun e => hne (congrArg Prod.fst e))

/-- A successful `do_finalize` that builds a shared/crossbar interconnect has checked every slave's origin. -/
theorem finalize_ok_aligned {s : BusH ν} (hfin : s.finalize = .ok ()) (hm : s.masters ≠ []) (hs : s.slaves ≠ [])
    (hp : s.isP2P = false) : (decide (s.regions.length > 1) && s.regions.any (fun p => !p.2.decode)) = false ∧
      ∀ p ∈ s.slaveRegions, p.2.aligned = true := by
  unfold finalize at hfin
  have e1 : (s.masters.isEmpty || s.slaves.isEmpty) = false := by
    cases hmm : s.masters <;> cases hss : s.slaves <;> simp_all
  simp only [e1, Bool.false_eq_true, if_false, hp] at hfin
  split at hfin
  · cases hfin
  · rename_i hdec
    split at hfin
    · rename_i hall
      exact ⟨by simpa using hdec, fun p hp => List.all_eq_true.1 hall p hp⟩
    · cases hfin

theorem mem_slaveRegions {s : BusH ν} {n : ν} {r : Region} (hn : n ∈ s.slaves) (hr : s.regionOf n = some r) :
    (n, r) ∈ s.slaveRegions := by
  unfold slaveRegions
  rw [List.mem_filterMap]
  exact ⟨n, hn, by simp [hr]⟩

theorem two_le_length_of_mem_ne {α : Type} {l : List α} {a b : α} (ha : a ∈ l) (hb : b ∈ l) (hne : a ≠ b) :
    2 ≤ l.length := by
  match l, ha, hb with
  | [x], ha, hb =>
    simp only [List.mem_singleton] at ha hb
    exact absurd (ha.trans hb.symm) hne
  | _ :: _ :: _, _, _ => simp

end BusH
end Litex.Soc
