import LitexProofs.Soc.Alloc
/-
  The invariant of `SoCBusHandler` preserved by every accepted request.
-/
namespace Litex.Soc
namespace BusH
variable {ν : Type} [DecidableEq ν]

def names (s : BusH ν) : List ν := s.regions.map (·.1) ++ s.ioRegions.map (·.1)

structure Inv (s : BusH ν) : Prop where
  names_nodup  : s.names.Nodup
  regs_ok      : anyOverlap s.regs = false
  ios_ok       : anyOverlap s.ios = false
  slaves_nodup : s.slaves.Nodup
  slaves_have  : ∀ n ∈ s.slaves, n ∈ s.regions.map (·.1)
  masters_nodup : s.masters.Nodup

theorem any_fst_eq_false {α : Type} (l : List (ν × α)) (n : ν) :
    l.any (·.1 == n) = false ↔ n ∉ l.map (·.1) := by
  induction l with
  | nil => simp
  | cons p ps ih =>
    simp only [List.any_cons, Bool.or_eq_false_iff, ih, List.map_cons, List.mem_cons, not_or]
    constructor
    · rintro ⟨h1, h2⟩
      exact ⟨fun h => by simp [h] at h1, h2⟩
    · rintro ⟨h1, h2⟩
      exact ⟨by simpa using fun h => h1 h.symm, h2⟩

theorem hasName_eq_false (s : BusH ν) (n : ν) : s.hasName n = false ↔ n ∉ s.names := by
  unfold hasName names
  rw [Bool.or_eq_false_iff, any_fst_eq_false, any_fst_eq_false, List.mem_append, not_or]

omit [DecidableEq ν] in
theorem inv_init (aw dw : Nat) : Inv ({ aw := aw, dw := dw } : BusH ν) := by
  constructor <;> simp [names, regs, ios, anyOverlap]

omit [DecidableEq ν] in
/-- What a successful `alloc_region` returns (model level). -/
theorem allocRegion_ok {s : BusH ν} {size : Nat} {cached : Bool} {r : Region}
    (h : s.allocRegion size cached = .ok r) :
    0 < size ∧ ∃ o, r = cand o size cached ∧ o % pow2ceil size = 0 ∧
      (∀ a ∈ s.regs, overlapPair a r = false) ∧
      ∃ sr ∈ s.searchRegions cached, sr.origin ≤ o ∧ o + size < sr.origin + sr.p2 := by
  unfold allocRegion at h
  split at h
  · cases h
  · rename_i hs
    split at h
    · rename_i o ho
      injection h with h
      subst h
      obtain ⟨sr, hm, h1, h2, h3, h4⟩ := allocSearch_ok _ _ ho
      refine ⟨by omega, o, rfl, h3, ?_, sr, hm, h1, h2⟩
      intro a ha
      have := List.any_eq_false.1 h4 a ha
      simpa using this
    · cases h

omit [DecidableEq ν] in
theorem nodup_names_add_region {s : BusH ν} {n : ν} (h : s.names.Nodup) (hn : n ∉ s.names) (r : Region) :
    (names { s with regions := s.regions ++ [(n, r)] }).Nodup := by
  unfold names at *
  simp only [List.map_append, List.map_cons, List.map_nil] at *
  rw [List.nodup_append] at h ⊢
  obtain ⟨h1, h2, h3⟩ := h
  simp only [List.mem_append, not_or] at hn
  refine ⟨?_, h2, ?_⟩
  · rw [List.nodup_append]
    refine ⟨h1, by simp, ?_⟩
    intro a ha b hb
    simp at hb
    subst hb
    intro e; subst e; exact hn.1 ha
  · intro a ha b hb
    simp only [List.mem_append, List.mem_singleton] at ha
    rcases ha with ha | ha
    · exact h3 a ha b hb
    · subst ha
      intro e; subst e; exact hn.2 hb

omit [DecidableEq ν] in
theorem nodup_names_add_io {s : BusH ν} {n : ν} (h : s.names.Nodup) (hn : n ∉ s.names) (r : Region) :
    (names { s with ioRegions := s.ioRegions ++ [(n, r)] }).Nodup := by
  unfold names at *
  simp only [List.map_append, List.map_cons, List.map_nil] at *
  rw [← List.append_assoc, List.nodup_append]
  refine ⟨h, by simp, ?_⟩
  intro a ha b hb
  simp at hb
  subst hb
  intro e; subst e; exact hn ha

theorem addRegion_inv {s s' : BusH ν} {n : ν} {q : Req} (hi : Inv s) (h : s.addRegion n q = .ok s') :
    Inv s' ∧ s'.slaves = s.slaves ∧ s'.masters = s.masters ∧ (∀ m ∈ s.regions.map (·.1), m ∈ s'.regions.map (·.1)) := by
  unfold addRegion at h
  split at h
  · cases h
  · rename_i hn
    have hn' : n ∉ s.names := (hasName_eq_false s n).1 (by simpa using hn)
    split at h
    · -- IO region
      split at h
      · cases h
      · split at h
        · cases h
        · rename_i hov
          injection h with h
          subst h
          refine ⟨⟨nodup_names_add_io hi.names_nodup hn' _, hi.regs_ok, ?_, hi.slaves_nodup, hi.slaves_have,
            hi.masters_nodup⟩, rfl, rfl, fun m hm => hm⟩
          simpa [ios] using hov
    · split at h
      · -- automatic allocation
        split at h
        · rename_i r hr
          injection h with h
          subst h
          obtain ⟨_, o, _, _, hno, _⟩ := allocRegion_ok hr
          refine ⟨⟨nodup_names_add_region hi.names_nodup hn' _, ?_, hi.ios_ok, hi.slaves_nodup, ?_,
            hi.masters_nodup⟩, rfl, rfl, fun m hm => by simp at hm ⊢; exact Or.inl hm⟩
          · have : regs { s with regions := s.regions ++ [(n, r)] } = s.regs ++ [r] := by simp [regs]
            rw [this, anyOverlap_append_singleton]
            exact ⟨hi.regs_ok, hno⟩
          · intro m hm
            have := hi.slaves_have m hm
            simp at this ⊢
            exact Or.inl this
        · cases h
      · -- fixed origin
        split at h
        · cases h
        · split at h
          · cases h
          · split at h
            · cases h
            · rename_i hov
              injection h with h
              subst h
              refine ⟨⟨nodup_names_add_region hi.names_nodup hn' _, ?_, hi.ios_ok, hi.slaves_nodup, ?_,
                hi.masters_nodup⟩, rfl, rfl, fun m hm => by simp at hm ⊢; exact Or.inl hm⟩
              · simpa [regs] using hov
              · intro m hm
                have := hi.slaves_have m hm
                simp at this ⊢
                exact Or.inl this

/-- After `add_region(name, non-IO region)` the name is a bus region. -/
theorem addRegion_name_mem {s s' : BusH ν} {n : ν} {q : Req} (h : s.addRegion n q = .ok s') (hio : q.io = false) :
    n ∈ s'.regions.map (·.1) := by
  unfold addRegion at h
  split at h
  · cases h
  · split at h
    · rename_i hh; simp [hio] at hh
    · split at h
      · split at h
        · injection h with h; subst h; simp
        · cases h
      · split at h
        · cases h
        · split at h
          · cases h
          · split at h
            · cases h
            · injection h with h; subst h; simp

theorem addMaster_inv {s s' : BusH ν} {n : ν} (hi : Inv s) (h : s.addMaster n = .ok s') : Inv s' := by
  simp only [addMaster] at h
  split at h
  · cases h
  · rename_i hc
    injection h with h
    subst h
    refine ⟨hi.names_nodup, hi.regs_ok, hi.ios_ok, hi.slaves_nodup, hi.slaves_have, ?_⟩
    rw [List.nodup_append]
    refine ⟨hi.masters_nodup, by simp, ?_⟩
    intro a ha b hb
    simp at hb
    subst hb
    intro e; subst e
    simp at hc
    exact hc ha

theorem addSlave_inv {s s' : BusH ν} {n : ν} {q : Option Req} (hi : Inv s) (h : s.addSlave n q = .ok s') : Inv s' := by
  simp only [addSlave] at h
  -- first stage: region lookup / add_region
  have stage : ∀ s1 : BusH ν, Inv s1 → n ∈ s1.regions.map (·.1) →
      (if s1.slaves.contains n then (Except.error Err.dupSlave : Except Err (BusH ν))
        else .ok { s1 with slaves := s1.slaves ++ [n] }) = .ok s' → Inv s' := by
    intro s1 h1 hreg h
    split at h
    · cases h
    · rename_i hc
      injection h with h
      subst h
      refine ⟨h1.names_nodup, h1.regs_ok, h1.ios_ok, ?_, ?_, h1.masters_nodup⟩
      · rw [List.nodup_append]
        refine ⟨h1.slaves_nodup, by simp, ?_⟩
        intro a ha b hb
        simp at hb
        subst hb
        intro e; subst e
        simp at hc
        exact hc ha
      · intro m hm
        simp only [List.mem_append, List.mem_singleton] at hm
        rcases hm with hm | hm
        · exact h1.slaves_have m hm
        · subst hm; exact hreg
  cases hst : s.slaveStage n q with
  | error e => simp [hst] at h
  | ok s1 =>
    simp only [hst] at h
    cases q with
    | none =>
      simp only [slaveStage] at hst
      split at hst
      · rename_i hany
        injection hst with hst
        subst hst
        refine stage _ hi (Classical.byContradiction fun hc => ?_) h
        have := (any_fst_eq_false s.regions n).2 hc
        simp [this] at hany
      · cases hst
    | some q =>
      simp only [slaveStage] at hst
      split at hst
      · cases hst
      · obtain ⟨i1, _, _, _⟩ := addRegion_inv hi hst
        refine stage _ i1 ?_ h
        exact addRegion_name_mem hst (by simpa using ‹¬q.io = true›)

theorem apply_inv [AutoNames ν] {s s' : BusH ν} {op : BusOp ν} (hi : Inv s) (h : s.apply op = .ok s') : Inv s' := by
  cases op with
  | addRegion n q => exact (addRegion_inv hi h).1
  | addMaster n => exact addMaster_inv hi h
  | setIoCheck b =>
    simp only [apply] at h
    injection h with h
    subst h
    exact ⟨hi.names_nodup, hi.regs_ok, hi.ios_ok, hi.slaves_nodup, hi.slaves_have, hi.masters_nodup⟩
  | addSlave n q =>
    simp only [apply] at h
    split at h
    · cases h
    · exact addSlave_inv hi h

/-- No request changes the bus widths. -/
theorem addRegion_widths {s s' : BusH ν} {n : ν} {q : Req} (h : s.addRegion n q = .ok s') :
    s'.aw = s.aw ∧ s'.dw = s.dw := by
  unfold addRegion at h
  split at h
  · cases h
  · split at h
    · split at h
      · cases h
      · split at h
        · cases h
        · injection h with h; subst h; exact ⟨rfl, rfl⟩
    · split at h
      · split at h
        · injection h with h; subst h; exact ⟨rfl, rfl⟩
        · cases h
      · split at h
        · cases h
        · split at h
          · cases h
          · split at h
            · cases h
            · injection h with h; subst h; exact ⟨rfl, rfl⟩

theorem addMaster_widths {s s' : BusH ν} {n : ν} (h : s.addMaster n = .ok s') : s'.aw = s.aw ∧ s'.dw = s.dw := by
  simp only [addMaster] at h
  split at h
  · cases h
  · injection h with h; subst h; exact ⟨rfl, rfl⟩

theorem addSlave_widths {s s' : BusH ν} {n : ν} {q : Option Req} (h : s.addSlave n q = .ok s') :
    s'.aw = s.aw ∧ s'.dw = s.dw := by
  simp only [addSlave] at h
  cases hst : s.slaveStage n q with
  | error e => simp [hst] at h
  | ok s1 =>
    simp only [hst] at h
    have h1 : s1.aw = s.aw ∧ s1.dw = s.dw := by
      cases q with
      | none =>
        simp only [slaveStage] at hst
        split at hst
        · injection hst with hst; subst hst; exact ⟨rfl, rfl⟩
        · cases hst
      | some q =>
        simp only [slaveStage] at hst
        split at hst
        · cases hst
        · exact addRegion_widths hst
    split at h
    · cases h
    · injection h with h; subst h; exact h1

theorem apply_widths [AutoNames ν] {s s' : BusH ν} {op : BusOp ν} (h : s.apply op = .ok s') :
    s'.aw = s.aw ∧ s'.dw = s.dw := by
  cases op with
  | addRegion n q => exact addRegion_widths h
  | addMaster n => exact addMaster_widths h
  | setIoCheck b =>
    simp only [apply] at h
    injection h with h; subst h; exact ⟨rfl, rfl⟩
  | addSlave n q =>
    simp only [apply] at h
    split at h
    · cases h
    · exact addSlave_widths h

theorem run_widths [AutoNames ν] (ops : List (BusOp ν)) (s : BusH ν) : (s.run ops).aw = s.aw ∧ (s.run ops).dw = s.dw := by
  unfold run
  induction ops generalizing s with
  | nil => exact ⟨rfl, rfl⟩
  | cons op ops ih =>
    have hstep : (s.step op).aw = s.aw ∧ (s.step op).dw = s.dw := by
      unfold step
      split
      · rename_i s' h; exact apply_widths h
      · exact ⟨rfl, rfl⟩
    have := ih (s.step op)
    rw [List.foldl_cons]
    exact ⟨this.1.trans hstep.1, this.2.trans hstep.2⟩

theorem step_inv [AutoNames ν] {s : BusH ν} (op : BusOp ν) (hi : Inv s) : Inv (s.step op) := by
  unfold step
  split
  · rename_i s' h; exact apply_inv hi h
  · exact hi

theorem run_inv [AutoNames ν] {s : BusH ν} (ops : List (BusOp ν)) (hi : Inv s) : Inv (s.run ops) := by
  unfold run
  induction ops generalizing s with
  | nil => exact hi
  | cons op ops ih => exact ih (step_inv op hi)

/-! ### Masters and slaves are never lost or replaced -/

omit [DecidableEq ν] in
theorem addMaster_spec [DecidableEq ν] {s s' : BusH ν} {n : ν} (h : s.addMaster n = .ok s') :
    s'.masters = s.masters ++ [n] ∧ n ∉ s.masters ∧ s'.slaves = s.slaves := by
  simp only [addMaster] at h
  split at h
  · cases h
  · rename_i hc
    injection h with h
    subst h
    exact ⟨rfl, by simpa using hc, rfl⟩

theorem addSlave_spec {s s' : BusH ν} {n : ν} {q : Option Req} (hi : Inv s) (h : s.addSlave n q = .ok s') :
    s'.slaves = s.slaves ++ [n] ∧ n ∉ s.slaves ∧ s'.masters = s.masters := by
  simp only [addSlave] at h
  cases hst : s.slaveStage n q with
  | error e => simp [hst] at h
  | ok s1 =>
    simp only [hst] at h
    have h1 : s1.slaves = s.slaves ∧ s1.masters = s.masters := by
      cases q with
      | none =>
        simp only [slaveStage] at hst
        split at hst
        · injection hst with hst; subst hst; exact ⟨rfl, rfl⟩
        · cases hst
      | some q =>
        simp only [slaveStage] at hst
        split at hst
        · cases hst
        · obtain ⟨_, a, b, _⟩ := addRegion_inv hi hst
          exact ⟨a, b⟩
    split at h
    · cases h
    · rename_i hc
      injection h with h
      subst h
      refine ⟨by simp [h1.1], ?_, h1.2⟩
      rw [← h1.1]
      simpa using hc

/-- An accepted request keeps every earlier master and slave registered, in place. -/
theorem apply_prefix [AutoNames ν] {s s' : BusH ν} {op : BusOp ν} (hi : Inv s) (h : s.apply op = .ok s') :
    s.masters <+: s'.masters ∧ s.slaves <+: s'.slaves := by
  cases op with
  | addRegion n q =>
    obtain ⟨_, a, b, _⟩ := addRegion_inv hi h
    rw [a, b]; exact ⟨List.prefix_refl _, List.prefix_refl _⟩
  | addMaster n =>
    obtain ⟨a, _, c⟩ := addMaster_spec h
    rw [a, c]; exact ⟨List.prefix_append _ _, List.prefix_refl _⟩
  | setIoCheck b =>
    simp only [apply] at h
    injection h with h
    subst h
    exact ⟨List.prefix_refl _, List.prefix_refl _⟩
  | addSlave n q =>
    simp only [apply] at h
    split at h
    · cases h
    · obtain ⟨a, _, c⟩ := addSlave_spec hi h
      rw [a, c]; exact ⟨List.prefix_refl _, List.prefix_append _ _⟩

theorem run_prefix [AutoNames ν] {s : BusH ν} (ops : List (BusOp ν)) (hi : Inv s) :
    s.masters <+: (s.run ops).masters ∧ s.slaves <+: (s.run ops).slaves := by
  unfold run
  induction ops generalizing s with
  | nil => exact ⟨List.prefix_refl _, List.prefix_refl _⟩
  | cons op ops ih =>
    rw [List.foldl_cons]
    have hstep : s.masters <+: (s.step op).masters ∧ s.slaves <+: (s.step op).slaves := by
      unfold step
      split
      · rename_i s' h; exact apply_prefix hi h
      · exact ⟨List.prefix_refl _, List.prefix_refl _⟩
    obtain ⟨a, b⟩ := ih (step_inv op hi)
    exact ⟨hstep.1.trans a, hstep.2.trans b⟩

theorem run_append [AutoNames ν] (s : BusH ν) (a b : List (BusOp ν)) : s.run (a ++ b) = (s.run a).run b := by
  simp [run, List.foldl_append]

end BusH
end Litex.Soc
