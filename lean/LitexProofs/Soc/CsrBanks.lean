import LitexModel.Soc.CsrBanks
import LitexProofs.Soc.LocInv
import LitexProofs.Soc.Finalize
/-
  After a successful finalize every bank fits its page and distinct banks occupy disjoint address ranges.
-/
namespace Litex.Soc
namespace LocH
variable {ν : Type} [DecidableEq ν]

theorem add_mem_mono {s s' : LocH ν} {n : ν} {k : Option Int} {u : Bool} (h : s.add n k u = .ok s') :
    ∀ p ∈ s.locs, p ∈ s'.locs := by
  unfold add at h
  split at h
  · cases h
  · split at h
    · injection h with h; subst h; exact fun p hp => hp
    · split at h
      · cases h
      · split at h
        · split at h
          · injection h with h; subst h
            intro p hp; simp [hp]
          · cases h
        · split at h
          · cases h
          · split at h
            · cases h
            · split at h
              · cases h
              · injection h with h; subst h
                intro p hp; simp [hp]

theorem addressMap_spec {s s' : LocH ν} {n : ν} (hi : Inv s) (h : s.addressMap n = .ok s') :
    Inv s' ∧ s'.nLocs = s.nLocs ∧ ∀ p ∈ s.locs, p ∈ s'.locs := by
  unfold addressMap at h
  split at h
  · injection h with h; subst h; exact ⟨hi, rfl, fun p hp => hp⟩
  · obtain ⟨a, b⟩ := add_inv hi h
    exact ⟨a, b, add_mem_mono h⟩

omit [DecidableEq ν] in
theorem locOf_some_mem [DecidableEq ν] {s : LocH ν} {n : ν} {k : Int} (h : s.locOf n = some k) : (n, k) ∈ s.locs := by
  unfold locOf at h
  cases hf : s.locs.find? (·.1 == n) with
  | none => simp [hf] at h
  | some p =>
    simp only [hf, Option.map_some, Option.some.injEq] at h
    have hm := List.mem_of_find?_eq_some hf
    have hp := List.find?_some hf
    simp only [beq_iff_eq] at hp
    obtain ⟨a, b⟩ := p
    simp only at hp h
    subst hp h
    exact hm

theorem scanBanks_spec : ∀ (banks : List (Bank ν)) {s s' : LocH ν} {l : List (Bank ν × Int)}, Inv s →
    s.scanBanks banks = .ok (s', l) →
    Inv s' ∧ s'.nLocs = s.nLocs ∧ (∀ p ∈ s.locs, p ∈ s'.locs) ∧ (∀ q ∈ l, (q.1.name, q.2) ∈ s'.locs) ∧
      l.map (·.1) = banks := by
  intro banks
  induction banks with
  | nil =>
    intro s s' l hi h
    simp only [scanBanks] at h
    injection h with h
    injection h with h1 h2
    subst h1 h2
    exact ⟨hi, rfl, fun p hp => hp, by simp, rfl⟩
  | cons b bs ih =>
    intro s s' l hi h
    simp only [scanBanks] at h
    split at h
    · cases h
    · rename_i h1 ham
      obtain ⟨i1, n1, m1⟩ := addressMap_spec hi ham
      split at h
      · cases h
      · rename_i k hk
        split at h
        · rename_i h2 l2 hs
          injection h with h
          injection h with e1 e2
          subst e1 e2
          obtain ⟨i2, n2, m2, q2, r2⟩ := ih i1 hs
          refine ⟨i2, n2.trans n1, fun p hp => m2 p (m1 p hp), ?_, by simp [r2]⟩
          intro q hq
          simp only [List.mem_cons] at hq
          rcases hq with hq | hq
          · subst hq; exact m2 _ (locOf_some_mem hk)
          · exact q2 q hq
        · cases h

omit [DecidableEq ν] in
/-- Distinct names hold distinct numbers. -/
theorem loc_ne_of_name_ne {s : LocH ν} (hi : Inv s) {n1 n2 : ν} {k1 k2 : Int} (h1 : (n1, k1) ∈ s.locs)
    (h2 : (n2, k2) ∈ s.locs) (hne : n1 ≠ n2) : k1 ≠ k2 := by
  have hp := hi.locs_nodup
  rw [List.nodup_iff_pairwise_ne, List.pairwise_map] at hp
  exact pairwise_of_mem_ne (R := fun a b : ν × Int => a.2 ≠ b.2) (fun a b h => fun e => h e.symm) hp h1 h2
    (fun e => hne (congrArg Prod.fst e))

end LocH
end Litex.Soc
