import LitexModel.Bridge.Adapter
/-
  Proofs about the `add_adapter` chain model: every element carries each master-side byte on the slave-side byte
  with the same flat byte address; chains compose.
-/
namespace Litex.Bridge.Adapter
open Litex Litex.Bridge

/-- Number of address bits of the port (word-addressed Wishbone: `len(adr)`). -/
def IfDesc.portBits (d : IfDesc) : Nat := if d.wordAddr then d.aw - lg d.dw else d.aw

/-- A transfer the port can express: address within the address signal, lane within the word. -/
def InRange (d : IfDesc) (p : Nat × Nat) : Prop := p.1 < 2 ^ d.portBits ∧ p.2 < d.nb

/-- Shape of an element as `add_adapter` builds it (all conditions decidable): equal address widths, word sizes that
    are powers of two (bridges, addressing glue) or multiples of each other (converters; for the AXI-Lite/AXI
    down-converter the wide word divides the address space), and the addressing each side has. -/
def Elem.WF (e : Elem) : Prop :=
  0 < e.master.nb ∧ 0 < e.slave.nb ∧ e.master.aw = e.slave.aw ∧
  match e.kind with
  | .axl2wb | .axi2wb | .ahb2wb =>
    e.master.wordAddr = false ∧ e.slave.std = .wishbone ∧ e.master.nb = e.slave.nb ∧ e.slave.nb = 2 ^ lg e.slave.dw ∧
    lg e.slave.dw ≤ e.slave.aw
  | .wb2axl | .wb2axi =>
    e.master.std = .wishbone ∧ e.slave.wordAddr = false ∧ e.master.nb = e.slave.nb ∧ e.master.nb = 2 ^ lg e.master.dw ∧
    lg e.master.dw ≤ e.master.aw
  | .axl2axi | .axi2axl => e.master.wordAddr = false ∧ e.slave.wordAddr = false ∧ e.master.nb = e.slave.nb
  | .wbAddressing =>
    e.master.std = .wishbone ∧ e.slave.std = .wishbone ∧ e.master.byteAddr = !e.slave.byteAddr ∧
    e.master.nb = e.slave.nb ∧ e.master.nb = 2 ^ lg e.master.dw ∧ lg e.master.dw ≤ e.master.aw
  | .axlConverter | .axiConverter =>
    e.master.wordAddr = false ∧ e.slave.wordAddr = false ∧
    (e.master.nb % e.slave.nb = 0 ∧ 2 ^ e.master.aw % e.master.nb = 0 ∨ e.slave.nb % e.master.nb = 0)
  | .wbConverter =>
    e.master.wordAddr = true ∧ e.slave.wordAddr = true ∧ (e.master.nb % e.slave.nb = 0 ∨ e.slave.nb % e.master.nb = 0) ∧
    e.master.nb = 2 ^ lg e.master.dw ∧ e.slave.nb = 2 ^ lg e.slave.dw ∧ lg e.master.dw ≤ e.master.aw ∧
    lg e.slave.dw ≤ e.slave.aw

theorem subTrunc_zero (w a : Nat) (h : a < 2 ^ w) : subTrunc w a 0 = a := by
  have hp : 0 < 2 ^ w := Nat.pow_pos (by decide)
  simp [subTrunc, Nat.mod_eq_of_lt h, Nat.mod_eq_of_lt hp, Nat.add_mod_right]

/-! ### arithmetic of the width converters -/

theorem down_byte (r nbS x lane : Nat) (hS : 0 < nbS) :
    ((x / (r * nbS) * (r * nbS) + lane / nbS * nbS) / nbS * nbS) + lane % nbS = x / (r * nbS) * (r * nbS) + lane := by
  have h1 : x / (r * nbS) * (r * nbS) + lane / nbS * nbS = (x / (r * nbS) * r + lane / nbS) * nbS := by
    rw [Nat.add_mul, Nat.mul_assoc]
  rw [h1, Nat.mul_div_cancel _ hS, ← h1, Nat.add_assoc, Nat.div_add_mod']

theorem up_byte (r nbM x lane : Nat) (_hM : 0 < nbM) :
    x / (r * nbM) * (r * nbM) + (x / nbM % r * nbM + lane) = x / nbM * nbM + lane := by
  have h1 : x / (r * nbM) = x / nbM / r := by rw [Nat.mul_comm, Nat.div_div_eq_div_mul]
  have h2 : x / nbM / r * (r * nbM) + x / nbM % r * nbM = (x / nbM / r * r + x / nbM % r) * nbM := by
    rw [Nat.add_mul, Nat.mul_assoc]
  rw [← Nat.add_assoc, h1, h2, Nat.div_add_mod']

theorem wb_down_byte (r nbS x lane : Nat) :
    (x * r + lane / nbS) * nbS + lane % nbS = x * (r * nbS) + lane := by
  rw [Nat.add_mul, Nat.mul_assoc, Nat.add_assoc, Nat.div_add_mod']

theorem wb_up_byte (r nbM x lane : Nat) :
    x / r * (r * nbM) + (x % r * nbM + lane) = x * nbM + lane := by
  rw [← Nat.add_assoc, ← Nat.mul_assoc, ← Nat.add_mul, Nat.div_add_mod']

theorem down_in_space (nbM aw x k nbS : Nat) (hM : 0 < nbM) (hd : 2 ^ aw % nbM = 0) (hx : x < 2 ^ aw)
    (hk : k * nbS < nbM) : x / nbM * nbM + k * nbS < 2 ^ aw := by
  obtain ⟨q, hq⟩ := Nat.dvd_of_mod_eq_zero hd
  have h1 : x / nbM < q := by
    rw [Nat.div_lt_iff_lt_mul hM, Nat.mul_comm, ← hq]; exact hx
  have h2 : (x / nbM + 1) * nbM ≤ q * nbM := Nat.mul_le_mul_right _ h1
  rw [Nat.add_mul, Nat.one_mul] at h2
  rw [hq, Nat.mul_comm nbM q]
  omega

/-! ### every element carries a byte on the byte with the same flat address -/

theorem elem_preserves_byte (e : Elem) (hwf : e.WF) (p : Nat × Nat) (hr : InRange e.master p) :
    flat e.slave (elemByte e p) = flat e.master p := by
  obtain ⟨kind, m, s⟩ := e
  obtain ⟨x, lane⟩ := p
  obtain ⟨hm, hs, haw, hk⟩ := hwf
  simp only [InRange, IfDesc.portBits] at hr
  obtain ⟨hx, hl⟩ := hr
  simp only at hm hs haw hx hl
  cases kind <;> simp only at hk
  case axl2wb | axi2wb =>
    obtain ⟨h1, h2, h3, h4, _⟩ := hk
    rw [h1] at hx
    simp only [Bool.false_eq_true, if_false] at hx
    have hsw : s.wordAddr = !s.byteAddr := by simp [IfDesc.wordAddr, h2]
    cases hb : s.byteAddr <;>
      simp [elemByte, flat, Axl2Wb.wbAdr, subTrunc_zero _ _ hx, hsw, hb, h1] <;>
      rw [h3] <;> try rw [← h4]
  case ahb2wb =>
    obtain ⟨h1, h2, h3, h4, _⟩ := hk
    have hsw : s.wordAddr = !s.byteAddr := by simp [IfDesc.wordAddr, h2]
    cases hb : s.byteAddr <;> simp [elemByte, flat, hsw, hb, h1] <;> rw [h3] <;> try rw [← h4]
  case wb2axl | wb2axi =>
    obtain ⟨h1, h2, h3, h4, h5⟩ := hk
    have hmw : m.wordAddr = !m.byteAddr := by simp [IfDesc.wordAddr, h1]
    rw [hmw] at hx
    cases hb : m.byteAddr
    · simp only [hb, Bool.not_false, if_true] at hx
      have hz : (0 : Nat) / 2 ^ lg m.dw = 0 := Nat.zero_div _
      simp [elemByte, flat, Wb2Axl.axAddr, hz, subTrunc_zero _ _ hx, hmw, hb, h2]
      rw [← h4, ← h3, Nat.mul_div_cancel _ hm]
    · simp only [hb, Bool.not_true, Bool.false_eq_true, if_false] at hx
      simp [elemByte, flat, Wb2Axl.axAddr, subTrunc_zero _ _ hx, hmw, hb, h2]
      rw [h3]
  case axl2axi | axi2axl =>
    obtain ⟨h1, h2, h3⟩ := hk
    simp [elemByte, flat, h1, h2, h3]
  case wbAddressing =>
    obtain ⟨h1, h2, h3, h4, h5, _⟩ := hk
    have hmw : m.wordAddr = !m.byteAddr := by simp [IfDesc.wordAddr, h1]
    have hsw : s.wordAddr = !s.byteAddr := by simp [IfDesc.wordAddr, h2]
    cases hb : s.byteAddr <;> simp [hb] at h3 <;> simp [elemByte, flat, hmw, hsw, hb, h3]
    · rw [← h5, h4]
    · rw [← h5, ← h4, Nat.mul_div_cancel _ hm]
  case axlConverter | axiConverter =>
    obtain ⟨h1, h2, h3⟩ := hk
    rw [h1] at hx
    simp only [Bool.false_eq_true, if_false] at hx
    simp only [elemByte, flat, h1, h2, Bool.false_eq_true, if_false, DownCfg.subAddr, DownCfg.nbFrom, UpCfg.nbTo,
      UpCfg.laneOf]
    rw [haw] at hx h3
    generalize m.nb = M at *
    generalize s.nb = S at *
    by_cases hgt : M > S
    · have hd : M % S = 0 ∧ 2 ^ s.aw % M = 0 := by
        rcases h3 with h | h
        · exact h
        · rw [Nat.mod_eq_of_lt hgt] at h; omega
      obtain ⟨r, hr⟩ : ∃ r, M = r * S := ⟨M / S, (Nat.div_mul_cancel (Nat.dvd_of_mod_eq_zero hd.1)).symm⟩
      have hrS : M / S = r := by rw [hr, Nat.mul_div_cancel _ hs]
      have hk : lane / S * S < M := by
        have := Nat.div_mul_le_self lane S
        omega
      have hsp := down_in_space M s.aw x (lane / S) S hm hd.2 hx hk
      simp only [hgt, if_true, hrS, haw]
      rw [← hr, Nat.mod_eq_of_lt hsp, hr]
      exact down_byte r S x lane hs
    · by_cases hlt : M < S
      · have hd : S % M = 0 := by
          rcases h3 with h | h
          · rw [Nat.mod_eq_of_lt hlt] at h; omega
          · exact h
        obtain ⟨r, hr⟩ : ∃ r, S = r * M := ⟨S / M, (Nat.div_mul_cancel (Nat.dvd_of_mod_eq_zero hd)).symm⟩
        have hrS : S / M = r := by rw [hr, Nat.mul_div_cancel _ hm]
        have hle : x / (r * M) * (r * M) < 2 ^ s.aw := Nat.lt_of_le_of_lt (Nat.div_mul_le_self _ _) hx
        have hpos : 0 < r * M := by rw [← hr]; exact hs
        simp only [hgt, hlt, if_true, if_false, hrS]
        rw [Nat.mod_eq_of_lt hle, hr, Nat.mul_div_cancel _ hpos]
        exact up_byte r M x lane hm
      · have he : M = S := by omega
        simp [hgt, hlt, he]
  case wbConverter =>
    obtain ⟨h1, h2, h3, _⟩ := hk
    simp only [elemByte, flat, h1, h2, if_true]
    generalize m.nb = M at *
    generalize s.nb = S at *
    by_cases hgt : M > S
    · have hd : M % S = 0 := by
        rcases h3 with h | h
        · exact h
        · rw [Nat.mod_eq_of_lt hgt] at h; omega
      obtain ⟨r, hr⟩ : ∃ r, M = r * S := ⟨M / S, (Nat.div_mul_cancel (Nat.dvd_of_mod_eq_zero hd)).symm⟩
      have hrS : M / S = r := by rw [hr, Nat.mul_div_cancel _ hs]
      simp only [hgt, if_true, hrS]
      rw [hr]
      exact wb_down_byte r S x lane
    · by_cases hlt : M < S
      · have hd : S % M = 0 := by
          rcases h3 with h | h
          · rw [Nat.mod_eq_of_lt hlt] at h; omega
          · exact h
        obtain ⟨r, hr⟩ : ∃ r, S = r * M := ⟨S / M, (Nat.div_mul_cancel (Nat.dvd_of_mod_eq_zero hd)).symm⟩
        have hrS : S / M = r := by rw [hr, Nat.mul_div_cancel _ hm]
        simp only [hgt, hlt, if_true, if_false, hrS]
        rw [hr]
        exact wb_up_byte r M x lane
      · have he : M = S := by omega
        simp [hgt, hlt, he]

/-! ### a transfer in the range of the master port arrives in the range of the slave port -/

theorem div_pow_lt (x k aw : Nat) (hk : k ≤ aw) (hx : x < 2 ^ aw) : x / 2 ^ k < 2 ^ (aw - k) := by
  rw [Nat.div_lt_iff_lt_mul (Nat.pow_pos (by decide)), ← Nat.pow_add, Nat.sub_add_cancel hk]; exact hx

theorem mul_pow_lt (x k aw : Nat) (hk : k ≤ aw) (hx : x < 2 ^ (aw - k)) : x * 2 ^ k < 2 ^ aw := by
  have h : x * 2 ^ k < 2 ^ (aw - k) * 2 ^ k := Nat.mul_lt_mul_of_pos_right hx (Nat.pow_pos (by decide))
  rwa [← Nat.pow_add, Nat.sub_add_cancel hk] at h

theorem wb_down_range (a c aw x j : Nat) (hca : c ≤ a) (ha : a ≤ aw) (hx : x < 2 ^ (aw - a)) (hj : j < 2 ^ (a - c)) :
    x * 2 ^ (a - c) + j < 2 ^ (aw - c) := by
  have h1 : aw - c = (aw - a) + (a - c) := by omega
  have h2 : (x + 1) * 2 ^ (a - c) ≤ 2 ^ (aw - a) * 2 ^ (a - c) := Nat.mul_le_mul_right _ hx
  rw [h1, Nat.pow_add]
  rw [Nat.add_mul, Nat.one_mul] at h2
  omega

theorem wb_up_range (a c aw x : Nat) (hac : a ≤ c) (hc : c ≤ aw) (hx : x < 2 ^ (aw - a)) :
    x / 2 ^ (c - a) < 2 ^ (aw - c) := by
  rw [Nat.div_lt_iff_lt_mul (Nat.pow_pos (by decide)), ← Nat.pow_add]
  have : aw - c + (c - a) = aw - a := by omega
  rw [this]; exact hx

theorem elem_in_range (e : Elem) (hwf : e.WF) (p : Nat × Nat) (hr : InRange e.master p) :
    InRange e.slave (elemByte e p) := by
  obtain ⟨kind, m, s⟩ := e
  obtain ⟨x, lane⟩ := p
  obtain ⟨hm, hs, haw, hk⟩ := hwf
  simp only [InRange, IfDesc.portBits] at hr ⊢
  obtain ⟨hx, hl⟩ := hr
  simp only at hm hs haw hx hl
  cases kind <;> simp only at hk
  case axl2wb | axi2wb =>
    obtain ⟨h1, h2, h3, h4, h5⟩ := hk
    rw [h1] at hx
    simp only [Bool.false_eq_true, if_false] at hx
    have hsw : s.wordAddr = !s.byteAddr := by simp [IfDesc.wordAddr, h2]
    rw [haw] at hx
    cases hb : s.byteAddr <;>
      simp [elemByte, Axl2Wb.wbAdr, haw, subTrunc_zero _ _ hx, hsw, hb, ← h3, hl]
    · exact div_pow_lt _ _ _ h5 hx
    · exact hx
  case ahb2wb =>
    obtain ⟨h1, h2, h3, h4, h5⟩ := hk
    rw [h1] at hx
    simp only [Bool.false_eq_true, if_false] at hx
    have hsw : s.wordAddr = !s.byteAddr := by simp [IfDesc.wordAddr, h2]
    rw [haw] at hx
    cases hb : s.byteAddr <;> simp [elemByte, hsw, hb, ← h3, hl]
    · exact div_pow_lt _ _ _ h5 hx
    · exact hx
  case wb2axl | wb2axi =>
    obtain ⟨h1, h2, h3, h4, h5⟩ := hk
    have hmw : m.wordAddr = !m.byteAddr := by simp [IfDesc.wordAddr, h1]
    rw [hmw] at hx
    cases hb : m.byteAddr
    · simp only [hb, Bool.not_false, if_true] at hx
      have hz : (0 : Nat) / 2 ^ lg m.dw = 0 := Nat.zero_div _
      simp [elemByte, Wb2Axl.axAddr, hz, subTrunc_zero _ _ hx, hb, h2, ← h3, hl, ← haw]
      exact mul_pow_lt _ _ _ h5 hx
    · simp only [hb, Bool.not_true, Bool.false_eq_true, if_false] at hx
      simp [elemByte, Wb2Axl.axAddr, subTrunc_zero _ _ hx, hb, h2, ← h3, hl, ← haw]
      exact hx
  case axl2axi | axi2axl =>
    obtain ⟨h1, h2, h3⟩ := hk
    simp [h1] at hx
    simp [elemByte, h2, ← h3, hl, ← haw, hx]
  case wbAddressing =>
    obtain ⟨h1, h2, h3, h4, h5, h6⟩ := hk
    have hmw : m.wordAddr = !m.byteAddr := by simp [IfDesc.wordAddr, h1]
    have hsw : s.wordAddr = !s.byteAddr := by simp [IfDesc.wordAddr, h2]
    have hlg : lg s.dw = lg m.dw := by
      have : s.dw / 8 = m.dw / 8 := h4.symm
      simp [lg, this]
    rw [hmw] at hx
    cases hb : s.byteAddr <;> simp [hb] at h3 <;> simp [h3] at hx <;>
      simp [elemByte, hsw, hb, h3, ← h4, hl, ← haw, hlg]
    · exact div_pow_lt _ _ _ h6 hx
    · exact mul_pow_lt _ _ _ h6 hx
  case axlConverter | axiConverter =>
    obtain ⟨h1, h2, h3⟩ := hk
    rw [h1] at hx
    simp only [Bool.false_eq_true, if_false] at hx
    simp only [elemByte, h2, Bool.false_eq_true, if_false, DownCfg.subAddr, DownCfg.nbFrom, UpCfg.nbTo, UpCfg.laneOf]
    have hp : 0 < 2 ^ s.aw := Nat.pow_pos (by decide)
    generalize m.nb = M at *
    generalize s.nb = S at *
    by_cases hgt : M > S
    · simp only [hgt, if_true]
      exact ⟨by rw [haw]; exact Nat.mod_lt _ hp, Nat.mod_lt _ hs⟩
    · by_cases hlt : M < S
      · have hd : S % M = 0 := by
          rcases h3 with h | h
          · have h' := h.1
            rw [Nat.mod_eq_of_lt hlt] at h'; omega
          · exact h
        obtain ⟨r, hr⟩ : ∃ r, S = r * M := ⟨S / M, (Nat.div_mul_cancel (Nat.dvd_of_mod_eq_zero hd)).symm⟩
        have hrS : S / M = r := by rw [hr, Nat.mul_div_cancel _ hm]
        have hrpos : 0 < r := by
          rcases Nat.eq_zero_or_pos r with h | h
          · rw [h, Nat.zero_mul] at hr; omega
          · exact h
        simp only [hgt, hlt, if_true, if_false, hrS]
        refine ⟨Nat.mod_lt _ hp, ?_⟩
        have h1 : x / M % r < r := Nat.mod_lt _ hrpos
        have h2 : (x / M % r + 1) * M ≤ r * M := Nat.mul_le_mul_right _ h1
        rw [Nat.add_mul, Nat.one_mul] at h2
        omega
      · have he : M = S := by omega
        simp only [hgt, hlt, if_false]
        exact ⟨by rw [← haw]; exact hx, by rw [← he]; exact hl⟩
  case wbConverter =>
    obtain ⟨h1, h2, h3, h4, h5, h6, h7⟩ := hk
    rw [h1] at hx
    simp only [if_true] at hx
    simp only [elemByte, h2, if_true]
    rw [← haw]
    have h4' := h4
    have h5' := h5
    generalize m.nb = M at *
    generalize s.nb = S at *
    generalize lg m.dw = a at *
    generalize lg s.dw = c at *
    by_cases hgt : M > S
    · have hca : c ≤ a := by
        rw [h4, h5] at hgt
        exact Nat.le_of_lt ((Nat.pow_lt_pow_iff_right (by decide)).mp hgt)
      have hdiv : M / S = 2 ^ (a - c) := by rw [h4, h5, Nat.pow_div hca (by decide)]
      have hj : lane / S < 2 ^ (a - c) := by
        rw [Nat.div_lt_iff_lt_mul hs, ← hdiv]
        have hd : M % S = 0 := by
          rcases h3 with h | h
          · exact h
          · rw [Nat.mod_eq_of_lt hgt] at h; omega
        rw [Nat.div_mul_cancel (Nat.dvd_of_mod_eq_zero hd)]; exact hl
      simp only [hgt, if_true, hdiv]
      exact ⟨wb_down_range a c m.aw x _ hca h6 hx hj, Nat.mod_lt _ hs⟩
    · by_cases hlt : M < S
      · have hac : a ≤ c := by
          rw [h4, h5] at hlt
          exact Nat.le_of_lt ((Nat.pow_lt_pow_iff_right (by decide)).mp hlt)
        have hdiv : S / M = 2 ^ (c - a) := by rw [h4, h5, Nat.pow_div hac (by decide)]
        have hd : S % M = 0 := by
          rcases h3 with h | h
          · rw [Nat.mod_eq_of_lt hlt] at h; omega
          · exact h
        have hS : S = 2 ^ (c - a) * M := by rw [← hdiv, Nat.div_mul_cancel (Nat.dvd_of_mod_eq_zero hd)]
        simp only [hgt, hlt, if_true, if_false, hdiv]
        refine ⟨wb_up_range a c m.aw x hac (by rw [haw]; exact h7) hx, ?_⟩
        have h1 : x % 2 ^ (c - a) < 2 ^ (c - a) := Nat.mod_lt _ (Nat.pow_pos (by decide))
        have h2 : (x % 2 ^ (c - a) + 1) * M ≤ 2 ^ (c - a) * M := Nat.mul_le_mul_right _ h1
        rw [Nat.add_mul, Nat.one_mul] at h2
        omega
      · have he : M = S := by omega
        have hac : a = c := by
          rw [h4, h5] at he
          rcases Nat.lt_trichotomy a c with h | h | h
          · exact absurd he (Nat.ne_of_lt ((Nat.pow_lt_pow_iff_right (by decide)).mpr h))
          · exact h
          · exact absurd he.symm (Nat.ne_of_lt ((Nat.pow_lt_pow_iff_right (by decide)).mpr h))
        simp only [hgt, hlt, if_false]
        exact ⟨by rw [← hac]; exact hx, by rw [← he]; exact hl⟩

/-! ### chains -/

/-- Consecutive elements share an interface; the chain leads from interface `a` (master end) to `b` (slave end). -/
def Linked : List Elem → IfDesc → IfDesc → Prop
  | [], a, b => a = b
  | e :: l, a, b => e.master = a ∧ Linked l e.slave b

/-- Every element is well formed and the transfer stays within the address range of every port it crosses. -/
def ChainOk : List Elem → Nat × Nat → Prop
  | [], _ => True
  | e :: l, p => e.WF ∧ InRange e.master p ∧ ChainOk l (elemByte e p)

theorem chainByte_cons (e : Elem) (l : List Elem) (p : Nat × Nat) : chainByte (e :: l) p = chainByte l (elemByte e p) := rfl

theorem chain_preserves_byte (l : List Elem) : ∀ (a b : IfDesc) (p : Nat × Nat), Linked l a b → ChainOk l p →
    flat b (chainByte l p) = flat a p := by
  induction l with
  | nil => intro a b p h _; simp only [Linked] at h; subst h; rfl
  | cons e l ih =>
    intro a b p h hok
    obtain ⟨h1, h2⟩ := h
    obtain ⟨hwf, hr, hrest⟩ := hok
    rw [chainByte_cons, ih e.slave b _ h2 hrest, elem_preserves_byte e hwf p hr, h1]

theorem linked_append (l1 l2 : List Elem) : ∀ (a b c : IfDesc), Linked l1 a b → Linked l2 b c → Linked (l1 ++ l2) a c := by
  induction l1 with
  | nil => intro a b c h1 h2; simp only [Linked] at h1; subst h1; exact h2
  | cons e l ih => intro a b c h1 h2; exact ⟨h1.1, ih _ _ _ h1.2 h2⟩

/-- What one helper of `add_adapter` contributes: nothing (interface unchanged) or one element between the interface
    and the adapted interface, oriented by the direction. -/
def StepShape (m2s : Bool) (i : IfDesc) (l : List Elem) (o : IfDesc) : Prop :=
  (l = [] ∧ o = i) ∨ ∃ k, l = [{ kind := k, master := (orient m2s i o).1, slave := (orient m2s i o).2 }]

theorem widthStep_shape (b : BusDesc) (m2s : Bool) (i : IfDesc) (l : List Elem) (o : IfDesc)
    (h : widthStep b m2s i = .ok (l, o)) : StepShape m2s i l o := by
  unfold widthStep at h
  split at h
  · injection h with h; injection h with h1 h2; exact Or.inl ⟨h1.symm, h2.symm⟩
  · cases hs : i.std <;> simp only [hs] at h
    · split at h
      · cases h
      · injection h with h; injection h with h1 h2; subst h1 h2; exact Or.inr ⟨_, rfl⟩
    · injection h with h; injection h with h1 h2; subst h1 h2; exact Or.inr ⟨_, rfl⟩
    · injection h with h; injection h with h1 h2; subst h1 h2; exact Or.inr ⟨_, rfl⟩
    · cases h

theorem addrStep_shape (b : BusDesc) (m2s : Bool) (i : IfDesc) (l : List Elem) (o : IfDesc)
    (h : addrStep b m2s i = .ok (l, o)) : StepShape m2s i l o := by
  unfold addrStep at h
  split at h
  · injection h with h; injection h with h1 h2; exact Or.inl ⟨h1.symm, h2.symm⟩
  · split at h
    · injection h with h; injection h with h1 h2; exact Or.inl ⟨h1.symm, h2.symm⟩
    · injection h with h; injection h with h1 h2; subst h1 h2; exact Or.inr ⟨_, rfl⟩

theorem stdStep_shape (b : BusDesc) (m2s : Bool) (i : IfDesc) (l : List Elem) (o : IfDesc)
    (h : stdStep b m2s i = .ok (l, o)) : StepShape m2s i l o := by
  unfold stdStep at h
  split at h
  · injection h with h; injection h with h1 h2; exact Or.inl ⟨h1.symm, h2.symm⟩
  · simp only at h
    split at h
    · cases h
    · split at h
      · cases h
      · split at h
        · cases h
        · injection h with h; injection h with h1 h2; subst h1 h2; exact Or.inr ⟨_, rfl⟩

theorem shape_linked_m2s (i o : IfDesc) (l : List Elem) (h : StepShape true i l o) : Linked l i o := by
  rcases h with ⟨rfl, rfl⟩ | ⟨k, rfl⟩
  · rfl
  · exact ⟨rfl, rfl⟩

theorem shape_linked_s2m (i o : IfDesc) (l : List Elem) (h : StepShape false i l o) : Linked l.reverse o i := by
  rcases h with ⟨rfl, rfl⟩ | ⟨k, rfl⟩
  · rfl
  · exact ⟨rfl, rfl⟩

/-- The three helpers of `add_adapter`, decomposed. -/
theorem adapterChain_steps (b : BusDesc) (m2s : Bool) (i : IfDesc) (l : List Elem) (o : IfDesc)
    (h : adapterChain b m2s i = .ok (l, o)) :
    ∃ l1 i1 l2 i2 l3, widthStep b m2s i = .ok (l1, i1) ∧ addrStep b m2s i1 = .ok (l2, i2) ∧
      stdStep b m2s i2 = .ok (l3, o) ∧ l = l1 ++ l2 ++ l3 := by
  unfold adapterChain at h
  cases h1 : widthStep b m2s i with
  | error e => simp [h1, bind, Except.bind] at h
  | ok r1 =>
    obtain ⟨l1, i1⟩ := r1
    cases h2 : addrStep b m2s i1 with
    | error e => simp [h1, h2, bind, Except.bind] at h
    | ok r2 =>
      obtain ⟨l2, i2⟩ := r2
      cases h3 : stdStep b m2s i2 with
      | error e => simp [h1, h2, h3, bind, Except.bind] at h
      | ok r3 =>
        obtain ⟨l3, i3⟩ := r3
        simp [h1, h2, h3, bind, Except.bind, pure, Except.pure] at h
        exact ⟨l1, i1, l2, i2, l3, rfl, h2, by rw [h3, h.2], by rw [← h.1, List.append_assoc]⟩

theorem adapterChain_linked (b : BusDesc) (m2s : Bool) (i : IfDesc) (l : List Elem) (o : IfDesc)
    (h : adapterChain b m2s i = .ok (l, o)) :
    Linked (masterToSlave m2s l) (if m2s then i else o) (if m2s then o else i) := by
  obtain ⟨l1, i1, l2, i2, l3, h1, h2, h3, rfl⟩ := adapterChain_steps b m2s i l o h
  have s1 := widthStep_shape b m2s i l1 i1 h1
  have s2 := addrStep_shape b m2s i1 l2 i2 h2
  have s3 := stdStep_shape b m2s i2 l3 o h3
  cases m2s
  · simp only [masterToSlave, Bool.false_eq_true, if_false, List.reverse_append]
    rw [← List.append_assoc]
    exact linked_append _ _ _ _ _ (linked_append _ _ _ _ _ (shape_linked_s2m _ _ _ s3) (shape_linked_s2m _ _ _ s2))
      (shape_linked_s2m _ _ _ s1)
  · simp only [masterToSlave, if_true]
    exact linked_append _ _ _ _ _ (linked_append _ _ _ _ _ (shape_linked_m2s _ _ _ s1) (shape_linked_m2s _ _ _ s2))
      (shape_linked_m2s _ _ _ s3)

/-! ### the elements `add_adapter` builds are well formed -/

/-- The data width is `8 · 2^k`. -/
def PowOk (dw : Nat) : Prop := dw / 8 = 2 ^ lg dw

theorem pow_mod_pow (a c : Nat) (h : a ≤ c) : 2 ^ c % 2 ^ a = 0 :=
  Nat.mod_eq_zero_of_dvd (Nat.pow_dvd_pow 2 h)

theorem conv_div (a c aw : Nat) (ha : a ≤ aw) (_hc : c ≤ aw) :
    (2 ^ a % 2 ^ c = 0 ∧ 2 ^ aw % 2 ^ a = 0) ∨ 2 ^ c % 2 ^ a = 0 := by
  rcases Nat.le_total c a with h | h
  · exact Or.inl ⟨pow_mod_pow _ _ h, pow_mod_pow _ _ ha⟩
  · exact Or.inr (pow_mod_pow _ _ h)

theorem conv_div' (a c : Nat) : 2 ^ a % 2 ^ c = 0 ∨ 2 ^ c % 2 ^ a = 0 := by
  rcases Nat.le_total c a with h | h
  · exact Or.inl (pow_mod_pow _ _ h)
  · exact Or.inr (pow_mod_pow _ _ h)

theorem widthStep_wf (b : BusDesc) (m2s : Bool) (i : IfDesc) (l : List Elem) (o : IfDesc)
    (h : widthStep b m2s i = .ok (l, o)) (hi : PowOk i.dw) (hb : PowOk b.dw) (haw : i.aw = b.aw)
    (hli : lg i.dw ≤ b.aw) (hlb : lg b.dw ≤ b.aw) :
    (∀ e ∈ l, e.WF) ∧ o.std = i.std ∧ o.byteAddr = i.byteAddr ∧ o.dw = b.dw ∧ o.aw = b.aw := by
  have pi : 0 < 2 ^ lg i.dw := Nat.pow_pos (by decide)
  have pb : 0 < 2 ^ lg b.dw := Nat.pow_pos (by decide)
  unfold PowOk at hi hb
  unfold widthStep at h
  split at h
  · injection h with h; injection h with h1 h2; subst h1 h2
    rename_i hd
    exact ⟨by simp, rfl, rfl, hd, haw⟩
  · cases hs : i.std <;> simp only [hs] at h
    · split at h
      · cases h
      · rename_i hba
        injection h with h; injection h with h1 h2; subst h1 h2
        refine ⟨?_, rfl, rfl, rfl, rfl⟩
        intro e he
        simp only [List.mem_singleton] at he
        subst he
        cases m2s <;> simp [orient] at hba <;>
          simp [Elem.WF, orient, IfDesc.nb, IfDesc.wordAddr, hs, hi, hb, haw, pi, pb, hba, conv_div', hli, hlb]
    · injection h with h; injection h with h1 h2; subst h1 h2
      refine ⟨?_, rfl, rfl, rfl, rfl⟩
      intro e he
      simp only [List.mem_singleton] at he
      subst he
      cases m2s <;>
        simp [Elem.WF, orient, IfDesc.nb, IfDesc.wordAddr, hs, hi, hb, haw, pi, pb]
      · exact conv_div _ _ _ hlb hli
      · exact conv_div _ _ _ hli hlb
    · injection h with h; injection h with h1 h2; subst h1 h2
      refine ⟨?_, rfl, rfl, rfl, rfl⟩
      intro e he
      simp only [List.mem_singleton] at he
      subst he
      cases m2s <;>
        simp [Elem.WF, orient, IfDesc.nb, IfDesc.wordAddr, hs, hi, hb, haw, pi, pb]
      · exact conv_div _ _ _ hlb hli
      · exact conv_div _ _ _ hli hlb
    · cases h

theorem addrStep_wf (b : BusDesc) (m2s : Bool) (i : IfDesc) (l : List Elem) (o : IfDesc)
    (h : addrStep b m2s i = .ok (l, o)) (hb : PowOk b.dw) (hlb : lg b.dw ≤ b.aw) (hdw : i.dw = b.dw) (haw : i.aw = b.aw) :
    (∀ e ∈ l, e.WF) ∧ o.dw = b.dw ∧ o.aw = b.aw := by
  have pb : 0 < 2 ^ lg b.dw := Nat.pow_pos (by decide)
  unfold PowOk at hb
  unfold addrStep at h
  split at h
  · injection h with h; injection h with h1 h2; subst h1 h2
    exact ⟨by simp, hdw, haw⟩
  · split at h
    · injection h with h; injection h with h1 h2; subst h1 h2
      exact ⟨by simp, hdw, haw⟩
    · rename_i hne hstd
      injection h with h; injection h with h1 h2; subst h1 h2
      refine ⟨?_, rfl, rfl⟩
      intro e he
      simp only [List.mem_singleton] at he
      subst he
      have hs : i.std = .wishbone := by simpa using hstd
      cases m2s <;> cases hba : i.byteAddr <;> cases hbb : busByteAddr b.std <;> simp [hba, hbb] at hne <;>
        simp [Elem.WF, orient, IfDesc.nb, hs, hb, hdw, haw, pb, hba, hbb, hlb]

theorem stdStep_wf (b : BusDesc) (m2s : Bool) (i : IfDesc) (l : List Elem) (o : IfDesc)
    (h : stdStep b m2s i = .ok (l, o)) (hb : PowOk b.dw) (hlb : lg b.dw ≤ b.aw) (hdw : i.dw = b.dw) (haw : i.aw = b.aw) :
    ∀ e ∈ l, e.WF := by
  have pb : 0 < 2 ^ lg b.dw := Nat.pow_pos (by decide)
  unfold PowOk at hb
  unfold stdStep at h
  split at h
  · injection h with h; injection h with h1 h2; subst h1 h2; simp
  · simp only at h
    split at h
    · cases h
    · rename_i k hk
      split at h
      · cases h
      · split at h
        · cases h
        · injection h with h; injection h with h1 h2; subst h1 h2
          intro e he
          simp only [List.mem_singleton] at he
          subst he
          cases m2s <;> simp only [orient, Bool.false_eq_true, if_false, if_true] at hk ⊢
          · cases hs : b.std <;> cases hi : i.std <;> simp [hs, hi, bridgeOf] at hk <;> subst hk <;>
              simp [Elem.WF, IfDesc.nb, IfDesc.wordAddr, hs, hi, hb, hdw, haw, pb, hlb]
          · cases hs : b.std <;> cases hi : i.std <;> simp [hs, hi, bridgeOf] at hk <;> subst hk <;>
              simp [Elem.WF, IfDesc.nb, IfDesc.wordAddr, hs, hi, hb, hdw, haw, pb, hlb]

/-- Every element of every chain `add_adapter` builds is well formed, for data widths `8·2^k` that fit the address
    space and an interface whose address width is the bus's. -/
theorem adapterChain_wf (b : BusDesc) (m2s : Bool) (i : IfDesc) (l : List Elem) (o : IfDesc)
    (h : adapterChain b m2s i = .ok (l, o)) (hi : PowOk i.dw) (hb : PowOk b.dw) (haw : i.aw = b.aw)
    (hli : lg i.dw ≤ b.aw) (hlb : lg b.dw ≤ b.aw) : ∀ e ∈ l, e.WF := by
  obtain ⟨l1, i1, l2, i2, l3, h1, h2, h3, rfl⟩ := adapterChain_steps b m2s i l o h
  obtain ⟨w1, _, _, d1, a1⟩ := widthStep_wf b m2s i l1 i1 h1 hi hb haw hli hlb
  obtain ⟨w2, d2, a2⟩ := addrStep_wf b m2s i1 l2 i2 h2 hb hlb d1 a1
  have w3 := stdStep_wf b m2s i2 l3 o h3 hb hlb d2 a2
  intro e he
  simp only [List.mem_append] at he
  rcases he with (he | he) | he
  · exact w1 e he
  · exact w2 e he
  · exact w3 e he

/-! ### the composition theorem -/

theorem chain_preserves_byte_wf (l : List Elem) : ∀ (a b : IfDesc) (p : Nat × Nat), Linked l a b → (∀ e ∈ l, e.WF) →
    InRange a p → flat b (chainByte l p) = flat a p ∧ InRange b (chainByte l p) := by
  induction l with
  | nil => intro a b p h _ hr; simp only [Linked] at h; subst h; exact ⟨rfl, hr⟩
  | cons e l ih =>
    intro a b p h hwf hr
    obtain ⟨h1, h2⟩ := h
    have hw : e.WF := hwf e (by simp)
    rw [← h1] at hr
    have hr' := elem_in_range e hw p hr
    obtain ⟨g1, g2⟩ := ih e.slave b (elemByte e p) h2 (fun e' he' => hwf e' (by simp [he'])) hr'
    rw [chainByte_cons]
    exact ⟨by rw [g1, elem_preserves_byte e hw p hr, h1], g2⟩

theorem adapterChain_preserves (b : BusDesc) (m2s : Bool) (i : IfDesc) (l : List Elem) (o : IfDesc)
    (h : adapterChain b m2s i = .ok (l, o)) (hi : PowOk i.dw) (hb : PowOk b.dw) (haw : i.aw = b.aw)
    (hli : lg i.dw ≤ b.aw) (hlb : lg b.dw ≤ b.aw) (p : Nat × Nat) (hr : InRange (if m2s then i else o) p) :
    flat (if m2s then o else i) (chainByte (masterToSlave m2s l) p) = flat (if m2s then i else o) p ∧
    InRange (if m2s then o else i) (chainByte (masterToSlave m2s l) p) := by
  have hl := adapterChain_linked b m2s i l o h
  have hw := adapterChain_wf b m2s i l o h hi hb haw hli hlb
  refine chain_preserves_byte_wf _ _ _ p hl ?_ hr
  intro e he
  apply hw
  cases m2s <;> simpa [masterToSlave] using he

/-- The interface handed back is of the bus's standard and data width. -/
theorem adapterChain_result (b : BusDesc) (m2s : Bool) (i : IfDesc) (l : List Elem) (o : IfDesc)
    (h : adapterChain b m2s i = .ok (l, o)) : o.std = b.std ∧ o.dw = b.dw := by
  obtain ⟨l1, i1, l2, i2, l3, h1, h2, h3, _⟩ := adapterChain_steps b m2s i l o h
  have d1 : i1.dw = b.dw := by
    unfold widthStep at h1
    split at h1
    · injection h1 with h1; injection h1 with _ h1; subst h1; assumption
    · cases hs : i.std <;> simp only [hs] at h1
      · split at h1
        · cases h1
        · injection h1 with h1; injection h1 with _ h1; subst h1; rfl
      · injection h1 with h1; injection h1 with _ h1; subst h1; rfl
      · injection h1 with h1; injection h1 with _ h1; subst h1; rfl
      · cases h1
  have d2 : i2.dw = b.dw := by
    unfold addrStep at h2
    split at h2
    · injection h2 with h2; injection h2 with _ h2; subst h2; exact d1
    · split at h2
      · injection h2 with h2; injection h2 with _ h2; subst h2; exact d1
      · injection h2 with h2; injection h2 with _ h2; subst h2; rfl
  unfold stdStep at h3
  split at h3
  · rename_i hs
    injection h3 with h3; injection h3 with _ h3; subst h3
    exact ⟨hs, d2⟩
  · simp only at h3
    split at h3
    · cases h3
    · split at h3
      · cases h3
      · split at h3
        · cases h3
        · injection h3 with h3; injection h3 with _ h3; subst h3; exact ⟨rfl, rfl⟩

end Litex.Bridge.Adapter
