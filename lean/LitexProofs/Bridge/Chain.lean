import LitexModel.Bridge.ClosedChain
import LitexProofs.Bridge.DownOpen
import LitexProofs.Bridge.Axl2Wb
/-
  Cycle-level composition of the chain `AXILiteDownConverter` → `AXILite2Wishbone`: the composite is simulated by the
  open systems of its three constituents, so their "any partner" invariants compose (assume / guarantee: what the
  down-converter guarantees on the narrow port is what the bridge assumes of its master).
-/
namespace Litex.Bridge.Chain
open Litex Litex.Bridge

variable (c : DownCfg) (d : A2WCfg)

theorem projW_next (s : Sys) (i : AxlM × WbS) :
    projW ((sys c d).next s i) = (DownW.osys c).next (projW s) (maskWm i.1, maskWs (narrowRsp s i.2)) := by
  obtain ⟨w, r, b, ⟨gAW, gW, gAR, gB, gR, gpAW, gpW, gpAR, gref⟩, ⟨hAW, hW, hAR, hB, hR, hpAW, hpW, hpAR, href⟩, k,
    wlog, rlog⟩ := s
  obtain ⟨⟨awvalid, awaddr, wvalid, wdata, wstrb, bready, arvalid, araddr, rready⟩, wb⟩ := i
  generalize ha : narrowRsp { w := w, r := r, b := b, g := _, h := _, k := k, wlog := wlog, rlog := rlog } wb = a
  obtain ⟨aawr, awr, abv, abr, aarr, arv, arr, ard⟩ := a
  cases hst : w.st <;>
    simp [projW, dropR, maskWm, maskWs, sys, narrowReq, ha, DownW.osys, Down.toSlave, Down.toMaster, DownW.toSlave,
      DownW.toMaster, DownW.next, DownW.nextFsm, DownW.reset, DownW.skip, DownW.subStrb, DownW.subData,
      DownW.lastWord, AxlGhost.next, hst, AxlM.idle, AxlS.idle]

theorem projR_next (s : Sys) (i : AxlM × WbS) :
    projR ((sys c d).next s i) = (DownR.osys c).next (projR s) (maskRm i.1, maskRs (narrowRsp s i.2)) := by
  obtain ⟨w, r, b, ⟨gAW, gW, gAR, gB, gR, gpAW, gpW, gpAR, gref⟩, ⟨hAW, hW, hAR, hB, hR, hpAW, hpW, hpAR, href⟩, k,
    wlog, rlog⟩ := s
  obtain ⟨⟨awvalid, awaddr, wvalid, wdata, wstrb, bready, arvalid, araddr, rready⟩, wb⟩ := i
  generalize ha : narrowRsp { w := w, r := r, b := b, g := _, h := _, k := k, wlog := wlog, rlog := rlog } wb = a
  obtain ⟨aawr, awr, abv, abr, aarr, arv, arr, ard⟩ := a
  cases hst : r.st <;>
    simp [projR, dropW, maskRm, maskRs, sys, narrowReq, ha, DownR.osys, Down.toSlave, Down.toMaster, DownR.toSlave,
      DownR.toMaster, DownR.next, DownR.nextFsm, DownR.reset, DownR.lastWord, DownR.rdataOut, DownR.init,
      AxlGhost.next, hst, AxlM.idle, AxlS.idle]

theorem narrowRsp_eq (s : Sys) (q : AxlM) (wb : WbS) : Axl2Wb.toMaster s.b q wb = narrowRsp s wb := by
  cases h : s.b.st <;> simp [narrowRsp, Axl2Wb.toMaster, h]

theorem projB_next (s : Sys) (i : AxlM × WbS) :
    projB ((sys c d).next s i) = (Axl2Wb.osys d).next (projB s) (narrowReq c s i, i.2) := by
  simp [projB, sys, Axl2Wb.osys, narrowRsp_eq]

theorem toSlaveW_mask (w : DownWState) (m : AxlM) (a : AxlS) :
    DownW.toSlave c w (maskWm m) (maskWs a) = DownW.toSlave c w m a := by
  cases h : w.st <;> simp [DownW.toSlave, maskWm, maskWs, h, DownW.skip, DownW.subStrb, DownW.subData]

theorem toMasterW_mask (w : DownWState) (m : AxlM) (a : AxlS) :
    DownW.toMaster c w (maskWm m) (maskWs a) = DownW.toMaster c w m a := by
  cases h : w.st <;> simp [DownW.toMaster, maskWm, maskWs, h, DownW.skip, DownW.subStrb]

theorem toSlaveR_mask (r : DownRState) (m : AxlM) (a : AxlS) :
    DownR.toSlave c r (maskRm m) (maskRs a) = DownR.toSlave c r m a := by
  cases h : r.st <;> simp [DownR.toSlave, maskRm, maskRs, h]

theorem toMasterR_mask (r : DownRState) (m : AxlM) (a : AxlS) :
    DownR.toMaster c r (maskRm m) (maskRs a) = DownR.toMaster c r m a := by
  cases h : r.st <;> simp [DownR.toMaster, DownR.rdataOut, maskRm, maskRs, h]

def CInv (s : Sys) : Prop := DownW.OInv c (projW s) ∧ DownR.OInv c (projR s) ∧ Axl2Wb.OInv d (projB s)

/-- Every port of the chain follows its protocol. -/
def CGood (s : Sys) (i : AxlM × WbS) : Prop :=
  let o := sysOut c d s i
  s.h.reqHeld o.2.1 ∧                      -- narrow AW / W / AR: repeated unchanged until accepted
  s.k.reqHeld o.2.2.2 ∧                    -- Wishbone request: repeated unchanged until acknowledged
  s.h.rspHeld o.2.2.1 ∧                    -- narrow B / R (from the bridge): repeated unchanged until taken
  (∀ r, s.g.heldB = some r → o.1.bvalid = true ∧ o.1.bresp = r) ∧   -- wide B: repeated unchanged until taken
  (o.1.bvalid = true → o.1.bresp = firstErr s.wlog) ∧
  (o.1.rvalid = true → o.1.rresp = firstErr s.rlog)

theorem cstep (s : Sys) (i : AxlM × WbS) (hinv : CInv c d s) (hok : s.g.reqHeld i.1) :
    CGood c d s i ∧ CInv c d ((sys c d).next s i) := by
  obtain ⟨iW, iR, iB⟩ := hinv
  have hokW : (projW s).g.reqHeld (maskWm i.1) := by
    obtain ⟨h1, h2, _⟩ := hok
    exact ⟨h1, h2, fun a ha => by simp [projW, dropR] at ha⟩
  have hokR : (projR s).g.reqHeld (maskRm i.1) := by
    obtain ⟨_, _, h3⟩ := hok
    exact ⟨fun a ha => by simp [projR, dropW] at ha, fun a ha => by simp [projR, dropW] at ha, h3⟩
  have hW := DownW.ostep c (projW s) (maskWm i.1, maskWs (narrowRsp s i.2)) iW hokW
  have hR := DownR.ostep c (projR s) (maskRm i.1, maskRs (narrowRsp s i.2)) iR hokR
  obtain ⟨⟨w1, w2, w3⟩, wI⟩ := hW
  obtain ⟨⟨r1, r2⟩, rI⟩ := hR
  simp only [toSlaveW_mask, toMasterW_mask] at w1 w2 w3
  simp only [toSlaveR_mask, toMasterR_mask] at r1 r2
  have hq : s.h.reqHeld (narrowReq c s i) := by
    obtain ⟨a1, a2, _⟩ := w1
    obtain ⟨_, _, b3⟩ := r1
    exact ⟨a1, a2, b3⟩
  have hB := Axl2Wb.ostep d (projB s) (narrowReq c s i, i.2) iB hq
  obtain ⟨⟨b1, b2⟩, bI⟩ := hB
  refine ⟨⟨hq, b1, ?_, w2, w3, r2⟩, ?_, ?_, ?_⟩
  · have e := narrowRsp_eq s (narrowReq c s i) i.2
    simp only [projB] at b2
    rw [e] at b2
    exact b2
  · rw [projW_next]; exact wI
  · rw [projR_next]; exact rI
  · rw [projB_next]; exact bI

end Litex.Bridge.Chain
