import LitexModel.Bridge.Closed
/-
  Proofs for AXILite2Wishbone: invariant of the closed system (bridge ∥ Wishbone byte memory ∥ port observer).
-/
namespace Litex.Bridge.Axl2Wb
open Litex Litex.Bridge

variable (c : A2WCfg)

/-- Inductive invariant: what the observer knows in each FSM state, and how the partner memory relates to the
    reference memory. -/
def Inv (s : Sys) : Prop :=
  match s.br.st with
  | .idle    => s.g.pendAW = none ∧ s.g.pendW = none ∧ s.g.pendAR = none ∧ s.g.heldB = none ∧ s.g.heldR = none ∧
                s.mem = s.g.ref
  | .doRead  => s.g.pendAW = none ∧ s.g.pendW = none ∧ s.g.pendAR = none ∧ s.g.heldB = none ∧ s.g.heldR = none ∧
                s.mem = s.g.ref ∧ s.g.heldAR.isSome
  | .doWrite => s.g.pendAW = none ∧ s.g.pendW = none ∧ s.g.pendAR = none ∧ s.g.heldB = none ∧ s.g.heldR = none ∧
                s.mem = s.g.ref ∧ s.g.heldAW.isSome
  | .sendR   => s.g.pendAW = none ∧ s.g.pendW = none ∧ s.g.heldB = none ∧ s.mem = s.g.ref ∧
                (s.g.heldR = none ∨ s.g.heldR = some (respOkay, s.br.data)) ∧
                ∃ a, s.g.pendAR = some a ∧ s.br.data = s.g.ref.readWord c.nb (wbAdr c a)
  | .sendB   => s.g.pendAR = none ∧ s.g.heldR = none ∧ (s.g.heldB = none ∨ s.g.heldB = some respOkay) ∧
                ∃ a d st, s.g.pendAW = some a ∧ s.g.pendW = some (d, st) ∧
                  s.mem = s.g.ref.writeWord c.nb (wbAdr c a) st d

/-- The guarantee of one cycle. -/
def Good (s : Sys) (i : AxlM × WbOracle) : Prop :=
  s.g.rspHeld (sysOut c s i).1 ∧ s.g.memOk (byteRd c.nb (wbAdr c)) i.1 (sysOut c s i).1 ∧
  (s.br.st ≠ .sendB → s.mem = s.g.ref)

theorem step (s : Sys) (i : AxlM × WbOracle) (hinv : Inv c s) (hok : s.g.reqHeld i.1) :
    Good c s i ∧ Inv c ((sys c s.g.ref).next s i) := by
  obtain ⟨⟨st, data, last⟩, mem, ⟨heldAW, heldW, heldAR, heldB, heldR, pendAW, pendW, pendAR, ref⟩⟩ := s
  obtain ⟨⟨awvalid, awaddr, wvalid, wdata, wstrb, bready, arvalid, araddr, rready⟩, ⟨ack, junk⟩⟩ := i
  cases st <;>
    simp only [Inv, Good, sys, sysOut, toSlave, toMaster, next, wbMemRsp, wbMemNext, AxlGhost.next,
      AxlGhost.rspHeld, AxlGhost.memOk, AxlGhost.reqHeld, AxlS.idle, WbM.idle, WbM.active, byteRd, byteWr] at hinv hok ⊢
  case idle =>
    cases awvalid <;> cases arvalid <;> cases last <;> simp_all
  case doRead =>
    cases heldAR <;> cases ack <;> simp_all
  case doWrite =>
    cases heldAW <;> cases ack <;> cases wvalid <;> simp_all
    exact ⟨_, _, ⟨rfl, rfl⟩, rfl⟩
  case sendR =>
    obtain ⟨h1, h2, h3, h4, h5, a, h6, h7⟩ := hinv
    rcases h5 with h5 | h5 <;> cases rready <;> simp_all [respOkay]
  case sendB =>
    obtain ⟨h1, h2, h3, a, d, st, h4, h5, h6⟩ := hinv
    rcases h3 with h3 | h3 <;> cases bready <;> simp_all [respOkay] <;> exact ⟨_, _, ⟨rfl, rfl⟩, rfl⟩

/-! ### stability of everything the bridge drives, for an arbitrary Wishbone partner -/

def OInv (s : OSys) : Prop :=
  match s.br.st with
  | .idle    => s.g.heldB = none ∧ s.g.heldR = none ∧ s.h.held = none
  | .doRead  => s.g.heldB = none ∧ s.g.heldR = none ∧
                ∃ a, s.g.heldAR = some a ∧
                  (s.h.held = none ∨ s.h.held = some { cyc := true, stb := true, we := false, adr := wbAdr c a,
                                                        sel := 2 ^ c.nb - 1, datw := 0 })
  | .doWrite => s.g.heldB = none ∧ s.g.heldR = none ∧
                ∃ a, s.g.heldAW = some a ∧
                  (s.h.held = none ∨ ∃ w, s.g.heldW = some w ∧
                     s.h.held = some { cyc := true, stb := true, we := true, adr := wbAdr c a, sel := w.2, datw := w.1 })
  | .sendR   => s.g.heldB = none ∧ s.h.held = none ∧ (s.g.heldR = none ∨ s.g.heldR = some (respOkay, s.br.data))
  | .sendB   => s.g.heldR = none ∧ s.h.held = none ∧ (s.g.heldB = none ∨ s.g.heldB = some respOkay)

def OGood (s : OSys) (i : AxlM × WbS) : Prop :=
  s.h.reqHeld (toSlave c s.br i.1) ∧ s.g.rspHeld (toMaster s.br i.1 i.2)

theorem ostep (s : OSys) (i : AxlM × WbS) (hinv : OInv c s) (hok : s.g.reqHeld i.1) :
    OGood c s i ∧ OInv c ((osys c).next s i) := by
  obtain ⟨⟨st, data, last⟩, ⟨heldAW, heldW, heldAR, heldB, heldR, pendAW, pendW, pendAR, ref⟩, ⟨held, ref2⟩⟩ := s
  obtain ⟨⟨awvalid, awaddr, wvalid, wdata, wstrb, bready, arvalid, araddr, rready⟩, ⟨ack, datr, err⟩⟩ := i
  cases st <;>
    simp only [OInv, OGood, osys, toSlave, toMaster, next, AxlGhost.next, WbGhost.next, WbGhost.reqHeld,
      AxlGhost.rspHeld, AxlGhost.reqHeld, AxlS.idle, WbM.idle, WbM.active] at hinv hok ⊢
  case idle =>
    cases awvalid <;> cases arvalid <;> cases last <;> simp_all
  case doRead =>
    obtain ⟨h1, h2, a, h3, h4⟩ := hinv
    rcases h4 with h4 | h4 <;> cases ack <;> simp_all
  case doWrite =>
    obtain ⟨h1, h2, a, h3, h4⟩ := hinv
    rcases h4 with h4 | ⟨⟨w1, w2⟩, h4, h5⟩ <;> cases ack <;> cases wvalid <;> simp_all
  case sendR =>
    obtain ⟨h1, h2, h3⟩ := hinv
    rcases h3 with h3 | h3 <;> cases rready <;> simp_all [respOkay]
  case sendB =>
    obtain ⟨h1, h2, h3⟩ := hinv
    rcases h3 with h3 | h3 <;> cases bready <;> simp_all [respOkay]

/-! ### read/write alternation -/

def FInv (s : FSys) : Prop :=
  s.wOver ≤ 1 ∧ s.rOver ≤ 1 ∧
  (s.wOver = 1 → (s.br.st ≠ .doRead → s.br.last = false) ∧ s.g.heldAR.isSome ∧ s.br.st ≠ .sendR) ∧
  (s.rOver = 1 → (s.br.st ≠ .doWrite → s.br.last = true) ∧ s.g.heldAW.isSome ∧ s.br.st ≠ .sendB) ∧
  (s.br.st = .doRead → s.g.heldAR.isSome) ∧ (s.br.st = .doWrite → s.g.heldAW.isSome)

theorem fstep (s : FSys) (i : AxlM × WbS) (hinv : FInv s) (hok : s.g.reqHeld i.1) :
    FInv ((fsys c).next s i) := by
  obtain ⟨⟨st, data, last⟩, ⟨heldAW, heldW, heldAR, heldB, heldR, pendAW, pendW, pendAR, ref⟩, wOver, rOver⟩ := s
  obtain ⟨⟨awvalid, awaddr, wvalid, wdata, wstrb, bready, arvalid, araddr, rready⟩, ⟨ack, datr, err⟩⟩ := i
  simp only [FInv] at hinv
  obtain ⟨h1, h2, h3, h4, h5, h6⟩ := hinv
  have hw : wOver = 0 ∨ wOver = 1 := by omega
  have hr : rOver = 0 ∨ rOver = 1 := by omega
  clear h1 h2
  rcases hw with hw | hw <;> rcases hr with hr | hr <;> subst hw <;> subst hr <;> cases st <;>
    simp only [FInv, fsys, toSlave, toMaster, next, AxlGhost.next, AxlGhost.reqHeld, AxlS.idle] at h3 h4 h5 h6 hok ⊢ 
  all_goals (simp at h3 h4 h5 h6)
  case inl.inl.idle => cases awvalid <;> cases arvalid <;> cases last <;> cases heldAR <;> cases heldAW <;> simp_all
  case inl.inr.idle => cases awvalid <;> cases arvalid <;> cases last <;> cases heldAR <;> cases heldAW <;> simp_all
  case inr.inl.idle => cases awvalid <;> cases arvalid <;> cases last <;> cases heldAR <;> cases heldAW <;> simp_all
  case inr.inr.idle => cases awvalid <;> cases arvalid <;> cases last <;> cases heldAR <;> cases heldAW <;> simp_all
  all_goals (cases ack <;> cases rready <;> cases bready <;> cases heldAR <;> cases heldAW <;> simp_all)

end Litex.Bridge.Axl2Wb
