import LitexModel.Bridge.Closed
import LitexProofs.Mem
/-
  Byte-level meaning of the down-converter's sub-word reference semantics: `DownW.wideWr` is the masked write of
  the wide word and `DownR.wideRd` the read of the wide word on the flat byte memory (`Mem.writeWord/readWord`).
-/
namespace Litex.Bridge.Bytes
open Litex

theorem selBits_getD (n s i : Nat) : (selBits n s).getD i false = (decide (i < n) && (s / 2 ^ i % 2 == 1)) := by
  induction n generalizing s i with
  | zero => simp [selBits]
  | succ n ih =>
    cases i with
    | zero => simp [selBits]
    | succ i =>
      simp only [selBits, List.getD_cons_succ, ih, Nat.add_lt_add_iff_right, Nat.pow_succ, Nat.div_div_eq_div_mul]
      rw [Nat.mul_comm 2 (2 ^ i)]

theorem wordBytes_getD (n w i : Nat) : (wordBytes n w).getD i 0 = if i < n then w / 256 ^ i % 256 else 0 := by
  induction n generalizing w i with
  | zero => simp [wordBytes]
  | succ n ih =>
    cases i with
    | zero => simp [wordBytes]
    | succ i =>
      simp only [wordBytes, List.getD_cons_succ, ih, Nat.add_lt_add_iff_right, Nat.pow_succ, Nat.div_div_eq_div_mul]
      rw [Nat.mul_comm 256 (256 ^ i)]

/-- Pointwise meaning of a masked word write. -/
theorem writeWord_apply (m : Mem) (n adr sel dat x : Nat) :
    m.writeWord n adr sel dat x =
      if adr * n ≤ x ∧ x - adr * n < n ∧ sel / 2 ^ (x - adr * n) % 2 = 1 then dat / 256 ^ (x - adr * n) % 256 else m x := by
  unfold Mem.writeWord
  rw [Mem.writeMasked_apply, selBits_getD, wordBytes_getD]
  by_cases h1 : adr * n ≤ x <;> by_cases h2 : x - adr * n < n <;> simp [h1, h2]

/-- Digit `j` of digit group `k` (groups of `n` digits, base `B`) is digit `k*n + j`. -/
theorem digit_of_group (B a k n j : Nat) (hj : j < n) :
    (a / B ^ (k * n) % B ^ n) / B ^ j % B = a / B ^ (k * n + j) % B := by
  obtain ⟨e, rfl⟩ : ∃ e, n = j + (e + 1) := ⟨n - j - 1, by omega⟩
  have hd : B ∣ B ^ (e + 1) := ⟨B ^ e, by rw [Nat.pow_succ, Nat.mul_comm]⟩
  rw [Nat.pow_add B j (e + 1), Nat.mod_mul_right_div_self, Nat.mod_mod_of_dvd _ hd,
    Nat.div_div_eq_div_mul, ← Nat.pow_add]

open Litex.Bridge

variable (c : DownCfg)

/-- No address wrap-around inside the wide word that contains `a`. -/
def NoWrap (a : Nat) : Prop := a / c.nbFrom * c.nbFrom + c.nbFrom ≤ 2 ^ c.abits

theorem subAddr_eq (a k : Nat) (hn : 0 < c.nbTo) (hw : NoWrap c a) (hk : k < c.ratio) :
    c.subAddr a k = a / c.nbFrom * c.nbFrom + k * c.nbTo := by
  unfold DownCfg.subAddr
  apply Nat.mod_eq_of_lt
  unfold NoWrap at hw
  have : k * c.nbTo + c.nbTo ≤ c.ratio * c.nbTo := by
    rw [← Nat.succ_mul]; exact Nat.mul_le_mul_right _ hk
  unfold DownCfg.nbFrom at hw ⊢
  omega

theorem subIdx_eq (a k : Nat) (hn : 0 < c.nbTo) (hw : NoWrap c a) (hk : k < c.ratio) :
    c.subAddr a k / c.nbTo * c.nbTo = a / c.nbFrom * c.nbFrom + k * c.nbTo := by
  rw [subAddr_eq c a k hn hw hk]
  have : a / c.nbFrom * c.nbFrom + k * c.nbTo = (a / c.nbFrom * c.ratio + k) * c.nbTo := by
    unfold DownCfg.nbFrom; rw [Nat.add_mul, Nat.mul_assoc]
  rw [this, Nat.mul_div_cancel _ hn]

/-- Pointwise meaning of one sub-word write (whether or not its strobe is zero). -/
theorem subWrite_apply (a d st k : Nat) (m : Mem) (x : Nat) (hn : 0 < c.nbTo) (hw : NoWrap c a) (hk : k < c.ratio) :
    DownW.subWrite c a d st k m x =
      let base := a / c.nbFrom * c.nbFrom + k * c.nbTo
      if base ≤ x ∧ x - base < c.nbTo ∧ st / 2 ^ (k * c.nbTo + (x - base)) % 2 = 1
      then d / 256 ^ (k * c.nbTo + (x - base)) % 256 else m x := by
  unfold DownW.subWrite
  simp only
  have hidx := subIdx_eq c a k hn hw hk
  by_cases hz : DownW.ss c st k = 0
  · simp only [hz, beq_self_eq_true, if_true]
    by_cases h1 : a / c.nbFrom * c.nbFrom + k * c.nbTo ≤ x ∧ x - (a / c.nbFrom * c.nbFrom + k * c.nbTo) < c.nbTo
    · have hd := digit_of_group 2 st k c.nbTo _ h1.2
      unfold DownW.ss at hz
      rw [hz] at hd
      simp at hd
      have : ¬ (st / 2 ^ (k * c.nbTo + (x - (a / c.nbFrom * c.nbFrom + k * c.nbTo))) % 2 = 1) := by omega
      simp [this]
    · have : ¬ (a / c.nbFrom * c.nbFrom + k * c.nbTo ≤ x ∧ x - (a / c.nbFrom * c.nbFrom + k * c.nbTo) < c.nbTo ∧
          st / 2 ^ (k * c.nbTo + (x - (a / c.nbFrom * c.nbFrom + k * c.nbTo))) % 2 = 1) := fun h => h1 ⟨h.1, h.2.1⟩
      simp [this]
  · have hzb : (DownW.ss c st k == 0) = false := by simp [hz]
    simp only [hzb, Bool.false_eq_true, if_false]
    rw [writeWord_apply, hidx]
    by_cases h1 : a / c.nbFrom * c.nbFrom + k * c.nbTo ≤ x ∧ x - (a / c.nbFrom * c.nbFrom + k * c.nbTo) < c.nbTo
    · have hb := digit_of_group 2 st k c.nbTo _ h1.2
      have hB := digit_of_group 256 d k c.nbTo _ h1.2
      unfold DownW.ss DownW.sd
      rw [hb, hB]
    · by_cases h2 : a / c.nbFrom * c.nbFrom + k * c.nbTo ≤ x
      · have h3 : ¬ x - (a / c.nbFrom * c.nbFrom + k * c.nbTo) < c.nbTo := fun h => h1 ⟨h2, h⟩
        simp [h3]
      · simp [h2]

theorem subWrites_apply (a d st : Nat) (m : Mem) (x : Nat) (hn : 0 < c.nbTo) (hw : NoWrap c a) :
    ∀ k, k ≤ c.ratio →
      DownW.subWrites c a d st k m x =
        if a / c.nbFrom * c.nbFrom ≤ x ∧ x - a / c.nbFrom * c.nbFrom < k * c.nbTo ∧
            st / 2 ^ (x - a / c.nbFrom * c.nbFrom) % 2 = 1
        then d / 256 ^ (x - a / c.nbFrom * c.nbFrom) % 256 else m x := by
  intro k
  induction k with
  | zero => intro _; simp [DownW.subWrites]
  | succ k ih =>
    intro hk
    have ih' := ih (by omega)
    rw [DownW.subWrites, subWrite_apply c a d st k _ x hn hw (by omega), ih']
    simp only
    generalize hB0 : a / c.nbFrom * c.nbFrom = B0
    generalize hp : k * c.nbTo = p
    have hsucc : (k + 1) * c.nbTo = p + c.nbTo := by rw [Nat.succ_mul, hp]
    rw [hsucc]
    by_cases hA : B0 + p ≤ x ∧ x - (B0 + p) < c.nbTo
    · have he : p + (x - (B0 + p)) = x - B0 := by omega
      rw [he]
      have h1 : B0 ≤ x ∧ x - B0 < p + c.nbTo := by omega
      have h2 : ¬ (x - B0 < p) := by omega
      by_cases hbit : st / 2 ^ (x - B0) % 2 = 1 <;> simp [hA, h1, h2, hbit]
    · have h3 : ¬ (B0 + p ≤ x ∧ x - (B0 + p) < c.nbTo ∧ st / 2 ^ (p + (x - (B0 + p))) % 2 = 1) :=
        fun h => hA ⟨h.1, h.2.1⟩
      rw [if_neg h3]
      have h4 : (B0 ≤ x ∧ x - B0 < p + c.nbTo) ↔ (B0 ≤ x ∧ x - B0 < p) := by
        constructor
        · intro h; refine ⟨h.1, ?_⟩
          by_cases h5 : B0 + p ≤ x
          · have : ¬ x - (B0 + p) < c.nbTo := fun h6 => hA ⟨h5, h6⟩
            omega
          · omega
        · intro h; exact ⟨h.1, by omega⟩
      by_cases hbit : st / 2 ^ (x - B0) % 2 = 1
      · by_cases h6 : B0 ≤ x ∧ x - B0 < p
        · have h7 := h4.mpr h6
          simp [h6.1, h6.2, h7.2, hbit]
        · have h7 : ¬ (B0 ≤ x ∧ x - B0 < p + c.nbTo) := fun h => h6 (h4.mp h)
          have e1 : ¬ (B0 ≤ x ∧ x - B0 < p ∧ st / 2 ^ (x - B0) % 2 = 1) := fun h => h6 ⟨h.1, h.2.1⟩
          have e2 : ¬ (B0 ≤ x ∧ x - B0 < p + c.nbTo ∧ st / 2 ^ (x - B0) % 2 = 1) := fun h => h7 ⟨h.1, h.2.1⟩
          rw [if_neg e1, if_neg e2]
      · have e1 : ¬ (B0 ≤ x ∧ x - B0 < p ∧ st / 2 ^ (x - B0) % 2 = 1) := fun h => hbit h.2.2
        have e2 : ¬ (B0 ≤ x ∧ x - B0 < p + c.nbTo ∧ st / 2 ^ (x - B0) % 2 = 1) := fun h => hbit h.2.2
        rw [if_neg e1, if_neg e2]

/-- **The sub-word writes of a wide write are the masked write of the wide word** (no address wrap inside it). -/
theorem wideWr_eq_writeWord (m : Mem) (a st d : Nat) (hn : 0 < c.nbTo) (hw : NoWrap c a) :
    DownW.wideWr c m a st d = m.writeWord c.nbFrom (a / c.nbFrom) st d := by
  funext x
  unfold DownW.wideWr
  rw [subWrites_apply c a d st m x hn hw c.ratio (Nat.le_refl _), writeWord_apply]
  rfl

/-- Sufficient for `NoWrap`: the wide word size divides the address space and the address is in range. -/
theorem noWrap_of_dvd (a : Nat) (hd : c.nbFrom ∣ 2 ^ c.abits) (hN : 0 < c.nbFrom) (ha : a < 2 ^ c.abits) :
    NoWrap c a := by
  unfold NoWrap
  obtain ⟨q, hq⟩ := hd
  rw [hq] at ha ⊢
  have h1 : a / c.nbFrom < q := by
    rw [Nat.div_lt_iff_lt_mul hN, Nat.mul_comm]; exact ha
  have h2 : (a / c.nbFrom + 1) * c.nbFrom ≤ q * c.nbFrom := Nat.mul_le_mul_right _ h1
  rw [Nat.add_mul, Nat.one_mul, Nat.mul_comm q] at h2
  exact h2

/-! ### reads -/

theorem readBytes_add (m : Mem) (base n p : Nat) :
    m.readBytes base (n + p) = m.readBytes base n ++ m.readBytes (base + n) p := by
  unfold Mem.readBytes
  rw [List.range_add, List.map_append, List.map_map]
  congr 1
  apply List.map_congr_left
  intro i _
  simp [Nat.add_assoc]

theorem bytesWord_append (l1 l2 : List Byte) :
    bytesWord (l1 ++ l2) = bytesWord l1 + 256 ^ l1.length * bytesWord l2 := by
  induction l1 with
  | nil => simp [bytesWord]
  | cons b bs ih =>
    simp only [List.cons_append, bytesWord, ih, List.length_cons, Nat.pow_succ]
    rw [Nat.mul_add, Nat.add_assoc, ← Nat.mul_assoc, Nat.mul_comm 256 (256 ^ bs.length)]

theorem bytesWord_lt (l : List Byte) : bytesWord l < 256 ^ l.length := by
  induction l with
  | nil => simp [bytesWord]
  | cons b bs ih =>
    simp only [bytesWord, List.length_cons, Nat.pow_succ]
    have : b % 256 < 256 := Nat.mod_lt _ (by decide)
    omega

theorem pack_eq (m : Mem) (a : Nat) (hn : 0 < c.nbTo) (hw : NoWrap c a) :
    ∀ k, k ≤ c.ratio →
      DownR.pack c (DownR.subWord c m a) k = bytesWord (m.readBytes (a / c.nbFrom * c.nbFrom) (k * c.nbTo)) := by
  intro k
  induction k with
  | zero => intro _; simp [DownR.pack, Mem.readBytes, bytesWord]
  | succ k ih =>
    intro hk
    rw [DownR.pack, ih (by omega), Nat.succ_mul, readBytes_add, bytesWord_append, Mem.readBytes_length]
    have hsub : DownR.subWord c m a k =
        bytesWord (m.readBytes (a / c.nbFrom * c.nbFrom + k * c.nbTo) c.nbTo) := by
      unfold DownR.subWord Mem.readWord
      rw [subIdx_eq c a k hn hw (by omega)]
    have hlt : DownR.subWord c m a k < 256 ^ c.nbTo := by
      rw [hsub]
      have := bytesWord_lt (m.readBytes (a / c.nbFrom * c.nbFrom + k * c.nbTo) c.nbTo)
      rwa [Mem.readBytes_length] at this
    rw [Nat.mod_eq_of_lt hlt, hsub, ← Nat.pow_mul, Nat.mul_comm c.nbTo k, Nat.mul_comm (bytesWord _) _]

/-- **The wide word assembled from the narrow words is the word of the flat byte memory.** -/
theorem wideRd_eq_readWord (m : Mem) (a : Nat) (hn : 0 < c.nbTo) (hw : NoWrap c a) :
    DownR.wideRd c m a = m.readWord c.nbFrom (a / c.nbFrom) := by
  unfold DownR.wideRd Mem.readWord
  rw [pack_eq c m a hn hw c.ratio (Nat.le_refl _)]
  rfl

end Litex.Bridge.Bytes
