import LitexModel.Bridge.Closed
/-
  Proofs for the AXI-Lite up-converter: the lane latch holds the lane of the open transaction (serial masters).
-/
namespace Litex.Bridge.Up
open Litex Litex.Bridge

variable (c : UpCfg)

def OInv (s : OSys) : Prop :=
  (∀ a, s.g.pendAW = some a → s.g.pendW = none → s.br.wrWordR = c.laneOf a) ∧
  (∀ a, s.g.pendAR = some a → s.br.rdWordR = c.laneOf a)

/-- Write data sits in the lane group of its own address; read data is taken from the lane group of the pending
    read's address. -/
def OGood (s : OSys) (i : AxlM × AxlS) : Prop :=
  (i.1.wvalid = true → ∀ a, curWrite s.g i.1 = some a →
     (toSlave c s.br i.1).wstrb = i.1.wstrb * 2 ^ (c.laneOf a * c.nbFrom) ∧
     (toSlave c s.br i.1).wdata = i.1.wdata * 256 ^ (c.laneOf a * c.nbFrom)) ∧
  (∀ a, s.g.pendAR = some a →
     (toMaster c s.br i.1 i.2).rdata = i.2.rdata / 256 ^ (c.laneOf a * c.nbFrom) % 256 ^ c.nbFrom)

theorem ostep (s : OSys) (i : AxlM × AxlS) (hinv : OInv c s) (hok : serial s.g i.1) :
    OGood c s i ∧ OInv c ((osys c).next s i) := by
  obtain ⟨⟨wrWordR, rdWordR⟩, ⟨heldAW, heldW, heldAR, heldB, heldR, pendAW, pendW, pendAR, ref⟩⟩ := s
  obtain ⟨⟨awvalid, awaddr, wvalid, wdata, wstrb, bready, arvalid, araddr, rready⟩,
    ⟨awready, wready, bvalid, bresp, arready, rvalid, rresp, rdata⟩⟩ := i
  simp only [OInv, OGood, osys, serial, curWrite, toSlave, toMaster, next, wrWord, rdWord, AxlGhost.next] at hinv hok ⊢
  obtain ⟨hw, hr⟩ := hinv
  obtain ⟨h1, h2, h3⟩ := hok
  cases awvalid <;> cases arvalid <;> cases wvalid <;> cases awready <;> cases wready <;> cases arready <;>
    cases pendAW <;> cases pendW <;> cases pendAR <;> simp_all

end Litex.Bridge.Up
