import LitexModel.Bridge.Closed
/-
  Proofs for AXI2AXILite: read bursts are fully answered with `last` on the final beat when the AXI-Lite partner
  answers reads one at a time.
-/
namespace Litex.Bridge.Axi2Axl
open Litex Litex.Bridge Litex.Axi

variable (aw : Nat)

theorem b2bNext_count (caps : Caps) (s : B2BState) (i : B2BIn) :
    (b2bNext caps aw s i).count =
      if (i.valid || !b2bFirst s) && i.ready then (if b2bLast s i.req then 0 else (s.count + 1) % 256) else s.count := by
  unfold b2bNext b2bNextCore
  split <;> rfl

def RInv (s : RSys) : Prop :=
  s.br.st ≠ .write ∧ s.br.st ≠ .writeResp ∧
  (s.br.st = .idle → s.br.bufValid = false ∧ s.br.b2b.count = 0) ∧
  (s.br.st = .read →
    s.br.bufReq.len < 256 ∧ s.br.bufValid = true ∧ s.br.b2b.count ≤ s.br.bufReq.len ∧
    s.arCnt = s.br.b2b.count + (if s.br.cmdDone then 1 else 0) ∧
    (s.br.cmdDone = true → s.br.b2b.count = s.br.bufReq.len) ∧
    s.rCnt ≤ s.arCnt ∧ s.arCnt ≤ s.rCnt + 1)

/-- In READ, a beat presented to the AXI master is marked `last` exactly when it is beat number `len + 1`, and
    it carries the id of the burst. -/
def RGood (s : RSys) (i : AxiM × AxlS) : Prop :=
  s.br.st = .read → (toMaster aw s.br i.1 i.2).rvalid = true →
    ((toMaster aw s.br i.1 i.2).rlast = true ↔ s.rCnt = s.br.bufReq.len) ∧
    s.rCnt ≤ s.br.bufReq.len ∧ (toMaster aw s.br i.1 i.2).rid = s.br.bufReq.id

theorem rstep (s : RSys) (i : AxiM × AxlS) (hinv : RInv s) (hok : singleOutstanding s i)
    (hnw : i.1.awvalid = false) : RGood aw s i ∧ RInv ((rsys aw).next s i) := by
  obtain ⟨⟨st, cmdDone, last, bufValid, bufReq, ⟨count, offset⟩⟩, arCnt, rCnt⟩ := s
  obtain ⟨⟨awvalid, awr, wvalid, wdata, wstrb, wlast, bready, arvalid, arr, rready⟩,
    ⟨oawready, owready, bvalid, bresp, oarready, rvalid, rresp, rdata⟩⟩ := i
  simp only at hnw
  subst hnw
  obtain ⟨h1, h2, h3, h4⟩ := hinv
  obtain ⟨p1, p2, p3, p4⟩ := hok
  simp only at h1 h2 h3 h4 p1 p2 p3 p4
  cases st
  case write => exact absurd rfl h1
  case writeResp => exact absurd rfl h2
  case idle =>
    obtain ⟨hb, hcnt⟩ := h3 rfl
    subst hb hcnt
    cases arvalid <;> cases last <;>
      simp [RInv, RGood, rsys, next, toMaster, toSlave, chooseR, chooseW, bufSinkReady, beatReady, b2bIn,
        b2bNext_count, b2bFirst, b2bLast, p3]
  case read =>
    obtain ⟨hlen, hb, hc, hac, hcd, hra, har⟩ := h4 rfl
    subst hb
    by_cases hl : count = bufReq.len
    · -- the beat generator sits on the last beat
      subst hl
      cases cmdDone <;> cases oarready <;> cases rvalid <;> cases rready <;>
        simp [RInv, RGood, rsys, next, toMaster, toSlave, chooseR, chooseW, bufSinkReady, beatReady, beatValid, beat,
          b2bIn, b2bOut, b2bNext_count, b2bFirst, b2bLast, respOkay] at hac p1 p2 hra har ⊢ <;> omega
    · have hlt : count + 1 ≤ bufReq.len := by omega
      have hmod : (count + 1) % 256 = count + 1 := Nat.mod_eq_of_lt (by omega)
      have hcd' : cmdDone = false := by
        cases cmdDone
        · rfl
        · exact absurd (hcd rfl) hl
      subst hcd'
      cases oarready <;> cases rvalid <;> cases rready <;>
        simp [RInv, RGood, rsys, next, toMaster, toSlave, chooseR, chooseW, bufSinkReady, beatReady, beatValid, beat,
          b2bIn, b2bOut, b2bNext_count, b2bFirst, b2bLast, respOkay, hl, hmod] at hac p1 p2 hra har ⊢ <;> omega

/-! ### read and write bursts together -/

def BInv (s : BSys) : Prop :=
  (s.br.st = .idle → s.br.bufValid = false ∧ s.br.b2b.count = 0) ∧
  (s.br.st = .read →
    s.br.bufReq.len < 256 ∧ s.br.bufValid = true ∧ s.br.b2b.count ≤ s.br.bufReq.len ∧
    s.arCnt = s.br.b2b.count + (if s.br.cmdDone then 1 else 0) ∧
    (s.br.cmdDone = true → s.br.b2b.count = s.br.bufReq.len) ∧
    s.rCnt ≤ s.arCnt ∧ s.arCnt ≤ s.rCnt + 1) ∧
  (s.br.st = .write →
    s.br.bufReq.len < 256 ∧ s.br.bufValid = true ∧ s.br.b2b.count ≤ s.br.bufReq.len ∧
    s.awCnt = s.br.b2b.count + (if s.br.cmdDone then 1 else 0) ∧
    (s.br.cmdDone = true → s.br.b2b.count = s.br.bufReq.len) ∧
    s.wCnt ≤ s.awCnt ∧ s.wCnt ≤ s.br.bufReq.len) ∧
  (s.br.st = .writeResp →
    s.br.bufReq.len < 256 ∧ s.br.bufValid = true ∧ s.br.b2b.count = s.br.bufReq.len ∧
    s.awCnt = s.br.bufReq.len + 1 ∧ s.wCnt = s.br.bufReq.len + 1)

/-- Read beats: `last` exactly on beat `len + 1`, id of the burst.  Write bursts: in WRITE never more W beats than
    AWs and never more AWs than `len + 1`; B (WRITE-RESP) only after exactly `len + 1` AWs and `len + 1` W beats,
    with the id of the burst. -/
def BGood (s : BSys) (i : AxiM × AxlS) : Prop :=
  (s.br.st = .read → (toMaster aw s.br i.1 i.2).rvalid = true →
    ((toMaster aw s.br i.1 i.2).rlast = true ↔ s.rCnt = s.br.bufReq.len) ∧
    s.rCnt ≤ s.br.bufReq.len ∧ (toMaster aw s.br i.1 i.2).rid = s.br.bufReq.id) ∧
  (s.br.st = .write → s.wCnt ≤ s.awCnt ∧ s.awCnt ≤ s.br.bufReq.len + 1 ∧ (toMaster aw s.br i.1 i.2).bvalid = false) ∧
  ((toMaster aw s.br i.1 i.2).bvalid = true →
    s.awCnt = s.br.bufReq.len + 1 ∧ s.wCnt = s.br.bufReq.len + 1 ∧ (toMaster aw s.br i.1 i.2).bid = s.br.bufReq.id)

set_option maxHeartbeats 1600000 in
theorem bstep_idle (s : BSys) (i : AxiM × AxlS) (hinv : BInv s) (hok : wellBehaved s i) (hst : s.br.st = .idle) :
    BGood aw s i ∧ BInv ((bsys aw).next s i) := by
  obtain ⟨⟨st, cmdDone, last, bufValid, bufReq, ⟨count, offset⟩⟩, arCnt, rCnt, awCnt, wCnt⟩ := s
  obtain ⟨⟨awvalid, awr, wvalid, wdata, wstrb, wlast, bready, arvalid, arr, rready⟩,
    ⟨oawready, owready, bvalid, bresp, oarready, rvalid, rresp, rdata⟩⟩ := i
  simp only at hst
  subst hst
  obtain ⟨h1, h2, h3, h4⟩ := hinv
  obtain ⟨p1, p2, p3, p4, p5, p6⟩ := hok
  simp only at h1 h2 h3 h4 p1 p2 p3 p4 p5 p6
  obtain ⟨hb, hcnt⟩ := h1 trivial
  subst hb hcnt
  cases arvalid <;> cases awvalid <;> cases last <;>
    simp [BInv, BGood, bsys, next, toMaster, toSlave, chooseR, chooseW, bufSinkReady, beatReady, b2bIn,
      b2bNext_count, b2bFirst, p5, p6, AxiS.idle]

set_option maxHeartbeats 1600000 in
theorem bstep_read (s : BSys) (i : AxiM × AxlS) (hinv : BInv s) (hok : wellBehaved s i) (hst : s.br.st = .read) :
    BGood aw s i ∧ BInv ((bsys aw).next s i) := by
  obtain ⟨⟨st, cmdDone, last, bufValid, bufReq, ⟨count, offset⟩⟩, arCnt, rCnt, awCnt, wCnt⟩ := s
  obtain ⟨⟨awvalid, awr, wvalid, wdata, wstrb, wlast, bready, arvalid, arr, rready⟩,
    ⟨oawready, owready, bvalid, bresp, oarready, rvalid, rresp, rdata⟩⟩ := i
  simp only at hst
  subst hst
  obtain ⟨h1, h2, h3, h4⟩ := hinv
  obtain ⟨p1, p2, p3, p4, p5, p6⟩ := hok
  simp only at h1 h2 h3 h4 p1 p2 p3 p4 p5 p6
  obtain ⟨hlen, hb, hc, hac, hcd, hra, har⟩ := h2 trivial
  subst hb
  by_cases hl : count = bufReq.len
  · subst hl
    cases cmdDone <;> cases oarready <;> cases rvalid <;> cases rready <;>
      simp [BInv, BGood, bsys, next, toMaster, toSlave, chooseR, chooseW, bufSinkReady, beatReady, beatValid, beat,
        b2bIn, b2bOut, b2bNext_count, b2bFirst, b2bLast, respOkay, AxiS.idle, AxlM.idle] at hac p1 p2 hra har ⊢ <;> omega
  · have hlt : count + 1 ≤ bufReq.len := by omega
    have hmod : (count + 1) % 256 = count + 1 := Nat.mod_eq_of_lt (by omega)
    have hcd' : cmdDone = false := by
      cases cmdDone
      · rfl
      · exact absurd (hcd rfl) hl
    subst hcd'
    cases oarready <;> cases rvalid <;> cases rready <;>
      simp [BInv, BGood, bsys, next, toMaster, toSlave, chooseR, chooseW, bufSinkReady, beatReady, beatValid, beat,
        b2bIn, b2bOut, b2bNext_count, b2bFirst, b2bLast, respOkay, AxiS.idle, AxlM.idle, hl, hmod] at hac p1 p2 hra har ⊢ <;> omega

set_option maxHeartbeats 1600000 in
theorem bstep_write (s : BSys) (i : AxiM × AxlS) (hinv : BInv s) (hok : wellBehaved s i) (hst : s.br.st = .write) :
    BGood aw s i ∧ BInv ((bsys aw).next s i) := by
  obtain ⟨⟨st, cmdDone, last, bufValid, bufReq, ⟨count, offset⟩⟩, arCnt, rCnt, awCnt, wCnt⟩ := s
  obtain ⟨⟨awvalid, awr, wvalid, wdata, wstrb, wlast, bready, arvalid, arr, rready⟩,
    ⟨oawready, owready, bvalid, bresp, oarready, rvalid, rresp, rdata⟩⟩ := i
  simp only at hst
  subst hst
  obtain ⟨h1, h2, h3, h4⟩ := hinv
  obtain ⟨p1, p2, p3, p4, p5, p6⟩ := hok
  simp only at h1 h2 h3 h4 p1 p2 p3 p4 p5 p6
  obtain ⟨hlen, hb, hc, hac, hcd, hwa, hwl⟩ := h3 trivial
  subst hb
  have p4' := p4 trivial
  by_cases hl : count = bufReq.len
  · subst hl
    cases cmdDone <;> cases oawready <;> cases wvalid <;> cases owready <;> cases wlast <;>
      simp [BInv, BGood, bsys, next, toMaster, toSlave, chooseR, chooseW, bufSinkReady, beatReady, beatValid, beat,
        b2bIn, b2bOut, b2bNext_count, b2bFirst, b2bLast, respOkay, AxiS.idle, AxlM.idle] at hac p3 p4' hwa hwl ⊢ <;> omega
  · have hlt : count + 1 ≤ bufReq.len := by omega
    have hmod : (count + 1) % 256 = count + 1 := Nat.mod_eq_of_lt (by omega)
    have hcd' : cmdDone = false := by
      cases cmdDone
      · rfl
      · exact absurd (hcd rfl) hl
    subst hcd'
    cases oawready <;> cases wvalid <;> cases owready <;> cases wlast <;>
      simp [BInv, BGood, bsys, next, toMaster, toSlave, chooseR, chooseW, bufSinkReady, beatReady, beatValid, beat,
        b2bIn, b2bOut, b2bNext_count, b2bFirst, b2bLast, respOkay, AxiS.idle, AxlM.idle, hl, hmod] at hac p3 p4' hwa hwl ⊢ <;> omega

set_option maxHeartbeats 1600000 in
theorem bstep_wresp (s : BSys) (i : AxiM × AxlS) (hinv : BInv s) (hok : wellBehaved s i) (hst : s.br.st = .writeResp) :
    BGood aw s i ∧ BInv ((bsys aw).next s i) := by
  obtain ⟨⟨st, cmdDone, last, bufValid, bufReq, ⟨count, offset⟩⟩, arCnt, rCnt, awCnt, wCnt⟩ := s
  obtain ⟨⟨awvalid, awr, wvalid, wdata, wstrb, wlast, bready, arvalid, arr, rready⟩,
    ⟨oawready, owready, bvalid, bresp, oarready, rvalid, rresp, rdata⟩⟩ := i
  simp only at hst
  subst hst
  obtain ⟨h1, h2, h3, h4⟩ := hinv
  obtain ⟨p1, p2, p3, p4, p5, p6⟩ := hok
  simp only at h1 h2 h3 h4 p1 p2 p3 p4 p5 p6
  obtain ⟨hlen, hb, hc, haw, hw⟩ := h4 trivial
  subst hb hc
  cases bready <;>
    simp [BInv, BGood, bsys, next, toMaster, toSlave, chooseR, chooseW, bufSinkReady, beatReady, beatValid, beat,
        b2bIn, b2bOut, b2bNext_count, b2bFirst, b2bLast, respOkay, AxiS.idle, AxlM.idle] at haw hw ⊢ <;> omega

theorem bstep (s : BSys) (i : AxiM × AxlS) (hinv : BInv s) (hok : wellBehaved s i) :
    BGood aw s i ∧ BInv ((bsys aw).next s i) := by
  rcases hst : s.br.st with _ | _ | _ | _
  · exact bstep_idle aw s i hinv hok hst
  · exact bstep_read aw s i hinv hok hst
  · exact bstep_write aw s i hinv hok hst
  · exact bstep_wresp aw s i hinv hok hst

end Litex.Bridge.Axi2Axl
