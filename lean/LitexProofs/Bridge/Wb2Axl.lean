import LitexModel.Bridge.Closed
/-
  Proofs for Wishbone2AXILite: invariant of the closed system (bridge ∥ AXI-Lite byte memory ∥ port observer)
  and of the open system with observers on both ports.
-/
namespace Litex.Bridge.Wb2Axl
open Litex Litex.Bridge

variable (c : W2ACfg) (nb : Nat)

def Inv (s : Sys) : Prop :=
  match s.br.st with
  | .idle  => s.p.awq = [] ∧ s.p.wq = [] ∧ s.p.bq = [] ∧ s.p.arq = [] ∧ s.p.rq = [] ∧ s.p.mem = s.g.ref
  | .error => False
  | .write =>
    s.p.arq = [] ∧ s.p.rq = [] ∧
    ∃ r, s.g.held = some r ∧ r.cyc = true ∧ r.stb = true ∧ r.we = true ∧
      ((s.p.bq = [] ∧ s.p.awq = (if s.br.cmdDone then [axAddr c r.adr] else []) ∧
          s.p.wq = (if s.br.dataDone then [(r.datw, r.sel)] else []) ∧ s.p.mem = s.g.ref) ∨
       (s.br.cmdDone = true ∧ s.br.dataDone = true ∧ s.p.awq = [] ∧ s.p.wq = [] ∧ s.p.bq = [respOkay] ∧
          s.p.mem = s.g.ref.writeWord nb (amap c nb r.adr) r.sel r.datw))
  | .read =>
    s.p.awq = [] ∧ s.p.wq = [] ∧ s.p.bq = [] ∧ s.p.mem = s.g.ref ∧
    ∃ r, s.g.held = some r ∧ r.cyc = true ∧ r.stb = true ∧ r.we = false ∧
      ((s.p.rq = [] ∧ s.p.arq = (if s.br.cmdDone then [axAddr c r.adr] else [])) ∨
       (s.br.cmdDone = true ∧ s.p.arq = [] ∧ s.p.rq = [(respOkay, s.g.ref.readWord nb (amap c nb r.adr))]))

def Good (s : Sys) (i : WbM × AxlOracle) : Prop :=
  s.g.memOk nb (amap c nb) i.1 (sysOut c s i).1 ∧ (s.br.st = .idle → s.p.mem = s.g.ref)

theorem step (s : Sys) (i : WbM × AxlOracle) (hinv : Inv c nb s) (hok : s.g.reqHeld i.1) :
    Good c nb s i ∧ Inv c nb ((sys c nb s.g.ref).next s i) := by
  obtain ⟨⟨st, cd, dd⟩, ⟨mem, awq, wq, bq, arq, rq, bheld, rheld⟩, ⟨held, ref⟩⟩ := s
  obtain ⟨m, ⟨awready, wready, arready, wexec, rexec, bgo, rgo⟩⟩ := i
  cases st <;>
    simp only [Inv, Good, sys, sysOut, toSlave, toMaster, next, AxlMem.out, AxlMem.next, WbGhost.next,
      WbGhost.memOk, WbGhost.reqHeld, AxlM.idle, WbS.idle, WbM.active] at hinv hok ⊢
  case idle =>
    obtain ⟨h1, h2, h3, h4, h5, h6⟩ := hinv
    subst h1 h2 h3 h4 h5 h6
    obtain ⟨cyc, stb, we, adr, sel, datw⟩ := m
    cases cyc <;> cases stb <;> cases we <;> simp_all
  case write =>
    obtain ⟨h1, h2, r, h3, h4, h5, h6, h7⟩ := hinv
    have hm := hok r h3
    subst hm h1 h2
    obtain ⟨cyc, stb, we, adr, sel, datw⟩ := m
    simp only at h4 h5 h6
    subst h4 h5 h6
    rcases h7 with ⟨h7, h8, h9, h10⟩ | ⟨h7, h8, h9, h10, h11, h12⟩
    · cases cd <;> cases dd <;> cases awready <;> cases wready <;> cases wexec <;> simp_all [amap]
    · cases bheld <;> cases bgo <;> simp_all [respOkay, amap]
  case read =>
    obtain ⟨h1, h2, h3, h4, r, h5, h6, h7, h8, h9⟩ := hinv
    have hm := hok r h5
    subst hm h1 h2 h3 h4
    obtain ⟨cyc, stb, we, adr, sel, datw⟩ := m
    simp only at h6 h7 h8
    subst h6 h7 h8
    rcases h9 with ⟨h9, h10⟩ | ⟨h9, h10, h11⟩
    · cases cd <;> cases arready <;> cases rexec <;> simp_all [amap]
    · cases rheld <;> cases rgo <;> simp_all [respOkay, amap]

/-! ### stability of the AXI-Lite requests, for an arbitrary AXI-Lite partner -/

def OInv (s : OSys) : Prop :=
  match s.br.st with
  | .idle  => s.h.heldAW = none ∧ s.h.heldW = none ∧ s.h.heldAR = none
  | .error => s.h.heldAW = none ∧ s.h.heldW = none ∧ s.h.heldAR = none
  | .write =>
    s.h.heldAR = none ∧ ∃ r, s.g.held = some r ∧ r.cyc = true ∧ r.stb = true ∧
      (s.h.heldAW = none ∨ (s.br.cmdDone = false ∧ s.h.heldAW = some (axAddr c r.adr))) ∧
      (s.h.heldW = none ∨ (s.br.dataDone = false ∧ s.h.heldW = some (r.datw, r.sel)))
  | .read =>
    s.h.heldAW = none ∧ s.h.heldW = none ∧ ∃ r, s.g.held = some r ∧ r.cyc = true ∧ r.stb = true ∧
      (s.h.heldAR = none ∨ (s.br.cmdDone = false ∧ s.h.heldAR = some (axAddr c r.adr)))

theorem ostep (s : OSys) (i : WbM × AxlS) (hinv : OInv c s) (hok : s.g.reqHeld i.1) :
    s.h.reqHeld (toSlave c s.br i.1) ∧ OInv c ((osys c).next s i) := by
  obtain ⟨⟨st, cd, dd⟩, ⟨held, ref⟩, ⟨heldAW, heldW, heldAR, heldB, heldR, pendAW, pendW, pendAR, ref2⟩⟩ := s
  obtain ⟨m, ⟨awready, wready, bvalid, bresp, arready, rvalid, rresp, rdata⟩⟩ := i
  cases st <;>
    simp only [OInv, osys, toSlave, toMaster, next, AxlGhost.next, WbGhost.next, WbGhost.reqHeld,
      AxlGhost.reqHeld, AxlM.idle, WbS.idle, WbM.active] at hinv hok ⊢
  case idle =>
    obtain ⟨cyc, stb, we, adr, sel, datw⟩ := m
    cases cyc <;> cases stb <;> cases we <;> simp_all
  case error => simp_all
  case write =>
    obtain ⟨h1, r, h2, h3, h4, h5, h6⟩ := hinv
    have hm := hok r h2
    subst hm
    obtain ⟨cyc, stb, we, adr, sel, datw⟩ := m
    simp only at h3 h4
    subst h3 h4
    rcases h5 with h5 | ⟨h5, h5'⟩ <;> rcases h6 with h6 | ⟨h6, h6'⟩ <;>
      cases cd <;> cases dd <;> cases awready <;> cases wready <;> cases bvalid <;> simp_all <;>
      cases hb : bresp == respOkay <;> simp_all
  case read =>
    obtain ⟨h0, h1, r, h2, h3, h4, h5⟩ := hinv
    have hm := hok r h2
    subst hm
    obtain ⟨cyc, stb, we, adr, sel, datw⟩ := m
    simp only at h3 h4
    subst h3 h4
    rcases h5 with h5 | ⟨h5, h5'⟩ <;>
      cases cd <;> cases arready <;> cases rvalid <;> simp_all <;>
      cases hb : rresp == respOkay <;> simp_all

/-! ### error propagation (any partner) -/

theorem err_iff (s : W2AState) (m : WbM) (r : AxlS) :
    ((toMaster s m r).err = true ↔ s.st = .error) ∧ (s.st = .error → (toMaster s m r).ack = true) := by
  cases h : s.st <;> simp [toMaster, h, WbS.idle]

theorem err_write (s : W2AState) (m : WbM) (r : AxlS) (hs : s.st = .write)
    (hv : r.bvalid = true) (hr : (toSlave c s m).bready = true) :
    (r.bresp ≠ respOkay → (next s m r).st = .error ∧ (toMaster s m r).ack = false) ∧
    (r.bresp = respOkay → (next s m r).st = .idle ∧ (toMaster s m r).ack = true ∧ (toMaster s m r).err = false) := by
  simp [toSlave, hs] at hr
  constructor <;> intro hb <;> simp [next, toMaster, hs, hv, hr, hb]

theorem err_read (s : W2AState) (m : WbM) (r : AxlS) (hs : s.st = .read)
    (hv : r.rvalid = true) (hr : (toSlave c s m).rready = true) :
    (r.rresp ≠ respOkay → (next s m r).st = .error ∧ (toMaster s m r).ack = false) ∧
    (r.rresp = respOkay → (next s m r).st = .idle ∧ (toMaster s m r).ack = true ∧ (toMaster s m r).err = false ∧
       (toMaster s m r).datr = r.rdata) := by
  simp [toSlave, hs] at hr
  constructor <;> intro hb <;> simp [next, toMaster, hs, hv, hr, hb]

/-! ### the address subtraction is the byte-address subtraction, for every word size -/

theorem subTrunc_scale (k a b z : Nat) :
    ((a % k + (k - b % k)) % k) * z = ((a * z) % (k * z) + (k * z - (b * z) % (k * z))) % (k * z) := by
  rw [Nat.mul_comm a z, Nat.mul_comm b z, Nat.mul_comm k z, Nat.mul_mod_mul_left, Nat.mul_mod_mul_left,
    ← Nat.mul_sub, ← Nat.mul_add, Nat.mul_mod_mul_left, Nat.mul_comm]

theorem axAddr_correct (c : W2ACfg) (hb : c.base % 2 ^ c.shift = 0) (adr : Nat) :
    axAddr c adr = subTrunc (c.adrBits + c.shift) (adr * 2 ^ c.shift) c.base := by
  unfold axAddr subTrunc
  have h4 : c.base = c.base / 2 ^ c.shift * 2 ^ c.shift := by
    have := Nat.div_add_mod c.base (2 ^ c.shift)
    rw [hb, Nat.add_zero, Nat.mul_comm] at this
    exact this.symm
  have hp : 2 ^ (c.adrBits + c.shift) = 2 ^ c.adrBits * 2 ^ c.shift := by rw [Nat.pow_add]
  rw [hp]
  conv => rhs; rw [h4]
  exact subTrunc_scale (2 ^ c.adrBits) adr (c.base / 2 ^ c.shift) (2 ^ c.shift)

end Litex.Bridge.Wb2Axl
