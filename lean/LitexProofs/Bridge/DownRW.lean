import LitexModel.Bridge.ClosedRW
import LitexProofs.Bridge.Down
/-
  AXILiteDownConverter with reads and writes interleaved: the write half of the combined system is simulated by the
  write-path system of `LitexProofs/Bridge/Down.lean` (so its invariant and theorem carry over unchanged, whatever
  the read traffic does); the read half is re-proved against a memory that changes underneath it.
-/
namespace Litex.Machine
variable {ι σ ο ι' σ' ο' : Type}

/-- Transfer of an assume/guarantee statement along a simulation `f` (states) / `gi` (inputs). -/
theorem legal_map (M : Machine ι σ ο) (N : Machine ι' σ' ο') (f : σ → σ') (gi : ι → ι')
    (okM : σ → ι → Prop) (okN : σ' → ι' → Prop)
    (hnext : ∀ s i, f (M.next s i) = N.next (f s) (gi i)) (hok : ∀ s i, okM s i → okN (f s) (gi i)) :
    ∀ (ins : List ι) (s : σ), M.LegalFrom okM s ins → N.LegalFrom okN (f s) (ins.map gi) := by
  intro ins
  induction ins with
  | nil => intro s _; trivial
  | cons i is ih => intro s hl; exact ⟨hok s i hl.1, by rw [← hnext]; exact ih _ hl.2⟩

theorem always_map (M : Machine ι σ ο) (N : Machine ι' σ' ο') (f : σ → σ') (gi : ι → ι')
    (goodM : σ → ι → Prop) (goodN : σ' → ι' → Prop)
    (hnext : ∀ s i, f (M.next s i) = N.next (f s) (gi i)) (hgood : ∀ s i, goodN (f s) (gi i) → goodM s i) :
    ∀ (ins : List ι) (s : σ), N.AlwaysFrom goodN (f s) (ins.map gi) → M.AlwaysFrom goodM s ins := by
  intro ins
  induction ins with
  | nil => intro s _; trivial
  | cons i is ih => intro s ha; exact ⟨hgood s i ha.1, ih _ (by rw [hnext]; exact ha.2)⟩


/-- Executable form of `LegalFrom` for concrete runs (non-vacuity examples). -/
def legalB (M : Machine ι σ ο) (okb : σ → ι → Bool) : σ → List ι → Bool
  | _, [] => true
  | s, i :: is => okb s i && legalB M okb (M.next s i) is

theorem legal_of_legalB (M : Machine ι σ ο) (ok : σ → ι → Prop) (okb : σ → ι → Bool)
    (h : ∀ s i, okb s i = true → ok s i) : ∀ (ins : List ι) (s : σ), legalB M okb s ins = true → M.LegalFrom ok s ins := by
  intro ins
  induction ins with
  | nil => intro s _; trivial
  | cons i is ih =>
    intro s hb
    simp only [legalB, Bool.and_eq_true] at hb
    exact ⟨h s i hb.1, ih _ hb.2⟩

end Litex.Machine

namespace Litex.Bridge.Down
open Litex Litex.Bridge

variable (c : DownCfg)

theorem projW_next (mem0 : Mem) (s : Sys) (i : AxlM × AxlOracle) :
    projW ((sys c mem0).next s i) = (DownW.sys c mem0).next (projW s) (maskW i) := by
  obtain ⟨w, r, ⟨mem, awq, wq, bq, arq, rq, bheld, rheld⟩,
    ⟨heldAW, heldW, heldAR, heldB, heldR, pendAW, pendW, pendAR, ref⟩, old, snap⟩ := s
  obtain ⟨⟨awvalid, awaddr, wvalid, wdata, wstrb, bready, arvalid, araddr, rready⟩,
    ⟨oawready, owready, oarready, wexec, rexec, bgo, rgo⟩⟩ := i
  cases hst : w.st <;>
    simp [projW, maskW, sys, sysOut, DownW.sys, DownW.sysOut, toSlave, toMaster, DownW.toSlave, DownW.toMaster,
      DownW.next, DownW.nextFsm, DownW.reset, DownW.skip, DownW.subStrb, DownW.subData, DownW.lastWord, AxlMem.next,
      AxlMem.out, AxlGhost.next, hst, AxlM.idle, AxlS.idle]

/-! ### the partner memory always lies between the reference memory and the write in flight -/

/-- The partner memory is the reference memory with the first `j` sub-word writes of the wide write in flight
    applied (`j = 0`: equal to the reference memory). -/
def Window (mem : Mem) (g : AxlGhost Mem) : Prop :=
  ∃ j a d st, j ≤ c.ratio ∧ mem = DownW.subWrites c a d st j g.ref ∧
    (0 < j → (g.heldAW = some a ∧ g.heldW = some (d, st)) ∨ (g.pendAW = some a ∧ g.pendW = some (d, st)))

theorem window_of_inv (s : DownW.Sys) (h : DownW.Inv c s) : Window c s.p.mem s.g := by
  obtain ⟨br, p, g⟩ := s
  obtain ⟨_, _, _, _, _, h⟩ := h
  simp only at h
  cases hst : br.st <;> simp only [hst] at h
  · exact ⟨0, 0, 0, 0, Nat.zero_le _, h.2.2.2.2.2.1, fun hj => absurd hj (Nat.lt_irrefl 0)⟩
  · obtain ⟨hc, _, _, _, _, a, w, hA, hW, hm, _⟩ := h
    exact ⟨br.counter, a, w.1, w.2, Nat.le_of_lt hc, hm, fun _ => Or.inl ⟨hA, hW⟩⟩
  · obtain ⟨hc, _, _, _, a, w, hA, hW, _, hp⟩ := h
    rcases hp with ⟨_, _, _, hm⟩ | ⟨_, _, _, hm⟩
    · exact ⟨br.counter, a, w.1, w.2, Nat.le_of_lt hc, hm, fun _ => Or.inl ⟨hA, hW⟩⟩
    · exact ⟨br.counter + 1, a, w.1, w.2, hc, hm, fun _ => Or.inl ⟨hA, hW⟩⟩
  · obtain ⟨_, _, _, _, a, w, hA, hW, hm⟩ := h
    exact ⟨c.ratio, a, w.1, w.2, Nat.le_refl _, hm, fun _ => Or.inr ⟨hA, hW⟩⟩

/-! ### read half against a memory that changes underneath -/

theorem pack_congr (f g : Nat → Nat) : ∀ k, (∀ j, j < k → f j = g j) → DownR.pack c f k = DownR.pack c g k := by
  intro k
  induction k with
  | zero => intro _; rfl
  | succ k ih =>
    intro h
    simp only [DownR.pack]
    rw [ih (fun j hj => h j (Nat.lt_succ_of_lt hj)), h k (Nat.lt_succ_self k)]

theorem pack_snap_update (snap : Nat → Mem) (a n j : Nat) (v : Mem) (hj : j ≤ n) :
    DownR.pack c (snapWord c (fun k => if k = n then v else snap k) a) j = DownR.pack c (snapWord c snap a) j := by
  apply pack_congr
  intro i hi
  have : i ≠ n := by omega
  simp [snapWord, this]

theorem snapWord_update_self (snap : Nat → Mem) (a n : Nat) (v : Mem) :
    snapWord c (fun k => if k = n then v else snap k) a n = v.readWord c.nbTo (c.subAddr a n / c.nbTo) := by
  simp [snapWord, DownR.subWord]

/-- `r_data` after the narrow words `0 … k-1` of the wide word at `a` have been shifted in. -/
def partial_ (s : Sys) (a k : Nat) : Prop :=
  s.r.rData = s.old / (256 ^ c.nbTo) ^ k + DownR.pack c (snapWord c s.snap a) k * (256 ^ c.nbTo) ^ (c.ratio - k)

def RInv (s : Sys) : Prop :=
  s.r.resp = respOkay ∧ s.r.rData < (256 ^ c.nbTo) ^ c.ratio ∧
  match s.r.st with
  | .idle => s.p.arq = [] ∧ s.p.rq = [] ∧ s.g.pendAR = none ∧ s.g.heldR = none
  | .convert =>
    s.r.counter < c.ratio ∧ s.p.arq = [] ∧ s.p.rq = [] ∧ s.g.pendAR = none ∧ s.g.heldR = none ∧
    s.old < (256 ^ c.nbTo) ^ c.ratio ∧ ∃ a, s.g.heldAR = some a ∧ partial_ c s a s.r.counter
  | .respSlave =>
    s.r.counter < c.ratio ∧ s.g.pendAR = none ∧ s.g.heldR = none ∧ s.old < (256 ^ c.nbTo) ^ c.ratio ∧
    ∃ a, s.g.heldAR = some a ∧ partial_ c s a s.r.counter ∧
      ((s.p.arq = [c.subAddr a s.r.counter] ∧ s.p.rq = []) ∨
       (s.p.arq = [] ∧ s.p.rq = [(respOkay, snapWord c s.snap a s.r.counter)]))
  | .respMaster =>
    s.r.counter + 1 = c.ratio ∧ s.p.arq = [] ∧ s.p.rheld = true ∧ s.old < (256 ^ c.nbTo) ^ c.ratio ∧
    ∃ a, s.g.pendAR = some a ∧ partial_ c s a s.r.counter ∧
      s.p.rq = [(respOkay, snapWord c s.snap a s.r.counter)] ∧
      (s.g.heldR = none ∨ s.g.heldR = some (respOkay, DownR.pack c (snapWord c s.snap a) c.ratio))

def RGood (s : Sys) (i : AxlM × AxlOracle) : Prop :=
  (∀ r, s.g.heldR = some r → (sysOut c s i).1.rvalid = true ∧ ((sysOut c s i).1.rresp, (sysOut c s i).1.rdata) = r) ∧
  ((sysOut c s i).1.rvalid = true →
     ∃ a, s.g.pendAR = some a ∧ (sysOut c s i).1.rresp = respOkay ∧
       (sysOut c s i).1.rdata = DownR.pack c (snapWord c s.snap a) c.ratio) ∧
  (i.1.arvalid = true → (sysOut c s i).1.arready = true → s.g.pendAR = none)

set_option maxHeartbeats 1000000 in
theorem rstep_a (hr : 0 < c.ratio) (s : Sys) (i : AxlM × AxlOracle) (hinv : RInv c s) (hok : s.g.reqHeld i.1)
    (hst : s.r.st = .idle ∨ s.r.st = .convert) : RGood c s i ∧ RInv c ((sys c s.g.ref).next s i) := by
  obtain ⟨w, ⟨st, counter, resp, rData⟩, ⟨mem, awq, wq, bq, arq, rq, bheld, rheld⟩,
    ⟨heldAW, heldW, heldAR, heldB, heldR, pendAW, pendW, pendAR, ref⟩, old, snap⟩ := s
  obtain ⟨⟨awvalid, awaddr, wvalid, wdata, wstrb, bready, arvalid, araddr, rready⟩,
    ⟨oawready, owready, oarready, wexec, rexec, bgo, rgo⟩⟩ := i
  obtain ⟨h1, h2, hinv⟩ := hinv
  simp only at h1 h2 hst
  subst h1
  simp only [AxlGhost.reqHeld] at hok
  have hB : 0 < 256 ^ c.nbTo := Nat.pow_pos (by decide)
  rcases hst with rfl | rfl
  · simp only at hinv
    obtain ⟨g1, g2, g3, g4⟩ := hinv
    subst g1 g2 g3 g4
    cases arvalid <;>
      simp [RInv, RGood, partial_, DownR.pack, sys, sysOut, toSlave, toMaster, DownR.toSlave, DownR.toMaster,
        DownR.next, DownR.nextFsm, DownR.reset, DownR.init, AxlMem.out, AxlMem.next, AxlGhost.next, AxlS.idle,
        AxlM.idle, hr, h2]
  · simp only at hinv
    obtain ⟨g1, g2, g3, g4, g5, g6, a, g7, g8⟩ := hinv
    subst g2 g3 g4 g5
    obtain ⟨hav, rfl⟩ := hok.2.2 a g7
    subst hav
    simp only [partial_] at g8
    cases oarready <;>
      simp [RInv, RGood, partial_, sys, sysOut, toSlave, toMaster, DownR.toSlave, DownR.toMaster, DownR.next,
        DownR.nextFsm, DownR.reset, DownR.init, AxlMem.out, AxlMem.next, AxlGhost.next, AxlS.idle, AxlM.idle, g1, g6,
        h2, g8.symm]

set_option maxHeartbeats 1000000 in
theorem rstep_b (hr : 0 < c.ratio) (s : Sys) (i : AxlM × AxlOracle) (hinv : RInv c s) (hok : s.g.reqHeld i.1)
    (hst : s.r.st = .respSlave) : RGood c s i ∧ RInv c ((sys c s.g.ref).next s i) := by
  obtain ⟨w, ⟨st, counter, resp, rData⟩, ⟨mem, awq, wq, bq, arq, rq, bheld, rheld⟩,
    ⟨heldAW, heldW, heldAR, heldB, heldR, pendAW, pendW, pendAR, ref⟩, old, snap⟩ := s
  obtain ⟨⟨awvalid, awaddr, wvalid, wdata, wstrb, bready, arvalid, araddr, rready⟩,
    ⟨oawready, owready, oarready, wexec, rexec, bgo, rgo⟩⟩ := i
  obtain ⟨h1, h2, hinv⟩ := hinv
  simp only at h1 h2 hst
  subst h1 hst
  simp only [AxlGhost.reqHeld] at hok
  have hB : 0 < 256 ^ c.nbTo := Nat.pow_pos (by decide)
  simp only at hinv
  obtain ⟨g1, g3, g4, g6, a, g7, g8, g9⟩ := hinv
  subst g3 g4
  obtain ⟨hav, rfl⟩ := hok.2.2 a g7
  subst hav
  simp only [partial_] at g8
  rcases g9 with ⟨q1, q2⟩ | ⟨q1, q2⟩
  · subst q1 q2
    have hpu := pack_snap_update c snap araddr counter counter mem (Nat.le_refl _)
    have hsu := snapWord_update_self c snap araddr counter mem
    cases rexec <;>
      simp [RInv, RGood, partial_, sys, sysOut, toSlave, toMaster, DownR.toSlave, DownR.toMaster, DownR.next,
        DownR.nextFsm, DownR.reset, DownR.init, AxlMem.out, AxlMem.next, AxlGhost.next, AxlS.idle, AxlM.idle, g1, g6,
        h2, g8.symm, respOkay, hpu, hsu]
  · subst q1 q2
    by_cases hl : counter = c.ratio - 1
    · have hk : counter + 1 = c.ratio := by omega
      have hl' : c.ratio - 1 = counter := hl.symm
      cases rheld <;> cases rgo <;>
        simp [RInv, RGood, partial_, sys, sysOut, toSlave, toMaster, DownR.toSlave, DownR.toMaster, DownR.next,
          DownR.nextFsm, DownR.reset, DownR.init, DownR.lastWord, AxlMem.out, AxlMem.next, AxlGhost.next, AxlS.idle,
          AxlM.idle, g1, g6, h2, g8.symm, respOkay, hl', hk]
    · have hk : counter + 1 < c.ratio := by omega
      have hp : 256 ^ ((c.ratio - 1) * c.nbTo) = (256 ^ c.nbTo) ^ (c.ratio - 1) := Nat.pow_mul' _ _ _
      have hmod : (counter + 1) % c.ratio = counter + 1 := Nat.mod_eq_of_lt hk
      have hw : snapWord c snap araddr counter % 256 ^ c.nbTo < 256 ^ c.nbTo := Nat.mod_lt _ hB
      have hbound := DownR.shift_bound (256 ^ c.nbTo) rData (snapWord c snap araddr counter % 256 ^ c.nbTo) c.ratio hr h2 hw
      have hstep := DownR.shift_step (256 ^ c.nbTo) old (DownR.pack c (snapWord c snap araddr) counter)
        (snapWord c snap araddr counter % 256 ^ c.nbTo) c.ratio counter hB g1
      rw [← g8] at hstep
      have hbound' := hbound
      rw [hstep] at hbound'
      cases rheld <;> cases rgo <;>
        simp [RInv, RGood, partial_, DownR.pack, sys, sysOut, toSlave, toMaster, DownR.toSlave, DownR.toMaster,
          DownR.next, DownR.nextFsm, DownR.reset, DownR.init, DownR.lastWord, DownR.rdataOut, AxlMem.out, AxlMem.next,
          AxlGhost.next, AxlS.idle, AxlM.idle, g1, g6, h2, g8.symm, respOkay, hl, hk, hmod, hp, hbound', hstep]

set_option maxHeartbeats 1000000 in
theorem rstep_c (hr : 0 < c.ratio) (s : Sys) (i : AxlM × AxlOracle) (hinv : RInv c s) (_hok : s.g.reqHeld i.1)
    (hst : s.r.st = .respMaster) : RGood c s i ∧ RInv c ((sys c s.g.ref).next s i) := by
  obtain ⟨w, ⟨st, counter, resp, rData⟩, ⟨mem, awq, wq, bq, arq, rq, bheld, rheld⟩,
    ⟨heldAW, heldW, heldAR, heldB, heldR, pendAW, pendW, pendAR, ref⟩, old, snap⟩ := s
  obtain ⟨⟨awvalid, awaddr, wvalid, wdata, wstrb, bready, arvalid, araddr, rready⟩,
    ⟨oawready, owready, oarready, wexec, rexec, bgo, rgo⟩⟩ := i
  obtain ⟨h1, h2, hinv⟩ := hinv
  simp only at h1 h2 hst
  subst h1 hst
  have hB : 0 < 256 ^ c.nbTo := Nat.pow_pos (by decide)
  simp only at hinv
  obtain ⟨g1, g2, g5, g6, a, g7, g8, g9, g10⟩ := hinv
  subst g2 g5 g7 g9
  simp only [partial_] at g8
  have hp : 256 ^ ((c.ratio - 1) * c.nbTo) = (256 ^ c.nbTo) ^ (c.ratio - 1) := Nat.pow_mul' _ _ _
  have hw : snapWord c snap a counter % 256 ^ c.nbTo < 256 ^ c.nbTo := Nat.mod_lt _ hB
  have hbound := DownR.shift_bound (256 ^ c.nbTo) rData (snapWord c snap a counter % 256 ^ c.nbTo) c.ratio hr h2 hw
  have hfin := DownR.final_eq (256 ^ c.nbTo) old (DownR.pack c (snapWord c snap a) counter)
    (snapWord c snap a counter % 256 ^ c.nbTo) c.ratio counter rData hB g1 g6 g8
  have hwide : DownR.pack c (snapWord c snap a) c.ratio = DownR.pack c (snapWord c snap a) counter +
      snapWord c snap a counter % 256 ^ c.nbTo * (256 ^ c.nbTo) ^ counter := by
    simp [← g1, DownR.pack]
  rw [← hwide] at hfin
  have hbound' := hbound
  rw [hfin] at hbound'
  rcases g10 with g10 | g10 <;> subst g10 <;> cases rready <;>
    simp [RInv, RGood, sys, sysOut, toSlave, toMaster, DownR.toSlave, DownR.toMaster, DownR.next, DownR.nextFsm,
      DownR.reset, DownR.init, DownR.rdataOut, AxlMem.out, AxlMem.next, AxlGhost.next, AxlS.idle, AxlM.idle, respOkay,
      hp, hfin, hbound', h2, g1, g6, partial_, g8.symm]

theorem rstep (hr : 0 < c.ratio) (s : Sys) (i : AxlM × AxlOracle) (hinv : RInv c s) (hok : s.g.reqHeld i.1) :
    RGood c s i ∧ RInv c ((sys c s.g.ref).next s i) := by
  rcases hst : s.r.st with _ | _ | _ | _
  · exact rstep_a c hr s i hinv hok (Or.inl hst)
  · exact rstep_a c hr s i hinv hok (Or.inr hst)
  · exact rstep_b c hr s i hinv hok hst
  · exact rstep_c c hr s i hinv hok hst

/-- Executable form of `AxlGhost.reqHeld`. -/
def reqHeldB {ρ : Type} (g : AxlGhost ρ) (m : AxlM) : Bool :=
  (match g.heldAW with | some a => m.awvalid && m.awaddr == a | none => true) &&
  (match g.heldW with | some d => m.wvalid && (m.wdata, m.wstrb) == d | none => true) &&
  (match g.heldAR with | some a => m.arvalid && m.araddr == a | none => true)

theorem reqHeld_of_B {ρ : Type} (g : AxlGhost ρ) (m : AxlM) (h : reqHeldB g m = true) : g.reqHeld m := by
  obtain ⟨heldAW, heldW, heldAR, heldB, heldR, pendAW, pendW, pendAR, ref⟩ := g
  simp only [reqHeldB, Bool.and_eq_true] at h
  obtain ⟨⟨h1, h2⟩, h3⟩ := h
  refine ⟨fun a ha => ?_, fun d hd => ?_, fun a ha => ?_⟩
  · simp only at ha; subst ha; simpa using h1
  · simp only at hd; subst hd; simpa using h2
  · simp only at ha; subst ha; simpa using h3

/-! ### the combined system -/

def CInv (s : Sys) : Prop := DownW.Inv c (projW s) ∧ RInv c s

def CGood (s : Sys) (i : AxlM × AxlOracle) : Prop :=
  s.g.rspHeld (sysOut c s i).1 ∧
  ((sysOut c s i).1.bvalid = true → s.g.pendAW.isSome ∧ s.g.pendW.isSome ∧ (sysOut c s i).1.bresp = respOkay) ∧
  (i.1.awvalid = true → (sysOut c s i).1.awready = true → s.g.pendAW = none) ∧
  (i.1.wvalid = true → (sysOut c s i).1.wready = true → s.g.pendW = none) ∧
  (s.w.st = .idle → s.p.mem = s.g.ref) ∧
  Window c s.p.mem s.g ∧
  ((sysOut c s i).1.rvalid = true →
     ∃ a, s.g.pendAR = some a ∧ (sysOut c s i).1.rresp = respOkay ∧
       (sysOut c s i).1.rdata = DownR.pack c (snapWord c s.snap a) c.ratio) ∧
  (i.1.arvalid = true → (sysOut c s i).1.arready = true → s.g.pendAR = none)

theorem sysOut_w (s : Sys) (i : AxlM × AxlOracle) :
    (DownW.sysOut c (projW s) (maskW i)).1.awready = (sysOut c s i).1.awready ∧
    (DownW.sysOut c (projW s) (maskW i)).1.wready = (sysOut c s i).1.wready ∧
    (DownW.sysOut c (projW s) (maskW i)).1.bvalid = (sysOut c s i).1.bvalid ∧
    (DownW.sysOut c (projW s) (maskW i)).1.bresp = (sysOut c s i).1.bresp := by
  cases hst : s.w.st <;>
    simp [sysOut, DownW.sysOut, projW, maskW, toMaster, DownW.toMaster, AxlMem.out, DownW.skip, DownW.subStrb,
      DownW.lastWord, hst, AxlS.idle]

theorem cstep (hr : 0 < c.ratio) (s : Sys) (i : AxlM × AxlOracle) (hinv : CInv c s) (hok : s.g.reqHeld i.1) :
    CGood c s i ∧ CInv c ((sys c s.g.ref).next s i) := by
  have hokW : (projW s).g.reqHeld (maskW i).1 := by
    obtain ⟨h1, h2, _⟩ := hok
    exact ⟨h1, h2, fun a ha => by simp [projW] at ha⟩
  have hW := DownW.step c hr (projW s) (maskW i) hinv.1 hokW
  have hR := rstep c hr s i hinv.2 hok
  have hwin := window_of_inv c (projW s) hinv.1
  obtain ⟨e1, e2, e3, e4⟩ := sysOut_w c s i
  refine ⟨?_, ?_, hR.2⟩
  · obtain ⟨⟨wb, _⟩, wv, wa, ww, wm⟩ := hW.1
    obtain ⟨rh, rv, ra⟩ := hR.1
    rw [e3, e4] at wb wv
    rw [e1] at wa
    rw [e2] at ww
    exact ⟨⟨wb, rh⟩, wv, wa, ww, wm, hwin, rv, ra⟩
  · have h := projW_next c s.g.ref s i
    rw [h]
    exact hW.2

end Litex.Bridge.Down
