import LitexModel.Bridge.Closed
/-
  Down-converter against an ARBITRARY narrow partner: stability of everything it raises towards the slave and
  the sticky first error.
-/
namespace Litex.Bridge

theorem firstErr_append (l : List Nat) (x : Nat) :
    firstErr (l ++ [x]) = if firstErr l == respOkay && x != respOkay then x else firstErr l := by
  unfold firstErr
  rw [List.find?_append]
  cases h : l.find? (fun r => r != respOkay) with
  | some y =>
    have hy := List.find?_some h
    simp only [bne_iff_ne, ne_eq] at hy
    simp [hy]
  | none =>
    by_cases hx : x = 0 <;> simp [hx, respOkay]

theorem firstErr_nil : firstErr [] = respOkay := rfl

namespace DownW
variable (c : DownCfg)

def OInv (s : OSys) : Prop :=
  s.h.heldAR = none ∧
  match s.br.st with
  | .idle =>
    s.h.heldAW = none ∧ s.h.heldW = none ∧ s.g.heldB = none ∧ s.br.awReady = false ∧ s.br.wReady = false ∧ s.log = []
  | .convert =>
    s.g.heldB = none ∧ s.br.resp = firstErr s.log ∧
    ∃ a w, s.g.heldAW = some a ∧ s.g.heldW = some w ∧
      (s.h.heldAW = none ∨ (s.br.awReady = false ∧ (ss c w.2 s.br.counter == 0) = false ∧
                             s.h.heldAW = some (c.subAddr a s.br.counter))) ∧
      (s.h.heldW = none ∨ (s.br.wReady = false ∧ (ss c w.2 s.br.counter == 0) = false ∧
                            s.h.heldW = some (sd c w.1 s.br.counter, ss c w.2 s.br.counter)))
  | .respSlave =>
    s.h.heldAW = none ∧ s.h.heldW = none ∧ s.g.heldB = none ∧ s.br.resp = firstErr s.log ∧
    ∃ a w, s.g.heldAW = some a ∧ s.g.heldW = some w
  | .respMaster =>
    s.h.heldAW = none ∧ s.h.heldW = none ∧ s.br.resp = firstErr s.log ∧
    (s.g.heldB = none ∨ s.g.heldB = some s.br.resp)

/-- Narrow AW / W are repeated unchanged until accepted; the wide B is repeated until taken and carries the first
    non-OKAY narrow response of this write (OKAY if there was none). -/
def OGood (s : OSys) (i : AxlM × AxlS) : Prop :=
  s.h.reqHeld (toSlave c s.br i.1 i.2) ∧
  (∀ r, s.g.heldB = some r → (toMaster c s.br i.1 i.2).bvalid = true ∧ (toMaster c s.br i.1 i.2).bresp = r) ∧
  ((toMaster c s.br i.1 i.2).bvalid = true → (toMaster c s.br i.1 i.2).bresp = firstErr s.log)

theorem subStrb_eq' (s : DownWState) (m : AxlM) : subStrb c s m = ss c m.wstrb s.counter := rfl
theorem subData_eq' (s : DownWState) (m : AxlM) : subData c s m = sd c m.wdata s.counter := rfl

set_option maxHeartbeats 1000000 in
theorem ostep (s : OSys) (i : AxlM × AxlS) (hinv : OInv c s) (hok : s.g.reqHeld i.1) :
    OGood c s i ∧ OInv c ((osys c).next s i) := by
  obtain ⟨⟨st, counter, awReady, wReady, resp⟩,
    ⟨gAW, gW, gAR, gB, gR, gpAW, gpW, gpAR, gref⟩, ⟨hAW, hW, hAR, hB, hR, hpAW, hpW, hpAR, href⟩, log⟩ := s
  obtain ⟨⟨awvalid, awaddr, wvalid, wdata, wstrb, bready, arvalid, araddr, rready⟩,
    ⟨oawready, owready, bvalid, bresp, oarready, rvalid, rresp, rdata⟩⟩ := i
  obtain ⟨h0, hinv⟩ := hinv
  simp only at h0
  subst h0
  simp only [AxlGhost.reqHeld] at hok
  cases st
  case idle =>
    simp only at hinv
    obtain ⟨h1, h2, h3, h4, h5, h6⟩ := hinv
    subst h1 h2 h3 h4 h5 h6
    cases awvalid <;> cases wvalid <;>
      simp [OInv, OGood, osys, toSlave, toMaster, next, nextFsm, reset, init, AxlGhost.next, AxlGhost.reqHeld,
        AxlS.idle, AxlM.idle, firstErr_nil]
  case convert =>
    simp only at hinv
    obtain ⟨h1, h2, a, ⟨d, st⟩, h3, h4, h5, h6⟩ := hinv
    simp only at h5 h6
    obtain ⟨hav, rfl⟩ := hok.1 a h3
    have hw' := hok.2.1 (d, st) h4
    simp only [Prod.mk.injEq] at hw'
    obtain ⟨hwv, rfl, rfl⟩ := hw'
    subst hav hwv h1 h2
    by_cases hsk : ss c wstrb counter = 0
    · have e1 : hAW = none := by
        rcases h5 with h5 | ⟨_, h5, _⟩
        · exact h5
        · simp [hsk] at h5
      have e2 : hW = none := by
        rcases h6 with h6 | ⟨_, h6, _⟩
        · exact h6
        · simp [hsk] at h6
      subst e1 e2
      by_cases hl : c.ratio - 1 = counter
      · simp [OInv, OGood, osys, toSlave, toMaster, next, nextFsm, reset, init, skip, lastWord, subStrb_eq', subData_eq',
          AxlGhost.next, AxlGhost.reqHeld, AxlS.idle, AxlM.idle, hsk, hl]
      · have hl2 : ¬ counter = c.ratio - 1 := fun h => hl h.symm
        simp [OInv, OGood, osys, toSlave, toMaster, next, nextFsm, reset, init, skip, lastWord, subStrb_eq', subData_eq',
          AxlGhost.next, AxlGhost.reqHeld, AxlS.idle, AxlM.idle, hsk, hl2]
    · have hskb : (ss c wstrb counter == 0) = false := by simp [hsk]
      rcases h5 with rfl | ⟨rfl, -, rfl⟩ <;> rcases h6 with rfl | ⟨rfl, -, rfl⟩ <;>
        cases oawready <;> cases owready <;> (try cases awReady) <;> (try cases wReady) <;>
        simp [OInv, OGood, osys, toSlave, toMaster, next, nextFsm, reset, init, skip, lastWord, subStrb_eq', subData_eq',
          AxlGhost.next, AxlGhost.reqHeld, AxlS.idle, AxlM.idle, hsk, hskb]
  case respSlave =>
    simp only at hinv
    obtain ⟨h1, h2, h3, h4, a, ⟨d, st⟩, h5, h6⟩ := hinv
    obtain ⟨hav, rfl⟩ := hok.1 a h5
    have hw' := hok.2.1 (d, st) h6
    simp only [Prod.mk.injEq] at hw'
    obtain ⟨hwv, rfl, rfl⟩ := hw'
    subst hav hwv h1 h2 h3 h4
    by_cases hl : c.ratio - 1 = counter
    · cases bvalid <;>
        simp [OInv, OGood, osys, toSlave, toMaster, next, nextFsm, reset, init, skip, lastWord, subStrb_eq', subData_eq',
          AxlGhost.next, AxlGhost.reqHeld, AxlS.idle, AxlM.idle, hl, firstErr_append]
    · have hl2 : ¬ counter = c.ratio - 1 := fun h => hl h.symm
      cases bvalid <;>
        simp [OInv, OGood, osys, toSlave, toMaster, next, nextFsm, reset, init, skip, lastWord, subStrb_eq', subData_eq',
          AxlGhost.next, AxlGhost.reqHeld, AxlS.idle, AxlM.idle, hl2, firstErr_append]
  case respMaster =>
    simp only at hinv
    obtain ⟨h1, h2, h3, h4⟩ := hinv
    subst h1 h2 h3
    rcases h4 with h4 | h4 <;> subst h4 <;> cases bready <;>
      simp [OInv, OGood, osys, toSlave, toMaster, next, nextFsm, reset, init, AxlGhost.next, AxlGhost.reqHeld,
        AxlS.idle, AxlM.idle]

end DownW

namespace DownR
variable (c : DownCfg)

def OInv (s : OSys) : Prop :=
  s.h.heldAW = none ∧ s.h.heldW = none ∧
  match s.br.st with
  | .idle => s.h.heldAR = none ∧ s.log = []
  | .convert =>
    s.br.resp = firstErr s.log ∧
    ∃ a, s.g.heldAR = some a ∧ (s.h.heldAR = none ∨ s.h.heldAR = some (c.subAddr a s.br.counter))
  | .respSlave => s.h.heldAR = none ∧ s.br.resp = firstErr s.log ∧ ∃ a, s.g.heldAR = some a
  | .respMaster => s.h.heldAR = none ∧ s.br.resp = firstErr s.log

/-- The narrow AR is repeated unchanged until accepted; the wide R carries the first non-OKAY narrow response of
    this read (OKAY if there was none). -/
def OGood (s : OSys) (i : AxlM × AxlS) : Prop :=
  s.h.reqHeld (toSlave c s.br i.1 i.2) ∧
  ((toMaster c s.br i.1 i.2).rvalid = true → (toMaster c s.br i.1 i.2).rresp = firstErr s.log)

set_option maxHeartbeats 1000000 in
theorem ostep (s : OSys) (i : AxlM × AxlS) (hinv : OInv c s) (hok : s.g.reqHeld i.1) :
    OGood c s i ∧ OInv c ((osys c).next s i) := by
  obtain ⟨⟨st, counter, resp, rData⟩,
    ⟨gAW, gW, gAR, gB, gR, gpAW, gpW, gpAR, gref⟩, ⟨hAW, hW, hAR, hB, hR, hpAW, hpW, hpAR, href⟩, log⟩ := s
  obtain ⟨⟨awvalid, awaddr, wvalid, wdata, wstrb, bready, arvalid, araddr, rready⟩,
    ⟨oawready, owready, bvalid, bresp, oarready, rvalid, rresp, rdata⟩⟩ := i
  obtain ⟨h0, h0', hinv⟩ := hinv
  simp only at h0 h0'
  subst h0 h0'
  simp only [AxlGhost.reqHeld] at hok
  cases st
  case idle =>
    simp only at hinv
    obtain ⟨h1, h2⟩ := hinv
    subst h1 h2
    cases arvalid <;>
      simp [OInv, OGood, osys, toSlave, toMaster, next, nextFsm, reset, init, AxlGhost.next, AxlGhost.reqHeld,
        AxlS.idle, AxlM.idle, firstErr_nil]
  case convert =>
    simp only at hinv
    obtain ⟨h1, a, h2, h3⟩ := hinv
    obtain ⟨hav, rfl⟩ := hok.2.2 a h2
    subst hav h1
    rcases h3 with rfl | rfl <;> cases oarready <;>
      simp [OInv, OGood, osys, toSlave, toMaster, next, nextFsm, reset, init, AxlGhost.next, AxlGhost.reqHeld,
        AxlS.idle, AxlM.idle]
  case respSlave =>
    simp only at hinv
    obtain ⟨h1, h2, a, h3⟩ := hinv
    obtain ⟨hav, rfl⟩ := hok.2.2 a h3
    subst hav h1 h2
    by_cases hl : c.ratio - 1 = counter
    · cases rvalid <;>
        simp [OInv, OGood, osys, toSlave, toMaster, next, nextFsm, reset, init, lastWord, AxlGhost.next,
          AxlGhost.reqHeld, AxlS.idle, AxlM.idle, hl, firstErr_append]
    · have hl2 : ¬ counter = c.ratio - 1 := fun h => hl h.symm
      cases rvalid <;>
        simp [OInv, OGood, osys, toSlave, toMaster, next, nextFsm, reset, init, lastWord, AxlGhost.next,
          AxlGhost.reqHeld, AxlS.idle, AxlM.idle, hl2, firstErr_append]
  case respMaster =>
    simp only at hinv
    obtain ⟨h1, h2⟩ := hinv
    subst h1 h2
    cases rready <;>
      simp [OInv, OGood, osys, toSlave, toMaster, next, nextFsm, reset, init, AxlGhost.next, AxlGhost.reqHeld,
        AxlS.idle, AxlM.idle]

end DownR
end Litex.Bridge
