import LitexModel.Bridge.Closed
/-
  Proofs for AHB2Wishbone: byte-lane decoding table and the invariant of the closed system.
-/
namespace Litex.Bridge.Ahb2Wb
open Litex Litex.Bridge

/-- The lanes an AHB transfer of `2^size` bytes at address `a` occupies on a bus of `2^lg` byte lanes:
    `2^size` consecutive lanes starting at `a mod 2^lg` rounded down to a multiple of `2^size`. -/
def laneMask (lg size a : Nat) : Nat := (2 ^ 2 ^ size - 1) * 2 ^ (a % 2 ^ lg / 2 ^ size * 2 ^ size)

theorem sel64_table : ∀ size, size < 4 → ∀ a, a < 8 → ahbSel64 size a = laneMask 3 size a := by decide
theorem sel32_table : ∀ size, size < 3 → ∀ a, a < 4 → ahbSel32 size a = laneMask 2 size a := by decide

variable (c : AhbCfg)

def Inv (s : Sys) : Prop :=
  match s.br.st with
  | .data =>
    s.mem = s.g.ref ∧ ∃ t, s.g.cur = some t ∧ s.br.adr = t.addr / 2 ^ c.shift ∧ s.br.we = t.write ∧
      s.br.sel = ahbSel c t.size t.addr
  | .addr =>
    (s.g.cur = none ∧ s.mem = s.g.ref) ∨
    (∃ t d, s.g.cur = some t ∧ s.g.wdata = some d ∧ t.write = true ∧
       s.mem = s.g.ref.writeWord (nb c) (t.addr / 2 ^ c.shift) (ahbSel c t.size t.addr) d) ∨
    (∃ t, s.g.cur = some t ∧ t.write = false ∧ s.mem = s.g.ref ∧
       s.br.rdata = s.g.ref.readWord (nb c) (t.addr / 2 ^ c.shift))

def Good (s : Sys) (i : AhbM × WbOracle) : Prop :=
  memOk c s.g (sysOut c s i).1 ∧ (s.g.cur = none → s.mem = s.g.ref)

theorem step (s : Sys) (i : AhbM × WbOracle) (hinv : Inv c s) (hok : masterOk s.g i.1) :
    Good c s i ∧ Inv c ((sys c s.g.ref).next s i) := by
  obtain ⟨⟨st, adr, we, sel, rdata⟩, mem, ⟨cur, gw, ref⟩⟩ := s
  obtain ⟨⟨addr, size, trans, wdata, write, hsel⟩, ⟨ack, junk⟩⟩ := i
  cases st <;>
    simp only [Inv, Good, sys, sysOut, toSlave, toMaster, next, wbMemRsp, wbMemNext, ghostNext, memOk, masterOk,
      WbM.active] at hinv hok ⊢
  case addr =>
    rcases hinv with ⟨h1, h2⟩ | ⟨t, d, h1, h2, h3, h4⟩ | ⟨t, h1, h2, h3, h4⟩
    · subst h1 h2
      cases ha : accepts c { addr := addr, size := size, trans := trans, wdata := wdata, write := write, sel := hsel } <;>
        simp_all
    · subst h1 h2 h4
      cases ha : accepts c { addr := addr, size := size, trans := trans, wdata := wdata, write := write, sel := hsel } <;>
        simp_all
    · subst h1 h3
      cases ha : accepts c { addr := addr, size := size, trans := trans, wdata := wdata, write := write, sel := hsel } <;>
        simp_all
  case data =>
    obtain ⟨h1, t, h2, h3, h4, h5⟩ := hinv
    subst h1 h2 h3 h4 h5
    obtain ⟨ta, ts, tw⟩ := t
    cases ack <;> cases tw <;> cases gw <;> simp_all

end Litex.Bridge.Ahb2Wb
