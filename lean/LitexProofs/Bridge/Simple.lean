import LitexModel.Bridge.Closed
/-
  Proofs for `axi_lite_to_simple` (AXILiteSRAM, AXILite2CSR): invariants of the closed systems.
-/
namespace Litex.Bridge
open Litex Litex.Bridge

namespace AxlSramM
variable (c : SimpleCfg)

def Inv (s : Sys) : Prop :=
  match s.fe.st with
  | .start  => s.g.pendAW = none ∧ s.g.pendW = none ∧ s.g.pendAR = none ∧ s.g.heldB = none ∧ s.g.heldR = none ∧
               s.mem = s.g.ref
  | .waitW  => s.g.pendW = none ∧ s.g.pendAR = none ∧ s.g.heldB = none ∧ s.g.heldR = none ∧ s.mem = s.g.ref ∧
               ∃ a, s.g.pendAW = some a ∧ s.fe.adrReg = Simple.portAdrOf c a
  | .latchR => s.g.pendAW = none ∧ s.g.pendW = none ∧ s.g.heldB = none ∧ s.g.heldR = none ∧ s.mem = s.g.ref ∧
               ∃ a, s.g.pendAR = some a ∧ s.radr = Simple.portAdrOf c a
  | .sendR  => s.g.pendAW = none ∧ s.g.pendW = none ∧ s.g.heldB = none ∧ s.mem = s.g.ref ∧
               (s.g.heldR = none ∨ s.g.heldR = some (respOkay, s.fe.latched)) ∧
               ∃ a, s.g.pendAR = some a ∧ s.fe.latched = s.g.ref.readWord c.nb (Simple.portAdrOf c a)
  | .sendB  => s.g.pendAR = none ∧ s.g.heldR = none ∧ (s.g.heldB = none ∨ s.g.heldB = some respOkay) ∧
               ∃ a w, s.g.pendAW = some a ∧ s.g.pendW = some w ∧
                 s.mem = s.g.ref.writeWord c.nb (Simple.portAdrOf c a) w.2 w.1

def Good (s : Sys) (m : AxlM) : Prop :=
  s.g.rspHeld (Simple.toMaster s.fe m) ∧
  s.g.memOk (byteRd c.nb (Simple.portAdrOf c)) m (Simple.toMaster s.fe m) ∧
  (s.fe.st ≠ .sendB → s.mem = s.g.ref)

theorem step (s : Sys) (m : AxlM) (hinv : Inv c s) (hok : s.g.reqHeld m) :
    Good c s m ∧ Inv c ((sys c s.g.ref).next s m) := by
  obtain ⟨⟨st, lastRd, adrReg, latched⟩, mem, radr,
    ⟨heldAW, heldW, heldAR, heldB, heldR, pendAW, pendW, pendAR, ref⟩⟩ := s
  obtain ⟨awvalid, awaddr, wvalid, wdata, wstrb, bready, arvalid, araddr, rready⟩ := m
  cases st <;>
    simp only [Inv, Good, sys, Simple.toMaster, Simple.port, Simple.next, Simple.doWrite, Simple.doRead,
      AxlGhost.next, AxlGhost.rspHeld, AxlGhost.memOk, AxlGhost.reqHeld, AxlS.idle, byteRd, byteWr] at hinv hok ⊢
  case start =>
    cases awvalid <;> cases arvalid <;> cases lastRd <;> cases wvalid <;> simp_all
  case waitW =>
    obtain ⟨h1, h2, h3, h4, h5, a, h6, h7⟩ := hinv
    cases wvalid <;> simp_all
  case latchR =>
    obtain ⟨h1, h2, h3, h4, h5, a, h6, h7⟩ := hinv
    simp_all
  case sendR =>
    obtain ⟨h1, h2, h3, h4, h5, a, h6, h7⟩ := hinv
    rcases h5 with h5 | h5 <;> cases rready <;> simp_all [respOkay]
  case sendB =>
    obtain ⟨h1, h2, h3, a, ⟨d, st⟩, h4, h5, h6⟩ := hinv
    rcases h3 with h3 | h3 <;> cases bready <;> simp_all [respOkay]

end AxlSramM

namespace Axl2Csr
variable (c : SimpleCfg)

def Inv (s : Sys) : Prop :=
  match s.fe.st with
  | .start  => s.g.pendAW = none ∧ s.g.pendW = none ∧ s.g.pendAR = none ∧ s.g.heldB = none ∧ s.g.heldR = none ∧
               s.regs = s.g.ref
  | .waitW  => s.g.pendW = none ∧ s.g.pendAR = none ∧ s.g.heldB = none ∧ s.g.heldR = none ∧ s.regs = s.g.ref ∧
               ∃ a, s.g.pendAW = some a ∧ s.fe.adrReg = Simple.portAdrOf c a
  | .latchR => s.g.pendAW = none ∧ s.g.pendW = none ∧ s.g.heldB = none ∧ s.g.heldR = none ∧ s.regs = s.g.ref ∧
               ∃ a, s.g.pendAR = some a ∧ s.rword = s.g.ref (Simple.portAdrOf c a)
  | .sendR  => s.g.pendAW = none ∧ s.g.pendW = none ∧ s.g.heldB = none ∧ s.regs = s.g.ref ∧
               (s.g.heldR = none ∨ s.g.heldR = some (respOkay, s.fe.latched)) ∧
               ∃ a, s.g.pendAR = some a ∧ s.fe.latched = s.g.ref (Simple.portAdrOf c a)
  | .sendB  => s.g.pendAR = none ∧ s.g.heldR = none ∧ (s.g.heldB = none ∨ s.g.heldB = some respOkay) ∧
               ∃ a w, s.g.pendAW = some a ∧ s.g.pendW = some w ∧ s.regs = regWr c s.g.ref a w.2 w.1

def Good (s : Sys) (m : AxlM) : Prop :=
  s.g.rspHeld (Simple.toMaster s.fe m) ∧ s.g.memOk (regRd c) m (Simple.toMaster s.fe m) ∧
  (s.fe.st ≠ .sendB → s.regs = s.g.ref)

theorem step (s : Sys) (m : AxlM) (hinv : Inv c s) (hok : s.g.reqHeld m) :
    Good c s m ∧ Inv c ((sys c s.g.ref).next s m) := by
  obtain ⟨⟨st, lastRd, adrReg, latched⟩, regs, rword,
    ⟨heldAW, heldW, heldAR, heldB, heldR, pendAW, pendW, pendAR, ref⟩⟩ := s
  obtain ⟨awvalid, awaddr, wvalid, wdata, wstrb, bready, arvalid, araddr, rready⟩ := m
  cases st <;>
    simp only [Inv, Good, sys, toSlave, Simple.toMaster, Simple.port, Simple.next, Simple.doWrite, Simple.doRead,
      AxlGhost.next, AxlGhost.rspHeld, AxlGhost.memOk, AxlGhost.reqHeld, AxlS.idle, regRd, regWr] at hinv hok ⊢
  case start =>
    cases awvalid <;> cases arvalid <;> cases lastRd <;> cases wvalid <;> simp_all
  case waitW =>
    obtain ⟨h1, h2, h3, h4, h5, a, h6, h7⟩ := hinv
    cases wvalid <;> simp_all
  case latchR =>
    obtain ⟨h1, h2, h3, h4, h5, a, h6, h7⟩ := hinv
    simp_all
  case sendR =>
    obtain ⟨h1, h2, h3, h4, h5, a, h6, h7⟩ := hinv
    rcases h5 with h5 | h5 <;> cases rready <;> simp_all [respOkay]
  case sendB =>
    obtain ⟨h1, h2, h3, a, ⟨d, st⟩, h4, h5, h6⟩ := hinv
    rcases h3 with h3 | h3 <;> cases bready <;> simp_all [respOkay]

end Axl2Csr
end Litex.Bridge
