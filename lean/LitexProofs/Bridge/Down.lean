import LitexModel.Bridge.Closed
/-
  Proofs for the AXI-Lite down-converter.
-/
namespace Litex.Bridge.DownW
open Litex Litex.Bridge

variable (c : DownCfg)

/-- Invariant of the write path over a narrow byte memory. -/
def Inv (s : Sys) : Prop :=
  s.br.resp = respOkay ∧ s.p.arq = [] ∧ s.p.rq = [] ∧ s.g.heldR = none ∧ s.g.pendAR = none ∧
  match s.br.st with
  | .idle =>
    s.br.awReady = false ∧ s.br.wReady = false ∧ s.p.awq = [] ∧ s.p.wq = [] ∧ s.p.bq = [] ∧ s.p.mem = s.g.ref ∧
    s.g.pendAW = none ∧ s.g.pendW = none ∧ s.g.heldB = none
  | .convert =>
    s.br.counter < c.ratio ∧ s.p.bq = [] ∧ s.g.pendAW = none ∧ s.g.pendW = none ∧ s.g.heldB = none ∧
    ∃ a w, s.g.heldAW = some a ∧ s.g.heldW = some w ∧
      s.p.mem = subWrites c a w.1 w.2 s.br.counter s.g.ref ∧
      s.p.awq = (if s.br.awReady then [c.subAddr a s.br.counter] else []) ∧
      s.p.wq = (if s.br.wReady then [(sd c w.1 s.br.counter, ss c w.2 s.br.counter)] else []) ∧
      (s.br.awReady && s.br.wReady) = false ∧
      ((ss c w.2 s.br.counter == 0) = true → s.br.awReady = false ∧ s.br.wReady = false)
  | .respSlave =>
    s.br.counter < c.ratio ∧ s.g.pendAW = none ∧ s.g.pendW = none ∧ s.g.heldB = none ∧
    ∃ a w, s.g.heldAW = some a ∧ s.g.heldW = some w ∧ (ss c w.2 s.br.counter == 0) = false ∧
      ((s.p.awq = [c.subAddr a s.br.counter] ∧ s.p.wq = [(sd c w.1 s.br.counter, ss c w.2 s.br.counter)] ∧
          s.p.bq = [] ∧ s.p.mem = subWrites c a w.1 w.2 s.br.counter s.g.ref) ∨
       (s.p.awq = [] ∧ s.p.wq = [] ∧ s.p.bq = [respOkay] ∧
          s.p.mem = subWrites c a w.1 w.2 (s.br.counter + 1) s.g.ref))
  | .respMaster =>
    s.p.awq = [] ∧ s.p.wq = [] ∧ s.p.bq = [] ∧ (s.g.heldB = none ∨ s.g.heldB = some respOkay) ∧
    ∃ a w, s.g.pendAW = some a ∧ s.g.pendW = some w ∧ s.p.mem = wideWr c s.g.ref a w.2 w.1

def Good (s : Sys) (i : AxlM × AxlOracle) : Prop :=
  s.g.rspHeld (sysOut c s i).1 ∧
  ((sysOut c s i).1.bvalid = true → s.g.pendAW.isSome ∧ s.g.pendW.isSome ∧ (sysOut c s i).1.bresp = respOkay) ∧
  (i.1.awvalid = true → (sysOut c s i).1.awready = true → s.g.pendAW = none) ∧
  (i.1.wvalid = true → (sysOut c s i).1.wready = true → s.g.pendW = none) ∧
  (s.br.st = .idle → s.p.mem = s.g.ref)

theorem subStrb_eq (s : DownWState) (m : AxlM) : subStrb c s m = ss c m.wstrb s.counter := rfl
theorem subData_eq (s : DownWState) (m : AxlM) : subData c s m = sd c m.wdata s.counter := rfl

set_option maxHeartbeats 1000000 in
theorem step_convert (hr : 0 < c.ratio) (s : Sys) (i : AxlM × AxlOracle) (hinv : Inv c s) (hok : s.g.reqHeld i.1)
    (hst : s.br.st = .convert) : Good c s i ∧ Inv c ((sys c s.g.ref).next s i) := by
  obtain ⟨⟨st, counter, awReady, wReady, resp⟩, ⟨mem, awq, wq, bq, arq, rq, bheld, rheld⟩,
    ⟨heldAW, heldW, heldAR, heldB, heldR, pendAW, pendW, pendAR, ref⟩⟩ := s
  obtain ⟨⟨awvalid, awaddr, wvalid, wdata, wstrb, bready, arvalid, araddr, rready⟩,
    ⟨oawready, owready, oarready, wexec, rexec, bgo, rgo⟩⟩ := i
  simp only at hst
  subst hst
  obtain ⟨hresp, harq, hrq, hheldR, hpendAR, hinv⟩ := hinv
  simp only at hresp harq hrq hheldR hpendAR
  subst hresp harq hrq hheldR hpendAR
  simp only [AxlGhost.reqHeld] at hok
  simp only at hinv
  obtain ⟨hc, hbq, hpa, hpw, hhb, a, ⟨d, st⟩, hAW, hW, hmem, hawq, hwq, hnot, hskf⟩ := hinv
  simp only at hmem hawq hwq hskf
  have ha' := hok.1 a hAW
  have hw' := hok.2.1 (d, st) hW
  simp only [Prod.mk.injEq] at hw'
  obtain ⟨hav, rfl⟩ := ha'
  obtain ⟨hwv, rfl, rfl⟩ := hw'
  subst hav hwv hbq hpa hpw hhb hmem hawq hwq
  by_cases hsk : ss c wstrb counter = 0
  · -- skipped sub-word
    obtain ⟨rfl, rfl⟩ := hskf (by simp [hsk])
    by_cases hl : counter = c.ratio - 1
    · have h2 : c.ratio = counter + 1 := by omega
      simp [Inv, Good, sys, sysOut, toSlave, toMaster, next, nextFsm, reset, init, skip, lastWord, subStrb_eq, subData_eq,
        AxlMem.out, AxlMem.next, AxlGhost.next, AxlGhost.rspHeld, AxlS.idle, AxlM.idle, subWrites, subWrite, wideWr,
        hsk, ← hl, h2]
    · have h3 : counter + 1 < c.ratio := by omega
      have h2 : (counter + 1) % c.ratio = counter + 1 := Nat.mod_eq_of_lt h3
      simp [Inv, Good, sys, sysOut, toSlave, toMaster, next, nextFsm, reset, init, skip, lastWord, subStrb_eq, subData_eq,
        AxlMem.out, AxlMem.next, AxlGhost.next, AxlGhost.rspHeld, AxlS.idle, AxlM.idle, subWrites, subWrite, wideWr,
        hsk, hl, h2, h3]
  · -- sub-word to be written
    cases awReady <;> cases wReady <;> cases oawready <;> cases owready <;>
      simp [Inv, Good, sys, sysOut, toSlave, toMaster, next, nextFsm, reset, init, skip, lastWord, subStrb_eq, subData_eq,
        AxlMem.out, AxlMem.next, AxlGhost.next, AxlGhost.rspHeld, AxlS.idle, AxlM.idle, subWrites, subWrite, wideWr,
        hsk, hc] at hnot ⊢

set_option maxHeartbeats 1000000 in
theorem step_other (hr : 0 < c.ratio) (s : Sys) (i : AxlM × AxlOracle) (hinv : Inv c s) (hok : s.g.reqHeld i.1)
    (hst : s.br.st ≠ .convert) : Good c s i ∧ Inv c ((sys c s.g.ref).next s i) := by
  obtain ⟨⟨st, counter, awReady, wReady, resp⟩, ⟨mem, awq, wq, bq, arq, rq, bheld, rheld⟩,
    ⟨heldAW, heldW, heldAR, heldB, heldR, pendAW, pendW, pendAR, ref⟩⟩ := s
  obtain ⟨⟨awvalid, awaddr, wvalid, wdata, wstrb, bready, arvalid, araddr, rready⟩,
    ⟨oawready, owready, oarready, wexec, rexec, bgo, rgo⟩⟩ := i
  obtain ⟨hresp, harq, hrq, hheldR, hpendAR, hinv⟩ := hinv
  simp only at hresp harq hrq hheldR hpendAR hst
  subst hresp harq hrq hheldR hpendAR
  simp only [AxlGhost.reqHeld] at hok
  cases st
  case convert => exact absurd rfl hst
  case idle =>
    simp only at hinv
    obtain ⟨h1, h2, h3, h4, h5, h6, h7, h8, h9⟩ := hinv
    subst h1 h2 h3 h4 h5 h6 h7 h8 h9
    cases awvalid <;> cases wvalid <;>
      simp [Inv, Good, sys, sysOut, toSlave, toMaster, next, nextFsm, reset, init, AxlMem.out, AxlMem.next,
        AxlGhost.next, AxlGhost.rspHeld, AxlS.idle, AxlM.idle, subWrites, hr]
  case respSlave =>
    simp only at hinv
    obtain ⟨hc, hpa, hpw, hhb, a, ⟨d, st⟩, hAW, hW, hsk, hp⟩ := hinv
    simp only at hsk hp
    have ha' := hok.1 a hAW
    have hw' := hok.2.1 (d, st) hW
    simp only [Prod.mk.injEq] at hw'
    obtain ⟨hav, rfl⟩ := ha'
    obtain ⟨hwv, rfl, rfl⟩ := hw'
    subst hav hwv hpa hpw hhb
    have hsk' : ¬ ss c wstrb counter = 0 := by simpa using hsk
    rcases hp with ⟨h1, h2, h3, h4⟩ | ⟨h1, h2, h3, h4⟩
    · subst h1 h2 h3 h4
      cases wexec <;>
        simp [Inv, Good, sys, sysOut, toSlave, toMaster, next, nextFsm, reset, init, skip, lastWord, subStrb_eq,
          subData_eq, AxlMem.out, AxlMem.next, AxlGhost.next, AxlGhost.rspHeld, AxlS.idle, AxlM.idle, subWrites,
          subWrite, wideWr, hsk', hc]
    · subst h1 h2 h3 h4
      by_cases hl : counter = c.ratio - 1
      · have h2 : c.ratio = counter + 1 := by omega
        cases bheld <;> cases bgo <;>
          simp [Inv, Good, sys, sysOut, toSlave, toMaster, next, nextFsm, reset, init, skip, lastWord, subStrb_eq,
            subData_eq, AxlMem.out, AxlMem.next, AxlGhost.next, AxlGhost.rspHeld, AxlS.idle, AxlM.idle, subWrites,
            subWrite, wideWr, hsk', hc, h2, respOkay]
      · have h3 : counter + 1 < c.ratio := by omega
        have h2 : (counter + 1) % c.ratio = counter + 1 := Nat.mod_eq_of_lt h3
        cases bheld <;> cases bgo <;>
          simp [Inv, Good, sys, sysOut, toSlave, toMaster, next, nextFsm, reset, init, skip, lastWord, subStrb_eq,
            subData_eq, AxlMem.out, AxlMem.next, AxlGhost.next, AxlGhost.rspHeld, AxlS.idle, AxlM.idle, subWrites,
            subWrite, wideWr, hsk', hc, hl, h2, h3, respOkay]
  case respMaster =>
    simp only at hinv
    obtain ⟨h1, h2, h3, h4, a, ⟨d, st⟩, h5, h6, h7⟩ := hinv
    simp only at h7
    subst h1 h2 h3 h5 h6 h7
    rcases h4 with h4 | h4 <;> subst h4 <;> cases bready <;>
      simp [Inv, Good, sys, sysOut, toSlave, toMaster, next, nextFsm, reset, init, AxlMem.out, AxlMem.next,
        AxlGhost.next, AxlGhost.rspHeld, AxlS.idle, AxlM.idle, respOkay]

theorem step (hr : 0 < c.ratio) (s : Sys) (i : AxlM × AxlOracle) (hinv : Inv c s) (hok : s.g.reqHeld i.1) :
    Good c s i ∧ Inv c ((sys c s.g.ref).next s i) := by
  by_cases hst : s.br.st = .convert
  · exact step_convert c hr s i hinv hok hst
  · exact step_other c hr s i hinv hok hst

end Litex.Bridge.DownW

/-! ## read path -/
namespace Litex.Bridge.DownR
open Litex Litex.Bridge

theorem shift_step (B old P w r k : Nat) (hB : 0 < B) (hk : k < r) :
    (old / B ^ k + P * B ^ (r - k)) / B + w * B ^ (r - 1) =
      old / B ^ (k + 1) + (P + w * B ^ k) * B ^ (r - (k + 1)) := by
  obtain ⟨e, rfl⟩ : ∃ e, r = k + 1 + e := ⟨r - (k + 1), by omega⟩
  have h1 : k + 1 + e - k = e + 1 := by omega
  have h2 : k + 1 + e - 1 = k + e := by omega
  have h3 : k + 1 + e - (k + 1) = e := by omega
  rw [h1, h2, h3, Nat.pow_succ, ← Nat.mul_assoc, Nat.add_mul_div_right _ _ hB, Nat.div_div_eq_div_mul, ← Nat.pow_succ,
    Nat.add_mul, Nat.pow_add, Nat.mul_assoc, Nat.add_assoc]

theorem shift_bound (B x w r : Nat) (hr : 0 < r) (hx : x < B ^ r) (hw : w < B) :
    x / B + w * B ^ (r - 1) < B ^ r := by
  obtain ⟨e, rfl⟩ : ∃ e, r = e + 1 := ⟨r - 1, by omega⟩
  have hB : 0 < B := by omega
  simp only [Nat.add_sub_cancel]
  rw [Nat.pow_succ] at hx ⊢
  have h1 : x / B < B ^ e := by
    rw [Nat.div_lt_iff_lt_mul hB]; exact hx
  have h2 : (w + 1) * B ^ e ≤ B * B ^ e := Nat.mul_le_mul_right _ hw
  rw [Nat.add_mul, Nat.one_mul] at h2
  rw [Nat.mul_comm (B ^ e) B]
  omega

variable (c : DownCfg)

/-- `r_data` after the sub-words `0 … k-1` of the wide word at `a` have been shifted in. -/
def partial_ (s : Sys) (a k : Nat) : Prop :=
  s.br.rData = s.old / (256 ^ c.nbTo) ^ k + pack c (subWord c s.g.ref a) k * (256 ^ c.nbTo) ^ (c.ratio - k)

def Inv (s : Sys) : Prop :=
  s.br.resp = respOkay ∧ s.br.rData < (256 ^ c.nbTo) ^ c.ratio ∧ s.p.mem = s.g.ref ∧
  s.p.awq = [] ∧ s.p.wq = [] ∧ s.p.bq = [] ∧ s.g.pendAW = none ∧ s.g.pendW = none ∧ s.g.heldB = none ∧
  match s.br.st with
  | .idle => s.p.arq = [] ∧ s.p.rq = [] ∧ s.g.pendAR = none ∧ s.g.heldR = none
  | .convert =>
    s.br.counter < c.ratio ∧ s.p.arq = [] ∧ s.p.rq = [] ∧ s.g.pendAR = none ∧ s.g.heldR = none ∧
    s.old < (256 ^ c.nbTo) ^ c.ratio ∧ ∃ a, s.g.heldAR = some a ∧ partial_ c s a s.br.counter
  | .respSlave =>
    s.br.counter < c.ratio ∧ s.g.pendAR = none ∧ s.g.heldR = none ∧ s.old < (256 ^ c.nbTo) ^ c.ratio ∧
    ∃ a, s.g.heldAR = some a ∧ partial_ c s a s.br.counter ∧
      ((s.p.arq = [c.subAddr a s.br.counter] ∧ s.p.rq = []) ∨
       (s.p.arq = [] ∧ s.p.rq = [(respOkay, subWord c s.g.ref a s.br.counter)]))
  | .respMaster =>
    s.br.counter + 1 = c.ratio ∧ s.p.arq = [] ∧ s.p.rheld = true ∧ s.old < (256 ^ c.nbTo) ^ c.ratio ∧
    ∃ a, s.g.pendAR = some a ∧ partial_ c s a s.br.counter ∧
      s.p.rq = [(respOkay, subWord c s.g.ref a s.br.counter)] ∧
      (s.g.heldR = none ∨ s.g.heldR = some (respOkay, wideRd c s.g.ref a))

def Good (s : Sys) (i : AxlM × AxlOracle) : Prop :=
  s.g.rspHeld (sysOut c s i).1 ∧
  ((sysOut c s i).1.rvalid = true →
     ∃ a, s.g.pendAR = some a ∧ (sysOut c s i).1.rresp = respOkay ∧ (sysOut c s i).1.rdata = wideRd c s.g.ref a) ∧
  (i.1.arvalid = true → (sysOut c s i).1.arready = true → s.g.pendAR = none)

theorem final_eq (B old P w r k rd : Nat) (hB : 0 < B) (hk : k + 1 = r) (ho : old < B ^ r)
    (h : rd = old / B ^ k + P * B ^ (r - k)) : rd / B + w * B ^ (r - 1) = P + w * B ^ k := by
  subst h
  rw [shift_step B old P w r k hB (by omega), hk, Nat.sub_self, Nat.pow_zero, Nat.mul_one, Nat.div_eq_of_lt ho,
    Nat.zero_add]

set_option maxHeartbeats 1000000 in
theorem step_a (hr : 0 < c.ratio) (s : Sys) (i : AxlM × AxlOracle) (hinv : Inv c s) (hok : s.g.reqHeld i.1)
    (hst : s.br.st = .idle ∨ s.br.st = .convert) : Good c s i ∧ Inv c ((sys c s.g.ref).next s i) := by
  obtain ⟨⟨st, counter, resp, rData⟩, ⟨mem, awq, wq, bq, arq, rq, bheld, rheld⟩,
    ⟨heldAW, heldW, heldAR, heldB, heldR, pendAW, pendW, pendAR, ref⟩, old⟩ := s
  obtain ⟨⟨awvalid, awaddr, wvalid, wdata, wstrb, bready, arvalid, araddr, rready⟩,
    ⟨oawready, owready, oarready, wexec, rexec, bgo, rgo⟩⟩ := i
  obtain ⟨h1, h2, h3, h4, h5, h6, h7, h8, h9, hinv⟩ := hinv
  simp only at h1 h2 h3 h4 h5 h6 h7 h8 h9 hst
  subst h1 h3 h4 h5 h6 h7 h8 h9
  simp only [AxlGhost.reqHeld] at hok
  have hB : 0 < 256 ^ c.nbTo := Nat.pow_pos (by decide)
  rcases hst with rfl | rfl
  · simp only at hinv
    obtain ⟨g1, g2, g3, g4⟩ := hinv
    subst g1 g2 g3 g4
    cases arvalid <;>
      simp [Inv, Good, partial_, pack, sys, sysOut, toSlave, toMaster, next, nextFsm, reset, init, AxlMem.out,
        AxlMem.next, AxlGhost.next, AxlGhost.rspHeld, AxlS.idle, AxlM.idle, hr, h2]
  · simp only at hinv
    obtain ⟨g1, g2, g3, g4, g5, g6, a, g7, g8⟩ := hinv
    subst g2 g3 g4 g5
    obtain ⟨hav, rfl⟩ := hok.2.2 a g7
    subst hav
    simp only [partial_] at g8
    cases oarready <;>
      simp [Inv, Good, partial_, sys, sysOut, toSlave, toMaster, next, nextFsm, reset, init, AxlMem.out,
        AxlMem.next, AxlGhost.next, AxlGhost.rspHeld, AxlS.idle, AxlM.idle, g1, g6, h2, g8.symm]

set_option maxHeartbeats 1000000 in
theorem step_b (hr : 0 < c.ratio) (s : Sys) (i : AxlM × AxlOracle) (hinv : Inv c s) (hok : s.g.reqHeld i.1)
    (hst : s.br.st = .respSlave) : Good c s i ∧ Inv c ((sys c s.g.ref).next s i) := by
  obtain ⟨⟨st, counter, resp, rData⟩, ⟨mem, awq, wq, bq, arq, rq, bheld, rheld⟩,
    ⟨heldAW, heldW, heldAR, heldB, heldR, pendAW, pendW, pendAR, ref⟩, old⟩ := s
  obtain ⟨⟨awvalid, awaddr, wvalid, wdata, wstrb, bready, arvalid, araddr, rready⟩,
    ⟨oawready, owready, oarready, wexec, rexec, bgo, rgo⟩⟩ := i
  obtain ⟨h1, h2, h3, h4, h5, h6, h7, h8, h9, hinv⟩ := hinv
  simp only at h1 h2 h3 h4 h5 h6 h7 h8 h9 hst
  subst h1 h3 h4 h5 h6 h7 h8 h9 hst
  simp only [AxlGhost.reqHeld] at hok
  have hB : 0 < 256 ^ c.nbTo := Nat.pow_pos (by decide)
  simp only at hinv
  obtain ⟨g1, g3, g4, g6, a, g7, g8, g9⟩ := hinv
  subst g3 g4
  obtain ⟨hav, rfl⟩ := hok.2.2 a g7
  subst hav
  simp only [partial_] at g8
  rcases g9 with ⟨q1, q2⟩ | ⟨q1, q2⟩
  · subst q1 q2
    cases rexec <;>
      simp [Inv, Good, partial_, subWord, sys, sysOut, toSlave, toMaster, next, nextFsm, reset, init, AxlMem.out,
        AxlMem.next, AxlGhost.next, AxlGhost.rspHeld, AxlS.idle, AxlM.idle, g1, g6, h2, g8.symm, respOkay]
  · subst q1 q2
    by_cases hl : counter = c.ratio - 1
    · have hk : counter + 1 = c.ratio := by omega
      have hl' : c.ratio - 1 = counter := hl.symm
      cases rheld <;> cases rgo <;>
        simp [Inv, Good, partial_, sys, sysOut, toSlave, toMaster, next, nextFsm, reset, init, lastWord, AxlMem.out,
          AxlMem.next, AxlGhost.next, AxlGhost.rspHeld, AxlS.idle, AxlM.idle, g1, g6, h2, g8.symm, respOkay, hl', hk]
    · have hk : counter + 1 < c.ratio := by omega
      have hp : 256 ^ ((c.ratio - 1) * c.nbTo) = (256 ^ c.nbTo) ^ (c.ratio - 1) := Nat.pow_mul' _ _ _
      have hmod : (counter + 1) % c.ratio = counter + 1 := Nat.mod_eq_of_lt hk
      have hw : subWord c mem araddr counter % 256 ^ c.nbTo < 256 ^ c.nbTo := Nat.mod_lt _ hB
      have hbound := shift_bound (256 ^ c.nbTo) rData (subWord c mem araddr counter % 256 ^ c.nbTo) c.ratio hr h2 hw
      have hstep := shift_step (256 ^ c.nbTo) old (pack c (subWord c mem araddr) counter)
        (subWord c mem araddr counter % 256 ^ c.nbTo) c.ratio counter hB g1
      rw [← g8] at hstep
      have hbound' := hbound
      rw [hstep] at hbound'
      cases rheld <;> cases rgo <;>
        simp [Inv, Good, partial_, pack, sys, sysOut, toSlave, toMaster, next, nextFsm, reset, init, lastWord, rdataOut,
          AxlMem.out, AxlMem.next, AxlGhost.next, AxlGhost.rspHeld, AxlS.idle, AxlM.idle, g1, g6, h2, g8.symm, respOkay,
          hl, hk, hmod, hp, hbound', hstep]

set_option maxHeartbeats 1000000 in
theorem step_c (hr : 0 < c.ratio) (s : Sys) (i : AxlM × AxlOracle) (hinv : Inv c s) (hok : s.g.reqHeld i.1)
    (hst : s.br.st = .respMaster) : Good c s i ∧ Inv c ((sys c s.g.ref).next s i) := by
  obtain ⟨⟨st, counter, resp, rData⟩, ⟨mem, awq, wq, bq, arq, rq, bheld, rheld⟩,
    ⟨heldAW, heldW, heldAR, heldB, heldR, pendAW, pendW, pendAR, ref⟩, old⟩ := s
  obtain ⟨⟨awvalid, awaddr, wvalid, wdata, wstrb, bready, arvalid, araddr, rready⟩,
    ⟨oawready, owready, oarready, wexec, rexec, bgo, rgo⟩⟩ := i
  obtain ⟨h1, h2, h3, h4, h5, h6, h7, h8, h9, hinv⟩ := hinv
  simp only at h1 h2 h3 h4 h5 h6 h7 h8 h9 hst
  subst h1 h3 h4 h5 h6 h7 h8 h9 hst
  have hB : 0 < 256 ^ c.nbTo := Nat.pow_pos (by decide)
  simp only at hinv
  obtain ⟨g1, g2, g5, g6, a, g7, g8, g9, g10⟩ := hinv
  subst g2 g5 g7 g9
  simp only [partial_] at g8
  have hp : 256 ^ ((c.ratio - 1) * c.nbTo) = (256 ^ c.nbTo) ^ (c.ratio - 1) := Nat.pow_mul' _ _ _
  have hw : subWord c mem a counter % 256 ^ c.nbTo < 256 ^ c.nbTo := Nat.mod_lt _ hB
  have hbound := shift_bound (256 ^ c.nbTo) rData (subWord c mem a counter % 256 ^ c.nbTo) c.ratio hr h2 hw
  have hfin := final_eq (256 ^ c.nbTo) old (pack c (subWord c mem a) counter)
    (subWord c mem a counter % 256 ^ c.nbTo) c.ratio counter rData hB g1 g6 g8
  have hwide : wideRd c mem a = pack c (subWord c mem a) counter +
      subWord c mem a counter % 256 ^ c.nbTo * (256 ^ c.nbTo) ^ counter := by
    simp [wideRd, ← g1, pack]
  rw [← hwide] at hfin
  have hbound' := hbound
  rw [hfin] at hbound'
  rcases g10 with g10 | g10 <;> subst g10 <;> cases rready <;>
    simp [Inv, Good, sys, sysOut, toSlave, toMaster, next, nextFsm, reset, init, rdataOut, AxlMem.out, AxlMem.next,
      AxlGhost.next, AxlGhost.rspHeld, AxlS.idle, AxlM.idle, respOkay, hp, hfin, hbound', h2, g1, g6, partial_,
      g8.symm]

theorem step (hr : 0 < c.ratio) (s : Sys) (i : AxlM × AxlOracle) (hinv : Inv c s) (hok : s.g.reqHeld i.1) :
    Good c s i ∧ Inv c ((sys c s.g.ref).next s i) := by
  rcases hst : s.br.st with _ | _ | _ | _
  · exact step_a c hr s i hinv hok (Or.inl hst)
  · exact step_a c hr s i hinv hok (Or.inr hst)
  · exact step_b c hr s i hinv hok hst
  · exact step_c c hr s i hinv hok hst

end Litex.Bridge.DownR
