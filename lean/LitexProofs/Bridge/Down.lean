import LitexModel.Bridge.Closed
/-
  Proofs for the AXI-Lite down-converter.
-/
namespace Litex.Bridge.DownW
open Litex Litex.Bridge

variable (c : DownCfg)

/-- Invariant of the write path over a narrow byte memory. -/
def Inv (s : Sys) : Prop :=
  s.br.resp = respOkay ∧ s.p.arq = [] ∧ s.p.rq = [] ∧ s.g.heldR = none ∧ s.g.pendAR = none ∧
  match s.br.st with
  | .idle =>
    s.br.awReady = false ∧ s.br.wReady = false ∧ s.p.awq = [] ∧ s.p.wq = [] ∧ s.p.bq = [] ∧ s.p.mem = s.g.ref ∧
    s.g.pendAW = none ∧ s.g.pendW = none ∧ s.g.heldB = none
  | .convert =>
    s.br.counter < c.ratio ∧ s.p.bq = [] ∧ s.g.pendAW = none ∧ s.g.pendW = none ∧ s.g.heldB = none ∧
    ∃ a w, s.g.heldAW = some a ∧ s.g.heldW = some w ∧
      s.p.mem = subWrites c a w.1 w.2 s.br.counter s.g.ref ∧
      s.p.awq = (if s.br.awReady then [c.subAddr a s.br.counter] else []) ∧
      s.p.wq = (if s.br.wReady then [(sd c w.1 s.br.counter, ss c w.2 s.br.counter)] else []) ∧
      (s.br.awReady && s.br.wReady) = false ∧
      ((ss c w.2 s.br.counter == 0) = true → s.br.awReady = false ∧ s.br.wReady = false)
  | .respSlave =>
    s.br.counter < c.ratio ∧ s.g.pendAW = none ∧ s.g.pendW = none ∧ s.g.heldB = none ∧
    ∃ a w, s.g.heldAW = some a ∧ s.g.heldW = some w ∧ (ss c w.2 s.br.counter == 0) = false ∧
      ((s.p.awq = [c.subAddr a s.br.counter] ∧ s.p.wq = [(sd c w.1 s.br.counter, ss c w.2 s.br.counter)] ∧
          s.p.bq = [] ∧ s.p.mem = subWrites c a w.1 w.2 s.br.counter s.g.ref) ∨
       (s.p.awq = [] ∧ s.p.wq = [] ∧ s.p.bq = [respOkay] ∧
          s.p.mem = subWrites c a w.1 w.2 (s.br.counter + 1) s.g.ref))
  | .respMaster =>
    s.p.awq = [] ∧ s.p.wq = [] ∧ s.p.bq = [] ∧ (s.g.heldB = none ∨ s.g.heldB = some respOkay) ∧
    ∃ a w, s.g.pendAW = some a ∧ s.g.pendW = some w ∧ s.p.mem = wideWr c s.g.ref a w.2 w.1

def Good (s : Sys) (i : AxlM × AxlOracle) : Prop :=
  s.g.rspHeld (sysOut c s i).1 ∧
  ((sysOut c s i).1.bvalid = true → s.g.pendAW.isSome ∧ s.g.pendW.isSome ∧ (sysOut c s i).1.bresp = respOkay) ∧
  (i.1.awvalid = true → (sysOut c s i).1.awready = true → s.g.pendAW = none) ∧
  (i.1.wvalid = true → (sysOut c s i).1.wready = true → s.g.pendW = none) ∧
  (s.br.st = .idle → s.p.mem = s.g.ref)

theorem subStrb_eq (s : DownWState) (m : AxlM) : subStrb c s m = ss c m.wstrb s.counter := rfl
theorem subData_eq (s : DownWState) (m : AxlM) : subData c s m = sd c m.wdata s.counter := rfl

set_option maxHeartbeats 1000000 in
theorem step_convert (hr : 0 < c.ratio) (s : Sys) (i : AxlM × AxlOracle) (hinv : Inv c s) (hok : s.g.reqHeld i.1)
    (hst : s.br.st = .convert) : Good c s i ∧ Inv c ((sys c s.g.ref).next s i) := by
  obtain ⟨⟨st, counter, awReady, wReady, resp⟩, ⟨mem, awq, wq, bq, arq, rq, bheld, rheld⟩,
    ⟨heldAW, heldW, heldAR, heldB, heldR, pendAW, pendW, pendAR, ref⟩⟩ := s
  obtain ⟨⟨awvalid, awaddr, wvalid, wdata, wstrb, bready, arvalid, araddr, rready⟩,
    ⟨oawready, owready, oarready, wexec, rexec, bgo, rgo⟩⟩ := i
  simp only at hst
  subst hst
  obtain ⟨hresp, harq, hrq, hheldR, hpendAR, hinv⟩ := hinv
  simp only at hresp harq hrq hheldR hpendAR
  subst hresp harq hrq hheldR hpendAR
  simp only [AxlGhost.reqHeld] at hok
  simp only at hinv
  obtain ⟨hc, hbq, hpa, hpw, hhb, a, ⟨d, st⟩, hAW, hW, hmem, hawq, hwq, hnot, hskf⟩ := hinv
  simp only at hmem hawq hwq hskf
  have ha' := hok.1 a hAW
  have hw' := hok.2.1 (d, st) hW
  simp only [Prod.mk.injEq] at hw'
  obtain ⟨hav, rfl⟩ := ha'
  obtain ⟨hwv, rfl, rfl⟩ := hw'
  subst hav hwv hbq hpa hpw hhb hmem hawq hwq
  by_cases hsk : ss c wstrb counter = 0
  · -- skipped sub-word
    obtain ⟨rfl, rfl⟩ := hskf (by simp [hsk])
    by_cases hl : counter = c.ratio - 1
    · have h2 : c.ratio = counter + 1 := by omega
      simp [Inv, Good, sys, sysOut, toSlave, toMaster, next, nextFsm, reset, init, skip, lastWord, subStrb_eq, subData_eq,
        AxlMem.out, AxlMem.next, AxlGhost.next, AxlGhost.rspHeld, AxlS.idle, AxlM.idle, subWrites, subWrite, wideWr,
        hsk, ← hl, h2]
    · have h3 : counter + 1 < c.ratio := by omega
      have h2 : (counter + 1) % c.ratio = counter + 1 := Nat.mod_eq_of_lt h3
      simp [Inv, Good, sys, sysOut, toSlave, toMaster, next, nextFsm, reset, init, skip, lastWord, subStrb_eq, subData_eq,
        AxlMem.out, AxlMem.next, AxlGhost.next, AxlGhost.rspHeld, AxlS.idle, AxlM.idle, subWrites, subWrite, wideWr,
        hsk, hl, h2, h3]
  · -- sub-word to be written
    cases awReady <;> cases wReady <;> cases oawready <;> cases owready <;>
      simp [Inv, Good, sys, sysOut, toSlave, toMaster, next, nextFsm, reset, init, skip, lastWord, subStrb_eq, subData_eq,
        AxlMem.out, AxlMem.next, AxlGhost.next, AxlGhost.rspHeld, AxlS.idle, AxlM.idle, subWrites, subWrite, wideWr,
        hsk, hc] at hnot ⊢

set_option maxHeartbeats 1000000 in
theorem step_other (hr : 0 < c.ratio) (s : Sys) (i : AxlM × AxlOracle) (hinv : Inv c s) (hok : s.g.reqHeld i.1)
    (hst : s.br.st ≠ .convert) : Good c s i ∧ Inv c ((sys c s.g.ref).next s i) := by
  obtain ⟨⟨st, counter, awReady, wReady, resp⟩, ⟨mem, awq, wq, bq, arq, rq, bheld, rheld⟩,
    ⟨heldAW, heldW, heldAR, heldB, heldR, pendAW, pendW, pendAR, ref⟩⟩ := s
  obtain ⟨⟨awvalid, awaddr, wvalid, wdata, wstrb, bready, arvalid, araddr, rready⟩,
    ⟨oawready, owready, oarready, wexec, rexec, bgo, rgo⟩⟩ := i
  obtain ⟨hresp, harq, hrq, hheldR, hpendAR, hinv⟩ := hinv
  simp only at hresp harq hrq hheldR hpendAR hst
  subst hresp harq hrq hheldR hpendAR
  simp only [AxlGhost.reqHeld] at hok
  cases st
  case convert => exact absurd rfl hst
  case idle =>
    simp only at hinv
    obtain ⟨h1, h2, h3, h4, h5, h6, h7, h8, h9⟩ := hinv
    subst h1 h2 h3 h4 h5 h6 h7 h8 h9
    cases awvalid <;> cases wvalid <;>
      simp [Inv, Good, sys, sysOut, toSlave, toMaster, next, nextFsm, reset, init, AxlMem.out, AxlMem.next,
        AxlGhost.next, AxlGhost.rspHeld, AxlS.idle, AxlM.idle, subWrites, hr]
  case respSlave =>
    simp only at hinv
    obtain ⟨hc, hpa, hpw, hhb, a, ⟨d, st⟩, hAW, hW, hsk, hp⟩ := hinv
    simp only at hsk hp
    have ha' := hok.1 a hAW
    have hw' := hok.2.1 (d, st) hW
    simp only [Prod.mk.injEq] at hw'
    obtain ⟨hav, rfl⟩ := ha'
    obtain ⟨hwv, rfl, rfl⟩ := hw'
    subst hav hwv hpa hpw hhb
    have hsk' : ¬ ss c wstrb counter = 0 := by simpa using hsk
    rcases hp with ⟨h1, h2, h3, h4⟩ | ⟨h1, h2, h3, h4⟩
    · subst h1 h2 h3 h4
      cases wexec <;>
        simp [Inv, Good, sys, sysOut, toSlave, toMaster, next, nextFsm, reset, init, skip, lastWord, subStrb_eq,
          subData_eq, AxlMem.out, AxlMem.next, AxlGhost.next, AxlGhost.rspHeld, AxlS.idle, AxlM.idle, subWrites,
          subWrite, wideWr, hsk', hc]
    · subst h1 h2 h3 h4
      by_cases hl : counter = c.ratio - 1
      · have h2 : c.ratio = counter + 1 := by omega
        cases bheld <;> cases bgo <;>
          simp [Inv, Good, sys, sysOut, toSlave, toMaster, next, nextFsm, reset, init, skip, lastWord, subStrb_eq,
            subData_eq, AxlMem.out, AxlMem.next, AxlGhost.next, AxlGhost.rspHeld, AxlS.idle, AxlM.idle, subWrites,
            subWrite, wideWr, hsk', hc, h2, respOkay]
      · have h3 : counter + 1 < c.ratio := by omega
        have h2 : (counter + 1) % c.ratio = counter + 1 := Nat.mod_eq_of_lt h3
        cases bheld <;> cases bgo <;>
          simp [Inv, Good, sys, sysOut, toSlave, toMaster, next, nextFsm, reset, init, skip, lastWord, subStrb_eq,
            subData_eq, AxlMem.out, AxlMem.next, AxlGhost.next, AxlGhost.rspHeld, AxlS.idle, AxlM.idle, subWrites,
            subWrite, wideWr, hsk', hc, hl, h2, h3, respOkay]
  case respMaster =>
    simp only at hinv
    obtain ⟨h1, h2, h3, h4, a, ⟨d, st⟩, h5, h6, h7⟩ := hinv
    simp only at h7
    subst h1 h2 h3 h5 h6 h7
    rcases h4 with h4 | h4 <;> subst h4 <;> cases bready <;>
      simp [Inv, Good, sys, sysOut, toSlave, toMaster, next, nextFsm, reset, init, AxlMem.out, AxlMem.next,
        AxlGhost.next, AxlGhost.rspHeld, AxlS.idle, AxlM.idle, respOkay]

theorem step (hr : 0 < c.ratio) (s : Sys) (i : AxlM × AxlOracle) (hinv : Inv c s) (hok : s.g.reqHeld i.1) :
    Good c s i ∧ Inv c ((sys c s.g.ref).next s i) := by
  by_cases hst : s.br.st = .convert
  · exact step_convert c hr s i hinv hok hst
  · exact step_other c hr s i hinv hok hst

end Litex.Bridge.DownW
