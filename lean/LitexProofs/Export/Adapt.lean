import LitexModel.Export.Adapt
/-
  C14 — helper lemmas for the adapter address chain and the JSON word count.
-/
namespace Litex.Export

theorem div_lt_pow_sub (a sh aw : Nat) (h : a < 2 ^ aw) (hs : sh ≤ aw) : a / 2 ^ sh < 2 ^ (aw - sh) := by
  have e : 2 ^ aw = 2 ^ sh * 2 ^ (aw - sh) := by rw [← Nat.pow_add]; congr 1; omega
  exact Nat.div_lt_of_lt_mul (e ▸ h)

theorem div_mul_lt_pow (a sh aw : Nat) (h : a < 2 ^ aw) : a / 2 ^ sh * 2 ^ sh < 2 ^ aw :=
  Nat.lt_of_le_of_lt (Nat.div_mul_le_self a (2 ^ sh)) h

/-- Whatever the master is, the SoC bus sees the access's own bus word (the byte address itself or its bus-word base). -/
theorem masterBus_cases (mk : MasterKind) (busByte : Bool) (sh aw a : Nat) (h : a < 2 ^ aw) (hs : sh ≤ aw) :
    masterBus mk busByte sh aw a = a ∨ masterBus mk busByte sh aw a = a / 2 ^ sh * 2 ^ sh := by
  have hd := div_lt_pow_sub a sh aw h hs
  have hm := div_mul_lt_pow a sh aw h
  cases mk <;> cases busByte <;>
    simp [masterBus, convM2S, wb2axil, axil2wb, Nat.mod_eq_of_lt h, Nat.mod_eq_of_lt hd, Nat.mod_eq_of_lt hm]

theorem masterBus_spec (mk : MasterKind) (busByte : Bool) (sh aw a : Nat) (h : a < 2 ^ aw) (hs : sh ≤ aw) :
    masterBus mk busByte sh aw a / 2 ^ sh = a / 2 ^ sh ∧ masterBus mk busByte sh aw a < 2 ^ aw := by
  rcases masterBus_cases mk busByte sh aw a h hs with e | e <;> rw [e]
  · exact ⟨rfl, h⟩
  · exact ⟨Nat.mul_div_cancel _ (Nat.two_pow_pos sh), div_mul_lt_pow a sh aw h⟩

/-- The slave-side adapters hand the slave exactly the bus-word index of the byte address. -/
theorem chainWord_eq (kind : SlaveKind) (busByte : Bool) (sh aw b : Nat) (h : b < 2 ^ aw) (hs : sh ≤ aw) :
    chainWord kind busByte sh aw b = b / 2 ^ sh := by
  have hd := div_lt_pow_sub b sh aw h hs
  cases kind <;> cases busByte <;>
    simp [chainWord, convS2M, wb2axil, axil2wb, Nat.mod_eq_of_lt h, Nat.mod_eq_of_lt hd,
      Nat.mul_div_cancel _ (Nat.two_pow_pos sh)]

theorem div_split (a shS shB : Nat) (hs : shS ≤ shB) :
    a / 2 ^ shB * 2 ^ (shB - shS) + (a / 2 ^ shS) % 2 ^ (shB - shS) = a / 2 ^ shS := by
  have e : 2 ^ shB = 2 ^ shS * 2 ^ (shB - shS) := by rw [← Nat.pow_add]; congr 1; omega
  rw [e, ← Nat.div_div_eq_div_mul]
  exact Nat.div_add_mod' _ _

theorem slaveCell_eq (mk : MasterKind) (kind : SlaveKind) (busByte : Bool) (shS shB aw cb a : Nat)
    (h : a < 2 ^ aw) (h1 : shS ≤ shB) (h2 : shB ≤ aw) :
    slaveCell mk kind busByte shS shB aw cb a = (a / 2 ^ shS) % 2 ^ cb := by
  obtain ⟨e1, e2⟩ := masterBus_spec mk busByte shB aw a h h2
  unfold slaveCell
  rw [chainWord_eq kind busByte shB aw _ e2 h2, e1, div_split a shS shB h1]

/-- `Σ_{i<n} min(size - i·bw, bw) = min(size, n·bw)`. -/
theorem chunks_sum (bw size : Nat) : ∀ n, ((List.range n).map fun i => min (size - i * bw) bw).sum = min size (n * bw) := by
  intro n
  induction n with
  | zero => simp
  | succ n ih =>
    rw [List.range_succ, List.map_append, List.sum_append, ih, Nat.succ_mul]
    simp only [List.map_cons, List.map_nil, List.sum_cons, List.sum_nil, Nat.add_zero]
    omega

end Litex.Export
