import LitexModel.Export.Soc
import LitexProofs.Export.Addr
import LitexProofs.Soc.LocInv
import LitexProofs.Soc.Decoder
import Mathlib.Data.List.Nodup
/-
  Helper lemmas for the SoC-level exports of C14 (interrupt numbers, memory regions, SVD kinds, constants).
-/
namespace Litex.Export
open Litex.Soc

theorem filter_eq_singleton {α : Type} (P : α → Bool) : ∀ (l : List α) (x : α), l.Nodup → x ∈ l → P x = true →
    (∀ y ∈ l, y ≠ x → P y = false) → l.filter P = [x] := by
  intro l
  induction l with
  | nil => intro x _ hx; cases hx
  | cons a rest ih =>
    intro x hnd hx hpx hother
    rw [List.nodup_cons] at hnd
    rcases List.mem_cons.1 hx with rfl | hin
    · have hrest : rest.filter P = [] := by
        rw [List.filter_eq_nil_iff]
        intro y hy
        have : y ≠ x := fun h => hnd.1 (h ▸ hy)
        simp [hother y (List.mem_cons_of_mem _ hy) this]
      simp [List.filter_cons, hpx, hrest]
    · have hax : a ≠ x := fun h => hnd.1 (h ▸ hin)
      have hpa : P a = false := hother a (by simp) hax
      rw [List.filter_cons, hpa]
      simpa using ih x hnd.2 hin hpx (fun y hy hne => hother y (List.mem_cons_of_mem _ hy) hne)

theorem nodup_of_nodup_map_fst {α β : Type} (l : List (α × β)) (h : (l.map (·.1)).Nodup) : l.Nodup :=
  List.Nodup.of_map _ h

theorem le_foldl_max (l : List Int) : ∀ (init x : Int), (x ∈ l ∨ x ≤ init) → x ≤ l.foldl max init := by
  induction l with
  | nil => intro init x h; rcases h with h | h; · cases h
           · simpa using h
  | cons a rest ih =>
    intro init x h
    rw [List.foldl_cons]
    apply ih
    rcases h with h | h
    · rcases List.mem_cons.1 h with rfl | h'
      · right; exact Int.le_max_right _ _
      · left; exact h'
    · right; exact Int.le_trans h (Int.le_max_left _ _)

/-- Two entries with the same name in a list with distinct names are the same entry. -/
theorem eq_of_mem_nodup_fst {α β : Type} : ∀ (l : List (α × β)), (l.map (·.1)).Nodup →
    ∀ p q, p ∈ l → q ∈ l → p.1 = q.1 → p = q := by
  intro l
  induction l with
  | nil => intro _ p q hp; cases hp
  | cons a rest ih =>
    intro hnd p q hp hq hpq
    rw [List.map_cons, List.nodup_cons] at hnd
    rcases List.mem_cons.1 hp with rfl | hp' <;> rcases List.mem_cons.1 hq with rfl | hq'
    · rfl
    · exact absurd (List.mem_map_of_mem (f := (·.1)) hq') (hpq ▸ hnd.1)
    · exact absurd (List.mem_map_of_mem (f := (·.1)) hp') (hpq ▸ hnd.1)
    · exact ih hnd.2 p q hp' hq' hpq

theorem eq_of_mem_nodup_snd {α β : Type} : ∀ (l : List (α × β)), (l.map (·.2)).Nodup →
    ∀ p q, p ∈ l → q ∈ l → p.2 = q.2 → p = q := by
  intro l
  induction l with
  | nil => intro _ p q hp; cases hp
  | cons a rest ih =>
    intro hnd p q hp hq hpq
    rw [List.map_cons, List.nodup_cons] at hnd
    rcases List.mem_cons.1 hp with rfl | hp' <;> rcases List.mem_cons.1 hq with rfl | hq'
    · rfl
    · exact absurd (List.mem_map_of_mem (f := (·.2)) hq') (hpq ▸ hnd.1)
    · exact absurd (List.mem_map_of_mem (f := (·.2)) hp') (hpq ▸ hnd.1)
    · exact ih hnd.2 p q hp' hq' hpq

/-! ### SVD with kinds -/

theorem svdOffsetsK_flat (bw org : Nat) (hbw : 0 < bw) : ∀ (regs : List (Nat × Bool)) (a : Nat),
    (∀ r ∈ regs, 0 < r.1 ∧ (r.2 = true ∨ nwords bw r.1 = 1)) →
    (svdOffsetsK bw a regs).map (org + ·) = flatWordAddrs 4 (regAddrs 4 bw (org + a) (regs.map (·.1))) := by
  intro regs
  induction regs with
  | nil => intro a _; rfl
  | cons r rest ih =>
    intro a h
    have hr := h r (by simp)
    have hn : svdEntries bw r = nwords bw r.1 := by
      unfold svdEntries
      have hpos := nwords_pos bw r.1 hbw hr.1
      by_cases hgt : nwords bw r.1 > 1
      · rcases hr.2 with hc | h1
        · simp [hc, hgt]
        · omega
      · have : nwords bw r.1 = 1 := by omega
        simp [this]
    simp only [svdOffsetsK, hn, List.map_cons, regAddrs, flatWordAddrs, List.flatMap_cons, List.map_append, List.map_map]
    congr 1
    · apply List.map_congr_left
      intro j _
      simp only [Function.comp, wordAddr]; omega
    · have := ih (a + 4 * nwords bw r.1) (fun x hx => h x (by simp [hx]))
      simp only [flatWordAddrs] at this
      rw [this, Nat.add_assoc]

/-! ### constants -/

theorem addConstant_nodup {ν : Type} [DecidableEq ν] (cs cs' : List (ν × Int)) (n : ν) (v : Int)
    (h : addConstant cs n v = some cs') (hnd : (cs.map (·.1)).Nodup) :
    (cs'.map (·.1)).Nodup ∧ cs' = cs ++ [(n, v)] := by
  unfold addConstant at h
  split at h
  · cases h
  · rename_i hany
    cases h
    refine ⟨?_, rfl⟩
    rw [List.map_append, List.nodup_append]
    refine ⟨hnd, by simp, ?_⟩
    intro a ha b hb
    simp at hb
    subst hb
    intro hab
    apply hany
    obtain ⟨p, hp, rfl⟩ := List.mem_map.1 ha
    exact List.any_eq_true.2 ⟨p, hp, by simp [hab]⟩

theorem addConstants_nodup {ν : Type} [DecidableEq ν] : ∀ (l cs cs' : List (ν × Int)),
    addConstants cs l = some cs' → (cs.map (·.1)).Nodup → (cs'.map (·.1)).Nodup ∧ cs' = cs ++ l := by
  intro l
  induction l with
  | nil => intro cs cs' h hnd; simp [addConstants] at h; subst h; exact ⟨hnd, by simp⟩
  | cons p rest ih =>
    intro cs cs' h hnd
    obtain ⟨n, v⟩ := p
    simp only [addConstants] at h
    cases h1 : addConstant cs n v with
    | none => rw [h1] at h; cases h
    | some c1 =>
      rw [h1] at h
      obtain ⟨hnd1, hc1⟩ := addConstant_nodup cs c1 n v h1 hnd
      obtain ⟨hnd', hc'⟩ := ih c1 cs' h hnd1
      exact ⟨hnd', by rw [hc', hc1, List.append_assoc]; rfl⟩

end Litex.Export
