import LitexModel.Export.Accessor
import Mathlib.Tactic.Ring
import Mathlib.Tactic.Linarith
/-
  Helper lemmas for C14: the generated accessors against the register words.
-/
namespace Litex.Export

/-- `F (n-1), F (n-2), …, F 0`: the order in which a big-ordered register presents its words at ascending
    addresses, and the order in which the generated writer stores them. -/
def descList (F : Nat → Nat) (n : Nat) : List Nat := (List.range n).map fun j => F (n - 1 - j)

theorem descList_succ (F : Nat → Nat) (n : Nat) : descList F (n + 1) = F n :: descList F n := by
  unfold descList
  rw [List.range_succ_eq_map, List.map_cons, List.map_map]
  congr 1
  apply List.map_congr_left
  intro j _
  simp only [Function.comp, Nat.succ_eq_add_one]
  congr 1
  omega

/-! ### reading -/

/-- Horner evaluation by the generated reader: no truncation happens while the value fits the C type. -/
theorem foldl_accStep (bw ct : Nat) (g : Nat → Nat) (hbw : bw ≤ 32) :
    ∀ (n r0 : Nat), (∀ i, i < n → g i < 2 ^ bw) → (r0 + 1) * 2 ^ (n * bw) ≤ 2 ^ ct →
      (descList g n).foldl (accStep bw ct) r0 = r0 * 2 ^ (n * bw) + sumWords bw g n := by
  intro n
  induction n with
  | zero => intro r0 _ _; simp [descList, sumWords]
  | succ n ih =>
    intro r0 hg hfit
    rw [descList_succ, List.foldl_cons]
    have hx : g n < 2 ^ bw := hg n (Nat.lt_succ_self n)
    have hx32 : g n < 2 ^ 32 := Nat.lt_of_lt_of_le hx (Nat.pow_le_pow_right (by decide) hbw)
    have hpow : 2 ^ ((n + 1) * bw) = 2 ^ bw * 2 ^ (n * bw) := by
      rw [Nat.add_mul, Nat.one_mul, Nat.add_comm, Nat.pow_add]
    have hpos : 0 < 2 ^ (n * bw) := Nat.two_pow_pos _
    have hposb : 0 < 2 ^ bw := Nat.two_pow_pos _
    have hfit' : (r0 + 1) * 2 ^ bw * 2 ^ (n * bw) ≤ 2 ^ ct := by
      rw [hpow] at hfit; rw [Nat.mul_assoc]; exact hfit
    have hr1 : (r0 + 1) * 2 ^ bw ≤ 2 ^ ct :=
      Nat.le_trans (Nat.le_mul_of_pos_right _ hpos) hfit'
    have hstep : accStep bw ct r0 (g n) = r0 * 2 ^ bw + g n := by
      unfold accStep
      rw [Nat.shiftLeft_eq, Nat.mod_eq_of_lt hx32]
      have h1 : r0 * 2 ^ bw < 2 ^ ct := by
        have : r0 * 2 ^ bw < (r0 + 1) * 2 ^ bw := Nat.mul_lt_mul_of_pos_right (Nat.lt_succ_self _) hposb
        omega
      rw [Nat.mod_eq_of_lt h1]
      have h2 := Nat.shiftLeft_add_eq_or_of_lt hx r0
      rw [Nat.shiftLeft_eq] at h2
      rw [← h2]
      apply Nat.mod_eq_of_lt
      have : r0 * 2 ^ bw + g n < (r0 + 1) * 2 ^ bw := by rw [Nat.add_mul, Nat.one_mul]; omega
      omega
    rw [hstep]
    have hfit1 : (r0 * 2 ^ bw + g n + 1) * 2 ^ (n * bw) ≤ 2 ^ ct := by
      have : r0 * 2 ^ bw + g n + 1 ≤ (r0 + 1) * 2 ^ bw := by rw [Nat.add_mul, Nat.one_mul]; omega
      exact Nat.le_trans (Nat.mul_le_mul_right _ this) hfit'
    rw [ih (r0 * 2 ^ bw + g n) (fun i hi => hg i (Nat.lt_succ_of_lt hi)) hfit1]
    simp only [sumWords]
    rw [hpow]
    ring

/-- The generated reader applied to the words `g (n-1), …, g 0` returns `Σ g i · 2^(i·bw)`. -/
theorem accRead_descList (bw ct n : Nat) (g : Nat → Nat) (hbw : bw ≤ 32)
    (hg : ∀ i, i < n → g i < 2 ^ bw) (hfit : 2 ^ (n * bw) ≤ 2 ^ ct) :
    accRead bw ct (descList g n) = sumWords bw g n := by
  cases n with
  | zero => simp [descList, accRead, sumWords]
  | succ n =>
    rw [descList_succ]
    simp only [accRead]
    have hx : g n < 2 ^ bw := hg n (Nat.lt_succ_self n)
    have hx32 : g n < 2 ^ 32 := Nat.lt_of_lt_of_le hx (Nat.pow_le_pow_right (by decide) hbw)
    have hpow : 2 ^ ((n + 1) * bw) = 2 ^ bw * 2 ^ (n * bw) := by
      rw [Nat.add_mul, Nat.one_mul, Nat.add_comm, Nat.pow_add]
    have hpos : 0 < 2 ^ (n * bw) := Nat.two_pow_pos _
    have hfit' : 2 ^ bw * 2 ^ (n * bw) ≤ 2 ^ ct := by rw [← hpow]; exact hfit
    have hxct : g n < 2 ^ ct := by
      have : 2 ^ bw ≤ 2 ^ bw * 2 ^ (n * bw) := Nat.le_mul_of_pos_right _ hpos
      omega
    rw [Nat.mod_eq_of_lt hx32, Nat.mod_eq_of_lt hxct]
    have hfit1 : (g n + 1) * 2 ^ (n * bw) ≤ 2 ^ ct :=
      Nat.le_trans (Nat.mul_le_mul_right _ hx) hfit'
    rw [foldl_accStep bw ct g hbw n (g n) (fun i hi => hg i (Nat.lt_succ_of_lt hi)) hfit1]
    simp only [sumWords]
    ring

/-! ### the words of a register -/

/-- `nwords` is the ceiling division. -/
theorem nwords_spec (bw size : Nat) (hbw : 0 < bw) (hs : 0 < size) :
    (nwords bw size - 1) * bw < size ∧ size ≤ nwords bw size * bw ∧ 0 < nwords bw size := by
  unfold nwords
  have h1 := Nat.div_mul_le_self (size + bw - 1) bw
  have h2 := Nat.lt_mul_div_succ (size + bw - 1) hbw
  rw [Nat.mul_add, Nat.mul_one, Nat.mul_comm] at h2
  have h3 : 0 < (size + bw - 1) / bw := Nat.div_pos (by omega) hbw
  refine ⟨?_, by omega, h3⟩
  rw [Nat.sub_mul, Nat.one_mul]
  omega

/-- Words below the top one are full bus words. -/
theorem nbits_full (bw size i : Nat) (h : (i + 1) * bw ≤ size) : nbits bw size i = bw := by
  unfold nbits
  rw [Nat.add_mul, Nat.one_mul] at h
  omega

theorem hwWord_lt (bw size v i : Nat) : hwWord bw size v i < 2 ^ bw := by
  unfold hwWord
  apply Nat.lt_of_lt_of_le (Nat.mod_lt _ (Nat.two_pow_pos _))
  apply Nat.pow_le_pow_right (by decide)
  unfold nbits; omega

/-- The full words reassemble the low part of the value. -/
theorem sumWords_low (bw size v : Nat) : ∀ m, m * bw ≤ size → sumWords bw (hwWord bw size v) m = v % 2 ^ (m * bw) := by
  intro m
  induction m with
  | zero => intro _; simp [sumWords, Nat.mod_one]
  | succ m ih =>
    intro h
    have hm : m * bw ≤ size := by rw [Nat.add_mul, Nat.one_mul] at h; omega
    simp only [sumWords]
    rw [ih hm]
    unfold hwWord
    rw [nbits_full bw size m h]
    have : 2 ^ ((m + 1) * bw) = 2 ^ (m * bw) * 2 ^ bw := by rw [Nat.add_mul, Nat.one_mul, Nat.pow_add]
    rw [this, Nat.mod_mul]
    ring

/-- All words of a register reassemble its value. -/
theorem sumWords_hwWord (bw size v : Nat) (hbw : 0 < bw) (hs : 0 < size) (hv : v < 2 ^ size) :
    sumWords bw (hwWord bw size v) (nwords bw size) = v := by
  obtain ⟨h1, h2, h3⟩ := nwords_spec bw size hbw hs
  obtain ⟨m, hm⟩ : ∃ m, nwords bw size = m + 1 := ⟨nwords bw size - 1, by omega⟩
  rw [hm] at h1 h2 ⊢
  simp only [Nat.add_sub_cancel] at h1
  simp only [sumWords]
  rw [sumWords_low bw size v m (Nat.le_of_lt h1)]
  unfold hwWord nbits
  have hmin : min (size - m * bw) bw = size - m * bw := by
    rw [Nat.add_mul, Nat.one_mul] at h2; omega
  rw [hmin]
  have hsz : 2 ^ size = 2 ^ (m * bw) * 2 ^ (size - m * bw) := by
    rw [← Nat.pow_add]; congr 1; omega
  have := @Nat.mod_mul (2 ^ (m * bw)) (2 ^ (size - m * bw)) v
  rw [← hsz, Nat.mod_eq_of_lt hv] at this
  rw [Nat.mul_comm (v / 2 ^ (m * bw) % 2 ^ (size - m * bw))]
  exact this.symm

/-! ### writing -/

/-- Non-atomic register: storing `w i` into word `i` for `i = n-1, …, 0` leaves `w i mod 2^nbits` in every word
    below `n` and does not touch the others. -/
theorem write_desc_plain (bw size : Nat) (w : Nat → Nat) :
    ∀ (n : Nat) (st : RegSt),
      ((descList (fun i => i) n).foldl (fun s i => s.write bw size false i (w i)) st).words =
        fun k => if k < n then w k % 2 ^ nbits bw size k else st.words k := by
  intro n
  induction n with
  | zero => intro st; funext k; simp [descList]
  | succ n ih =>
    intro st
    rw [descList_succ, List.foldl_cons, ih]
    funext k
    simp only [RegSt.write, Bool.false_and, Bool.false_eq_true, if_false]
    by_cases h1 : k < n
    · simp [h1, Nat.lt_succ_of_lt h1]
    · by_cases h2 : k = n
      · subst h2; simp
      · have : ¬ k < n + 1 := by omega
        simp [h1, h2, this]

/-- Atomic register (`nwords > 1`): the stores to words `n-1, …, 1` fill the back-buffer, the store to word 0
    commits all of them. -/
theorem write_desc_atomic (bw size : Nat) (w : Nat → Nat) (hat : nwords bw size > 1) :
    ∀ (n : Nat) (st : RegSt),
      ((descList (fun i => i) (n + 1)).foldl (fun s i => s.write bw size true i (w i)) st).words =
        fun k => if k < n + 1 then w k % 2 ^ nbits bw size k else st.back k := by
  intro n
  induction n with
  | zero =>
    intro st
    funext k
    simp only [descList, RegSt.write, hat, decide_true, Bool.and_self, if_true]
    by_cases h : k = 0 <;> simp [h]
  | succ n ih =>
    intro st
    rw [descList_succ, List.foldl_cons, ih]
    funext k
    have hne : n + 1 ≠ 0 := by omega
    simp only [RegSt.write, hat, decide_true, Bool.and_self, if_true, hne, if_false]
    by_cases h1 : k < n + 1
    · simp [h1, Nat.lt_succ_of_lt h1]
    · by_cases h2 : k = n + 1
      · subst h2; simp
      · have : ¬ k < n + 1 + 1 := by omega
        simp [h1, h2, this]

theorem sumWords_congr (bw : Nat) (f g : Nat → Nat) : ∀ n, (∀ i, i < n → f i = g i) → sumWords bw f n = sumWords bw g n := by
  intro n
  induction n with
  | zero => intro _; rfl
  | succ n ih =>
    intro h
    simp only [sumWords]
    rw [ih (fun i hi => h i (Nat.lt_succ_of_lt hi)), h n (Nat.lt_succ_self n)]

end Litex.Export
