import LitexModel.Export.MemImage
import Mathlib.Tactic.Ring
/-
  Helper lemmas for C14: digit extraction from `catW` and the byte lanes of `get_mem_data` words.
-/
namespace Litex.Export

theorem catW_lt (w : Nat) (l : List Nat) (h : ∀ d ∈ l, d < 2 ^ w) : catW w l < 2 ^ (w * l.length) := by
  induction l with
  | nil => simp [catW]
  | cons d rest ih =>
    have hd := h d (by simp)
    have hr := ih (fun x hx => h x (by simp [hx]))
    simp only [catW, List.length_cons]
    have : 2 ^ (w * (rest.length + 1)) = 2 ^ w * 2 ^ (w * rest.length) := by
      rw [Nat.mul_add, Nat.mul_one, Nat.add_comm, Nat.pow_add]
    rw [this]
    have h1 : 2 ^ w * (catW w rest + 1) ≤ 2 ^ w * 2 ^ (w * rest.length) := Nat.mul_le_mul_left _ hr
    rw [Nat.mul_add, Nat.mul_one] at h1
    omega

/-- Digit `s` of `catW w l` is element `s` of `l`. -/
theorem catW_digit (w : Nat) : ∀ (l : List Nat) (s : Nat), (∀ d ∈ l, d < 2 ^ w) →
    (catW w l / 2 ^ (w * s)) % 2 ^ w = l.getD s 0 := by
  intro l
  induction l with
  | nil => intro s _; simp [catW]
  | cons d rest ih =>
    intro s h
    have hd := h d (by simp)
    have hpos : 0 < 2 ^ w := Nat.two_pow_pos w
    cases s with
    | zero =>
      simp only [catW, Nat.mul_zero, Nat.pow_zero, Nat.div_one, List.getD_cons_zero]
      rw [Nat.add_mul_mod_self_left, Nat.mod_eq_of_lt hd]
    | succ s =>
      simp only [catW, List.getD_cons_succ]
      have : 2 ^ (w * (s + 1)) = 2 ^ w * 2 ^ (w * s) := by
        rw [Nat.mul_add, Nat.mul_one, Nat.add_comm, Nat.pow_add]
      rw [this, ← Nat.div_div_eq_div_mul]
      have : (d + 2 ^ w * catW w rest) / 2 ^ w = catW w rest := by
        rw [Nat.add_comm, Nat.mul_add_div hpos, Nat.div_eq_of_lt hd, Nat.add_zero]
      rw [this]
      exact ih s (fun x hx => h x (by simp [hx]))

theorem getD_lt (bytes : List Nat) (h : ∀ b ∈ bytes, b < 256) (k : Nat) : bytes.getD k 0 < 2 ^ 8 := by
  rw [List.getD_eq_getElem?_getD]
  cases hk : bytes[k]? with
  | none => simp
  | some b => simp; exact h b (List.mem_of_getElem? hk)

theorem sub32_lt (big : Bool) (bytes : List Nat) (h : ∀ b ∈ bytes, b < 256) (off : Nat) :
    sub32 big bytes off < 2 ^ 32 := by
  unfold sub32
  have hb := getD_lt bytes h
  cases big
  · simp only [Bool.false_eq_true, if_false]
    have := catW_lt 8 [bytes.getD (off + 0) 0, bytes.getD (off + 1) 0, bytes.getD (off + 2) 0, bytes.getD (off + 3) 0]
      (by intro d hd; simp at hd; rcases hd with rfl | rfl | rfl | rfl <;> exact hb _)
    simpa using this
  · simp only [if_true]
    have := catW_lt 8 [bytes.getD (off + 3) 0, bytes.getD (off + 2) 0, bytes.getD (off + 1) 0, bytes.getD (off + 0) 0]
      (by intro d hd; simp at hd; rcases hd with rfl | rfl | rfl | rfl <;> exact hb _)
    simpa using this

/-- Byte lane `r` of a 32-bit sub-word, as the CPU of that endianness addresses it. -/
theorem sub32_lane (big : Bool) (bytes : List Nat) (h : ∀ b ∈ bytes, b < 256) (off r : Nat) (hr : r < 4) :
    (sub32 big bytes off / 2 ^ (8 * (if big then 3 - r else r))) % 2 ^ 8 = bytes.getD (off + r) 0 := by
  have hb := getD_lt bytes h
  unfold sub32
  cases big
  · simp only [Bool.false_eq_true, if_false]
    rw [catW_digit 8 _ r (by intro d hd; simp at hd; rcases hd with rfl | rfl | rfl | rfl <;> exact hb _)]
    have : r = 0 ∨ r = 1 ∨ r = 2 ∨ r = 3 := by omega
    rcases this with rfl | rfl | rfl | rfl <;> simp
  · simp only [if_true]
    rw [catW_digit 8 _ (3 - r) (by intro d hd; simp at hd; rcases hd with rfl | rfl | rfl | rfl <;> exact hb _)]
    have : r = 0 ∨ r = 1 ∨ r = 2 ∨ r = 3 := by omega
    rcases this with rfl | rfl | rfl | rfl <;> simp

/-- 32-bit sub-word `s` of memory word `i`. -/
theorem memWord_sub (big : Bool) (q : Nat) (bytes : List Nat) (h : ∀ b ∈ bytes, b < 256) (i s : Nat) (hs : s < q) :
    (memWord big q bytes i / 2 ^ (32 * s)) % 2 ^ 32 = sub32 big bytes (i * (4 * q) + 4 * s) := by
  unfold memWord
  rw [catW_digit 32 _ s (by
    intro d hd
    simp only [List.mem_map] at hd
    obtain ⟨s', _, rfl⟩ := hd
    exact sub32_lt big bytes h _)]
  rw [List.getD_eq_getElem?_getD]
  simp [List.getElem?_map, List.getElem?_range hs]

/-- Word `w` of the image, for every `w` (beyond the list: 0): the file's chunk `w - baseOff/(4q)` inside the file's words,
    zero elsewhere — the placement depends on `baseOff` only through `baseOff / (4q)` (the FLOOR: an unaligned base is
    silently rounded down). -/
theorem memImage_getD (big : Bool) (q baseOff : Nat) (bytes : List Nat) (w : Nat) (hq : 0 < q) :
    (memImage big q baseOff bytes).getD w 0 =
      if baseOff / (4 * q) ≤ w ∧ w < baseOff / (4 * q) + (bytes.length + 4 * q - 1) / (4 * q)
      then memWord big q bytes (w - baseOff / (4 * q)) else 0 := by
  have hpos : 0 < 4 * q := by omega
  rw [List.getD_eq_getElem?_getD]
  simp only [memImage, List.getElem?_map]
  by_cases hw : w < (baseOff + bytes.length + 4 * q - 1) / (4 * q)
  · rw [List.getElem?_range hw]; simp
  · rw [List.getElem?_eq_none (by simpa using Nat.le_of_not_lt hw)]
    have hle : baseOff / (4 * q) + (bytes.length + 4 * q - 1) / (4 * q) ≤ (baseOff + bytes.length + 4 * q - 1) / (4 * q) := by
      have h1 : baseOff / (4 * q) * (4 * q) ≤ baseOff := Nat.div_mul_le_self _ _
      have h2 : (4 * q * (baseOff / (4 * q)) + (bytes.length + 4 * q - 1)) / (4 * q)
          = baseOff / (4 * q) + (bytes.length + 4 * q - 1) / (4 * q) := Nat.mul_add_div hpos _ _
      rw [← h2]
      apply Nat.div_le_div_right
      rw [Nat.mul_comm] at h1; omega
    have : ¬ (baseOff / (4 * q) ≤ w ∧ w < baseOff / (4 * q) + (bytes.length + 4 * q - 1) / (4 * q)) := by omega
    simp [this]


/-- Length of the image: `ceil((base - offset + len)/(4q))` words. -/
theorem memImage_length (big : Bool) (q baseOff : Nat) (bytes : List Nat) :
    (memImage big q baseOff bytes).length = (baseOff + bytes.length + 4 * q - 1) / (4 * q) := by
  simp [memImage]

end Litex.Export
