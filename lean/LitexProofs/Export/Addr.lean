import LitexModel.Export.Addr
/-
  Helper lemmas for C14: the running address computation of the exporters and the bank decode.
-/
namespace Litex.Export

theorem nsimple_nil (bw : Nat) : nsimple bw [] = 0 := rfl

theorem nsimple_cons (bw s : Nat) (l : List Nat) : nsimple bw (s :: l) = nwords bw s + nsimple bw l := by
  simp [nsimple]

theorem nsimple_append (bw : Nat) (l₁ l₂ : List Nat) : nsimple bw (l₁ ++ l₂) = nsimple bw l₁ + nsimple bw l₂ := by
  simp [nsimple]

theorem regAddrs_length (stride bw o : Nat) (l : List Nat) : (regAddrs stride bw o l).length = l.length := by
  induction l generalizing o with
  | nil => rfl
  | cons s rest ih => simp [regAddrs, ih]

theorem regAddrs_append (stride bw o : Nat) (l₁ l₂ : List Nat) :
    regAddrs stride bw o (l₁ ++ l₂) =
      regAddrs stride bw o l₁ ++ regAddrs stride bw (o + stride * nsimple bw l₁) l₂ := by
  induction l₁ generalizing o with
  | nil => simp [regAddrs, nsimple]
  | cons s rest ih =>
    simp only [List.cons_append, regAddrs, ih, nsimple_cons, Nat.mul_add, Nat.add_assoc]

/-- Entry `k` of the exported list: the origin advanced by `stride` per word of every earlier register. -/
theorem regAddrs_getElem? (stride bw o s : Nat) (rpre rpost : List Nat) :
    (regAddrs stride bw o (rpre ++ s :: rpost))[rpre.length]? =
      some (o + stride * nsimple bw rpre, nwords bw s) := by
  rw [regAddrs_append]
  rw [List.getElem?_append_right (by simp [regAddrs_length])]
  simp [regAddrs_length, regAddrs]

/-! ### decode -/

theorem decodeFrom_append (paging bw adr i : Nat) (l₁ l₂ : List Bank) :
    decodeFrom paging bw adr i (l₁ ++ l₂) =
      decodeFrom paging bw adr i l₁ ++ decodeFrom paging bw adr (i + l₁.length) l₂ := by
  induction l₁ generalizing i with
  | nil => simp [decodeFrom]
  | cons b rest ih =>
    simp only [List.cons_append, decodeFrom, List.length_cons]
    cases bankSel paging b.page (nsimple bw b.regs) adr with
    | none => simp only [ih]; congr 2; omega
    | some x => simp only [ih, List.cons_append]; congr 3; omega

/-- Banks on other pages stay silent. -/
theorem decodeFrom_other_pages (paging bw adr page i : Nat) (l : List Bank)
    (hadr : adr / (paging / 4) = page) (h : ∀ b ∈ l, b.page ≠ page) :
    decodeFrom paging bw adr i l = [] := by
  induction l generalizing i with
  | nil => rfl
  | cons b rest ih =>
    have hb : b.page ≠ page := h b (by simp)
    have : bankSel paging b.page (nsimple bw b.regs) adr = none := by
      unfold bankSel
      rw [if_neg]
      intro hc
      exact hb (hc.1.symm.trans hadr)
    simp only [decodeFrom, this]
    exact ih (i + 1) (fun b' hb' => h b' (by simp [hb']))

theorem bankSel_hit (paging page n idx : Nat) (hidx : idx < paging / 4) (hn : idx < n) :
    bankSel paging page n (page * (paging / 4) + idx) = some idx := by
  have hP : 0 < paging / 4 := by omega
  have h1 : (page * (paging / 4) + idx) / (paging / 4) = page := by
    rw [Nat.mul_comm, Nat.mul_add_div hP, Nat.div_eq_of_lt hidx, Nat.add_zero]
  have h2 : (page * (paging / 4) + idx) % (paging / 4) = idx := by
    rw [Nat.mul_comm, Nat.mul_add_mod, Nat.mod_eq_of_lt hidx]
  unfold bankSel
  rw [h1, h2, if_pos ⟨rfl, hn⟩]

end Litex.Export

namespace Litex.Export

/-! ### the three export views -/

theorem regAddrs_shift (stride bw c o : Nat) (l : List Nat) :
    (regAddrs stride bw o l).map (fun e => (c + e.1, e.2)) = regAddrs stride bw (c + o) l := by
  induction l generalizing o with
  | nil => rfl
  | cons s rest ih => simp only [regAddrs, List.map_cons, ih, Nat.add_assoc]

theorem nwords_pos (bw s : Nat) (hbw : 0 < bw) (hs : 0 < s) : 0 < nwords bw s :=
  Nat.div_pos (by omega) hbw

/-- The SVD listing (one entry per simple CSR, `+4` each) enumerates the word addresses of the JSON listing. -/
theorem svdOffsets_flat (bw org : Nat) (hbw : 0 < bw) : ∀ (regs : List Nat) (a : Nat), (∀ s ∈ regs, 0 < s) →
    (svdOffsets bw a regs).map (org + ·) = flatWordAddrs 4 (regAddrs 4 bw (org + a) regs) := by
  intro regs
  induction regs with
  | nil => intro a _; rfl
  | cons s rest ih =>
    intro a h
    have hn : (if nwords bw s > 1 then nwords bw s else 1) = nwords bw s := by
      have := nwords_pos bw s hbw (h s (by simp))
      split <;> omega
    simp only [svdOffsets, hn, regAddrs, flatWordAddrs, List.flatMap_cons, List.map_append, List.map_map]
    congr 1
    · apply List.map_congr_left
      intro j _
      simp only [Function.comp, wordAddr]; omega
    · have := ih (a + 4 * nwords bw s) (fun x hx => h x (by simp [hx]))
      simp only [flatWordAddrs] at this
      rw [this, Nat.add_assoc]

end Litex.Export
