import LitexProofs.Export.Addr
/-
  C14: the exported address of every word of every register is `csr_base + paging*page + 4*index` and the bridge
  + bank decode of that address strobes exactly that simple CSR (32-bit CSR bus).
-/
namespace Litex.Export

theorem nLocs_32 (aw paging : Nat) (h4 : paging % 4 = 0) : nLocs 32 aw paging = 2 ^ aw / (paging / 4) := by
  unfold nLocs
  have hp : paging = 4 * (paging / 4) := by omega
  have : 32 / 8 * 2 ^ aw / paging = 4 * 2 ^ aw / (4 * (paging / 4)) := by rw [← hp]
  rw [this, Nat.mul_div_mul_left _ _ (by decide : 0 < 4)]

/-- The CSR-bus address of byte offset `paging*page + 4*idx` is `page*(paging/4) + idx`, untruncated. -/
theorem bridgeAdr_32 (aw paging page idx : Nat) (h4 : paging % 4 = 0) (hidx : idx < paging / 4)
    (hloc : page < 2 ^ aw / (paging / 4)) :
    bridgeAdr 32 aw (paging * page + 4 * idx) = page * (paging / 4) + idx := by
  unfold bridgeAdr
  have hp : paging = 4 * (paging / 4) := by omega
  have h1 : (paging * page + 4 * idx) / (32 / 8) = page * (paging / 4) + idx := by
    have : paging * page + 4 * idx = 4 * (page * (paging / 4) + idx) := by
      rw [Nat.mul_add, ← Nat.mul_assoc, Nat.mul_comm 4 page, Nat.mul_assoc, ← hp, Nat.mul_comm]
    rw [this]
    exact Nat.mul_div_cancel_left _ (by decide)
  rw [h1]
  apply Nat.mod_eq_of_lt
  have h2 : (page + 1) * (paging / 4) ≤ 2 ^ aw :=
    Nat.le_trans (Nat.mul_le_mul_right _ hloc) (Nat.div_mul_le_self _ _)
  rw [Nat.add_mul, Nat.one_mul] at h2
  omega

/-- Decode of the bank list at an address of bank `pre.length`. -/
theorem decode_unique (paging bw page idx : Nat) (pre post : List Bank) (regs : List Nat)
    (hdist : ∀ b ∈ pre ++ post, b.page ≠ page)
    (hidx : idx < paging / 4) (hn : idx < nsimple bw regs) :
    decodeFrom paging bw (page * (paging / 4) + idx) 0 (pre ++ ⟨page, regs⟩ :: post) = [(pre.length, idx)] := by
  have hP : 0 < paging / 4 := by omega
  have hadr : (page * (paging / 4) + idx) / (paging / 4) = page := by
    rw [Nat.mul_comm, Nat.mul_add_div hP, Nat.div_eq_of_lt hidx, Nat.add_zero]
  rw [decodeFrom_append]
  rw [decodeFrom_other_pages paging bw _ page 0 pre hadr (fun b hb => hdist b (by simp [hb]))]
  simp only [List.nil_append, decodeFrom, Nat.zero_add]
  rw [bankSel_hit paging page _ idx hidx hn]
  rw [decodeFrom_other_pages paging bw _ page _ post hadr (fun b hb => hdist b (by simp [hb]))]

end Litex.Export
