import LitexProofs.Export.Accessor
/-
  C14: accessor round trips for big ordering (the generated C accessors against the register words).
-/
namespace Litex.Export

theorem hwWords_big (bw size v : Nat) :
    hwWords true bw size v = descList (hwWord bw size v) (nwords bw size) := by
  simp [hwWords, descList, wordIdx]

theorem hwWords_little (bw size v : Nat) :
    hwWords false bw size v = (List.range (nwords bw size)).map (hwWord bw size v) := by
  simp [hwWords, wordIdx]

/-- A C type was chosen and the bus word is whole bytes: the words fit the type. -/
theorem ctype_fits (nw bw ct : Nat) (hbw8 : bw % 8 = 0) (h : ctypeBits nw bw = some ct) :
    nw * bw ≤ ct ∧ ct ≤ 64 := by
  unfold ctypeBits at h
  have h8 : nw * bw % 8 = 0 := by
    rw [Nat.mul_mod, hbw8]; simp
  simp only at h
  split at h
  · cases h
  · split at h
    · cases h; omega
    · split at h
      · cases h; omega
      · split at h
        · cases h; omega
        · cases h; omega

/-- The generated writer's store data, as a descending list. -/
theorem accWriteWords_desc (bw ct nw v : Nat) :
    accWriteWords bw ct nw v = descList (fun i => ((v % 2 ^ ct) >>> (i * bw)) % 2 ^ 32) nw := by
  unfold accWriteWords descList
  apply List.map_congr_left
  intro j _
  have : nw - j - 1 = nw - 1 - j := by omega
  rw [this]

/-- The position-indexed stores of a big-ordered register are stores to the word indices `n-1, …, 0`. -/
theorem hwWriteFrom_desc (atomic : Bool) (bw size : Nat) (X : Nat → Nat) :
    ∀ (n : Nat) (st : RegSt) (j0 : Nat), j0 + n = nwords bw size →
      hwWriteFrom true atomic bw size st j0 (descList X n) =
        (descList (fun i => i) n).foldl (fun s i => s.write bw size atomic i (X i)) st := by
  intro n
  induction n with
  | zero => intro st j0 _; simp [descList, hwWriteFrom]
  | succ n ih =>
    intro st j0 h
    rw [descList_succ, descList_succ, List.foldl_cons]
    simp only [hwWriteFrom]
    have hidx : wordIdx true (nwords bw size) j0 = n := by simp [wordIdx]; omega
    rw [hidx]
    exact ih _ (j0 + 1) (by omega)

/-- Data stored by the writer, as seen by the simple CSR of word `k` (`c.r = dat_w[:c.size]`). -/
theorem store_word (bw size ct v k : Nat) (hbw32 : bw ≤ 32) (hvct : v < 2 ^ ct) :
    ((v % 2 ^ ct) >>> (k * bw)) % 2 ^ 32 % 2 ^ nbits bw size k = hwWord bw size v k := by
  unfold hwWord
  rw [Nat.mod_eq_of_lt hvct, Nat.shiftRight_eq_div_pow]
  apply Nat.mod_mod_of_dvd
  apply Nat.pow_dvd_pow
  unfold nbits; omega

theorem write_not_atomic (bw size : Nat) (atomic : Bool) (h : ¬ (atomic = true ∧ nwords bw size > 1))
    (st : RegSt) (i x : Nat) : st.write bw size atomic i x = st.write bw size false i x := by
  unfold RegSt.write
  have : (atomic && decide (nwords bw size > 1)) = false := by
    cases atomic <;> simp at h ⊢
    omega
  simp [this]

/-- A one-word register is written at its only address whatever the ordering. -/
theorem hwWrite_single (big atomic : Bool) (bw size : Nat) (st : RegSt) (x : Nat) (h : nwords bw size = 1) :
    hwWrite big atomic bw size st [x] = hwWrite true atomic bw size st [x] := by
  cases big
  · simp [hwWrite, hwWriteFrom, wordIdx, h]
  · rfl

/-- Single-word registers are not affected by the ordering. -/
theorem hwWords_single (big : Bool) (bw size v : Nat) (h : nwords bw size = 1) :
    hwWords big bw size v = hwWords true bw size v := by
  cases big
  · simp [hwWords, wordIdx, h]
  · rfl

end Litex.Export
