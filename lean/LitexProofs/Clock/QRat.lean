import LitexModel.Clock.Q
import Mathlib.Algebra.Order.Field.Basic
import Mathlib.Algebra.Order.AbsoluteValue.Basic
import Mathlib.Data.Rat.Cast.Order
import Mathlib.Tactic.FieldSimp
import Mathlib.Tactic.Linarith
import Mathlib.Tactic.Positivity
import Mathlib.Tactic.Ring
/-
  The hand-rolled rationals of the clock models against Mathlib's ℚ: `Q.toRat ⟨n, d⟩ = n / d`, and for positive
  denominators every Boolean comparison of the model is the corresponding inequality of rationals.
-/
namespace Litex.Clock

def Q.toRat (a : Q) : ℚ := (a.num : ℚ) / (a.den : ℚ)

namespace Q

theorem toRat_nonneg (a : Q) : 0 ≤ a.toRat := by unfold toRat; positivity

theorem le_iff (a b : Q) (ha : 0 < a.den) (hb : 0 < b.den) : a.le b = true ↔ a.toRat ≤ b.toRat := by
  unfold le toRat
  have ha' : (0 : ℚ) < a.den := by exact_mod_cast ha
  have hb' : (0 : ℚ) < b.den := by exact_mod_cast hb
  rw [decide_eq_true_iff, div_le_div_iff₀ ha' hb']
  constructor
  · intro h; exact_mod_cast h
  · intro h; exact_mod_cast h

theorem lt_iff (a b : Q) (ha : 0 < a.den) (hb : 0 < b.den) : a.lt b = true ↔ a.toRat < b.toRat := by
  unfold lt toRat
  have ha' : (0 : ℚ) < a.den := by exact_mod_cast ha
  have hb' : (0 : ℚ) < b.den := by exact_mod_cast hb
  rw [decide_eq_true_iff, div_lt_div_iff₀ ha' hb']
  constructor
  · intro h; exact_mod_cast h
  · intro h; exact_mod_cast h

theorem toRat_mul (a b : Q) : (a.mul b).toRat = a.toRat * b.toRat := by
  unfold mul toRat; push_cast; rw [mul_div_mul_comm]

theorem toRat_mulNat (a : Q) (n : Nat) : (a.mulNat n).toRat = a.toRat * n := by
  unfold mulNat toRat; push_cast; rw [div_mul_eq_mul_div]

theorem toRat_divNat (a : Q) (n : Nat) : (a.divNat n).toRat = a.toRat / n := by
  unfold divNat toRat; push_cast; rw [div_div]

theorem toRat_div (a b : Q) : (a.div b).toRat = a.toRat / b.toRat := by
  unfold div toRat; push_cast
  rw [div_div_div_eq]

theorem toRat_absDiff (a b : Q) (ha : 0 < a.den) (hb : 0 < b.den) : (a.absDiff b).toRat = |a.toRat - b.toRat| := by
  unfold absDiff toRat
  have ha' : (a.den : ℚ) ≠ 0 := by exact_mod_cast Nat.pos_iff_ne_zero.mp ha
  have hb' : (b.den : ℚ) ≠ 0 := by exact_mod_cast Nat.pos_iff_ne_zero.mp hb
  have hpos : (0 : ℚ) < (a.den : ℚ) * (b.den : ℚ) := by positivity
  have key : (a.num : ℚ) / a.den - (b.num : ℚ) / b.den = ((a.num : ℚ) * b.den - (b.num : ℚ) * a.den) / ((a.den : ℚ) * b.den) := by
    field_simp
  rw [key, abs_div, abs_of_pos hpos]
  simp only
  push_cast
  congr 1
  split
  · rename_i h
    have h' : (a.num : ℚ) * b.den ≤ (b.num : ℚ) * a.den := by exact_mod_cast h
    rw [Nat.cast_sub h, abs_of_nonpos (by linarith)]
    push_cast; ring
  · rename_i h
    have h1 : b.num * a.den ≤ a.num * b.den := Nat.le_of_lt (Nat.lt_of_not_le h)
    have h' : (b.num : ℚ) * a.den ≤ (a.num : ℚ) * b.den := by exact_mod_cast h1
    rw [Nat.cast_sub h1, abs_of_nonneg (by linarith)]
    push_cast; ring

end Q

/-- The margin test of every `compute_config` is the inequality `|clk - f| ≤ f·m` over ℚ. -/
theorem within_iff_rat (clk : Q) (o : Out) (hc : 0 < clk.den) (hf : 0 < o.freq.den) (hm : 0 < o.margin.den) :
    within clk o = true ↔ |clk.toRat - o.freq.toRat| ≤ o.freq.toRat * o.margin.toRat := by
  unfold within
  rw [Q.le_iff _ _ (by simp [Q.absDiff]; exact ⟨hc, hf⟩) (by simp [Q.mul]; exact ⟨hf, hm⟩),
      Q.toRat_absDiff _ _ hc hf, Q.toRat_mul]

/-- `lo ≤ x ≤ hi` over ℚ. -/
theorem inRange_iff_rat (lo hi x : Q) (h1 : 0 < lo.den) (h2 : 0 < hi.den) (h3 : 0 < x.den) :
    inRange lo hi x = true ↔ lo.toRat ≤ x.toRat ∧ x.toRat ≤ hi.toRat := by
  unfold inRange
  rw [Bool.and_eq_true, Q.le_iff _ _ h1 h3, Q.le_iff _ _ h3 h2]

end Litex.Clock
