import LitexModel.Clock.Spec
/-
  Proofs about the Xilinx search model: soundness, completeness and first-ness of `xSearch` w.r.t. `XValid`.
-/
namespace Litex.Clock

theorem mem_pyRange {lo hi x : Nat} : x ∈ pyRange lo hi ↔ lo ≤ x ∧ x < hi := by
  unfold pyRange
  rw [List.mem_range'_1]
  omega

/-- `clkdiv_range` enumerates exactly `start + i*step` below `stop`. -/
theorem DivRange.mem_toList {r : DivRange} (hs : 0 < r.s) {q : Q} :
    q ∈ r.toList ↔ ∃ i, r.a + i * r.s < r.b ∧ q = ⟨r.a + i * r.s, r.k⟩ := by
  unfold DivRange.toList DivRange.count
  simp only [List.mem_map, List.mem_range]
  constructor
  · rintro ⟨i, hi, rfl⟩
    refine ⟨i, ?_, rfl⟩
    have h1 : i + 1 ≤ (r.b - r.a + r.s - 1) / r.s := hi
    rw [Nat.le_div_iff_mul_le hs, Nat.succ_mul] at h1
    omega
  · rintro ⟨i, hi, rfl⟩
    refine ⟨i, ?_, rfl⟩
    show i + 1 ≤ (r.b - r.a + r.s - 1) / r.s
    rw [Nat.le_div_iff_mul_le hs, Nat.succ_mul]
    omega

/-! ### one output -/

theorem scanQuirk_isSome {ok : Q → Bool} {x : Q} (r : List Q) : (scanQuirk ok (some x) r).isSome = true := by
  unfold scanQuirk
  cases r with
  | nil => rfl
  | cons d0 _ => simp only; split <;> rfl

theorem scanPlain_isSome {ok : Q → Bool} {x : Q} (r : List Q) : (scanPlain ok (some x) r).isSome = true := rfl

/-- Generic scan step facts used for both flavours. -/
structure ScanLike (scan : (Q → Bool) → Option Q → List Q → Option Q) : Prop where
  none_eq : ∀ ok r, scan ok none r = r.find? ok
  some_isSome : ∀ ok x r, (scan ok (some x) r).isSome = true
  some_sound : ∀ ok x r dv, scan ok (some x) r = some dv → dv = x ∨ (dv ∈ r ∧ ok dv = true)

theorem scanQuirk_like : ScanLike scanQuirk where
  none_eq _ _ := rfl
  some_isSome _ _ r := scanQuirk_isSome r
  some_sound ok x r dv h := by
    unfold scanQuirk at h
    cases r with
    | nil => simp at h; exact Or.inl h.symm
    | cons d0 rest =>
      simp only at h
      split at h
      · rename_i hd; simp at h; subst h; exact Or.inr ⟨List.mem_cons_self, hd⟩
      · simp at h; exact Or.inl h.symm

theorem scanPlain_like : ScanLike scanPlain where
  none_eq _ _ := rfl
  some_isSome _ _ _ := rfl
  some_sound _ x _ dv h := by simp [scanPlain] at h; exact Or.inl h.symm

theorem foldl_scan_some_isSome {scan} (hl : ScanLike scan) (ok : Q → Bool) (rs : List (List Q)) (x : Q) :
    (rs.foldl (scan ok) (some x)).isSome = true := by
  induction rs generalizing x with
  | nil => rfl
  | cons r rs ih =>
    simp only [List.foldl_cons]
    have := hl.some_isSome ok x r
    cases h : scan ok (some x) r with
    | none => simp [h] at this
    | some y => exact ih y

theorem foldl_scan_sound {scan} (hl : ScanLike scan) (ok : Q → Bool) (rs : List (List Q)) (acc : Option Q) (dv : Q)
    (P : Q → Prop) (hacc : ∀ x, acc = some x → P x) (hP : ∀ r ∈ rs, ∀ x ∈ r, ok x = true → P x)
    (h : rs.foldl (scan ok) acc = some dv) : P dv := by
  induction rs generalizing acc with
  | nil => exact hacc dv h
  | cons r rs ih =>
    simp only [List.foldl_cons] at h
    refine ih (scan ok acc r) ?_ (fun r' hr' => hP r' (List.mem_cons_of_mem _ hr')) h
    intro x hx
    cases acc with
    | none =>
      rw [hl.none_eq] at hx
      have := List.find?_some hx
      exact hP r List.mem_cons_self x (List.mem_of_find?_eq_some hx) this
    | some a =>
      rcases hl.some_sound ok a r x hx with rfl | ⟨hm, hok⟩
      · exact hacc _ rfl
      · exact hP r List.mem_cons_self x hm hok

theorem foldl_scan_none {scan} (hl : ScanLike scan) (ok : Q → Bool) (rs : List (List Q))
    (h : rs.foldl (scan ok) none = none) : ∀ r ∈ rs, ∀ x ∈ r, ok x = false := by
  induction rs with
  | nil => intro r hr; cases hr
  | cons r rs ih =>
    simp only [List.foldl_cons] at h
    cases hs : scan ok none r with
    | some y =>
      rw [hs] at h
      have := foldl_scan_some_isSome hl ok rs y
      simp [h] at this
    | none =>
      rw [hs] at h
      rw [hl.none_eq] at hs
      intro r' hr' x hx
      rcases List.mem_cons.mp hr' with rfl | hr'
      · have := List.find?_eq_none.mp hs x hx
        simpa using this
      · exact ih h r' hr' x hx

theorem xOut_scanLike (d : XDev) : ScanLike (if d.usp then scanPlain else scanQuirk) := by
  cases d.usp
  · exact scanQuirk_like
  · exact scanPlain_like

theorem xOut_eq (d : XDev) (vco : Q) (n : Nat) (o : Out) :
    xOut d vco n o = (d.rangesFor n).foldl ((if d.usp then scanPlain else scanQuirk) (d.ok vco o)) none := by
  unfold xOut
  cases d.usp <;> rfl

theorem xOut_sound {d : XDev} {vco : Q} {n : Nat} {o : Out} {dv : Q} (h : xOut d vco n o = some dv) :
    (∃ r ∈ d.rangesFor n, dv ∈ r) ∧ d.ok vco o dv = true := by
  rw [xOut_eq] at h
  refine foldl_scan_sound (xOut_scanLike d) (d.ok vco o) (d.rangesFor n) none dv
    (fun x => (∃ r ∈ d.rangesFor n, x ∈ r) ∧ d.ok vco o x = true) (by intro x hx; cases hx) ?_ h
  intro r hr x hx hok
  exact ⟨⟨r, hr, hx⟩, hok⟩

theorem xOut_complete {d : XDev} {vco : Q} {n : Nat} {o : Out} (h : xOut d vco n o = none) :
    ∀ r ∈ d.rangesFor n, ∀ x ∈ r, d.ok vco o x = false := by
  rw [xOut_eq] at h
  exact foldl_scan_none (xOut_scanLike d) _ _ h

/-! ### all outputs -/

theorem xOuts_sound {d : XDev} {vco : Q} : ∀ {n : Nat} {outs : List Out} {ds : List Q},
    xOuts d vco n outs = some ds → XValidOuts d vco n outs ds
  | _, [], ds, h => by
    simp [xOuts] at h; subst h; trivial
  | n, o :: os, ds, h => by
    unfold xOuts at h
    cases ho : xOut d vco n o with
    | none => simp [ho] at h
    | some dv =>
      simp only [ho] at h
      cases hr : xOuts d vco (n + 1) os with
      | none => simp [hr] at h
      | some ds' =>
        simp [hr] at h
        subst h
        obtain ⟨h1, h2⟩ := xOut_sound ho
        rw [XDev.ok_eq] at h2
        exact ⟨h1, h2, xOuts_sound hr⟩

theorem xOuts_complete {d : XDev} {vco : Q} : ∀ {n : Nat} {outs : List Out},
    xOuts d vco n outs = none → ∀ ds, ¬ XValidOuts d vco n outs ds
  | _, [], h => by simp [xOuts] at h
  | n, o :: os, h => by
    intro ds hv
    cases ds with
    | nil => exact hv
    | cons dv ds' =>
      obtain ⟨⟨r, hr, hm⟩, hok, hrest⟩ := hv
      unfold xOuts at h
      cases ho : xOut d vco n o with
      | none =>
        have := xOut_complete ho r hr dv hm
        rw [XDev.ok_eq] at this
        rw [this] at hok
        cases hok
      | some dv0 =>
        simp only [ho] at h
        cases hr' : xOuts d vco (n + 1) os with
        | none => exact xOuts_complete hr' ds' hrest
        | some x => simp [hr'] at h

/-- The divider list of a valid configuration has one entry per output. -/
theorem XValidOuts.length_eq {d : XDev} {vco : Q} : ∀ {n : Nat} {outs : List Out} {ds : List Q},
    XValidOuts d vco n outs ds → ds.length = outs.length
  | _, [], [], _ => rfl
  | _, [], _ :: _, h => by cases h
  | _, _ :: _, [], h => by cases h
  | _, _ :: _, _ :: _, h => by simp [XValidOuts.length_eq h.2.2]

/-! ### the search -/

theorem xTry_some {d : XDev} {r : XReq} {dc : Nat} {m : Q} {c : XCfg} (h : xTry d r dc m = some c) :
    c.divclk = dc ∧ c.mult = m ∧ xVcoOk d r (xVco r dc m) = true ∧ xOuts d (xVco r dc m) 0 r.outs = some c.ds := by
  unfold xTry at h
  simp only at h
  split at h
  · rename_i hv
    cases ho : xOuts d (xVco r dc m) 0 r.outs with
    | none => simp [ho] at h
    | some ds => simp [ho] at h; subst h; exact ⟨rfl, rfl, hv, rfl⟩
  · cases h

theorem xTry_none {d : XDev} {r : XReq} {dc : Nat} {m : Q} (h : xTry d r dc m = none) :
    xVcoOk d r (xVco r dc m) = false ∨ xOuts d (xVco r dc m) 0 r.outs = none := by
  unfold xTry at h
  simp only at h
  split at h
  · cases ho : xOuts d (xVco r dc m) 0 r.outs with
    | none => exact Or.inr rfl
    | some ds => simp [ho] at h
  · rename_i hv; left; simpa using hv

theorem xTry_none_not_valid {d : XDev} {r : XReq} {dc : Nat} {m : Q} (h : xTry d r dc m = none)
    (c : XCfg) (hc : c.divclk = dc) (hm : c.mult = m) : ¬ XValid d r c := by
  rintro ⟨_, _, hv, ho⟩
  have e : c.vco r = xVco r dc m := by unfold XCfg.vco; rw [hc, hm]
  rw [e] at hv ho
  rcases xTry_none h with h1 | h1
  · rw [h1] at hv; cases hv
  · exact xOuts_complete h1 _ ho

theorem xSearch_sound {d : XDev} {r : XReq} {c : XCfg} (h : xSearch d r = some c) : XValid d r c := by
  unfold xSearch at h
  obtain ⟨dc, hdc, h⟩ := List.exists_of_findSome?_eq_some h
  obtain ⟨m, hm, h⟩ := List.exists_of_findSome?_eq_some h
  obtain ⟨h1, h2, h3, h4⟩ := xTry_some h
  have e : c.vco r = xVco r dc m := by unfold XCfg.vco; rw [h1, h2]
  refine ⟨h1 ▸ hdc, h2 ▸ hm, e ▸ h3, e ▸ xOuts_sound h4⟩

theorem xSearch_complete {d : XDev} {r : XReq} (h : xSearch d r = none) (c : XCfg) : ¬ XValid d r c := by
  intro hv
  unfold xSearch at h
  rw [List.findSome?_eq_none_iff] at h
  have h1 := h c.divclk hv.1
  rw [List.findSome?_eq_none_iff] at h1
  exact xTry_none_not_valid (h1 c.mult hv.2.1) c rfl rfl hv

/-- The returned configuration is the first valid one in iteration order: no valid configuration uses an input
    divider tried earlier, nor the same input divider with a multiplier tried earlier. -/
theorem xSearch_first {d : XDev} {r : XReq} {c : XCfg} (h : xSearch d r = some c) :
    ∃ dcs₁ dcs₂ ms₁ ms₂, d.divclks = dcs₁ ++ c.divclk :: dcs₂ ∧ d.multList = ms₁ ++ c.mult :: ms₂ ∧
      (∀ c', XValid d r c' → c'.divclk ∉ dcs₁) ∧
      (∀ c', XValid d r c' → c'.divclk = c.divclk → c'.mult ∉ ms₁) ∧
      xOuts d (c.vco r) 0 r.outs = some c.ds := by
  unfold xSearch at h
  obtain ⟨dcs₁, dc, dcs₂, hsplit, hin, hpre⟩ := List.findSome?_eq_some_iff.mp h
  obtain ⟨ms₁, m, ms₂, hsplit2, hin2, hpre2⟩ := List.findSome?_eq_some_iff.mp hin
  obtain ⟨h1, h2, _, h4⟩ := xTry_some hin2
  subst h1 h2
  refine ⟨dcs₁, dcs₂, ms₁, ms₂, hsplit, hsplit2, ?_, ?_, h4⟩
  · intro c' hv hmem
    have := hpre _ hmem
    rw [List.findSome?_eq_none_iff] at this
    exact xTry_none_not_valid (this c'.mult hv.2.1) c' rfl rfl hv
  · intro c' hv hdc hmem
    exact xTry_none_not_valid (hpre2 _ hmem) c' hdc rfl hv

end Litex.Clock
