import LitexProofs.Clock.IntelGowin
/-
  GW1N / GW2A: completeness of the candidate enumeration (the "No PLL config found" branch of `GW1NPLL.compute_config`).
-/
namespace Litex.Clock

/-- every (idiv, fdiv, odiv) of the primitive's ranges with PFD and VCO inside their windows whose CLKOUT frequency is
    within the margin of the highest requested frequency IS a candidate of the search. -/
theorem gCandidates_mem {d : GDev} {r : GReq} {fm : Out} {idiv fdiv odiv : Nat}
    (hi : idiv ∈ pyRange 1 64) (hf : fdiv ∈ pyRange 1 64) (ho : odiv ∈ gOdivs)
    (hp1 : (r.clkin.divNat idiv).lt d.pfdMin = false) (hp2 : d.pfdMax.lt (r.clkin.divNat idiv) = false)
    (hv : inRangeM d.vcoMin d.vcoMax r.vcoMargin (((r.clkin.mulNat fdiv).divNat idiv).mulNat odiv) = true)
    (hd : (((r.clkin.mulNat fdiv).divNat idiv).absDiff fm.freq).le (fm.freq.mul fm.margin) = true) :
    (((r.clkin.mulNat fdiv).divNat idiv).absDiff fm.freq, idiv, fdiv, odiv) ∈ gCandidates d r fm := by
  unfold gCandidates
  refine List.mem_flatMap.mpr ⟨idiv, hi, ?_⟩
  simp only [hp1, hp2, Bool.or_self, Bool.false_eq_true, if_false]
  refine List.mem_flatMap.mpr ⟨fdiv, hf, ?_⟩
  refine List.mem_filterMap.mpr ⟨odiv, ho, ?_⟩
  simp [hv, hd]

theorem gPick_none {l : List (Q × Nat × Nat × Nat)} (h : gPick l = none) : l = [] := by
  cases l with
  | nil => rfl
  | cons c cs => simp [gPick] at h

end Litex.Clock
