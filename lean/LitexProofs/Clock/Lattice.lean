import LitexProofs.Clock.Xilinx
/-
  Proofs about the ECP5 / iCE40 / NX search models.
-/
namespace Litex.Clock

/-! ## ECP5 -/

theorem eOut_some {d : EDev} {vco : Q} {o : EOut} {dv : Nat} (h : eOut d vco o = some dv) :
    dv ∈ d.clkos ∧ within (vco.divNat dv) o.out = true := by
  unfold eOut at h
  exact ⟨List.mem_of_find?_eq_some h, by simpa using List.find?_some h⟩

theorem eOut_none {d : EDev} {vco : Q} {o : EOut} (h : eOut d vco o = none) :
    ∀ dv ∈ d.clkos, within (vco.divNat dv) o.out = false := by
  unfold eOut at h
  intro dv hdv
  simpa using List.find?_eq_none.mp h dv hdv

theorem eOuts_some {d : EDev} {vco : Q} : ∀ {outs : List EOut} {ds : List Nat}, eOuts d vco outs = some ds →
    ds.length = outs.length ∧ (∀ dv ∈ ds, dv ∈ d.clkos) ∧
    (∀ p ∈ outs.zip ds, within (vco.divNat p.2) p.1.out = true)
  | [], ds, h => by simp [eOuts] at h; subst h; simp
  | o :: os, ds, h => by
    unfold eOuts at h
    cases ho : eOut d vco o with
    | none => simp [ho] at h
    | some dv =>
      simp only [ho] at h
      cases hr : eOuts d vco os with
      | none => simp [hr] at h
      | some ds' =>
        simp [hr] at h
        subst h
        obtain ⟨h1, h2, h3⟩ := eOuts_some hr
        obtain ⟨g1, g2⟩ := eOut_some ho
        refine ⟨by simp [h1], ?_, ?_⟩
        · intro x hx
          rcases List.mem_cons.mp hx with rfl | hx
          · exact g1
          · exact h2 x hx
        · intro p hp
          simp only [List.zip_cons_cons, List.mem_cons] at hp
          rcases hp with rfl | hp
          · exact g2
          · exact h3 p hp

theorem eOuts_none {d : EDev} {vco : Q} : ∀ {outs : List EOut}, eOuts d vco outs = none →
    ∀ ds : List Nat, outs.length ≤ ds.length → (∀ dv ∈ ds, dv ∈ d.clkos) →
      ¬ (∀ p ∈ outs.zip ds, within (vco.divNat p.2) p.1.out = true)
  | [], h => by simp [eOuts] at h
  | o :: os, h => by
    intro ds hl hmem hall
    cases ds with
    | nil => simp at hl
    | cons dv ds' =>
      unfold eOuts at h
      cases ho : eOut d vco o with
      | none =>
        have := eOut_none ho dv (hmem dv List.mem_cons_self)
        have h2 := hall (o, dv) (by simp)
        simp only at h2
        rw [this] at h2
        cases h2
      | some dv0 =>
        simp only [ho] at h
        cases hr : eOuts d vco os with
        | some x => simp [hr] at h
        | none =>
          refine eOuts_none hr ds' (by simpa using hl) (fun x hx => hmem x (List.mem_cons_of_mem _ hx)) ?_
          intro p hp
          exact hall p (by simp only [List.zip_cons_cons, List.mem_cons]; exact Or.inr hp)

theorem zip_append_right_of_le {α β : Type} : ∀ (l₁ : List α) (l₂ l₃ : List β), l₁.length ≤ l₂.length →
    l₁.zip (l₂ ++ l₃) = l₁.zip l₂
  | [], _, _, _ => by simp
  | _ :: _, [], _, h => by simp at h
  | a :: l₁, b :: l₂, l₃, h => by
    simp only [List.cons_append, List.zip_cons_cons]
    rw [zip_append_right_of_le l₁ l₂ l₃ (by simpa using h)]

/-- A selected feedback output is one of the outputs, has the feedback divider and is not a DPA output
    (invariant form: `allo`/`alld` are the complete lists, `outs`/`ds` the part still to scan from index `n`). -/
theorem eFbSel_spec {r : EReq} {ofb : Nat} (allo : List EOut) (alld : List Nat) :
    ∀ (outs : List EOut) (ds : List Nat) (n : Nat) (acc : Option Nat) (k : Nat),
      (∀ j, n + j < allo.length → allo[n + j]? = outs[j]?) → (∀ j, alld[n + j]? = ds[j]?) →
      (∀ k, acc = some k → alld[k]? = some ofb ∧ (allo[k]?.all fun o => !(o.dpa && r.dpaEn)) = true ∧ k < allo.length) →
      outs.length ≤ allo.length - n →
      eFbSel r ofb n outs ds acc = some k →
      alld[k]? = some ofb ∧ (allo[k]?.all fun o => !(o.dpa && r.dpaEn)) = true ∧ k < allo.length := by
  intro outs
  induction outs with
  | nil => intro ds n acc k _ _ hacc _ h; simp [eFbSel] at h; exact hacc k h
  | cons o os ih =>
    intro ds n acc k ho hd hacc hlen h
    cases ds with
    | nil => simp [eFbSel] at h; exact hacc k h
    | cons dv ds' =>
      simp only [eFbSel] at h
      have hlen' : n < allo.length := by simp at hlen; omega
      refine ih ds' (n + 1) _ k ?_ ?_ ?_ ?_ h
      · intro j hj
        have := ho (j + 1) (by omega)
        simpa [Nat.add_assoc, Nat.add_comm 1 j] using this
      · intro j
        have := hd (j + 1)
        simpa [Nat.add_assoc, Nat.add_comm 1 j] using this
      · intro k' hk'
        split at hk'
        · rename_i hc
          simp at hk'
          subst hk'
          have h0 := ho 0 (by simpa using hlen')
          have d0 := hd 0
          simp at h0 d0
          refine ⟨by rw [d0, hc.1], ?_, hlen'⟩
          rw [h0]
          simp only [Option.all_some]
          have := hc.2
          cases hdpa : o.dpa <;> cases hen : r.dpaEn <;> simp_all
        · exact hacc k' hk'
      · simp at hlen; omega

theorem eTry_some {d : EDev} {r : EReq} {clki ofb fb : Nat} {c : ECfg} (hn : r.outs.length ≤ d.nmax)
    (hofb : ofb ∈ d.clkos) (h : eTry d r clki ofb fb = some c) :
    c.clkiDiv = clki ∧ c.clkfbDiv = fb ∧ c.divs.getD c.clkfb 0 = ofb ∧
    (∀ dv ∈ c.divs, dv ∈ d.clkos) ∧ c.clkfb < c.divs.length ∧ c.divs.length ≤ d.nmax ∧
    inRange d.vcoMin d.vcoMax (eVco r clki fb ofb) = true ∧
    (c.divs.length = r.outs.length ∨ (c.divs.length = r.outs.length + 1 ∧ c.clkfb = r.outs.length)) ∧
    (∀ p ∈ r.outs.zip c.divs, within ((eVco r clki fb ofb).divNat p.2) p.1.out = true) ∧
    (r.outs[c.clkfb]?.all fun o => !(o.dpa && r.dpaEn)) = true := by
  unfold eTry at h
  simp only at h
  split at h
  · rename_i hv
    cases ho : eOuts d (eVco r clki fb ofb) r.outs with
    | none => simp [ho] at h
    | some ds =>
      simp only [ho] at h
      obtain ⟨hl, hmem, hw⟩ := eOuts_some ho
      cases hs : eFbSel r ofb 0 r.outs ds none with
      | some n =>
        simp only [hs] at h
        cases h
        have := eFbSel_spec (r := r) (ofb := ofb) r.outs ds r.outs ds 0 none n (by intro j _; simp) (by intro j; simp)
          (by intro k hk; cases hk) (by simp) hs
        obtain ⟨g1, g2, g3⟩ := this
        refine ⟨rfl, rfl, ?_, hmem, by simpa [hl] using g3, by simpa [hl] using hn, hv, Or.inl hl, hw, g2⟩
        simp [List.getD, g1]
      | none =>
        simp only [hs] at h
        split at h
        · cases h
        · rename_i hne
          cases h
          refine ⟨rfl, rfl, ?_, ?_, by simp [hl], by simp [hl]; omega, hv, Or.inr ⟨by simp [hl], rfl⟩, ?_, ?_⟩
          · simp [List.getD, ← hl]
          · intro dv hdv
            rcases List.mem_append.mp hdv with h1 | h1
            · exact hmem dv h1
            · simp at h1; subst h1; exact hofb
          · intro p hp
            rw [zip_append_right_of_le] at hp
            · exact hw p hp
            · omega
          · simp
  · cases h

theorem eSearch_sound {d : EDev} {r : EReq} {c : ECfg} (hn : r.outs.length ≤ d.nmax) (h : eSearch d r = some c) :
    EValid d r c := by
  unfold eSearch at h
  obtain ⟨clki, hclki, h⟩ := List.exists_of_findSome?_eq_some h
  split at h
  · rename_i hpfd
    obtain ⟨ofb, hofb, h⟩ := List.exists_of_findSome?_eq_some h
    obtain ⟨fb, hfb, h⟩ := List.exists_of_findSome?_eq_some h
    obtain ⟨h1, h2, h3, h4, h5, h6, h7, h8, h9, h10⟩ := eTry_some hn hofb h
    have e : c.vco r = eVco r clki fb ofb := by unfold ECfg.vco; rw [h1, h2, h3]
    exact ⟨h1 ▸ hclki, h1 ▸ hpfd, h2 ▸ hfb, h4, h5, h6, e ▸ h7, h8, e ▸ h9, h10⟩
  · cases h

/-- If a spare output is available, `eTry` succeeds whenever the VCO is in range and every output has a divider. -/
theorem eTry_ne_none {d : EDev} {r : EReq} {clki ofb fb : Nat} (hsp : r.outs.length < d.nmax)
    (hv : inRange d.vcoMin d.vcoMax (eVco r clki fb ofb) = true)
    (ds : List Nat) (hl : r.outs.length ≤ ds.length) (hmem : ∀ dv ∈ ds, dv ∈ d.clkos)
    (hw : ∀ p ∈ r.outs.zip ds, within ((eVco r clki fb ofb).divNat p.2) p.1.out = true) :
    eTry d r clki ofb fb ≠ none := by
  unfold eTry
  simp only [hv, if_true]
  cases ho : eOuts d (eVco r clki fb ofb) r.outs with
  | none => exact absurd hw (eOuts_none ho ds hl hmem)
  | some ds' =>
    simp only
    cases eFbSel r ofb 0 r.outs ds' none with
    | some n => simp
    | none =>
      simp only
      rw [if_neg (by omega)]
      simp

/-- Completeness when a spare output exists (fewer requests than outputs). -/
theorem eSearch_complete_of_spare {d : EDev} {r : EReq} (hsp : r.outs.length < d.nmax) (h : eSearch d r = none)
    (c : ECfg) : ¬ EValid d r c := by
  rintro ⟨h1, h2, h3, h4, h5, h6, h7, h8, h9, h10⟩
  unfold eSearch at h
  rw [List.findSome?_eq_none_iff] at h
  have ha := h c.clkiDiv h1
  rw [if_pos h2, List.findSome?_eq_none_iff] at ha
  have hofb : c.divs.getD c.clkfb 0 ∈ d.clkos := by
    apply h4
    rw [List.getD_eq_getElem?_getD, List.getElem?_eq_getElem h5]
    simp
  have hb := ha _ hofb
  rw [List.findSome?_eq_none_iff] at hb
  have hc := hb c.clkfbDiv h3
  refine eTry_ne_none hsp (by simpa [ECfg.vco] using h7) c.divs ?_ h4 (by simpa [ECfg.vco] using h9) hc
  rcases h8 with h8 | h8 <;> omega

/-- First in iteration order (`clki_div`, then `clkofb_div`, then `clkfb_div`), for requests leaving a spare. -/
theorem eSearch_first_of_spare {d : EDev} {r : EReq} {c : ECfg} (hsp : r.outs.length < d.nmax)
    (h : eSearch d r = some c) :
    ∃ is₁ is₂, d.clkis = is₁ ++ c.clkiDiv :: is₂ ∧ ∀ c', EValid d r c' → c'.clkiDiv ∉ is₁ := by
  unfold eSearch at h
  obtain ⟨is₁, clki, is₂, hsplit, hin, hpre⟩ := List.findSome?_eq_some_iff.mp h
  split at hin
  · obtain ⟨ofb, hofb, hin⟩ := List.exists_of_findSome?_eq_some hin
    obtain ⟨fb, _, hin⟩ := List.exists_of_findSome?_eq_some hin
    obtain ⟨e1, _⟩ := eTry_some (Nat.le_of_lt hsp) hofb hin
    subst e1
    refine ⟨is₁, is₂, hsplit, ?_⟩
    rintro c' ⟨h1, h2, h3, h4, h5, h6, h7, h8, h9, h10⟩ hmem
    have ha := hpre _ hmem
    rw [if_pos h2, List.findSome?_eq_none_iff] at ha
    have hofb' : c'.divs.getD c'.clkfb 0 ∈ d.clkos := by
      apply h4
      rw [List.getD_eq_getElem?_getD, List.getElem?_eq_getElem h5]
      simp
    have hb := ha _ hofb'
    rw [List.findSome?_eq_none_iff] at hb
    refine eTry_ne_none hsp (by simpa [ECfg.vco] using h7) c'.divs ?_ h4 (by simpa [ECfg.vco] using h9) (hb _ h3)
    rcases h8 with h8 | h8 <;> omega
  · cases hin

/-! ## iCE40 -/

theorem iTry_some {d : IDev} {clkin : Q} {o : Out} {divr divf : Nat} {c : ICfg} (h : iTry d clkin o divr divf = some c) :
    c.divr = divr ∧ c.divf = divf ∧ c.divq ∈ pyRange d.divqLo d.divqHi ∧
    inRange d.vcoMin d.vcoMax (iVco clkin divr divf) = true ∧
    within ((iVco clkin divr divf).divNat (2 ^ c.divq)) o = true := by
  unfold iTry at h
  simp only at h
  split at h
  · rename_i hv
    cases hf : (pyRange d.divqLo d.divqHi).find? (fun q => within ((iVco clkin divr divf).divNat (2 ^ q)) o) with
    | none => simp [hf] at h
    | some q =>
      simp [hf] at h
      subst h
      exact ⟨rfl, rfl, List.mem_of_find?_eq_some hf, hv, by simpa using List.find?_some hf⟩
  · cases h

theorem iTry_none_not_valid {d : IDev} {clkin : Q} {o : Out} {divr divf : Nat} (h : iTry d clkin o divr divf = none)
    (c : ICfg) (h1 : c.divr = divr) (h2 : c.divf = divf) : ¬ IValid d clkin o c := by
  rintro ⟨_, _, hq, hv, hw⟩
  subst h1 h2
  unfold iTry at h
  simp only [hv, if_true] at h
  simp only [Option.map_eq_none_iff] at h
  have := List.find?_eq_none.mp h c.divq hq
  simp [hw] at this

theorem iSearch_sound {d : IDev} {clkin : Q} {o : Out} {c : ICfg} (h : iSearch d clkin o = some c) : IValid d clkin o c := by
  unfold iSearch at h
  obtain ⟨divr, hr, h⟩ := List.exists_of_findSome?_eq_some h
  obtain ⟨divf, hf, h⟩ := List.exists_of_findSome?_eq_some h
  obtain ⟨h1, h2, h3, h4, h5⟩ := iTry_some h
  subst h1 h2
  exact ⟨hr, hf, h3, h4, h5⟩

theorem iSearch_complete {d : IDev} {clkin : Q} {o : Out} (h : iSearch d clkin o = none) (c : ICfg) : ¬ IValid d clkin o c := by
  intro hv
  unfold iSearch at h
  rw [List.findSome?_eq_none_iff] at h
  have h1 := h c.divr hv.1
  rw [List.findSome?_eq_none_iff] at h1
  exact iTry_none_not_valid (h1 c.divf hv.2.1) c rfl rfl hv

theorem iSearch_first {d : IDev} {clkin : Q} {o : Out} {c : ICfg} (h : iSearch d clkin o = some c) :
    ∃ rs₁ rs₂ fs₁ fs₂ qs₁ qs₂, pyRange d.divrLo d.divrHi = rs₁ ++ c.divr :: rs₂ ∧
      pyRange d.divfLo d.divfHi = fs₁ ++ c.divf :: fs₂ ∧ pyRange d.divqLo d.divqHi = qs₁ ++ c.divq :: qs₂ ∧
      (∀ c', IValid d clkin o c' → c'.divr ∉ rs₁) ∧
      (∀ c', IValid d clkin o c' → c'.divr = c.divr → c'.divf ∉ fs₁) ∧
      (∀ c', IValid d clkin o c' → c'.divr = c.divr → c'.divf = c.divf → c'.divq ∉ qs₁) := by
  unfold iSearch at h
  obtain ⟨rs₁, divr, rs₂, hs1, hin, hpre⟩ := List.findSome?_eq_some_iff.mp h
  obtain ⟨fs₁, divf, fs₂, hs2, hin2, hpre2⟩ := List.findSome?_eq_some_iff.mp hin
  obtain ⟨h1, h2, _, hv, _⟩ := iTry_some hin2
  subst h1 h2
  unfold iTry at hin2
  simp only [hv, if_true, Option.map_eq_some_iff] at hin2
  obtain ⟨q, hq, hc⟩ := hin2
  obtain ⟨_, qs₁, qs₂, hs3, hpre3⟩ := List.find?_eq_some_iff_append.mp hq
  have hcq : c.divq = q := by rw [← hc]
  refine ⟨rs₁, rs₂, fs₁, fs₂, qs₁, qs₂, hs1, hs2, hcq ▸ hs3, ?_, ?_, ?_⟩
  · intro c' hv' hmem
    have := hpre _ hmem
    rw [List.findSome?_eq_none_iff] at this
    exact iTry_none_not_valid (this c'.divf hv'.2.1) c' rfl rfl hv'
  · intro c' hv' hr hmem
    exact iTry_none_not_valid (hpre2 _ hmem) c' hr rfl hv'
  · intro c' hv' hr hf hmem
    have := hpre3 _ hmem
    obtain ⟨_, _, _, _, hw⟩ := hv'
    rw [hr, hf] at hw
    simp [hw] at this

/-! ## NX -/

theorem nOut_some {d : NDev} {vco : Q} {o : Out} {dv : Nat} (h : nOut d vco o = some dv) :
    dv ∈ d.clkos ∧ within (vco.divNat dv) o = true := by
  unfold nOut at h
  exact ⟨List.mem_of_find?_eq_some h, by simpa using List.find?_some h⟩

theorem nOut_none {d : NDev} {vco : Q} {o : Out} (h : nOut d vco o = none) :
    ∀ dv ∈ d.clkos, within (vco.divNat dv) o = false := by
  unfold nOut at h
  intro dv hdv
  simpa using List.find?_eq_none.mp h dv hdv

theorem nOuts_some {d : NDev} {vco : Q} : ∀ {outs : List Out} {ds : List Nat}, nOuts d vco outs = some ds →
    ds.length = outs.length ∧ (∀ dv ∈ ds, dv ∈ d.clkos) ∧ (∀ p ∈ outs.zip ds, within (vco.divNat p.2) p.1 = true)
  | [], ds, h => by simp [nOuts] at h; subst h; simp
  | o :: os, ds, h => by
    unfold nOuts at h
    cases ho : nOut d vco o with
    | none => simp [ho] at h
    | some dv =>
      simp only [ho] at h
      cases hr : nOuts d vco os with
      | none => simp [hr] at h
      | some ds' =>
        simp [hr] at h
        subst h
        obtain ⟨h1, h2, h3⟩ := nOuts_some hr
        obtain ⟨g1, g2⟩ := nOut_some ho
        refine ⟨by simp [h1], ?_, ?_⟩
        · intro x hx
          rcases List.mem_cons.mp hx with rfl | hx
          · exact g1
          · exact h2 x hx
        · intro p hp
          simp only [List.zip_cons_cons, List.mem_cons] at hp
          rcases hp with rfl | hp
          · exact g2
          · exact h3 p hp

theorem nOuts_none {d : NDev} {vco : Q} : ∀ {outs : List Out}, nOuts d vco outs = none →
    ∀ ds : List Nat, outs.length ≤ ds.length → (∀ dv ∈ ds, dv ∈ d.clkos) →
      ¬ (∀ p ∈ outs.zip ds, within (vco.divNat p.2) p.1 = true)
  | [], h => by simp [nOuts] at h
  | o :: os, h => by
    intro ds hl hmem hall
    cases ds with
    | nil => simp at hl
    | cons dv ds' =>
      unfold nOuts at h
      cases ho : nOut d vco o with
      | none =>
        have := nOut_none ho dv (hmem dv List.mem_cons_self)
        have h2 := hall (o, dv) (by simp)
        simp only at h2
        rw [this] at h2
        cases h2
      | some dv0 =>
        simp only [ho] at h
        cases hr : nOuts d vco os with
        | some x => simp [hr] at h
        | none =>
          refine nOuts_none hr ds' (by simpa using hl) (fun x hx => hmem x (List.mem_cons_of_mem _ hx)) ?_
          intro p hp
          exact hall p (by simp only [List.zip_cons_cons, List.mem_cons]; exact Or.inr hp)

theorem nTry_some {d : NDev} {r : NReq} {clki fb : Nat} {c : NCfg} (h : nTry d r clki fb = some c) :
    c.clkiDiv = clki ∧ c.clkfbDiv = fb ∧ inRange d.vcoMin d.vcoMax (nVco r clki fb) = true ∧
    nOuts d (nVco r clki fb) r.outs = some c.divs := by
  unfold nTry at h
  simp only at h
  split at h
  · rename_i hv
    cases ho : nOuts d (nVco r clki fb) r.outs with
    | none => simp [ho] at h
    | some ds => simp [ho] at h; subst h; exact ⟨rfl, rfl, hv, rfl⟩
  · cases h

theorem nTry_none_not_valid {d : NDev} {r : NReq} {clki fb : Nat} (h : nTry d r clki fb = none)
    (c : NCfg) (h1 : c.clkiDiv = clki) (h2 : c.clkfbDiv = fb) : ¬ NValidNoPfd d r c := by
  rintro ⟨_, _, hm, hv, hl, hw⟩
  have e : c.vco r = nVco r clki fb := by unfold NCfg.vco; rw [h1, h2]
  rw [e] at hv hw
  unfold nTry at h
  simp only [hv, if_true, Option.map_eq_none_iff] at h
  exact nOuts_none h c.divs (by omega) hm hw

theorem nSearch_sound {d : NDev} {r : NReq} {c : NCfg} (h : nSearch d r = some c) : NValidNoPfd d r c := by
  unfold nSearch at h
  obtain ⟨clki, hi, h⟩ := List.exists_of_findSome?_eq_some h
  obtain ⟨fb, hf, h⟩ := List.exists_of_findSome?_eq_some h
  obtain ⟨h1, h2, h3, h4⟩ := nTry_some h
  obtain ⟨g1, g2, g3⟩ := nOuts_some h4
  have e : c.vco r = nVco r clki fb := by unfold NCfg.vco; rw [h1, h2]
  exact ⟨h1 ▸ hi, h2 ▸ hf, g2, e ▸ h3, g1, e ▸ g3⟩

theorem nSearch_complete {d : NDev} {r : NReq} (h : nSearch d r = none) (c : NCfg) : ¬ NValidNoPfd d r c := by
  intro hv
  unfold nSearch at h
  rw [List.findSome?_eq_none_iff] at h
  have h1 := h c.clkiDiv hv.1
  rw [List.findSome?_eq_none_iff] at h1
  exact nTry_none_not_valid (h1 c.clkfbDiv hv.2.1) c rfl rfl hv

theorem nSearch_first {d : NDev} {r : NReq} {c : NCfg} (h : nSearch d r = some c) :
    ∃ is₁ is₂ fs₁ fs₂, d.clkis = is₁ ++ c.clkiDiv :: is₂ ∧ d.clkfbs = fs₁ ++ c.clkfbDiv :: fs₂ ∧
      (∀ c', NValidNoPfd d r c' → c'.clkiDiv ∉ is₁) ∧
      (∀ c', NValidNoPfd d r c' → c'.clkiDiv = c.clkiDiv → c'.clkfbDiv ∉ fs₁) := by
  unfold nSearch at h
  obtain ⟨is₁, clki, is₂, hs1, hin, hpre⟩ := List.findSome?_eq_some_iff.mp h
  obtain ⟨fs₁, fb, fs₂, hs2, hin2, hpre2⟩ := List.findSome?_eq_some_iff.mp hin
  obtain ⟨h1, h2, _, _⟩ := nTry_some hin2
  subst h1 h2
  refine ⟨is₁, is₂, fs₁, fs₂, hs1, hs2, ?_, ?_⟩
  · intro c' hv hmem
    have := hpre _ hmem
    rw [List.findSome?_eq_none_iff] at this
    exact nTry_none_not_valid (this c'.clkfbDiv hv.2.1) c' rfl rfl hv
  · intro c' hv hi hmem
    exact nTry_none_not_valid (hpre2 _ hmem) c' hi rfl hv

end Litex.Clock
