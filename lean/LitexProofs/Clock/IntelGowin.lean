import LitexProofs.Clock.Lattice
import Mathlib.Tactic.Ring
/-
  Proofs about the Intel best-of search, the Gowin GW1N/GW2A search and the oscillator divider choices.
-/
namespace Litex.Clock

/-! ## Intel -/

theorem aBestGo_some {vco : Q} {o : Out} {lim : Q} : ∀ (cs : List Q) (acc : Option (Q × Q)) (res : Q × Q),
    aBestGo vco o lim cs acc = some res →
    acc = some res ∨ (res.1 ∈ cs ∧ res.2 = (vco.div res.1).absDiff o.freq ∧ res.2.le lim = true)
  | [], acc, res, h => Or.inl h
  | c :: rest, acc, res, h => by
    have step : ∀ b : Bool,
        (if (((vco.div c).absDiff o.freq).le lim && b) = true then
            aBestGo vco o lim rest (some (c, (vco.div c).absDiff o.freq))
          else aBestGo vco o lim rest acc) = some res →
        acc = some res ∨ (res.1 ∈ c :: rest ∧ res.2 = (vco.div res.1).absDiff o.freq ∧ res.2.le lim = true) := by
      intro b h
      split at h
      · rename_i hc
        rcases aBestGo_some rest _ res h with h1 | ⟨h1, h2, h3⟩
        · right
          simp only [Option.some.injEq] at h1
          subst h1
          simp only [Bool.and_eq_true] at hc
          exact ⟨List.mem_cons_self, rfl, hc.1⟩
        · exact Or.inr ⟨List.mem_cons_of_mem _ h1, h2, h3⟩
      · rcases aBestGo_some rest acc res h with h1 | ⟨h1, h2, h3⟩
        · exact Or.inl h1
        · exact Or.inr ⟨List.mem_cons_of_mem _ h1, h2, h3⟩
    cases acc with
    | none => exact step true (by simpa [aBestGo] using h)
    | some a => exact step _ (by simpa only [aBestGo] using h)

theorem aBest_some {cs : List Q} {vco : Q} {o : Out} {x : Q × Q} (h : aBest cs vco o = some x) :
    x.1 ∈ cs ∧ within (vco.div x.1) o = true := by
  unfold aBest at h
  simp only [Option.map_eq_some_iff] at h
  obtain ⟨⟨c, diff⟩, hgo, rfl⟩ := h
  rcases aBestGo_some cs none (c, diff) hgo with h1 | ⟨h1, h2, h3⟩
  · cases h1
  · simp only at h1 h2 h3
    refine ⟨h1, ?_⟩
    unfold within
    rw [← h2]; exact h3

theorem aOuts_some {cs : List Q} {vco : Q} : ∀ {outs : List Out} {l : List (Q × Q)}, aOuts cs vco outs = some l →
    l.length = outs.length ∧ ∀ p ∈ outs.zip (l.map (·.1)), p.2 ∈ cs ∧ within (vco.div p.2) p.1 = true
  | [], l, h => by simp [aOuts] at h; subst h; simp
  | o :: os, l, h => by
    unfold aOuts at h
    cases hb : aBest cs vco o with
    | none => simp [hb] at h
    | some x =>
      simp only [hb] at h
      cases hr : aOuts cs vco os with
      | none => simp [hr] at h
      | some l' =>
        simp [hr] at h
        subst h
        obtain ⟨h1, h2⟩ := aOuts_some hr
        refine ⟨by simp [h1], ?_⟩
        intro p hp
        simp only [List.map_cons, List.zip_cons_cons, List.mem_cons] at hp
        rcases hp with rfl | hp
        · exact aBest_some hb
        · exact h2 p hp

theorem aTry_some {d : ADev} {r : AReq} {cs : List Q} {n m : Nat} {x : ACfg × Q} (h : aTry d r cs n m = some x) :
    x.1.n = n ∧ x.1.m = m ∧ inRangeM d.vcoMin d.vcoMax r.vcoMargin ((r.clkin.mulNat m).divNat n) = true ∧
    x.1.cs.length = r.outs.length ∧
    ∀ p ∈ r.outs.zip x.1.cs, p.2 ∈ cs ∧ within (((r.clkin.mulNat m).divNat n).div p.2) p.1 = true := by
  unfold aTry at h
  simp only at h
  split at h
  · rename_i hv
    simp only [Option.map_eq_some_iff] at h
    obtain ⟨l, hl, rfl⟩ := h
    obtain ⟨h1, h2⟩ := aOuts_some hl
    exact ⟨rfl, rfl, hv, by simp [h1], h2⟩
  · cases h

theorem foldl_aStep_some {d : ADev} {r : AReq} {cs : List Q} : ∀ (grid : List (Nat × Nat)) (acc : Option (ACfg × Q))
    (x : ACfg × Q), grid.foldl (aStep d r cs) acc = some x →
    acc = some x ∨ ∃ nm ∈ grid, aTry d r cs nm.1 nm.2 = some x
  | [], acc, x, h => Or.inl h
  | nm :: rest, acc, x, h => by
    simp only [List.foldl_cons] at h
    rcases foldl_aStep_some rest _ x h with h1 | ⟨nm', hm, ht⟩
    · unfold aStep at h1
      cases ht : aTry d r cs nm.1 nm.2 with
      | none => simp only [ht] at h1; exact Or.inl h1
      | some y =>
        obtain ⟨c, key⟩ := y
        simp only [ht] at h1
        cases acc with
        | none => simp only at h1; exact Or.inr ⟨nm, List.mem_cons_self, by rw [ht, h1]⟩
        | some a =>
          simp only at h1
          split at h1
          · exact Or.inr ⟨nm, List.mem_cons_self, by rw [ht, h1]⟩
          · exact Or.inl h1
    · exact Or.inr ⟨nm', List.mem_cons_of_mem _ hm, ht⟩

theorem mem_aGrid {d : ADev} {r : AReq} {nm : Nat × Nat} (h : nm ∈ aGrid d r) :
    nm.1 ∈ aNRange d r ∧ nm.2 ∈ pyRange d.mLo d.mHi := by
  unfold aGrid at h
  simp only [List.mem_flatMap, List.mem_map] at h
  obtain ⟨n, hn, m, hm, rfl⟩ := h
  exact ⟨hn, hm⟩

/-- `n` inside the computed range means: inside the declared counter range AND the PFD `clkin/n` inside its window. -/
theorem mem_aNRange {d : ADev} {r : AReq} {n : Nat} (h1 : 0 < r.clkin.den * d.pfdMax.num)
    (h2 : 0 < r.clkin.den * d.pfdMin.num) (h : n ∈ aNRange d r) :
    d.nLo ≤ n ∧ n < d.nHi ∧ inRange d.pfdMin d.pfdMax (r.clkin.divNat n) = true := by
  unfold aNRange at h
  simp only at h
  rw [mem_pyRange] at h
  obtain ⟨ha, hb⟩ := h
  have hlo : d.nLo ≤ n := Nat.le_trans (Nat.le_max_right _ _) ha
  have hce : (r.clkin.div d.pfdMax).ceil ≤ n := Nat.le_trans (Nat.le_max_left _ _) ha
  have hhi : n < d.nHi := Nat.lt_of_lt_of_le hb (Nat.min_le_right _ _)
  have hfl : n < (r.clkin.div d.pfdMin).floor + 1 := Nat.lt_of_lt_of_le hb (Nat.min_le_left _ _)
  refine ⟨hlo, hhi, ?_⟩
  unfold inRange Q.le
  simp only [Bool.and_eq_true, decide_eq_true_eq, Q.divNat]
  constructor
  · -- pfdMin ≤ clkin/n  from  n ≤ floor(clkin/pfdMin)
    have : n ≤ (r.clkin.num * d.pfdMin.den) / (r.clkin.den * d.pfdMin.num) := by
      simpa [Q.floor, Q.div] using Nat.lt_succ_iff.mp hfl
    rw [Nat.le_div_iff_mul_le h2] at this
    apply decide_eq_true
    calc d.pfdMin.num * (r.clkin.den * n) = n * (r.clkin.den * d.pfdMin.num) := by ring
      _ ≤ r.clkin.num * d.pfdMin.den := this
  · -- clkin/n ≤ pfdMax  from  ceil(clkin/pfdMax) ≤ n
    have hc : (r.clkin.num * d.pfdMax.den + r.clkin.den * d.pfdMax.num - 1) / (r.clkin.den * d.pfdMax.num) ≤ n := by
      simpa [Q.ceil, Q.div] using hce
    have hq := h1
    have key : r.clkin.num * d.pfdMax.den ≤
        (r.clkin.den * d.pfdMax.num) * ((r.clkin.num * d.pfdMax.den + r.clkin.den * d.pfdMax.num - 1) / (r.clkin.den * d.pfdMax.num)) := by
      have hdm := Nat.div_add_mod (r.clkin.num * d.pfdMax.den + r.clkin.den * d.pfdMax.num - 1) (r.clkin.den * d.pfdMax.num)
      have hml := Nat.mod_lt (r.clkin.num * d.pfdMax.den + r.clkin.den * d.pfdMax.num - 1) hq
      omega
    apply decide_eq_true
    calc r.clkin.num * d.pfdMax.den ≤ (r.clkin.den * d.pfdMax.num) * _ := key
      _ ≤ (r.clkin.den * d.pfdMax.num) * n := Nat.mul_le_mul_left _ hc
      _ = d.pfdMax.num * (r.clkin.den * n) := by ring

theorem aSearch_sound {d : ADev} {r : AReq} {c : ACfg} (h1 : 0 < r.clkin.den * d.pfdMax.num)
    (h2 : 0 < r.clkin.den * d.pfdMin.num) (h : aSearch d r = some c) : AValid d r c := by
  unfold aSearch at h
  simp only [Option.map_eq_some_iff] at h
  obtain ⟨⟨c', key⟩, hf, rfl⟩ := h
  rcases foldl_aStep_some _ none _ hf with h0 | ⟨nm, hm, ht⟩
  · cases h0
  · obtain ⟨hn, hmm⟩ := mem_aGrid hm
    obtain ⟨g1, g2, g3, g4, g5⟩ := aTry_some ht
    simp only at g1 g2 g4 g5
    obtain ⟨a1, a2, a3⟩ := mem_aNRange h1 h2 hn
    have e : ACfg.vco r c' = (r.clkin.mulNat nm.2).divNat nm.1 := by unfold ACfg.vco; rw [g1, g2]
    refine ⟨g1 ▸ a1, g1 ▸ a2, g2 ▸ hmm, g1 ▸ a3, e ▸ g3, g4, ?_⟩
    intro p hp
    rw [e]; exact g5 p hp

/-! ### completeness of the Intel search -/

theorem aBestGo_isSome {vco : Q} {o : Out} {lim : Q} : ∀ (cs : List Q) (x : Q × Q),
    (aBestGo vco o lim cs (some x)).isSome = true
  | [], _ => rfl
  | c :: rest, x => by
    simp only [aBestGo]
    split
    · exact aBestGo_isSome rest _
    · exact aBestGo_isSome rest _

theorem aBestGo_none {vco : Q} {o : Out} {lim : Q} : ∀ (cs : List Q), aBestGo vco o lim cs none = none →
    ∀ c ∈ cs, ((vco.div c).absDiff o.freq).le lim = false
  | [], _ => by intro c hc; cases hc
  | c :: rest, h => by
    simp only [aBestGo, Bool.and_true] at h
    split at h
    · have := aBestGo_isSome (vco := vco) (o := o) (lim := lim) rest (c, (vco.div c).absDiff o.freq)
      rw [h] at this; cases this
    · rename_i hc
      intro c' hc'
      rcases List.mem_cons.mp hc' with rfl | hc'
      · simpa using hc
      · exact aBestGo_none rest h c' hc'

theorem aBest_none {cs : List Q} {vco : Q} {o : Out} (h : aBest cs vco o = none) :
    ∀ c ∈ cs, within (vco.div c) o = false := by
  unfold aBest at h
  simp only [Option.map_eq_none_iff] at h
  exact aBestGo_none cs h

theorem aOuts_none {cs : List Q} {vco : Q} : ∀ {outs : List Out}, aOuts cs vco outs = none →
    ∀ l : List Q, outs.length ≤ l.length → ¬ (∀ p ∈ outs.zip l, p.2 ∈ cs ∧ within (vco.div p.2) p.1 = true)
  | [], h => by simp [aOuts] at h
  | o :: os, h => by
    intro l hl hall
    cases l with
    | nil => simp at hl
    | cons cv l' =>
      unfold aOuts at h
      cases hb : aBest cs vco o with
      | none =>
        obtain ⟨h1, h2⟩ := hall (o, cv) (by simp)
        have := aBest_none hb cv h1
        simp only at h2
        rw [this] at h2; cases h2
      | some x =>
        simp only [hb] at h
        cases hr : aOuts cs vco os with
        | some y => simp [hr] at h
        | none =>
          refine aOuts_none hr l' (by simpa using hl) ?_
          intro p hp
          exact hall p (by simp only [List.zip_cons_cons, List.mem_cons]; exact Or.inr hp)

theorem aStep_none {d : ADev} {r : AReq} {cs : List Q} {acc : Option (ACfg × Q)} {nm : Nat × Nat}
    (h : aStep d r cs acc nm = none) : acc = none ∧ aTry d r cs nm.1 nm.2 = none := by
  unfold aStep at h
  cases ht : aTry d r cs nm.1 nm.2 with
  | none => simp only [ht] at h; exact ⟨h, rfl⟩
  | some y =>
    obtain ⟨c, key⟩ := y
    simp only [ht] at h
    cases acc with
    | none => cases h
    | some a => simp only at h; split at h <;> cases h

theorem foldl_aStep_none {d : ADev} {r : AReq} {cs : List Q} : ∀ (grid : List (Nat × Nat)) (acc : Option (ACfg × Q)),
    grid.foldl (aStep d r cs) acc = none → acc = none ∧ ∀ nm ∈ grid, aTry d r cs nm.1 nm.2 = none
  | [], acc, h => ⟨h, fun _ hm => by cases hm⟩
  | nm :: rest, acc, h => by
    simp only [List.foldl_cons] at h
    obtain ⟨h1, h2⟩ := foldl_aStep_none rest _ h
    obtain ⟨g1, g2⟩ := aStep_none h1
    refine ⟨g1, ?_⟩
    intro nm' hm
    rcases List.mem_cons.mp hm with rfl | hm
    · exact g2
    · exact h2 nm' hm

/-- Converse of `mem_aNRange`. -/
theorem mem_aNRange_of {d : ADev} {r : AReq} {n : Nat} (h1 : 0 < r.clkin.den * d.pfdMax.num)
    (h2 : 0 < r.clkin.den * d.pfdMin.num) (hlo : d.nLo ≤ n) (hhi : n < d.nHi)
    (hp : inRange d.pfdMin d.pfdMax (r.clkin.divNat n) = true) : n ∈ aNRange d r := by
  unfold inRange Q.le at hp
  simp only [Bool.and_eq_true, decide_eq_true_eq, Q.divNat] at hp
  obtain ⟨hmin, hmax⟩ := hp
  unfold aNRange
  simp only
  rw [mem_pyRange]
  constructor
  · apply Nat.max_le.mpr
    refine ⟨?_, hlo⟩
    show (r.clkin.num * d.pfdMax.den + r.clkin.den * d.pfdMax.num - 1) / (r.clkin.den * d.pfdMax.num) ≤ n
    apply Nat.le_of_lt_succ
    rw [Nat.div_lt_iff_lt_mul h1]
    have : r.clkin.num * d.pfdMax.den ≤ n * (r.clkin.den * d.pfdMax.num) := by
      calc r.clkin.num * d.pfdMax.den ≤ d.pfdMax.num * (r.clkin.den * n) := of_decide_eq_true hmax
        _ = n * (r.clkin.den * d.pfdMax.num) := by ring
    rw [Nat.succ_mul]
    omega
  · apply Nat.lt_min.mpr
    refine ⟨?_, hhi⟩
    apply Nat.lt_succ_of_le
    show n ≤ (r.clkin.num * d.pfdMin.den) / (r.clkin.den * d.pfdMin.num)
    rw [Nat.le_div_iff_mul_le h2]
    calc n * (r.clkin.den * d.pfdMin.num) = d.pfdMin.num * (r.clkin.den * n) := by ring
      _ ≤ r.clkin.num * d.pfdMin.den := of_decide_eq_true hmin

theorem aSearch_complete {d : ADev} {r : AReq} (h1 : 0 < r.clkin.den * d.pfdMax.num)
    (h2 : 0 < r.clkin.den * d.pfdMin.num) (h : aSearch d r = none) (c : ACfg) : ¬ AValid d r c := by
  rintro ⟨a1, a2, a3, a4, a5, a6, a7⟩
  unfold aSearch at h
  simp only [Option.map_eq_none_iff] at h
  obtain ⟨_, hall⟩ := foldl_aStep_none _ none h
  have hn := mem_aNRange_of h1 h2 a1 a2 a4
  have hg : (c.n, c.m) ∈ aGrid d r := by
    unfold aGrid
    simp only [List.mem_flatMap, List.mem_map]
    exact ⟨c.n, hn, c.m, a3, rfl⟩
  have ht := hall _ hg
  unfold aTry at ht
  simp only at ht
  have hv : inRangeM d.vcoMin d.vcoMax r.vcoMargin ((r.clkin.mulNat c.m).divNat c.n) = true := a5
  rw [if_pos hv] at ht
  simp only [Option.map_eq_none_iff] at ht
  exact aOuts_none ht c.cs (by omega) a7

/-- ALTPLL: `clkin * MULTIPLY_BY / DIVIDE_BY` (DIVIDE_BY = c*n) is the configured `vco/c`. -/
theorem altpll_freq (r : AReq) (c : ACfg) (cv : Q) :
    ((r.clkin.mulNat c.m).div (cv.mulNat c.n)).beq ((c.vco r).div cv) = true := by
  unfold Q.beq
  apply decide_eq_true
  simp only [Q.mul, Q.div, Q.mulNat, Q.divNat, ACfg.vco]
  ring

theorem aParams_spec (r : AReq) (c : ACfg) :
    aParams r c = (c.cs.zip r.outs).map fun (cv, o) => (cv.mulNat c.n, c.m, aPhasePs ((c.vco r).div cv) o.phase) := rfl

/-- A 360° shift is exactly one period of THAT output (in ps, truncated): `10^12 / freq`. -/
theorem aPhasePs_full_turn (f : Q) : aPhasePs f ⟨360, 1⟩ = ((10 ^ 12 * f.den / f.num : Nat) : Int) := by
  unfold aPhasePs SQ.trunc
  simp only
  rw [Int.tdiv_eq_ediv_of_nonneg (Int.mul_nonneg (Int.natCast_nonneg _) (by decide))]
  have e : ((f.num * 1 * 360 : Nat) : Int) = (f.num : Int) * 360 := by push_cast; ring
  rw [e, Int.mul_ediv_mul_of_pos_left _ _ (by decide : (0 : Int) < 360)]
  norm_cast

theorem aPhasePs_zero (f : Q) (k : Nat) : aPhasePs f ⟨0, k⟩ = 0 := by
  unfold aPhasePs SQ.trunc
  simp

/-! ## Gowin GW1N / GW2A -/

theorem Q.not_lt_eq_le (a b : Q) : (!(a.lt b)) = b.le a := by
  unfold Q.lt Q.le
  by_cases h : a.num * b.den < b.num * a.den
  · simp [h]
  · simp [h]; omega

theorem gPick_mem : ∀ {l : List (Q × Nat × Nat × Nat)} {x}, gPick l = some x → x ∈ l
  | [], _, h => by cases h
  | c :: cs, x, h => by
    unfold gPick at h
    simp only [Option.some.injEq] at h
    subst h
    have : ∀ (l : List (Q × Nat × Nat × Nat)) (b : Q × Nat × Nat × Nat),
        l.foldl (fun best x => if x.1.lt best.1 then x else best) b = b ∨
        l.foldl (fun best x => if x.1.lt best.1 then x else best) b ∈ l := by
      intro l
      induction l with
      | nil => intro b; exact Or.inl rfl
      | cons y ys ih =>
        intro b
        simp only [List.foldl_cons]
        rcases ih (if y.1.lt b.1 then y else b) with h | h
        · rw [h]
          split
          · exact Or.inr List.mem_cons_self
          · exact Or.inl rfl
        · exact Or.inr (List.mem_cons_of_mem _ h)
    rcases this cs c with h | h
    · rw [h]; exact List.mem_cons_self
    · exact List.mem_cons_of_mem _ h

theorem mem_gCandidates {d : GDev} {r : GReq} {fm : Out} {x : Q × Nat × Nat × Nat} (h : x ∈ gCandidates d r fm) :
    x.2.1 ∈ pyRange 1 64 ∧ x.2.2.1 ∈ pyRange 1 64 ∧ x.2.2.2 ∈ gOdivs ∧
    (d.pfdMin.le (r.clkin.divNat x.2.1) && (r.clkin.divNat x.2.1).le d.pfdMax) = true ∧
    inRangeM d.vcoMin d.vcoMax r.vcoMargin ((gOutF r x.2.1 x.2.2.1).mulNat x.2.2.2) = true := by
  unfold gCandidates at h
  simp only [List.mem_flatMap] at h
  obtain ⟨idiv, hi, h⟩ := h
  split at h
  · cases h
  · rename_i hp
    simp only [List.mem_flatMap, List.mem_filterMap] at h
    obtain ⟨fdiv, hf, odiv, ho, h⟩ := h
    split at h
    · rename_i hc
      simp only [Option.some.injEq] at h
      subst h
      simp only [Bool.and_eq_true] at hc
      refine ⟨hi, hf, ho, ?_, hc.1⟩
      simp only [Bool.or_eq_true, not_or, Bool.not_eq_true] at hp
      have a := Q.not_lt_eq_le (r.clkin.divNat idiv) d.pfdMin
      have b := Q.not_lt_eq_le d.pfdMax (r.clkin.divNat idiv)
      rw [hp.1] at a
      rw [hp.2] at b
      simp only [Bool.not_false] at a b
      simp [← a, ← b]
    · cases h

theorem gSdiv_spec {fm : Out} {outs : List Out} {sdiv : Nat} (h : gSdiv fm outs = some sdiv) :
    sdiv % 2 = 0 ∧ ∀ o ∈ outs, gTh fm o ≠ 1 → gTh fm o ≠ 3 → gTh fm o = sdiv := by
  unfold gSdiv at h
  simp only at h
  split at h
  · cases h
  · split at h
    · cases h
    · rename_i hlen hcond
      simp only [Option.some.injEq] at h
      simp only [not_or, not_and_or] at hcond
      obtain ⟨_, hd2, hd1⟩ := hcond
      generalize hdd : (List.filter (fun x => decide (x ≠ 3)) (List.filter (fun x => decide (x ≠ 1)) (List.map (gTh fm) outs))) = dd at *
      have hmem : ∀ o ∈ outs, gTh fm o ≠ 1 → gTh fm o ≠ 3 → gTh fm o ∈ dd := by
        intro o ho h1 h3
        rw [← hdd]
        simp only [List.mem_filter, List.mem_map, decide_eq_true_eq]
        exact ⟨⟨⟨o, ho, rfl⟩, h1⟩, h3⟩
      have hle : dd.length ≤ 2 := by
        rw [← hdd]
        exact Nat.le_trans (List.length_filter_le _ _) (by omega)
      match dd, hmem, hle, hd2, hd1, h with
      | [], hmem, _, _, _, h =>
        simp at h; subst h
        exact ⟨rfl, fun o ho h1 h3 => absurd (hmem o ho h1 h3) (by simp)⟩
      | [a], hmem, _, _, hd1, h =>
        simp at h hd1; subst h
        refine ⟨by omega, fun o ho h1 h3 => ?_⟩
        simpa using hmem o ho h1 h3
      | [_, _], _, _, hd2, _, _ => simp at hd2
      | _ :: _ :: _ :: _, _, hle, _, _, _ => simp at hle

theorem consPin_ok {pin : Nat} {x : Res (List Nat)} {l : List Nat} (h : Res.consPin pin x = .ok l) :
    ∃ l', x = .ok l' ∧ l = pin :: l' := by
  cases x <;> simp [Res.consPin] at h
  exact ⟨_, rfl, h.symm⟩

theorem gPins_ok {outF : Q} {fm : Out} {sdiv : Nat} : ∀ {outs : List Out} {hasP : Bool} {pins : List Nat},
    gPins outF fm outs hasP = .ok pins →
    (∀ o ∈ outs, gTh fm o ≠ 1 → gTh fm o ≠ 3 → gTh fm o = sdiv) →
    pins.length = outs.length ∧ ∀ p ∈ outs.zip pins, p.2 ≤ 3 ∧ gMiss (gPinFreq outF sdiv p.2) p.1 = false
  | [], _, pins, h, _ => by simp [gPins] at h; subst h; simp
  | o :: os, hasP, pins, h, hs => by
    have hs' : ∀ o' ∈ os, gTh fm o' ≠ 1 → gTh fm o' ≠ 3 → gTh fm o' = sdiv :=
      fun o' ho' => hs o' (List.mem_cons_of_mem _ ho')
    unfold gPins at h
    simp only at h
    split at h
    · cases h
    · split at h
      · cases h
      · rename_i hth hmiss
        have hmiss' : gMiss (outF.divNat (gTh fm o)) o = false := by simpa using hmiss
        have fin : ∀ (pin : Nat) (rest : Res (List Nat)) (hp : Bool), pin ≤ 3 →
            gPinFreq outF sdiv pin = outF.divNat (gTh fm o) ∨
              (gMiss (gPinFreq outF sdiv pin) o = false) →
            rest = gPins outF fm os hp → Res.consPin pin rest = .ok pins →
            pins.length = (o :: os).length ∧
              ∀ p ∈ (o :: os).zip pins, p.2 ≤ 3 ∧ gMiss (gPinFreq outF sdiv p.2) p.1 = false := by
          intro pin rest hp hpin hfreq hrest hc
          obtain ⟨l', hl', rfl⟩ := consPin_ok hc
          obtain ⟨i1, i2⟩ := gPins_ok (hrest ▸ hl') hs'
          refine ⟨by simp [i1], ?_⟩
          intro p hp'
          simp only [List.zip_cons_cons, List.mem_cons] at hp'
          rcases hp' with rfl | hp'
          · refine ⟨hpin, ?_⟩
            rcases hfreq with hf | hf
            · simp only; rw [hf]; exact hmiss'
            · exact hf
          · exact i2 p hp'
        split at h
        · rename_i h1
          -- th = 1: CLKOUT / CLKOUTP carry outF = outF/1
          have e1 : outF.divNat (gTh fm o) = outF := by
            rw [h1]; cases outF; simp [Q.divNat]
          split at h
          · exact fin 0 _ hasP (by omega) (Or.inl (by simp [gPinFreq, e1])) rfl h
          · split at h
            · cases h
            · exact fin 1 _ true (by omega) (Or.inl (by simp [gPinFreq, e1])) rfl h
        · split at h
          · rename_i h3
            exact fin 2 _ hasP (by omega) (Or.inl (by simp [gPinFreq, h3])) rfl h
          · rename_i h1 h3
            have := hs o List.mem_cons_self h1 h3
            exact fin 3 _ hasP (by omega) (Or.inl (by simp [gPinFreq, this])) rfl h

theorem gSearch_sound {d : GDev} {r : GReq} {c : GCfg} (h : gSearch d r = .ok c) : GValid d r c := by
  unfold gSearch at h
  cases hfm : gFreqMax r.outs with
  | none => simp [hfm] at h
  | some fm =>
    simp only [hfm] at h
    cases hp : gPick (gCandidates d r fm) with
    | none => simp [hp] at h
    | some x =>
      obtain ⟨df, idiv, fdiv, odiv⟩ := x
      simp only [hp] at h
      split at h
      · cases h
      · cases hsd : gSdiv fm r.outs with
        | none => simp [hsd] at h
        | some sdiv =>
          simp only [hsd] at h
          cases hpin : gPins (gOutF r idiv fdiv) fm r.outs false with
          | ok pins =>
            simp only [hpin] at h
            cases h
            obtain ⟨m1, m2, m3, m4, m5⟩ := mem_gCandidates (gPick_mem hp)
            obtain ⟨s1, s2⟩ := gSdiv_spec hsd
            obtain ⟨p1, p2⟩ := gPins_ok (sdiv := sdiv) hpin s2
            exact ⟨m1, m2, m3, m4, m5, s1, p1, p2⟩
          | rejected => simp [hpin] at h
          | assertion => simp [hpin] at h
          | crash => simp [hpin] at h

/-- rPLL: `clkin * (FBDIV_SEL+1) / (IDIV_SEL+1)` is the configured CLKOUT frequency when idiv, fdiv ≥ 1. -/
theorem gParams_spec (r : GReq) (c : GCfg) (hi : 1 ≤ c.idiv) (hf : 1 ≤ c.fdiv) :
    (gParams c).1 + 1 = c.idiv ∧ (gParams c).2.1 + 1 = c.fdiv ∧ (gParams c).2.2.1 = c.odiv ∧ (gParams c).2.2.2 = c.sdiv ∧
    gOutF r ((gParams c).1 + 1) ((gParams c).2.1 + 1) = gOutF r c.idiv c.fdiv := by
  have a : (gParams c).1 + 1 = c.idiv := by show c.idiv - 1 + 1 = c.idiv; omega
  have b : (gParams c).2.1 + 1 = c.fdiv := by show c.fdiv - 1 + 1 = c.fdiv; omega
  exact ⟨a, b, rfl, rfl, by rw [a, b]⟩

/-! ## Oscillators -/

theorem nxOscDiv_some {lo hi : Nat} {hf : Q} {o : Out} {dv : Nat} (h : nxOscDiv lo hi hf o = some dv) :
    dv ∈ pyRange lo hi ∧ within (hf.divNat (dv + 1)) o = true ∧
    ∃ pre suf, pyRange lo hi = pre ++ dv :: suf ∧ ∀ x ∈ pre, within (hf.divNat (x + 1)) o = false := by
  unfold nxOscDiv at h
  obtain ⟨hok, pre, suf, hsplit, hpre⟩ := List.find?_eq_some_iff_append.mp h
  exact ⟨List.mem_of_find?_eq_some h, hok, pre, suf, hsplit, fun x hx => by simpa using hpre x hx⟩

theorem nxOscDiv_none {lo hi : Nat} {hf : Q} {o : Out} (h : nxOscDiv lo hi hf o = none) :
    ∀ dv ∈ pyRange lo hi, within (hf.divNat (dv + 1)) o = false := by
  unfold nxOscDiv at h
  intro dv hdv
  simpa using List.find?_eq_none.mp h dv hdv

/-- The GW1NOSC acceptance window `f*(1-m) <= osc/div <= f*(1+m)`. -/
def gOscOk (osc : Q) (o : Out) (dv : Nat) : Bool :=
  (o.freq.mul (Q.one.subT o.margin)).le (osc.divNat dv) && (osc.divNat dv).le (o.freq.mul (Q.one.add o.margin))

theorem gOscDiv_some {lo hi : Nat} {osc : Q} {o : Out} {dv : Nat} (h : gOscDiv lo hi osc o = some dv) :
    dv ∈ pyRange lo hi ∧ gOscOk osc o dv = true := by
  unfold gOscDiv at h
  refine ⟨by simpa using List.mem_of_find?_eq_some h, ?_⟩
  have := List.find?_some h
  simpa [gOscOk] using this

theorem gOscDiv_none {lo hi : Nat} {osc : Q} {o : Out} (h : gOscDiv lo hi osc o = none) :
    ∀ dv ∈ pyRange lo hi, gOscOk osc o dv = false := by
  unfold gOscDiv at h
  intro dv hdv
  have := List.find?_eq_none.mp h dv (by simpa using hdv)
  simpa [gOscOk] using this

/-! ## iCE40 FILTER_RANGE -/

theorem iFilterRange_spec (clkin : Q) (divr v : Nat) (h : iFilterRange clkin divr = some v) :
    1 ≤ v ∧ v ≤ 6 ∧
    (clkin.divNat (divr + 1)).lt (Q.ofNat ([17000000, 26000000, 44000000, 66000000, 101000000, 133000000].getD (v - 1) 0)) = true := by
  unfold iFilterRange at h
  simp only [List.findSome?_cons, List.findSome?_nil] at h
  by_cases h1 : (clkin.divNat (divr + 1)).lt (Q.ofNat 17000000) = true
  · simp [h1] at h; subst h; exact ⟨by decide, by decide, by simpa using h1⟩
  by_cases h2 : (clkin.divNat (divr + 1)).lt (Q.ofNat 26000000) = true
  · simp [h1, h2] at h; subst h; exact ⟨by decide, by decide, by simpa using h2⟩
  by_cases h3 : (clkin.divNat (divr + 1)).lt (Q.ofNat 44000000) = true
  · simp [h1, h2, h3] at h; subst h; exact ⟨by decide, by decide, by simpa using h3⟩
  by_cases h4 : (clkin.divNat (divr + 1)).lt (Q.ofNat 66000000) = true
  · simp [h1, h2, h3, h4] at h; subst h; exact ⟨by decide, by decide, by simpa using h4⟩
  by_cases h5 : (clkin.divNat (divr + 1)).lt (Q.ofNat 101000000) = true
  · simp [h1, h2, h3, h4, h5] at h; subst h; exact ⟨by decide, by decide, by simpa using h5⟩
  by_cases h6 : (clkin.divNat (divr + 1)).lt (Q.ofNat 133000000) = true
  · simp [h1, h2, h3, h4, h5, h6] at h; subst h; exact ⟨by decide, by decide, by simpa using h6⟩
  simp [h1, h2, h3, h4, h5, h6] at h

end Litex.Clock
