import LitexModel.Clock.Emit
/-
  C20 — "the parameters placed on the emitted primitive equal the configuration": facts about the complete item lists
  of LitexModel/Clock/Emit.lean, for ALL requests and configurations.
-/
namespace Litex.Clock

/-! ## Gowin rPLL / PLLVR: every configuration-carrying item, by key -/

theorem gEmit_get (dn dv : String) (r : GReq) (c : GCfg) :
    (gEmit dn dv r c).get "p_IDIV_SEL" = some (.int ((c.idiv - 1 : Nat) : Int)) ∧
    (gEmit dn dv r c).get "p_FBDIV_SEL" = some (.int ((c.fdiv - 1 : Nat) : Int)) ∧
    (gEmit dn dv r c).get "p_ODIV_SEL" = some (.int (c.odiv : Int)) ∧
    (gEmit dn dv r c).get "p_DYN_SDIV_SEL" = some (.int (c.sdiv : Int)) ∧
    (gEmit dn dv r c).get "p_PSDA_SEL" = some (.str (bin4 c.psda)) ∧
    (gEmit dn dv r c).get "p_CLKOUTD_SRC" = some (.str (gSrc r c 3)) ∧
    (gEmit dn dv r c).get "p_CLKOUTD3_SRC" = some (.str (gSrc r c 2)) ∧
    (gEmit dn dv r c).get "o_CLKOUT" = some (gPortTok c 0) ∧
    (gEmit dn dv r c).get "o_CLKOUTP" = some (gPortTok c 1) ∧
    (gEmit dn dv r c).get "o_CLKOUTD" = some (gPortTok c 3) ∧
    (gEmit dn dv r c).get "o_CLKOUTD3" = some (gPortTok c 2) := by
  refine ⟨?_, ?_, ?_, ?_, ?_, ?_, ?_, ?_, ?_, ?_, ?_⟩ <;> rfl

/-- The clock index recorded for a pin is a clock the configuration put on that pin, and no LATER clock sits on it
    (`config.update` overwrites: the last one wins). -/
theorem gPinClock_go (pin : Nat) : ∀ (l : List (Nat × Nat)) (acc : Option Nat) (i : Nat),
    l.foldl (fun acc (pn : Nat × Nat) => if pn.1 = pin then some pn.2 else acc) acc = some i →
    (acc = some i ∧ ∀ pn ∈ l, pn.1 ≠ pin) ∨ ((pin, i) ∈ l)
  | [], acc, i, h => Or.inl ⟨h, by simp⟩
  | pn :: rest, acc, i, h => by
    simp only [List.foldl_cons] at h
    rcases gPinClock_go pin rest _ i h with ⟨h1, h2⟩ | h1
    · by_cases hp : pn.1 = pin
      · simp only [hp, if_true, Option.some.injEq] at h1
        right
        have : pn = (pin, i) := by cases pn; simp_all
        rw [this]; exact List.mem_cons_self
      · simp only [hp, if_false] at h1
        left
        refine ⟨h1, ?_⟩
        intro q hq
        rcases List.mem_cons.mp hq with rfl | hq
        · exact hp
        · exact h2 q hq
    · exact Or.inr (List.mem_cons_of_mem _ h1)

theorem gPinClock_some {pins : List Nat} {pin i : Nat} (h : gPinClock pins pin = some i) : pins[i]? = some pin := by
  unfold gPinClock at h
  rcases gPinClock_go pin _ none i h with ⟨h1, _⟩ | h1
  · cases h1
  · exact List.mem_zipIdx_iff_getElem?.mp h1

/-- Source selector of a divided output = the tap that carries the phase of the clock the configuration put on that pin:
    "CLKOUT" (unshifted) iff that clock was requested with phase 0, else "CLKOUTP" (the PSDA-shifted tap). -/
theorem gSrc_spec (r : GReq) (c : GCfg) (pin i : Nat) (o : Out) (h : gPinClock c.pins pin = some i)
    (ho : r.outs[i]? = some o) :
    c.pins[i]? = some pin ∧ gSrc r c pin = (if o.phase.num = 0 then "CLKOUT" else "CLKOUTP") ∧
    gPortTok c pin = .tok (clkTok i) := by
  refine ⟨gPinClock_some h, ?_, ?_⟩
  · simp [gSrc, h, ho]
  · simp [gPortTok, h]

/-- An unused pin is left open and its selector is the default "CLKOUT". -/
theorem gSrc_unused (r : GReq) (c : GCfg) (pin : Nat) (h : gPinClock c.pins pin = none) :
    gSrc r c pin = "CLKOUT" ∧ gPortTok c pin = .tok "open" := by
  simp [gSrc, gPortTok, h]

/-! ## iCE40 -/

theorem iEmit_get (pad : Bool) (clkin : Q) (c : ICfg) :
    (iEmit pad clkin c).get "p_DIVR" = some (.int (c.divr : Int)) ∧
    (iEmit pad clkin c).get "p_DIVF" = some (.int (c.divf : Int)) ∧
    (iEmit pad clkin c).get "p_DIVQ" = some (.int (c.divq : Int)) ∧
    (iEmit pad clkin c).get "o_PLLOUTGLOBAL" = some (.tok (clkTok 0)) ∧
    (∀ v, iFilterRange clkin c.divr = some v → (iEmit pad clkin c).get "p_FILTER_RANGE" = some (.int (v : Int))) := by
  refine ⟨rfl, rfl, rfl, rfl, ?_⟩
  intro v hv
  simp [iEmit, Emit.get, List.find?, hv, pvNat]

/-! ## ECP5 / NX / Intel / Xilinx: the fixed items by key, the per-output items by membership -/

theorem eEmit_get (r : EReq) (c : ECfg) :
    (eEmit r c).get "p_CLKI_DIV" = some (.int (c.clkiDiv : Int)) ∧
    (eEmit r c).get "p_CLKFB_DIV" = some (.int (c.clkfbDiv : Int)) ∧
    (eEmit r c).get "p_FEEDBK_PATH" = some (.str ("INT_O" ++ n2l c.clkfb)) :=
  ⟨rfl, rfl, rfl⟩

/-- every enabled output `n` (requested ones and the spare feedback output) carries its divider, the CPHASE/FPHASE
    split of ITS phase word and is wired to clock `n`. -/
theorem eEmit_outs (r : EReq) (c : ECfg) (n dv : Nat) (h : c.divs[n]? = some dv) :
    ∀ kv ∈ eOutItems r n dv, kv ∈ eEmit r c := by
  intro kv hkv
  unfold eEmit
  refine List.mem_append_right _ (List.mem_flatMap.mpr ⟨(dv, n), ?_, hkv⟩)
  exact List.mem_zipIdx_iff_getElem?.mpr h

theorem nEmit_get (r : NReq) (c : NCfg) :
    (nEmit r c).get "p_DIVF" = some (.str (toString ((c.clkfbDiv : Int) - 1))) ∧
    (nEmit r c).get "p_DELF" = some (.str (toString ((c.clkfbDiv : Int) - 1))) ∧
    (nEmit r c).get "p_SEL_FBK" = some (.str "FBKCLK5") ∧ (nEmit r c).get "p_FBK_MMD_DIG" = some (.str "1") :=
  ⟨rfl, rfl, rfl, rfl⟩

theorem nEmit_outs (r : NReq) (c : NCfg) (n dv : Nat) (o : Out) (h : (c.divs.zip r.outs)[n]? = some (dv, o)) :
    ∀ kv ∈ nOutItems n dv o, kv ∈ nEmit r c := by
  intro kv hkv
  unfold nEmit
  refine List.mem_append_right _ (List.mem_flatMap.mpr ⟨((dv, o), n), ?_, hkv⟩)
  exact List.mem_zipIdx_iff_getElem?.mpr h

theorem aEmit_outs (nmax : Nat) (r : AReq) (c : ACfg) (n : Nat) (cv : Q) (o : Out)
    (h : (c.cs.zip r.outs)[n]? = some (cv, o)) :
    ∀ kv ∈ aOutItems r c n cv o, kv ∈ aEmit nmax r c := by
  intro kv hkv
  unfold aEmit
  refine List.mem_append_right _ (List.mem_flatMap.mpr ⟨((cv, o), n), ?_, hkv⟩)
  exact List.mem_zipIdx_iff_getElem?.mpr h

/-- the ALTPLL per-output items are exactly the numbers of `aParams` (DIVIDE_BY = c·n, MULTIPLY_BY = m). -/
theorem aOutItems_spec (r : AReq) (c : ACfg) (n : Nat) (cv : Q) (o : Out) :
    (s!"p_CLK{n}_DIVIDE_BY", pvDiv (cv.mulNat c.n)) ∈ aOutItems r c n cv o ∧
    (s!"p_CLK{n}_MULTIPLY_BY", PV.int (c.m : Int)) ∈ aOutItems r c n cv o := by
  simp [aOutItems, pvNat]

theorem xEmit_get (k : XKind) (of : String) (usp : Bool) (r : XReq) (c : XCfg) (hk : k ≠ .s6dcm) :
    (xEmit k of usp r c).get "p_DIVCLK_DIVIDE" = some (.int (c.divclk : Int)) ∧
    (xEmit k of usp r c).get "of" = some (.str of) ∧
    (xEmit k of usp r c).get "i_CLKFBIN" = (xEmit k of usp r c).get "o_CLKFBOUT" := by
  cases k <;> first | exact absurd rfl hk | exact ⟨rfl, rfl, rfl⟩

theorem xEmit_mult (of : String) (usp : Bool) (r : XReq) (c : XCfg) :
    (xEmit .pll of usp r c).get "p_CLKFBOUT_MULT" = some (if usp then .flt c.mult.toSQ else pvDiv c.mult) ∧
    (xEmit .s6pll of usp r c).get "p_CLKFBOUT_MULT" = some (if usp then .flt c.mult.toSQ else pvDiv c.mult) ∧
    (xEmit .mmcm of usp r c).get "p_CLKFBOUT_MULT_F" = some (if usp then .flt c.mult.toSQ else pvDiv c.mult) ∧
    (xEmit .s6dcm of usp r c).get "p_CLKFX_MULTIPLY" = some (if usp then .flt c.mult.toSQ else pvDiv c.mult) ∧
    (xEmit .s6dcm of usp r c).get "p_CLKFX_DIVIDE" = some (pvDiv ((c.ds.headD Q.zero).mulNat c.divclk)) :=
  ⟨rfl, rfl, rfl, rfl, rfl⟩

theorem xEmit_outs (k : XKind) (of : String) (usp : Bool) (r : XReq) (c : XCfg) (hk : k ≠ .s6dcm) (n : Nat) (dv : Q)
    (o : Out) (h : (c.ds.zip r.outs)[n]? = some (dv, o)) :
    ∀ kv ∈ xOutItems k usp n dv o, kv ∈ xEmit k of usp r c := by
  intro kv hkv
  have hm : ((dv, o), n) ∈ (c.ds.zip r.outs).zipIdx := List.mem_zipIdx_iff_getElem?.mpr h
  cases k
  · unfold xEmit; exact List.mem_append_right _ (List.mem_flatMap.mpr ⟨_, hm, hkv⟩)
  · exact absurd rfl hk
  · unfold xEmit; exact List.mem_append_right _ (List.mem_flatMap.mpr ⟨_, hm, hkv⟩)
  · unfold xEmit; exact List.mem_append_right _ (List.mem_flatMap.mpr ⟨_, hm, hkv⟩)

/-- per-output items: divider (under the primitive's own key: `CLKOUT0_DIVIDE_F` on an MMCM), phase and port. -/
theorem xOutItems_spec (k : XKind) (usp : Bool) (n : Nat) (dv : Q) (o : Out) :
    (s!"o_CLKOUT{n}", PV.tok (clkTok n)) ∈ xOutItems k usp n dv o ∧
    ((if k = .mmcm ∧ n = 0 then s!"p_CLKOUT{n}_DIVIDE_F" else s!"p_CLKOUT{n}_DIVIDE"),
      if usp ∧ n = 0 then PV.flt dv.toSQ else pvDiv dv) ∈ xOutItems k usp n dv o := by
  simp [xOutItems]

/-! ## CologneChip CC_PLL -/

theorem mEmit_get (r : MReq) :
    (mEmit r).get "p_OUT_CLK" = some (.fstr ⟨((mBase r.outs).getD Q.zero).num, ((mBase r.outs).getD Q.zero).den * 1000000⟩) ∧
    (mEmit r).get "p_CLK180_DOUB" = some (.int (match mFreqOf r 180 with
      | some f => if f.beq (((mBase r.outs).getD Q.zero).mulNat 2) then 1 else 0 | none => 0)) ∧
    (mEmit r).get "p_CLK270_DOUB" = some (.int (match mFreqOf r 270 with
      | some f => if f.beq (((mBase r.outs).getD Q.zero).mulNat 2) then 1 else 0 | none => 0)) :=
  ⟨rfl, rfl, rfl⟩

/-- An accepted request is realised by the primitive: every requested clock runs at OUT_CLK, or at twice OUT_CLK on a
    180/270 output (which is then the output whose CLKxxx_DOUB is set). -/
theorem mLegal_spec (r : MReq) (h : mLegal r = true) :
    ∃ base, mBase r.outs = some base ∧ ∀ o ∈ r.outs, o.1 ∈ [0, 90, 180, 270] ∧
      (o.2.beq base = true ∨ ((o.1 = 180 ∨ o.1 = 270) ∧ o.2.beq (base.mulNat 2) = true)) := by
  unfold mLegal at h
  cases hm : mMaxFreq r.perf with
  | none => simp [hm] at h
  | some mx =>
    cases hb : mBase r.outs with
    | none => simp [hm, hb] at h
    | some base =>
      simp only [hm, hb, Bool.and_eq_true, List.all_eq_true] at h
      refine ⟨base, rfl, fun o ho => ?_⟩
      obtain ⟨⟨_, h2⟩, h3⟩ := h
      have h2' := h2 o ho
      have h3' := h3 o ho
      have hmem : o.1 ∈ [0, 90, 180, 270] := by simpa using h2'.1
      refine ⟨hmem, ?_⟩
      by_cases hp : o.1 = 0 ∨ o.1 = 90
      · simp only [hp, if_true] at h3'
        exact Or.inl h3'
      · simp only [hp, if_false, Bool.or_eq_true] at h3'
        rcases h3' with h3' | h3'
        · exact Or.inl h3'
        · right
          refine ⟨?_, h3'⟩
          simp only [List.mem_cons, List.not_mem_nil, or_false] at hmem
          omega

end Litex.Clock
