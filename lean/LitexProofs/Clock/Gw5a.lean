import LitexModel.Clock.Gw5a
import LitexProofs.Clock.IntelGowin
import Mathlib.Tactic.Ring
/-
  Proofs about the GW5A PLL search model (`LitexModel/Clock/Gw5a.lean`).
-/
namespace Litex.Clock

/-! ## per-output / per-triple -/

/-- The code's frequency test `not (diff > m)` with `diff = |vco/odiv - f| / f` is the usual `|vco/odiv - f| <= f*m`
    (identical cross-multiplied inequality: no positivity hypothesis needed). -/
theorem within_eq_wDiff_le (vco : Q) (odiv : Nat) (o : Out) :
    within (vco.divNat odiv) o = (wDiff vco odiv o.freq).le o.margin := by
  unfold within wDiff Q.le Q.div Q.mul
  generalize (vco.divNat odiv).absDiff o.freq = ad
  simp only
  have e1 : ad.num * (o.freq.den * o.margin.den) = ad.num * o.freq.den * o.margin.den := by ring
  have e2 : o.freq.num * o.margin.num * ad.den = o.margin.num * (ad.den * o.freq.num) := by ring
  rw [e1, e2]

theorem consW_ok {α : Type} {x : Res α} {y : Res (List α)} {l : List α} (h : x.consW y = .ok l) :
    ∃ a l', x = .ok a ∧ y = .ok l' ∧ l = a :: l' := by
  cases x <;> cases y <;> simp [Res.consW] at h
  exact ⟨_, _, rfl, rfl, h.symm⟩

theorem consW_crash {α : Type} {x : Res α} {y : Res (List α)} :
    x.consW y = .crash ↔ x = .crash ∨ y = .crash := by
  cases x <;> cases y <;> simp [Res.consW]

theorem consW_ne_assertion {α : Type} {x : Res α} {y : Res (List α)} : x.consW y ≠ .assertion := by
  cases x <;> cases y <;> simp [Res.consW]

/-- `consW` is `.rejected` exactly when nobody crashed and somebody is not `.ok`. -/
theorem consW_rejected {α : Type} {x : Res α} {y : Res (List α)} (h : x.consW y = .rejected) :
    x ≠ .crash ∧ y ≠ .crash ∧ ((∀ a, x ≠ .ok a) ∨ (∀ l, y ≠ .ok l)) := by
  cases x <;> cases y <;> simp [Res.consW] at h ⊢

theorem wOut_ok {vco : Q} {o : Out} {w : WOut} (h : wOut vco o = .ok w) : WOutOk vco o w := by
  unfold wOut at h
  simp only at h
  split at h
  · cases h
  · rename_i h0
    split at h
    · cases h
    · rename_i ht
      simp only [Res.ok.injEq] at h
      subst h
      simp only [Bool.or_eq_true, not_or, Bool.not_eq_true] at ht
      refine ⟨Nat.pos_of_ne_zero h0, ?_, ht.1, rfl, rfl, rfl⟩
      rw [within_eq_wDiff_le, ← Q.not_lt_eq_le, ht.2]; rfl

theorem wOut_ne_assertion {vco : Q} {o : Out} : wOut vco o ≠ .assertion := by
  unfold wOut
  simp only
  split
  · simp
  · split <;> simp

theorem wOut_crash {vco : Q} {o : Out} : wOut vco o = .crash ↔ wOdiv vco o.freq = 0 := by
  unfold wOut
  simp only
  split
  · rename_i h; simp [h]
  · rename_i h
    split <;> simp [h]

/-- `okay = False` for this output: the divider is usable but the phase test or the frequency test fails. -/
theorem wOut_rejected {vco : Q} {o : Out} (h : wOut vco o = .rejected) :
    1 ≤ wOdiv vco o.freq ∧
    (o.margin.lt (wPhaseErr o.phase (wOdiv vco o.freq)) = true ∨ within (vco.divNat (wOdiv vco o.freq)) o = false) := by
  unfold wOut at h
  simp only at h
  split at h
  · cases h
  · rename_i h0
    refine ⟨Nat.pos_of_ne_zero h0, ?_⟩
    split at h
    · rename_i ht
      simp only [Bool.or_eq_true] at ht
      rcases ht with ht | ht
      · exact Or.inl ht
      · right
        rw [within_eq_wDiff_le, ← Q.not_lt_eq_le, ht]; rfl
    · cases h

theorem wOuts_ok {vco : Q} : ∀ {outs : List Out} {l : List WOut}, wOuts vco outs = .ok l →
    l.length = outs.length ∧ ∀ p ∈ outs.zip l, wOut vco p.1 = .ok p.2
  | [], l, h => by simp [wOuts] at h; subst h; simp
  | o :: os, l, h => by
    unfold wOuts at h
    obtain ⟨a, l', h1, h2, rfl⟩ := consW_ok h
    obtain ⟨i1, i2⟩ := wOuts_ok h2
    refine ⟨by simp [i1], ?_⟩
    intro p hp
    simp only [List.zip_cons_cons, List.mem_cons] at hp
    rcases hp with rfl | hp
    · exact h1
    · exact i2 p hp

theorem wOuts_ne_assertion {vco : Q} : ∀ {outs : List Out}, wOuts vco outs ≠ .assertion
  | [] => by simp [wOuts]
  | o :: os => by unfold wOuts; exact consW_ne_assertion

theorem wOuts_crash {vco : Q} : ∀ {outs : List Out}, wOuts vco outs = .crash ↔ ∃ o ∈ outs, wOdiv vco o.freq = 0
  | [] => by simp [wOuts]
  | o :: os => by
    unfold wOuts
    rw [consW_crash, wOut_crash, wOuts_crash]
    simp

theorem wOuts_rejected {vco : Q} : ∀ {outs : List Out}, wOuts vco outs = .rejected →
    (∀ o ∈ outs, wOdiv vco o.freq ≠ 0) ∧ ∃ o ∈ outs, wOut vco o = .rejected
  | [], h => by simp [wOuts] at h
  | o :: os, h => by
    unfold wOuts at h
    obtain ⟨h1, h2, h3⟩ := consW_rejected h
    have hc : ∀ o' ∈ o :: os, wOdiv vco o'.freq ≠ 0 := by
      intro o' ho'
      rcases List.mem_cons.mp ho' with rfl | ho'
      · exact fun e => h1 (wOut_crash.mpr e)
      · exact fun e => h2 (wOuts_crash.mpr ⟨o', ho', e⟩)
    refine ⟨hc, ?_⟩
    rcases h3 with h3 | h3
    · refine ⟨o, List.mem_cons_self, ?_⟩
      cases hx : wOut vco o with
      | ok a => exact absurd hx (h3 a)
      | rejected => rfl
      | assertion => exact absurd hx wOut_ne_assertion
      | crash => exact absurd hx h1
    · cases hy : wOuts vco os with
      | ok l => exact absurd hy (h3 l)
      | rejected =>
        obtain ⟨_, o', ho', hr⟩ := wOuts_rejected hy
        exact ⟨o', List.mem_cons_of_mem _ ho', hr⟩
      | assertion => exact absurd hy wOuts_ne_assertion
      | crash => exact absurd hy h2

theorem wTry_ok {r : WReq} {lo hi : Q} {idiv fdiv mdiv : Nat} {x : WCfg × Q}
    (h : wTry r lo hi idiv fdiv mdiv = .ok x) :
    x.1.idiv = idiv ∧ x.1.fdiv = fdiv ∧ x.1.mdiv = mdiv ∧
    (lo.le (wVco r.clkin idiv fdiv mdiv) && (wVco r.clkin idiv fdiv mdiv).le hi) = true ∧
    wOuts (wVco r.clkin idiv fdiv mdiv) r.outs = .ok x.1.outs ∧ x.2 = wSum x.1.outs := by
  unfold wTry at h
  simp only at h
  split at h
  · rename_i hv
    split at h
    · rename_i outs ho
      simp only [Res.ok.injEq] at h
      subst h
      exact ⟨rfl, rfl, rfl, hv, ho, rfl⟩
    · cases h
    · cases h
  · cases h

theorem wTry_ne_assertion {r : WReq} {lo hi : Q} {idiv fdiv mdiv : Nat} :
    wTry r lo hi idiv fdiv mdiv ≠ .assertion := by
  unfold wTry
  simp only
  split
  · split <;> simp
  · simp

theorem wTry_crash {r : WReq} {lo hi : Q} {idiv fdiv mdiv : Nat} :
    wTry r lo hi idiv fdiv mdiv = .crash ↔
    (lo.le (wVco r.clkin idiv fdiv mdiv) && (wVco r.clkin idiv fdiv mdiv).le hi) = true ∧
    ∃ o ∈ r.outs, wOdiv (wVco r.clkin idiv fdiv mdiv) o.freq = 0 := by
  rw [← wOuts_crash]
  unfold wTry
  simp only
  split
  · rename_i hv
    split
    · rename_i outs ho; simp [ho]
    · rename_i ho; simp [ho, hv]
    · rename_i h1 h2
      constructor
      · intro h; cases h
      · intro h; exact absurd h.2 h2
  · rename_i hv
    simp [hv]

theorem wTry_rejected {r : WReq} {lo hi : Q} {idiv fdiv mdiv : Nat}
    (h : wTry r lo hi idiv fdiv mdiv = .rejected)
    (hv : (lo.le (wVco r.clkin idiv fdiv mdiv) && (wVco r.clkin idiv fdiv mdiv).le hi) = true) :
    wOuts (wVco r.clkin idiv fdiv mdiv) r.outs = .rejected := by
  unfold wTry at h
  simp only [hv, if_true] at h
  cases ho : wOuts (wVco r.clkin idiv fdiv mdiv) r.outs with
  | ok l => simp [ho] at h
  | rejected => rfl
  | assertion => exact absurd ho wOuts_ne_assertion
  | crash => simp [ho] at h

/-! ## the loop nest is a fold over `wGrid` -/

/-- Result of one grid point. -/
def wTryT (d : WDev) (r : WReq) (t : Nat × Nat × Nat) : Res (WCfg × Q) :=
  wTry r (wLo d r) (wHi d r) t.1 t.2.1 t.2.2

theorem wSearchAcc_eq_grid (d : WDev) (r : WReq) :
    wSearchAcc d r = ((wGrid d r).map (wTryT d r)).foldl wMerge .rejected := by
  unfold wSearchAcc wGrid
  simp only [List.foldl_map, List.foldl_flatMap]
  congr 1
  funext acc idiv
  unfold wIdiv
  split
  · rfl
  · simp only [List.foldl_map, List.foldl_flatMap]
    rfl

theorem mem_wGrid {d : WDev} {r : WReq} {t : Nat × Nat × Nat} :
    t ∈ wGrid d r ↔ t.1 ∈ pyRange 1 64 ∧ wPfdSkip d r t.1 = false ∧ t.2.1 ∈ pyRange 1 64 ∧ t.2.2 ∈ pyRange 2 128 := by
  obtain ⟨i, f, m⟩ := t
  unfold wGrid
  simp only [List.mem_flatMap]
  constructor
  · rintro ⟨idiv, hi, h⟩
    split at h
    · cases h
    · rename_i hp
      simp only [List.mem_flatMap, List.mem_map, Prod.mk.injEq] at h
      obtain ⟨fdiv, hf, mdiv, hm, rfl, rfl, rfl⟩ := h
      exact ⟨hi, by simpa using hp, hf, hm⟩
  · rintro ⟨hi, hp, hf, hm⟩
    refine ⟨i, hi, ?_⟩
    rw [if_neg (by simp [hp])]
    simp only [List.mem_flatMap, List.mem_map]
    exact ⟨f, hf, m, hm, rfl⟩

theorem wPfdSkip_false {d : WDev} {r : WReq} {idiv : Nat} :
    wPfdSkip d r idiv = false ↔ inRange d.pfdMin d.pfdMax (r.clkin.divNat idiv) = true := by
  unfold wPfdSkip inRange
  simp only
  rw [← Q.not_lt_eq_le (r.clkin.divNat idiv) d.pfdMin, ← Q.not_lt_eq_le d.pfdMax (r.clkin.divNat idiv)]
  cases (r.clkin.divNat idiv).lt d.pfdMin <;> cases d.pfdMax.lt (r.clkin.divNat idiv) <;> simp

theorem wWindow_eq (d : WDev) (r : WReq) (x : Q) :
    ((wLo d r).le x && x.le (wHi d r)) = inRangeM d.vcoMin d.vcoMax r.vcoMargin x := rfl

/-! ## the accumulator fold -/

theorem foldl_wMerge_crash_acc : ∀ (xs : List (Res (WCfg × Q))), xs.foldl wMerge .crash = .crash
  | [] => rfl
  | x :: xs => by simp only [List.foldl_cons, wMerge]; exact foldl_wMerge_crash_acc xs

theorem wMerge_crash {acc x : Res (WCfg × Q)} : wMerge acc x = .crash ↔ acc = .crash ∨ x = .crash := by
  unfold wMerge
  cases acc <;> cases x <;> simp
  split <;> simp

theorem foldl_wMerge_crash : ∀ (xs : List (Res (WCfg × Q))) (acc : Res (WCfg × Q)),
    xs.foldl wMerge acc = .crash ↔ acc = .crash ∨ .crash ∈ xs
  | [], acc => by simp
  | x :: xs, acc => by
    simp only [List.foldl_cons, List.mem_cons]
    rw [foldl_wMerge_crash xs, wMerge_crash]
    constructor
    · rintro ((h | h) | h)
      · exact Or.inl h
      · exact Or.inr (Or.inl h.symm)
      · exact Or.inr (Or.inr h)
    · rintro (h | h | h)
      · exact Or.inl (Or.inl h)
      · exact Or.inl (Or.inr h.symm)
      · exact Or.inr h

theorem wMerge_ok {acc x : Res (WCfg × Q)} {y : WCfg × Q} (h : wMerge acc x = .ok y) :
    acc = .ok y ∨ x = .ok y := by
  unfold wMerge at h
  cases acc <;> cases x <;> simp at h <;> try (first | exact Or.inl (by rw [h]) | exact Or.inr (by rw [h]))
  split at h
  · exact Or.inr h
  · exact Or.inl h

theorem foldl_wMerge_ok : ∀ (xs : List (Res (WCfg × Q))) (acc : Res (WCfg × Q)) (y : WCfg × Q),
    xs.foldl wMerge acc = .ok y → acc = .ok y ∨ .ok y ∈ xs
  | [], acc, y, h => Or.inl h
  | x :: xs, acc, y, h => by
    simp only [List.foldl_cons] at h
    rcases foldl_wMerge_ok xs _ y h with h1 | h1
    · rcases wMerge_ok h1 with h2 | h2
      · exact Or.inl h2
      · exact Or.inr (by rw [h2]; exact List.mem_cons_self)
    · exact Or.inr (List.mem_cons_of_mem _ h1)

theorem wMerge_rejected {acc x : Res (WCfg × Q)} (h : wMerge acc x = .rejected) :
    acc = .rejected ∧ (x = .rejected ∨ x = .assertion) := by
  unfold wMerge at h
  cases acc <;> cases x <;> simp at h ⊢
  split at h <;> cases h

theorem foldl_wMerge_rejected : ∀ (xs : List (Res (WCfg × Q))) (acc : Res (WCfg × Q)),
    xs.foldl wMerge acc = .rejected → acc = .rejected ∧ ∀ x ∈ xs, x = .rejected ∨ x = .assertion
  | [], acc, h => ⟨h, fun _ hx => by cases hx⟩
  | x :: xs, acc, h => by
    simp only [List.foldl_cons] at h
    obtain ⟨h1, h2⟩ := foldl_wMerge_rejected xs _ h
    obtain ⟨g1, g2⟩ := wMerge_rejected h1
    refine ⟨g1, ?_⟩
    intro x' hx'
    rcases List.mem_cons.mp hx' with rfl | hx'
    · exact g2
    · exact h2 x' hx'

theorem mapW_ok {α β : Type} {f : α → β} {x : Res α} {b : β} (h : x.mapW f = .ok b) : ∃ a, x = .ok a ∧ b = f a := by
  cases x <;> simp [Res.mapW] at h
  exact ⟨_, rfl, h.symm⟩

/-! ## soundness -/

/-- The returned configuration comes from a grid point whose per-triple evaluation succeeded. -/
theorem wSearch_ok_grid {d : WDev} {r : WReq} {c : WCfg} (h : wSearch d r = .ok c) :
    ∃ t ∈ wGrid d r, ∃ s, wTryT d r t = .ok (c, s) := by
  unfold wSearch at h
  obtain ⟨⟨c', s⟩, hx, rfl⟩ := mapW_ok h
  rw [wSearchAcc_eq_grid] at hx
  rcases foldl_wMerge_ok _ _ _ hx with h0 | h0
  · cases h0
  · obtain ⟨t, ht, he⟩ := List.mem_map.mp h0
    exact ⟨t, ht, s, he⟩

/-- 1. Soundness: whatever `compute_config` returns has IDIV/FBDIV/MDIV in range, PFD and VCO inside their windows and
    every requested output within its frequency margin and phase-rounding margin, with a non-zero divider. -/
theorem wSearch_sound {d : WDev} {r : WReq} {c : WCfg} (h : wSearch d r = .ok c) : WValidNoOdiv d r c := by
  obtain ⟨t, ht, s, he⟩ := wSearch_ok_grid h
  obtain ⟨m1, m2, m3, m4⟩ := mem_wGrid.mp ht
  obtain ⟨g1, g2, g3, g4, g5, _⟩ := wTry_ok he
  simp only at g1 g2 g3 g5
  have e : c.vco r = wVco r.clkin t.1 t.2.1 t.2.2 := by unfold WCfg.vco; rw [g1, g2, g3]
  obtain ⟨o1, o2⟩ := wOuts_ok g5
  refine ⟨g1 ▸ m1, g2 ▸ m3, g3 ▸ m4, g1 ▸ wPfdSkip_false.mp m2, ?_, o1, ?_⟩
  · rw [e, ← wWindow_eq]; exact g4
  · intro p hp
    rw [e]; exact wOut_ok (o2 p hp)

/-- 2. … and it is fully valid as soon as the (unchecked) output dividers happen to fit ODIVx_SEL. -/
theorem wSearch_sound_partial {d : WDev} {r : WReq} {c : WCfg} (h : wSearch d r = .ok c)
    (ho : ∀ o ∈ c.outs, o.odiv ≤ 128) : WValid d r c :=
  ⟨wSearch_sound h, ho⟩

/-- Under `0 < f` the frequency conclusion of `WValidNoOdiv` in the usual `within` form (already part of `WOutOk`;
    restated on its own for drivers). -/
theorem wSearch_within {d : WDev} {r : WReq} {c : WCfg} (h : wSearch d r = .ok c) :
    ∀ p ∈ r.outs.zip c.outs, 1 ≤ p.2.odiv ∧ within ((c.vco r).divNat p.2.odiv) p.1 = true ∧
      (wDiff (c.vco r) p.2.odiv p.1.freq).le p.1.margin = true := by
  intro p hp
  obtain ⟨a, b, _⟩ := (wSearch_sound h).2.2.2.2.2.2 p hp
  exact ⟨a, b, by rw [← within_eq_wDiff_le]; exact b⟩

/-! ## crash / rejected characterisations -/

/-- `compute_config` raises ZeroDivisionError exactly when some triple reaching the VCO test is inside the VCO window
    and some requested output has `round(vco/f) = 0` there. -/
theorem wSearch_crash_iff {d : WDev} {r : WReq} :
    wSearch d r = .crash ↔
    ∃ t ∈ wGrid d r, inRangeM d.vcoMin d.vcoMax r.vcoMargin (wVco r.clkin t.1 t.2.1 t.2.2) = true ∧
      ∃ o ∈ r.outs, wOdiv (wVco r.clkin t.1 t.2.1 t.2.2) o.freq = 0 := by
  have e : wSearch d r = .crash ↔ wSearchAcc d r = .crash := by
    unfold wSearch
    cases wSearchAcc d r <;> simp [Res.mapW]
  rw [e, wSearchAcc_eq_grid, foldl_wMerge_crash]
  simp only [reduceCtorEq, false_or, List.mem_map]
  constructor
  · rintro ⟨t, ht, hc⟩
    exact ⟨t, ht, wTry_crash.mp hc⟩
  · rintro ⟨t, ht, hc⟩
    exact ⟨t, ht, wTry_crash.mpr hc⟩

/-- 5. Exhaustiveness of the enumeration: when `compute_config` raises "No PLL config found", EVERY (idiv, fdiv, mdiv)
    of the ranges whose PFD and VCO are inside their windows has an output that fails the code's own test at the
    code's own divider choice `odiv = round(vco/f)` (which is non-zero for all outputs). -/
theorem wSearch_rejected_complete {d : WDev} {r : WReq} (h : wSearch d r = .rejected)
    {idiv fdiv mdiv : Nat} (hi : idiv ∈ pyRange 1 64) (hf : fdiv ∈ pyRange 1 64) (hm : mdiv ∈ pyRange 2 128)
    (hp : inRange d.pfdMin d.pfdMax (r.clkin.divNat idiv) = true)
    (hv : inRangeM d.vcoMin d.vcoMax r.vcoMargin (wVco r.clkin idiv fdiv mdiv) = true) :
    (∀ o ∈ r.outs, 1 ≤ wOdiv (wVco r.clkin idiv fdiv mdiv) o.freq) ∧
    ∃ o ∈ r.outs,
      o.margin.lt (wPhaseErr o.phase (wOdiv (wVco r.clkin idiv fdiv mdiv) o.freq)) = true ∨
      within ((wVco r.clkin idiv fdiv mdiv).divNat (wOdiv (wVco r.clkin idiv fdiv mdiv) o.freq)) o = false := by
  have e : wSearchAcc d r = .rejected := by
    unfold wSearch at h
    cases hx : wSearchAcc d r <;> simp [hx, Res.mapW] at h
    rfl
  rw [wSearchAcc_eq_grid] at e
  obtain ⟨_, hall⟩ := foldl_wMerge_rejected _ _ e
  have hg : (idiv, fdiv, mdiv) ∈ wGrid d r := mem_wGrid.mpr ⟨hi, wPfdSkip_false.mpr hp, hf, hm⟩
  have ht : wTryT d r (idiv, fdiv, mdiv) = .rejected := by
    rcases hall _ (List.mem_map.mpr ⟨_, hg, rfl⟩) with h1 | h1
    · exact h1
    · exact absurd h1 wTry_ne_assertion
  have hr := wTry_rejected ht (by rw [wWindow_eq]; exact hv)
  obtain ⟨hz, o, ho, hro⟩ := wOuts_rejected hr
  refine ⟨fun o' ho' => Nat.pos_of_ne_zero (hz o' ho'), o, ho, (wOut_rejected hro).2⟩

/-- Converse direction of the status: a `.rejected` search never hides a crash or a kept candidate, and conversely a
    kept candidate anywhere on the grid (and no crash) makes the search return a configuration. -/
theorem wSearch_ok_of_kept {d : WDev} {r : WReq} (hc : wSearch d r ≠ .crash)
    {t : Nat × Nat × Nat} (ht : t ∈ wGrid d r) {x : WCfg × Q} (hx : wTryT d r t = .ok x) :
    ∃ c, wSearch d r = .ok c := by
  cases hs : wSearch d r with
  | ok c => exact ⟨c, rfl⟩
  | crash => exact absurd hs hc
  | assertion =>
    unfold wSearch at hs
    cases ha : wSearchAcc d r with
    | assertion =>
      rw [wSearchAcc_eq_grid] at ha
      exfalso
      -- the accumulator starts at `.rejected` and never becomes `.assertion`
      have : ∀ (xs : List (Res (WCfg × Q))) (acc : Res (WCfg × Q)), acc ≠ .assertion →
          xs.foldl wMerge acc ≠ .assertion := by
        intro xs
        induction xs with
        | nil => intro acc h; exact h
        | cons y ys ih =>
          intro acc h
          simp only [List.foldl_cons]
          apply ih
          unfold wMerge
          cases acc <;> cases y <;> simp at h ⊢
          split <;> simp
      exact this _ _ (by simp) ha
    | ok a => simp [ha, Res.mapW] at hs
    | rejected => simp [ha, Res.mapW] at hs
    | crash => simp [ha, Res.mapW] at hs
  | rejected =>
    exfalso
    have e : wSearchAcc d r = .rejected := by
      unfold wSearch at hs
      cases hx : wSearchAcc d r <;> simp [hx, Res.mapW] at hs
      rfl
    rw [wSearchAcc_eq_grid] at e
    obtain ⟨_, hall⟩ := foldl_wMerge_rejected _ _ e
    rcases hall _ (List.mem_map.mpr ⟨t, ht, rfl⟩) with h1 | h1 <;> rw [hx] at h1 <;> cases h1

/-! ## when the ZeroDivisionError cannot happen; evaluating the search from its first exact hit -/

theorem SQ.floor_le_round (a : SQ) : a.floor ≤ a.round := by
  unfold SQ.round
  simp only
  split
  · exact Int.le_refl _
  · split
    · omega
    · split <;> omega

/-- `round(vco/f) >= floor(vco/f)`: any integer `k <= vco/f` is a lower bound of the chosen divider. -/
theorem wOdiv_ge {vco f : Q} {k : Nat} (hf : 0 < f.num) (hd : 0 < vco.den)
    (h : k * (vco.den * f.num) ≤ vco.num * f.den) : k ≤ wOdiv vco f := by
  unfold wOdiv
  rw [if_neg (by omega)]
  have h1 := SQ.floor_le_round (vco.div f).toSQ
  have h2 : (vco.div f).toSQ.floor = ((vco.num * f.den / (vco.den * f.num) : Nat) : Int) := by
    unfold SQ.floor Q.toSQ Q.div
    simp only
    exact (Int.natCast_ediv _ _).symm
  have h3 : k ≤ vco.num * f.den / (vco.den * f.num) :=
    (Nat.le_div_iff_mul_le (Nat.mul_pos hd hf)).mpr h
  omega


/-- No ZeroDivisionError when every requested frequency is positive and not above the lower VCO bound
    `vco_min*(1+vco_margin)` (then `vco/f >= 1` on every in-window triple, so `round(vco/f) >= 1`). -/
theorem wSearch_no_crash {d : WDev} {r : WReq} (hc : 0 < r.clkin.den) (hl : 0 < (wLo d r).den)
    (ho : ∀ o ∈ r.outs, 0 < o.freq.num ∧ o.freq.le (wLo d r) = true) : wSearch d r ≠ .crash := by
  intro h
  obtain ⟨t, ht, hv, o, hoo, hz⟩ := wSearch_crash_iff.mp h
  obtain ⟨m1, _, _, _⟩ := mem_wGrid.mp ht
  rw [mem_pyRange] at m1
  obtain ⟨hf, hle⟩ := ho o hoo
  rw [← wWindow_eq] at hv
  simp only [Bool.and_eq_true] at hv
  have hlo := hv.1
  generalize hvco : wVco r.clkin t.1 t.2.1 t.2.2 = vco at *
  have hd : 0 < vco.den := by
    rw [← hvco]
    show 0 < r.clkin.den * t.1
    exact Nat.mul_pos hc (by omega)
  have key : 1 * (vco.den * o.freq.num) ≤ vco.num * o.freq.den := by
    unfold Q.le at hle hlo
    have a := of_decide_eq_true hle
    have b := of_decide_eq_true hlo
    generalize wLo d r = lo at *
    have c : o.freq.num * vco.den * lo.den ≤ vco.num * o.freq.den * lo.den := by
      calc o.freq.num * vco.den * lo.den = (o.freq.num * lo.den) * vco.den := by ring
        _ ≤ (lo.num * o.freq.den) * vco.den := Nat.mul_le_mul_right _ a
        _ = (lo.num * vco.den) * o.freq.den := by ring
        _ ≤ (vco.num * lo.den) * o.freq.den := Nat.mul_le_mul_right _ b
        _ = vco.num * o.freq.den * lo.den := by ring
    have := Nat.le_of_mul_le_mul_right c hl
    calc 1 * (vco.den * o.freq.num) = o.freq.num * vco.den := by ring
      _ ≤ _ := this
  have := wOdiv_ge hf hd key
  omega

theorem foldl_wMerge_zero {x : WCfg × Q} (hz : x.2.num = 0) : ∀ (xs : List (Res (WCfg × Q))),
    .crash ∉ xs → xs.foldl wMerge (.ok x) = .ok x
  | [], _ => rfl
  | y :: ys, h => by
    simp only [List.mem_cons, not_or] at h
    simp only [List.foldl_cons]
    have : wMerge (.ok x) y = .ok x := by
      unfold wMerge
      cases y with
      | crash => exact absurd rfl h.1
      | ok y =>
        simp only
        have : y.2.lt x.2 = false := by unfold Q.lt; rw [hz]; simp
        rw [this]; rfl
      | rejected => rfl
      | assertion => rfl
    rw [this]
    exact foldl_wMerge_zero hz ys h.2

theorem foldl_wMerge_rejected_all : ∀ (xs : List (Res (WCfg × Q))), (∀ y ∈ xs, y = .rejected) →
    xs.foldl wMerge .rejected = .rejected
  | [], _ => rfl
  | y :: ys, h => by
    simp only [List.foldl_cons]
    rw [h y List.mem_cons_self]
    exact foldl_wMerge_rejected_all ys (fun z hz => h z (List.mem_cons_of_mem _ hz))

/-- A grid point with `diff` sum 0 preceded only by discarded points is the answer (nothing can be strictly better,
    and later ties do not replace it), provided no exception is raised. -/
theorem wSearch_of_first_zero {d : WDev} {r : WReq} {n : Nat} {t : Nat × Nat × Nat} {x : WCfg × Q}
    (hc : wSearch d r ≠ .crash) (hn : (wGrid d r)[n]? = some t)
    (hpre : ∀ u ∈ (wGrid d r).take n, wTryT d r u = .rejected)
    (ht : wTryT d r t = .ok x) (hz : x.2.num = 0) : wSearch d r = .ok x.1 := by
  have hnc : .crash ∉ (wGrid d r).map (wTryT d r) := by
    intro hm
    apply hc
    have : wSearchAcc d r = .crash := by
      rw [wSearchAcc_eq_grid, foldl_wMerge_crash]; exact Or.inr hm
    unfold wSearch; rw [this]; rfl
  have hlt : n < (wGrid d r).length := by
    rcases Nat.lt_or_ge n (wGrid d r).length with h | h
    · exact h
    · rw [List.getElem?_eq_none h] at hn; cases hn
  have hsplit : wGrid d r = (wGrid d r).take n ++ t :: (wGrid d r).drop (n + 1) := by
    have e : (wGrid d r)[n] = t := by
      rw [List.getElem?_eq_getElem hlt] at hn; exact Option.some.inj hn
    rw [← e, List.getElem_cons_drop, List.take_append_drop]
  unfold wSearch
  rw [wSearchAcc_eq_grid]
  rw [hsplit] at hnc ⊢
  simp only [List.map_append, List.map_cons, List.foldl_append, List.foldl_cons, List.mem_append,
    List.mem_cons, not_or] at hnc ⊢
  rw [foldl_wMerge_rejected_all _ (by
    intro y hy
    obtain ⟨u, hu, rfl⟩ := List.mem_map.mp hy
    exact hpre u hu)]
  rw [ht]
  have : wMerge .rejected (.ok x) = .ok x := rfl
  rw [this, foldl_wMerge_zero hz _ hnc.2.2]
  rfl

/-! ## 3. negative witness (ODIV range unchecked) and non-vacuity, kernel-checked -/

/-- `compute_config` on a GW5A-25, 50 MHz in, 5 MHz out: returns ODIV0_SEL = 160.  (The 14 grid points before
    (1,1,16) are evaluated by the kernel; the rest of the 15876-point grid is handled by `wSearch_of_first_zero`:
    the diff sum is already 0 and `wSearch_no_crash` excludes the exception.) -/
theorem wSearch_witness : wSearch gw5a25 wWitReq = .ok wWitCfg :=
  wSearch_of_first_zero (n := 14) (t := (1, 1, 16)) (x := (wWitCfg, ⟨0, 800000000⟩))
    (wSearch_no_crash (by decide) (by decide) (by decide +kernel))
    (by decide +kernel) (by decide +kernel) (by decide +kernel) rfl

/-- … which is outside the primitive's ODIVx_SEL range 1..128: the returned configuration is NOT valid, although it
    satisfies everything else. -/
theorem wWitness_not_valid : ¬ WValid gw5a25 wWitReq wWitCfg := by decide +kernel

theorem wWitness_valid_no_odiv : WValidNoOdiv gw5a25 wWitReq wWitCfg := wSearch_sound wSearch_witness

example : ∃ c, wSearch gw5a25 wWitReq = .ok c ∧ WValidNoOdiv gw5a25 wWitReq c ∧ ¬ WValid gw5a25 wWitReq c ∧
    (c.outs.map (·.odiv)) = [160] :=
  ⟨wWitCfg, wSearch_witness, wWitness_valid_no_odiv, wWitness_not_valid, rfl⟩

/-- For this request no returned configuration is valid (the search is a function: it returns `wWitCfg`). -/
theorem wWitness_all_invalid {c : WCfg} (h : wSearch gw5a25 wWitReq = .ok c) : ¬ WValid gw5a25 wWitReq c := by
  rw [wSearch_witness] at h
  cases h
  exact wWitness_not_valid

/-- Non-vacuity: an accepted request whose configuration is fully valid. -/
theorem wSearch_ok_example : wSearch gw5a25 wOkReq = .ok wOkCfg :=
  wSearch_of_first_zero (n := 14) (t := (1, 1, 16)) (x := (wOkCfg, ⟨0, 800000000⟩))
    (wSearch_no_crash (by decide) (by decide) (by decide +kernel))
    (by decide +kernel) (by decide +kernel) (by decide +kernel) rfl

example : WValid gw5a25 wOkReq wOkCfg := wSearch_sound_partial wSearch_ok_example (by decide)
example : WValid gw5a25 wOkReq wOkCfg := by decide +kernel

/-- A crash witness: adding a 4 GHz output (> 2 * max VCO) makes `round(vco/f) = 0`. -/
example : wTryT gw5a25 ⟨⟨50000000, 1⟩, ⟨0, 1⟩, [⟨⟨4000000000, 1⟩, ⟨0, 1⟩, wMargin1e2⟩]⟩ (1, 1, 16) = .crash := by
  decide +kernel

/-! ## 4. optimality of the best-of pass -/

theorem Q.le_refl' (a : Q) : a.le a = true := by unfold Q.le; simp

theorem Q.le_trans' {a b c : Q} (hb : 0 < b.den) (h1 : a.le b = true) (h2 : b.le c = true) : a.le c = true := by
  unfold Q.le at *
  have x := of_decide_eq_true h1
  have y := of_decide_eq_true h2
  apply decide_eq_true
  have k : a.num * c.den * b.den ≤ c.num * a.den * b.den := by
    calc a.num * c.den * b.den = (a.num * b.den) * c.den := by ring
      _ ≤ (b.num * a.den) * c.den := Nat.mul_le_mul_right _ x
      _ = (b.num * c.den) * a.den := by ring
      _ ≤ (c.num * b.den) * a.den := Nat.mul_le_mul_right _ y
      _ = c.num * a.den * b.den := by ring
  exact Nat.le_of_mul_le_mul_right k hb

theorem Q.le_of_lt' {a b : Q} (h : a.lt b = true) : a.le b = true := by
  unfold Q.lt at h; unfold Q.le
  have := of_decide_eq_true h
  exact decide_eq_true (Nat.le_of_lt this)

theorem Q.le_of_not_lt' {a b : Q} (h : ¬ a.lt b = true) : b.le a = true := by
  rw [← Q.not_lt_eq_le]; simpa using h

theorem foldl_wMerge_best : ∀ (xs : List (Res (WCfg × Q))) (acc : Res (WCfg × Q)) (x : WCfg × Q),
    (∀ y, .ok y ∈ xs → 0 < y.2.den) → (∀ b, acc = .ok b → 0 < b.2.den) → xs.foldl wMerge acc = .ok x →
    (∀ b, acc = .ok b → x.2.le b.2 = true) ∧ ∀ y, .ok y ∈ xs → x.2.le y.2 = true
  | [], acc, x, _, _, h => by
    simp only [List.foldl_nil] at h
    subst h
    exact ⟨fun b hb => by cases hb; exact Q.le_refl' _, fun y hy => by cases hy⟩
  | y :: ys, acc, x, hp, ha, h => by
    simp only [List.foldl_cons] at h
    have hp' : ∀ z, .ok z ∈ ys → 0 < z.2.den := fun z hz => hp z (List.mem_cons_of_mem _ hz)
    have ha' : ∀ b, wMerge acc y = .ok b → 0 < b.2.den := by
      intro b hb
      rcases wMerge_ok hb with h1 | h1
      · exact ha b h1
      · exact hp b (by rw [h1]; exact List.mem_cons_self)
    obtain ⟨i1, i2⟩ := foldl_wMerge_best ys _ x hp' ha' h
    have fin : (∀ b, acc = .ok b → x.2.le b.2 = true) ∧ (∀ z, y = .ok z → x.2.le z.2 = true) := by
      cases acc with
      | crash =>
        have : wMerge .crash y = .crash := rfl
        rw [this, foldl_wMerge_crash_acc] at h; cases h
      | ok b =>
        have hbd := ha b rfl
        cases y with
        | crash =>
          have : wMerge (.ok b) .crash = .crash := rfl
          rw [this, foldl_wMerge_crash_acc] at h; cases h
        | ok z =>
          have hzd := hp z List.mem_cons_self
          by_cases hlt : z.2.lt b.2 = true
          · have e : wMerge (.ok b) (.ok z) = .ok z := by simp [wMerge, hlt]
            have xz := i1 z e
            refine ⟨fun b' hb' => ?_, fun z' hz' => ?_⟩
            · cases hb'; exact Q.le_trans' hzd xz (Q.le_of_lt' hlt)
            · cases hz'; exact xz
          · have e : wMerge (.ok b) (.ok z) = .ok b := by simp [wMerge, hlt]
            have xb := i1 b e
            refine ⟨fun b' hb' => ?_, fun z' hz' => ?_⟩
            · cases hb'; exact xb
            · cases hz'; exact Q.le_trans' hbd xb (Q.le_of_not_lt' hlt)
        | rejected =>
          have e : wMerge (.ok b) .rejected = .ok b := rfl
          exact ⟨fun b' hb' => by cases hb'; exact i1 b e, fun z hz => by cases hz⟩
        | assertion =>
          have e : wMerge (.ok b) .assertion = .ok b := rfl
          exact ⟨fun b' hb' => by cases hb'; exact i1 b e, fun z hz => by cases hz⟩
      | rejected =>
        refine ⟨fun b hb => (by cases hb), fun z hz => ?_⟩
        subst hz
        exact i1 z rfl
      | assertion =>
        refine ⟨fun b hb => (by cases hb), fun z hz => ?_⟩
        subst hz
        exact i1 z rfl
    refine ⟨fin.1, ?_⟩
    intro z hz
    rcases List.mem_cons.mp hz with hz | hz
    · exact fin.2 z hz.symm
    · exact i2 z hz

theorem wSum_den_pos : ∀ (l : List WOut) (s : Q), 0 < s.den → (∀ w ∈ l, 0 < w.diff.den) →
    0 < (l.foldl (fun s o => s.add o.diff) s).den
  | [], s, hs, _ => hs
  | w :: ws, s, hs, h => by
    simp only [List.foldl_cons]
    apply wSum_den_pos ws
    · show 0 < s.den * w.diff.den
      exact Nat.mul_pos hs (h w List.mem_cons_self)
    · exact fun w' hw' => h w' (List.mem_cons_of_mem _ hw')

theorem wOuts_diff_den_pos {vco : Q} (hv : 0 < vco.den) : ∀ {outs : List Out} {l : List WOut},
    (∀ o ∈ outs, 0 < o.freq.num ∧ 0 < o.freq.den) → wOuts vco outs = .ok l → ∀ w ∈ l, 0 < w.diff.den
  | [], l, _, h => by simp [wOuts] at h; subst h; intro w hw; cases hw
  | o :: os, l, ho, h => by
    unfold wOuts at h
    obtain ⟨a, l', h1, h2, rfl⟩ := consW_ok h
    intro w hw
    rcases List.mem_cons.mp hw with rfl | hw
    · obtain ⟨p1, _, _, p4, _⟩ := wOut_ok h1
      obtain ⟨f1, f2⟩ := ho o List.mem_cons_self
      rw [p4]
      show 0 < vco.den * w.odiv * o.freq.den * o.freq.num
      exact Nat.mul_pos (Nat.mul_pos (Nat.mul_pos hv p1) f2) f1
    · exact wOuts_diff_den_pos hv (fun o' ho' => ho o' (List.mem_cons_of_mem _ ho')) h2 w hw

/-- 4. Optimality: the returned candidate's diff sum is minimal among ALL kept candidates of the grid
    (denominators of the inputs positive, requested frequencies positive). -/
theorem wSearch_best {d : WDev} {r : WReq} {x : WCfg × Q} (hc : 0 < r.clkin.den)
    (ho : ∀ o ∈ r.outs, 0 < o.freq.num ∧ 0 < o.freq.den) (h : wSearchAcc d r = .ok x) :
    (∃ t ∈ wGrid d r, wTryT d r t = .ok x) ∧
    ∀ t ∈ wGrid d r, ∀ y, wTryT d r t = .ok y → x.2.le y.2 = true := by
  rw [wSearchAcc_eq_grid] at h
  have hpos : ∀ y, .ok y ∈ (wGrid d r).map (wTryT d r) → 0 < y.2.den := by
    intro y hy
    obtain ⟨t, ht, he⟩ := List.mem_map.mp hy
    obtain ⟨m1, _, _, _⟩ := mem_wGrid.mp ht
    rw [mem_pyRange] at m1
    obtain ⟨_, _, _, _, g5, g6⟩ := wTry_ok he
    rw [g6]
    have hv : 0 < (wVco r.clkin t.1 t.2.1 t.2.2).den := by
      show 0 < r.clkin.den * t.1
      exact Nat.mul_pos hc (by omega)
    exact wSum_den_pos _ _ (by decide) (wOuts_diff_den_pos hv ho g5)
  obtain ⟨_, h2⟩ := foldl_wMerge_best _ _ x hpos (fun b hb => by cases hb) h
  refine ⟨?_, fun t ht y hy => h2 y (List.mem_map.mpr ⟨t, ht, hy⟩)⟩
  rcases foldl_wMerge_ok _ _ _ h with h0 | h0
  · cases h0
  · obtain ⟨t, ht, he⟩ := List.mem_map.mp h0
    exact ⟨t, ht, he⟩

/-
  wSearch_first_open (not proved, no time): the returned candidate is the FIRST grid point attaining the minimal diff
  sum, i.e.  wSearchAcc d r = .ok x → ∃ pre suf, (wGrid d r).map (wTryT d r) = pre ++ .ok x :: suf ∧
  ∀ y, .ok y ∈ pre → x.2.lt y.2 = true   (same positivity hypotheses as `wSearch_best`; needs lt/le transitivity).
  The special case "first grid point with diff sum exactly 0" IS proved: `wSearch_of_first_zero`.
-/

end Litex.Clock
