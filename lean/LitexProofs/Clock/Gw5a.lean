import LitexModel.Clock.Gw5a
import LitexProofs.Clock.IntelGowin
import Mathlib.Tactic.Ring
/-
  Proofs about the GW5A PLL search model (`LitexModel/Clock/Gw5a.lean`).
-/
namespace Litex.Clock

/-! ## per-output / per-triple -/

/-- The code's frequency test `not (diff > m)` with `diff = |vco/odiv - f| / f` is the usual `|vco/odiv - f| <= f*m`
    (identical cross-multiplied inequality: no positivity hypothesis needed). -/
theorem within_eq_wDiff_le (vco : Q) (odiv : Nat) (o : Out) :
    within (vco.divNat odiv) o = (wDiff vco odiv o.freq).le o.margin := by
  unfold within wDiff Q.le Q.div Q.mul
  generalize (vco.divNat odiv).absDiff o.freq = ad
  simp only
  have e1 : ad.num * (o.freq.den * o.margin.den) = ad.num * o.freq.den * o.margin.den := by ring
  have e2 : o.freq.num * o.margin.num * ad.den = o.margin.num * (ad.den * o.freq.num) := by ring
  rw [e1, e2]

theorem consW_ok {α : Type} {x : Res α} {y : Res (List α)} {l : List α} (h : x.consW y = .ok l) :
    ∃ a l', x = .ok a ∧ y = .ok l' ∧ l = a :: l' := by
  cases x <;> cases y <;> simp [Res.consW] at h
  exact ⟨_, _, rfl, rfl, h.symm⟩

theorem consW_crash {α : Type} {x : Res α} {y : Res (List α)} :
    x.consW y = .crash ↔ x = .crash ∨ y = .crash := by
  cases x <;> cases y <;> simp [Res.consW]

theorem consW_ne_assertion {α : Type} {x : Res α} {y : Res (List α)} : x.consW y ≠ .assertion := by
  cases x <;> cases y <;> simp [Res.consW]

/-- `consW` is `.rejected` exactly when nobody crashed and somebody is not `.ok`. -/
theorem consW_rejected {α : Type} {x : Res α} {y : Res (List α)} (h : x.consW y = .rejected) :
    x ≠ .crash ∧ y ≠ .crash ∧ ((∀ a, x ≠ .ok a) ∨ (∀ l, y ≠ .ok l)) := by
  cases x <;> cases y <;> simp [Res.consW] at h ⊢

theorem wOut_ok {vco : Q} {o : Out} {w : WOut} (h : wOut vco o = .ok w) : WOutOk vco o w := by
  unfold wOut at h
  simp only at h
  split at h
  · cases h
  · rename_i h0
    split at h
    · cases h
    · rename_i ht
      simp only [Res.ok.injEq] at h
      subst h
      simp only [Bool.or_eq_true, not_or, Bool.not_eq_true] at ht
      refine ⟨Nat.pos_of_ne_zero h0, ?_, ht.1, rfl, rfl, rfl⟩
      rw [within_eq_wDiff_le, ← Q.not_lt_eq_le, ht.2]; rfl

theorem wOut_ne_assertion {vco : Q} {o : Out} : wOut vco o ≠ .assertion := by
  unfold wOut
  simp only
  split
  · simp
  · split <;> simp

theorem wOut_crash {vco : Q} {o : Out} : wOut vco o = .crash ↔ wOdiv vco o.freq = 0 := by
  unfold wOut
  simp only
  split
  · rename_i h; simp [h]
  · rename_i h
    split <;> simp [h]

/-- `okay = False` for this output: the divider is usable but the phase test or the frequency test fails. -/
theorem wOut_rejected {vco : Q} {o : Out} (h : wOut vco o = .rejected) :
    1 ≤ wOdiv vco o.freq ∧
    (o.margin.lt (wPhaseErr o.phase (wOdiv vco o.freq)) = true ∨ within (vco.divNat (wOdiv vco o.freq)) o = false) := by
  unfold wOut at h
  simp only at h
  split at h
  · cases h
  · rename_i h0
    refine ⟨Nat.pos_of_ne_zero h0, ?_⟩
    split at h
    · rename_i ht
      simp only [Bool.or_eq_true] at ht
      rcases ht with ht | ht
      · exact Or.inl ht
      · right
        rw [within_eq_wDiff_le, ← Q.not_lt_eq_le, ht]; rfl
    · cases h

theorem wOuts_ok {vco : Q} : ∀ {outs : List Out} {l : List WOut}, wOuts vco outs = .ok l →
    l.length = outs.length ∧ ∀ p ∈ outs.zip l, wOut vco p.1 = .ok p.2
  | [], l, h => by simp [wOuts] at h; subst h; simp
  | o :: os, l, h => by
    unfold wOuts at h
    obtain ⟨a, l', h1, h2, rfl⟩ := consW_ok h
    obtain ⟨i1, i2⟩ := wOuts_ok h2
    refine ⟨by simp [i1], ?_⟩
    intro p hp
    simp only [List.zip_cons_cons, List.mem_cons] at hp
    rcases hp with rfl | hp
    · exact h1
    · exact i2 p hp

theorem wOuts_ne_assertion {vco : Q} : ∀ {outs : List Out}, wOuts vco outs ≠ .assertion
  | [] => by simp [wOuts]
  | o :: os => by unfold wOuts; exact consW_ne_assertion

theorem wOuts_crash {vco : Q} : ∀ {outs : List Out}, wOuts vco outs = .crash ↔ ∃ o ∈ outs, wOdiv vco o.freq = 0
  | [] => by simp [wOuts]
  | o :: os => by
    unfold wOuts
    rw [consW_crash, wOut_crash, wOuts_crash]
    simp

theorem wOuts_rejected {vco : Q} : ∀ {outs : List Out}, wOuts vco outs = .rejected →
    (∀ o ∈ outs, wOdiv vco o.freq ≠ 0) ∧ ∃ o ∈ outs, wOut vco o = .rejected
  | [], h => by simp [wOuts] at h
  | o :: os, h => by
    unfold wOuts at h
    obtain ⟨h1, h2, h3⟩ := consW_rejected h
    have hc : ∀ o' ∈ o :: os, wOdiv vco o'.freq ≠ 0 := by
      intro o' ho'
      rcases List.mem_cons.mp ho' with rfl | ho'
      · exact fun e => h1 (wOut_crash.mpr e)
      · exact fun e => h2 (wOuts_crash.mpr ⟨o', ho', e⟩)
    refine ⟨hc, ?_⟩
    rcases h3 with h3 | h3
    · refine ⟨o, List.mem_cons_self, ?_⟩
      cases hx : wOut vco o with
      | ok a => exact absurd hx (h3 a)
      | rejected => rfl
      | assertion => exact absurd hx wOut_ne_assertion
      | crash => exact absurd hx h1
    · cases hy : wOuts vco os with
      | ok l => exact absurd hy (h3 l)
      | rejected =>
        obtain ⟨_, o', ho', hr⟩ := wOuts_rejected hy
        exact ⟨o', List.mem_cons_of_mem _ ho', hr⟩
      | assertion => exact absurd hy wOuts_ne_assertion
      | crash => exact absurd hy h2

theorem wTry_ok {r : WReq} {lo hi : Q} {idiv fdiv mdiv : Nat} {x : WCfg × Q}
    (h : wTry r lo hi idiv fdiv mdiv = .ok x) :
    x.1.idiv = idiv ∧ x.1.fdiv = fdiv ∧ x.1.mdiv = mdiv ∧
    (lo.le (wVco r.clkin idiv fdiv mdiv) && (wVco r.clkin idiv fdiv mdiv).le hi) = true ∧
    wOuts (wVco r.clkin idiv fdiv mdiv) r.outs = .ok x.1.outs ∧ x.2 = wSum x.1.outs := by
  unfold wTry at h
  simp only at h
  split at h
  · rename_i hv
    split at h
    · rename_i outs ho
      simp only [Res.ok.injEq] at h
      subst h
      exact ⟨rfl, rfl, rfl, hv, ho, rfl⟩
    · cases h
    · cases h
  · cases h

theorem wTry_ne_assertion {r : WReq} {lo hi : Q} {idiv fdiv mdiv : Nat} :
    wTry r lo hi idiv fdiv mdiv ≠ .assertion := by
  unfold wTry
  simp only
  split
  · split <;> simp
  · simp

theorem wTry_crash {r : WReq} {lo hi : Q} {idiv fdiv mdiv : Nat} :
    wTry r lo hi idiv fdiv mdiv = .crash ↔
    (lo.le (wVco r.clkin idiv fdiv mdiv) && (wVco r.clkin idiv fdiv mdiv).le hi) = true ∧
    ∃ o ∈ r.outs, wOdiv (wVco r.clkin idiv fdiv mdiv) o.freq = 0 := by
  rw [← wOuts_crash]
  unfold wTry
  simp only
  split
  · rename_i hv
    split
    · rename_i outs ho; simp [ho]
    · rename_i ho; simp [ho, hv]
    · rename_i h1 h2
      constructor
      · intro h; cases h
      · intro h; exact absurd h.2 h2
  · rename_i hv
    simp [hv]

theorem wTry_rejected {r : WReq} {lo hi : Q} {idiv fdiv mdiv : Nat}
    (h : wTry r lo hi idiv fdiv mdiv = .rejected)
    (hv : (lo.le (wVco r.clkin idiv fdiv mdiv) && (wVco r.clkin idiv fdiv mdiv).le hi) = true) :
    wOuts (wVco r.clkin idiv fdiv mdiv) r.outs = .rejected := by
  unfold wTry at h
  simp only [hv, if_true] at h
  cases ho : wOuts (wVco r.clkin idiv fdiv mdiv) r.outs with
  | ok l => simp [ho] at h
  | rejected => rfl
  | assertion => exact absurd ho wOuts_ne_assertion
  | crash => simp [ho] at h

/-! ## the loop nest is a fold over `wGrid` -/

/-- Result of one grid point. -/
def wTryT (d : WDev) (r : WReq) (t : Nat × Nat × Nat) : Res (WCfg × Q) :=
  wTry r (wLo d r) (wHi d r) t.1 t.2.1 t.2.2

theorem wSearchAcc_eq_grid (d : WDev) (r : WReq) :
    wSearchAcc d r = ((wGrid d r).map (wTryT d r)).foldl wMerge .rejected := by
  unfold wSearchAcc wGrid
  simp only [List.foldl_map, List.foldl_flatMap]
  congr 1
  funext acc idiv
  unfold wIdiv
  split
  · rfl
  · simp only [List.foldl_map, List.foldl_flatMap]
    rfl

theorem mem_wGrid {d : WDev} {r : WReq} {t : Nat × Nat × Nat} :
    t ∈ wGrid d r ↔ t.1 ∈ pyRange 1 64 ∧ wPfdSkip d r t.1 = false ∧ t.2.1 ∈ pyRange 1 64 ∧ t.2.2 ∈ pyRange 2 128 := by
  obtain ⟨i, f, m⟩ := t
  unfold wGrid
  simp only [List.mem_flatMap]
  constructor
  · rintro ⟨idiv, hi, h⟩
    split at h
    · cases h
    · rename_i hp
      simp only [List.mem_flatMap, List.mem_map, Prod.mk.injEq] at h
      obtain ⟨fdiv, hf, mdiv, hm, rfl, rfl, rfl⟩ := h
      exact ⟨hi, by simpa using hp, hf, hm⟩
  · rintro ⟨hi, hp, hf, hm⟩
    refine ⟨i, hi, ?_⟩
    rw [if_neg (by simp [hp])]
    simp only [List.mem_flatMap, List.mem_map]
    exact ⟨f, hf, m, hm, rfl⟩

theorem wPfdSkip_false {d : WDev} {r : WReq} {idiv : Nat} :
    wPfdSkip d r idiv = false ↔ inRange d.pfdMin d.pfdMax (r.clkin.divNat idiv) = true := by
  unfold wPfdSkip inRange
  simp only
  rw [← Q.not_lt_eq_le (r.clkin.divNat idiv) d.pfdMin, ← Q.not_lt_eq_le d.pfdMax (r.clkin.divNat idiv)]
  cases (r.clkin.divNat idiv).lt d.pfdMin <;> cases d.pfdMax.lt (r.clkin.divNat idiv) <;> simp

theorem wWindow_eq (d : WDev) (r : WReq) (x : Q) :
    ((wLo d r).le x && x.le (wHi d r)) = inRangeM d.vcoMin d.vcoMax r.vcoMargin x := rfl

/-! ## the accumulator fold -/

theorem foldl_wMerge_crash_acc : ∀ (xs : List (Res (WCfg × Q))), xs.foldl wMerge .crash = .crash
  | [] => rfl
  | x :: xs => by simp only [List.foldl_cons, wMerge]; exact foldl_wMerge_crash_acc xs

theorem wMerge_crash {acc x : Res (WCfg × Q)} : wMerge acc x = .crash ↔ acc = .crash ∨ x = .crash := by
  unfold wMerge
  cases acc <;> cases x <;> simp
  split <;> simp

theorem foldl_wMerge_crash : ∀ (xs : List (Res (WCfg × Q))) (acc : Res (WCfg × Q)),
    xs.foldl wMerge acc = .crash ↔ acc = .crash ∨ .crash ∈ xs
  | [], acc => by simp
  | x :: xs, acc => by
    simp only [List.foldl_cons, List.mem_cons]
    rw [foldl_wMerge_crash xs, wMerge_crash]
    constructor
    · rintro ((h | h) | h)
      · exact Or.inl h
      · exact Or.inr (Or.inl h.symm)
      · exact Or.inr (Or.inr h)
    · rintro (h | h | h)
      · exact Or.inl (Or.inl h)
      · exact Or.inl (Or.inr h.symm)
      · exact Or.inr h

theorem wMerge_ok {acc x : Res (WCfg × Q)} {y : WCfg × Q} (h : wMerge acc x = .ok y) :
    acc = .ok y ∨ x = .ok y := by
  unfold wMerge at h
  cases acc <;> cases x <;> simp at h <;> try (first | exact Or.inl (by rw [h]) | exact Or.inr (by rw [h]))
  split at h
  · exact Or.inr h
  · exact Or.inl h

theorem foldl_wMerge_ok : ∀ (xs : List (Res (WCfg × Q))) (acc : Res (WCfg × Q)) (y : WCfg × Q),
    xs.foldl wMerge acc = .ok y → acc = .ok y ∨ .ok y ∈ xs
  | [], acc, y, h => Or.inl h
  | x :: xs, acc, y, h => by
    simp only [List.foldl_cons] at h
    rcases foldl_wMerge_ok xs _ y h with h1 | h1
    · rcases wMerge_ok h1 with h2 | h2
      · exact Or.inl h2
      · exact Or.inr (by rw [h2]; exact List.mem_cons_self)
    · exact Or.inr (List.mem_cons_of_mem _ h1)

theorem wMerge_rejected {acc x : Res (WCfg × Q)} (h : wMerge acc x = .rejected) :
    acc = .rejected ∧ (x = .rejected ∨ x = .assertion) := by
  unfold wMerge at h
  cases acc <;> cases x <;> simp at h ⊢
  split at h <;> cases h

theorem foldl_wMerge_rejected : ∀ (xs : List (Res (WCfg × Q))) (acc : Res (WCfg × Q)),
    xs.foldl wMerge acc = .rejected → acc = .rejected ∧ ∀ x ∈ xs, x = .rejected ∨ x = .assertion
  | [], acc, h => ⟨h, fun _ hx => by cases hx⟩
  | x :: xs, acc, h => by
    simp only [List.foldl_cons] at h
    obtain ⟨h1, h2⟩ := foldl_wMerge_rejected xs _ h
    obtain ⟨g1, g2⟩ := wMerge_rejected h1
    refine ⟨g1, ?_⟩
    intro x' hx'
    rcases List.mem_cons.mp hx' with rfl | hx'
    · exact g2
    · exact h2 x' hx'

theorem mapW_ok {α β : Type} {f : α → β} {x : Res α} {b : β} (h : x.mapW f = .ok b) : ∃ a, x = .ok a ∧ b = f a := by
  cases x <;> simp [Res.mapW] at h
  exact ⟨_, rfl, h.symm⟩

/-! ## soundness -/

/-- The returned configuration comes from a grid point whose per-triple evaluation succeeded. -/
theorem wSearch_ok_grid {d : WDev} {r : WReq} {c : WCfg} (h : wSearch d r = .ok c) :
    ∃ t ∈ wGrid d r, ∃ s, wTryT d r t = .ok (c, s) := by
  unfold wSearch at h
  obtain ⟨⟨c', s⟩, hx, rfl⟩ := mapW_ok h
  rw [wSearchAcc_eq_grid] at hx
  rcases foldl_wMerge_ok _ _ _ hx with h0 | h0
  · cases h0
  · obtain ⟨t, ht, he⟩ := List.mem_map.mp h0
    exact ⟨t, ht, s, he⟩

/-- 1. Soundness: whatever `compute_config` returns has IDIV/FBDIV/MDIV in range, PFD and VCO inside their windows and
    every requested output within its frequency margin and phase-rounding margin, with a non-zero divider. -/
theorem wSearch_sound {d : WDev} {r : WReq} {c : WCfg} (h : wSearch d r = .ok c) : WValidNoOdiv d r c := by
  obtain ⟨t, ht, s, he⟩ := wSearch_ok_grid h
  obtain ⟨m1, m2, m3, m4⟩ := mem_wGrid.mp ht
  obtain ⟨g1, g2, g3, g4, g5, _⟩ := wTry_ok he
  simp only at g1 g2 g3 g5
  have e : c.vco r = wVco r.clkin t.1 t.2.1 t.2.2 := by unfold WCfg.vco; rw [g1, g2, g3]
  obtain ⟨o1, o2⟩ := wOuts_ok g5
  refine ⟨g1 ▸ m1, g2 ▸ m3, g3 ▸ m4, g1 ▸ wPfdSkip_false.mp m2, ?_, o1, ?_⟩
  · rw [e, ← wWindow_eq]; exact g4
  · intro p hp
    rw [e]; exact wOut_ok (o2 p hp)

/-- 2. … and it is fully valid as soon as the (unchecked) output dividers happen to fit ODIVx_SEL. -/
theorem wSearch_sound_partial {d : WDev} {r : WReq} {c : WCfg} (h : wSearch d r = .ok c)
    (ho : ∀ o ∈ c.outs, o.odiv ≤ 128) : WValid d r c :=
  ⟨wSearch_sound h, ho⟩

/-- Under `0 < f` the frequency conclusion of `WValidNoOdiv` in the usual `within` form (already part of `WOutOk`;
    restated on its own for drivers). -/
theorem wSearch_within {d : WDev} {r : WReq} {c : WCfg} (h : wSearch d r = .ok c) :
    ∀ p ∈ r.outs.zip c.outs, 1 ≤ p.2.odiv ∧ within ((c.vco r).divNat p.2.odiv) p.1 = true ∧
      (wDiff (c.vco r) p.2.odiv p.1.freq).le p.1.margin = true := by
  intro p hp
  obtain ⟨a, b, _⟩ := (wSearch_sound h).2.2.2.2.2.2 p hp
  exact ⟨a, b, by rw [← within_eq_wDiff_le]; exact b⟩

/-! ## crash / rejected characterisations -/

/-- `compute_config` raises ZeroDivisionError exactly when some triple reaching the VCO test is inside the VCO window
    and some requested output has `round(vco/f) = 0` there. -/
theorem wSearch_crash_iff {d : WDev} {r : WReq} :
    wSearch d r = .crash ↔
    ∃ t ∈ wGrid d r, inRangeM d.vcoMin d.vcoMax r.vcoMargin (wVco r.clkin t.1 t.2.1 t.2.2) = true ∧
      ∃ o ∈ r.outs, wOdiv (wVco r.clkin t.1 t.2.1 t.2.2) o.freq = 0 := by
  have e : wSearch d r = .crash ↔ wSearchAcc d r = .crash := by
    unfold wSearch
    cases wSearchAcc d r <;> simp [Res.mapW]
  rw [e, wSearchAcc_eq_grid, foldl_wMerge_crash]
  simp only [reduceCtorEq, false_or, List.mem_map]
  constructor
  · rintro ⟨t, ht, hc⟩
    exact ⟨t, ht, wTry_crash.mp hc⟩
  · rintro ⟨t, ht, hc⟩
    exact ⟨t, ht, wTry_crash.mpr hc⟩

/-- 5. Exhaustiveness of the enumeration: when `compute_config` raises "No PLL config found", EVERY (idiv, fdiv, mdiv)
    of the ranges whose PFD and VCO are inside their windows has an output that fails the code's own test at the
    code's own divider choice `odiv = round(vco/f)` (which is non-zero for all outputs). -/
theorem wSearch_rejected_complete {d : WDev} {r : WReq} (h : wSearch d r = .rejected)
    {idiv fdiv mdiv : Nat} (hi : idiv ∈ pyRange 1 64) (hf : fdiv ∈ pyRange 1 64) (hm : mdiv ∈ pyRange 2 128)
    (hp : inRange d.pfdMin d.pfdMax (r.clkin.divNat idiv) = true)
    (hv : inRangeM d.vcoMin d.vcoMax r.vcoMargin (wVco r.clkin idiv fdiv mdiv) = true) :
    (∀ o ∈ r.outs, 1 ≤ wOdiv (wVco r.clkin idiv fdiv mdiv) o.freq) ∧
    ∃ o ∈ r.outs,
      o.margin.lt (wPhaseErr o.phase (wOdiv (wVco r.clkin idiv fdiv mdiv) o.freq)) = true ∨
      within ((wVco r.clkin idiv fdiv mdiv).divNat (wOdiv (wVco r.clkin idiv fdiv mdiv) o.freq)) o = false := by
  have e : wSearchAcc d r = .rejected := by
    unfold wSearch at h
    cases hx : wSearchAcc d r <;> simp [hx, Res.mapW] at h
    rfl
  rw [wSearchAcc_eq_grid] at e
  obtain ⟨_, hall⟩ := foldl_wMerge_rejected _ _ e
  have hg : (idiv, fdiv, mdiv) ∈ wGrid d r := mem_wGrid.mpr ⟨hi, wPfdSkip_false.mpr hp, hf, hm⟩
  have ht : wTryT d r (idiv, fdiv, mdiv) = .rejected := by
    rcases hall _ (List.mem_map.mpr ⟨_, hg, rfl⟩) with h1 | h1
    · exact h1
    · exact absurd h1 wTry_ne_assertion
  have hr := wTry_rejected ht (by rw [wWindow_eq]; exact hv)
  obtain ⟨hz, o, ho, hro⟩ := wOuts_rejected hr
  refine ⟨fun o' ho' => Nat.pos_of_ne_zero (hz o' ho'), o, ho, (wOut_rejected hro).2⟩

/-- Converse direction of the status: a `.rejected` search never hides a crash or a kept candidate, and conversely a
    kept candidate anywhere on the grid (and no crash) makes the search return a configuration. -/
theorem wSearch_ok_of_kept {d : WDev} {r : WReq} (hc : wSearch d r ≠ .crash)
    {t : Nat × Nat × Nat} (ht : t ∈ wGrid d r) {x : WCfg × Q} (hx : wTryT d r t = .ok x) :
    ∃ c, wSearch d r = .ok c := by
  cases hs : wSearch d r with
  | ok c => exact ⟨c, rfl⟩
  | crash => exact absurd hs hc
  | assertion =>
    unfold wSearch at hs
    cases ha : wSearchAcc d r with
    | assertion =>
      rw [wSearchAcc_eq_grid] at ha
      exfalso
      -- the accumulator starts at `.rejected` and never becomes `.assertion`
      have : ∀ (xs : List (Res (WCfg × Q))) (acc : Res (WCfg × Q)), acc ≠ .assertion →
          xs.foldl wMerge acc ≠ .assertion := by
        intro xs
        induction xs with
        | nil => intro acc h; exact h
        | cons y ys ih =>
          intro acc h
          simp only [List.foldl_cons]
          apply ih
          unfold wMerge
          cases acc <;> cases y <;> simp at h ⊢
          split <;> simp
      exact this _ _ (by simp) ha
    | ok a => simp [ha, Res.mapW] at hs
    | rejected => simp [ha, Res.mapW] at hs
    | crash => simp [ha, Res.mapW] at hs
  | rejected =>
    exfalso
    have e : wSearchAcc d r = .rejected := by
      unfold wSearch at hs
      cases hx : wSearchAcc d r <;> simp [hx, Res.mapW] at hs
      rfl
    rw [wSearchAcc_eq_grid] at e
    obtain ⟨_, hall⟩ := foldl_wMerge_rejected _ _ e
    rcases hall _ (List.mem_map.mpr ⟨t, ht, rfl⟩) with h1 | h1 <;> rw [hx] at h1 <;> cases h1

end Litex.Clock
