import LitexProofs.Clock.IntelGowin
import LitexModel.Clock.Efinix
import Mathlib.Tactic.Linarith
/-
  Proofs about the Efinix Trion search model (`tSearch`): soundness and completeness w.r.t. `TValid`.
-/
namespace Litex.Clock

/-- Well-formedness of the table and of the request (true of the TRIONPLL table and of every request with a
    positive input frequency and positive requested frequencies). -/
structure TWf (d : TDev) (r : TReq) : Prop where
  clkinNum  : 0 < r.clkin.num
  clkinDen  : 0 < r.clkin.den
  pfdMinNum : 0 < d.pfdMin.num
  pfdMaxNum : 0 < d.pfdMax.num
  vcoMaxDen : 0 < d.vcoMax.den
  freqDen   : ∀ o ∈ r.outs, 0 < o.freq.den
  c0        : 0 < d.c0Lo
  cpos      : ∀ kv ∈ d.cPhase, ∀ x ∈ kv.2, 0 < x

/-! ### arithmetic of floor / ceil -/

theorem tCeil_le_of {A B n : Nat} (h : A ≤ n * B) : (A + B - 1) / B ≤ n := by
  rcases Nat.eq_zero_or_pos B with hB | hB
  · subst hB; simp
  · have : (A + B - 1) / B < n + 1 := by
      rw [Nat.div_lt_iff_lt_mul hB, Nat.succ_mul]; omega
    omega

theorem tLe_of_ceil_le {A B n : Nat} (hB : 0 < B) (h : (A + B - 1) / B ≤ n) : A ≤ n * B := by
  by_contra hc
  have h1 : n + 1 ≤ (A + B - 1) / B := by
    rw [Nat.le_div_iff_mul_le hB, Nat.succ_mul]; omega
  omega

theorem tLe_floor_of {A B n : Nat} (hB : 0 < B) (h : n * B ≤ A) : n ≤ A / B := by
  rw [Nat.le_div_iff_mul_le hB]; exact h

theorem tOf_le_floor {A B n : Nat} (hn : 1 ≤ n) (h : n ≤ A / B) : n * B ≤ A := by
  rcases Nat.eq_zero_or_pos B with hB | hB
  · subst hB; simp at h; omega
  · exact (Nat.le_div_iff_mul_le hB).mp h

/-! ### the divider ranges -/

theorem tCRange_pos {d : TDev} (h0 : 0 < d.c0Lo) (hp : ∀ kv ∈ d.cPhase, ∀ x ∈ kv.2, 0 < x) {p : SQ} {cr : List Nat}
    (h : tCRange d p = some cr) : ∀ x ∈ cr, 0 < x := by
  unfold tCRange at h
  split at h
  · cases h
    intro x hx
    rw [mem_pyRange] at hx
    omega
  · simp only [Option.map_eq_some_iff] at h
    obtain ⟨kv, hf, rfl⟩ := h
    exact hp kv (List.mem_of_find?_eq_some hf)

theorem tCRangeL_of_some {d : TDev} {p : SQ} {cr : List Nat} (h : tCRange d p = some cr) : tCRangeL d p = cr := by
  unfold tCRangeL; rw [h]; rfl

theorem tOFact_pos {k o : Nat} (h : o ∈ tOFact k) : 0 < o := by
  unfold tOFact at h
  split at h <;> simp at h <;> omega

theorem tOcRange_mem {d : TDev} {k : Nat} {ffb : Q} {cr : List Nat} {oc : Nat × Nat} :
    oc ∈ tOcRange d k ffb cr ↔
      oc.2 ∈ cr ∧ (ffb.mulNat oc.2).lt d.pllMin = false ∧ d.pllMax.lt (ffb.mulNat oc.2) = false ∧
      oc.1 ∈ tOFact k ∧ inRange d.vcoMin d.vcoMax (ffb.mulNat (oc.1 * oc.2)) = true := by
  obtain ⟨o, c⟩ := oc
  unfold tOcRange
  simp only [List.mem_flatMap]
  constructor
  · rintro ⟨c', hc', h⟩
    split at h
    · cases h
    · rename_i hw
      simp only [Bool.or_eq_true, not_or, Bool.not_eq_true] at hw
      simp only [List.mem_filterMap] at h
      obtain ⟨o', ho', h⟩ := h
      split at h
      · rename_i hv
        simp only [Option.some.injEq, Prod.mk.injEq] at h
        obtain ⟨rfl, rfl⟩ := h
        exact ⟨hc', hw.1, hw.2, ho', hv⟩
      · cases h
  · rintro ⟨h1, h2, h3, h4, h5⟩
    refine ⟨c, h1, ?_⟩
    simp only [h2, h3, Bool.or_self, Bool.false_eq_true, if_false, List.mem_filterMap]
    exact ⟨o, h4, by simp [h5]⟩

theorem tFoldMax_ge {f : Nat × Nat → Nat} : ∀ (l : List (Nat × Nat)) (a : Nat),
    a ≤ l.foldl (fun a p => max a (f p)) a ∧ ∀ p ∈ l, f p ≤ l.foldl (fun a p => max a (f p)) a
  | [], a => by simp
  | q :: l, a => by
    obtain ⟨h1, h2⟩ := tFoldMax_ge (f := f) l (max a (f q))
    simp only [List.foldl_cons, List.mem_cons]
    refine ⟨by omega, ?_⟩
    rintro p (rfl | hp)
    · omega
    · exact h2 p hp

theorem tFoldMin_le {f : Nat × Nat → Nat} : ∀ (l : List (Nat × Nat)) (a : Nat),
    l.foldl (fun a p => min a (f p)) a ≤ a ∧ (∀ p ∈ l, l.foldl (fun a p => min a (f p)) a ≤ f p) ∧
    (0 < a → (∀ p ∈ l, 0 < f p) → 0 < l.foldl (fun a p => min a (f p)) a)
  | [], a => by simp
  | q :: l, a => by
    obtain ⟨h1, h2, h3⟩ := tFoldMin_le (f := f) l (min a (f q))
    simp only [List.foldl_cons, List.mem_cons]
    refine ⟨by omega, ?_, ?_⟩
    · rintro p (rfl | hp)
      · omega
      · exact h2 p hp
    · intro ha hall
      refine h3 ?_ (fun p hp => hall p (Or.inr hp))
      have := hall q (Or.inl rfl)
      omega

theorem tOcMax_ge {ocs : List (Nat × Nat)} {oc : Nat × Nat} (h : oc ∈ ocs) : oc.1 * oc.2 ≤ tOcMax ocs :=
  (tFoldMax_ge (f := fun p => p.1 * p.2) ocs 0).2 oc h

theorem tOcMin_le {ocs : List (Nat × Nat)} {oc : Nat × Nat} (h : oc ∈ ocs) : tOcMin ocs ≤ oc.1 * oc.2 :=
  (tFoldMin_le (f := fun p => p.1 * p.2) ocs 2048).2.1 oc h

theorem tOcMin_pos {ocs : List (Nat × Nat)} (h : ∀ p ∈ ocs, 0 < p.1 * p.2) : 0 < tOcMin ocs :=
  (tFoldMin_le (f := fun p => p.1 * p.2) ocs 2048).2.2 (by omega) h

/-! ### the per-output divider search -/

theorem tOuts_ok {d : TDev} {fpll : Q} {c fb : Nat} : ∀ (outs : List TOut) (i : Nat) (cs : List Nat),
    tOuts d fpll c fb i outs = .ok cs →
    cs.length = outs.length ∧
    (∀ p ∈ outs.zip cs, p.2 ∈ tCRangeL d p.1.phase ∧ (fpll.divNat p.2).beq p.1.freq = true) ∧
    (∀ j, i + j = fb → j < outs.length → cs[j]? = some c)
  | [], i, cs, h => by
    simp only [tOuts, Res.ok.injEq] at h
    subst h
    simp
  | o :: os, i, cs, h => by
    unfold tOuts at h
    cases hr : tCRange d o.phase with
    | none => simp [hr] at h
    | some cr =>
      simp only [hr] at h
      cases hf : cr.find? (fun cx => (i != fb || cx == c) && (fpll.divNat cx).beq o.freq) with
      | none => simp [hf] at h
      | some cx =>
        simp only [hf] at h
        cases hrec : tOuts d fpll c fb (i + 1) os with
        | rejected => simp [hrec, Res.consPin] at h
        | assertion => simp [hrec, Res.consPin] at h
        | crash => simp [hrec, Res.consPin] at h
        | ok cs' =>
          simp only [hrec, Res.consPin, Res.ok.injEq] at h
          subst h
          obtain ⟨h1, h2, h3⟩ := tOuts_ok os (i + 1) cs' hrec
          have hmem := List.mem_of_find?_eq_some hf
          have hp := List.find?_some hf
          simp only [Bool.and_eq_true, Bool.or_eq_true, bne_iff_ne, ne_eq, beq_iff_eq] at hp
          refine ⟨by simp [h1], ?_, ?_⟩
          · intro p hp'
            simp only [List.zip_cons_cons, List.mem_cons] at hp'
            rcases hp' with rfl | hp'
            · exact ⟨by rw [tCRangeL_of_some hr]; exact hmem, hp.2⟩
            · exact h2 p hp'
          · intro j hj hlt
            cases j with
            | zero =>
              have : cx = c := by
                rcases hp.1 with h | h
                · exact absurd (by omega) h
                · exact h
              simp [this]
            | succ j =>
              simp only [List.getElem?_cons_succ]
              have hj' : i + 1 + j = fb := by omega
              have hlt' : j < os.length := by simpa using hlt
              exact h3 j hj' hlt'

/-- If some list of dividers meets every output (and has `c` at the feedback index), the `cx` loops do not drop
    the candidate. -/
theorem tOuts_ne_rejected {d : TDev} {fpll : Q} {c fb : Nat} : ∀ (outs : List TOut) (i : Nat) (cs : List Nat),
    cs.length = outs.length →
    (∀ p ∈ outs.zip cs, p.2 ∈ tCRangeL d p.1.phase ∧ (fpll.divNat p.2).beq p.1.freq = true) →
    (∀ j, i + j = fb → j < outs.length → cs[j]? = some c) →
    tOuts d fpll c fb i outs ≠ .rejected
  | [], i, cs, _, _, _ => by simp [tOuts]
  | o :: os, i, [], hl, _, _ => by simp at hl
  | o :: os, i, cx :: cs, hl, hall, hfb => by
    unfold tOuts
    cases hr : tCRange d o.phase with
    | none => simp
    | some cr =>
      simp only
      have h0 := hall (o, cx) (by simp)
      rw [tCRangeL_of_some hr] at h0
      cases hf : cr.find? (fun cx => (i != fb || cx == c) && (fpll.divNat cx).beq o.freq) with
      | none =>
        exfalso
        have := List.find?_eq_none.mp hf cx h0.1
        simp only [Bool.and_eq_true, Bool.or_eq_true, bne_iff_ne, ne_eq, beq_iff_eq, not_and] at this
        refine this ?_ h0.2
        by_cases hi : i = fb
        · right
          have := hfb 0 (by omega) (by simp)
          simpa using this
        · exact Or.inl hi
      | some cx' =>
        simp only
        have hrec := tOuts_ne_rejected os (i + 1) cs (by simpa using hl)
          (fun p hp => hall p (by simp only [List.zip_cons_cons, List.mem_cons]; exact Or.inr hp))
          (fun j (hj : i + 1 + j = fb) (hlt : j < os.length) => by
            have := hfb (j + 1) (by omega) (by simpa using hlt)
            simpa using this)
        cases hc : tOuts d fpll c fb (i + 1) os with
        | rejected => exact absurd hc hrec
        | assertion => simp [Res.consPin]
        | crash => simp [Res.consPin]
        | ok cs' => simp [Res.consPin]

theorem tOuts_ne_assertion {d : TDev} {fpll : Q} {c fb : Nat} : ∀ (outs : List TOut) (i : Nat),
    tOuts d fpll c fb i outs ≠ .assertion
  | [], i => by simp [tOuts]
  | o :: os, i => by
    unfold tOuts
    split
    · simp
    · split
      · simp
      · have := tOuts_ne_assertion (d := d) (fpll := fpll) (c := c) (fb := fb) os (i + 1)
        cases hc : tOuts d fpll c fb (i + 1) os with
        | assertion => exact absurd hc this
        | rejected => simp [Res.consPin]
        | crash => simp [Res.consPin]
        | ok cs' => simp [Res.consPin]

/-! ### candidates -/

theorem tTry_ok {d : TDev} {r : TReq} {n m : Nat} {oc : Nat × Nat} {c : TCfg} (h : tTry d r n m oc = .ok c) :
    c.n = n ∧ c.m = m ∧ c.o = oc.1 ∧ c.cfb = oc.2 ∧ inRange d.vcoMin d.vcoMax (tVco r n m oc.1 oc.2) = true ∧
    m * oc.1 * oc.2 ≤ 255 ∧ tOuts d ((tVco r n m oc.1 oc.2).divNat oc.1) oc.2 r.fb 0 r.outs = .ok c.cs := by
  unfold tTry at h
  simp only at h
  split at h
  · rename_i hc
    simp only [Bool.and_eq_true, decide_eq_true_eq] at hc
    split at h
    · rename_i cs ho
      cases h
      exact ⟨rfl, rfl, rfl, rfl, hc.1, hc.2, ho⟩
    · cases h
    · cases h
  · cases h

theorem tCands_mem {d : TDev} {r : TReq} {ocs : List (Nat × Nat)} {t : Res TCfg} :
    t ∈ tCands d r ocs ↔
      ∃ n ∈ pyRange (tNMin d r) (tNMax d r + 1),
        ∃ m ∈ pyRange (tMMin d r n (tOcMax ocs)) (tMMax d r n (tOcMin ocs) + 1),
          ∃ oc ∈ ocs, tTry d r n m oc = t ∧ tIsRej t = false := by
  unfold tCands
  simp only [List.mem_flatMap, List.mem_filter, List.mem_map, Bool.not_eq_true', exists_and_right]
  constructor
  · rintro ⟨n, hn, m, hm, ⟨oc, hoc, rfl⟩, hrej⟩
    exact ⟨n, hn, m, hm, oc, hoc, rfl, hrej⟩
  · rintro ⟨n, hn, m, hm, oc, hoc, rfl, hrej⟩
    exact ⟨n, hn, m, hm, ⟨oc, hoc, rfl⟩, hrej⟩

/-! ### selection -/

theorem tSelStep_sub {r : TReq} (s : TSel) (p : TCfg) : ∀ x ∈ (tSelStep r s p).l2, x = p ∨ x ∈ s.l2 := by
  intro x hx
  unfold tSelStep at hx
  simp only at hx
  split at hx
  · split at hx
    · simp only [List.mem_cons] at hx
      rcases hx with h | h
      · exact Or.inl h
      · simp at h
    · simp at hx
  · split at hx
    · simp only [List.mem_cons] at hx
      exact hx
    · exact Or.inr hx

theorem tSelFold_sub {r : TReq} : ∀ (l : List TCfg) (s : TSel),
    ∀ x ∈ (l.foldl (tSelStep r) s).l2, x ∈ l ∨ x ∈ s.l2
  | [], s, x, hx => Or.inr hx
  | p :: l, s, x, hx => by
    simp only [List.foldl_cons] at hx
    rcases tSelFold_sub l _ x hx with h | h
    · exact Or.inl (List.mem_cons_of_mem _ h)
    · rcases tSelStep_sub s p x h with h | h
      · exact Or.inl (h ▸ List.mem_cons_self)
      · exact Or.inr h

theorem tSelect_mem {r : TReq} {l : List TCfg} {c : TCfg} (h : tSelect r l = some c) : c ∈ l := by
  unfold tSelect at h
  simp only at h
  have := List.mem_of_find?_eq_some h
  rw [List.mem_reverse] at this
  rcases tSelFold_sub l _ c this with h | h
  · exact h
  · simp at h

/-- After at least one candidate the list kept by the selection loop contains an entry with `O = o_div_max`. -/
def TSelInv (s : TSel) : Prop := ∃ p ∈ s.l2, p.o = s.omax

theorem tSelStep_inv {r : TReq} (s : TSel) (p : TCfg) (h : s = ⟨Q.zero, 0, []⟩ ∨ TSelInv s) :
    TSelInv (tSelStep r s p) := by
  unfold tSelStep
  simp only
  by_cases hlt : s.vmax.lt (p.vco r) = true
  · rw [if_pos hlt]
    have hb : (p.vco r).beq (p.vco r) = true := by simp [Q.beq]
    simp only [hb, if_true]
    exact ⟨p, List.mem_cons_self, by simp⟩
  · rw [if_neg hlt]
    rcases h with h | ⟨q, hq, hqo⟩
    · subst h
      have hb : (p.vco r).beq Q.zero = true := by
        simp [Q.lt, Q.zero] at hlt
        simp [Q.beq, Q.zero]
        omega
      simp only [hb, if_true]
      exact ⟨p, List.mem_cons_self, by simp⟩
    · split
      · by_cases ho : s.omax ≤ p.o
        · exact ⟨p, List.mem_cons_self, (Nat.max_eq_right ho).symm⟩
        · exact ⟨q, List.mem_cons_of_mem _ hq, by rw [hqo]; exact (Nat.max_eq_left (by omega)).symm⟩
      · exact ⟨q, hq, hqo⟩

theorem tSelFold_inv {r : TReq} : ∀ (l : List TCfg) (s : TSel), l ≠ [] → (s = ⟨Q.zero, 0, []⟩ ∨ TSelInv s) →
    TSelInv (l.foldl (tSelStep r) s)
  | [], _, h, _ => absurd rfl h
  | p :: l, s, _, hs => by
    simp only [List.foldl_cons]
    have h1 := tSelStep_inv (r := r) s p hs
    cases l with
    | nil => exact h1
    | cons q l => exact tSelFold_inv (q :: l) _ (by simp) (Or.inr h1)

theorem tSelect_none {r : TReq} {l : List TCfg} (h : tSelect r l = none) : l = [] := by
  by_contra hne
  obtain ⟨p, hp, hpo⟩ := tSelFold_inv (r := r) l ⟨Q.zero, 0, []⟩ hne (Or.inl rfl)
  unfold tSelect at h
  simp only at h
  have := List.find?_eq_none.mp h p (by rw [List.mem_reverse]; exact hp)
  simp [hpo] at this

/-! ### windows of equal rationals -/

theorem tLe_congr_right {lo x y : Q} (hy : 0 < y.den) (heq : x.num * y.den = y.num * x.den) (h : lo.le y = true) :
    lo.le x = true := by
  simp only [Q.le, decide_eq_true_eq] at h ⊢
  apply Nat.le_of_mul_le_mul_right _ hy
  calc lo.num * x.den * y.den = (lo.num * y.den) * x.den := by ring
    _ ≤ (y.num * lo.den) * x.den := Nat.mul_le_mul_right _ h
    _ = (y.num * x.den) * lo.den := by ring
    _ = (x.num * y.den) * lo.den := by rw [heq]
    _ = x.num * lo.den * y.den := by ring

theorem tLe_congr_left {hi x y : Q} (hy : 0 < y.den) (heq : x.num * y.den = y.num * x.den) (h : y.le hi = true) :
    x.le hi = true := by
  simp only [Q.le, decide_eq_true_eq] at h ⊢
  apply Nat.le_of_mul_le_mul_right _ hy
  calc x.num * hi.den * y.den = (x.num * y.den) * hi.den := by ring
    _ = (y.num * x.den) * hi.den := by rw [heq]
    _ = (y.num * hi.den) * x.den := by ring
    _ ≤ (hi.num * y.den) * x.den := Nat.mul_le_mul_right _ h
    _ = hi.num * x.den * y.den := by ring

theorem tInRange_congr {lo hi x y : Q} (hy : 0 < y.den) (heq : x.num * y.den = y.num * x.den)
    (h : inRange lo hi y = true) : inRange lo hi x = true := by
  simp only [inRange, Bool.and_eq_true] at h ⊢
  exact ⟨tLe_congr_right hy heq h.1, tLe_congr_left hy heq h.2⟩

theorem tLt_false_iff {a b : Q} : a.lt b = false ↔ b.le a = true := by
  simp [Q.lt, Q.le]

theorem tMem_zip_of_getElem? {α β : Type} {l₁ : List α} {l₂ : List β} {i : Nat} {a : α} {b : β}
    (h1 : l₁[i]? = some a) (h2 : l₂[i]? = some b) : (a, b) ∈ l₁.zip l₂ := by
  apply List.mem_of_getElem? (i := i)
  rw [List.getElem?_zip_eq_some]
  exact ⟨h1, h2⟩

/-! ### soundness -/

theorem tNRange {d : TDev} {r : TReq} {n : Nat} (h : n ∈ pyRange (tNMin d r) (tNMax d r + 1)) :
    1 ≤ n ∧ n ≤ 15 ∧ (r.clkin.div d.pfdMax).ceil ≤ n ∧ n ≤ (r.clkin.div d.pfdMin).floor := by
  rw [mem_pyRange] at h
  unfold tNMin tNMax at h
  omega

/-- Everything `tSearch` established about the candidate it returns. -/
theorem tSearch_ok_cand {d : TDev} {r : TReq} {c : TCfg} (h : tSearch d r = .ok c) :
    ∃ fbo cr, r.outs[r.fb]? = some fbo ∧ tCRange d fbo.phase = some cr ∧
      (c.o, c.cfb) ∈ tOcRange d r.outs.length fbo.freq cr ∧
      c.n ∈ pyRange (tNMin d r) (tNMax d r + 1) ∧
      c.m ∈ pyRange (tMMin d r c.n (tOcMax (tOcRange d r.outs.length fbo.freq cr)))
        (tMMax d r c.n (tOcMin (tOcRange d r.outs.length fbo.freq cr)) + 1) ∧
      inRange d.vcoMin d.vcoMax (c.vco r) = true ∧ c.m * c.o * c.cfb ≤ 255 ∧
      tOuts d (c.pll r) c.cfb r.fb 0 r.outs = .ok c.cs ∧
      .ok c ∈ tCands d r (tOcRange d r.outs.length fbo.freq cr) := by
  unfold tSearch at h
  split at h
  · cases h
  · rename_i fbo hfbo
    split at h
    · cases h
    · rename_i cr hcr
      simp only at h
      split at h
      · cases h
      · split at h
        · cases h
        · split at h
          · cases h
          · rename_i c' hsel
            cases h
            have hmem := tSelect_mem hsel
            simp only [List.mem_filterMap] at hmem
            obtain ⟨t, ht, hok⟩ := hmem
            have : t = .ok c := by
              cases t <;> simp [tOk?] at hok
              rw [hok]
            subst this
            have ht' := ht
            rw [tCands_mem] at ht
            obtain ⟨n, hn, m, hm, oc, hoc, htry, _⟩ := ht
            obtain ⟨e1, e2, e3, e4, hv, hmoc, houts⟩ := tTry_ok htry
            refine ⟨fbo, cr, hfbo, hcr, ?_, e1 ▸ hn, ?_, ?_, ?_, ?_, ht'⟩
            · rw [e3, e4]; exact hoc
            · rw [e1, e2]; exact hm
            · unfold TCfg.vco; rw [e1, e2, e3, e4]; exact hv
            · rw [e2, e3, e4]; exact hmoc
            · unfold TCfg.pll TCfg.vco; rw [e1, e2, e3, e4]; exact houts

theorem tSearch_sound {d : TDev} {r : TReq} {c : TCfg} (hden : 0 < r.clkin.den) (hpfd : 0 < d.pfdMax.num)
    (hfd : ∀ o ∈ r.outs, 0 < o.freq.den) (h : tSearch d r = .ok c) : TValid d r c := by
  obtain ⟨fbo, cr, hfbo, hcr, hoc, hn, hm, hv, hmoc, houts, _⟩ := tSearch_ok_cand h
  obtain ⟨n1, n15, nlo, nhi⟩ := tNRange hn
  rw [tOcRange_mem] at hoc
  obtain ⟨_, hp1, hp2, hofact, _⟩ := hoc
  simp only at hp1 hp2 hofact
  obtain ⟨hlen, hall, hfb⟩ := tOuts_ok _ _ _ houts
  have hfblt : r.fb < r.outs.length := by
    rcases Nat.lt_or_ge r.fb r.outs.length with h | h
    · exact h
    · rw [List.getElem?_eq_none h] at hfbo; cases hfbo
  have hcfb : c.cs[r.fb]? = some c.cfb := hfb r.fb (by omega) hfblt
  have hpair := hall _ (tMem_zip_of_getElem? hfbo hcfb)
  simp only at hpair
  rw [mem_pyRange] at hm
  unfold tMMin tMMax at hm
  refine ⟨n1, n15, by omega, by omega, hofact, ?_, hv, ?_, hmoc, hlen, hall, hcfb⟩
  · -- PFD window from the clipping of N
    simp only [Q.ceil, Q.div, Q.floor] at nlo nhi
    have h1 := tLe_of_ceil_le (Nat.mul_pos hden hpfd) nlo
    have h2 := tOf_le_floor n1 nhi
    have g1 : d.pfdMin.le (r.clkin.divNat c.n) = true :=
      decide_eq_true (le_trans (le_of_eq (by simp only [Q.divNat]; ring)) h2)
    have g2 : (r.clkin.divNat c.n).le d.pfdMax = true :=
      decide_eq_true (le_trans h1 (le_of_eq (by simp only [Q.divNat]; ring)))
    simp only [inRange, Bool.and_eq_true]
    exact ⟨g1, g2⟩
  · -- PLL window: fpll/Cfbk == ffb exactly and ffb*Cfbk was checked
    refine tInRange_congr (y := fbo.freq.mulNat c.cfb) (hfd fbo (List.mem_of_getElem? hfbo)) ?_ ?_
    · have e : (c.pll r).num * fbo.freq.den = fbo.freq.num * ((c.pll r).den * c.cfb) := of_decide_eq_true hpair.2
      simp only [Q.mulNat]
      rw [e]; ring
    · simp only [inRange, Bool.and_eq_true]
      exact ⟨tLt_false_iff.mp hp1, tLt_false_iff.mp hp2⟩

/-! ### completeness -/

theorem tTry_cases (d : TDev) (r : TReq) (n m : Nat) (oc : Nat × Nat) :
    tTry d r n m oc = .rejected ∨ tTry d r n m oc = .crash ∨ ∃ c, tTry d r n m oc = .ok c := by
  unfold tTry
  simp only
  split
  · split
    · exact Or.inr (Or.inr ⟨_, rfl⟩)
    · exact Or.inr (Or.inl rfl)
    · exact Or.inl rfl
  · exact Or.inl rfl

/-- What an `AssertionError` outcome says about the enumeration: no candidate and no KeyError on the way. -/
theorem tSearch_assertion_inv {d : TDev} {r : TReq} (h : tSearch d r = .assertion) :
    ∃ fbo cr, r.outs[r.fb]? = some fbo ∧ tCRange d fbo.phase = some cr ∧
      ∀ t ∈ tCands d r (tOcRange d r.outs.length fbo.freq cr), tIsCrash t = false ∧ tOk? t = none := by
  unfold tSearch at h
  split at h
  · cases h
  · rename_i fbo hfbo
    split at h
    · cases h
    · rename_i cr hcr
      simp only at h
      split at h
      · cases h
      · split at h
        · cases h
        · rename_i hany
          split at h
          · rename_i hsel
            refine ⟨fbo, cr, hfbo, hcr, ?_⟩
            intro t ht
            have hnil := tSelect_none hsel
            constructor
            · simp only [List.any_eq_true, not_exists, not_and, Bool.not_eq_true] at hany
              exact hany t ht
            · cases ho : tOk? t with
              | none => rfl
              | some c' =>
                have : c' ∈ List.filterMap tOk? (tCands d r (tOcRange d r.outs.length fbo.freq cr)) :=
                  List.mem_filterMap.mpr ⟨t, ht, ho⟩
                rw [hnil] at this
                simp at this
          · cases h

/-- **Completeness**: an `AssertionError` outcome means that no configuration at all satisfies `TValid`. -/
theorem tSearch_complete {d : TDev} {r : TReq} (wf : TWf d r) (h : tSearch d r = .assertion) (c : TCfg) :
    ¬ TValid d r c := by
  rintro ⟨n1, n15, m1, m255, hofact, hpfd, hvco, hpll, hmoc, hlen, hall, hcfb⟩
  obtain ⟨fbo, cr, hfbo, hcr, hcands⟩ := tSearch_assertion_inv h
  have hpair := hall _ (tMem_zip_of_getElem? hfbo hcfb)
  simp only at hpair
  rw [tCRangeL_of_some hcr] at hpair
  have e : (c.pll r).num * fbo.freq.den = fbo.freq.num * ((c.pll r).den * c.cfb) := of_decide_eq_true hpair.2
  have hopos : 0 < c.o := tOFact_pos hofact
  have hDpos : 0 < r.clkin.den * c.n := Nat.mul_pos wf.clkinDen (by omega)
  -- (O, Cfbk) is in oc_range
  have hoc : (c.o, c.cfb) ∈ tOcRange d r.outs.length fbo.freq cr := by
    rw [tOcRange_mem]
    have hp : inRange d.pllMin d.pllMax (fbo.freq.mulNat c.cfb) = true := by
      refine tInRange_congr (y := c.pll r) ?_ ?_ hpll
      · simp only [TCfg.pll, TCfg.vco, tVco, Q.divNat, Q.mulNat]
        exact Nat.mul_pos hDpos hopos
      · simp only [Q.mulNat]; rw [e]; ring
    simp only [inRange, Bool.and_eq_true] at hp
    refine ⟨hpair.1, tLt_false_iff.mpr hp.1, tLt_false_iff.mpr hp.2, hofact, ?_⟩
    refine tInRange_congr (y := c.vco r) ?_ ?_ hvco
    · simp only [TCfg.vco, tVco, Q.divNat, Q.mulNat]; exact hDpos
    · have e' : (c.vco r).num * fbo.freq.den = fbo.freq.num * ((c.vco r).den * c.o * c.cfb) := e
      simp only [Q.mulNat]; rw [e']; ring
  -- N is inside the clipped range
  have hn : c.n ∈ pyRange (tNMin d r) (tNMax d r + 1) := by
    simp only [inRange, Bool.and_eq_true, Q.le, Q.divNat, decide_eq_true_eq] at hpfd
    have h1 : (r.clkin.div d.pfdMax).ceil ≤ c.n := by
      simp only [Q.ceil, Q.div]
      exact tCeil_le_of (le_trans (of_decide_eq_true hpfd.2) (le_of_eq (by ring)))
    have h2 : c.n ≤ (r.clkin.div d.pfdMin).floor := by
      simp only [Q.floor, Q.div]
      exact tLe_floor_of (Nat.mul_pos wf.clkinDen wf.pfdMinNum) (le_trans (le_of_eq (by ring)) (of_decide_eq_true hpfd.1))
    rw [mem_pyRange]
    unfold tNMin tNMax
    omega
  -- M is inside the clipped range
  have hocpos : ∀ p ∈ tOcRange d r.outs.length fbo.freq cr, 0 < p.1 * p.2 := by
    intro p hp
    rw [tOcRange_mem] at hp
    exact Nat.mul_pos (tOFact_pos hp.2.2.2.1) (tCRange_pos wf.c0 wf.cpos hcr _ hp.1)
  have hkmax := tOcMax_ge hoc
  have hkmin := tOcMin_le hoc
  have hkpos := tOcMin_pos hocpos
  simp only at hkmax hkmin
  have hm : c.m ∈ pyRange (tMMin d r c.n (tOcMax (tOcRange d r.outs.length fbo.freq cr)))
      (tMMax d r c.n (tOcMin (tOcRange d r.outs.length fbo.freq cr)) + 1) := by
    have hv := hvco
    simp only [inRange, Bool.and_eq_true, Q.le, TCfg.vco, tVco, Q.divNat, Q.mulNat, decide_eq_true_eq] at hv
    generalize tOcMax (tOcRange d r.outs.length fbo.freq cr) = K at hkmax ⊢
    generalize tOcMin (tOcRange d r.outs.length fbo.freq cr) = k at hkmin hkpos ⊢
    have h1 : (d.vcoMin.div ((r.clkin.divNat c.n).mulNat K)).ceil ≤ c.m := by
      simp only [Q.ceil, Q.div, Q.divNat, Q.mulNat]
      apply tCeil_le_of
      calc d.vcoMin.num * (r.clkin.den * c.n) ≤ r.clkin.num * c.m * c.o * c.cfb * d.vcoMin.den := of_decide_eq_true hv.1
        _ = (c.m * d.vcoMin.den * r.clkin.num) * (c.o * c.cfb) := by ring
        _ ≤ (c.m * d.vcoMin.den * r.clkin.num) * K := Nat.mul_le_mul_left _ hkmax
        _ = c.m * (d.vcoMin.den * (r.clkin.num * K)) := by ring
    have h2 : c.m ≤ (d.vcoMax.div ((r.clkin.divNat c.n).mulNat k)).floor := by
      simp only [Q.floor, Q.div, Q.divNat, Q.mulNat]
      apply tLe_floor_of (Nat.mul_pos wf.vcoMaxDen (Nat.mul_pos wf.clkinNum hkpos))
      calc c.m * (d.vcoMax.den * (r.clkin.num * k)) = (c.m * d.vcoMax.den * r.clkin.num) * k := by ring
        _ ≤ (c.m * d.vcoMax.den * r.clkin.num) * (c.o * c.cfb) := Nat.mul_le_mul_left _ hkmin
        _ = r.clkin.num * c.m * c.o * c.cfb * d.vcoMax.den := by ring
        _ ≤ d.vcoMax.num * (r.clkin.den * c.n) := of_decide_eq_true hv.2
    rw [mem_pyRange]
    unfold tMMin tMMax
    omega
  -- the candidate is not dropped
  have hfblt : r.fb < r.outs.length := by
    rcases Nat.lt_or_ge r.fb r.outs.length with h | h
    · exact h
    · rw [List.getElem?_eq_none h] at hfbo; cases hfbo
  have hne : tTry d r c.n c.m (c.o, c.cfb) ≠ .rejected := by
    have hout := tOuts_ne_rejected (d := d) (fpll := c.pll r) (c := c.cfb) (fb := r.fb) r.outs 0 c.cs hlen hall
      (fun j hj _ => by
        have : j = r.fb := by omega
        rw [this]; exact hcfb)
    have hv : inRange d.vcoMin d.vcoMax (tVco r c.n c.m c.o c.cfb) = true := hvco
    unfold tTry
    simp only [hv, hmoc, decide_true, Bool.and_self, if_true]
    have hpl : (tVco r c.n c.m c.o c.cfb).divNat c.o = c.pll r := rfl
    rw [hpl]
    cases ho : tOuts d (c.pll r) c.cfb r.fb 0 r.outs with
    | rejected => exact absurd ho hout
    | assertion => exact absurd ho (tOuts_ne_assertion _ _)
    | crash => simp
    | ok cs => simp
  have hin : tTry d r c.n c.m (c.o, c.cfb) ∈ tCands d r (tOcRange d r.outs.length fbo.freq cr) := by
    rw [tCands_mem]
    refine ⟨c.n, hn, c.m, hm, (c.o, c.cfb), hoc, rfl, ?_⟩
    rcases tTry_cases d r c.n c.m (c.o, c.cfb) with h | h | ⟨c', h⟩
    · exact absurd h hne
    · rw [h]; rfl
    · rw [h]; rfl
  have hbad := hcands _ hin
  rcases tTry_cases d r c.n c.m (c.o, c.cfb) with h | h | ⟨c', h⟩
  · exact hne h
  · rw [h] at hbad; simp [tIsCrash] at hbad
  · rw [h] at hbad; simp [tOk?] at hbad

/-! ### corollaries -/

/-- A valid configuration excludes the `AssertionError` outcome. -/
theorem tSearch_ne_assertion_of_valid {d : TDev} {r : TReq} (wf : TWf d r) {c : TCfg} (hv : TValid d r c) :
    tSearch d r ≠ .assertion :=
  fun h => tSearch_complete wf h c hv

/-- Fixed finding C20-trion-fpll-max-unchecked, universally: whatever `tSearch` returns, `fPLL = fVCO/O` is inside
    the declared PLL window (in particular `≤ FPLL_MAX`). -/
theorem tSearch_pll_in_window {d : TDev} {r : TReq} {c : TCfg} (hden : 0 < r.clkin.den) (hpfd : 0 < d.pfdMax.num)
    (hfd : ∀ o ∈ r.outs, 0 < o.freq.den) (h : tSearch d r = .ok c) :
    d.pllMin.le (c.pll r) = true ∧ (c.pll r).le d.pllMax = true := by
  have := (tSearch_sound hden hpfd hfd h).2.2.2.2.2.2.2.1
  simpa only [inRange, Bool.and_eq_true] using this

/-- The selected configuration is one of the enumerated candidates (`params_list`). -/
theorem tSearch_ok_mem {d : TDev} {r : TReq} {c : TCfg} (h : tSearch d r = .ok c) :
    ∃ fbo cr, r.outs[r.fb]? = some fbo ∧ tCRange d fbo.phase = some cr ∧
      .ok c ∈ tCands d r (tOcRange d r.outs.length fbo.freq cr) := by
  obtain ⟨fbo, cr, h1, h2, _, _, _, _, _, _, h3⟩ := tSearch_ok_cand h
  exact ⟨fbo, cr, h1, h2, h3⟩

/-
  tSearch_best_open (NOT proved here): with `TWf d r`, if `tSearch d r = .ok c` then for every `c'` with
  `TValid d r c'`:  `(c'.vco r).le (c.vco r) = true`  and  `(c'.vco r).beq (c.vco r) = true → c'.o ≤ c.o`
  (highest VCO, then highest O).  Proof plan: fold invariant of `tSelStep` — (a) every processed candidate has
  `vco ≤ vmax`, (b) every processed candidate with `vco == vmax` is in `l2`, (c) every entry of `l2` has
  `vco == vmax` and `o ≤ omax`; transitivity of the cross-multiplied order needs the positive denominators
  `clkin.den * n` of the candidates; a valid `c'` is matched by the enumerated candidate with the same (n, m, o, cfb)
  exactly as in `tSearch_complete`.
-/

/-! ### non-vacuity on the declared TRIONPLL table -/

def trionReq50to100 : TReq := ⟨⟨50000000, 1⟩, [⟨⟨100000000, 1⟩, SQ.zero⟩], 0⟩
/-- witness request of finding C20-trion-fpll-max-unchecked: 16 MHz in, 16 MHz feedback output, single output
    (O = 1 allowed). -/
def trionReq16to16 : TReq := ⟨⟨16000000, 1⟩, [⟨⟨16000000, 1⟩, SQ.zero⟩], 0⟩

theorem trionDev_wf50 : TWf trionDev trionReq50to100 :=
  ⟨by decide, by decide, by decide, by decide, by decide, by decide, by decide, by decide⟩
theorem trionDev_wf16 : TWf trionDev trionReq16to16 :=
  ⟨by decide, by decide, by decide, by decide, by decide, by decide, by decide, by decide⟩

/-- On the full table the expected answers are valid (checked by kernel evaluation of the decidable spec) … -/
theorem trion_valid_50to100 : TValid trionDev trionReq50to100 ⟨1, 2, 4, 9, [9]⟩ := by decide +kernel
theorem trion_valid_16to16 : TValid trionDev trionReq16to16 ⟨1, 1, 8, 28, [28]⟩ := by decide +kernel
/-- … the configuration with fPLL = fVCO = 3600 MHz (O = 1, C = 225: what a search without the FPLL_MAX test
    prefers, highest VCO) is NOT valid … -/
theorem trion_invalid_16to16_pll3600 : ¬ TValid trionDev trionReq16to16 ⟨1, 1, 1, 225, [225]⟩ := by decide +kernel
/-- … so by completeness the search cannot end in the AssertionError on these requests. -/
theorem trion_50to100_ne_assertion : tSearch trionDev trionReq50to100 ≠ .assertion :=
  tSearch_ne_assertion_of_valid trionDev_wf50 trion_valid_50to100
theorem trion_16to16_ne_assertion : tSearch trionDev trionReq16to16 ≠ .assertion :=
  tSearch_ne_assertion_of_valid trionDev_wf16 trion_valid_16to16

/-- Kernel evaluation of the whole search.  The full table (C in 1..256) takes minutes in the kernel, so these two
    run on the Trion table with the phase-0 C range cut to 1..16 resp. 1..8 (everything else as declared); the
    compiled model returns `⟨1, 2, 4, 9, [9]⟩` resp. `⟨1, 1, 8, 28, [28]⟩` on the full table. -/
theorem trion_search_50to100_c16 :
    tSearch { trionDev with c0Hi := 17 } trionReq50to100 = .ok ⟨1, 2, 4, 9, [9]⟩ := by decide +kernel
theorem trion_search_16to16_c8 :
    tSearch { trionDev with c0Hi := 9 } trionReq16to16 = .ok ⟨1, 1, 8, 8, [8]⟩ := by decide +kernel
/-- fPLL of that answer: 16 MHz * 8 = 128 MHz ≤ 1800 MHz. -/
theorem trion_search_16to16_c8_pll :
    ((⟨1, 1, 8, 8, [8]⟩ : TCfg).pll trionReq16to16).le trionDev.pllMax = true := by decide +kernel

end Litex.Clock
