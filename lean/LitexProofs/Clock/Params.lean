import LitexProofs.Clock.Lattice
import Mathlib.Tactic.Ring
/-
  Instance-parameter mappings (`do_finalize`) and per-divider first-ness.
-/
namespace Litex.Clock

/-! ### dividers: first acceptable one of the declared range -/

theorem xOut_single {d : XDev} {vco : Q} {n : Nat} {o : Out} {r : List Q} (h : d.rangesFor n = [r]) :
    xOut d vco n o = r.find? (d.ok vco o) := by
  rw [xOut_eq, h]
  simp only [List.foldl_cons, List.foldl_nil]
  exact (xOut_scanLike d).none_eq _ _

/-- `find?` returns the first acceptable divider: everything before it in the range is rejected. -/
theorem xOut_single_first {d : XDev} {vco : Q} {n : Nat} {o : Out} {r : List Q} {dv : Q}
    (h : d.rangesFor n = [r]) (hs : xOut d vco n o = some dv) :
    ∃ pre suf, r = pre ++ dv :: suf ∧ d.ok vco o dv = true ∧ ∀ x ∈ pre, d.ok vco o x = false := by
  rw [xOut_single h] at hs
  obtain ⟨hok, pre, suf, hsplit, hpre⟩ := List.find?_eq_some_iff_append.mp hs
  exact ⟨pre, suf, hsplit, hok, fun x hx => by simpa using hpre x hx⟩

/-! ### ECP5 -/

/-- `FPHASE = phase & 7`, `CPHASE = (phase >> 3) + (div - 1)` recombine to `phase = round(p*div/45)`. -/
theorem ePhase_split (p : SQ) (div : Nat) :
    8 * (eCPhase p div - ((div : Int) - 1)) + eFPhase p div = ePhaseWord p div ∧
    0 ≤ eFPhase p div ∧ eFPhase p div < 8 := by
  unfold eCPhase eFPhase
  omega

theorem eParams_length (r : EReq) (c : ECfg) : (eParams r c).length = c.divs.length := by
  simp [eParams]

theorem eParams_getElem (r : EReq) (c : ECfg) (n : Nat) (h : n < c.divs.length) :
    (eParams r c)[n]? = some ((c.divs[n] : Int),
      eFPhase (match r.outs[n]? with | some o => o.out.phase | none => SQ.zero) c.divs[n],
      eCPhase (match r.outs[n]? with | some o => o.out.phase | none => SQ.zero) c.divs[n]) := by
  simp [eParams, h]
  exact ⟨rfl, rfl⟩

/-! ### NX -/

theorem nParams_spec (r : NReq) (c : NCfg) :
    (nParams r c).1 = 1 ∧ (nParams r c).2.1 + 1 = c.clkfbDiv ∧
    (nParams r c).2.2 = (c.divs.zip r.outs).map fun (dv, o) => ((dv : Int) - 1, nDel o.phase dv) := by
  simp [nParams]

/-! ### Xilinx -/

/-- DCM_CLKGEN: `clkin * CLKFX_MULTIPLY / CLKFX_DIVIDE` is the configured output frequency `vco / d₀`. -/
theorem s6dcm_freq (r : XReq) (c : XCfg) (d0 : Q) :
    ((r.clkin.mul c.mult).div (d0.mulNat c.divclk)).beq ((c.vco r).div d0) = true := by
  unfold Q.beq
  apply decide_eq_true
  simp only [Q.mul, Q.div, Q.mulNat, Q.divNat, XCfg.vco, xVco]
  ring

/-- PLL/MMCM primitives: `clkin * CLKFBOUT_MULT / (DIVCLK_DIVIDE * CLKOUTn_DIVIDE)` is the configured `vco / dₙ`. -/
theorem pll_freq (r : XReq) (c : XCfg) (dn : Q) :
    ((r.clkin.mul c.mult).div ((Q.ofNat c.divclk).mul dn)).beq ((c.vco r).div dn) = true := by
  unfold Q.beq
  apply decide_eq_true
  simp only [Q.mul, Q.div, Q.ofNat, Q.divNat, XCfg.vco, xVco]
  ring

end Litex.Clock
