import LitexModel.Codes.Code8b10b
/-
  Vocabulary for the finite facts and the sequence theorems of C17: integer running disparity, balance of a
  bit list, window occurrence, and the tail/head class sets used to reason across symbol boundaries.
-/
namespace Litex.Code8b10b

/-- Running disparity as an integer: RD− = −1, RD+ = +1. -/
def rd (b : Bool) : Int := if b then 1 else -1

/-- Ones minus zeros of a bit list. -/
def bal : List Bool → Int
  | [] => 0
  | b :: rest => (if b then 1 else -1) + bal rest

/-- Tails (last 6 bits, as a number) that a word leaving the running disparity at `c` may have:
    bit `t` of the mask is set iff `t` is allowed.  Proof artefact (checked below against every symbol). -/
def tailMask (c : Bool) : Nat := if c then 3380073464913751784 else 1690564506091394932
/-- Heads (first 6 bits = the 6b sub-block) of words emitted from running disparity `c`. -/
def headMask (c : Bool) : Nat := if c then 6499754791829216 else 540008542357743616
/-- The same for data symbols only (used for the comma property). -/
def dataTailMask (c : Bool) : Nat := if c then 3380072915149549160 else 1618505812525062004
def dataHeadMask (c : Bool) : Nat := if c then 6218279815118560 else 540008542357710848

def rep6 (b : Bool) : List Bool := [b, b, b, b, b, b]
def commaP : List Bool := [false, false, true, true, true, true, true]
def commaN : List Bool := [true, true, false, false, false, false, false]

/-- `p` occurs as a contiguous window of `l` (Boolean, structural — evaluated by the kernel). -/
def occurs (p : List Bool) : List Bool → Bool
  | [] => p.isEmpty
  | b :: rest => p.isPrefixOf (b :: rest) || occurs p rest

/-- Every prefix sum `acc + bal (take n l)` stays within `[lo, hi]` (one pass, evaluated by the kernel). -/
def prefixOK (lo hi : Int) : Int → List Bool → Bool
  | acc, [] => decide (lo ≤ acc) && decide (acc ≤ hi)
  | acc, b :: rest => decide (lo ≤ acc) && decide (acc ≤ hi) && prefixOK lo hi (acc + (if b then 1 else -1)) rest

end Litex.Code8b10b
