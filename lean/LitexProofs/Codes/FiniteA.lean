import LitexProofs.Codes.Defs
/-
  Finite facts about `encode1`/`decode1`, each checked by the kernel over the whole domain
  (256 bytes × K flag × 2 disparities = 1024 encoder inputs; 1024 decoder inputs).  The tables are
  regenerated from the repository on every run, so a changed table entry that breaks the property breaks
  one of these `decide`s.  (Split over three files so that they are checked in parallel.)
-/
namespace Litex.Code8b10b

theorem fin_word_lt : ∀ d < 256, ∀ k c : Bool, (encode1 d k c).1 < 1024 := by decide +kernel

/-- Invertibility, symbol by symbol. -/
theorem fin_roundtrip : ∀ d < 256, ∀ k c : Bool, (Sym.mk d k).Valid →
    decode1 (encode1 d k c).1 = (d, k, false) := by decide +kernel

/-- The same through the lsb-first formats (`Encoder(lsb_first=True)` into `Decoder(lsb_first=True)`). -/
theorem fin_roundtrip_lsb : ∀ d < 256, ∀ k c : Bool, (Sym.mk d k).Valid →
    decOut (decStep true (fmt true (encode1 d k c).1)) = (d, k, false) := by decide +kernel

/-- `invalid` is exactly "the number of ones is not 4, 5 or 6", for all 1024 decoder inputs. -/
theorem fin_invalid : ∀ w < 1024,
    (decode1 w).2.2 = (ones10 w != 4 && ones10 w != 5 && ones10 w != 6) := by decide +kernel

/-- Bit reversal: transmitting `rev10 w` lsb-first is transmitting `w` msb-first. -/
theorem fin_rev_bits : ∀ w < 1024, bitsLsb 10 (rev10 w) = bitsMsb 10 w := by decide +kernel

theorem fin_rev_rev : ∀ w < 1024, rev10 (rev10 w) = w := by decide +kernel

end Litex.Code8b10b
