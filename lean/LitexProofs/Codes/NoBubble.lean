import LitexProofs.Codes.Machines
/-
  `StreamEncoder` in the region "every enabled cycle carries a valid token" (no bubbles): the delivered words
  are exactly the chained encoding, from RD−, of the accepted symbols.
-/
namespace Litex.Code8b10b
open Litex.Stream Litex.Stream.Elem

/-- A per-cycle hypothesis holds in every cycle of the run of `ins` from `s`. -/
def AllAlong {α β σ : Type} (e : Elem α β σ) (H : σ → In α → Prop) : σ → List (In α) → Prop
  | _, [] => True
  | s, i :: is => H s i ∧ AllAlong e H (e.step s i) is

/-- History-relation induction under a per-cycle hypothesis on the environment. -/
theorem rel_run_along {α β σ : Type} (e : Elem α β σ) (R : σ → List (Tok α) → List (Tok β) → Prop)
    (H : σ → In α → Prop)
    (hstep : ∀ s a d i, H s i → R s a d → R (e.step s i) (a ++ e.accNow s i) (d ++ e.delNow s i)) :
    ∀ (ins : List (In α)) (s : σ) (a : List (Tok α)) (d : List (Tok β)), R s a d → AllAlong e H s ins →
      R (e.runFrom s ins) (a ++ e.accepted s ins) (d ++ e.delivered s ins) := by
  intro ins
  induction ins with
  | nil => intro s a d h _; simpa [accepted, delivered] using h
  | cons i is ih =>
    intro s a d h hall
    have := ih (e.step s i) _ _ (hstep s a d i hall.1 h) hall.2
    simpa [accepted, delivered, List.append_assoc] using this

/-- "Every enabled cycle carries a valid token": whenever `pipe_ce` (= `sink.ready`) is 1, `sink.valid` is 1. -/
def NoBubbleAt {α β σ : Type} (e : Elem α β σ) (s : σ) (i : In α) : Prop :=
  (e.out s i).ready = true → i.valid = true

def NoBubble {α β σ : Type} (e : Elem α β σ) (ins : List (In α)) : Prop := AllAlong e (NoBubbleAt e) e.init ins

instance {α β σ : Type} (e : Elem α β σ) (s : σ) (i : In α) : Decidable (NoBubbleAt e s i) := by
  unfold NoBubbleAt; exact inferInstance

def AllAlong.dec {α β σ : Type} (e : Elem α β σ) (H : σ → In α → Prop) [∀ s i, Decidable (H s i)] :
    ∀ s ins, Decidable (AllAlong e H s ins)
  | _, [] => isTrue trivial
  | s, i :: is =>
    match (inferInstance : Decidable (H s i)), AllAlong.dec e H (e.step s i) is with
    | isTrue h1, isTrue h2 => isTrue ⟨h1, h2⟩
    | isFalse h1, _ => isFalse fun h => h1 h.1
    | _, isFalse h2 => isFalse fun h => h2 h.2

instance {α β σ : Type} (e : Elem α β σ) (ins : List (In α)) : Decidable (NoBubble e ins) :=
  AllAlong.dec e (NoBubbleAt e) e.init ins

/-- Without bubbles the encoder registers are a function of the accepted tokens, the pipeline fills and stays
    full, and everything delivered so far is the chained encoding of all but the last two accepted tokens. -/
def nbRel (n : Nat) (s : P2State EncState) (a : List (Tok (List Sym))) (d : List (Tok (List Nat))) : Prop :=
  s.dp = encRun true n (a.map (·.data)) ∧ s.v1 = decide (1 ≤ a.length) ∧ s.v2 = decide (2 ≤ a.length) ∧
  d.flatMap (·.data) = (encodeSeq false (a.dropLast.dropLast.flatMap (·.data))).map (fmt true)

theorem mem_of_mem_dropLast2 {α : Type} {l : List α} {t : α} (h : t ∈ l.dropLast.dropLast) : t ∈ l :=
  (List.dropLast_sublist l).subset ((List.dropLast_sublist _).subset h)

theorem dropLast2_three {α : Type} (pre : List α) (g last t : α) :
    (pre ++ [g, last] ++ [t]).dropLast.dropLast = pre ++ [g] := by
  have : pre ++ [g, last] ++ [t] = (pre ++ [g]) ++ [last] ++ [t] := by simp
  rw [this, List.dropLast_concat, List.dropLast_concat]

theorem dropLast2_two {α : Type} (pre : List α) (g last : α) :
    (pre ++ [g, last]).dropLast.dropLast = pre := by
  have : pre ++ [g, last] = pre ++ [g] ++ [last] := by simp
  rw [this, List.dropLast_concat, List.dropLast_concat]

theorem nb_fill (n : Nat) (v1 f1 f2 l1 l2 : Bool) (dp : EncState) (a : List (Tok (List Sym)))
    (d : List (Tok (List Nat))) (iv ir : Bool) (it : Tok (List Sym))
    (hH : NoBubbleAt (streamEncoder n) ⟨v1, false, f1, f2, l1, l2, dp⟩ ⟨iv, it, ir⟩)
    (h : nbRel n ⟨v1, false, f1, f2, l1, l2, dp⟩ a d) :
    nbRel n ((streamEncoder n).step ⟨v1, false, f1, f2, l1, l2, dp⟩ ⟨iv, it, ir⟩)
      (a ++ (streamEncoder n).accNow ⟨v1, false, f1, f2, l1, l2, dp⟩ ⟨iv, it, ir⟩)
      (d ++ (streamEncoder n).delNow ⟨v1, false, f1, f2, l1, l2, dp⟩ ⟨iv, it, ir⟩) := by
  obtain ⟨hdp, hv1, hv2, hd⟩ := h
  simp only at hdp hv1 hv2
  have hiv : iv = true := hH (by simp [streamEncoder, pipe2, Elem.out])
  subst hiv
  have hacc : (streamEncoder n).accNow ⟨v1, false, f1, f2, l1, l2, dp⟩ ⟨true, it, ir⟩ = [it] := by
    simp [streamEncoder, pipe2, Elem.accNow, Elem.out]
  have hstep : (streamEncoder n).step ⟨v1, false, f1, f2, l1, l2, dp⟩ ⟨true, it, ir⟩ =
      ⟨true, v1, it.first, f1, it.last, l1, encStep true dp it.data⟩ := by
    simp [streamEncoder, pipe2, Elem.step, encDatapath]
  have hdel : (streamEncoder n).delNow ⟨v1, false, f1, f2, l1, l2, dp⟩ ⟨true, it, ir⟩ = [] := by
    simp [streamEncoder, pipe2, Elem.delNow, Elem.out]
  have hdp' : encStep true dp it.data = encRun true n ((a ++ [it]).map (·.data)) := by
    rw [List.map_append, List.map_singleton, encRun_concat, hdp]
  have hlen : a.length < 2 := by simpa using hv2
  rw [hacc, hstep, hdel, List.append_nil]
  refine ⟨hdp', by simp, ?_, ?_⟩
  · simp [hv1]
  · have h1 : (a ++ [it]).dropLast.dropLast = [] := by
      rw [List.dropLast_concat]
      match a, hlen with
      | [], _ => rfl
      | [_], _ => rfl
    have h2 : a.dropLast.dropLast = [] := by
      match a, hlen with
      | [], _ => rfl
      | [_], _ => rfl
    rw [h1]; rw [h2] at hd; exact hd

theorem nb_flow (n : Nat) (v1 f1 f2 l1 l2 : Bool) (dp : EncState) (a : List (Tok (List Sym)))
    (d : List (Tok (List Nat))) (iv : Bool) (it : Tok (List Sym))
    (hH : NoBubbleAt (streamEncoder n) ⟨v1, true, f1, f2, l1, l2, dp⟩ ⟨iv, it, true⟩)
    (h : nbRel n ⟨v1, true, f1, f2, l1, l2, dp⟩ a d) :
    nbRel n ((streamEncoder n).step ⟨v1, true, f1, f2, l1, l2, dp⟩ ⟨iv, it, true⟩)
      (a ++ (streamEncoder n).accNow ⟨v1, true, f1, f2, l1, l2, dp⟩ ⟨iv, it, true⟩)
      (d ++ (streamEncoder n).delNow ⟨v1, true, f1, f2, l1, l2, dp⟩ ⟨iv, it, true⟩) := by
  obtain ⟨hdp, hv1, hv2, hd⟩ := h
  simp only at hdp hv1 hv2
  have hiv : iv = true := hH (by simp [streamEncoder, pipe2, Elem.out])
  subst hiv
  have hacc : (streamEncoder n).accNow ⟨v1, true, f1, f2, l1, l2, dp⟩ ⟨true, it, true⟩ = [it] := by
    simp [streamEncoder, pipe2, Elem.accNow, Elem.out]
  have hstep : (streamEncoder n).step ⟨v1, true, f1, f2, l1, l2, dp⟩ ⟨true, it, true⟩ =
      ⟨true, v1, it.first, f1, it.last, l1, encStep true dp it.data⟩ := by
    simp [streamEncoder, pipe2, Elem.step, encDatapath]
  have hdel : (streamEncoder n).delNow ⟨v1, true, f1, f2, l1, l2, dp⟩ ⟨true, it, true⟩ =
      [{ data := dp.outs, first := f2, last := l2 }] := by
    simp [streamEncoder, pipe2, Elem.delNow, Elem.out, encDatapath]
  have hdp' : encStep true dp it.data = encRun true n ((a ++ [it]).map (·.data)) := by
    rw [List.map_append, List.map_singleton, encRun_concat, hdp]
  have hlen : 2 ≤ a.length := by simpa using hv2.symm
  obtain ⟨pre, g, last, rfl⟩ := exists_two_last a hlen
  have houts := (encRun_two true n (pre.map (·.data)) g.data last.data).1
  have hdpouts : dp.outs = (encodeSeq (dispAfter false (pre.flatMap (·.data))) g.data).map (fmt true) := by
    rw [hdp]
    simpa [List.flatMap_def] using houts
  rw [hacc, hstep, hdel]
  refine ⟨hdp', by simp, by simp [hv1], ?_⟩
  rw [dropLast2_three, List.flatMap_append, List.flatMap_append, hd, dropLast2_two, hdpouts]
  simp [encodeSeq_append]

theorem nb_stall (n : Nat) (v1 f1 f2 l1 l2 : Bool) (dp : EncState) (a : List (Tok (List Sym)))
    (d : List (Tok (List Nat))) (iv : Bool) (it : Tok (List Sym))
    (h : nbRel n ⟨v1, true, f1, f2, l1, l2, dp⟩ a d) :
    nbRel n ((streamEncoder n).step ⟨v1, true, f1, f2, l1, l2, dp⟩ ⟨iv, it, false⟩)
      (a ++ (streamEncoder n).accNow ⟨v1, true, f1, f2, l1, l2, dp⟩ ⟨iv, it, false⟩)
      (d ++ (streamEncoder n).delNow ⟨v1, true, f1, f2, l1, l2, dp⟩ ⟨iv, it, false⟩) := by
  have hacc : (streamEncoder n).accNow ⟨v1, true, f1, f2, l1, l2, dp⟩ ⟨iv, it, false⟩ = [] := by
    simp [streamEncoder, pipe2, Elem.accNow, Elem.out]
  have hdel : (streamEncoder n).delNow ⟨v1, true, f1, f2, l1, l2, dp⟩ ⟨iv, it, false⟩ = [] := by
    simp [streamEncoder, pipe2, Elem.delNow, Elem.out]
  have hstep : (streamEncoder n).step ⟨v1, true, f1, f2, l1, l2, dp⟩ ⟨iv, it, false⟩ =
      ⟨v1, true, f1, f2, l1, l2, dp⟩ := by
    simp [streamEncoder, pipe2, Elem.step]
  rw [hacc, hdel, hstep, List.append_nil, List.append_nil]
  exact h

theorem streamEncoder_nb_step (n : Nat) (s : P2State EncState) (a : List (Tok (List Sym)))
    (d : List (Tok (List Nat))) (i : In (List Sym)) (hH : NoBubbleAt (streamEncoder n) s i)
    (h : nbRel n s a d) :
    nbRel n ((streamEncoder n).step s i) (a ++ (streamEncoder n).accNow s i)
      (d ++ (streamEncoder n).delNow s i) := by
  obtain ⟨v1, v2, f1, f2, l1, l2, dp⟩ := s
  obtain ⟨iv, it, ir⟩ := i
  cases v2
  · exact nb_fill n v1 f1 f2 l1 l2 dp a d iv ir it hH h
  · cases ir
    · exact nb_stall n v1 f1 f2 l1 l2 dp a d iv it h
    · exact nb_flow n v1 f1 f2 l1 l2 dp a d iv it hH h

end Litex.Code8b10b
