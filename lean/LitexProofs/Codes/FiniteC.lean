import LitexProofs.Codes.Defs
/-
  Finite facts about `encode1`/`decode1`, each checked by the kernel over the whole domain
  (256 bytes × K flag × 2 disparities = 1024 encoder inputs; 1024 decoder inputs).  The tables are
  regenerated from the repository on every run, so a changed table entry that breaks the property breaks
  one of these `decide`s.  (Split over three files so that they are checked in parallel.)
-/
namespace Litex.Code8b10b

/-- No run of six inside a word. -/
theorem fin_run_word : ∀ d < 256, ∀ k c b : Bool,
    occurs (rep6 b) (bitsMsb 10 (encode1 d k c).1) = false := by decide +kernel

/-- Every word's tail and head are in the class sets. -/
theorem fin_class : ∀ d < 256, ∀ k c : Bool,
    (tailMask (encode1 d k c).2).testBit ((encode1 d k c).1 % 64) = true ∧
    (headMask c).testBit ((encode1 d k c).1 / 16) = true := by decide +kernel

/-- No run of six across a boundary: any allowed tail followed by any allowed head. -/
theorem fin_run_boundary : ∀ c b : Bool, ∀ t < 64, (tailMask c).testBit t = true → ∀ h < 64,
    (headMask c).testBit h = true → occurs (rep6 b) (bitsMsb 6 t ++ bitsMsb 6 h) = false := by decide +kernel

/-- No comma inside a data word. -/
theorem fin_comma_word : ∀ d < 256, ∀ c : Bool,
    occurs commaP (bitsMsb 10 (encode1 d false c).1) = false ∧
    occurs commaN (bitsMsb 10 (encode1 d false c).1) = false := by decide +kernel

theorem fin_data_class : ∀ d < 256, ∀ c : Bool,
    (dataTailMask (encode1 d false c).2).testBit ((encode1 d false c).1 % 64) = true ∧
    (dataHeadMask c).testBit ((encode1 d false c).1 / 16) = true := by decide +kernel

/-- No comma across a boundary between two data words. -/
theorem fin_comma_boundary : ∀ c : Bool, ∀ t < 64, (dataTailMask c).testBit t = true → ∀ h < 64,
    (dataHeadMask c).testBit h = true →
    occurs commaP (bitsMsb 6 t ++ bitsMsb 6 h) = false ∧
    occurs commaN (bitsMsb 6 t ++ bitsMsb 6 h) = false := by decide +kernel

end Litex.Code8b10b
