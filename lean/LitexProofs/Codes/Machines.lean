import LitexProofs.Codes.Seq
import LitexModel.Codes.Stream8b10b
/-
  `Encoder(nwords, lsb_first)` and the stream wrappers: state as a function of the history of enabled inputs,
  and the step lemmas of the history relations of `StreamEncoder`/`StreamDecoder`.
-/
namespace Litex.Code8b10b
open Litex.Stream Litex.Stream.Elem

/-! ### the combinational chain is successive single encoding -/

theorem stage2_reset (c : Bool) : stage2 Stage1.reset c = (0, c) := by cases c <;> rfl

theorem chain_reset (n : Nat) (c : Bool) :
    chain (List.replicate n Stage1.reset) c = (List.replicate n (0, c), c) := by
  induction n with
  | zero => rfl
  | succ n ih => simp [List.replicate_succ, chain, stage2_reset, ih]

theorem chain_words (syms : List Sym) (c : Bool) :
    (chain (syms.map fun x => stage1 x.d x.k) c).1.map (·.1) = encodeSeq c syms := by
  induction syms generalizing c with
  | nil => rfl
  | cons s rest ih => simp [chain, encodeSeq, encode1, ih]

theorem chain_disps (syms : List Sym) (c : Bool) :
    (chain (syms.map fun x => stage1 x.d x.k) c).1.map (·.2) = dispSeq c syms := by
  induction syms generalizing c with
  | nil => rfl
  | cons s rest ih => simp [chain, dispSeq, encode1, ih]

theorem chain_final (syms : List Sym) (c : Bool) :
    (chain (syms.map fun x => stage1 x.d x.k) c).2 = dispAfter c syms := by
  induction syms generalizing c with
  | nil => rfl
  | cons s rest ih => simp [chain, dispAfter, encode1, ih]

/-! ### `Encoder` state from the history of enabled inputs -/

/-- State after the given groups of symbols were presented at successive enabled clock edges. -/
def encRun (lsb : Bool) (n : Nat) (hist : List (List Sym)) : EncState :=
  hist.foldl (encStep lsb) (EncState.init n)

/-- The symbol groups presented at the enabled (`ce = 1`) edges of an input sequence. -/
def enabledGroups (ins : List (Bool × List Sym)) : List (List Sym) := (ins.filter (·.1)).map (·.2)

theorem encoder_runFrom (n : Nat) (lsb : Bool) (ins : List (Bool × List Sym)) (s : EncState) :
    (encoder n lsb).runFrom s ins = (enabledGroups ins).foldl (encStep lsb) s := by
  induction ins generalizing s with
  | nil => rfl
  | cons i is ih =>
    obtain ⟨ce, g⟩ := i
    cases ce <;> simp [Machine.runFrom, encoder, enabledGroups] <;> exact ih _

theorem encRun_concat (lsb : Bool) (n : Nat) (hist : List (List Sym)) (g : List Sym) :
    encRun lsb n (hist ++ [g]) = encStep lsb (encRun lsb n hist) g := by
  simp [encRun, List.foldl_append]

theorem foldl_last (lsb : Bool) (hist : List (List Sym)) (g : List Sym) (s0 : EncState) (c1 : Bool)
    (h : (chain s0.st1 s0.disp).2 = c1) :
    ((hist ++ [g]).foldl (encStep lsb) s0).st1 = g.map (fun x => stage1 x.d x.k) ∧
    ((hist ++ [g]).foldl (encStep lsb) s0).disp = dispAfter c1 hist.flatten := by
  induction hist generalizing s0 c1 with
  | nil => simpa [encStep, dispAfter] using h
  | cons h0 rest ih =>
    have := ih (encStep lsb s0 h0) (dispAfter c1 h0) (by simp [encStep, chain_final, h])
    simpa [dispAfter_append] using this

/-- After at least one enabled edge: stage 1 holds the last group, the disparity register is the running
    disparity after everything before it. -/
theorem encRun_last (lsb : Bool) (n : Nat) (pre : List (List Sym)) (g : List Sym) :
    (encRun lsb n (pre ++ [g])).st1 = g.map (fun x => stage1 x.d x.k) ∧
    (encRun lsb n (pre ++ [g])).disp = dispAfter false pre.flatten :=
  foldl_last lsb pre g (EncState.init n) false (by simp [EncState.init, chain_reset])

/-- After at least two enabled edges: the output registers hold the chained encoding of the previous group. -/
theorem encRun_two (lsb : Bool) (n : Nat) (pre : List (List Sym)) (g last : List Sym) :
    (encRun lsb n (pre ++ [g, last])).outs = (encodeSeq (dispAfter false pre.flatten) g).map (fmt lsb) ∧
    (encRun lsb n (pre ++ [g, last])).disps = dispSeq (dispAfter false pre.flatten) g ∧
    (encRun lsb n (pre ++ [g, last])).disp = dispAfter false (pre.flatten ++ g) ∧
    (encRun lsb n (pre ++ [g, last])).st1 = last.map (fun x => stage1 x.d x.k) := by
  obtain ⟨h1, h2⟩ := encRun_last lsb n pre g
  have : pre ++ [g, last] = (pre ++ [g]) ++ [last] := by simp
  rw [this, encRun_concat]
  simp only [encStep, h1, h2, chain_final, dispAfter_append, and_true]
  refine ⟨?_, chain_disps g _⟩
  rw [← chain_words g, List.map_map]
  rfl

theorem exists_two_last {α : Type} : ∀ (l : List α), 2 ≤ l.length → ∃ pre g last, l = pre ++ [g, last]
  | [], h => by simp at h
  | [_], h => by simp at h
  | [a, b], _ => ⟨[], a, b, rfl⟩
  | a :: b :: c :: rest, _ => by
    obtain ⟨pre, g, last, h⟩ := exists_two_last (b :: c :: rest) (by simp)
    exact ⟨a :: pre, g, last, by rw [h]; rfl⟩

/-! ### `Decoder` with `ce` -/

/-- The last input presented at an enabled edge, if any. -/
def lastEnabled (ins : List (Bool × Nat)) : Option Nat := ((ins.filter (·.1)).map (·.2)).getLast?

theorem decoder_runFrom (lsb : Bool) (ins : List (Bool × Nat)) (s : DecState) :
    (decoder lsb).runFrom s ins = match lastEnabled ins with
      | some w => decStep lsb w
      | none => s := by
  induction ins generalizing s with
  | nil => rfl
  | cons i is ih =>
    obtain ⟨ce, w⟩ := i
    rw [Machine.runFrom, ih]
    cases ce
    · simp [decoder, lastEnabled]
    · simp only [decoder, lastEnabled, List.filter_cons_of_pos, List.map_cons, ite_true]
      cases h : (List.map (fun x => x.2) (List.filter (fun x => x.1) is)).getLast? with
      | none =>
        have : List.map (fun x => x.2) (List.filter (fun x => x.1) is) = [] := List.getLast?_eq_none_iff.mp h
        simp [this]
      | some v =>
        have hne : List.map (fun x => x.2) (List.filter (fun x => x.1) is) ≠ [] := by
          intro h0; rw [h0] at h; simp at h
        rw [List.getLast?_cons_of_ne_nil hne] at *
        simp [h]

/-! ### decoding lsb-first words -/

/-- What `Decoder(lsb_first=True)` shows one enabled cycle after `w`. -/
def decodeSym (w : Nat) : Sym := ⟨(decOut (decStep true w)).1, (decOut (decStep true w)).2.1⟩

def decTok (t : Tok (List Nat)) : Tok (List Sym) :=
  { data := t.data.map decodeSym, first := t.first, last := t.last }

theorem decode_encodeSeq (c : Bool) (syms : List Sym) (h : AllValid syms) :
    ((encodeSeq c syms).map (fmt true)).map decodeSym = syms := by
  induction syms generalizing c with
  | nil => rfl
  | cons s rest ih =>
    have hs := h s (by simp)
    simp only [encodeSeq, List.map_cons]
    rw [ih _ (fun x hx => h x (by simp [hx]))]
    have := fin_roundtrip_lsb s.d hs.1 s.k c hs
    simp [decodeSym, this]

/-! ### `StreamDecoder` -/

def decInflight (n : Nat) (s : P1State (List DecState)) : List (Tok (List Sym)) :=
  if s.v1 then [{ data := (decDatapath n).out s.dp, first := s.f1, last := s.l1 }] else []

/-- accepted words, decoded, = delivered ++ the token in the output stage. -/
def decRel (n : Nat) (s : P1State (List DecState)) (a : List (Tok (List Nat))) (d : List (Tok (List Sym))) : Prop :=
  a.map decTok = d ++ decInflight n s

theorem streamDecoder_step (n : Nat) (s : P1State (List DecState)) (a : List (Tok (List Nat)))
    (d : List (Tok (List Sym))) (i : In (List Nat)) (h : decRel n s a d) :
    decRel n ((streamDecoder n).step s i) (a ++ (streamDecoder n).accNow s i)
      (d ++ (streamDecoder n).delNow s i) := by
  obtain ⟨v1, f1, l1, dp⟩ := s
  obtain ⟨iv, it, ir⟩ := i
  unfold decRel at *
  cases v1 <;> cases iv <;> cases ir <;>
    simp_all [streamDecoder, pipe1, Elem.step, Elem.accNow, Elem.delNow, Elem.out, decInflight, decTok,
      decDatapath, decodeSym, List.map_map, Function.comp_def]

/-! ### `StreamEncoder` -/

/-- Tokens in flight in `StreamEncoder`, oldest first: the output registers (stage 2) and the stage-1 registers,
    whose words are determined by the current disparity register. -/
def encInflight (s : P2State EncState) : List (Tok (List Nat)) :=
  (if s.v2 then [{ data := s.dp.outs, first := s.f2, last := s.l2 }] else []) ++
  (if s.v1 then [{ data := (chain s.dp.st1 s.dp.disp).1.map (fun r => fmt true r.1),
                   first := s.f1, last := s.l1 }] else [])

/-- If every accepted token consists of bytes / defined control symbols, then decoding everything delivered or in
    flight gives back exactly the accepted tokens, in order. -/
def encRel (s : P2State EncState) (a : List (Tok (List Sym))) (d : List (Tok (List Nat))) : Prop :=
  (∀ t ∈ a, AllValid t.data) → a = (d ++ encInflight s).map decTok

theorem decTok_stage1 (c : Bool) (t : Tok (List Sym)) (h : AllValid t.data) :
    decTok { data := (chain (t.data.map fun x => stage1 x.d x.k) c).1.map (fun r => fmt true r.1),
             first := t.first, last := t.last } = t := by
  have h1 : (chain (t.data.map fun x => stage1 x.d x.k) c).1.map (fun r => fmt true r.1) =
      (encodeSeq c t.data).map (fmt true) := by
    rw [← chain_words t.data, List.map_map]; rfl
  simp only [decTok, h1, decode_encodeSeq c t.data h]

theorem streamEncoder_step (n : Nat) (s : P2State EncState) (a : List (Tok (List Sym)))
    (d : List (Tok (List Nat))) (i : In (List Sym)) (h : encRel s a d) :
    encRel ((streamEncoder n).step s i) (a ++ (streamEncoder n).accNow s i)
      (d ++ (streamEncoder n).delNow s i) := by
  obtain ⟨v1, v2, f1, f2, l1, l2, dp⟩ := s
  obtain ⟨iv, it, ir⟩ := i
  unfold encRel at *
  intro hv
  have ha : ∀ t ∈ a, AllValid t.data := fun t ht => hv t (by simp [ht])
  have hd := h ha
  cases v1 <;> cases v2 <;> cases iv <;> cases ir <;>
    simp_all [streamEncoder, pipe2, Elem.step, Elem.accNow, Elem.delNow, Elem.out, encInflight, encDatapath,
      encStep, decTok_stage1]

end Litex.Code8b10b
