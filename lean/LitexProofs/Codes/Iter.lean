import LitexProofs.Codes.Machines
/-
  The multi-word `Encoder(n)` is the iterated single-word `Encoder(1)`: the `n` parallel words (and `disparity`
  outputs) registered for a group are what `Encoder(1)` registers, symbol after symbol, when it is fed the same
  symbols one per enabled cycle.
-/
namespace Litex.Code8b10b

/-- A symbol sequence as a history of one-symbol groups (the inputs of `Encoder(1)` at successive enabled edges). -/
def singles (l : List Sym) : List (List Sym) := l.map fun s => [s]

theorem singles_flatten (l : List Sym) : (singles l).flatten = l := by
  induction l with
  | nil => rfl
  | cons s rest ih => simp [singles] at ih ⊢; exact ih

/-- What `Encoder(1, lsb)` shows for each symbol of `g` in turn (the edge after the symbol went through stage 1),
    after the symbols `pre` were presented from reset: `(output[0], disparity[0])` per symbol. -/
def iterSingle (lsb : Bool) : List Sym → List Sym → List (Nat × Bool)
  | _, [] => []
  | pre, s :: rest =>
    ((encRun lsb 1 (singles pre ++ [[s], [s]])).outs.zip (encRun lsb 1 (singles pre ++ [[s], [s]])).disps) ++
      iterSingle lsb (pre ++ [s]) rest

theorem iterSingle_eq (lsb : Bool) (g pre : List Sym) :
    iterSingle lsb pre g =
      ((encodeSeq (dispAfter false pre) g).map (fmt lsb)).zip (dispSeq (dispAfter false pre) g) := by
  induction g generalizing pre with
  | nil => rfl
  | cons s rest ih =>
    obtain ⟨h1, h2, _, _⟩ := encRun_two lsb 1 (singles pre) [s] [s]
    rw [iterSingle, h1, h2, ih, singles_flatten, dispAfter_append]
    simp [encodeSeq, dispSeq, dispAfter]

end Litex.Code8b10b
