import LitexModel.Codes.Regen8b10b
/-
  The regeneration tie of the multi-word `Encoder`: the model `encoder n false` run on the chain probes equals the
  table obtained on this run from the real `Encoder(n, False)` netlist (complete per-lane symbol space for n = 2,
  the 16 probe symbols for n = 3, 4).
-/
namespace Litex.Code8b10b

theorem regen_chain2 : (List.range 2048).map chain2Entry = Netlist.chain2 := by decide +kernel
theorem regen_chain3 : chainProbeTable 3 = Netlist.chain3 := by decide +kernel
theorem regen_chain4 : chainProbeTable 4 = Netlist.chain4 := by decide +kernel

end Litex.Code8b10b
