import LitexModel.Codes.Regen8b10b
/-
  The regeneration tie: the hand-written `encode1` / `decode1` / `encoder n` equal, on their WHOLE finite domains,
  the truth tables obtained on this run by evaluating the real elaborated netlists (`Generated/Netlist8b10b.lean`).
  Checked by the kernel; a change of the code changes a table and breaks one of these `decide`s, so every theorem
  stated about `encode1`/`decode1` is re-checked against what the code computes now.
-/
namespace Litex.Code8b10b

theorem regen_encMsb : (List.range 1024).map (encEntry false) = Netlist.encMsb := by decide +kernel
theorem regen_encLsb : (List.range 1024).map (encEntry true) = Netlist.encLsb := by decide +kernel
theorem regen_decMsb : (List.range 1024).map (decEntry false) = Netlist.decMsb := by decide +kernel
theorem regen_decLsb : (List.range 1024).map (decEntry true) = Netlist.decLsb := by decide +kernel
theorem regen_encReset : [false, true].map resetEntry = Netlist.encReset := by decide +kernel

end Litex.Code8b10b
