import LitexProofs.Codes.Defs
import LitexModel.Codes.Regen8b10b
/-
  Finite facts for the comma alignment theorem (sequences with control symbols) and for the set of code words,
  each checked by the kernel over the whole domain.
-/
namespace Litex.Code8b10b

/-- K.28.7 (the control symbol whose tail can build a comma with the head of the following word). -/
def isK287 (s : Sym) : Bool := s.k && s.d == 252

/-- The control symbols containing the singular comma: K.28.1, K.28.5, K.28.7. -/
def isCommaSym (s : Sym) : Bool := s.k && (s.d == 60 || s.d == 188 || s.d == 252)

/-- `p` is the window of `l` starting at bit position `i`. -/
def commaAt (p l : List Bool) (i : Nat) : Bool := p.isPrefixOf (l.drop i)

/-- Tails (last 6 bits) of the words of valid symbols other than K.28.7 leaving the running disparity at `c`, and
    heads (6b sub-block) of the words of all valid symbols emitted from running disparity `c` (bit masks). -/
def vTailMask (c : Bool) : Nat := if c then 3380072915157937768 else 1618506912036689780
def vHeadMask (c : Bool) : Nat := if c then 6499754791829216 else 540008542357743616

/-- Inside a word of a valid symbol a comma window exists only at bit 0, and there exactly for K.28.1/5/7. -/
theorem fin_comma_inword : ∀ d < 256, ∀ k c : Bool, (Sym.mk d k).Valid →
    (commaAt commaP (bitsMsb 10 (encode1 d k c).1) 0 || commaAt commaN (bitsMsb 10 (encode1 d k c).1) 0) =
      isCommaSym ⟨d, k⟩ ∧
    ∀ i < 4, 0 < i → commaAt commaP (bitsMsb 10 (encode1 d k c).1) i = false ∧
                      commaAt commaN (bitsMsb 10 (encode1 d k c).1) i = false := by decide +kernel

theorem fin_vhead : ∀ d < 256, ∀ k c : Bool, (Sym.mk d k).Valid →
    (vHeadMask c).testBit ((encode1 d k c).1 / 16) = true := by decide +kernel

theorem fin_vtail : ∀ d < 256, ∀ k c : Bool, (Sym.mk d k).Valid → isK287 ⟨d, k⟩ = false →
    (vTailMask (encode1 d k c).2).testBit ((encode1 d k c).1 % 64) = true := by decide +kernel

/-- No comma across a boundary: tail of a valid non-K.28.7 word followed by the head of any valid word. -/
theorem fin_vcomma_boundary : ∀ c : Bool, ∀ t < 64, (vTailMask c).testBit t = true → ∀ h < 64,
    (vHeadMask c).testBit h = true →
    occurs commaP (bitsMsb 6 t ++ bitsMsb 6 h) = false ∧
    occurs commaN (bitsMsb 6 t ++ bitsMsb 6 h) = false := by decide +kernel

/-! ### the set of code words -/

theorem fin_code_image : ∀ d < 256, ∀ k c : Bool, (Sym.mk d k).Valid →
    isCodeWord (encode1 d k c).1 = true := by decide +kernel

theorem fin_code_preimage : ∀ w < 1024, isCodeWord w = true →
    (Sym.mk (decode1 w).1 (decode1 w).2.1).Valid ∧
    ((encode1 (decode1 w).1 (decode1 w).2.1 false).1 = w ∨ (encode1 (decode1 w).1 (decode1 w).2.1 true).1 = w) := by
  decide +kernel

/-- `invalid` is never raised on a code word. -/
theorem fin_invalid_sound : ∀ w < 1024, (decode1 w).2.2 = true → isCodeWord w = false := by decide +kernel

/-- 464 of the 1024 words are code words; 352 words are flagged invalid; 208 non-code words are not flagged. -/
theorem fin_code_counts :
    ((List.range 1024).filter isCodeWord).length = 464 ∧
    ((List.range 1024).filter fun w => (decode1 w).2.2).length = 352 ∧
    ((List.range 1024).filter fun w => !isCodeWord w && !(decode1 w).2.2).length = 208 := by decide +kernel

end Litex.Code8b10b
