import LitexModel.Codes.Code8b10b
/-
  Finite facts about `encode1`/`decode1`, each checked by the kernel over the whole domain
  (256 bytes × K flag × 2 disparities = 1024 encoder inputs; 1024 decoder inputs).  The tables are
  regenerated from the repository on every run, so a changed table entry that breaks the property breaks
  one of these `decide`s.
-/
namespace Litex.Code8b10b

/-- Running disparity as an integer: RD− = −1, RD+ = +1. -/
def rd (b : Bool) : Int := if b then 1 else -1

/-- Ones minus zeros of a bit list. -/
def bal : List Bool → Int
  | [] => 0
  | b :: rest => (if b then 1 else -1) + bal rest

/-- Tails (last 6 bits, as a number) that a word leaving the running disparity at `c` may have:
    bit `t` of the mask is set iff `t` is allowed.  Proof artefact (checked below against every symbol). -/
def tailMask (c : Bool) : Nat := if c then 3380073464913751784 else 1690564506091394932
/-- Heads (first 6 bits = the 6b sub-block) of words emitted from running disparity `c`. -/
def headMask (c : Bool) : Nat := if c then 6499754791829216 else 540008542357743616
/-- The same for data symbols only (used for the comma property). -/
def dataTailMask (c : Bool) : Nat := if c then 3380072915149549160 else 1618505812525062004
def dataHeadMask (c : Bool) : Nat := if c then 6218279815118560 else 540008542357710848

def rep6 (b : Bool) : List Bool := [b, b, b, b, b, b]
def commaP : List Bool := [false, false, true, true, true, true, true]
def commaN : List Bool := [true, true, false, false, false, false, false]

/-- `p` occurs as a contiguous window of `l` (Boolean, structural — evaluated by the kernel). -/
def occurs (p : List Bool) : List Bool → Bool
  | [] => p.isEmpty
  | b :: rest => p.isPrefixOf (b :: rest) || occurs p rest

theorem fin_word_lt : ∀ d < 256, ∀ k c : Bool, (encode1 d k c).1 < 1024 := by decide +kernel

/-- Invertibility, symbol by symbol. -/
theorem fin_roundtrip : ∀ d < 256, ∀ k c : Bool, (Sym.mk d k).Valid →
    decode1 (encode1 d k c).1 = (d, k, false) := by decide +kernel

/-- The same through the lsb-first formats (`Encoder(lsb_first=True)` into `Decoder(lsb_first=True)`). -/
theorem fin_roundtrip_lsb : ∀ d < 256, ∀ k c : Bool, (Sym.mk d k).Valid →
    decOut (decStep true (fmt true (encode1 d k c).1)) = (d, k, false) := by decide +kernel

/-- Disparity bookkeeping of a whole word, for *all* 1024 encoder inputs. -/
theorem fin_disp_word : ∀ d < 256, ∀ k c : Bool,
    bal (bitsMsb 10 (encode1 d k c).1) = rd (encode1 d k c).2 - rd c := by decide +kernel

/-- … of the 6b sub-block against `disp_inter` and of the 4b sub-block against `disp_out`. -/
theorem fin_disp_halves : ∀ d < 256, ∀ k c : Bool,
    bal (bitsMsb 6 ((encode1 d k c).1 / 16)) = rd (dispInter (stage1 d k) c) - rd c ∧
    bal (bitsMsb 4 ((encode1 d k c).1 % 16)) = rd (encode1 d k c).2 - rd (dispInter (stage1 d k) c) := by
  decide +kernel

/-- Inside a symbol the running disparity never leaves [−3, +3]. -/
theorem fin_disp_inside : ∀ d < 256, ∀ k c : Bool, ∀ n < 11,
    -3 ≤ rd c + bal ((bitsMsb 10 (encode1 d k c).1).take n) ∧
    rd c + bal ((bitsMsb 10 (encode1 d k c).1).take n) ≤ 3 := by decide +kernel

/-- No run of six inside a word. -/
theorem fin_run_word : ∀ d < 256, ∀ k c b : Bool,
    occurs (rep6 b) (bitsMsb 10 (encode1 d k c).1) = false := by decide +kernel

/-- Every word's tail and head are in the class sets. -/
theorem fin_class : ∀ d < 256, ∀ k c : Bool,
    (tailMask (encode1 d k c).2).testBit ((encode1 d k c).1 % 64) = true ∧
    (headMask c).testBit ((encode1 d k c).1 / 16) = true := by decide +kernel

/-- No run of six across a boundary: any allowed tail followed by any allowed head. -/
theorem fin_run_boundary : ∀ c b : Bool, ∀ t < 64, (tailMask c).testBit t = true → ∀ h < 64,
    (headMask c).testBit h = true → occurs (rep6 b) (bitsMsb 6 t ++ bitsMsb 6 h) = false := by decide +kernel

/-- No comma inside a data word. -/
theorem fin_comma_word : ∀ d < 256, ∀ c : Bool,
    occurs commaP (bitsMsb 10 (encode1 d false c).1) = false ∧
    occurs commaN (bitsMsb 10 (encode1 d false c).1) = false := by decide +kernel

theorem fin_data_class : ∀ d < 256, ∀ c : Bool,
    (dataTailMask (encode1 d false c).2).testBit ((encode1 d false c).1 % 64) = true ∧
    (dataHeadMask c).testBit ((encode1 d false c).1 / 16) = true := by decide +kernel

/-- No comma across a boundary between two data words. -/
theorem fin_comma_boundary : ∀ c : Bool, ∀ t < 64, (dataTailMask c).testBit t = true → ∀ h < 64,
    (dataHeadMask c).testBit h = true →
    occurs commaP (bitsMsb 6 t ++ bitsMsb 6 h) = false ∧
    occurs commaN (bitsMsb 6 t ++ bitsMsb 6 h) = false := by decide +kernel

/-- `invalid` is exactly "the number of ones is not 4, 5 or 6", for all 1024 decoder inputs. -/
theorem fin_invalid : ∀ w < 1024,
    (decode1 w).2.2 = (ones10 w != 4 && ones10 w != 5 && ones10 w != 6) := by decide +kernel

theorem fin_ones_bal : ∀ w < 1024, bal (bitsMsb 10 w) = 2 * (ones10 w : Int) - 10 := by decide +kernel

/-- Bit reversal: transmitting `rev10 w` lsb-first is transmitting `w` msb-first. -/
theorem fin_rev_bits : ∀ w < 1024, bitsLsb 10 (rev10 w) = bitsMsb 10 w := by decide +kernel

theorem fin_rev_rev : ∀ w < 1024, rev10 (rev10 w) = w := by decide +kernel

end Litex.Code8b10b
