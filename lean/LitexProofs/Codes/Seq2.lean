import LitexProofs.Codes.Seq
import LitexProofs.Codes.FiniteD
/-
  Sequence theorems added in session 2: alternation of the non-zero word disparities, comma alignment in sequences
  with control symbols, the set of code words vs `invalid`.
-/
namespace Litex.Code8b10b

/-! ### word disparities alternate -/

/-- Ones minus zeros of a 10-bit word. -/
def wordBal (w : Nat) : Int := bal (bitsMsb 10 w)

/-- `2s, −2s, 2s, …` (`n` entries). -/
def altList : Int → Nat → List Int
  | _, 0 => []
  | s, n + 1 => 2 * s :: altList (-s) n

/-- The non-zero entries of a list of word disparities. -/
def nonzero (l : List Int) : List Int := l.filter (· != 0)

theorem seq_word_bal (c : Bool) (syms : List Sym) (h : Bytes syms) :
    ∀ w ∈ encodeSeq c syms, wordBal w = 0 ∨ wordBal w = 2 ∨ wordBal w = -2 := by
  induction syms generalizing c with
  | nil => simp [encodeSeq]
  | cons s rest ih =>
    intro w hw
    simp only [encodeSeq, List.mem_cons] at hw
    rcases hw with rfl | hw
    · have := fin_disp_word s.d (h s (by simp)) s.k c
      unfold wordBal
      rw [this]
      cases c <;> cases (encode1 s.d s.k _).2 <;> simp [rd]
    · exact ih _ (fun x hx => h x (by simp [hx])) w hw

theorem seq_alternation (c : Bool) (syms : List Sym) (h : Bytes syms) :
    nonzero ((encodeSeq c syms).map wordBal) =
      altList (-(rd c)) (nonzero ((encodeSeq c syms).map wordBal)).length := by
  induction syms generalizing c with
  | nil => simp [encodeSeq, nonzero, altList]
  | cons s rest ih =>
    have hw := fin_disp_word s.d (h s (by simp)) s.k c
    have ih' := ih (encode1 s.d s.k c).2 (fun x hx => h x (by simp [hx]))
    simp only [encodeSeq, List.map_cons, nonzero, wordBal, hw] at ih' ⊢
    generalize (encode1 s.d s.k c).2 = c' at ih' ⊢
    cases c <;> cases c' <;> simp [rd, altList] at ih' ⊢ <;> exact ih'

/-! ### comma alignment with control symbols -/

theorem isPrefixOf_append_left (p A B : List Bool) (h : p.length ≤ A.length) :
    p.isPrefixOf (A ++ B) = p.isPrefixOf A := by
  rw [Bool.eq_iff_iff, List.isPrefixOf_iff_prefix, List.isPrefixOf_iff_prefix]
  constructor
  · intro hp
    exact List.prefix_of_prefix_length_le hp (List.prefix_append A B) h
  · intro hp
    exact hp.trans (List.prefix_append A B)

theorem commaAt_short (p l : List Bool) (i : Nat) (hp : 0 < p.length) (h : l.length < i + p.length) :
    commaAt p l i = false := by
  unfold commaAt
  rw [Bool.eq_false_iff]
  intro hp
  have := (List.isPrefixOf_iff_prefix.mp hp).length_le
  rw [List.length_drop] at this
  omega

/-- Symbols allowed before the end of a sequence: not K.28.7. -/
def NoK287Inside (syms : List Sym) : Prop := ∀ s ∈ syms.dropLast, isK287 s = false

instance (syms : List Sym) : Decidable (NoK287Inside syms) := by unfold NoK287Inside; exact inferInstance
instance (syms : List Sym) : Decidable (AllValid syms) := by unfold AllValid; exact inferInstance
instance (syms : List Sym) : Decidable (Bytes syms) := by unfold Bytes; exact inferInstance

theorem comma_aligned (p : List Bool) (hp : p = commaP ∨ p = commaN) :
    ∀ (syms : List Sym) (c : Bool) (i : Nat), AllValid syms → NoK287Inside syms →
      commaAt p (serial (encodeSeq c syms)) i = true →
      i % 10 = 0 ∧ ∃ s, syms[i / 10]? = some s ∧ isCommaSym s = true := by
  have hlen : p.length = 7 := by rcases hp with rfl | rfl <;> rfl
  intro syms
  induction syms with
  | nil =>
    intro c i _ _ hc
    rw [commaAt_short p _ i (by omega) (by simp [encodeSeq, serial, hlen])] at hc
    exact Bool.noConfusion hc
  | cons s rest ih =>
    intro c i hv hk hc
    have hs := hv s (by simp)
    have hrest : AllValid rest := fun x hx => hv x (by simp [hx])
    simp only [encodeSeq, serial_cons] at hc
    by_cases h10 : 10 ≤ i
    · -- the window starts in a later word
      have hd : (bitsMsb 10 (encode1 s.d s.k c).1 ++ serial (encodeSeq (encode1 s.d s.k c).2 rest)).drop i =
          (serial (encodeSeq (encode1 s.d s.k c).2 rest)).drop (i - 10) := by
        rw [List.drop_append]; simp [List.drop_of_length_le, h10]
      have hk' : NoK287Inside rest := by
        intro x hx
        cases rest with
        | nil => simp at hx
        | cons r rs => exact hk x (by simp [List.dropLast_cons_cons, hx])
      unfold commaAt at hc
      rw [hd] at hc
      obtain ⟨h1, t, h2, h3⟩ := ih _ (i - 10) hrest hk' hc
      refine ⟨by omega, t, ?_, h3⟩
      have : i / 10 = (i - 10) / 10 + 1 := by omega
      rw [this, List.getElem?_cons_succ]
      exact h2
    · by_cases h4 : i < 4
      · -- the window lies inside this word
        have hin := fin_comma_inword s.d hs.1 s.k c hs
        have hd : commaAt p (bitsMsb 10 (encode1 s.d s.k c).1) i = true := by
          unfold commaAt at hc ⊢
          rw [List.drop_append_of_le_length (by simp; omega), isPrefixOf_append_left] at hc
          · exact hc
          · simp [hlen]; omega
        by_cases h0 : i = 0
        · subst h0
          refine ⟨rfl, s, by simp, ?_⟩
          rw [← hin.1]
          rcases hp with rfl | rfl <;> simp [hd]
        · have := hin.2 i h4 (by omega)
          rcases hp with rfl | rfl
          · rw [this.1] at hd; exact Bool.noConfusion hd
          · rw [this.2] at hd; exact Bool.noConfusion hd
      · -- the window spans the boundary to the next word
        exfalso
        cases rest with
        | nil =>
          rw [commaAt_short p _ i (by omega) (by simp [encodeSeq, serial, hlen]; omega)] at hc
          exact Bool.noConfusion hc
        | cons s' rest' =>
          have hs' := hv s' (by simp)
          have hk0 : isK287 s = false := hk s (by simp [List.dropLast_cons_cons])
          have htl := fin_vtail s.d hs.1 s.k c hs hk0
          have hhd := fin_vhead s'.d hs'.1 s'.k (encode1 s.d s.k c).2 hs'
          have hb := fin_vcomma_boundary (encode1 s.d s.k c).2 _ (Nat.mod_lt _ (by decide)) htl _
            (by have := fin_word_lt s'.d hs'.1 s'.k (encode1 s.d s.k c).2; omega) hhd
          simp only [encodeSeq, serial_cons] at hc
          generalize (encode1 s.d s.k c).2 = c' at hc hb
          generalize serial (encodeSeq (encode1 s'.d s'.k c').2 rest') = R at hc
          generalize (encode1 s'.d s'.k c').1 = w' at hc hb
          generalize (encode1 s.d s.k c).1 = w at hc hb
          -- split the two words at the 6-bit tail / 6-bit head
          have e1 : bitsMsb 10 w = (bitsMsb 10 w).take 4 ++ bitsMsb 6 (w % 64) := by
            rw [← bits10_drop4, List.take_append_drop]
          rw [e1, bits10_split w'] at hc
          unfold commaAt at hc
          have hd : ((bitsMsb 10 w).take 4 ++ bitsMsb 6 (w % 64) ++
              ((bitsMsb 6 (w' / 16) ++ bitsMsb 4 (w' % 16)) ++ R)).drop i =
              (bitsMsb 6 (w % 64) ++ bitsMsb 6 (w' / 16)).drop (i - 4) ++
                (bitsMsb 4 (w' % 16) ++ R) := by
            have hX : (bitsMsb 10 w).take 4 ++ bitsMsb 6 (w % 64) ++
                ((bitsMsb 6 (w' / 16) ++ bitsMsb 4 (w' % 16)) ++ R) =
                (bitsMsb 10 w).take 4 ++ ((bitsMsb 6 (w % 64) ++ bitsMsb 6 (w' / 16)) ++
                  (bitsMsb 4 (w' % 16) ++ R)) := by simp [List.append_assoc]
            have hdd : ∀ Z : List Bool, Z.drop i = (Z.drop 4).drop (i - 4) := by
              intro Z; rw [List.drop_drop]; congr 1; omega
            rw [hX, hdd, List.drop_left' (by simp), List.drop_append_of_le_length (by simp; omega)]
          rw [hd, isPrefixOf_append_left _ _ _ (by simp [hlen]; omega)] at hc
          have hinf : p <:+: bitsMsb 6 (w % 64) ++ bitsMsb 6 (w' / 16) :=
            (List.isPrefixOf_iff_prefix.mp hc).isInfix.trans (List.drop_suffix _ _).isInfix
          rcases hp with rfl | rfl
          · exact not_infix_of_occurs hb.1 hinf
          · exact not_infix_of_occurs hb.2 hinf

/-- Conversely every K.28.1 / K.28.5 / K.28.7 of a sequence of valid symbols shows a comma at bit 0 of its word. -/
theorem comma_present (syms : List Sym) : ∀ (c : Bool) (j : Nat) (s : Sym), AllValid syms →
    syms[j]? = some s → isCommaSym s = true →
    commaAt commaP (serial (encodeSeq c syms)) (10 * j) = true ∨
    commaAt commaN (serial (encodeSeq c syms)) (10 * j) = true := by
  induction syms with
  | nil => intro c j s _ h; simp at h
  | cons s0 rest ih =>
    intro c j s hv hj hs
    have hs0 := hv s0 (by simp)
    cases j with
    | zero =>
      simp only [List.getElem?_cons_zero, Option.some.injEq] at hj
      subst hj
      have hin := (fin_comma_inword s0.d hs0.1 s0.k c hs0).1
      rw [hs, Bool.or_eq_true] at hin
      simp only [encodeSeq, serial_cons, commaAt, Nat.mul_zero, List.drop_zero] at hin ⊢
      rw [isPrefixOf_append_left _ _ _ (by simp [commaP]), isPrefixOf_append_left _ _ _ (by simp [commaN])]
      exact hin
    | succ j =>
      simp only [List.getElem?_cons_succ] at hj
      have := ih (encode1 s0.d s0.k c).2 j s (fun x hx => hv x (by simp [hx])) hj hs
      have hd : ∀ R : List Bool, (bitsMsb 10 (encode1 s0.d s0.k c).1 ++ R).drop (10 * (j + 1)) = R.drop (10 * j) := by
        intro R
        rw [List.drop_append]
        simp [List.drop_of_length_le, Nat.mul_add]
      simp only [encodeSeq, serial_cons, commaAt, hd] at this ⊢
      exact this

/-! ### code words -/

theorem code_word_iff (w : Nat) (hw : w < 1024) :
    isCodeWord w = true ↔ ∃ (s : Sym) (c : Bool), s.Valid ∧ (encode1 s.d s.k c).1 = w := by
  constructor
  · intro h
    obtain ⟨hv, he⟩ := fin_code_preimage w hw h
    rcases he with he | he
    · exact ⟨_, false, hv, he⟩
    · exact ⟨_, true, hv, he⟩
  · rintro ⟨s, c, hv, rfl⟩
    exact fin_code_image s.d hv.1 s.k c hv

end Litex.Code8b10b
