import LitexProofs.Codes.Regen
import LitexProofs.Codes.RegenChain
/-
  Entry-wise form of the regeneration tie (from the list equalities checked by the kernel).
-/
namespace Litex.Code8b10b

theorem getD_of_map_range {f : Nat → Nat} {t : List Nat} {n : Nat} (h : (List.range n).map f = t)
    (i : Nat) (hi : i < n) : t.getD i 0 = f i := by
  subst h
  simp [List.getD_eq_getElem?_getD, hi]

theorem idx_fields (m d : Nat) (hd : d < 256) (k c : Bool) :
    (1024 * m + (d + 256 * b2n k + 512 * b2n c)) / 1024 = m ∧
    (1024 * m + (d + 256 * b2n k + 512 * b2n c)) % 256 = d ∧
    ibit (1024 * m + (d + 256 * b2n k + 512 * b2n c)) 8 = k ∧
    ibit (1024 * m + (d + 256 * b2n k + 512 * b2n c)) 9 = c ∧ d + 256 * b2n k + 512 * b2n c < 1024 := by
  cases k <;> cases c <;> simp [ibit, b2n] <;> omega

/-- The real `SingleEncoder(lsb_first)` netlist, on every input, computes `encode1` (in its bit order). -/
theorem net_encoder (lsb : Bool) (d : Nat) (hd : d < 256) (k c : Bool) :
    (netEnc lsb).getD (d + 256 * b2n k + 512 * b2n c) 0 =
      fmt lsb (encode1 d k c).1 + 1024 * b2n (encode1 d k c).2 := by
  obtain ⟨_, h1, h2, h3, h4⟩ := idx_fields 0 d hd k c
  simp only [Nat.mul_zero, Nat.zero_add] at h1 h2 h3
  have : (netEnc lsb).getD (d + 256 * b2n k + 512 * b2n c) 0 = encEntry lsb (d + 256 * b2n k + 512 * b2n c) := by
    cases lsb
    · exact getD_of_map_range regen_encMsb _ h4
    · exact getD_of_map_range regen_encLsb _ h4
  rw [this, encEntry, h1, h2, h3]

/-- The real `Decoder(lsb_first)` netlist, on every 10-bit input, computes the model's decoder step. -/
theorem net_decoder (lsb : Bool) (w : Nat) (hw : w < 1024) :
    (netDec lsb).getD w 0 =
      (decOut (decStep lsb w)).1 + 256 * b2n (decOut (decStep lsb w)).2.1 + 512 * b2n (decOut (decStep lsb w)).2.2 := by
  cases lsb
  · exact getD_of_map_range regen_decMsb _ hw
  · exact getD_of_map_range regen_decLsb _ hw

/-- The real `Encoder(2, False)` netlist on every chain probe (complete symbol space in either lane, either
    incoming running disparity) computes what the model `encoder 2 false` computes. -/
theorem net_chain2 (lane : Nat) (hl : lane < 2) (d : Nat) (hd : d < 256) (k c : Bool) :
    Netlist.chain2.getD (1024 * lane + (d + 256 * b2n k + 512 * b2n c)) 0 = chainProbe 2 lane d k c := by
  obtain ⟨e1, e2, e3, e4, h4⟩ := idx_fields lane d hd k c
  rw [getD_of_map_range regen_chain2 _ (by omega), chain2Entry, e1, e2, e3, e4]

end Litex.Code8b10b
