import LitexProofs.Codes.FiniteA
import LitexProofs.Codes.FiniteB
import LitexProofs.Codes.FiniteC
/-
  From single symbols to arbitrary-length symbol sequences (induction over the sequence).
-/
namespace Litex.Code8b10b

/-! ### bit-list plumbing -/

theorem tb_div16 (w i : Nat) : (w / 16).testBit i = w.testBit (i + 4) := Nat.testBit_div_two_pow (n := 4) w i
theorem tb_mod16 (w i : Nat) : (w % 16).testBit i = (decide (i < 4) && w.testBit i) := Nat.testBit_mod_two_pow w 4 i
theorem tb_mod64 (w i : Nat) : (w % 64).testBit i = (decide (i < 6) && w.testBit i) := Nat.testBit_mod_two_pow w 6 i

@[simp] theorem bitsMsb_length (n w : Nat) : (bitsMsb n w).length = n := by
  induction n with
  | zero => rfl
  | succ n ih => simp [bitsMsb, ih]

theorem bits10_split (w : Nat) : bitsMsb 10 w = bitsMsb 6 (w / 16) ++ bitsMsb 4 (w % 16) := by
  simp only [bitsMsb, tb_div16, tb_mod16]; simp

theorem bits10_drop4 (w : Nat) : (bitsMsb 10 w).drop 4 = bitsMsb 6 (w % 64) := by
  simp [bitsMsb, tb_mod64]

theorem serial_cons (w : Nat) (ws : List Nat) : serial (w :: ws) = bitsMsb 10 w ++ serial ws := by
  simp [serial]

theorem serial_append (a b : List Nat) : serial (a ++ b) = serial a ++ serial b := by
  simp [serial]

theorem bal_append (a b : List Bool) : bal (a ++ b) = bal a + bal b := by
  induction a with
  | nil => simp [bal]
  | cons x xs ih => simp only [List.cons_append, bal, ih]; omega

theorem occurs_iff (p : List Bool) : ∀ l, occurs p l = true ↔ p <:+: l
  | [] => by simp [occurs, List.infix_nil]
  | b :: rest => by
    rw [occurs, Bool.or_eq_true, List.infix_cons_iff, occurs_iff p rest, List.isPrefixOf_iff_prefix]

theorem not_infix_of_occurs {p l : List Bool} (h : occurs p l = false) : ¬ p <:+: l := by
  intro hi
  rw [(occurs_iff p l).mpr hi] at h
  exact Bool.noConfusion h

/-- A window of length ≤ n+1 inside `A ++ B` lies inside `A`, or inside the last `n` elements of `A`
    followed by `B`. -/
theorem infix_append_split {α : Type} (p A B : List α) (n : Nat) (hp : p.length ≤ n + 1) (hA : n ≤ A.length)
    (h : p <:+: A ++ B) : p <:+: A ∨ p <:+: A.drop (A.length - n) ++ B := by
  obtain ⟨s, t, hst⟩ := h
  by_cases hc : s.length + p.length ≤ A.length
  · left
    have h1 : s ++ p <+: A ++ B := ⟨t, by simpa using hst⟩
    have h2 : A <+: A ++ B := List.prefix_append _ _
    have h3 : s ++ p <+: A := List.prefix_of_prefix_length_le h1 h2 (by simpa using hc)
    obtain ⟨r, hr⟩ := h3
    exact ⟨s, r, hr⟩
  · right
    have hm : A.length - n ≤ s.length := by omega
    have hm2 : A.length - n ≤ A.length := by omega
    refine ⟨s.drop (A.length - n), t, ?_⟩
    have := congrArg (List.drop (A.length - n)) hst
    rw [List.drop_append_of_le_length hm2] at this
    rw [← this, List.append_assoc s p t, List.drop_append_of_le_length hm, List.append_assoc]

theorem prefixOK_take (lo hi : Int) : ∀ (l : List Bool) (acc : Int), prefixOK lo hi acc l = true →
    ∀ n, lo ≤ acc + bal (l.take n) ∧ acc + bal (l.take n) ≤ hi
  | [], acc, h, n => by
    simp [prefixOK] at h
    simp [bal]; omega
  | b :: rest, acc, h, n => by
    simp only [prefixOK, Bool.and_eq_true, decide_eq_true_eq] at h
    cases n with
    | zero => simp [bal]; omega
    | succ n =>
      have := prefixOK_take lo hi rest _ h.2 n
      simp only [List.take_succ_cons, bal]
      omega

/-! ### symbol classes -/

/-- Every symbol of the sequence is a byte (K flag arbitrary, also on undefined control symbols). -/
def Bytes (syms : List Sym) : Prop := ∀ s ∈ syms, s.d < 256

/-- Every symbol is a byte or one of the 12 defined control symbols. -/
def AllValid (syms : List Sym) : Prop := ∀ s ∈ syms, s.Valid

/-- Data symbols `D.x.y`. -/
def dataSyms (ds : List Nat) : List Sym := ds.map fun d => ⟨d, false⟩

theorem AllValid.bytes {syms : List Sym} (h : AllValid syms) : Bytes syms := fun s hs => (h s hs).1

/-! ### invertibility -/

theorem seq_roundtrip (c : Bool) (syms : List Sym) (h : AllValid syms) :
    (encodeSeq c syms).map decode1 = syms.map fun s => (s.d, s.k, false) := by
  induction syms generalizing c with
  | nil => rfl
  | cons s rest ih =>
    have hs := h s (by simp)
    simp only [encodeSeq, List.map_cons]
    rw [ih _ (fun x hx => h x (by simp [hx])), fin_roundtrip s.d hs.1 s.k c hs]

/-! ### running disparity -/

theorem seq_disparity (c : Bool) (syms : List Sym) (h : Bytes syms) :
    bal (serial (encodeSeq c syms)) = rd (dispAfter c syms) - rd c := by
  induction syms generalizing c with
  | nil => simp [encodeSeq, dispAfter, serial, bal]
  | cons s rest ih =>
    have hs := h s (by simp)
    simp only [encodeSeq, dispAfter, serial_cons, bal_append]
    rw [ih _ (fun x hx => h x (by simp [hx])), fin_disp_word s.d hs s.k c]
    omega

theorem seq_disparity_inside (c : Bool) (syms : List Sym) (h : Bytes syms) (m : Nat) :
    -3 ≤ rd c + bal ((serial (encodeSeq c syms)).take m) ∧
    rd c + bal ((serial (encodeSeq c syms)).take m) ≤ 3 := by
  induction syms generalizing c m with
  | nil => simp [encodeSeq, serial, bal, rd]; cases c <;> simp
  | cons s rest ih =>
    have hs := h s (by simp)
    simp only [encodeSeq, serial_cons, List.take_append, bitsMsb_length, bal_append]
    by_cases hm : m ≤ 10
    · have h0 : m - 10 = 0 := by omega
      have := prefixOK_take (-3) 3 _ _ (fin_disp_inside s.d hs s.k c) m
      simp only [h0, List.take_zero, bal]
      omega
    · have hfull : (bitsMsb 10 (encode1 s.d s.k c).1).take m = bitsMsb 10 (encode1 s.d s.k c).1 :=
        List.take_of_length_le (by simp; omega)
      have := ih (encode1 s.d s.k c).2 (fun x hx => h x (by simp [hx])) (m - 10)
      rw [hfull, fin_disp_word s.d hs s.k c]
      omega

theorem encodeSeq_append (c : Bool) (a b : List Sym) :
    encodeSeq c (a ++ b) = encodeSeq c a ++ encodeSeq (dispAfter c a) b := by
  induction a generalizing c with
  | nil => rfl
  | cons s rest ih => simp [encodeSeq, dispAfter, ih]

theorem dispAfter_append (c : Bool) (a b : List Sym) :
    dispAfter c (a ++ b) = dispAfter (dispAfter c a) b := by
  induction a generalizing c with
  | nil => rfl
  | cons s rest ih => simp [dispAfter, ih]

theorem dispSeq_append (c : Bool) (a b : List Sym) :
    dispSeq c (a ++ b) = dispSeq c a ++ dispSeq (dispAfter c a) b := by
  induction a generalizing c with
  | nil => rfl
  | cons s rest ih => simp [dispSeq, dispAfter, ih]


/-- At every symbol boundary the running disparity of the emitted stream is the encoder's disparity bit. -/
theorem seq_disparity_boundary (c : Bool) (syms : List Sym) (h : Bytes syms) (k : Nat) :
    rd c + bal ((serial (encodeSeq c syms)).take (10 * k)) = rd (dispAfter c (syms.take k)) := by
  induction syms generalizing c k with
  | nil => simp [encodeSeq, serial, bal, dispAfter]
  | cons s rest ih =>
    cases k with
    | zero => simp [bal, dispAfter]
    | succ k =>
      have hs := h s (by simp)
      have hfull : (bitsMsb 10 (encode1 s.d s.k c).1).take (10 * (k + 1)) = bitsMsb 10 (encode1 s.d s.k c).1 :=
        List.take_of_length_le (by simp; omega)
      have := ih (encode1 s.d s.k c).2 (fun x hx => h x (by simp [hx])) k
      simp only [encodeSeq, serial_cons, List.take_append, bitsMsb_length, bal_append, hfull,
        List.take_succ_cons, dispAfter]
      rw [show 10 * (k + 1) - 10 = 10 * k by omega, fin_disp_word s.d hs s.k c]
      omega

theorem rd_cases (b : Bool) : rd b = 1 ∨ rd b = -1 := by cases b <;> simp [rd]

theorem encodeSeq_lt (c : Bool) (syms : List Sym) (h : Bytes syms) : ∀ w ∈ encodeSeq c syms, w < 1024 := by
  induction syms generalizing c with
  | nil => simp [encodeSeq]
  | cons s rest ih =>
    intro w hw
    simp only [encodeSeq, List.mem_cons] at hw
    rcases hw with rfl | hw
    · exact fin_word_lt s.d (h s (by simp)) s.k c
    · exact ih _ (fun x hx => h x (by simp [hx])) w hw

/-- Transmitting lsb-first the bit-reversed words is transmitting the words msb-first. -/
theorem serialLsb_fmt (ws : List Nat) (h : ∀ w ∈ ws, w < 1024) : serialLsb (ws.map (fmt true)) = serial ws := by
  induction ws with
  | nil => rfl
  | cons w rest ih =>
    have hw := h w (by simp)
    have := ih (fun x hx => h x (by simp [hx]))
    simp only [serialLsb, serial, List.map_cons, List.flatMap_cons] at *
    rw [this]
    simp [fmt, fin_rev_bits w hw]

/-! ### windows across symbol boundaries -/

/-- Generic no-window argument: if a pattern of length ≤ 7 occurs in no single word of a symbol class, and in
    no (allowed tail, allowed head) pair of a running-disparity class, it occurs nowhere in the serial stream
    of any sequence over that symbol class, from any start. -/
theorem no_window (p : List Bool) (hp : p.length ≤ 7) (TM HM : Bool → Nat) (P : Sym → Prop)
    (hword : ∀ s, P s → ∀ c, occurs p (bitsMsb 10 (encode1 s.d s.k c).1) = false)
    (hlt : ∀ s, P s → ∀ c, (encode1 s.d s.k c).1 < 1024)
    (hclass : ∀ s, P s → ∀ c, (TM (encode1 s.d s.k c).2).testBit ((encode1 s.d s.k c).1 % 64) = true ∧
                              (HM c).testBit ((encode1 s.d s.k c).1 / 16) = true)
    (htail : ∀ c t, t < 64 → (TM c).testBit t = true → occurs p (bitsMsb 6 t) = false)
    (hbound : ∀ c t, t < 64 → (TM c).testBit t = true → ∀ h, h < 64 → (HM c).testBit h = true →
                occurs p (bitsMsb 6 t ++ bitsMsb 6 h) = false) :
    ∀ (syms : List Sym) (c : Bool) (t : Nat), (∀ s ∈ syms, P s) → t < 64 → (TM c).testBit t = true →
      ¬ p <:+: bitsMsb 6 t ++ serial (encodeSeq c syms) := by
  intro syms
  induction syms with
  | nil =>
    intro c t _ ht htm
    simpa [encodeSeq, serial] using not_infix_of_occurs (htail c t ht htm)
  | cons s rest ih =>
    intro c t hP ht htm hin
    have hs := hP s (by simp)
    have hw := hlt s hs c
    obtain ⟨hc1, hc2⟩ := hclass s hs c
    simp only [encodeSeq, serial_cons] at hin
    rw [← List.append_assoc] at hin
    rcases infix_append_split p _ _ 6 (by omega) (by simp) hin with h1 | h2
    · -- window inside tail ++ word
      rw [bits10_split, ← List.append_assoc] at h1
      rcases infix_append_split p _ _ 6 (by omega) (by simp) h1 with h3 | h4
      · exact not_infix_of_occurs (hbound c t ht htm _ (by omega) hc2) h3
      · have : (bitsMsb 6 t ++ bitsMsb 6 ((encode1 s.d s.k c).1 / 16)).drop
            ((bitsMsb 6 t ++ bitsMsb 6 ((encode1 s.d s.k c).1 / 16)).length - 6) =
            bitsMsb 6 ((encode1 s.d s.k c).1 / 16) := by
          simp only [List.length_append, bitsMsb_length]
          exact List.drop_left' (by simp)
        rw [this, ← bits10_split] at h4
        exact not_infix_of_occurs (hword s hs c) h4
    · -- window reaching into the rest: continue with the tail of this word
      have : (bitsMsb 6 t ++ bitsMsb 10 (encode1 s.d s.k c).1).drop
          ((bitsMsb 6 t ++ bitsMsb 10 (encode1 s.d s.k c).1).length - 6) =
          bitsMsb 6 ((encode1 s.d s.k c).1 % 64) := by
        simp only [List.length_append, bitsMsb_length]
        rw [show 6 + 10 - 6 = 6 + 4 from rfl, ← List.drop_drop, List.drop_left' (by simp), bits10_drop4]
      rw [this] at h2
      exact ih _ _ (fun x hx => hP x (by simp [hx])) (Nat.mod_lt _ (by decide)) hc1 h2

theorem infix_of_suffix_part {α : Type} {p s : List α} (t : List α) (h : p <:+: s) : p <:+: t ++ s :=
  h.trans (List.suffix_append t s).isInfix

theorem tail_exists (c : Bool) : ∃ t, t < 64 ∧ (tailMask c).testBit t = true := by
  cases c
  · exact ⟨2, by decide, by decide⟩
  · exact ⟨3, by decide, by decide⟩

theorem dataTail_exists (c : Bool) : ∃ t, t < 64 ∧ (dataTailMask c).testBit t = true := by
  cases c
  · exact ⟨2, by decide, by decide⟩
  · exact ⟨3, by decide, by decide⟩

theorem fin_run_tail : ∀ c b : Bool, ∀ t < 64, (tailMask c).testBit t = true →
    occurs (rep6 b) (bitsMsb 6 t) = false := by decide +kernel

theorem fin_comma_tail : ∀ c : Bool, ∀ t < 64, (dataTailMask c).testBit t = true →
    occurs commaP (bitsMsb 6 t) = false ∧ occurs commaN (bitsMsb 6 t) = false := by decide +kernel

theorem seq_run_length (c : Bool) (syms : List Sym) (h : Bytes syms) (b : Bool) :
    ¬ rep6 b <:+: serial (encodeSeq c syms) := by
  intro hin
  obtain ⟨t, ht, htm⟩ := tail_exists c
  refine no_window (rep6 b) (by simp [rep6]) tailMask headMask (fun s => s.d < 256)
    (fun s hs c => fin_run_word s.d hs s.k c b) (fun s hs c => fin_word_lt s.d hs s.k c)
    (fun s hs c => fin_class s.d hs s.k c) (fun c t ht htm => fin_run_tail c b t ht htm)
    (fun c t ht htm h hh hhm => fin_run_boundary c b t ht htm h hh hhm)
    syms c t h ht htm (infix_of_suffix_part _ hin)

theorem seq_no_comma (c : Bool) (ds : List Nat) (h : ∀ d ∈ ds, d < 256) :
    ¬ commaP <:+: serial (encodeSeq c (dataSyms ds)) ∧ ¬ commaN <:+: serial (encodeSeq c (dataSyms ds)) := by
  obtain ⟨t, ht, htm⟩ := dataTail_exists c
  have hP : ∀ s ∈ dataSyms ds, s.d < 256 ∧ s.k = false := by
    intro s hs
    simp only [dataSyms, List.mem_map] at hs
    obtain ⟨d, hd, rfl⟩ := hs
    exact ⟨h d hd, rfl⟩
  constructor
  · intro hin
    refine no_window commaP (by simp [commaP]) dataTailMask dataHeadMask (fun s => s.d < 256 ∧ s.k = false)
      (fun s hs c => by rw [hs.2]; exact (fin_comma_word s.d hs.1 c).1)
      (fun s hs c => fin_word_lt s.d hs.1 s.k c)
      (fun s hs c => by rw [hs.2]; exact fin_data_class s.d hs.1 c)
      (fun c t ht htm => (fin_comma_tail c t ht htm).1)
      (fun c t ht htm h hh hhm => (fin_comma_boundary c t ht htm h hh hhm).1)
      _ c t hP ht htm (infix_of_suffix_part _ hin)
  · intro hin
    refine no_window commaN (by simp [commaN]) dataTailMask dataHeadMask (fun s => s.d < 256 ∧ s.k = false)
      (fun s hs c => by rw [hs.2]; exact (fin_comma_word s.d hs.1 c).2)
      (fun s hs c => fin_word_lt s.d hs.1 s.k c)
      (fun s hs c => by rw [hs.2]; exact fin_data_class s.d hs.1 c)
      (fun c t ht htm => (fin_comma_tail c t ht htm).2)
      (fun c t ht htm h hh hhm => (fin_comma_boundary c t ht htm h hh hhm).2)
      _ c t hP ht htm (infix_of_suffix_part _ hin)

end Litex.Code8b10b
