import LitexProofs.Codes.FiniteD
/-
  Exactly which successors of K.28.7 build a false comma across the word boundary (whole domain, kernel-checked).
-/
namespace Litex.Code8b10b

/-- A comma window starting at bits 4..9 of the first word of a two-symbol stream (i.e. overlapping both words). -/
def commaAcross (c : Bool) (s s' : Sym) : Bool :=
  (List.range 6).any fun j =>
    commaAt commaP (serial (encodeSeq c [s, s'])) (4 + j) || commaAt commaN (serial (encodeSeq c [s, s'])) (4 + j)

/-- The successors of K.28.7 (sent from running disparity `c`) whose first two bits repeat K.28.7's last three:
    from RD− (`0011111000`) the words starting `00`: D/K.12, .20, .28; from RD+ (`1100000111`) those starting `11`:
    D.3, D.11, D.19 and K.28. -/
def k287Successor (c : Bool) (s' : Sym) : Bool :=
  if c then s'.d % 32 == 3 || s'.d % 32 == 11 || s'.d % 32 == 19 || (s'.k && s'.d % 32 == 28)
  else s'.d % 32 == 12 || s'.d % 32 == 20 || s'.d % 32 == 28

theorem fin_k287_exact : ∀ d < 256, ∀ k c : Bool, (Sym.mk d k).Valid →
    commaAcross c ⟨252, true⟩ ⟨d, k⟩ = k287Successor c ⟨d, k⟩ := by decide +kernel

end Litex.Code8b10b
