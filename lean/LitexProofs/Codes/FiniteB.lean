import LitexProofs.Codes.Defs
/-
  Finite facts about `encode1`/`decode1`, each checked by the kernel over the whole domain
  (256 bytes × K flag × 2 disparities = 1024 encoder inputs; 1024 decoder inputs).  The tables are
  regenerated from the repository on every run, so a changed table entry that breaks the property breaks
  one of these `decide`s.  (Split over three files so that they are checked in parallel.)
-/
namespace Litex.Code8b10b

/-- Disparity bookkeeping of a whole word, for *all* 1024 encoder inputs. -/
theorem fin_disp_word : ∀ d < 256, ∀ k c : Bool,
    bal (bitsMsb 10 (encode1 d k c).1) = rd (encode1 d k c).2 - rd c := by decide +kernel

/-- … of the 6b sub-block against `disp_inter` and of the 4b sub-block against `disp_out`. -/
theorem fin_disp_halves : ∀ d < 256, ∀ k c : Bool,
    bal (bitsMsb 6 ((encode1 d k c).1 / 16)) = rd (dispInter (stage1 d k) c) - rd c ∧
    bal (bitsMsb 4 ((encode1 d k c).1 % 16)) = rd (encode1 d k c).2 - rd (dispInter (stage1 d k) c) := by
  decide +kernel

/-- Inside a symbol the running disparity never leaves [−3, +3] (all prefixes, one pass). -/
theorem fin_disp_inside : ∀ d < 256, ∀ k c : Bool,
    prefixOK (-3) 3 (rd c) (bitsMsb 10 (encode1 d k c).1) = true := by decide +kernel

theorem fin_ones_bal : ∀ w < 1024, bal (bitsMsb 10 w) = 2 * (ones10 w : Int) - 10 := by decide +kernel

end Litex.Code8b10b
