import LitexModel.Codes.Build8b10b
import LitexModel.Codes.Code8b10b
/-
  The eight derived tables dumped from the repository are what the build-time constructions of `code_8b10b.py`
  give from the two primary tables `table_5b6b` and `table_3b4b` (kernel-evaluated).
-/
namespace Litex.Code8b10b
open Tables

theorem build_unbalanced6 :
    table_5b6b_unbalanced = table_5b6b.map fun c => b2n (disparity c 6 != 0) := by decide +kernel
theorem build_flip6 : table_5b6b_flip = table_5b6b_unbalanced.set 7 1 := by decide +kernel
theorem build_6b5b :
    (reverseTableFlip table_5b6b (table_5b6b_flip.map (· != 0)) 6).map
      (fun t => (t.set 0b001111 0b11100).set 0b110000 0b11100) = some table_6b5b := by decide +kernel
theorem build_unbalanced4 :
    table_3b4b_unbalanced = table_3b4b.map fun c => b2n (disparity c 4 != 0) := by decide +kernel
theorem build_flip4 : table_3b4b_flip = table_3b4b_unbalanced.set 3 1 := by decide +kernel
theorem build_4b3b :
    (reverseTableFlip table_3b4b (table_3b4b_flip.map (· != 0)) 4).map
      (fun t => (t.set 0b0111 0b0111).set 0b1000 0b0111) = some table_4b3b := by decide +kernel
theorem build_4b3b_kn :
    (reverseTable table_3b4b 4).map (fun t => (t.set 0b0001 0b000).set 0b1000 0b111) = some table_4b3b_kn := by
  decide +kernel
theorem build_4b3b_kp :
    (reverseTable (table_3b4b.map fun x => 15 - x) 4).map
      (fun t => (t.set 0b1110 0b000).set 0b0111 0b111) = some table_4b3b_kp := by decide +kernel

/-- `disparity` is `ones − zeros` whatever the width (the helper agrees with the bit-list balance used in the
    theorems, here on all 10-bit words). -/
theorem build_disparity10 : ∀ w < 1024, disparity w 10 =
    2 * ((List.range 10).foldl (fun acc i => acc + (if w.testBit i then 1 else 0)) 0 : Nat) - 10 := by
  decide +kernel

/-- The 12 control symbols of `Sym.Valid` are `K(28, 0..7)`, `K(23, 7)`, `K(27, 7)`, `K(29, 7)`, `K(30, 7)`. -/
theorem build_kList :
    kList = (List.range 8).map (symK 28) ++ [symK 23 7, symK 27 7, symK 29 7, symK 30 7] := by decide

end Litex.Code8b10b
