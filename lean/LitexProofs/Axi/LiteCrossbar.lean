import LitexProofs.Axi.LiteParts
/-
  C08, crossbar (one direction): one decoder per master, one arbiter per slave.  Inductive invariant tying every
  arbiter's `(grant, counter)` and every decoder's `(counter, slave_sel_reg)` to the routing scoreboard, and the
  one-step assume/guarantee lemma.
-/
namespace Litex.Axi.Lite
namespace Crossbar
variable (c : Cfg) (rd : Bool)

/-- `slave_sel[j]` of master `i`'s decoder in this cycle. -/
def selI (s : XbDir) (x : DirIn) (i j : Nat) : Bool := Dec.sel (c.decCfg rd) (dcd s i) (x.ms i) j

structure Inv (s : XbDir) (g : Fifo) : Prop where
  arbs   : ∀ j, j < c.m → (arb s j).grant < c.n ∧ (arb s j).cnt ≤ maxReq - 1 ∧
             g j = List.replicate (arb s j).cnt (arb s j).grant
  idle   : ∀ i, i < c.n → (dcd s i).cnt = 0 → ∀ j, j < c.m → (arb s j).cnt ≠ 0 → (arb s j).grant ≠ i
  locked : ∀ i, i < c.n → (dcd s i).cnt ≠ 0 → ∃ L, L < c.m ∧
             (∀ j, j < c.m → (dcd s i).selR.getD j false = (j == L)) ∧
             (arb s L).grant = i ∧ (arb s L).cnt = (dcd s i).cnt ∧
             ∀ j, j < c.m → j ≠ L → (arb s j).cnt ≠ 0 → (arb s j).grant ≠ i

set_option linter.unusedSectionVars false

theorem toM_some (s : XbDir) (x : DirIn) (i L : Nat) (hL : L < c.m) (hsel : ∀ j, j < c.m → selI c rd s x i j = (j == L)) :
    (out c rd s x).toM i = Arb.toM (arb s L) (x.ss L) i := by
  show Dec.toM (c.decCfg rd) (dcd s i) (x.ms i) (fun j => accSM s x i j) = _
  rw [Dec.toM_onehot (c.decCfg rd) (dcd s i) (x.ms i) _ L hL hsel]
  rfl

theorem toM_none (s : XbDir) (x : DirIn) (i : Nat) (hsel : ∀ j, j < c.m → selI c rd s x i j = false) :
    (out c rd s x).toM i = {} := by
  show Dec.toM (c.decCfg rd) (dcd s i) (x.ms i) (fun j => accSM s x i j) = _
  exact Dec.toM_none (c.decCfg rd) (dcd s i) (x.ms i) _ hsel

theorem e_sReq (s : XbDir) (x : DirIn) (j : Nat) :
    sReq x (out c rd s x) j =
      (((x.ms (arb s j).grant).aValid && selI c rd s x (arb s j).grant j) && (x.ss j).aReady) := rfl

theorem e_sRsp (s : XbDir) (x : DirIn) (j : Nat) :
    sRsp x (out c rd s x) j =
      ((x.ss j).rValid && ((x.ms (arb s j).grant).rReady && selI c rd s x (arb s j).grant j)) := rfl

section step
variable (hd : Disjoint c) (s : XbDir) (g : Fifo) (x : DirIn) (hinv : Inv c s g) (env : EnvOK c g x)
include hd hinv env

theorem sel_cases (i : Nat) (hi : i < c.n) :
    (∃ L, L < c.m ∧ ∀ j, j < c.m → selI c rd s x i j = (j == L)) ∨ (∀ j, j < c.m → selI c rd s x i j = false) := by
  apply Dec.sel_cases (c.decCfg rd) hd (dcd s i) (x.ms i)
  intro hK
  obtain ⟨L, hL, hR, _⟩ := hinv.locked i hi hK
  exact ⟨L, hL, hR⟩

/-- What the select of a presenting master points at is the slave of the presented address. -/
theorem sel_routes (i L : Nat) (hi : i < c.n) (hL : L < c.m) (hv : (x.ms i).aValid = true)
    (hs : selI c rd s x i L = true) : routes c L (x.ms i).aAddr = true := by
  by_cases hK : (dcd s i).cnt = 0
  · have := Dec.sel_idle (c.decCfg rd) (dcd s i) (x.ms i) L hK
    unfold selI at hs
    rw [this] at hs
    exact hs
  · obtain ⟨L', hL', hR, hgr, hcnt, _⟩ := hinv.locked i hi hK
    have h1 := Dec.sel_locked (c.decCfg rd) (dcd s i) (x.ms i) L hK
    unfold selI at hs
    rw [h1, hR L hL] at hs
    have hLL : L = L' := by simpa using hs
    subst hLL
    apply env.sameSlave i L hi hL hv
    rw [(hinv.arbs L hL).2.2, hgr]
    exact List.mem_replicate.mpr ⟨by rw [hcnt]; exact hK, rfl⟩

/-- An address handshake at master `i`: its select is one-hot at some `L`, slave `L` is ready and its arbiter
    points at `i`. -/
theorem mReq_elim (i : Nat) (hi : i < c.n) (h : mReq x (out c rd s x) i = true) :
    ∃ L, L < c.m ∧ (∀ j, j < c.m → selI c rd s x i j = (j == L)) ∧ (x.ms i).aValid = true ∧
         (x.ss L).aReady = true ∧ (arb s L).grant = i := by
  rcases sel_cases c rd hd s g x hinv env i hi with ⟨L, hL, hsel⟩ | hnone
  · refine ⟨L, hL, hsel, ?_⟩
    unfold mReq at h
    rw [toM_some c rd s x i L hL hsel] at h
    simp only [Arb.toM, Bool.and_eq_true, beq_iff_eq] at h
    exact ⟨h.1, h.2.1, h.2.2⟩
  · unfold mReq at h
    rw [toM_none c rd s x i hnone] at h
    simp at h

theorem mReq_intro (i L : Nat) (hL : L < c.m) (hsel : ∀ j, j < c.m → selI c rd s x i j = (j == L))
    (hv : (x.ms i).aValid = true) (hr : (x.ss L).aReady = true) (hg : (arb s L).grant = i) :
    mReq x (out c rd s x) i = true := by
  unfold mReq
  rw [toM_some c rd s x i L hL hsel]
  simp [Arb.toM, hv, hr, hg]

theorem mRsp_elim (i : Nat) (hi : i < c.n) (h : mRsp x (out c rd s x) i = true) :
    ∃ L, L < c.m ∧ (∀ j, j < c.m → selI c rd s x i j = (j == L)) ∧ (x.ss L).rValid = true ∧
         (arb s L).grant = i ∧ (x.ms i).rReady = true ∧ (out c rd s x).toM i = Arb.toM (arb s L) (x.ss L) i := by
  rcases sel_cases c rd hd s g x hinv env i hi with ⟨L, hL, hsel⟩ | hnone
  · refine ⟨L, hL, hsel, ?_⟩
    have hM := toM_some c rd s x i L hL hsel
    unfold mRsp at h
    rw [hM] at h
    simp only [Arb.toM, Bool.and_eq_true, beq_iff_eq] at h
    exact ⟨h.1.1, h.1.2, h.2, hM⟩
  · unfold mRsp at h
    rw [toM_none c rd s x i hnone] at h
    simp at h

/-- An address handshake at slave `j` is the address handshake of the master its arbiter points at. -/
theorem sReq_elim (j : Nat) (hj : j < c.m) (h : sReq x (out c rd s x) j = true) :
    (x.ms (arb s j).grant).aValid = true ∧ (x.ss j).aReady = true ∧
    (∀ k, k < c.m → selI c rd s x (arb s j).grant k = (k == j)) ∧
    mReq x (out c rd s x) (arb s j).grant = true := by
  rw [e_sReq] at h
  simp only [Bool.and_eq_true] at h
  obtain ⟨⟨hv, hs⟩, hr⟩ := h
  have hi := (hinv.arbs j hj).1
  have hsel : ∀ k, k < c.m → selI c rd s x (arb s j).grant k = (k == j) := by
    rcases sel_cases c rd hd s g x hinv env _ hi with ⟨L, hL, hsel⟩ | hnone
    · have : j = L := by
        have := hsel j hj; rw [hs] at this; simpa using this.symm
      subst this; exact hsel
    · rw [hnone j hj] at hs; cases hs
  exact ⟨hv, hr, hsel, mReq_intro c rd hd s g x hinv env _ j hj hsel hv hr rfl⟩

theorem issuers (j : Nat) (hj : j < c.m) (h : sReq x (out c rd s x) j = true) :
    issuersTo c x (out c rd s x) j = [(arb s j).grant] := by
  obtain ⟨hv, hr, hsel, hm⟩ := sReq_elim c rd hd s g x hinv env j hj h
  have hi := (hinv.arbs j hj).1
  unfold issuersTo
  apply filter_range_single c.n _ hi
  · have hs : selI c rd s x (arb s j).grant j = true := by rw [hsel j hj]; simp
    rw [hm, sel_routes c rd hd s g x hinv env _ j hi hj hv hs]; rfl
  · intro i hi' hne
    cases hq : mReq x (out c rd s x) i
    · rfl
    · obtain ⟨L, hL, hselL, hvi, _, hgL⟩ := mReq_elim c rd hd s g x hinv env i hi' hq
      have hsL : selI c rd s x i L = true := by rw [hselL L hL]; simp
      have hrL := sel_routes c rd hd s g x hinv env i L hi' hL hvi hsL
      cases hrj : routes c j (x.ms i).aAddr
      · rfl
      · have : j = L := hd _ j L hj hL hrj hrL
        subst this
        exact absurd hgL.symm hne

/-- The guarantee of the cycle. -/
theorem route_ok : RouteOK c false g x (out c rd s x) := by
  refine ⟨?_, ?_, ?_, ?_, ?_⟩
  · -- addr_m
    intro i hi h
    obtain ⟨L, hL, hsel, hv, hr, hg⟩ := mReq_elim c rd hd s g x hinv env i hi h
    have hs : selI c rd s x i L = true := by rw [hsel L hL]; simp
    refine ⟨L, hL, sel_routes c rd hd s g x hinv env i L hi hL hv hs, ?_⟩
    rw [e_sReq, hg, hv, hs, hr]; rfl
  · -- addr_s
    intro j hj h
    exact ⟨(arb s j).grant, (hinv.arbs j hj).1, issuers c rd hd s g x hinv env j hj h, rfl, rfl⟩
  · -- resp_s
    intro j hj h
    rw [e_sRsp] at h
    simp only [Bool.and_eq_true] at h
    obtain ⟨hv, hrr, hs⟩ := h
    obtain ⟨hi, _, hgj⟩ := hinv.arbs j hj
    have hne := env.slaveLegal j hj hv
    have hK : (arb s j).cnt ≠ 0 := by
      intro h0; rw [hgj, h0] at hne; exact hne rfl
    have hsel : ∀ k, k < c.m → selI c rd s x (arb s j).grant k = (k == j) := by
      rcases sel_cases c rd hd s g x hinv env _ hi with ⟨L, hL, hsel⟩ | hnone
      · have : j = L := by
          have := hsel j hj; rw [hs] at this; simpa using this.symm
        subst this; exact hsel
      · rw [hnone j hj] at hs; cases hs
    have hM := toM_some c rd s x _ j hj hsel
    refine ⟨(arb s j).grant, hi, ?_, ?_, ?_, ?_⟩
    · rw [hgj]
      cases hk : (arb s j).cnt with
      | zero => exact absurd hk hK
      | succ k => simp [List.replicate_succ]
    · unfold mRsp; rw [hM]; simp [Arb.toM, hv, hrr]
    · rw [hM]; rfl
    · rw [hM]; rfl
  · -- resp_m
    intro i hi h
    obtain ⟨L, hL, hsel, hv, hg, hrr, _⟩ := mRsp_elim c rd hd s g x hinv env i hi h
    have hs : selI c rd s x i L = true := by rw [hsel L hL]; simp
    obtain ⟨_, _, hgL⟩ := hinv.arbs L hL
    have hne := env.slaveLegal L hL hv
    have hK : (arb s L).cnt ≠ 0 := by
      intro h0; rw [hgL, h0] at hne; exact hne rfl
    have hhead : ∀ k, k < c.m → (g k).head? = some i → (arb s k).grant = i := by
      intro k hk hh
      rw [(hinv.arbs k hk).2.2] at hh
      cases hc : (arb s k).cnt with
      | zero => rw [hc] at hh; simp at hh
      | succ q => rw [hc] at hh; simpa [List.replicate_succ] using hh
    refine ⟨L, hL, ?_, ?_, ?_⟩
    · rw [e_sRsp, hg, hv, hrr, hs]; rfl
    · rw [hgL, hg]
      cases hk : (arb s L).cnt with
      | zero => exact absurd hk hK
      | succ k => simp [List.replicate_succ]
    · intro k hk hk2 hh
      rw [e_sRsp, hhead k hk hh] at hk2
      simp only [Bool.and_eq_true] at hk2
      have := hsel k hk
      rw [hk2.2.2] at this
      simpa using this.symm
  · -- owner
    intro j k hj _ hjk a ha b hb
    rcases hjk with h | h
    · cases h
    · subst h
      rw [(hinv.arbs j hj).2.2] at ha hb
      rw [(List.mem_replicate.mp ha).2, (List.mem_replicate.mp hb).2]

/-! #### The invariant after the edge -/

theorem arb_next (j : Nat) (hj : j < c.m) :
    arb (next c rd s x) j = Arb.next c.n (c.gated rd) (arb s j) (fun i => accMS c rd s x i j) (x.ss j) := by
  unfold arb next
  exact getD_map_range' c.m j hj _ _

theorem dcd_next (i : Nat) (hi : i < c.n) :
    dcd (next c rd s x) i = Dec.next (c.decCfg rd) (dcd s i) (x.ms i) (fun j => accSM s x i j) := by
  unfold dcd next
  exact getD_map_range' c.n i hi _ _

/-- Arbiter `j` after the edge: scoreboard entry, bounds, frozen grant. -/
theorem arb_step (j : Nat) (hj : j < c.m) :
    (arb (next c rd s x) j).grant < c.n ∧ (arb (next c rd s x) j).cnt ≤ maxReq - 1 ∧
    fifoNext c rd g x (out c rd s x) j =
      List.replicate (arb (next c rd s x) j).cnt (arb (next c rd s x) j).grant ∧
    ((arb (next c rd s x) j).cnt ≠ 0 → (arb (next c rd s x) j).grant = (arb s j).grant) ∧
    (arb (next c rd s x) j).cnt =
      ctrNext (arb s j).cnt (sReq x (out c rd s x) j) (sDone (c.gated rd) x (out c rd s x) j) := by
  obtain ⟨hg, hle, hgj⟩ := hinv.arbs j hj
  rw [arb_next c rd hd s g x hinv env j hj]
  have hrs : (x.ss j).rValid = true → (arb s j).cnt ≠ 0 := by
    intro hv h0
    have := env.slaveLegal j hj hv
    rw [hgj, h0] at this; exact this rfl
  have hrq : (x.ss j).aReady = true → (arb s j).cnt < maxReq - 1 := by
    intro hr
    have := env.noOverflow j hj hr
    rwa [hgj, List.length_replicate] at this
  obtain ⟨h1, h2⟩ := Arb.fifo_step c.n (c.gated rd) (arb s j) (fun i => accMS c rd s x i j) (x.ss j) hg
    (g j) hgj hrs hrq
  refine ⟨Arb.next_grant_lt _ _ _ _ _ hg, ctrNext_le _ _ _ hle, ?_, h2, rfl⟩
  rw [← h1]
  unfold fifoNext
  have e1 : sDone (c.gated rd) x (out c rd s x) j =
      Arb.response (c.gated rd) (arb s j) (fun i => accMS c rd s x i j) (x.ss j) := rfl
  have e2 : sReq x (out c rd s x) j = Arb.request (arb s j) (fun i => accMS c rd s x i j) (x.ss j) := rfl
  rw [e1]
  cases hq : sReq x (out c rd s x) j
  · rw [← e2, hq]; simp
  · rw [issuers c rd hd s g x hinv env j hj hq, ← e2, hq]

/-- Another arbiter cannot start pointing at master `i` with a non-zero counter. -/
theorem other_arb (i j : Nat) (hj : j < c.m)
    (h1 : (arb s j).cnt ≠ 0 → (arb s j).grant ≠ i)
    (h2 : sReq x (out c rd s x) j = true → (arb s j).grant ≠ i) :
    (arb (next c rd s x) j).cnt ≠ 0 → (arb (next c rd s x) j).grant ≠ i := by
  intro hne
  obtain ⟨_, _, _, hfro, hcnt⟩ := arb_step c rd hd s g x hinv env j hj
  rw [hfro hne]
  by_cases hK : (arb s j).cnt = 0
  · apply h2
    rw [hcnt, hK] at hne
    cases hq : sReq x (out c rd s x) j
    · rw [hq] at hne
      cases hr : sDone (c.gated rd) x (out c rd s x) j <;> rw [hr] at hne
      · exact absurd (ctrNext_none 0) hne
      · exact absurd ctrNext_rsp_zero hne
    · rfl
  · exact h1 hK

/-- Decoder `i` after the edge, relative to the arbiters after the edge. -/
theorem dec_step (i : Nat) (hi : i < c.n) :
    let d' := Dec.next (c.decCfg rd) (dcd s i) (x.ms i) (fun j => accSM s x i j)
    (d'.cnt = 0 → ∀ j, j < c.m → (arb (next c rd s x) j).cnt ≠ 0 → (arb (next c rd s x) j).grant ≠ i) ∧
    (d'.cnt ≠ 0 → ∃ L, L < c.m ∧ (∀ j, j < c.m → d'.selR.getD j false = (j == L)) ∧
        (arb (next c rd s x) L).grant = i ∧ (arb (next c rd s x) L).cnt = d'.cnt ∧
        ∀ j, j < c.m → j ≠ L → (arb (next c rd s x) j).cnt ≠ 0 → (arb (next c rd s x) j).grant ≠ i) := by
  intro d'
  have hdcnt : d'.cnt = ctrNext (dcd s i).cnt (mReq x (out c rd s x) i)
      (((out c rd s x).toM i).rValid && (x.ms i).rReady && (!c.gated rd || ((out c rd s x).toM i).rLast)) := rfl
  -- a request accepted by slave `j` whose arbiter points at `i` is an address handshake of `i`
  have hreq_i : ∀ j, j < c.m → sReq x (out c rd s x) j = true → (arb s j).grant = i →
      mReq x (out c rd s x) i = true ∧ selI c rd s x i j = true := by
    intro j hj h hg
    obtain ⟨_, _, hsel, hm⟩ := sReq_elim c rd hd s g x hinv env j hj h
    rw [hg] at hsel hm
    exact ⟨hm, by rw [hsel j hj]; simp⟩
  by_cases hK : (dcd s i).cnt = 0
  · -- the decoder is idle
    have hidle := hinv.idle i hi hK
    by_cases hq : mReq x (out c rd s x) i = true
    · -- it accepts an address: it locks on `L`, whose arbiter counts the same request
      obtain ⟨L, hL, hsel, hv, hr, hg⟩ := mReq_elim c rd hd s g x hinv env i hi hq
      have hKL : (arb s L).cnt = 0 := by
        by_cases h : (arb s L).cnt = 0
        · exact h
        · exact absurd hg (hidle L hL h)
      have hnv : (x.ss L).rValid = false := by
        cases hv' : (x.ss L).rValid
        · rfl
        · have := env.slaveLegal L hL hv'
          rw [(hinv.arbs L hL).2.2, hKL] at this
          exact absurd rfl this
      have hM := toM_some c rd s x i L hL hsel
      have hd1 : d'.cnt = 1 := by
        rw [hdcnt, hM, hK, hq]
        simp [Arb.toM, hnv, ctrNext, maxReq]
      obtain ⟨_, _, _, hfro, hcnt⟩ := arb_step c rd hd s g x hinv env L hL
      have hsL : selI c rd s x i L = true := by rw [hsel L hL]; simp
      have hsreq : sReq x (out c rd s x) L = true := by
        rw [e_sReq, hg, hv, hsL, hr]; rfl
      have hsdone : sDone (c.gated rd) x (out c rd s x) L = false := by
        unfold sDone; rw [e_sRsp, hnv]; rfl
      have hcL : (arb (next c rd s x) L).cnt = 1 := by
        rw [hcnt, hKL, hsreq, hsdone]; simp [ctrNext, maxReq]
      refine ⟨fun h => absurd (hd1 ▸ h : (1 : Nat) = 0) (by decide), fun _ => ⟨L, hL, ?_, ?_, ?_, ?_⟩⟩
      · intro j hj
        rw [Dec.next_selR_idle (c.decCfg rd) (dcd s i) (x.ms i) _ j hj hK]
        exact hsel j hj
      · rw [hfro (by rw [hcL]; decide), hg]
      · rw [hcL, hd1]
      · intro j hj hne
        apply other_arb c rd hd s g x hinv env i j hj (hidle j hj)
        intro hsr hgj
        have := (hreq_i j hj hsr hgj).2
        rw [hsel j hj] at this
        exact hne (by simpa using this)
    · -- nothing accepted: it stays idle, and no arbiter starts counting for it
      have hq' : mReq x (out c rd s x) i = false := by simpa using hq
      have hd0 : d'.cnt = 0 := by
        rw [hdcnt, hK, hq']
        cases (((out c rd s x).toM i).rValid && (x.ms i).rReady && (!c.gated rd || ((out c rd s x).toM i).rLast))
        · exact ctrNext_none 0
        · exact ctrNext_rsp_zero
      refine ⟨fun _ j hj => ?_, fun h => absurd hd0 h⟩
      apply other_arb c rd hd s g x hinv env i j hj (hidle j hj)
      intro hsr hgj
      have := (hreq_i j hj hsr hgj).1
      rw [hq'] at this; cases this
  · -- the decoder is locked on `L`: its counter moves with arbiter `L`'s
    obtain ⟨L, hL, hR, hg, hcnt, hoth⟩ := hinv.locked i hi hK
    have hsel : ∀ j, j < c.m → selI c rd s x i j = (j == L) := by
      intro j hj
      unfold selI
      rw [Dec.sel_locked (c.decCfg rd) (dcd s i) (x.ms i) j hK]
      exact hR j hj
    have hsL : selI c rd s x i L = true := by rw [hsel L hL]; simp
    have hM := toM_some c rd s x i L hL hsel
    obtain ⟨_, _, _, hfro, hcntL⟩ := arb_step c rd hd s g x hinv env L hL
    have hsame : (arb (next c rd s x) L).cnt = d'.cnt := by
      rw [hcntL, hdcnt, hcnt, hM]
      congr 1
      · rw [e_sReq, hg, hsL]
        unfold mReq
        rw [hM]
        simp only [Arb.toM, hg, beq_self_eq_true, Bool.and_true]
      · unfold sDone
        rw [e_sRsp, hg, hsL]
        simp only [Arb.toM, hg, beq_self_eq_true, Bool.and_true]
    have hothers : ∀ j, j < c.m → j ≠ L →
        (arb (next c rd s x) j).cnt ≠ 0 → (arb (next c rd s x) j).grant ≠ i := by
      intro j hj hne
      apply other_arb c rd hd s g x hinv env i j hj (hoth j hj hne)
      intro hsr hgj
      have := (hreq_i j hj hsr hgj).2
      rw [hsel j hj] at this
      exact hne (by simpa using this)
    refine ⟨fun hz j hj => ?_, fun hnz => ⟨L, hL, ?_, ?_, hsame, hothers⟩⟩
    · by_cases hjl : j = L
      · subst hjl
        intro h; rw [hsame] at h; exact absurd hz h
      · exact hothers j hj hjl
    · intro j hj
      rw [Dec.next_selR_locked (c.decCfg rd) (dcd s i) (x.ms i) _ hK]
      exact hR j hj
    · rw [hfro (by rw [hsame]; exact hnz), hg]

theorem inv_next : Inv c (next c rd s x) (fifoNext c rd g x (out c rd s x)) := by
  refine ⟨?_, ?_, ?_⟩
  · intro j hj
    obtain ⟨a, b, e, _, _⟩ := arb_step c rd hd s g x hinv env j hj
    exact ⟨a, b, e⟩
  · -- a decoder whose counter is zero after the edge
    intro i hi hz j hj
    rw [dcd_next c rd hd s g x hinv env i hi] at hz
    exact (dec_step c rd hd s g x hinv env i hi).1 hz j hj
  · intro i hi hnz
    rw [dcd_next c rd hd s g x hinv env i hi] at hnz
    obtain ⟨L, hL, h1, h2, h3, h4⟩ := (dec_step c rd hd s g x hinv env i hi).2 hnz
    refine ⟨L, hL, ?_, h2, ?_, h4⟩
    · rw [dcd_next c rd hd s g x hinv env i hi]; exact h1
    · rw [dcd_next c rd hd s g x hinv env i hi]; exact h3

end step

theorem arb_init (j : Nat) : arb (init c rd) j = {} := by
  unfold arb init
  simp only [List.getD_eq_getElem?_getD, List.getElem?_replicate]
  split <;> rfl

theorem dcd_init_cnt (i : Nat) : (dcd (init c rd) i).cnt = 0 := by
  unfold dcd init
  simp only [List.getD_eq_getElem?_getD, List.getElem?_replicate]
  split <;> rfl

theorem inv_reset (hn : 0 < c.n) : Inv c (init c rd) Fifo.empty := by
  refine ⟨?_, ?_, ?_⟩
  · intro j _
    rw [arb_init]
    exact ⟨hn, Nat.zero_le _, rfl⟩
  · intro i _ _ j _ h
    rw [arb_init] at h
    exact absurd rfl h
  · intro i _ h
    exact absurd (dcd_init_cnt c rd i) h

/-- One step of the crossbar. -/
theorem step (hd : Disjoint c) (s : XbDir) (g : Fifo) (x : DirIn) (hinv : Inv c s g) (env : EnvOK c g x) :
    RouteOK c false g x (out c rd s x) ∧ Inv c (next c rd s x) (fifoNext c rd g x (out c rd s x)) :=
  ⟨route_ok c rd hd s g x hinv env, inv_next c rd hd s g x hinv env⟩

theorem holds_of_inv (hd : Disjoint c) :
    ∀ (ins : List DirIn) (s : XbDir) (g : Fifo), Inv c s g → Holds (machine c rd) c rd false s g ins := by
  intro ins
  induction ins with
  | nil => intro s g _; trivial
  | cons x xs ih =>
    intro s g hinv env
    obtain ⟨hr, hinv'⟩ := step c rd hd s g x hinv env
    exact ⟨hr, ih _ _ hinv'⟩

end Crossbar
end Litex.Axi.Lite
