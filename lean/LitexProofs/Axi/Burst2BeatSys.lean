import LitexProofs.Axi.Burst2Beat
/-
  `AXIBurst2Beat` driven by a protocol-legal master: inductive invariant and the per-cycle history equations.
-/
namespace Litex.Axi

/-- Inductive invariant: idle ⇒ registers at reset; a held request is legal and the registers are in the closed
    form for the number of beats delivered so far. -/
def SysInv (caps : Caps) (aw : Nat) (s : SysState) : Prop :=
  match s.held with
  | none => s.b = b2bInit
  | some r => Legal aw r (effBurst caps r.burst) ∧ s.b.count ≤ r.len ∧
              s.b = expState (effBurst caps r.burst) r s.b.count

theorem specPrefixC_succ (caps : Caps) (r : Req) (k : Nat) :
    specPrefixC caps r (k + 1) =
      specPrefixC caps r k ++ [(specBeat r (effBurst caps r.burst) k).atSize r.size] := by
  simp [specPrefixC, List.range_succ]

/-- The master presents the legal request `r` while the registers are in the closed form for `k` beats. -/
theorem drive_step (caps : Caps) (aw : Nat) (haw : 12 ≤ aw) (r : Req) (k : Nat) (ready : Bool)
    (hleg : Legal aw r (effBurst caps r.burst)) (hk : k ≤ r.len) :
    let b := expState (effBurst caps r.burst) r k
    let d : B2BIn := ⟨true, r, ready⟩
    (b2bOut aw b d).beatValid = true ∧
    (b2bOut aw b d).burstReady = (ready && k == r.len) ∧
    (b2bOut aw b d).beat.atSize r.size = (specBeat r (effBurst caps r.burst) k).atSize r.size ∧
    b2bNext caps aw b d = if ready = true then (if k = r.len then b2bInit else expState (effBurst caps r.burst) r (k + 1)) else b := by
  intro b d
  have S := beat_step caps aw haw r k hleg hk
  refine ⟨by simp [b2bOut, d], by simp [b2bOut, b2bLast, b, d, expState], ?_, ?_⟩
  · simp only [Beat.atSize, b2bOut, specBeat, b2bFirst, b2bLast, b, d, expState]
    have := S.addr
    simp only [expState] at this
    rw [this]
  · cases ready with
    | false => simp [b2bNext, b2bNextCore, d]
    | true =>
      simp only [if_true]
      by_cases hkl : k = r.len
      · rw [if_pos hkl]; exact S.next_last hkl true (by simp)
      · rw [if_neg hkl]; exact S.next_more (by omega) true (by simp)

/-- One clock cycle: the invariant is preserved and the three history equations advance. -/
theorem sys_step (caps : Caps) (aw : Nat) (haw : 12 ≤ aw) (s : SysState) (i : SysIn)
    (hinv : SysInv caps aw s) (hoff : ∀ r ∈ sysOfferNow s i, Legal aw r (effBurst caps r.burst)) :
    SysInv caps aw (sysNext caps aw s i) ∧
    sysPending caps s ++ sysBeatNow aw s i
      = (sysConsNow aw s i).flatMap (specBeatsC caps) ++ sysPending caps (sysNext caps aw s i) ∧
    s.held.toList ++ sysOfferNow s i = sysConsNow aw s i ++ (sysNext caps aw s i).held.toList ∧
    (sysConsNow aw s i ≠ [] ↔ ∃ b, sysBeatNow aw s i = [b] ∧ b.last = true) := by
  obtain ⟨b, held⟩ := s
  obtain ⟨go, req, ready⟩ := i
  -- common part: the master drives the legal request `r`, registers in closed form for `k` beats
  have main : ∀ (r : Req) (k : Nat), Legal aw r (effBurst caps r.burst) → k ≤ r.len →
      b = expState (effBurst caps r.burst) r k →
      (SysState.drive ⟨b, held⟩ ⟨go, req, ready⟩) = ⟨true, r, ready⟩ →
      SysInv caps aw (sysNext caps aw ⟨b, held⟩ ⟨go, req, ready⟩) ∧
      specPrefixC caps r k ++ sysBeatNow aw ⟨b, held⟩ ⟨go, req, ready⟩
        = (sysConsNow aw ⟨b, held⟩ ⟨go, req, ready⟩).flatMap (specBeatsC caps)
            ++ sysPending caps (sysNext caps aw ⟨b, held⟩ ⟨go, req, ready⟩) ∧
      [r] = sysConsNow aw ⟨b, held⟩ ⟨go, req, ready⟩ ++ (sysNext caps aw ⟨b, held⟩ ⟨go, req, ready⟩).held.toList ∧
      (sysConsNow aw ⟨b, held⟩ ⟨go, req, ready⟩ ≠ [] ↔
        ∃ bt, sysBeatNow aw ⟨b, held⟩ ⟨go, req, ready⟩ = [bt] ∧ bt.last = true) := by
    intro r k hleg hk hb hd
    obtain ⟨h1, h2, h3, h4⟩ := drive_step caps aw haw r k ready hleg hk
    rw [← hb] at h1 h2 h3 h4
    have hlast : (b2bOut aw b ⟨true, r, ready⟩).beat.last = (k == r.len) := by
      simp [b2bOut, b2bLast, hb, expState]
    simp only [sysNext, sysBeatNow, sysConsNow, sysOut, hd, h1, h2, h4, Bool.true_and]
    cases ready with
    | false =>
      simp only [Bool.false_and, Bool.not_false, if_true, Bool.false_eq_true, if_false]
      refine ⟨?_, ?_, ?_, ?_⟩
      · simp only [SysInv]
        rw [hb]
        exact ⟨hleg, hk, rfl⟩
      · simp [sysPending, hb, expState]
      · simp
      · simp
    | true =>
      by_cases hkl : k = r.len
      · have hkb : (k == r.len) = true := by simpa using hkl
        simp only [hkb, Bool.and_self, Bool.not_true, if_true, if_pos hkl, Bool.false_eq_true, if_false]
        refine ⟨?_, ?_, ?_, ?_⟩
        · simp [SysInv]
        · simp only [List.flatMap_cons, List.flatMap_nil, List.append_nil, sysPending]
          rw [specBeatsC, ← hkl, specPrefixC_succ, h3]
        · simp
        · simp [Beat.atSize, hlast, hkb]
      · have hkb : (k == r.len) = false := by simpa using hkl
        simp only [hkb, Bool.and_false, Bool.not_false, if_true, if_neg hkl, Bool.false_eq_true, if_false]
        refine ⟨?_, ?_, ?_, ?_⟩
        · simp only [SysInv]
          exact ⟨hleg, by simp [expState]; omega, by simp [expState]⟩
        · simp only [List.flatMap_nil, List.nil_append, sysPending]
          rw [show (expState (effBurst caps r.burst) r (k + 1)).count = k + 1 from rfl, specPrefixC_succ, h3]
        · simp
        · simp [Beat.atSize, hlast, hkb]
  cases held with
  | some r =>
    obtain ⟨hleg, hk, hb⟩ := hinv
    simp only at hleg hk hb
    have := main r b.count hleg hk hb rfl
    simpa [sysPending, sysOfferNow] using this
  | none =>
    simp only [SysInv] at hinv
    cases go with
    | false =>
      subst hinv
      simp [sysNext, sysBeatNow, sysConsNow, sysOfferNow, sysOut, SysState.drive, b2bOut, b2bNext, b2bNextCore,
        b2bFirst, b2bInit, SysInv, sysPending]
    | true =>
      have hleg : Legal aw req (effBurst caps req.burst) := hoff req (by simp [sysOfferNow])
      have hb : b = expState (effBurst caps req.burst) req 0 := by rw [expState_zero]; exact hinv
      have := main req 0 hleg (Nat.zero_le _) hb rfl
      simpa [sysPending, sysOfferNow, specPrefixC] using this

/-- The history equations for a whole run from any state satisfying the invariant. -/
theorem sys_run (caps : Caps) (aw : Nat) (haw : 12 ≤ aw) :
    ∀ (ins : List SysIn) (s : SysState), SysInv caps aw s →
      (∀ r ∈ sysOffered caps aw s ins, Legal aw r (effBurst caps r.burst)) →
      SysInv caps aw ((sys caps aw).runFrom s ins) ∧
      sysPending caps s ++ sysBeats caps aw s ins
        = (sysConsumed caps aw s ins).flatMap (specBeatsC caps) ++ sysPending caps ((sys caps aw).runFrom s ins) ∧
      s.held.toList ++ sysOffered caps aw s ins
        = sysConsumed caps aw s ins ++ ((sys caps aw).runFrom s ins).held.toList := by
  intro ins
  induction ins with
  | nil => intro s h _; simp [Machine.runFrom, sysBeats, sysConsumed, sysOffered, h]
  | cons i is ih =>
    intro s hinv hoff
    have hoff1 : ∀ r ∈ sysOfferNow s i, Legal aw r (effBurst caps r.burst) :=
      fun r hr => hoff r (by simp [sysOffered, hr])
    have hoff2 : ∀ r ∈ sysOffered caps aw (sysNext caps aw s i) is, Legal aw r (effBurst caps r.burst) :=
      fun r hr => hoff r (by simp [sysOffered, hr])
    obtain ⟨a1, a2, a3, _⟩ := sys_step caps aw haw s i hinv hoff1
    obtain ⟨b1, b2, b3⟩ := ih (sysNext caps aw s i) a1 hoff2
    refine ⟨b1, ?_, ?_⟩
    · show sysPending caps s ++ (sysBeatNow aw s i ++ sysBeats caps aw (sysNext caps aw s i) is) = _
      rw [← List.append_assoc, a2, List.append_assoc, b2]
      simp [sysConsumed, Machine.runFrom, sys, List.flatMap_append]
    · show s.held.toList ++ (sysOfferNow s i ++ sysOffered caps aw (sysNext caps aw s i) is) = _
      rw [← List.append_assoc, a3, List.append_assoc, b3]
      simp [sysConsumed, Machine.runFrom, sys]

theorem sysOffered_snoc (caps : Caps) (aw : Nat) (i : SysIn) : ∀ (l : List SysIn) (s0 : SysState),
    sysOffered caps aw s0 (l ++ [i]) = sysOffered caps aw s0 l ++ sysOfferNow ((sys caps aw).runFrom s0 l) i := by
  intro l
  induction l with
  | nil => intro s0; simp [sysOffered, Machine.runFrom]
  | cons x xs ih => intro s0; simp [sysOffered, Machine.runFrom, ih, sys]

/-- In a state satisfying the invariant, whenever the master drives `valid` the request on the lines is legal and
    the registers are in the closed form for `beat_count` beats of it. -/
theorem drive_inv (caps : Caps) (aw : Nat) (s : SysState) (i : SysIn) (hinv : SysInv caps aw s)
    (hoff : ∀ r ∈ sysOfferNow s i, Legal aw r (effBurst caps r.burst)) (hv : (s.drive i).valid = true) :
    Legal aw (s.drive i).req (effBurst caps (s.drive i).req.burst) ∧ s.b.count ≤ (s.drive i).req.len ∧
    s.b = expState (effBurst caps (s.drive i).req.burst) (s.drive i).req s.b.count ∧
    s.drive i = ⟨true, (s.drive i).req, i.ready⟩ := by
  obtain ⟨b, held⟩ := s
  obtain ⟨go, req, ready⟩ := i
  cases held with
  | some r =>
    obtain ⟨hleg, hk, hb⟩ := hinv
    exact ⟨hleg, hk, hb, rfl⟩
  | none =>
    have hb : b = b2bInit := hinv
    have hgo : go = true := hv
    subst hgo
    have hleg : Legal aw req (effBurst caps req.burst) := hoff req (by simp [sysOfferNow])
    subst hb
    refine ⟨hleg, Nat.zero_le _, ?_, rfl⟩
    show b2bInit = expState _ req 0
    rw [expState_zero]

/-- In a state satisfying the invariant a beat is offered exactly when the master drives a request. -/
theorem beatValid_eq_valid (caps : Caps) (aw : Nat) (s : SysState) (i : SysIn) (hinv : SysInv caps aw s) :
    (sysOut aw s i).beatValid = (s.drive i).valid := by
  obtain ⟨b, held⟩ := s
  obtain ⟨go, req, ready⟩ := i
  cases held with
  | some r => simp [sysOut, b2bOut, SysState.drive]
  | none =>
    have hb : b = b2bInit := hinv
    subst hb
    simp [sysOut, b2bOut, SysState.drive, b2bFirst, b2bInit]

end Litex.Axi
