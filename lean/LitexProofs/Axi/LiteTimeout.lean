import LitexModel.Axi.LiteInterconnectTimeout
/-
  C08 x C11: on a healthy bus the shared interconnect with a finite timeout is the timeout-less one.
-/
namespace Litex.Axi.Lite
open Litex
open Litex.Timeout.Axi (FState)

theorem Dec.nextWith_toM (c : DecCfg) (s : DecState) (ms : DMS) (ss : Nat → DSM) :
    Dec.nextWith c s ms (Dec.toM c s ms ss) = Dec.next c s ms ss := rfl

namespace SharedT
variable (c : TCfg) (rd : Bool)

/-- While the watchdog FSM is in WAIT the bus is the decoder's. -/
theorem busSM_wait (s : ShTDir) (x : DirIn) (h : s.tm.respond = false) :
    busSM c rd s x = Shared.busSM c.toCfg rd s.sh x := by
  unfold busSM
  cases rd
  · simp [Timeout.Axi.wOut, h, wIn, pre]
  · simp [Timeout.Axi.rOut, h, rIn', pre]

theorem out_wait (s : ShTDir) (x : DirIn) (h : s.tm.respond = false) :
    out c rd s x = Shared.out c.toCfg rd s.sh x := by
  unfold out Shared.out
  rw [busSM_wait c rd s x h]

theorem next_sh_wait (s : ShTDir) (x : DirIn) (h : s.tm.respond = false) :
    (next c rd s x).sh = Shared.next c.toCfg rd s.sh x := by
  show ({ arb := _, dec := _ } : ShDir) = _
  rw [busSM_wait c rd s x h]
  rfl

theorem waits_eq (s : ShTDir) (x : DirIn) : waits c rd s x = Shared.stalled c.toCfg rd s.sh x := by
  unfold waits Shared.stalled
  cases rd <;> rfl

/-- One healthy step: the FSM stays in WAIT and the timer tracks the stall streak. -/
theorem tm_step (s : ShTDir) (x : DirIn) (k : Nat) (h : s.tm.respond = false) (hc : s.tm.count = c.t - min c.t k)
    (hk : Shared.stalled c.toCfg rd s.sh x = true → k < c.t) :
    (next c rd s x).tm.respond = false ∧
    (next c rd s x).tm.count = c.t - min c.t (if Shared.stalled c.toCfg rd s.sh x then k + 1 else 0) := by
  have hw := waits_eq c rd s x
  cases hst : Shared.stalled c.toCfg rd s.sh x
  · -- not stalled: the timer reloads
    rw [hst] at hw
    cases rd
    · have hwc : Timeout.Axi.wWaitCond (wIn c false s x) = false := hw
      refine ⟨?_, ?_⟩
      · show (Timeout.Axi.wNext c.t s.tm (wIn c false s x)).respond = false
        simp [Timeout.Axi.wNext, h, hwc]
      · show (Timeout.Axi.wNext c.t s.tm (wIn c false s x)).count = _
        simp [Timeout.Axi.wNext, Timeout.Axi.wWait, h, hwc, WaitTimer.next]
    · have hwc : Timeout.Axi.rWaitCond (rIn' c true s x) = false := hw
      refine ⟨?_, ?_⟩
      · show (Timeout.Axi.rNext c.full c.dw c.t s.tm (rIn' c true s x)).respond = false
        simp [Timeout.Axi.rNext, h, hwc]
      · show (Timeout.Axi.rNext c.full c.dw c.t s.tm (rIn' c true s x)).count = _
        simp [Timeout.Axi.rNext, Timeout.Axi.rWait, h, hwc, WaitTimer.next]
  · -- stalled: the streak is below t, the timer has not expired
    rw [hst] at hw
    have hlt := hk hst
    have hcnt : s.tm.count = c.t - k := by rw [hc, Nat.min_eq_right (Nat.le_of_lt hlt)]
    have hne : (s.tm.count == 0) = false := by
      rw [hcnt]; simp; omega
    have hdone : WaitTimer.done s.tm.count = false := hne
    cases rd
    · have hwc : Timeout.Axi.wWaitCond (wIn c false s x) = true := hw
      refine ⟨?_, ?_⟩
      · show (Timeout.Axi.wNext c.t s.tm (wIn c false s x)).respond = false
        simp [Timeout.Axi.wNext, h, hdone]
      · show (Timeout.Axi.wNext c.t s.tm (wIn c false s x)).count = _
        simp only [Timeout.Axi.wNext, Timeout.Axi.wWait, h, hwc, WaitTimer.next, hdone, Bool.not_false,
          Bool.true_and, if_true, Bool.false_eq_true, if_false]
        rw [hcnt]; omega
    · have hwc : Timeout.Axi.rWaitCond (rIn' c true s x) = true := hw
      refine ⟨?_, ?_⟩
      · show (Timeout.Axi.rNext c.full c.dw c.t s.tm (rIn' c true s x)).respond = false
        simp [Timeout.Axi.rNext, h, hdone]
      · show (Timeout.Axi.rNext c.full c.dw c.t s.tm (rIn' c true s x)).count = _
        simp only [Timeout.Axi.rNext, Timeout.Axi.rWait, h, hwc, WaitTimer.next, hdone, Bool.not_false,
          Bool.true_and, if_true, Bool.false_eq_true, if_false]
        rw [hcnt]; omega

/-- **On a healthy bus the fabric with a finite timeout IS the timeout-less fabric**: same outputs in every cycle,
    same arbiter/decoder registers afterwards, watchdog still in WAIT. -/
theorem transparent : ∀ (ins : List DirIn) (s : ShTDir) (k : Nat),
    s.tm.respond = false → s.tm.count = c.t - min c.t k → Shared.Healthy c.toCfg rd c.t s.sh k ins →
    (machine c rd).traceFrom s ins = (Shared.machine c.toCfg rd).traceFrom s.sh ins ∧
    ((machine c rd).runFrom s ins).sh = (Shared.machine c.toCfg rd).runFrom s.sh ins ∧
    ((machine c rd).runFrom s ins).tm.respond = false := by
  intro ins
  induction ins with
  | nil => intro s k h _ _; exact ⟨rfl, rfl, h⟩
  | cons x xs ih =>
    intro s k h hc hh
    obtain ⟨hk, hrest⟩ := hh
    obtain ⟨h', hc'⟩ := tm_step c rd s x k h hc hk
    have hsh := next_sh_wait c rd s x h
    have := ih (next c rd s x) _ h' hc' (by rw [hsh]; exact hrest)
    rw [hsh] at this
    refine ⟨?_, this.2.1, this.2.2⟩
    show out c rd s x :: (machine c rd).traceFrom (next c rd s x) xs = _
    rw [out_wait c rd s x h, this.1]
    rfl

end SharedT
end Litex.Axi.Lite
