import LitexProofs.Axi.Burst2BeatArith
/- WRAP lengths 8 and 16 (split from Burst2BeatArith to keep each file fast), and the combined statement. -/
namespace Litex.Axi

theorem wrap_facts_7 (A S k Q : Nat) (hS : S < 8) (hA : A < 4096 * Q) (hal : A % 2 ^ S = 0) (hk : k ≤ 7) :
    WrapFacts A 7 S k Q := by
  wrap_facts_tac hS hal k

theorem wrap_facts_15 (A S k Q : Nat) (hS : S < 8) (hA : A < 4096 * Q) (hal : A % 2 ^ S = 0) (hk : k ≤ 15) :
    WrapFacts A 15 S k Q := by
  wrap_facts_tac hS hal k

theorem wrap_facts (A L S k Q : Nat) (hS : S < 8) (hL : L = 1 ∨ L = 3 ∨ L = 7 ∨ L = 15) (hA : A < 4096 * Q)
    (hal : A % 2 ^ S = 0) (hk : k ≤ L) : WrapFacts A L S k Q := by
  rcases hL with rfl | rfl | rfl | rfl
  · exact wrap_facts_1 A S k Q hS hA hal hk
  · exact wrap_facts_3 A S k Q hS hA hal hk
  · exact wrap_facts_7 A S k Q hS hA hal hk
  · exact wrap_facts_15 A S k Q hS hA hal hk

end Litex.Axi
