import LitexProofs.Axi.LiteBasic
import LitexProofs.RoundRobin
/-
  C08, shared interconnect (one direction): the inductive invariant tying the registers (`grant`, the two
  counters, `slave_sel_reg`) to the routing scoreboard, and the one-step assume/guarantee lemma.
-/
namespace Litex.Axi.Lite
namespace Shared
variable (c : Cfg) (rd : Bool)

/-- `slave_sel[j]` in this cycle. -/
def selOf (s : ShDir) (x : DirIn) (j : Nat) : Bool := Dec.sel (c.decCfg rd) s.dec (bus s x) j

/-- Registers vs scoreboard. -/
structure Inv (s : ShDir) (g : Fifo) : Prop where
  grant_lt : s.arb.grant < c.n
  cnt_eq   : s.dec.cnt = s.arb.cnt
  cnt_le   : s.arb.cnt ≤ maxReq - 1
  idle     : s.arb.cnt = 0 → ∀ j, j < c.m → g j = []
  locked   : s.arb.cnt ≠ 0 → ∃ L, L < c.m ∧ (∀ j, j < c.m → s.dec.selR.getD j false = (j == L)) ∧
               g L = List.replicate s.arb.cnt s.arb.grant ∧ ∀ j, j < c.m → j ≠ L → g j = []

/-- The decoder's answer on the bus when exactly slave `L` is selected: slave `L`'s signals. -/
theorem busSM_some (s : ShDir) (x : DirIn) (L : Nat) (hL : L < c.m)
    (hsel : ∀ j, j < c.m → selOf c rd s x j = (j == L)) : busSM c rd s x = x.ss L := by
  have hne : ∀ j, j < c.m → j ≠ L → selOf c rd s x j = false := by
    intro j hj hne; rw [hsel j hj]; simpa using hne
  have hLL : selOf c rd s x L = true := by rw [hsel L hL]; simp
  unfold busSM Dec.toM
  have e1 : ∀ (f : Nat → Bool), orAll c.m (fun j => f j && selOf c rd s x j) = f L := by
    intro f
    rw [orAll_onehot c.m L hL _ (fun j hj hn => by simp [hne j hj hn])]
    simp [hLL]
  have e2 : orDat c.m (fun j => gate (selOf c rd s x j) (x.ss j).rPay) = (x.ss L).rPay := by
    rw [orDat_onehot c.m L hL _ (fun j hj hn => by simp [hne j hj hn, gate])]
    simp [hLL, gate]
  show ({ aReady := orAll (c.decCfg rd).m fun j => (x.ss j).aReady && selOf c rd s x j,
          dReady := orAll (c.decCfg rd).m fun j => (x.ss j).dReady && selOf c rd s x j,
          rValid := orAll (c.decCfg rd).m fun j => (x.ss j).rValid && selOf c rd s x j,
          rLast := orAll (c.decCfg rd).m fun j => (x.ss j).rLast && selOf c rd s x j,
          rPay := orDat (c.decCfg rd).m fun j => gate (selOf c rd s x j) (x.ss j).rPay } : DSM) = x.ss L
  show ({ aReady := orAll c.m fun j => (x.ss j).aReady && selOf c rd s x j,
          dReady := orAll c.m fun j => (x.ss j).dReady && selOf c rd s x j,
          rValid := orAll c.m fun j => (x.ss j).rValid && selOf c rd s x j,
          rLast := orAll c.m fun j => (x.ss j).rLast && selOf c rd s x j,
          rPay := orDat c.m fun j => gate (selOf c rd s x j) (x.ss j).rPay } : DSM) = x.ss L
  rw [e1 (fun j => (x.ss j).aReady), e1 (fun j => (x.ss j).dReady), e1 (fun j => (x.ss j).rValid),
      e1 (fun j => (x.ss j).rLast), e2]

/-- … and when no slave is selected: nothing. -/
theorem busSM_none (s : ShDir) (x : DirIn)
    (hsel : ∀ j, j < c.m → selOf c rd s x j = false) : busSM c rd s x = {} := by
  have e1 : ∀ (f : Nat → Bool), orAll c.m (fun j => f j && selOf c rd s x j) = false := by
    intro f
    exact orAll_false c.m _ (fun j hj => by simp [hsel j hj])
  have e2 : orDat c.m (fun j => gate (selOf c rd s x j) (x.ss j).rPay) = 0 :=
    orDat_zero c.m _ (fun j hj => by simp [hsel j hj, gate])
  show ({ aReady := orAll c.m fun j => (x.ss j).aReady && selOf c rd s x j,
          dReady := orAll c.m fun j => (x.ss j).dReady && selOf c rd s x j,
          rValid := orAll c.m fun j => (x.ss j).rValid && selOf c rd s x j,
          rLast := orAll c.m fun j => (x.ss j).rLast && selOf c rd s x j,
          rPay := orDat c.m fun j => gate (selOf c rd s x j) (x.ss j).rPay } : DSM) = {}
  rw [e1 (fun j => (x.ss j).aReady), e1 (fun j => (x.ss j).dReady), e1 (fun j => (x.ss j).rValid),
      e1 (fun j => (x.ss j).rLast), e2]

/-- The grant of an arbiter direction does not move in a cycle in which its counter is non-zero or the owner drives
    an address/data valid or the target drives a response valid. -/
theorem grant_frozen (n : Nat) (gated : Bool) (s : ArbState) (ms : Nat → DMS) (sm : DSM)
    (hg : s.grant < n)
    (h : s.cnt ≠ 0 ∨ (ms s.grant).aValid = true ∨ (ms s.grant).dValid = true ∨ sm.rValid = true) :
    (Arb.next n gated s ms sm).grant = s.grant := by
  have hce : Arb.ce s ms sm = false := by
    unfold Arb.ce Arb.tgt ctrEmpty
    rcases h with h | h | h | h
    · have : (s.cnt == 0) = false := by simpa using h
      simp [this]
    · simp [h]
    · simp [h]
    · simp [h]
  simp only [Arb.next, hce]
  exact RoundRobin.next_ce_hold _ hg

theorem toS_eq (s : ShDir) (x : DirIn) (L j : Nat) (hj : j < c.m)
    (hsel : ∀ j, j < c.m → selOf c rd s x j = (j == L)) :
    (out c rd s x).toS j = { bus s x with aValid := (bus s x).aValid && (j == L),
                                          dValid := (bus s x).dValid && (j == L),
                                          rReady := (bus s x).rReady && (j == L) } := by
  show Dec.toS (c.decCfg rd) s.dec (bus s x) j = _
  unfold Dec.toS
  have : Dec.sel (c.decCfg rd) s.dec (bus s x) j = (j == L) := hsel j hj
  rw [this]

theorem toM_eq (s : ShDir) (x : DirIn) (L i : Nat) (hL : L < c.m)
    (hsel : ∀ j, j < c.m → selOf c rd s x j = (j == L)) :
    (out c rd s x).toM i = Arb.toM s.arb (x.ss L) i := by
  show Arb.toM s.arb (busSM c rd s x) i = _
  rw [busSM_some c rd s x L hL hsel]

/-- One step with exactly slave `L` selected. -/
theorem step_some (s : ShDir) (g : Fifo) (x : DirIn) (L : Nat) (hL : L < c.m) (hinv : Inv c s g)
    (hsel : ∀ j, j < c.m → selOf c rd s x j = (j == L))
    (hgL : g L = List.replicate s.arb.cnt s.arb.grant) (hoth : ∀ j, j < c.m → j ≠ L → g j = [])
    (hroute : (bus s x).aValid = true → routes c L (bus s x).aAddr = true)
    (hselR' : ∀ j, j < c.m → (next c rd s x).dec.selR.getD j false = (j == L))
    (env : EnvOK c g x) :
    RouteOK c true g x (out c rd s x) ∧ Inv c (next c rd s x) (fifoNext c rd g x (out c rd s x)) := by
  -- abbreviations
  have hG := hinv.grant_lt
  have hM : ∀ i, (out c rd s x).toM i = Arb.toM s.arb (x.ss L) i := fun i => toM_eq c rd s x L i hL hsel
  have hS : ∀ j, j < c.m → (out c rd s x).toS j = _ := fun j hj => toS_eq c rd s x L j hj hsel
  have hbus : bus s x = x.ms s.arb.grant := rfl
  -- events
  have e_mReq : ∀ i, mReq x (out c rd s x) i = ((x.ms i).aValid && ((x.ss L).aReady && (s.arb.grant == i))) := by
    intro i; simp only [mReq, hM, Arb.toM]
  have e_mRsp : ∀ i, mRsp x (out c rd s x) i = (((x.ss L).rValid && (s.arb.grant == i)) && (x.ms i).rReady) := by
    intro i; simp only [mRsp, hM, Arb.toM]
  have e_sReq : ∀ j, j < c.m → sReq x (out c rd s x) j = (((bus s x).aValid && (j == L)) && (x.ss j).aReady) := by
    intro j hj; simp only [sReq, hS j hj]
  have e_sRsp : ∀ j, j < c.m → sRsp x (out c rd s x) j = ((x.ss j).rValid && ((bus s x).rReady && (j == L))) := by
    intro j hj; simp only [sRsp, hS j hj]
  have hlen : (g L).length = s.arb.cnt := by rw [hgL]; simp
  have hK_of_valid : (x.ss L).rValid = true → s.arb.cnt ≠ 0 := by
    intro hv h0
    have := env.slaveLegal L hL hv
    rw [hgL, h0] at this
    exact this rfl
  have hhead : s.arb.cnt ≠ 0 → (g L).head? = some s.arb.grant := by
    intro h
    rw [hgL]
    cases hk : s.arb.cnt with
    | zero => exact absurd hk h
    | succ k => simp [List.replicate_succ]
  -- issuers of an address handshake at L
  have hiss : (bus s x).aValid = true → (x.ss L).aReady = true →
      issuersTo c x (out c rd s x) L = [s.arb.grant] := by
    intro hv hr
    unfold issuersTo
    apply filter_range_single c.n s.arb.grant hG
    · rw [e_mReq, ← hbus, hv, hr, hroute hv]; simp
    · intro i _ hne
      rw [e_mReq]
      have : (s.arb.grant == i) = false := by simpa using fun e => hne e.symm
      simp [this]
  refine ⟨⟨?_, ?_, ?_, ?_, ?_⟩, ?_⟩
  · -- addr_m
    intro i hi h
    rw [e_mReq] at h
    simp only [Bool.and_eq_true, beq_iff_eq] at h
    obtain ⟨hv, hr, hgi⟩ := h
    subst hgi
    refine ⟨L, hL, hroute hv, ?_⟩
    rw [e_sReq L hL, hbus, hv, hr]; simp
  · -- addr_s
    intro j hj h
    rw [e_sReq j hj] at h
    simp only [Bool.and_eq_true, beq_iff_eq] at h
    obtain ⟨⟨hv, hjL⟩, hr⟩ := h
    subst hjL
    refine ⟨s.arb.grant, hG, hiss hv hr, ?_, ?_⟩ <;> (rw [hS j hj]; rfl)
  · -- resp_s
    intro j hj h
    rw [e_sRsp j hj] at h
    simp only [Bool.and_eq_true, beq_iff_eq] at h
    obtain ⟨hv, hr, hjL⟩ := h
    subst hjL
    refine ⟨s.arb.grant, hG, hhead (hK_of_valid hv), ?_, ?_, ?_⟩
    · rw [e_mRsp, hv, ← hbus, hr]; simp
    · rw [hM]; rfl
    · rw [hM]; rfl
  · -- resp_m
    intro i hi h
    rw [e_mRsp] at h
    simp only [Bool.and_eq_true, beq_iff_eq] at h
    obtain ⟨⟨hv, hgi⟩, hr⟩ := h
    subst hgi
    refine ⟨L, hL, ?_, hhead (hK_of_valid hv), ?_⟩
    · rw [e_sRsp L hL, hv, hbus, hr]; simp
    · intro k hk hk2 _
      rw [e_sRsp k hk] at hk2
      simp only [Bool.and_eq_true, beq_iff_eq] at hk2
      exact hk2.2.2
  · -- owner
    intro j k hj hk _ a ha b hb
    have mem : ∀ j, j < c.m → ∀ a, a ∈ g j → a = s.arb.grant := by
      intro j hj a ha
      by_cases hjl : j = L
      · subst hjl; rw [hgL] at ha; exact (List.mem_replicate.mp ha).2
      · rw [hoth j hj hjl] at ha; cases ha
    rw [mem j hj a ha, mem k hk b hb]
  · -- the invariant after the edge
    -- request / response on the bus, as both counters see them
    have hsm : busSM c rd s x = x.ss L := busSM_some c rd s x L hL hsel
    let rq := (bus s x).aValid && (x.ss L).aReady
    let rs := (x.ss L).rValid && (bus s x).rReady && (!c.gated rd || (x.ss L).rLast)
    have hacnt : (next c rd s x).arb.cnt = ctrNext s.arb.cnt rq rs := by
      show ctrNext s.arb.cnt (Arb.request s.arb x.ms (busSM c rd s x)) (Arb.response (c.gated rd) s.arb x.ms (busSM c rd s x)) = _
      rw [hsm]; rfl
    have hdcnt : (next c rd s x).dec.cnt = ctrNext s.arb.cnt rq rs := by
      show ctrNext s.dec.cnt (Dec.request (c.decCfg rd) s.dec (bus s x) x.ss) (Dec.response (c.decCfg rd) s.dec (bus s x) x.ss) = _
      rw [hinv.cnt_eq]
      have h1 : Dec.toM (c.decCfg rd) s.dec (bus s x) x.ss = x.ss L := hsm
      unfold Dec.request Dec.response
      rw [h1]; rfl
    have hgrant : (s.arb.cnt ≠ 0 ∨ (bus s x).aValid = true ∨ (x.ss L).rValid = true) →
        (next c rd s x).arb.grant = s.arb.grant := by
      intro h
      show (Arb.next c.n (c.gated rd) s.arb x.ms (busSM c rd s x)).grant = _
      rw [hsm]
      apply grant_frozen c.n (c.gated rd) s.arb x.ms (x.ss L) hG
      rcases h with h | h | h
      · exact Or.inl h
      · exact Or.inr (Or.inl h)
      · exact Or.inr (Or.inr (Or.inr h))
    have hgrant_lt : (next c rd s x).arb.grant < c.n := by
      show RoundRobin.next .ce c.n s.arb.grant _ _ < c.n
      exact RoundRobin.next_lt _ _ _ hG
    -- scoreboard after the edge
    have hdone : sDone (c.gated rd) x (out c rd s x) L = rs := by
      unfold sDone
      rw [e_sRsp L hL]
      simp [rs, Bool.and_assoc]
    have hsreq : sReq x (out c rd s x) L = rq := by
      rw [e_sReq L hL]; simp [rq]
    have hfoth : ∀ j, j < c.m → j ≠ L → fifoNext c rd g x (out c rd s x) j = [] := by
      intro j hj hne
      unfold fifoNext sDone
      have hb : (j == L) = false := by simpa using hne
      rw [e_sRsp j hj, e_sReq j hj, hb, hoth j hj hne]
      simp
    have hfL : fifoNext c rd g x (out c rd s x) L =
        List.replicate (ctrNext s.arb.cnt rq rs) s.arb.grant := by
      unfold fifoNext
      rw [hdone, hsreq, hgL]
      by_cases hrq : rq = true
      · have hv : (bus s x).aValid = true := by
          have : ((bus s x).aValid && (x.ss L).aReady) = true := hrq
          simp only [Bool.and_eq_true] at this; exact this.1
        have hr : (x.ss L).aReady = true := by
          have : ((bus s x).aValid && (x.ss L).aReady) = true := hrq
          simp only [Bool.and_eq_true] at this; exact this.2
        rw [hiss hv hr, hrq]
        by_cases hrs : rs = true
        · have hvv : (x.ss L).rValid = true := by
            have : ((x.ss L).rValid && (bus s x).rReady && (!c.gated rd || (x.ss L).rLast)) = true := hrs
            simp only [Bool.and_eq_true] at this; exact this.1.1
          have hK := hK_of_valid hvv
          rw [hrs, ctrNext_both]
          simp only [if_true]
          exact replicate_tail_append _ _ (Nat.pos_of_ne_zero hK)
        · have hrs' : rs = false := by simpa using hrs
          have hlt : s.arb.cnt < maxReq - 1 := by
            have := env.noOverflow L hL hr
            rwa [hlen] at this
          rw [hrs', ctrNext_req _ hlt]
          simp only [if_true, Bool.false_eq_true, if_false]
          exact replicate_append_one _ _
      · have hrq' : rq = false := by simpa using hrq
        rw [hrq']
        by_cases hrs : rs = true
        · have hvv : (x.ss L).rValid = true := by
            have : ((x.ss L).rValid && (bus s x).rReady && (!c.gated rd || (x.ss L).rLast)) = true := hrs
            simp only [Bool.and_eq_true] at this; exact this.1.1
          have hK := hK_of_valid hvv
          rw [hrs, ctrNext_rsp _ hK]
          simp only [if_true, Bool.false_eq_true, if_false, List.append_nil]
          exact replicate_tail _ _
        · have hrs' : rs = false := by simpa using hrs
          rw [hrs', ctrNext_none]
          simp
    refine ⟨hgrant_lt, ?_, ?_, ?_, ?_⟩
    · rw [hacnt, hdcnt]
    · rw [hacnt]; exact ctrNext_le _ _ _ hinv.cnt_le
    · intro h0 j hj
      by_cases hjl : j = L
      · subst hjl; rw [hfL, ← hacnt, h0]; rfl
      · exact hfoth j hj hjl
    · intro hne
      refine ⟨L, hL, hselR', ?_, hfoth⟩
      rw [hfL, hacnt]
      -- the grant did not move
      have : (next c rd s x).arb.grant = s.arb.grant := by
        apply hgrant
        by_cases hK : s.arb.cnt = 0
        · -- the counter left zero: a request was accepted
          right; left
          rw [hacnt, hK] at hne
          by_cases hv : (bus s x).aValid = true
          · exact hv
          · exfalso
            have hv' : (bus s x).aValid = false := by simpa using hv
            have : rq = false := by simp [rq, hv']
            rw [this] at hne
            cases hrs : rs <;> rw [hrs] at hne
            · exact hne (ctrNext_none 0)
            · exact hne ctrNext_rsp_zero
        · exact Or.inl hK
      rw [this]

theorem getD_map_range (m j : Nat) (hj : j < m) (f : Nat → Bool) :
    ((List.range m).map f).getD j false = f j := by
  simp [List.getD, hj]

/-- One step with the counters at zero and no slave selected (the address on the bus maps nowhere). -/
theorem step_none (s : ShDir) (g : Fifo) (x : DirIn) (hinv : Inv c s g) (hK : s.arb.cnt = 0)
    (hsel : ∀ j, j < c.m → selOf c rd s x j = false) :
    RouteOK c true g x (out c rd s x) ∧ Inv c (next c rd s x) (fifoNext c rd g x (out c rd s x)) := by
  have hG := hinv.grant_lt
  have hsm : busSM c rd s x = {} := busSM_none c rd s x hsel
  have hM : ∀ i, (out c rd s x).toM i = Arb.toM s.arb {} i := by
    intro i; show Arb.toM s.arb (busSM c rd s x) i = _; rw [hsm]
  have hS : ∀ j, j < c.m → (out c rd s x).toS j =
      { bus s x with aValid := (bus s x).aValid && false, dValid := (bus s x).dValid && false,
                     rReady := (bus s x).rReady && false } := by
    intro j hj
    show Dec.toS (c.decCfg rd) s.dec (bus s x) j = _
    unfold Dec.toS
    have : Dec.sel (c.decCfg rd) s.dec (bus s x) j = false := hsel j hj
    rw [this]
  have e_mReq : ∀ i, mReq x (out c rd s x) i = false := by
    intro i; simp [mReq, hM, Arb.toM]
  have e_mRsp : ∀ i, mRsp x (out c rd s x) i = false := by
    intro i; simp [mRsp, hM, Arb.toM]
  have e_sReq : ∀ j, j < c.m → sReq x (out c rd s x) j = false := by
    intro j hj; simp [sReq, hS j hj]
  have e_sRsp : ∀ j, j < c.m → sRsp x (out c rd s x) j = false := by
    intro j hj; simp [sRsp, hS j hj]
  have hidle := hinv.idle hK
  refine ⟨⟨?_, ?_, ?_, ?_, ?_⟩, ?_⟩
  · intro i _ h; rw [e_mReq] at h; cases h
  · intro j hj h; rw [e_sReq j hj] at h; cases h
  · intro j hj h; rw [e_sRsp j hj] at h; cases h
  · intro i _ h; rw [e_mRsp] at h; cases h
  · intro j k hj _ _ a ha; rw [hidle j hj] at ha; cases ha
  · have hacnt : (next c rd s x).arb.cnt = 0 := by
      show ctrNext s.arb.cnt (Arb.request s.arb x.ms (busSM c rd s x)) (Arb.response (c.gated rd) s.arb x.ms (busSM c rd s x)) = _
      rw [hsm, hK]
      simp [Arb.request, Arb.response, ctrNext]
    have hdcnt : (next c rd s x).dec.cnt = 0 := by
      show ctrNext s.dec.cnt (Dec.request (c.decCfg rd) s.dec (bus s x) x.ss) (Dec.response (c.decCfg rd) s.dec (bus s x) x.ss) = _
      have h1 : Dec.toM (c.decCfg rd) s.dec (bus s x) x.ss = {} := hsm
      rw [hinv.cnt_eq, hK]
      unfold Dec.request Dec.response
      rw [h1]
      simp [ctrNext]
    have hf : ∀ j, j < c.m → fifoNext c rd g x (out c rd s x) j = [] := by
      intro j hj
      unfold fifoNext sDone
      rw [e_sRsp j hj, e_sReq j hj, hidle j hj]
      simp
    refine ⟨?_, ?_, ?_, ?_, ?_⟩
    · show RoundRobin.next .ce c.n s.arb.grant _ _ < c.n
      exact RoundRobin.next_lt _ _ _ hG
    · rw [hacnt, hdcnt]
    · rw [hacnt]; omega
    · intro _ j hj; exact hf j hj
    · intro h; exact absurd hacnt h

/-- **One step of the shared interconnect**: if the registers agree with the scoreboard and the environment
    behaves in this cycle, the routing guarantee holds in this cycle and the agreement is preserved. -/
theorem step (hd : Disjoint c) (s : ShDir) (g : Fifo) (x : DirIn) (hinv : Inv c s g) (env : EnvOK c g x) :
    RouteOK c true g x (out c rd s x) ∧ Inv c (next c rd s x) (fifoNext c rd g x (out c rd s x)) := by
  by_cases hK : s.arb.cnt = 0
  · -- idle: combinational bypass of the select
    have hdK : s.dec.cnt = 0 := by rw [hinv.cnt_eq, hK]
    have hselDec : ∀ j, selOf c rd s x j = c.dec j ((bus s x).aAddr >>> c.shift) := by
      intro j
      unfold selOf Dec.sel Dec.selDec ctrEmpty
      rw [hdK]; rfl
    have hselR' : ∀ j, j < c.m →
        (next c rd s x).dec.selR.getD j false = c.dec j ((bus s x).aAddr >>> c.shift) := by
      intro j hj
      show (if ctrEmpty s.dec.cnt then (List.range (c.decCfg rd).m).map (Dec.selDec (c.decCfg rd) (bus s x))
            else s.dec.selR).getD j false = _
      unfold ctrEmpty
      rw [hdK]
      simp only [beq_self_eq_true, if_true]
      exact getD_map_range c.m j hj _
    by_cases h : ∃ L, L < c.m ∧ c.dec L ((bus s x).aAddr >>> c.shift) = true
    · obtain ⟨L, hL, hdec⟩ := h
      have hsel : ∀ j, j < c.m → selOf c rd s x j = (j == L) := by
        intro j hj
        rw [hselDec]
        by_cases hjl : j = L
        · subst hjl; simp [hdec]
        · have : (j == L) = false := by simpa using hjl
          rw [this]
          cases hv : c.dec j ((bus s x).aAddr >>> c.shift)
          · rfl
          · exact absurd (hd _ j L hj hL hv hdec) hjl
      apply step_some c rd s g x L hL hinv hsel
      · rw [hinv.idle hK L hL, hK]; rfl
      · intro j hj _; exact hinv.idle hK j hj
      · intro _; exact hdec
      · intro j hj; rw [hselR' j hj, ← hselDec, hsel j hj]
      · exact env
    · apply step_none c rd s g x hinv hK
      intro j hj
      rw [hselDec]
      cases hv : c.dec j ((bus s x).aAddr >>> c.shift)
      · rfl
      · exact absurd ⟨j, hj, hv⟩ h
  · -- locked: the registered select
    obtain ⟨L, hL, hselR, hgL, hoth⟩ := hinv.locked hK
    have hdK : s.dec.cnt ≠ 0 := by rw [hinv.cnt_eq]; exact hK
    have hsel : ∀ j, j < c.m → selOf c rd s x j = (j == L) := by
      intro j hj
      unfold selOf Dec.sel ctrEmpty
      have : (s.dec.cnt == 0) = false := by simpa using hdK
      rw [this]
      simpa using hselR j hj
    apply step_some c rd s g x L hL hinv hsel hgL hoth
    · intro hv
      apply env.sameSlave s.arb.grant L hinv.grant_lt hL hv
      rw [hgL]
      exact List.mem_replicate.mpr ⟨hK, rfl⟩
    · intro j hj
      show (if ctrEmpty s.dec.cnt then _ else s.dec.selR).getD j false = _
      unfold ctrEmpty
      have : (s.dec.cnt == 0) = false := by simpa using hdK
      rw [this]
      simpa using hselR j hj
    · exact env

theorem inv_reset (hn : 0 < c.n) : Inv c (init c rd) Fifo.empty := by
  refine ⟨hn, rfl, Nat.zero_le _, ?_, ?_⟩
  · intro _ j _; rfl
  · intro h; exact absurd rfl h

/-- Assume/guarantee over every run from every state that agrees with its scoreboard. -/
theorem holds_of_inv (hd : Disjoint c) :
    ∀ (ins : List DirIn) (s : ShDir) (g : Fifo), Inv c s g → Holds (machine c rd) c rd true s g ins := by
  intro ins
  induction ins with
  | nil => intro s g _; trivial
  | cons x xs ih =>
    intro s g hinv env
    obtain ⟨hr, hinv'⟩ := step c rd hd s g x hinv env
    exact ⟨hr, ih _ _ hinv'⟩

end Shared
end Litex.Axi.Lite
