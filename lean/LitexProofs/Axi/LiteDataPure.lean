import LitexProofs.Axi.LiteBasic
/-
  C08, write-data scoreboard: the update of ONE master's entries (`wq`, `ahead`) over one cycle, as a pure statement
  about lists — shared by the shared-interconnect and the crossbar proofs.  Bursts: `last` closes a burst.
-/
namespace Litex.Axi.Lite

theorem master_update (q L : Nat) (a : Option (Nat × Bool)) (rq dt last : Bool) (sl : Option Nat)
    (haL : ∀ k b, a = some (k, b) → k = L)
    (haq : a ≠ none → q = 0)
    (hdata : dt = true → q ≠ 0 ∨ ∀ k, a ≠ some (k, true))
    (hsl : (rq = true ∨ (dt = true ∧ q = 0)) → sl = some L) :
    ∃ q' a',
      (if dt && last then (wqAfterAddr (List.replicate q L) a rq sl).tail
        else wqAfterAddr (List.replicate q L) a rq sl) = List.replicate q' L ∧
      (if dt && (wqAfterAddr (List.replicate q L) a rq sl).isEmpty then sl.map (fun k => (k, last))
        else (if rq then none else a)) = a' ∧
      (∀ k b, a' = some (k, b) → k = L) ∧ (a' ≠ none → q' = 0) ∧
      q' + (if a = some (L, true) then 1 else 0) + (if dt && last then 1 else 0)
        = q + (if a' = some (L, true) then 1 else 0) + (if rq then 1 else 0) := by
  -- normalise `a`: none, (L, false) or (L, true)
  have ha3 : a = none ∨ a = some (L, false) ∨ a = some (L, true) := by
    cases a with
    | none => exact Or.inl rfl
    | some p =>
      obtain ⟨k, b⟩ := p
      have := haL k b rfl
      subst this
      cases b
      · exact Or.inr (Or.inl rfl)
      · exact Or.inr (Or.inr rfl)
  cases rq <;> cases dt
  · -- nothing
    refine ⟨q, a, by simp [wqAfterAddr], by simp, haL, haq, by simp⟩
  · -- data only
    cases q with
    | zero =>
      have hs : sl = some L := hsl (Or.inr ⟨rfl, rfl⟩)
      have hnc : ∀ k, a ≠ some (k, true) := by
        rcases hdata rfl with h | h
        · exact absurd rfl h
        · exact h
      have hA : (if a = some (L, true) then 1 else 0) = 0 := by simp [hnc L]
      refine ⟨0, some (L, last), by simp [wqAfterAddr], by simp [wqAfterAddr, hs], ?_, by intro _; rfl, ?_⟩
      · intro k b h; simp at h; exact h.1.symm
      · rw [hA]; cases last <;> simp
    | succ q =>
      have hnone : a = none := by
        cases h : a with
        | none => rfl
        | some p => exact absurd (haq (by rw [h]; simp)) (by simp)
      subst hnone
      cases last
      · refine ⟨q + 1, none, by simp [wqAfterAddr], by simp [wqAfterAddr, List.replicate_succ],
          (by intro k b h; cases h), (by intro h; exact absurd rfl h), by simp⟩
      · refine ⟨q, none, by simp [wqAfterAddr, List.replicate_succ], by simp [wqAfterAddr, List.replicate_succ],
          (by intro k b h; cases h), (by intro h; exact absurd rfl h), by simp⟩
  · -- address only
    have hs : sl = some L := hsl (Or.inl rfl)
    rcases ha3 with h | h | h
    · subst h
      refine ⟨q + 1, none, by simp [wqAfterAddr, hs, List.replicate_succ'], by simp,
        (by intro k b h; cases h), (by intro h; exact absurd rfl h), by simp⟩
    · subst h
      have hq0 := haq (by simp)
      subst hq0
      refine ⟨1, none, by simp [wqAfterAddr, hs], by simp,
        (by intro k b h; cases h), (by intro h; exact absurd rfl h), by simp⟩
    · subst h
      have hq0 := haq (by simp)
      subst hq0
      refine ⟨0, none, by simp [wqAfterAddr], by simp,
        (by intro k b h; cases h), (by intro h; exact absurd rfl h), by simp⟩
  · -- address and data
    have hs : sl = some L := hsl (Or.inl rfl)
    rcases ha3 with h | h | h
    · subst h
      cases last
      · refine ⟨q + 1, none, by simp [wqAfterAddr, hs, List.replicate_succ'], by simp [wqAfterAddr, hs],
          (by intro k b h; cases h), (by intro h; exact absurd rfl h), by simp⟩
      · refine ⟨q, none, ?_, by simp [wqAfterAddr, hs],
          (by intro k b h; cases h), (by intro h; exact absurd rfl h), by simp⟩
        simp [wqAfterAddr, hs]
        rw [← List.replicate_succ']; simp [List.replicate_succ]
    · subst h
      have hq0 := haq (by simp)
      subst hq0
      cases last
      · refine ⟨1, none, by simp [wqAfterAddr, hs], by simp [wqAfterAddr, hs],
          (by intro k b h; cases h), (by intro h; exact absurd rfl h), by simp⟩
      · refine ⟨0, none, by simp [wqAfterAddr, hs], by simp [wqAfterAddr, hs],
          (by intro k b h; cases h), (by intro h; exact absurd rfl h), by simp⟩
    · subst h
      exfalso
      have hq0 := haq (by simp)
      rcases hdata rfl with h | h
      · exact h hq0
      · exact h L rfl

end Litex.Axi.Lite
