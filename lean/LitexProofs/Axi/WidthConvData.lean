import LitexModel.Axi.WidthConvData
import LitexProofs.Stream.Conv
/-
  AXI bursts through the stream converters: how the greedy chunking of `_UpConverter` (`Stream.chunks`) cuts a
  burst whose number of beats is a multiple of the ratio and whose only `last` is on the final beat, and where
  `_DownConverter` (`Stream.splitTok`) puts `last`.
-/
namespace Litex.Axi
open Litex.Stream

variable {α : Type}

/-- Chunk state in the middle of a burst: complete chunks are full (`r` beats) and free of `last`; so is the
    partial chunk, which is shorter than `r`. -/
def MidBurst (r : Nat) (st : List (List (Tok α)) × List (Tok α)) : Prop :=
  (∀ c ∈ st.1, c.length = r ∧ ∀ t ∈ c, t.last = false) ∧ st.2.length < r ∧ ∀ t ∈ st.2, t.last = false

theorem midBurst_fold (r : Nat) : ∀ (ts : List (Tok α)) (st : List (List (Tok α)) × List (Tok α)),
    (∀ t ∈ ts, t.last = false) → MidBurst r st →
    MidBurst r (ts.foldl (chunkStep r) st) ∧
    (ts.foldl (chunkStep r) st).1.length * r + (ts.foldl (chunkStep r) st).2.length
      = st.1.length * r + st.2.length + ts.length := by
  intro ts
  induction ts with
  | nil => intro st _ h; exact ⟨h, by simp⟩
  | cons t ts ih =>
    intro st hno hst
    have ht : t.last = false := hno t (by simp)
    have hts : ∀ x ∈ ts, x.last = false := fun x hx => hno x (by simp [hx])
    obtain ⟨h1, h2, h3⟩ := hst
    rw [List.foldl_cons]
    have hstep : MidBurst r (chunkStep r st t) ∧
        (chunkStep r st t).1.length * r + (chunkStep r st t).2.length = st.1.length * r + st.2.length + 1 := by
      unfold chunkStep
      split
      next hc =>
        have hlen : st.2.length + 1 = r := by simpa [ht] using hc
        refine ⟨⟨?_, by simp; omega, by simp⟩, ?_⟩
        · intro c hc'
          rcases List.mem_append.mp hc' with hc' | hc'
          · exact h1 c hc'
          · have : c = st.2 ++ [t] := by simpa using hc'
            subst this
            refine ⟨by simp [hlen], ?_⟩
            intro x hx
            rcases List.mem_append.mp hx with hx | hx
            · exact h3 x hx
            · have : x = t := by simpa using hx
              subst this; exact ht
        · simp only [List.length_append, List.length_cons, List.length_nil, Nat.add_mul]
          omega
      next hc =>
        have hlen : ¬ st.2.length + 1 = r := by simpa [ht] using hc
        refine ⟨⟨h1, by simp; omega, ?_⟩, by simp; omega⟩
        intro x hx
        rcases List.mem_append.mp hx with hx | hx
        · exact h3 x hx
        · have : x = t := by simpa using hx
          subst this; exact ht
    obtain ⟨g1, g2⟩ := ih (chunkStep r st t) hts hstep.1
    exact ⟨g1, by rw [g2, hstep.2]; simp; omega⟩

/-- **A burst in the converter's supported region is cut into full words.**  `ts ++ [t]` is a burst of `n·r`
    narrow beats whose only `last` is on the final beat `t`.  Then the up-converter's chunking yields only full
    chunks (`r` beats each), nothing is left over, the chunks concatenate to the burst (order kept), and exactly
    the final chunk carries `last`. -/
theorem burst_chunks (r n : Nat) (hr : 0 < r) (ts : List (Tok α)) (t : Tok α)
    (hno : ∀ x ∈ ts, x.last = false) (ht : t.last = true) (hlen : ts.length + 1 = n * r) :
    chunkRest r (ts ++ [t]) = [] ∧
    (chunks r (ts ++ [t])).flatten = ts ++ [t] ∧
    (∀ c ∈ chunks r (ts ++ [t]), c.length = r) ∧
    (chunks r (ts ++ [t])).length = n ∧
    (chunks r (ts ++ [t])).map (fun c => c.any (·.last)) = List.replicate (n - 1) false ++ [true] := by
  have hmid := midBurst_fold r ts ([], []) hno ⟨by simp, by simpa using hr, by simp⟩
  obtain ⟨⟨m1, m2, m3⟩, mcount⟩ := hmid
  have hcs : (ts.foldl (chunkStep r) ([], [])).1 = chunks r ts := rfl
  have hrs : (ts.foldl (chunkStep r) ([], [])).2 = chunkRest r ts := rfl
  rw [hcs] at m1 mcount
  rw [hrs] at m2 m3 mcount
  simp only [List.length_nil, Nat.zero_mul, Nat.zero_add] at mcount
  -- the partial chunk before the final beat holds exactly r - 1 beats
  have hfull : (chunkRest r ts).length + 1 = r := by
    have h1 : (chunks r ts).length * r < n * r := by omega
    have h2 : (chunks r ts).length < n := Nat.lt_of_mul_lt_mul_right h1
    have h3 : ((chunks r ts).length + 1) * r ≤ n * r := Nat.mul_le_mul_right r h2
    rw [Nat.add_mul] at h3
    omega
  have hcond : ((chunkRest r ts).length + 1 == r || t.last) = true := by simp [ht]
  have hch : chunks r (ts ++ [t]) = chunks r ts ++ [chunkRest r ts ++ [t]] := by
    rw [chunks_snoc, if_pos hcond]
  have hre : chunkRest r (ts ++ [t]) = [] := by rw [chunkRest_snoc, if_pos hcond]
  have hn : (chunks r ts).length + 1 = n := by
    apply Nat.eq_of_mul_eq_mul_right hr
    rw [Nat.add_mul]; omega
  refine ⟨hre, ?_, ?_, ?_, ?_⟩
  · have := chunks_flatten r (ts ++ [t])
    rwa [hre, List.append_nil] at this
  · intro c hc
    rw [hch] at hc
    rcases List.mem_append.mp hc with hc | hc
    · exact (m1 c hc).1
    · have : c = chunkRest r ts ++ [t] := by simpa using hc
      subst this; simp [hfull]
  · rw [hch]; simp [hn]
  · rw [hch, List.map_append]
    have h1 : (chunks r ts).map (fun c => c.any (·.last)) = List.replicate (chunks r ts).length false := by
      apply List.eq_replicate_iff.mpr
      refine ⟨by simp, ?_⟩
      intro b hb
      obtain ⟨c, hc, rfl⟩ := List.mem_map.mp hb
      have := (m1 c hc).2
      simp only [List.any_eq_false]
      intro x hx
      simp [this x hx]
    rw [h1, ← hn]
    simp [ht]

/-- `_DownConverter` marks `last` on the final lane of a wide beat that carries `last`, and nowhere else. -/
theorem splitTok_last {π : Type} (r : Nat) (hr : 0 < r) (z : α) (t : Tok (List α × π)) :
    (splitTok r z t).length = r ∧
    (splitTok r z t).map (·.last) = List.replicate (r - 1) false ++ [t.last] := by
  refine ⟨by simp [splitTok], ?_⟩
  obtain ⟨m, rfl⟩ : ∃ m, r = m + 1 := ⟨r - 1, by omega⟩
  simp only [splitTok, List.map_map, Nat.add_sub_cancel]
  rw [List.range_succ, List.map_append]
  congr 1
  · apply List.eq_replicate_iff.mpr
    refine ⟨by simp, ?_⟩
    intro b hb
    obtain ⟨i, hi, rfl⟩ := List.mem_map.mp hb
    have : i < m := List.mem_range.mp hi
    have hne : ¬ i = m := by omega
    simp [hne]
  · simp

end Litex.Axi
