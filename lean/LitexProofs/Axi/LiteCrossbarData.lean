import LitexProofs.Axi.LiteCrossbar
import LitexProofs.Axi.LiteSharedData
/-
  C08, crossbar, write-data part: the data-routing scoreboard (`DGhost`) against the registers of every arbiter and
  decoder, and the one-step assume/guarantee lemma for `DataOK`.  Single-beat data.
-/
namespace Litex.Axi.Lite
namespace Crossbar
variable (c : Cfg) (rd : Bool)

/-- Data scoreboard vs registers.  Everything at slave `j` belongs to the master its arbiter points at. -/
structure DInv (s : XbDir) (g : Fifo) (dg : DGhost) : Prop where
  aheadq : ∀ i, i < c.n → dg.ahead i ≠ none → dg.wq i = []
  wq_lt  : ∀ i, i < c.n → ∀ e ∈ dg.wq i, e < c.m
  ah_lt  : ∀ i, i < c.n → ∀ k b, dg.ahead i = some (k, b) → k < c.m
  own    : ∀ i j, i < c.n → j < c.m → (arb s j).grant ≠ i →
             (dg.wq i).count j = 0 ∧ ∀ b, dg.ahead i ≠ some (j, b)
  bal    : ∀ j, j < c.m → (g j).length + (if dg.ahead (arb s j).grant = some (j, true) then 1 else 0)
                            = (dg.wq (arb s j).grant).count j + dg.sd j

theorem dinv_reset : DInv c (init c rd) Fifo.empty DGhost.empty := by
  refine ⟨fun _ _ _ => rfl, ?_, ?_, ?_, ?_⟩
  · intro i _ e he; cases he
  · intro i _ k b hk; cases hk
  · intro i j _ _ _; exact ⟨rfl, by intro b h; cases h⟩
  · intro j _; rfl

set_option linter.unusedSectionVars false

theorem e_sDat (s : XbDir) (x : DirIn) (j : Nat) :
    sDat x (out c rd s x) j =
      (((x.ms (arb s j).grant).dValid && selI c rd s x (arb s j).grant j) && (x.ss j).dReady) := rfl

section dstep
variable (hd : Disjoint c) (s : XbDir) (g : Fifo) (dg : DGhost) (x : DirIn) (hinv : Inv c s g)
  (hdinv : DInv c s g dg) (env : EnvOK c g x) (denv : DEnvOK c dg x)
include hd hinv hdinv env denv

theorem mDat_elim (i : Nat) (hi : i < c.n) (h : mDat x (out c rd s x) i = true) :
    ∃ L, L < c.m ∧ (∀ j, j < c.m → selI c rd s x i j = (j == L)) ∧ (x.ms i).dValid = true ∧
         (x.ss L).dReady = true ∧ (arb s L).grant = i := by
  rcases sel_cases c rd hd s g x hinv env i hi with ⟨L, hL, hsel⟩ | hnone
  · refine ⟨L, hL, hsel, ?_⟩
    unfold mDat at h
    rw [toM_some c rd s x i L hL hsel] at h
    simp only [Arb.toM, Bool.and_eq_true, beq_iff_eq] at h
    exact ⟨h.1, h.2.1, h.2.2⟩
  · unfold mDat at h
    rw [toM_none c rd s x i hnone] at h
    simp at h

theorem mDat_intro (i L : Nat) (hL : L < c.m) (hsel : ∀ j, j < c.m → selI c rd s x i j = (j == L))
    (hv : (x.ms i).dValid = true) (hr : (x.ss L).dReady = true) (hg : (arb s L).grant = i) :
    mDat x (out c rd s x) i = true := by
  unfold mDat
  rw [toM_some c rd s x i L hL hsel]
  simp [Arb.toM, hv, hr, hg]

/-- Entries waiting for data: the master's decoder is locked on that slave and the slave's arbiter on the master. -/
theorem wq_entry (i e : Nat) (hi : i < c.n) (he : e ∈ dg.wq i) :
    e < c.m ∧ (arb s e).grant = i ∧ (arb s e).cnt ≠ 0 ∧ dg.ahead i = none ∧ (dcd s i).cnt ≠ 0 ∧
    (∀ j, j < c.m → (dcd s i).selR.getD j false = (j == e)) := by
  have hem := hdinv.wq_lt i hi e he
  have hc : 0 < (dg.wq i).count e := List.count_pos_iff.mpr he
  have hge : (arb s e).grant = i := by
    by_cases h : (arb s e).grant = i
    · exact h
    · have := (hdinv.own i e hi hem h).1; omega
  have hne : dg.wq i ≠ [] := List.ne_nil_of_mem he
  have hah : dg.ahead i = none := by
    cases h : dg.ahead i with
    | none => rfl
    | some k => exact absurd (hdinv.aheadq i hi (by rw [h]; simp)) hne
  have hb := hdinv.bal e hem
  rw [hge, hah] at hb
  have hK : (arb s e).cnt ≠ 0 := by
    intro h0
    rw [(hinv.arbs e hem).2.2, h0] at hb
    simp at hb; omega
  have hKi : (dcd s i).cnt ≠ 0 := fun h0 => hinv.idle i hi h0 e hem hK hge
  obtain ⟨L, hL, hR, _, _, hoth⟩ := hinv.locked i hi hKi
  have heL : e = L := by
    by_cases h : e = L
    · exact h
    · exact absurd hge (hoth e hem h hK)
  subst heL
  exact ⟨hem, hge, hK, hah, hKi, hR⟩

/-- Data that went ahead: the master presents an address of that slave, its select points there, and the slave's
    arbiter points at the master. -/
theorem ahead_entry (i k : Nat) (b : Bool) (hi : i < c.n) (hk : dg.ahead i = some (k, b)) :
    k < c.m ∧ (arb s k).grant = i ∧ (x.ms i).aValid = true ∧
    (∀ j, j < c.m → selI c rd s x i j = (j == k)) := by
  have hkm := hdinv.ah_lt i hi k b hk
  have hgk : (arb s k).grant = i := by
    by_cases h : (arb s k).grant = i
    · exact h
    · exact absurd hk ((hdinv.own i k hi hkm h).2 b)
  obtain ⟨hv, hr⟩ := denv.addrHeld i k b hi hk
  refine ⟨hkm, hgk, hv, ?_⟩
  rcases sel_cases c rd hd s g x hinv env i hi with ⟨L, hL, hsel⟩ | hnone
  · have hsL : selI c rd s x i L = true := by rw [hsel L hL]; simp
    have := sel_routes c rd hd s g x hinv env i L hi hL hv hsL
    have hLk : L = k := hd _ L k hL hkm this hr
    subst hLk; exact hsel
  · -- no slave selected: impossible, the presented address belongs to `k`
    exfalso
    by_cases hK : (dcd s i).cnt = 0
    · have := hnone k hkm
      unfold selI at this
      rw [Dec.sel_idle (c.decCfg rd) (dcd s i) (x.ms i) k hK] at this
      have hr' : (c.decCfg rd).dec k ((x.ms i).aAddr >>> (c.decCfg rd).shift) = true := hr
      rw [hr'] at this; cases this
    · obtain ⟨L, hL, hR, _⟩ := hinv.locked i hi hK
      have := hnone L hL
      unfold selI at this
      rw [Dec.sel_locked (c.decCfg rd) (dcd s i) (x.ms i) L hK, hR L hL] at this
      simp at this

/-- The slave a data handshake of `i` must reach, when its select is one-hot at `L`. -/
theorem dtarget (i L : Nat) (hi : i < c.n) (hL : L < c.m) (hsel : ∀ j, j < c.m → selI c rd s x i j = (j == L))
    (hdv : (x.ms i).dValid = true) : DTarget c dg x i L := by
  constructor
  · intro k t hkt
    have he : k ∈ dg.wq i := by rw [hkt]; simp
    obtain ⟨hkm, _, _, _, hKi, hR⟩ := wq_entry c hd s g dg x hinv hdinv env denv i k hi he
    have := hsel k hkm
    unfold selI at this
    rw [Dec.sel_locked (c.decCfg rd) (dcd s i) (x.ms i) k hKi, hR k hkm] at this
    have : k = L := by simpa using this.symm
    exact this.symm
  · intro hnil
    rcases denv.dataAfterAddr i hi hdv with h | h
    · exact absurd hnil h
    · have hsL : selI c rd s x i L = true := by rw [hsel L hL]; simp
      exact sel_routes c rd hd s g x hinv env i L hi hL h.1 hsL

theorem data_ok : DataOK c dg x (out c rd s x) := by
  refine ⟨?_, ?_⟩
  · intro i hi h
    obtain ⟨L, hL, hsel, hdv, hdr, hg⟩ := mDat_elim c rd hd s g dg x hinv hdinv env denv i hi h
    have hsL : selI c rd s x i L = true := by rw [hsel L hL]; simp
    refine ⟨L, hL, dtarget c rd hd s g dg x hinv hdinv env denv i L hi hL hsel hdv, ?_, ?_⟩
    · rw [e_sDat, hg, hdv, hsL, hdr]; rfl
    · show (accMS c rd s x (arb s L).grant L).dPay = _
      rw [hg]; rfl
  · intro j hj h
    rw [e_sDat] at h
    simp only [Bool.and_eq_true] at h
    obtain ⟨⟨hdv, hs⟩, hdr⟩ := h
    have hi := (hinv.arbs j hj).1
    have hsel : ∀ k, k < c.m → selI c rd s x (arb s j).grant k = (k == j) := by
      rcases sel_cases c rd hd s g x hinv env _ hi with ⟨L, hL, hsel⟩ | hnone
      · have : j = L := by
          have := hsel j hj; rw [hs] at this; simpa using this.symm
        subst this; exact hsel
      · rw [hnone j hj] at hs; cases hs
    refine ⟨(arb s j).grant, hi, mDat_intro c rd hd s g dg x hinv hdinv env denv _ j hj hsel hdv hdr rfl,
      dtarget c rd hd s g dg x hinv hdinv env denv _ j hi hj hsel hdv, rfl, ?_⟩
    intro i' hi' h' ht'
    obtain ⟨L', hL', hsel', hdv', _, hg'⟩ := mDat_elim c rd hd s g dg x hinv hdinv env denv i' hi' h'
    have ht2 := dtarget c rd hd s g dg x hinv hdinv env denv i' L' hi' hL' hsel' hdv'
    have hjL : j = L' := by
      cases hw : dg.wq i' with
      | nil => exact hd _ j L' hj hL' (ht'.2 hw) (ht2.2 hw)
      | cons k t => rw [ht'.1 k t hw, ht2.1 k t hw]
    subst hjL
    exact hg'.symm

/-! #### The data scoreboard after the edge -/

/-- Master `i` whose select is one-hot at `L`: its scoreboard entries before and after the edge. -/
theorem master_some (i L : Nat) (hi : i < c.n) (hL : L < c.m)
    (hsel : ∀ j, j < c.m → selI c rd s x i j = (j == L)) :
    ∃ q q' a', dg.wq i = List.replicate q L ∧ (∀ k b, dg.ahead i = some (k, b) → k = L) ∧
      (dgNext c rd dg x (out c rd s x)).wq i = List.replicate q' L ∧
      (dgNext c rd dg x (out c rd s x)).ahead i = a' ∧ (∀ k b, a' = some (k, b) → k = L) ∧ (a' ≠ none → q' = 0) ∧
      q' + (if dg.ahead i = some (L, true) then 1 else 0) +
          (if mDat x (out c rd s x) i && c.wlast (x.ms i).dPay then 1 else 0)
        = q + (if a' = some (L, true) then 1 else 0) + (if mReq x (out c rd s x) i then 1 else 0) := by
  have hwqL : ∀ e ∈ dg.wq i, e = L := by
    intro e he
    obtain ⟨hem, _, _, _, hKi, hR⟩ := wq_entry c hd s g dg x hinv hdinv env denv i e hi he
    have := hsel e hem
    unfold selI at this
    rw [Dec.sel_locked (c.decCfg rd) (dcd s i) (x.ms i) e hKi, hR e hem] at this
    simpa using this.symm
  obtain ⟨q, hq⟩ : ∃ q, dg.wq i = List.replicate q L :=
    ⟨(dg.wq i).length, List.eq_replicate_iff.mpr ⟨rfl, hwqL⟩⟩
  have hahL : ∀ k b, dg.ahead i = some (k, b) → k = L := by
    intro k b hk
    obtain ⟨hkm, _, _, hselk⟩ := ahead_entry c rd hd s g dg x hinv hdinv env denv i k b hi hk
    have := hsel k hkm
    rw [hselk k hkm] at this
    simpa using this
  have hsL : selI c rd s x i L = true := by rw [hsel L hL]; simp
  have hslave : (x.ms i).aValid = true → slaveOf c (x.ms i).aAddr = some L := by
    intro hv
    exact slaveOf_eq c hd L _ hL (sel_routes c rd hd s g x hinv env i L hi hL hv hsL)
  have hq0_of_ah : dg.ahead i ≠ none → q = 0 := by
    intro h
    have := hdinv.aheadq i hi h
    rw [hq] at this
    cases q with
    | zero => rfl
    | succ q => simp [List.replicate_succ] at this
  have hrqv : mReq x (out c rd s x) i = true → (x.ms i).aValid = true := by
    intro h
    obtain ⟨_, _, _, hv, _⟩ := mReq_elim c rd hd s g x hinv env i hi h
    exact hv
  have hdtv : mDat x (out c rd s x) i = true → (x.ms i).dValid = true := by
    intro h
    obtain ⟨_, _, _, hv, _⟩ := mDat_elim c rd hd s g dg x hinv hdinv env denv i hi h
    exact hv
  obtain ⟨q', a', h1, h2, h3, h4, h5⟩ := master_update q L (dg.ahead i) (mReq x (out c rd s x) i)
    (mDat x (out c rd s x) i) (c.wlast (x.ms i).dPay) (slaveOf c (x.ms i).aAddr) hahL hq0_of_ah
    (by
      intro hdt
      rcases denv.dataAfterAddr i hi (hdtv hdt) with h | h
      · left; intro h0; rw [hq, h0] at h; exact h rfl
      · exact Or.inr h.2)
    (by
      intro h
      apply hslave
      rcases h with h | ⟨h1, h2⟩
      · exact hrqv h
      · rcases denv.dataAfterAddr i hi (hdtv h1) with h | h
        · rw [hq, h2] at h; exact absurd rfl h
        · exact h.1)
  refine ⟨q, q', a', hq, hahL, ?_, ?_, h3, h4, h5⟩
  · rw [dgNext_wq, hq]; exact h1
  · rw [dgNext_ahead, hq]; exact h2

/-- Master `i` with no slave selected: nothing pending, nothing happens. -/
theorem master_none (i : Nat) (hi : i < c.n) (hnone : ∀ j, j < c.m → selI c rd s x i j = false) :
    dg.wq i = [] ∧ dg.ahead i = none ∧
    (dgNext c rd dg x (out c rd s x)).wq i = [] ∧ (dgNext c rd dg x (out c rd s x)).ahead i = none := by
  have hw : dg.wq i = [] := by
    cases h : dg.wq i with
    | nil => rfl
    | cons e t =>
      exfalso
      have he : e ∈ dg.wq i := by rw [h]; simp
      obtain ⟨hem, _, _, _, hKi, hR⟩ := wq_entry c hd s g dg x hinv hdinv env denv i e hi he
      have := hnone e hem
      unfold selI at this
      rw [Dec.sel_locked (c.decCfg rd) (dcd s i) (x.ms i) e hKi, hR e hem] at this
      simp at this
  have ha : dg.ahead i = none := by
    cases h : dg.ahead i with
    | none => rfl
    | some k =>
      exfalso
      obtain ⟨hkm, _, _, hselk⟩ := ahead_entry c rd hd s g dg x hinv hdinv env denv i k.1 k.2 hi h
      have := hnone k.1 hkm
      rw [hselk k.1 hkm] at this
      simp at this
  have hrq : mReq x (out c rd s x) i = false := by
    unfold mReq; rw [toM_none c rd s x i hnone]; simp
  have hdt : mDat x (out c rd s x) i = false := by
    unfold mDat; rw [toM_none c rd s x i hnone]; simp
  obtain ⟨e1, e2⟩ := dgNext_idle c rd dg x _ i hrq hdt
  exact ⟨hw, ha, by rw [e1, hw], by rw [e2, ha]⟩

/-- A master with nothing at slave `j` and no event there has nothing at `j` after the edge. -/
theorem master_at (i j : Nat) (hi : i < c.n) (hj : j < c.m)
    (h0 : (dg.wq i).count j = 0) (ha : ∀ b, dg.ahead i ≠ some (j, b))
    (hne : selI c rd s x i j = true → mReq x (out c rd s x) i = false ∧ mDat x (out c rd s x) i = false) :
    ((dgNext c rd dg x (out c rd s x)).wq i).count j = 0 ∧
    ∀ b, (dgNext c rd dg x (out c rd s x)).ahead i ≠ some (j, b) := by
  rcases sel_cases c rd hd s g x hinv env i hi with ⟨L, hL, hsel⟩ | hnone
  · by_cases hjl : L = j
    · subst hjl
      have hs : selI c rd s x i L = true := by rw [hsel L hL]; simp
      obtain ⟨h1, h2⟩ := hne hs
      obtain ⟨e1, e2⟩ := dgNext_idle c rd dg x _ i h1 h2
      rw [e1, e2]
      exact ⟨h0, ha⟩
    · obtain ⟨q, q', a', hq, _, hq', ha', haL', haq', heq⟩ :=
        master_some c rd hd s g dg x hinv hdinv env denv i L hi hL hsel
      rw [hq', ha']
      refine ⟨count_replicate_ne q' L j (fun e => hjl e.symm), ?_⟩
      intro b h
      exact hjl (haL' j b h).symm
  · obtain ⟨_, _, hw', ha'⟩ := master_none c rd hd s g dg x hinv hdinv env denv i hi hnone
    rw [hw', ha']
    exact ⟨rfl, by intro b h; cases h⟩

/-- An event of master `i` at slave `j` needs slave `j`'s arbiter to point at `i`. -/
theorem event_owner (i j : Nat) (hi : i < c.n) (hj : j < c.m) (hs : selI c rd s x i j = true)
    (h : mReq x (out c rd s x) i = true ∨ mDat x (out c rd s x) i = true) :
    (arb s j).grant = i ∧ ((x.ms i).aValid = true ∨ (x.ms i).dValid = true) := by
  rcases h with h | h
  · obtain ⟨L, hL, hsel, hv, _, hg⟩ := mReq_elim c rd hd s g x hinv env i hi h
    have : j = L := by have := hsel j hj; rw [hs] at this; simpa using this.symm
    subst this
    exact ⟨hg, Or.inl hv⟩
  · obtain ⟨L, hL, hsel, hv, _, hg⟩ := mDat_elim c rd hd s g dg x hinv hdinv env denv i hi h
    have : j = L := by have := hsel j hj; rw [hs] at this; simpa using this.symm
    subst this
    exact ⟨hg, Or.inr hv⟩

/-- Scoreboard sizes at slave `j` over the edge. -/
theorem slave_sizes (j : Nat) (hj : j < c.m) :
    (fifoNext c rd g x (out c rd s x) j).length + (if sDone (c.gated rd) x (out c rd s x) j then 1 else 0)
      = (g j).length + (if sReq x (out c rd s x) j then 1 else 0) ∧
    (dgNext c rd dg x (out c rd s x)).sd j + (if sDone (c.gated rd) x (out c rd s x) j then 1 else 0)
      = dg.sd j + (if sDat x (out c rd s x) j && c.wlast ((out c rd s x).toS j).dPay then 1 else 0) := by
  have hrs : sDone (c.gated rd) x (out c rd s x) j = true → 0 < (g j).length ∧ 0 < dg.sd j := by
    intro h
    have hv : (x.ss j).rValid = true := by
      unfold sDone sRsp at h; simp only [Bool.and_eq_true] at h; exact h.1.1
    exact ⟨List.length_pos_iff.mpr (env.slaveLegal j hj hv), denv.respAfterData j hj hv⟩
  constructor
  · unfold fifoNext
    cases hdn : sDone (c.gated rd) x (out c rd s x) j
    · cases hrq : sReq x (out c rd s x) j
      · simp
      · rw [issuers c rd hd s g x hinv env j hj hrq]; simp
    · have hpos := (hrs hdn).1
      cases hrq : sReq x (out c rd s x) j
      · simp; omega
      · rw [issuers c rd hd s g x hinv env j hj hrq]; simp; omega
  · rw [dgNext_sd]
    cases hdn : sDone (c.gated rd) x (out c rd s x) j
    · simp
    · have hpos := (hrs hdn).2
      simp only [if_true]
      omega

/-- Slave `j` is *active* when its arbiter cannot hand over. -/
def Active (j : Nat) : Prop :=
  (arb s j).cnt ≠ 0 ∨ (accMS c rd s x (arb s j).grant j).aValid = true ∨
  (accMS c rd s x (arb s j).grant j).dValid = true ∨ (x.ss j).rValid = true

theorem active_frozen (j : Nat) (hj : j < c.m) (h : Active c rd s x j) :
    (arb (next c rd s x) j).grant = (arb s j).grant := by
  rw [arb_next c rd hd s g x hinv env j hj]
  exact Arb.grant_frozen c.n (c.gated rd) (arb s j) _ (x.ss j) (hinv.arbs j hj).1 h

/-- A slave that is not active: nobody has anything there and nothing happens there. -/
theorem quiet (j : Nat) (hj : j < c.m) (h : ¬ Active c rd s x j) :
    (∀ i, i < c.n → (dg.wq i).count j = 0 ∧ ∀ b, dg.ahead i ≠ some (j, b)) ∧ g j = [] ∧ dg.sd j = 0 ∧
    (∀ i, i < c.n → selI c rd s x i j = true →
        mReq x (out c rd s x) i = false ∧ mDat x (out c rd s x) i = false) ∧
    sReq x (out c rd s x) j = false ∧ sDat x (out c rd s x) j = false ∧
    sDone (c.gated rd) x (out c rd s x) j = false := by
  have hK : (arb s j).cnt = 0 := by
    by_cases e : (arb s j).cnt = 0
    · exact e
    · exact absurd (Or.inl e) h
  have hav : (accMS c rd s x (arb s j).grant j).aValid = false := by
    cases e : (accMS c rd s x (arb s j).grant j).aValid
    · rfl
    · exact absurd (Or.inr (Or.inl e)) h
  have hdv : (accMS c rd s x (arb s j).grant j).dValid = false := by
    cases e : (accMS c rd s x (arb s j).grant j).dValid
    · rfl
    · exact absurd (Or.inr (Or.inr (Or.inl e))) h
  have hrv : (x.ss j).rValid = false := by
    cases e : (x.ss j).rValid
    · rfl
    · exact absurd (Or.inr (Or.inr (Or.inr e))) h
  have hgi := (hinv.arbs j hj).1
  have hgj : g j = [] := by rw [(hinv.arbs j hj).2.2, hK]; rfl
  -- the owner has no data ahead at `j`: it would be presenting an address there
  have hown_ah : ∀ b, dg.ahead (arb s j).grant ≠ some (j, b) := by
    intro b hk
    obtain ⟨_, _, hv, hselk⟩ := ahead_entry c rd hd s g dg x hinv hdinv env denv _ j b hgi hk
    have : (accMS c rd s x (arb s j).grant j).aValid = true := by
      show ((x.ms (arb s j).grant).aValid && selI c rd s x (arb s j).grant j) = true
      rw [hv, hselk j hj]; simp
    rw [hav] at this; cases this
  have hb := hdinv.bal j hj
  rw [hgj] at hb
  have hz : (if dg.ahead (arb s j).grant = some (j, true) then 1 else 0) = 0 := by simp [hown_ah true]
  rw [hz] at hb
  simp at hb
  have hall : ∀ i, i < c.n → (dg.wq i).count j = 0 ∧ ∀ b, dg.ahead i ≠ some (j, b) := by
    intro i hi
    by_cases e : (arb s j).grant = i
    · subst e; exact ⟨by omega, hown_ah⟩
    · exact hdinv.own i j hi hj e
  have hnoev : ∀ i, i < c.n → selI c rd s x i j = true →
      mReq x (out c rd s x) i = false ∧ mDat x (out c rd s x) i = false := by
    intro i hi hs
    have key : ∀ (hh : mReq x (out c rd s x) i = true ∨ mDat x (out c rd s x) i = true), False := by
      intro hh
      obtain ⟨hg, hv⟩ := event_owner c rd hd s g dg x hinv hdinv env denv i j hi hj hs hh
      rcases hv with hv | hv
      · have : (accMS c rd s x (arb s j).grant j).aValid = true := by
          show ((x.ms (arb s j).grant).aValid && selI c rd s x (arb s j).grant j) = true
          rw [hg, hv, hs]; rfl
        rw [hav] at this; cases this
      · have : (accMS c rd s x (arb s j).grant j).dValid = true := by
          show ((x.ms (arb s j).grant).dValid && selI c rd s x (arb s j).grant j) = true
          rw [hg, hv, hs]; rfl
        rw [hdv] at this; cases this
    constructor
    · cases e : mReq x (out c rd s x) i
      · rfl
      · exact absurd (Or.inl e) (fun hh => key hh)
    · cases e : mDat x (out c rd s x) i
      · rfl
      · exact absurd (Or.inr e) (fun hh => key hh)
  refine ⟨hall, hgj, by omega, hnoev, ?_, ?_, ?_⟩
  · show ((accMS c rd s x (arb s j).grant j).aValid && (x.ss j).aReady) = false
    rw [hav]; rfl
  · show ((accMS c rd s x (arb s j).grant j).dValid && (x.ss j).dReady) = false
    rw [hdv]; rfl
  · unfold sDone sRsp; rw [hrv]; rfl

theorem dinv_next :
    DInv c (next c rd s x) (fifoNext c rd g x (out c rd s x)) (dgNext c rd dg x (out c rd s x)) := by
  refine ⟨?_, ?_, ?_, ?_, ?_⟩
  · intro i hi hne
    rcases sel_cases c rd hd s g x hinv env i hi with ⟨L, hL, hsel⟩ | hnone
    · obtain ⟨q, q', a', _, _, hq', ha', _, haq', _⟩ :=
        master_some c rd hd s g dg x hinv hdinv env denv i L hi hL hsel
      rw [ha'] at hne
      rw [hq', haq' hne]; rfl
    · exact (master_none c rd hd s g dg x hinv hdinv env denv i hi hnone).2.2.1
  · intro i hi e he
    rcases sel_cases c rd hd s g x hinv env i hi with ⟨L, hL, hsel⟩ | hnone
    · obtain ⟨q, q', a', _, _, hq', _⟩ := master_some c rd hd s g dg x hinv hdinv env denv i L hi hL hsel
      rw [hq'] at he
      rw [(List.mem_replicate.mp he).2]; exact hL
    · rw [(master_none c rd hd s g dg x hinv hdinv env denv i hi hnone).2.2.1] at he; cases he
  · intro i hi k b hk
    rcases sel_cases c rd hd s g x hinv env i hi with ⟨L, hL, hsel⟩ | hnone
    · obtain ⟨q, q', a', _, _, _, ha', haL', _⟩ := master_some c rd hd s g dg x hinv hdinv env denv i L hi hL hsel
      rw [ha'] at hk
      rw [haL' k b hk]; exact hL
    · rw [(master_none c rd hd s g dg x hinv hdinv env denv i hi hnone).2.2.2] at hk; cases hk
  · intro i j hi hj hne
    by_cases hact : Active c rd s x j
    · rw [active_frozen c rd hd s g dg x hinv hdinv env denv j hj hact] at hne
      obtain ⟨h0, ha⟩ := hdinv.own i j hi hj hne
      apply master_at c rd hd s g dg x hinv hdinv env denv i j hi hj h0 ha
      intro hs
      constructor
      · cases e : mReq x (out c rd s x) i
        · rfl
        · exact absurd (event_owner c rd hd s g dg x hinv hdinv env denv i j hi hj hs (Or.inl e)).1 hne
      · cases e : mDat x (out c rd s x) i
        · rfl
        · exact absurd (event_owner c rd hd s g dg x hinv hdinv env denv i j hi hj hs (Or.inr e)).1 hne
    · obtain ⟨hall, _, _, hnoev, _⟩ := quiet c rd hd s g dg x hinv hdinv env denv j hj hact
      exact master_at c rd hd s g dg x hinv hdinv env denv i j hi hj (hall i hi).1 (hall i hi).2 (hnoev i hi)
  · intro j hj
    obtain ⟨hlen, hsd⟩ := slave_sizes c rd hd s g dg x hinv hdinv env denv j hj
    by_cases hact : Active c rd s x j
    · rw [active_frozen c rd hd s g dg x hinv hdinv env denv j hj hact]
      have hi := (hinv.arbs j hj).1
      have hb := hdinv.bal j hj
      -- the case "the owner's select does not point at j": nothing happens at j
      have hno : selI c rd s x (arb s j).grant j = false →
          (dg.wq (arb s j).grant).count j = 0 → (∀ b, dg.ahead (arb s j).grant ≠ some (j, b)) →
          ((dgNext c rd dg x (out c rd s x)).wq (arb s j).grant).count j = 0 →
          (∀ b, (dgNext c rd dg x (out c rd s x)).ahead (arb s j).grant ≠ some (j, b)) →
          (fifoNext c rd g x (out c rd s x) j).length +
              (if (dgNext c rd dg x (out c rd s x)).ahead (arb s j).grant = some (j, true) then 1 else 0)
            = ((dgNext c rd dg x (out c rd s x)).wq (arb s j).grant).count j +
              (dgNext c rd dg x (out c rd s x)).sd j := by
        intro hsf h0 ha h0' ha'
        have e1 : sReq x (out c rd s x) j = false := by rw [e_sReq, hsf]; simp
        have e2 : sDat x (out c rd s x) j = false := by rw [e_sDat, hsf]; simp
        have e3 : sDone (c.gated rd) x (out c rd s x) j = false := by
          unfold sDone; rw [e_sRsp, hsf]; simp
        rw [e1, e3] at hlen
        rw [e2, e3] at hsd
        rw [h0] at hb
        have z1 : (if dg.ahead (arb s j).grant = some (j, true) then 1 else 0) = 0 := by simp [ha true]
        have z2 : (if (dgNext c rd dg x (out c rd s x)).ahead (arb s j).grant = some (j, true) then 1 else 0) = 0 := by
          simp [ha' true]
        rw [z1] at hb
        rw [z2, h0']
        simp only [Bool.false_and, Bool.false_eq_true, if_false, Nat.add_zero] at hlen hsd hb ⊢
        omega
      rcases sel_cases c rd hd s g x hinv env _ hi with ⟨L, hL, hsel⟩ | hnone
      · obtain ⟨q, q', a', hq, hahL, hq', ha', haL', haq', heq⟩ :=
          master_some c rd hd s g dg x hinv hdinv env denv _ L hi hL hsel
        by_cases hjl : L = j
        · subst hjl
          have hsj : selI c rd s x (arb s L).grant L = true := by rw [hsel L hL]; simp
          have e1 : sReq x (out c rd s x) L = mReq x (out c rd s x) (arb s L).grant := by
            rw [e_sReq, hsj]
            unfold mReq
            rw [toM_some c rd s x _ L hL hsel]
            simp [Arb.toM]
          have e2 : sDat x (out c rd s x) L = mDat x (out c rd s x) (arb s L).grant := by
            rw [e_sDat, hsj]
            unfold mDat
            rw [toM_some c rd s x _ L hL hsel]
            simp [Arb.toM]
          have e3 : ((out c rd s x).toS L).dPay = (x.ms (arb s L).grant).dPay := rfl
          rw [hq, count_replicate_self] at hb
          rw [hq', ha', count_replicate_self]
          rw [e1] at hlen
          rw [e2, e3] at hsd
          omega
        · have hsf : selI c rd s x (arb s j).grant j = false := by
            rw [hsel j hj]; simpa using fun e => hjl e.symm
          apply hno hsf
          · rw [hq]; exact count_replicate_ne q L j (fun e => hjl e.symm)
          · intro b h; exact hjl (hahL j b h).symm
          · rw [hq']; exact count_replicate_ne q' L j (fun e => hjl e.symm)
          · rw [ha']; intro b h; exact hjl (haL' j b h).symm
      · obtain ⟨hw, ha, hw', ha'⟩ := master_none c rd hd s g dg x hinv hdinv env denv _ hi hnone
        apply hno (hnone j hj)
        · rw [hw]; rfl
        · rw [ha]; intro b h; cases h
        · rw [hw']; rfl
        · rw [ha']; intro b h; cases h
    · obtain ⟨hall, hgj, hsd0, hnoev, e1, e2, e3⟩ := quiet c rd hd s g dg x hinv hdinv env denv j hj hact
      have hi' : (arb (next c rd s x) j).grant < c.n := by
        rw [arb_next c rd hd s g x hinv env j hj]
        exact Arb.next_grant_lt _ _ _ _ _ (hinv.arbs j hj).1
      obtain ⟨h0', ha'⟩ := master_at c rd hd s g dg x hinv hdinv env denv _ j hi' hj
        (hall _ hi').1 (hall _ hi').2 (hnoev _ hi')
      rw [e1, e3, hgj] at hlen
      rw [e2, e3, hsd0] at hsd
      have z : (if (dgNext c rd dg x (out c rd s x)).ahead (arb (next c rd s x) j).grant = some (j, true) then 1 else 0) = 0 := by
        simp [ha' true]
      rw [z, h0']
      simp only [Bool.false_and, Bool.false_eq_true, if_false, Nat.add_zero, List.length_nil] at hlen hsd
      omega

end dstep

theorem dstep (hd : Disjoint c) (s : XbDir) (g : Fifo) (dg : DGhost) (x : DirIn) (hinv : Inv c s g)
    (hdinv : DInv c s g dg) (env : EnvOK c g x) (denv : DEnvOK c dg x) :
    DataOK c dg x (out c rd s x) ∧
    DInv c (next c rd s x) (fifoNext c rd g x (out c rd s x)) (dgNext c rd dg x (out c rd s x)) :=
  ⟨data_ok c rd hd s g dg x hinv hdinv env denv, dinv_next c rd hd s g dg x hinv hdinv env denv⟩

theorem holdsD_of_inv (hd : Disjoint c) :
    ∀ (ins : List DirIn) (s : XbDir) (g : Fifo) (dg : DGhost), Inv c s g → DInv c s g dg →
      HoldsD (machine c rd) c rd false s g dg ins := by
  intro ins
  induction ins with
  | nil => intro s g dg _ _; trivial
  | cons x xs ih =>
    intro s g dg hinv hdinv env denv
    obtain ⟨hr, hinv'⟩ := step c rd hd s g x hinv env
    obtain ⟨hdok, hdinv'⟩ := dstep c rd hd s g dg x hinv hdinv env denv
    exact ⟨hr, hdok, ih _ _ _ hinv' hdinv'⟩

end Crossbar
end Litex.Axi.Lite
