import LitexModel.Axi.BurstSpec
/-
  Arithmetic behind `AXIBurst2Beat`: the wrap-mask test, the closed form of the running offset, and the facts
  (range, address at size granularity, next offset) that make one beat of a legal burst agree with A3.4.1.
  Transfer sizes range over 0..7 and WRAP lengths over {1,3,7,15}; each combination is a linear problem that
  `omega` decides (2ⁿ literals are numerals), so the general statements are proved by finite case split on
  `(size, len)` with everything else (address, beat index, address width) symbolic.
-/
namespace Litex.Axi

theorem and_shift (a M s : Nat) : a &&& (M <<< s) = ((a >>> s) &&& M) <<< s := by
  apply Nat.eq_of_testBit_eq
  intro i
  simp only [Nat.testBit_and, Nat.testBit_shiftLeft, Nat.testBit_shiftRight]
  by_cases h : s ≤ i
  · simp [h, Nat.add_sub_cancel' h]
  · simp [h]

/-- The mask test of the code, `(x & (len << size)) == (len << size)` with `len + 1 = 2^m`, fires exactly when `x`
    lies in the last `2^size`-byte slot of its `2^(size+m)`-byte window. -/
theorem wrap_detect (m s x : Nat) :
    (x &&& ((2 ^ m - 1) * 2 ^ s) = (2 ^ m - 1) * 2 ^ s) ↔ (x / 2 ^ s) % 2 ^ m = 2 ^ m - 1 := by
  rw [← Nat.shiftLeft_eq, and_shift, Nat.and_two_pow_sub_one_eq_mod, Nat.shiftLeft_eq, Nat.shiftLeft_eq,
    Nat.shiftRight_eq_div_pow]
  constructor
  · intro h; exact Nat.eq_of_mul_eq_mul_right (Nat.two_pow_pos s) h
  · intro h; rw [h]

theorem wrap_detect_len {L : Nat} (hL : L = 1 ∨ L = 3 ∨ L = 7 ∨ L = 15) (s x : Nat) :
    (x &&& (L * 2 ^ s) = L * 2 ^ s) ↔ (x / 2 ^ s) % (L + 1) = L := by
  rcases hL with rfl | rfl | rfl | rfl
  · exact wrap_detect 1 s x
  · exact wrap_detect 2 s x
  · exact wrap_detect 3 s x
  · exact wrap_detect 4 s x

theorem wrapS13_id {x : Int} (h1 : -4096 ≤ x) (h2 : x < 4096) : wrapS13 x = x := by
  unfold wrapS13
  simp only
  split <;> omega

/-- Closed form of `beat_offset` after `k` accepted beats of request `r` (effective burst type `eb`). -/
def specOff (eb : Nat) (r : Req) (k : Nat) : Int :=
  if eb = BURST_INCR then (k : Int) * ((2 ^ r.size : Nat) : Int)
  else if eb = BURST_WRAP then
    if (r.addr / 2 ^ r.size) % (r.len + 1) + k < r.len + 1 then (k : Int) * ((2 ^ r.size : Nat) : Int)
    else (k : Int) * ((2 ^ r.size : Nat) : Int) - ((r.len + 1 : Nat) : Int) * ((2 ^ r.size : Nat) : Int)
  else 0

theorem specOff_zero (eb : Nat) (r : Req) : specOff eb r 0 = 0 := by
  unfold specOff
  have : r.addr / 2 ^ r.size % (r.len + 1) < r.len + 1 := Nat.mod_lt _ (Nat.succ_pos _)
  split
  · simp
  · split
    · simp [this]
    · rfl

theorem size_cases {s : Nat} (h : s < 8) :
    s = 0 ∨ s = 1 ∨ s = 2 ∨ s = 3 ∨ s = 4 ∨ s = 5 ∨ s = 6 ∨ s = 7 := by omega

/-- INCR: offset `k·2^S` — range, address at size granularity, and the next offset fits the register. -/
theorem incr_facts (A L S k Q : Nat) (hS : S < 8) (hA : A < 4096 * Q)
    (hleg : A / 2 ^ S * 2 ^ S % 4096 + (L + 1) * 2 ^ S ≤ 4096) (hk : k ≤ L) :
    0 ≤ (A : Int) + (k : Int) * ((2 ^ S : Nat) : Int) ∧
    (A : Int) + (k : Int) * ((2 ^ S : Nat) : Int) < ((4096 * Q : Nat) : Int) ∧
    ((A : Int) + (k : Int) * ((2 ^ S : Nat) : Int)).toNat / 2 ^ S
      = (if k = 0 then A else A / 2 ^ S * 2 ^ S + k * 2 ^ S) / 2 ^ S ∧
    2 ^ S % 4096 = 2 ^ S ∧
    (k : Int) * ((2 ^ S : Nat) : Int) < 4096 ∧
    (k < L → (k : Int) * ((2 ^ S : Nat) : Int) + ((2 ^ S : Nat) : Int) < 4096) ∧
    (A % 2 ^ S = 0 → ((A : Int) + (k : Int) * ((2 ^ S : Nat) : Int)).toNat
      = (if k = 0 then A else A / 2 ^ S * 2 ^ S + k * 2 ^ S)) := by
  rcases size_cases hS with rfl | rfl | rfl | rfl | rfl | rfl | rfl | rfl <;>
    simp only [Nat.reducePow] at hleg ⊢ <;>
    (refine ⟨?_, ?_, ?_, ?_, ?_, ?_, ?_⟩) <;>
    (first | trivial | omega | (split <;> omega) | (intro hal; split <;> omega))

/-- WRAP: the closed-form offset — range, address at size granularity against A3.4.1, when the mask test fires,
    and the next offset. -/
def WrapFacts (A L S k Q : Nat) : Prop :=
    let NB : Int := ((2 ^ S : Nat) : Int)
    let off : Int := if (A / 2 ^ S) % (L + 1) + k < L + 1 then (k : Int) * NB else (k : Int) * NB - ((L + 1 : Nat) : Int) * NB
    let off' : Int := if (A / 2 ^ S) % (L + 1) + (k + 1) < L + 1 then ((k + 1 : Nat) : Int) * NB
                      else ((k + 1 : Nat) : Int) * NB - ((L + 1 : Nat) : Int) * NB
    0 ≤ (A : Int) + off ∧ (A : Int) + off < ((4096 * Q : Nat) : Int) ∧
    ((A : Int) + off).toNat = axiSpecAddr A L S BURST_WRAP k ∧
    2 ^ S % 4096 = 2 ^ S ∧ L * 2 ^ S % 4096 = L * 2 ^ S ∧
    -4096 < off ∧ off < 4096 ∧
    (k < L → ((((A : Int) + off).toNat / 2 ^ S) % (L + 1) = L → off - ((L * 2 ^ S : Nat) : Int) = off' ∧ -4096 ≤ off') ∧
             (¬ (((A : Int) + off).toNat / 2 ^ S) % (L + 1) = L → off + NB = off' ∧ off' < 4096)) ∧
    (k = L → (((A : Int) + off).toNat / 2 ^ S) % (L + 1) = L → off - ((L * 2 ^ S : Nat) : Int) = 0)

/- One WRAP length: case split on the transfer size, every case is linear arithmetic. -/
set_option hygiene false in
macro "wrap_facts_tac" hS:ident hal:ident k:ident : tactic => `(tactic|
  (unfold WrapFacts
   intro NB off off'
   simp only [axiSpecAddr, BURST_WRAP, BURST_INCR, alignedAddr, wrapBoundary, numBytes, NB, off, off']
   rcases size_cases $hS with rfl | rfl | rfl | rfl | rfl | rfl | rfl | rfl <;>
    simp only [Nat.reducePow, Nat.reduceAdd, Nat.reduceMul, Nat.reduceEqDiff, if_false, if_true, ge_iff_le] at $hal:ident ⊢ <;>
    (refine ⟨?_, ?_, ?_, ?_, ?_, ?_, ?_, ?_, ?_⟩) <;>
    (first
      | trivial
      | omega
      | (split <;> omega)
      | (intros; split <;> omega)
      | (by_cases h2 : $k:ident = 0 <;> simp only [h2, if_true, if_false] <;> (repeat' split) <;> omega)
      | (intro hk1; constructor <;> intro hh <;> (repeat' split at hh) <;> (repeat' split) <;> omega))))

theorem wrap_facts_1 (A S k Q : Nat) (hS : S < 8) (hA : A < 4096 * Q) (hal : A % 2 ^ S = 0) (hk : k ≤ 1) :
    WrapFacts A 1 S k Q := by
  wrap_facts_tac hS hal k

theorem wrap_facts_3 (A S k Q : Nat) (hS : S < 8) (hA : A < 4096 * Q) (hal : A % 2 ^ S = 0) (hk : k ≤ 3) :
    WrapFacts A 3 S k Q := by
  wrap_facts_tac hS hal k

end Litex.Axi
