import LitexProofs.Axi.Burst2BeatArith2
/-
  One beat of a legal burst: in the state reached after `k` accepted beats the module presents the beat that
  A3.4.1 asks for (at transfer-size granularity), and accepting it leads to the state for `k+1` (or back to reset
  after the last beat).  `expState` is the closed form of the registers.
-/
namespace Litex.Axi

/-- Registers after `k` accepted beats of `r`. -/
def expState (eb : Nat) (r : Req) (k : Nat) : B2BState := { count := k, offset := specOff eb r k }

theorem expState_zero (eb : Nat) (r : Req) : expState eb r 0 = b2bInit := by
  simp [expState, specOff_zero, b2bInit]

theorem pow_aw {aw : Nat} (h : 12 ≤ aw) : ∃ Q, 2 ^ aw = 4096 * Q := by
  refine ⟨2 ^ (aw - 12), ?_⟩
  have : aw = 12 + (aw - 12) := by omega
  calc 2 ^ aw = 2 ^ (12 + (aw - 12)) := by rw [← this]
    _ = 4096 * 2 ^ (aw - 12) := by rw [Nat.pow_add]

theorem beatAddr_eq {aw : Nat} {r : Req} {s : B2BState} (h0 : 0 ≤ (r.addr : Int) + s.offset)
    (h1 : (r.addr : Int) + s.offset < ((2 ^ aw : Nat) : Int)) :
    beatAddr aw r s = ((r.addr : Int) + s.offset).toNat := by
  unfold beatAddr
  rw [Int.emod_eq_of_lt h0 h1]

/-- How the two run-time conditions of the code relate to the effective burst type. -/
theorem effBurst_cases (caps : Caps) (r : Req) :
    (effBurst caps r.burst = BURST_INCR ∧ incrOrWrap caps r = true ∧ (r.burst == BURST_WRAP && caps.wrap) = false) ∨
    (effBurst caps r.burst = BURST_WRAP ∧ incrOrWrap caps r = true ∧ (r.burst == BURST_WRAP && caps.wrap) = true) ∨
    (effBurst caps r.burst = BURST_FIXED ∧ incrOrWrap caps r = false ∧ (r.burst == BURST_WRAP && caps.wrap) = false) := by
  obtain ⟨ci, cw⟩ := caps
  unfold effBurst incrOrWrap BURST_INCR BURST_WRAP BURST_FIXED
  by_cases h1 : r.burst = 1
  · cases ci <;> cases cw <;> simp [h1]
  · by_cases h2 : r.burst = 2
    · cases ci <;> cases cw <;> simp [h2]
    · cases ci <;> cases cw <;> simp [h1, h2]

theorem nextCore_eq (io w : Bool) (aw k : Nat) (off : Int) (r : Req) (v : Bool) (hv : (v || !(k == 0)) = true) :
    b2bNextCore io w aw ⟨k, off⟩ ⟨v, r, true⟩ =
      { count := if k = r.len then 0 else (k + 1) % 256
        offset := if (w && wrapHit aw r ⟨k, off⟩) = true then wrapS13 (off - (beatWrap r : Int))
                  else if k = r.len then 0 else if io = true then wrapS13 (off + (beatSize r : Int)) else off } := by
  unfold b2bNextCore b2bFirst b2bLast
  simp only [hv, Bool.and_true, if_true, beq_iff_eq]

/-- What one cycle does in the state for `k` accepted beats when the master presents the legal request `r`. -/
structure BeatStep (caps : Caps) (aw : Nat) (r : Req) (eb : Nat) (k : Nat) : Prop where
  addr : beatAddr aw r (expState eb r k) / numBytes r.size
           = axiSpecAddr r.addr r.len r.size eb k / numBytes r.size
  next_last : k = r.len → ∀ v, (v || !(k == 0)) = true →
                b2bNext caps aw (expState eb r k) ⟨v, r, true⟩ = b2bInit
  next_more : k < r.len → ∀ v, (v || !(k == 0)) = true →
                b2bNext caps aw (expState eb r k) ⟨v, r, true⟩ = expState eb r (k + 1)
  fits : -4096 < specOff eb r k ∧ specOff eb r k < 4096
  addr_exact : (r.addr % numBytes r.size = 0 ∨ eb = BURST_FIXED) →
           beatAddr aw r (expState eb r k) = axiSpecAddr r.addr r.len r.size eb k

theorem specOff_incr (r : Req) (k : Nat) : specOff BURST_INCR r k = (k : Int) * ((2 ^ r.size : Nat) : Int) := by
  unfold specOff; rw [if_pos rfl]

theorem specOff_wrap (r : Req) (k : Nat) : specOff BURST_WRAP r k =
    if (r.addr / 2 ^ r.size) % (r.len + 1) + k < r.len + 1 then (k : Int) * ((2 ^ r.size : Nat) : Int)
    else (k : Int) * ((2 ^ r.size : Nat) : Int) - ((r.len + 1 : Nat) : Int) * ((2 ^ r.size : Nat) : Int) := by
  unfold specOff; rw [if_neg (by decide), if_pos rfl]

theorem specOff_fixed (r : Req) (k : Nat) : specOff BURST_FIXED r k = 0 := by
  unfold specOff; rw [if_neg (by decide), if_neg (by decide)]

theorem beat_step (caps : Caps) (aw : Nat) (haw : 12 ≤ aw) (r : Req) (k : Nat)
    (hleg : Legal aw r (effBurst caps r.burst)) (hk : k ≤ r.len) :
    BeatStep caps aw r (effBurst caps r.burst) k := by
  obtain ⟨Q, hQ⟩ := pow_aw haw
  obtain ⟨hA, hlen, hS, hrest⟩ := hleg
  rw [hQ] at hA
  have hk256 : k < r.len → (k + 1) % 256 = k + 1 := fun h => Nat.mod_eq_of_lt (by omega)
  rcases effBurst_cases caps r with ⟨heb, hio, hw⟩ | ⟨heb, hio, hw⟩ | ⟨heb, hio, hw⟩
  · -- INCR
    rw [heb] at hrest ⊢
    rw [if_pos rfl] at hrest
    unfold alignedAddr numBytes at hrest
    obtain ⟨f0, f1, f2, f3, f4, f5, f6⟩ := incr_facts r.addr r.len r.size k Q hS hA hrest hk
    have hnn : 0 ≤ (k : Int) * ((2 ^ r.size : Nat) : Int) := Int.mul_nonneg (Int.natCast_nonneg _) (Int.natCast_nonneg _)
    have hba : beatAddr aw r (expState BURST_INCR r k) = ((r.addr : Int) + (k : Int) * ((2 ^ r.size : Nat) : Int)).toNat := by
      have e : (expState BURST_INCR r k).offset = (k : Int) * ((2 ^ r.size : Nat) : Int) := specOff_incr r k
      rw [beatAddr_eq (by rw [e]; exact f0) (by rw [e, hQ]; exact f1), e]
    refine ⟨?_, ?_, ?_, ?_, ?_⟩
    · rw [hba, numBytes, f2]
      unfold axiSpecAddr alignedAddr numBytes
      rw [if_pos rfl]
    · intro hkl v hv
      unfold b2bNext expState
      rw [nextCore_eq _ _ _ _ _ _ _ hv, hw, hio]
      simp [hkl, b2bInit]
    · intro hkl v hv
      have hne : ¬ k = r.len := by omega
      have hfit := f5 hkl
      unfold b2bNext expState
      rw [nextCore_eq _ _ _ _ _ _ _ hv, hw, hio, if_neg hne, hk256 hkl, if_neg (by simp), if_neg hne, if_pos rfl,
        specOff_incr, specOff_incr, beatSize, f3, wrapS13_id (by omega) hfit]
      congr 1
      push_cast
      rw [Int.add_mul]; omega
    · rw [specOff_incr]; omega
    · intro hal
      rcases hal with hal | hal
      · rw [hba, f6 hal]
        unfold axiSpecAddr alignedAddr numBytes
        rw [if_pos rfl]
      · exact absurd hal (by decide)
  · -- WRAP
    rw [heb] at hrest ⊢
    rw [if_neg (by decide), if_pos rfl] at hrest
    unfold numBytes at hrest
    obtain ⟨hL, hal⟩ := hrest
    have F := wrap_facts r.addr r.len r.size k Q hS hL hA hal hk
    unfold WrapFacts at F
    simp only at F
    rw [← specOff_wrap, ← specOff_wrap] at F
    obtain ⟨f0, f1, f2, f3, f4, f5, f6, f7, f8⟩ := F
    have hba : beatAddr aw r (expState BURST_WRAP r k) = ((r.addr : Int) + specOff BURST_WRAP r k).toNat := by
      have e : (expState BURST_WRAP r k).offset = specOff BURST_WRAP r k := rfl
      rw [beatAddr_eq (by rw [e]; exact f0) (by rw [e, hQ]; exact f1), e]
    have hhit : wrapHit aw r (expState BURST_WRAP r k) = true ↔
        (((r.addr : Int) + specOff BURST_WRAP r k).toNat / 2 ^ r.size) % (r.len + 1) = r.len := by
      unfold wrapHit
      rw [hba, beatWrap, f4, beq_iff_eq]
      exact wrap_detect_len hL _ _
    refine ⟨?_, ?_, ?_, ⟨f5, f6⟩, ?_⟩
    rotate_left 3
    · intro _; rw [hba, f2]
    · rw [hba, f2]
    · intro hkl v hv
      have hn := nextCore_eq (incrOrWrap caps r) (r.burst == BURST_WRAP && caps.wrap) aw k (specOff BURST_WRAP r k) r v hv
      unfold b2bNext
      rw [show expState BURST_WRAP r k = ⟨k, specOff BURST_WRAP r k⟩ from rfl, hn, hw, hio, if_pos hkl, if_pos hkl]
      by_cases hh : wrapHit aw r (expState BURST_WRAP r k) = true
      · have h0 := f8 hkl (hhit.mp hh)
        rw [show expState BURST_WRAP r k = ⟨k, specOff BURST_WRAP r k⟩ from rfl] at hh
        rw [hh, Bool.and_self, if_pos rfl, beatWrap, f4, h0]
        rfl
      · rw [show expState BURST_WRAP r k = ⟨k, specOff BURST_WRAP r k⟩ from rfl] at hh
        rw [Bool.not_eq_true] at hh
        rw [hh, Bool.and_false, if_neg (by simp)]
        rfl
    · intro hkl v hv
      have hne : ¬ k = r.len := by omega
      obtain ⟨g1, g2⟩ := f7 hkl
      have hn := nextCore_eq (incrOrWrap caps r) (r.burst == BURST_WRAP && caps.wrap) aw k (specOff BURST_WRAP r k) r v hv
      unfold b2bNext
      rw [show expState BURST_WRAP r k = ⟨k, specOff BURST_WRAP r k⟩ from rfl, hn, hw, hio, if_neg hne, if_neg hne,
        hk256 hkl]
      by_cases hh : wrapHit aw r (expState BURST_WRAP r k) = true
      · obtain ⟨e1, e2⟩ := g1 (hhit.mp hh)
        rw [show expState BURST_WRAP r k = ⟨k, specOff BURST_WRAP r k⟩ from rfl] at hh
        rw [hh, Bool.and_self, if_pos rfl, beatWrap, f4, e1, wrapS13_id e2 (by omega)]
        rfl
      · obtain ⟨e1, e2⟩ := g2 (fun h => hh (hhit.mpr h))
        rw [show expState BURST_WRAP r k = ⟨k, specOff BURST_WRAP r k⟩ from rfl] at hh
        rw [Bool.not_eq_true] at hh
        rw [hh, Bool.and_false, if_neg (by simp), if_pos rfl, beatSize, f3, e1, wrapS13_id (by omega) e2]
        rfl
  · -- FIXED (including disabled capabilities and the reserved encoding)
    rw [heb]
    have hba : beatAddr aw r (expState BURST_FIXED r k) = r.addr := by
      have e : (expState BURST_FIXED r k).offset = 0 := specOff_fixed r k
      rw [beatAddr_eq (by rw [e]; omega) (by rw [e, hQ]; omega), e]
      simp
    refine ⟨?_, ?_, ?_, ?_, ?_⟩
    · rw [hba]; unfold axiSpecAddr; rw [if_neg (by decide), if_neg (by decide)]
    · intro hkl v hv
      unfold b2bNext expState
      rw [nextCore_eq _ _ _ _ _ _ _ hv, hw, hio]
      simp [hkl, b2bInit]
    · intro hkl v hv
      have hne : ¬ k = r.len := by omega
      unfold b2bNext expState
      rw [nextCore_eq _ _ _ _ _ _ _ hv, hw, hio, if_neg hne, hk256 hkl, if_neg (by simp), if_neg hne, if_neg (by simp),
        specOff_fixed, specOff_fixed]
    · rw [specOff_fixed]; omega
    · intro _; rw [hba]; unfold axiSpecAddr; rw [if_neg (by decide), if_neg (by decide)]

end Litex.Axi
