import LitexProofs.Axi.LiteShared
import LitexProofs.Axi.LiteCrossbar
/-
  C08: run-level consequences of the one-step lemmas — the invariant along runs, counters = scoreboard sizes,
  the lock (grant and select) held while requests are unanswered, bounded waiting, independence of the directions.
-/
namespace Litex.Axi.Lite
open Litex

/-! ### The counter -/

theorem ctrRun_spec : ∀ (evs : List (Bool × Bool)) (o : Nat), CtrLegal o evs → ctrRun o evs = outstandingSpec o evs := by
  intro evs
  induction evs with
  | nil => intro o _; rfl
  | cons e es ih =>
    intro o h
    obtain ⟨rq, rs⟩ := e
    obtain ⟨h1, h2, h3⟩ := h
    simp only [ctrRun, outstandingSpec]
    have : ctrNext o rq rs = o + (if rq then 1 else 0) - (if rs then 1 else 0) := by
      cases rq <;> cases rs
      · simp [ctrNext_none]
      · have : 0 < o := by
          rcases h1 rfl with h | h
          · cases h
          · exact h
        rw [ctrNext_rsp _ (by omega)]; simp
      · have : o < maxReq - 1 := by
          rcases h2 rfl with h | h
          · cases h
          · exact h
        rw [ctrNext_req _ this]; simp
      · rw [ctrNext_both]; simp
    rw [this]
    exact ih _ h3

/-! ### Invariants along runs -/

theorem Shared.inv_run (c : Cfg) (rd : Bool) (hd : Disjoint c) :
    ∀ (ins : List DirIn) (s : ShDir) (g : Fifo), Shared.Inv c s g → EnvAll (Shared.machine c rd) c rd s g ins →
      Shared.Inv c (runSB (Shared.machine c rd) c rd s g ins).1 (runSB (Shared.machine c rd) c rd s g ins).2 := by
  intro ins
  induction ins with
  | nil => intro s g h _; exact h
  | cons x xs ih =>
    intro s g h henv
    exact ih _ _ (Shared.step c rd hd s g x h henv.1).2 henv.2

theorem Crossbar.inv_run (c : Cfg) (rd : Bool) (hd : Disjoint c) :
    ∀ (ins : List DirIn) (s : XbDir) (g : Fifo), Crossbar.Inv c s g → EnvAll (Crossbar.machine c rd) c rd s g ins →
      Crossbar.Inv c (runSB (Crossbar.machine c rd) c rd s g ins).1 (runSB (Crossbar.machine c rd) c rd s g ins).2 := by
  intro ins
  induction ins with
  | nil => intro s g h _; exact h
  | cons x xs ih =>
    intro s g h henv
    exact ih _ _ (Crossbar.step c rd hd s g x h henv.1).2 henv.2

/-! ### Sums with a single non-zero term -/

theorem sum_range_zero (m : Nat) (f : Nat → Nat) (h : ∀ j, j < m → f j = 0) :
    ((List.range m).map f).sum = 0 := by
  induction m with
  | zero => rfl
  | succ k ih =>
    rw [List.range_succ, List.map_append, List.sum_append, ih (fun j hj => h j (by omega))]
    simp [h k (by omega)]

theorem sum_range_single (m L : Nat) (hL : L < m) (f : Nat → Nat) (h : ∀ j, j < m → j ≠ L → f j = 0) :
    ((List.range m).map f).sum = f L := by
  induction m with
  | zero => omega
  | succ k ih =>
    rw [List.range_succ, List.map_append, List.sum_append]
    by_cases hk : L = k
    · subst hk
      rw [sum_range_zero L f (fun j hj => h j (by omega) (by omega))]
      simp
    · rw [ih (by omega) (fun j hj hne => h j (by omega) hne)]
      simp [h k (by omega) (fun e => hk e.symm)]

/-- Shared interconnect: both counters equal the number of unanswered requests on the scoreboard. -/
theorem Shared.counters (c : Cfg) (s : ShDir) (g : Fifo) (h : Shared.Inv c s g) :
    s.arb.cnt = g.total c.m ∧ s.dec.cnt = g.total c.m := by
  have : s.arb.cnt = g.total c.m := by
    unfold Fifo.total
    by_cases hK : s.arb.cnt = 0
    · rw [hK, sum_range_zero c.m _ (fun j hj => by rw [h.idle hK j hj]; rfl)]
    · obtain ⟨L, hL, _, hgL, hoth⟩ := h.locked hK
      rw [sum_range_single c.m L hL _ (fun j hj hne => by rw [hoth j hj hne]; rfl), hgL]
      simp
  exact ⟨this, by rw [h.cnt_eq]; exact this⟩

/-- Crossbar: arbiter `j` counts slave `j`'s unanswered requests, decoder `i` counts master `i`'s. -/
theorem Crossbar.counters (c : Cfg) (s : XbDir) (g : Fifo) (h : Crossbar.Inv c s g) :
    (∀ j, j < c.m → (Crossbar.arb s j).cnt = (g j).length) ∧
    (∀ i, i < c.n → (Crossbar.dcd s i).cnt = g.ofMaster c.m i) := by
  constructor
  · intro j hj
    rw [(h.arbs j hj).2.2]; simp
  · intro i hi
    unfold Fifo.ofMaster
    have hcount : ∀ j, j < c.m → ((Crossbar.arb s j).cnt ≠ 0 → (Crossbar.arb s j).grant ≠ i) → (g j).count i = 0 := by
      intro j hj hne
      rw [(h.arbs j hj).2.2]
      by_cases hK : (Crossbar.arb s j).cnt = 0
      · rw [hK]; rfl
      · rw [List.count_replicate]
        simp [hne hK]
    by_cases hK : (Crossbar.dcd s i).cnt = 0
    · rw [hK, sum_range_zero c.m _ (fun j hj => hcount j hj (h.idle i hi hK j hj))]
    · obtain ⟨L, hL, _, hg, hcnt, hoth⟩ := h.locked i hi hK
      rw [sum_range_single c.m L hL _ (fun j hj hne => hcount j hj (hoth j hj hne)), (h.arbs L hL).2.2, hg,
          List.count_replicate]
      simp [hcnt]

/-! ### Bounded waiting -/

/-- One cycle of an arbiter direction while master `i` presents an address: a hand-over opportunity
    (`ce` with somebody else owning the grant) moves the grant strictly closer to `i`; otherwise it does not move
    away. -/
theorem Arb.wait_step (n : Nat) (gated : Bool) (s : ArbState) (ms : Nat → DMS) (sm : DSM) (i : Nat)
    (hg : s.grant < n) (hi : i < n) (hreq : (ms i).aValid = true) :
    (if Arb.ce s ms sm = true ∧ s.grant ≠ i then 1 else 0) +
      RoundRobin.dist n (Arb.next n gated s ms sm).grant i ≤ RoundRobin.dist n s.grant i := by
  by_cases hgi : s.grant = i
  · have : (Arb.next n gated s ms sm).grant = s.grant := by
      apply Arb.grant_frozen n gated s ms sm hg
      right; left; rw [hgi]; exact hreq
    rw [this]
    simp [hgi]
  · by_cases hce : Arb.ce s ms sm = true
    · have hr : Arb.req s ms sm i = true := by simp [Arb.req, hreq]
      have := (RoundRobin.next_ne_self_of_other_req .ce (Arb.req s ms sm) (Arb.ce s ms sm) hg hi
        (fun e => hgi e.symm) hr (by simpa [RoundRobin.enabled] using hce)).2
      have e : (Arb.next n gated s ms sm).grant = RoundRobin.next .ce n s.grant (Arb.req s ms sm) (Arb.ce s ms sm) := rfl
      rw [e]
      have hif : (if Arb.ce s ms sm = true ∧ s.grant ≠ i then 1 else 0) = 1 := by
        rw [if_pos ⟨hce, hgi⟩]
      rw [hif]
      omega
    · have hce' : Arb.ce s ms sm = false := by simpa using hce
      have e : (Arb.next n gated s ms sm).grant = s.grant := by
        show RoundRobin.next .ce n s.grant _ (Arb.ce s ms sm) = _
        rw [hce']
        exact RoundRobin.next_ce_hold _ hg
      rw [e]
      simp [hce']

theorem Shared.bounded_wait (c : Cfg) (rd : Bool) (i : Nat) (hi : i < c.n) :
    ∀ (ins : List DirIn) (s : ShDir), s.arb.grant < c.n → (∀ x ∈ ins, (x.ms i).aValid = true) →
      Shared.handovers c rd i s ins + RoundRobin.dist c.n ((Shared.machine c rd).runFrom s ins).arb.grant i
        ≤ RoundRobin.dist c.n s.arb.grant i := by
  intro ins
  induction ins with
  | nil => intro s _ _; simp [Shared.handovers, Machine.runFrom]
  | cons x xs ih =>
    intro s hg hreq
    have h1 := Arb.wait_step c.n (c.gated rd) s.arb x.ms (Shared.busSM c rd s x) i hg hi (hreq x (by simp))
    have hg' : (Shared.next c rd s x).arb.grant < c.n := Arb.next_grant_lt _ _ _ _ _ hg
    have h2 := ih (Shared.next c rd s x) hg' (fun y hy => hreq y (by simp [hy]))
    simp only [Shared.handovers, Machine.runFrom]
    have e : (Shared.next c rd s x).arb = Arb.next c.n (c.gated rd) s.arb x.ms (Shared.busSM c rd s x) := rfl
    rw [e] at h2
    show _ + RoundRobin.dist c.n ((Shared.machine c rd).runFrom (Shared.next c rd s x) xs).arb.grant i ≤ _
    omega

theorem Crossbar.arb_next' (c : Cfg) (rd : Bool) (s : XbDir) (x : DirIn) (j : Nat) (hj : j < c.m) :
    Crossbar.arb (Crossbar.next c rd s x) j =
      Arb.next c.n (c.gated rd) (Crossbar.arb s j) (fun i => Crossbar.accMS c rd s x i j) (x.ss j) := by
  unfold Crossbar.arb Crossbar.next
  exact getD_map_range' c.m j hj _ _

theorem Crossbar.bounded_wait (c : Cfg) (rd : Bool) (i j : Nat) (hi : i < c.n) (hj : j < c.m) :
    ∀ (ins : List DirIn) (s : XbDir), (Crossbar.arb s j).grant < c.n → Crossbar.Requests c rd i j s ins →
      Crossbar.handovers c rd i j s ins +
        RoundRobin.dist c.n (Crossbar.arb ((Crossbar.machine c rd).runFrom s ins) j).grant i
        ≤ RoundRobin.dist c.n (Crossbar.arb s j).grant i := by
  intro ins
  induction ins with
  | nil => intro s _ _; simp [Crossbar.handovers, Machine.runFrom]
  | cons x xs ih =>
    intro s hg hreq
    have h1 := Arb.wait_step c.n (c.gated rd) (Crossbar.arb s j) (fun k => Crossbar.accMS c rd s x k j) (x.ss j) i
      hg hi hreq.1
    have e := Crossbar.arb_next' c rd s x j hj
    have hg' : (Crossbar.arb (Crossbar.next c rd s x) j).grant < c.n := by
      rw [e]; exact Arb.next_grant_lt _ _ _ _ _ hg
    have h2 := ih (Crossbar.next c rd s x) hg' hreq.2
    simp only [Crossbar.handovers, Machine.runFrom]
    rw [e] at h2
    show _ + RoundRobin.dist c.n (Crossbar.arb ((Crossbar.machine c rd).runFrom (Crossbar.next c rd s x) xs) j).grant i ≤ _
    omega

/-! ### The lock: grant and select are held while requests are unanswered -/

theorem Shared.lock_held (c : Cfg) (rd : Bool) (s : ShDir) (g : Fifo) (h : Shared.Inv c s g)
    (j : Nat) (hj : j < c.m) (hne : g j ≠ []) :
    (∀ x, (Shared.next c rd s x).arb.grant = s.arb.grant) ∧
    (∀ x k, k < c.m → Shared.selOf c rd s x k = (k == j)) ∧
    (∀ a ∈ g j, a = s.arb.grant) := by
  have hK : s.arb.cnt ≠ 0 := fun h0 => hne (h.idle h0 j hj)
  obtain ⟨L, hL, hR, hgL, hoth⟩ := h.locked hK
  have hjL : j = L := by
    by_cases e : j = L
    · exact e
    · exact absurd (hoth j hj e) hne
  subst hjL
  refine ⟨fun x => Arb.grant_frozen c.n (c.gated rd) s.arb x.ms _ h.grant_lt (Or.inl hK), ?_, ?_⟩
  · intro x k hk
    unfold Shared.selOf
    rw [Dec.sel_locked (c.decCfg rd) s.dec _ k (by rw [h.cnt_eq]; exact hK)]
    exact hR k hk
  · intro a ha
    rw [hgL] at ha
    exact (List.mem_replicate.mp ha).2

theorem Crossbar.lock_held (c : Cfg) (rd : Bool) (s : XbDir) (g : Fifo) (h : Crossbar.Inv c s g)
    (j : Nat) (hj : j < c.m) (hne : g j ≠ []) :
    (∀ x, (Crossbar.arb (Crossbar.next c rd s x) j).grant = (Crossbar.arb s j).grant) ∧
    (∀ i, i < c.n → i ∈ g j → ∀ x k, k < c.m → Crossbar.selI c rd s x i k = (k == j)) ∧
    (∀ a ∈ g j, a = (Crossbar.arb s j).grant) := by
  obtain ⟨hg, _, hgj⟩ := h.arbs j hj
  have hK : (Crossbar.arb s j).cnt ≠ 0 := by
    intro h0; rw [hgj, h0] at hne; exact hne rfl
  refine ⟨?_, ?_, ?_⟩
  · intro x
    rw [Crossbar.arb_next' c rd s x j hj]
    exact Arb.grant_frozen c.n (c.gated rd) _ _ _ hg (Or.inl hK)
  · intro i hi hmem x k hk
    rw [hgj] at hmem
    have hgi : (Crossbar.arb s j).grant = i := (List.mem_replicate.mp hmem).2.symm
    have hKi : (Crossbar.dcd s i).cnt ≠ 0 := fun h0 => h.idle i hi h0 j hj hK hgi
    obtain ⟨L, hL, hR, _, _, hoth⟩ := h.locked i hi hKi
    have hjL : j = L := by
      by_cases e : j = L
      · exact e
      · exact absurd hgi (hoth j hj e hK)
    subst hjL
    unfold Crossbar.selI
    rw [Dec.sel_locked (c.decCfg rd) _ _ k hKi]
    exact hR k hk
  · intro a ha
    rw [hgj] at ha
    exact (List.mem_replicate.mp ha).2

/-! ### Independence of the two directions -/

theorem both_run {σ : Type} (mw mr : Machine DirIn σ DirOut) :
    ∀ (ins : List BusIn) (s : RW σ),
      ((both mw mr).runFrom s ins).w = mw.runFrom s.w (ins.map wIn) ∧
      ((both mw mr).runFrom s ins).r = mr.runFrom s.r (ins.map rIn) := by
  intro ins
  induction ins with
  | nil => intro s; exact ⟨rfl, rfl⟩
  | cons x xs ih =>
    intro s
    exact ih ((both mw mr).next s x)

theorem both_trace {σ : Type} (mw mr : Machine DirIn σ DirOut) :
    ∀ (ins : List BusIn) (s : RW σ),
      ((both mw mr).traceFrom s ins).map (fun o => (fun j => (o.toS j).w, fun i => (o.toM i).w)) =
        (mw.traceFrom s.w (ins.map wIn)).map (fun o => (o.toS, o.toM)) ∧
      ((both mw mr).traceFrom s ins).map (fun o => (fun j => (o.toS j).r, fun i => (o.toM i).r)) =
        (mr.traceFrom s.r (ins.map rIn)).map (fun o => (o.toS, o.toM)) := by
  intro ins
  induction ins with
  | nil => intro s; exact ⟨rfl, rfl⟩
  | cons x xs ih =>
    intro s
    obtain ⟨h1, h2⟩ := ih ((both mw mr).next s x)
    constructor
    · simp only [Machine.traceFrom, List.map_cons]
      rw [h1]; rfl
    · simp only [Machine.traceFrom, List.map_cons]
      rw [h2]; rfl

end Litex.Axi.Lite
