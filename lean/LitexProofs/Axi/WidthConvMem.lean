import LitexModel.Axi.WidthConvMem
import LitexProofs.Axi.WidthConv
import LitexProofs.Axi.WidthConvData
/-
  Byte-lane placement and end-to-end byte semantics of the width converters.

  Core fact (`incr_burstWrites`): for a full-width INCR burst on a `bus`-byte bus the ordered byte writes are the
  *positional* writes (`laneWrites`) of the concatenation of all data words, from the start address on - so they
  depend only on the byte stream, not on how it is cut into beats.  Both converters keep the byte stream
  (`(W.map flatten).flatten = W.flatten.flatten`), hence the same bytes reach the same addresses in the same order.
-/
namespace Litex.Axi
open Litex.Stream

/-- Positional writes: lane `i` of `w` goes to byte address `a + i` (if strobed). -/
def laneWrites : Nat → BWord → List (Nat × Nat)
  | _, [] => []
  | a, (v, s) :: w => (if s then [(a, v)] else []) ++ laneWrites (a + 1) w

theorem laneWrites_append (w1 w2 : BWord) :
    ∀ a, laneWrites a (w1 ++ w2) = laneWrites a w1 ++ laneWrites (a + w1.length) w2 := by
  induction w1 with
  | nil => intro a; simp [laneWrites]
  | cons x w ih =>
    intro a
    obtain ⟨v, s⟩ := x
    simp [laneWrites, ih, Nat.add_assoc, Nat.add_comm 1]

theorem laneWrites_nostrobe (w : BWord) (h : ∀ x ∈ w, x.2 = false) : ∀ a, laneWrites a w = [] := by
  induction w with
  | nil => intro a; rfl
  | cons x w ih =>
    intro a
    obtain ⟨v, s⟩ := x
    have hs : s = false := h (v, s) (by simp)
    subst hs
    simp [laneWrites, ih (fun y hy => h y (by simp [hy]))]

/-- Lane placement of one transfer: the bytes `base+o … base+o+n-1` of a word-aligned window come from lanes
    `o … o+n-1`. -/
theorem beatWrites_range (bus : Nat) (w : BWord) (base : Nat) (hb : base % bus = 0) (hw : w.length = bus) :
    ∀ (n o : Nat), o + n ≤ bus →
      beatWrites bus w (List.range' (base + o) n) = laneWrites (base + o) ((w.drop o).take n) := by
  intro n
  induction n with
  | zero => intro o _; simp [beatWrites, laneWrites]
  | succ n ih =>
    intro o ho
    have ho' : o < bus := by omega
    have hmod : (base + o) % bus = o := by
      rw [Nat.add_mod, hb, Nat.zero_add, Nat.mod_mod, Nat.mod_eq_of_lt ho']
    have hdrop : w.drop o = w[o] :: w.drop (o + 1) := List.drop_eq_getElem_cons (by omega)
    have hi := ih (o + 1) (by omega)
    rw [← Nat.add_assoc] at hi
    rw [List.range'_succ, hdrop, List.take_succ_cons]
    unfold beatWrites at hi ⊢
    rw [List.flatMap_cons, hi, hmod, List.getElem?_eq_getElem (by omega)]
    rcases hx : w[o] with ⟨v, s⟩
    cases s <;> simp [laneWrites]

def seqWrites (bus : Nat) : Nat → List BWord → List (Nat × Nat)
  | _, [] => []
  | a, w :: ws => laneWrites a w ++ seqWrites bus (a + bus) ws

theorem seqWrites_flatten (bus : Nat) (ws : List BWord) (h : ∀ w ∈ ws, w.length = bus) :
    ∀ a, seqWrites bus a ws = laneWrites a ws.flatten := by
  induction ws with
  | nil => intro a; rfl
  | cons w ws ih =>
    intro a
    simp only [seqWrites, List.flatten_cons, laneWrites_append, h w (by simp)]
    rw [ih (fun y hy => h y (by simp [hy]))]

theorem range_flatMap_seq (bus : Nat) (ws : List BWord) :
    ∀ a, (List.range ws.length).flatMap (fun k => laneWrites (a + k * bus) (ws.getD k [])) = seqWrites bus a ws := by
  induction ws with
  | nil => intro a; rfl
  | cons w ws ih =>
    intro a
    rw [List.length_cons, List.range_succ_eq_map, List.flatMap_cons, List.flatMap_map, seqWrites, ← ih (a + bus)]
    congr 1
    · simp
    · apply flatMap_congr'
      intro k _
      simp only [Function.comp, List.getD_cons_succ]
      congr 1
      rw [Nat.succ_mul]; omega

theorem length_flatten_of_length {α : Type} (n : Nat) (L : List (List α)) (h : ∀ g ∈ L, g.length = n) :
    L.flatten.length = L.length * n := by
  induction L with
  | nil => simp
  | cons g L ih =>
    rw [List.flatten_cons, List.length_append, h g (by simp), ih (fun y hy => h y (by simp [hy])),
      List.length_cons, Nat.succ_mul]
    omega

/-- **Byte semantics of a full-width INCR burst**, any start address: the positional writes of the byte stream
    of all beats, beginning at lane `addr % bus` of the first word. -/
theorem incr_burstWrites (bus : Nat) (r : Req) (words : List BWord) (hb : r.burst = BURST_INCR)
    (hsz : numBytes r.size = bus) (hlen : words.length = r.len + 1) (hw : ∀ w ∈ words, w.length = bus) :
    burstWrites bus r words = laneWrites r.addr (words.flatten.drop (r.addr % bus)) := by
  have hpos : 0 < bus := by rw [← hsz]; exact Nat.two_pow_pos _
  obtain ⟨w0, rest, rfl⟩ : ∃ w0 rest, words = w0 :: rest := by
    cases words with
    | nil => simp at hlen
    | cons a b => exact ⟨a, b, rfl⟩
  have hrl : rest.length = r.len := by simpa using hlen
  have hw0 : w0.length = bus := hw w0 (by simp)
  have hwr : ∀ w ∈ rest, w.length = bus := fun w h => hw w (by simp [h])
  generalize hal : alignedAddr r.addr r.size = al
  generalize ho : r.addr % bus = o
  have halmod : al % bus = 0 := by
    rw [← hal]; unfold alignedAddr; rw [hsz]; exact Nat.mul_mod_left _ _
  have haddr : r.addr = al + o := by
    rw [← hal, ← ho]; unfold alignedAddr; rw [hsz]
    have := Nat.div_add_mod r.addr bus
    rw [Nat.mul_comm] at this; omega
  have hol : o < bus := by rw [← ho]; exact Nat.mod_lt _ hpos
  have hspec0 : axiSpecAddr r.addr rest.length r.size r.burst 0 = r.addr := by
    unfold axiSpecAddr; rw [hb, if_pos rfl, if_pos rfl]
  have hspec : ∀ j, axiSpecAddr r.addr rest.length r.size r.burst (j + 1) = al + (j + 1) * bus := by
    intro j; unfold axiSpecAddr; rw [hb, if_pos rfl, if_neg (by omega), hal, hsz]
  unfold burstWrites
  rw [← hrl, List.range_succ_eq_map, List.flatMap_cons, List.flatMap_map]
  -- beat 0
  have h0 : beatWrites bus ((w0 :: rest).getD 0 []) (beatBytes r.addr rest.length r.size r.burst 0)
      = laneWrites r.addr (w0.drop o) := by
    have hbb : beatBytes r.addr rest.length r.size r.burst 0 = List.range' (al + o) (bus - o) := by
      unfold beatBytes
      simp only [hspec0, hal, hsz]
      rw [haddr]
      congr 1; omega
    rw [hbb]
    simp only [List.getD_cons_zero]
    rw [beatWrites_range bus w0 al halmod hw0 (bus - o) o (by omega), haddr,
      List.take_of_length_le (by rw [List.length_drop]; omega)]
  -- beats 1 …
  have hrest : List.flatMap (fun a => beatWrites bus ((w0 :: rest).getD a.succ [])
        (beatBytes r.addr rest.length r.size r.burst a.succ)) (List.range rest.length)
      = seqWrites bus (al + bus) rest := by
    rw [← range_flatMap_seq]
    apply flatMap_congr'
    intro j hj
    have hj' : j < rest.length := List.mem_range.mp hj
    have hwj : (rest.getD j []).length = bus := by
      rw [List.getD_eq_getElem?_getD, List.getElem?_eq_getElem hj']; exact hwr _ (List.getElem_mem hj')
    have hbase : al + bus + j * bus = al + (j + 1) * bus := by rw [Nat.succ_mul]; omega
    have hbmod : (al + (j + 1) * bus) % bus = 0 := by
      rw [Nat.add_mod, halmod, Nat.mul_mod_left]; simp
    have hbb : beatBytes r.addr rest.length r.size r.burst (j + 1) = List.range' (al + (j + 1) * bus + 0) bus := by
      have hali : alignedAddr (al + (j + 1) * bus) r.size = al + (j + 1) * bus := by
        apply alignedAddr_of_dvd; rw [hsz]; exact Nat.dvd_of_mod_eq_zero hbmod
      unfold beatBytes
      simp only [hspec, hali, hsz]
      congr 1; omega
    simp only [Nat.succ_eq_add_one, List.getD_cons_succ]
    rw [hbb, beatWrites_range bus _ _ hbmod hwj bus 0 (by omega), List.drop_zero,
      List.take_of_length_le (by omega), Nat.add_zero, hbase]
  rw [h0, hrest, seqWrites_flatten bus rest hwr, List.flatten_cons,
    List.drop_append_of_le_length (by omega), laneWrites_append, List.length_drop, hw0, haddr]
  congr 2
  omega

theorem flatten_map_flatten {α : Type} (W : List (List (List α))) : (W.map List.flatten).flatten = W.flatten.flatten := by
  induction W with
  | nil => rfl
  | cons g W ih => simp [ih]

/-- **Up-converter, end to end** (W path / R path): the wide burst `upAx k r` with the wide words `W.map flatten`
    commits exactly the byte writes of the narrow burst `r` with the narrow words `W.flatten`, in the same order. -/
theorem up_burstWrites (k : Nat) (r : Req) (W : List (List BWord)) (hb : r.burst = BURST_INCR) (hs : r.size + k < 8)
    (hal : r.addr % numBytes (r.size + k) = 0) (hW : W.length * 2 ^ k = r.len + 1)
    (hg : ∀ g ∈ W, g.length = 2 ^ k) (hw : ∀ g ∈ W, ∀ w ∈ g, w.length = numBytes r.size) :
    burstWrites (numBytes (r.size + k)) (upAx k r) (W.map List.flatten)
      = burstWrites (numBytes r.size) r W.flatten := by
  have hmul : (r.len + 1) % 2 ^ k = 0 := by rw [← hW]; exact Nat.mul_mod_left _ _
  have hlen' : W.length = r.len / 2 ^ k + 1 := by
    have := len_div_mul hmul
    rw [← hW] at this
    exact (Nat.eq_of_mul_eq_mul_right (Nat.two_pow_pos k) this).symm
  have hal2 : r.addr % numBytes r.size = 0 := by
    have : numBytes r.size ∣ numBytes (r.size + k) := by
      unfold numBytes; exact Nat.pow_dvd_pow 2 (Nat.le_add_right _ _)
    exact Nat.mod_eq_zero_of_dvd (Nat.dvd_trans this (Nat.dvd_of_mod_eq_zero hal))
  have hsz : (r.size + k) % 8 = r.size + k := Nat.mod_eq_of_lt hs
  have hwide : ∀ w ∈ W.map List.flatten, w.length = numBytes (r.size + k) := by
    intro w hwm
    obtain ⟨g, hgm, rfl⟩ := List.mem_map.mp hwm
    rw [length_flatten_of_length (numBytes r.size) g (hw g hgm), hg g hgm]
    unfold numBytes; rw [Nat.pow_add, Nat.mul_comm]
  have hnar : ∀ w ∈ W.flatten, w.length = numBytes r.size := by
    intro w hwm
    obtain ⟨g, hgm, hwg⟩ := List.mem_flatten.mp hwm
    exact hw g hgm w hwg
  rw [incr_burstWrites (numBytes (r.size + k)) (upAx k r) _ (by simp [upAx, hb]) (by simp [upAx, hsz])
        (by simp [upAx, hlen']) hwide,
      incr_burstWrites (numBytes r.size) r _ hb rfl
        (by rw [length_flatten_of_length (2 ^ k) W hg, hW]) hnar]
  have ha : (upAx k r).addr = r.addr := rfl
  rw [ha, hal, hal2, flatten_map_flatten]

/-- **Down-converter, end to end**, any start address inside the first wide word: the narrow burst
    `downAx sf st r` with the narrow words `W.flatten` commits exactly the byte writes of the wide burst `r` with
    the wide words `W.map flatten` - provided the master keeps the strobes of the lanes below the start address
    low (A3.4.3: strobes only on the byte lanes of the transfer). -/
theorem down_burstWrites (sf st : Nat) (r : Req) (W : List (List BWord)) (hst : st ≤ sf) (hb : r.burst = BURST_INCR)
    (hs : r.size = sf) (hfit : (r.len + 1) * 2 ^ (sf - st) ≤ 256) (hW : W.length = r.len + 1)
    (hg : ∀ g ∈ W, g.length = 2 ^ (sf - st)) (hw : ∀ g ∈ W, ∀ w ∈ g, w.length = numBytes st)
    (hstrb : ∀ x ∈ W.flatten.flatten.take (r.addr % numBytes sf), x.2 = false) :
    burstWrites (numBytes st) (downAx sf st r) W.flatten
      = burstWrites (numBytes sf) r (W.map List.flatten) := by
  have hpos : 0 < (r.len + 1) * 2 ^ (sf - st) := Nat.mul_pos (Nat.succ_pos _) (Nat.two_pow_pos _)
  have hlen : ((r.len + 1) * 2 ^ (sf - st) - 1) % 256 + 1 = (r.len + 1) * 2 ^ (sf - st) := by
    rw [Nat.mod_eq_of_lt (by omega)]; omega
  have hsize : (if r.size ≤ st then r.size else st) = st := by
    split
    · omega
    · rfl
  have hwide : ∀ w ∈ W.map List.flatten, w.length = numBytes sf := by
    intro w hwm
    obtain ⟨g, hgm, rfl⟩ := List.mem_map.mp hwm
    rw [length_flatten_of_length (numBytes st) g (hw g hgm), hg g hgm]
    unfold numBytes; exact two_pow_sub_mul hst
  have hnar : ∀ w ∈ W.flatten, w.length = numBytes st := by
    intro w hwm
    obtain ⟨g, hgm, hwg⟩ := List.mem_flatten.mp hwm
    exact hw g hgm w hwg
  have hdaddr : (downAx sf st r).addr = alignedAddr r.addr sf := rfl
  have halst : alignedAddr r.addr sf % numBytes st = 0 := by
    apply Nat.mod_eq_zero_of_dvd
    unfold alignedAddr numBytes
    exact Nat.dvd_trans (Nat.pow_dvd_pow 2 hst) (Nat.dvd_mul_left _ _)
  rw [incr_burstWrites (numBytes st) (downAx sf st r) _ (by simp [downAx, hb]) (by simp only [downAx, hsize])
        (by simp only [downAx]; rw [length_flatten_of_length _ W hg, hW, hlen]) hnar,
      incr_burstWrites (numBytes sf) r _ hb (by rw [hs]) (by simpa using hW) hwide,
      hdaddr, halst, List.drop_zero, flatten_map_flatten]
  generalize hF : W.flatten.flatten = F at *
  generalize ho : r.addr % numBytes sf = o at *
  have hFlen : F.length = (r.len + 1) * numBytes sf := by
    rw [← hF, length_flatten_of_length (numBytes st) W.flatten hnar, length_flatten_of_length _ W hg, hW,
      Nat.mul_assoc]
    unfold numBytes; rw [two_pow_sub_mul hst]
  have hol : o < numBytes sf := by rw [← ho]; exact Nat.mod_lt _ (Nat.two_pow_pos _)
  have hole : o ≤ F.length := by
    rw [hFlen, Nat.succ_mul]; omega
  have haddr : r.addr = alignedAddr r.addr sf + o := by
    rw [← ho]; unfold alignedAddr
    have := Nat.div_add_mod r.addr (numBytes sf)
    rw [Nat.mul_comm] at this; omega
  conv => lhs; rw [← List.take_append_drop o F]
  rw [laneWrites_append, laneWrites_nostrobe _ hstrb, List.nil_append, List.length_take, Nat.min_eq_left hole,
    ← haddr]

/-- The reference memory after a burst depends only on the ordered byte writes. -/
theorem mem_refines (mem : Nat → Nat) (w1 w2 : List (Nat × Nat)) (h : w1 = w2) : memApply mem w1 = memApply mem w2 := by
  rw [h]

/-! ### the transaction-level data paths produce those words -/

theorem beatToks_length (beats : List BWord) : (beatToks beats).length = beats.length := by simp [beatToks]

theorem beatToks_data (beats : List BWord) : (beatToks beats).map (·.data.1) = beats := by
  apply List.ext_getElem
  · simp [beatToks]
  · intro i h1 h2
    simp [beatToks] at h1 ⊢
    simp [h2]

/-- two lists of lists whose members all have the same positive length and which flatten to the same list are equal -/
theorem eq_of_flatten_eq {α : Type} (n : Nat) (hn : 0 < n) : ∀ (A B : List (List α)),
    (∀ g ∈ A, g.length = n) → (∀ g ∈ B, g.length = n) → A.flatten = B.flatten → A = B := by
  intro A
  induction A with
  | nil =>
    intro B _ hB h
    cases B with
    | nil => rfl
    | cons b B =>
      have hb := hB b (by simp)
      have : b = [] := by
        have h' : ([] : List α) = b ++ B.flatten := by simpa using h
        exact (List.append_eq_nil_iff.mp h'.symm).1
      subst this; simp at hb; omega
  | cons a A ih =>
    intro B hA hB h
    cases B with
    | nil =>
      have ha := hA a (by simp)
      have h' : a ++ A.flatten = [] := by simpa using h
      have : a = [] := (List.append_eq_nil_iff.mp h').1
      subst this; simp at ha; omega
    | cons b B =>
      have ha := hA a (by simp)
      have hb := hB b (by simp)
      have h' : a ++ A.flatten = b ++ B.flatten := by simpa using h
      have hab : a = b ∧ A.flatten = B.flatten := List.append_inj h' (by omega)
      rw [hab.1, ih B (fun g hg => hA g (by simp [hg])) (fun g hg => hB g (by simp [hg])) hab.2]

/-- **`_UpConverter` at transaction level**: a burst of `n·R` narrow beats (`W.flatten`, `W` = the beats grouped
    `R` at a time) leaves the converter as the wide words `W.map flatten` - wide word `m` carries narrow beat
    `m·R + q` in its lane group `q` (byte lanes `q·nb … q·nb + nb − 1`). -/
theorem upWords_groups (R : Nat) (hR : 0 < R) (W : List (List BWord)) (hne : W ≠ []) (hg : ∀ g ∈ W, g.length = R) :
    upWords R W.flatten = W.map List.flatten := by
  have hlen : W.flatten.length = W.length * R := length_flatten_of_length R W hg
  have hWpos : 0 < W.length := List.length_pos_iff.mpr hne
  obtain ⟨m, hm⟩ : ∃ m, W.flatten.length = m + 1 := by
    have : 0 < W.length * R := Nat.mul_pos hWpos hR
    exact ⟨W.flatten.length - 1, by omega⟩
  generalize hbe : W.flatten = beats at *
  let f : Nat → Tok (BWord × Unit) := fun i =>
    { data := (beats.getD i [], ()), first := false, last := i + 1 == beats.length }
  have htoks : beatToks beats = (List.range m).map f ++ [f m] := by
    unfold beatToks; rw [hm, List.range_succ, List.map_append]; simp only [f, hm]; rfl
  have hno : ∀ x ∈ (List.range m).map f, x.last = false := by
    intro x hx
    obtain ⟨i, hi, rfl⟩ := List.mem_map.mp hx
    have : i < m := List.mem_range.mp hi
    simp [f, hm]; omega
  have ht : (f m).last = true := by simp [f, hm]
  obtain ⟨_, hfl, hcl, _, _⟩ := burst_chunks R W.length hR ((List.range m).map f) (f m) hno ht
    (by simp; omega)
  rw [← htoks] at hfl hcl
  unfold upWords
  have hC : (chunks R (beatToks beats)).map (fun c => c.map (·.data.1)) = W := by
    apply eq_of_flatten_eq R hR
    · intro g hgm
      obtain ⟨c, hc, rfl⟩ := List.mem_map.mp hgm
      simp [hcl c hc]
    · exact hg
    · rw [← List.map_flatten, hfl, beatToks_data, hbe]
  rw [← hC, List.map_map]
  rfl

theorem lanesOf_flatten (nb : Nat) : ∀ (g : List BWord), (∀ w ∈ g, w.length = nb) →
    lanesOf nb g.length g.flatten = g := by
  intro g
  induction g with
  | nil => intro _; rfl
  | cons a g ih =>
    intro hw
    have ha : a.length = nb := hw a (by simp)
    unfold lanesOf at ih ⊢
    rw [List.length_cons, List.range_succ_eq_map, List.map_cons, List.map_map, List.flatten_cons]
    congr 1
    · simp [ha]
    · conv => rhs; rw [← ih (fun w h => hw w (by simp [h]))]
      apply List.map_congr_left
      intro q _
      simp only [Function.comp]
      have : (q + 1) * nb = a.length + q * nb := by rw [Nat.succ_mul, ha]; omega
      rw [this, List.drop_append, List.drop_of_length_le (by omega), List.nil_append]
      congr 2; omega

/-- **`_DownConverter` at transaction level**: the wide words `W.map flatten` leave the converter as the narrow
    beats `W.flatten` (lane group 0 first). -/
theorem downWords_groups (nb R : Nat) (W : List (List BWord)) (hg : ∀ g ∈ W, g.length = R)
    (hw : ∀ g ∈ W, ∀ w ∈ g, w.length = nb) : downWords nb R (W.map List.flatten) = W.flatten := by
  induction W with
  | nil => rfl
  | cons g W ih =>
    unfold downWords at ih ⊢
    rw [List.map_cons, List.flatMap_cons, List.flatten_cons,
      ih (fun x hx => hg x (by simp [hx])) (fun x hx => hw x (by simp [hx]))]
    congr 1
    have := lanesOf_flatten nb g (hw g (by simp))
    rwa [hg g (by simp)] at this

theorem allStrobed_length (w : BWord) : (allStrobed w).length = w.length := by simp [allStrobed]

theorem allStrobed_groups (W : List (List BWord)) :
    (W.map List.flatten).map allStrobed = (W.map (·.map allStrobed)).map List.flatten ∧
    W.flatten.map allStrobed = (W.map (·.map allStrobed)).flatten := by
  refine ⟨?_, ?_⟩
  · simp only [List.map_map]
    apply List.map_congr_left
    intro g _
    unfold allStrobed
    simp only [Function.comp]
    rw [List.map_flatten]
  · rw [List.map_flatten]

/-- Read data through the up-converter: the narrow R beats the master receives carry, byte for byte and in order,
    what the wide R beats of the forwarded burst carry. -/
theorem up_burstReads (k : Nat) (r : Req) (W : List (List BWord)) (hb : r.burst = BURST_INCR) (hs : r.size + k < 8)
    (hal : r.addr % numBytes (r.size + k) = 0) (hW : W.length * 2 ^ k = r.len + 1)
    (hg : ∀ g ∈ W, g.length = 2 ^ k) (hw : ∀ g ∈ W, ∀ w ∈ g, w.length = numBytes r.size) :
    burstReads (numBytes r.size) r W.flatten
      = burstReads (numBytes (r.size + k)) (upAx k r) (W.map List.flatten) := by
  unfold burstReads
  rw [(allStrobed_groups W).1, (allStrobed_groups W).2]
  refine (up_burstWrites k r (W.map (·.map allStrobed)) hb hs hal (by simpa using hW) ?_ ?_).symm
  · intro g hgm
    obtain ⟨g0, h0, rfl⟩ := List.mem_map.mp hgm
    simpa using hg g0 h0
  · intro g hgm w hwm
    obtain ⟨g0, h0, rfl⟩ := List.mem_map.mp hgm
    obtain ⟨w0, hw0, rfl⟩ := List.mem_map.mp hwm
    rw [allStrobed_length]; exact hw g0 h0 w0 hw0


end Litex.Axi
