import LitexModel.Axi.WidthConv
/-
  Bytes touched by aligned INCR bursts, and the address-channel arithmetic of the width converters.
-/
namespace Litex.Axi

theorem flatMap_congr' {α β : Type} {l : List α} {f g : α → List β} (h : ∀ a ∈ l, f a = g a) :
    l.flatMap f = l.flatMap g := by
  induction l with
  | nil => rfl
  | cons x xs ih =>
    simp only [List.flatMap_cons]
    rw [h x (by simp), ih (fun a ha => h a (by simp [ha]))]

theorem flatMap_range' (s m : Nat) : ∀ n : Nat,
    (List.range n).flatMap (fun j => List.range' (s + j * m) m) = List.range' s (n * m) := by
  intro n
  induction n with
  | zero => simp
  | succ n ih =>
    rw [List.range_succ, List.flatMap_append, ih]
    simp only [List.flatMap_cons, List.flatMap_nil, List.append_nil]
    rw [List.range'_append_1, Nat.succ_mul]

theorem alignedAddr_of_dvd {a size : Nat} (h : numBytes size ∣ a) : alignedAddr a size = a :=
  Nat.div_mul_cancel h

/-- An INCR burst whose start is aligned to the transfer size touches the contiguous byte range
    `[start, start + (len+1)·2^size)`, in ascending order. -/
theorem incr_bytes_aligned (start len size : Nat) (hal : start % numBytes size = 0) :
    burstBytes start len size BURST_INCR = List.range' start ((len + 1) * numBytes size) := by
  have hdvd : numBytes size ∣ start := Nat.dvd_of_mod_eq_zero hal
  unfold burstBytes
  rw [← flatMap_range' start (numBytes size) (len + 1)]
  apply flatMap_congr'
  intro j _
  have haddr : axiSpecAddr start len size BURST_INCR j = start + j * numBytes size := by
    unfold axiSpecAddr
    rw [if_pos rfl]
    split
    · next h => subst h; simp
    · rw [alignedAddr_of_dvd hdvd]
  have hd2 : numBytes size ∣ start + j * numBytes size := Nat.dvd_add hdvd (Nat.dvd_mul_left _ _)
  unfold beatBytes
  simp only [haddr, alignedAddr_of_dvd hd2]
  congr 1
  omega

theorem two_pow_sub_mul {sf st : Nat} (h : st ≤ sf) : 2 ^ (sf - st) * 2 ^ st = 2 ^ sf := by
  rw [← Nat.pow_add, Nat.sub_add_cancel h]

/-- Up-conversion by `2^k`, in the region the code's own comment assumes. -/
theorem upAx_bytes (k : Nat) (r : Req) (hb : r.burst = BURST_INCR) (hs : r.size + k < 8)
    (hal : r.addr % numBytes (r.size + k) = 0) (hmul : (r.len + 1) % 2 ^ k = 0) :
    burstBytes (upAx k r).addr (upAx k r).len (upAx k r).size (upAx k r).burst
      = burstBytes r.addr r.len r.size r.burst := by
  have hal2 : r.addr % numBytes r.size = 0 := by
    have : numBytes r.size ∣ numBytes (r.size + k) := by
      unfold numBytes; exact Nat.pow_dvd_pow 2 (Nat.le_add_right _ _)
    exact Nat.mod_eq_zero_of_dvd (Nat.dvd_trans this (Nat.dvd_of_mod_eq_zero hal))
  have hsz : (r.size + k) % 8 = r.size + k := Nat.mod_eq_of_lt hs
  have hlen : (r.len / 2 ^ k + 1) * 2 ^ k = r.len + 1 := by
    have hpos : 0 < 2 ^ k := Nat.two_pow_pos k
    obtain ⟨q, hq⟩ := Nat.dvd_of_mod_eq_zero hmul
    have hq1 : 1 ≤ q := by
      rcases q with _ | q
      · simp at hq
      · omega
    have : r.len = 2 ^ k * (q - 1) + (2 ^ k - 1) := by
      have : 2 ^ k * q = 2 ^ k * (q - 1) + 2 ^ k := by
        rw [← Nat.mul_succ]; congr 1; omega
      omega
    have hdiv : r.len / 2 ^ k = q - 1 := by
      rw [this, Nat.mul_add_div hpos, Nat.div_eq_of_lt (by omega)]; simp
    rw [hdiv, hq, Nat.mul_comm]; congr 1; omega
  simp only [upAx, hb, hsz]
  rw [incr_bytes_aligned _ _ _ hal, incr_bytes_aligned _ _ _ hal2]
  congr 1
  unfold numBytes
  rw [Nat.pow_add, ← Nat.mul_assoc, Nat.mul_right_comm, hlen]

/-- Down-conversion from `2^sf`-byte to `2^st`-byte words for full-width INCR bursts that still fit the 8-bit
    length: the narrow burst touches exactly the containers of the wide burst, in order. -/
theorem downAx_bytes (sf st : Nat) (r : Req) (hst : st ≤ sf) (hb : r.burst = BURST_INCR) (hs : r.size = sf)
    (hfit : (r.len + 1) * 2 ^ (sf - st) ≤ 256) :
    burstBytes (downAx sf st r).addr (downAx sf st r).len (downAx sf st r).size (downAx sf st r).burst
      = List.range' (alignedAddr r.addr sf) ((r.len + 1) * numBytes sf) := by
  have hpos : 0 < (r.len + 1) * 2 ^ (sf - st) := Nat.mul_pos (Nat.succ_pos _) (Nat.two_pow_pos _)
  have hlen : ((r.len + 1) * 2 ^ (sf - st) - 1) % 256 + 1 = (r.len + 1) * 2 ^ (sf - st) := by
    rw [Nat.mod_eq_of_lt (by omega)]; omega
  have hsize : (if r.size ≤ st then r.size else st) = st := by
    split
    · omega
    · rfl
  have hburst : (if r.burst = BURST_FIXED then BURST_INCR else r.burst) = BURST_INCR := by
    rw [hb]; rfl
  have hal : (r.addr / 2 ^ sf * 2 ^ sf) % numBytes st = 0 := by
    apply Nat.mod_eq_zero_of_dvd
    exact Nat.dvd_trans (Nat.pow_dvd_pow 2 hst) (Nat.dvd_mul_left _ _)
  simp only [downAx, hsize, hburst]
  rw [incr_bytes_aligned _ _ _ hal, hlen]
  unfold alignedAddr numBytes
  rw [Nat.mul_assoc, two_pow_sub_mul hst]

end Litex.Axi
